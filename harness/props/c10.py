"""C10 — backward propagation and time grids mean what they say.

Model: lean/HitenModel/Core/C10.lean (hand-written, import-free): `_DirectedSystem._rhs_impl`, `_propagate_dynsys`,
`validate_inputs`, `_maybe_constant_solution`, the fixed-step loop, the adaptive step loops + searchsorted dense output,
the no-crossing path of the adaptive event drivers, the symplectic driver.  Numerics are oracle parameters.

Tie (every run):
 * regenerated  Gen/C10.lean: the switches `Cfg` (time argument of the directed field, sign handling of the symplectic
   integrator, presence of a descending-grid guard in the adaptive integrators) and the sign table of the directed wrapper
   are extracted by *executing* the current Python objects (py_func on symbolic values / real `integrate` with the compiled
   kernels replaced by sentinels);
 * correspondence: the real Python-level code (`_propagate_dynsys`, every `integrate`, and the pure-python bodies `.py_func`
   of the compiled drivers with the numerical kernels / controller replaced by recording stubs) is run on seeded tick grids
   (exact in float64) and compared *exactly* with the Lean model through Drivers/C10.lean;
 * numerical shell on the real compiled code: outcome class of every integrator on descending grids against closed-form
   solutions, forward∘backward round trips, sign of the returned stamps.
"""
from __future__ import annotations

import contextlib
import math
import types
import warnings

import numpy as np

TICK_EXP = 30
TICK = 2.0 ** -TICK_EXP
BIG = 1 << 22           # grid values are multiples of BIG ticks so that a few halvings of h stay integral

_CACHE = {}


# =====================================================================================================
# small helpers
# =====================================================================================================

def _plain_copy(fn, overrides):
    """Pure-python copy of a (numba) function object with some of its module globals rebound."""
    f = getattr(fn, "py_func", fn)
    g = dict(f.__globals__)
    g.update(overrides)
    new = types.FunctionType(f.__code__, g, f.__name__, f.__defaults__, f.__closure__)
    new.__kwdefaults__ = f.__kwdefaults__
    return new


@contextlib.contextmanager
def _patched(obj, name, value):
    had = name in obj.__dict__
    old = obj.__dict__.get(name)
    setattr(obj, name, value)
    try:
        yield
    finally:
        if had:
            setattr(obj, name, old)
        else:
            delattr(obj, name)


def _ints(l):
    l = list(l)
    return ",".join(str(int(x)) for x in l) if l else "-"


def _to_ticks(arr):
    """exact tick values of a float array (None if some value is not an integral number of ticks)"""
    out = []
    for x in np.asarray(arr, dtype=float).ravel():
        v = float(x) / TICK
        if not math.isfinite(v) or v != int(v):
            return None
        out.append(int(v))
    return out


def _err_class(ex):
    msg = str(ex)
    if isinstance(ex, (ZeroDivisionError, FloatingPointError)):
        return "zeroDivision"
    if isinstance(ex, ValueError):
        if "at least 2" in msg:
            return "tooShort"
        if "strictly monotonic" in msg:
            return "notMonotone"
        if "increasing" in msg or "descending" in msg or "decreasing" in msg or "ascending" in msg:
            return "descendingRejected"
    return "other:%s:%s" % (type(ex).__name__, msg[:80])


def _user_system(kind):
    """User systems with closed-form flows, as real hiten dynamical systems (numba rhs)."""
    if ("sys", kind) in _CACHE:
        return _CACHE[("sys", kind)]
    import numba
    from hiten.algorithms.dynamics.base import _DynamicalSystem

    if kind == "rotation":          # autonomous, linear
        @numba.njit
        def rhs(t, y):
            return np.array([y[1], -y[0]])
        exact = lambda t, y0: np.array([y0[0] * np.cos(t) + y0[1] * np.sin(t), -y0[0] * np.sin(t) + y0[1] * np.cos(t)])
        y0 = np.array([1.0, 0.25])
        auto = True
    elif kind == "riccati":         # autonomous, nonlinear:  y' = -y^2, z' = -2 z^2
        @numba.njit
        def rhs(t, y):
            return np.array([-y[0] * y[0], -2.0 * y[1] * y[1]])
        exact = lambda t, y0: np.array([1.0 / (t + 1.0 / y0[0]), 1.0 / (2.0 * t + 1.0 / y0[1])])
        y0 = np.array([0.25, 0.125])
        auto = True
    elif kind == "nonauto":         # time dependent:  y' = t, z' = cos(t) z
        @numba.njit
        def rhs(t, y):
            return np.array([t, np.cos(t) * y[1]])
        exact = lambda t, y0: np.array([y0[0] + 0.5 * t * t, y0[1] * np.exp(np.sin(t))])
        y0 = np.array([0.0, 0.7])
        auto = False
    else:
        raise ValueError(kind)

    class S(_DynamicalSystem):
        def __init__(self):
            super().__init__(2)

        def _build_rhs_impl(self):
            return rhs

    r = (S(), exact, y0, auto)
    _CACHE[("sys", kind)] = r
    return r


def _poly_ham_system():
    """1-dof nonlinear polynomial Hamiltonian H = (p1^2+q1^2)/2 + q1^3/3 embedded in the 3-dof layout."""
    if "ham" in _CACHE:
        return _CACHE["ham"]
    from numba.typed import List
    from hiten.algorithms.dynamics.hamiltonian import create_hamiltonian_system
    from hiten.algorithms.integrators.symplectic import N_SYMPLECTIC_DOF, N_VARS_POLY
    from hiten.algorithms.polynomial.base import _create_encode_dict_from_clmo, _encode_multiindex, _init_index_tables
    D = 4
    psi, clmo = _init_index_tables(D)
    enc = _create_encode_dict_from_clmo(clmo)
    H = [np.zeros(psi[N_VARS_POLY, d], dtype=np.complex128) for d in range(D + 1)]

    def setc(k, c):
        k = np.array(k, dtype=np.int64)
        d = int(k.sum())
        H[d][_encode_multiindex(k, d, enc)] += c

    setc([0, 0, 0, 2, 0, 0], 0.5)
    setc([2, 0, 0, 0, 0, 0], 0.5)
    setc([3, 0, 0, 0, 0, 0], 1.0 / 3.0)
    setc([0, 2, 0, 0, 0, 0], 0.5)       # second oscillator so that more than one dof moves
    setc([0, 0, 0, 0, 2, 0], 0.5)
    setc([1, 2, 0, 0, 0, 0], 0.25)      # coupling q1 q2^2
    Hn = List()
    for a in H:
        Hn.append(a.copy())
    hs = create_hamiltonian_system(Hn, D, psi, clmo, enc, N_SYMPLECTIC_DOF, "C10-test")

    def field(t, y):
        q1, q2, q3, p1, p2, p3 = y
        return [p1, p2, 0.0, -(q1 + q1 * q1 + 0.25 * q2 * q2), -(q2 + 0.5 * q1 * q2), 0.0]

    _CACHE["ham"] = (hs, field, np.array([0.1, -0.05, 0.0, 0.2, 0.1, 0.0]))
    return _CACHE["ham"]


# =====================================================================================================
# gen: extract the switches of the code by executing it
# =====================================================================================================

def _trace_directed(ctx):
    """Run the current `_rhs_impl` python body on symbolic (t, y) with a recording base field."""
    import tracer as T
    from hiten.algorithms.dynamics.base import _DirectedSystem
    base, _, _, _ = _user_system("rotation")
    dim = 4
    rows = []
    problems = []

    class _B(type(base)):
        pass

    for fwd in (1, -1, 0, -3, 2):
        for flip in (None, [1, 3], slice(2, 4), [], [0, 1, 2, 3], slice(0, 4, 2)):
            b = _B()
            b._dim = dim
            ds = _DirectedSystem(b, fwd, flip_indices=flip)
            impl = ds._build_rhs_impl()
            pf = getattr(impl, "py_func", impl)
            T.reset()
            t = T.Sym.var("t", 0.37)
            y = T.symarray([T.Sym.var("y%d" % i, 0.2 + 0.1 * i) for i in range(dim)])
            calls = []

            def rec(tt, yy):
                calls.append(T.Sym.lift(tt))
                return T.symarray([T.Sym.var("d%d" % i, 0.3 + i) for i in range(dim)])

            out = pf(t, y, _base_rhs=rec)
            if len(calls) != 1:
                problems.append("base field called %d times" % len(calls))
                continue
            nf = T.polynf(calls[0])
            if nf is None or list(nf.keys()) != [(("t", 1),)] or nf[(("t", 1),)] not in (1, -1):
                problems.append("time argument of the base field is not ±t: %s" % T.show(calls[0], 200))
                continue
            tco = int(nf[(("t", 1),)])
            signs = []
            for i in range(dim):
                nfo = T.polynf(T.Sym.lift(out[i]))
                key = (("d%d" % i, 1),)
                if nfo is None or list(nfo.keys()) != [key] or nfo[key] not in (1, -1):
                    problems.append("output component %d is not ±dy[%d]" % (i, i))
                    signs = None
                    break
                signs.append(int(nfo[key]))
            if signs is None:
                continue
            fl = None if flip is None else list(range(dim))[flip] if isinstance(flip, slice) else list(flip)
            rows.append((fwd, fl, dim, tco, signs))
    return rows, problems


def _extract_symplectic_signs(ctx):
    from hiten.algorithms.integrators import symplectic as sy
    res = {}
    seen = {}

    def stub(initial_state_6d, t_values, jac_H, clmo_H, order, c_omega_heuristic=20.0):
        seen["grid"] = np.array(t_values, dtype=float)
        return np.zeros((len(t_values), 6))

    t_vals = np.array([1.0, 2.0, 4.0])
    for fwd in (1, -1):
        fake = types.SimpleNamespace(rhs=lambda t, y: y, dim=6, jac_H=None, clmo_H=None, n_dof=3, _fwd=fwd)
        with _patched(sy, "_integrate_symplectic", stub):
            sol = sy._ExtendedSymplectic(order=4).integrate(fake, np.zeros(6), t_vals.copy())
        rg = seen["grid"] / t_vals
        rt = np.asarray(sol.times, dtype=float) / t_vals
        if not (np.all(rg == rg[0]) and rg[0] in (1.0, -1.0) and np.all(rt == rt[0]) and rt[0] in (1.0, -1.0)):
            raise RuntimeError("symplectic integrate: grid/times are not ±t_vals (grid ratio %s, times ratio %s)" % (rg, rt))
        res[fwd] = (int(rg[0]), int(rt[0]))
    return res


def _extract_guards(ctx):
    """Does `integrate` of the adaptive classes reject a strictly decreasing grid before entering the compiled driver?"""
    from hiten.algorithms.integrators import rk
    out = {}
    fake = types.SimpleNamespace(rhs=lambda t, y: np.array([1.0]), dim=1)
    grid = np.array([0.0, -1.0, -3.0])

    class Entered(Exception):
        pass

    def sentinel(*a, **k):
        raise Entered()

    def ev(t, y):
        return 1.0

    for cls, name, kern, kern_ev in ((rk._RK45, "45", "_integrate_rk45", "_integrate_rk45_until_event"),
                                     (rk._DOP853, "853", "_integrate_dop853", "_integrate_dop853_until_event")):
        for event in (False, True):
            with _patched(cls, kern, staticmethod(sentinel)), _patched(cls, kern_ev, staticmethod(sentinel)), \
                    _patched(cls, "_compile_event_function", lambda self, f: f):
                try:
                    cls().integrate(fake, np.array([0.5]), grid.copy(), event_fn=ev if event else None)
                    raise RuntimeError("%s.integrate returned without entering the driver" % cls.__name__)
                except Entered:
                    g = False
                except ValueError as ex:
                    if _err_class(ex) != "descendingRejected":
                        raise
                    g = True
            out[("Event" if event else "") + name] = g
    return out


def _lean_opt_list(l):
    return "none" if l is None else "(some [%s])" % ", ".join(str(int(i)) for i in l)


def gen(ctx):
    rows, problems = _trace_directed(ctx)
    for p in problems:
        ctx.broken.append(("trace:directed", p))
        ctx.obligations["trace:directed"] = False
    tcoefs = sorted({r[3] for r in rows if (1 if r[0] >= 0 else -1) == -1})
    if len(tcoefs) != 1:
        ctx.broken.append(("trace:directed", "backward wrappers disagree on the time argument: %s" % tcoefs))
        ctx.obligations["trace:directed"] = False
    dir_tcoef = tcoefs[0] if tcoefs else 1
    sy = _extract_symplectic_signs(ctx)
    if sy[1] != (1, 1):
        ctx.broken.append(("trace:symplectic", "forward symplectic integrate alters the grid/times: %s" % (sy[1],)))
        ctx.obligations["trace:symplectic"] = False
    guards = _extract_guards(ctx)
    b = lambda v: "true" if v else "false"
    txt = ("-- GENERATED by /verif/harness/props/c10.py from /repo's current source on every run. DO NOT EDIT.\n"
           "-- switches and sign table extracted by executing the current Python objects (see c10.py: gen)\n"
           "import HitenModel.Core.C10\nnamespace HitenModel.Gen.C10\nopen HitenModel HitenModel.C10\n\n")
    txt += ("def cfg : Cfg where\n  dirTimeCoef := %d\n  symGridSign := %d\n  symTimesSign := %d\n"
            "  guard45 := %s\n  guard853 := %s\n  guardEvent45 := %s\n  guardEvent853 := %s\n\n" % (
                dir_tcoef, sy[-1][0], sy[-1][1], b(guards["45"]), b(guards["853"]), b(guards["Event45"]), b(guards["Event853"])))
    txt += ("/-- traced `_DirectedSystem._rhs_impl`: (fwd given to the constructor, flip_indices, dim,\n"
            "    coefficient of `t` in the time passed to the base field, per-component sign of the output) -/\n"
            "def dirTrace : List (Int × Option (List Nat) × Nat × Int × List Int) := [\n  %s]\n" % ",\n  ".join(
                "(%d, %s, %d, %d, [%s])" % (r[0], _lean_opt_list(r[1]), r[2], r[3], ", ".join(str(s) for s in r[4])) for r in rows))
    txt += "\nend HitenModel.Gen.C10\n"
    ctx.write_gen("HitenModel.Gen.C10", txt)
    cfg = {"dirTimeCoef": dir_tcoef, "symGridSign": sy[-1][0], "symTimesSign": sy[-1][1], "guards": guards}
    ctx.extra["cfg_extracted_from_source"] = {k: (v if not isinstance(v, dict) else {str(a): b for a, b in v.items()}) for k, v in cfg.items()}
    _CACHE["cfg"] = cfg
    return cfg


# =====================================================================================================
# correspondence: real Python-level code + py_func bodies of the compiled drivers  vs  the Lean model
# =====================================================================================================

class _Corr:
    """collects (lean input line, canonical answer of the real code, description)"""

    def __init__(self, ctx):
        self.ctx = ctx
        self.items = []

    def add(self, name, line, real, desc):
        self.items.append((name, line, real, desc))

    def flush(self):
        ctx = self.ctx
        if not self.items:
            return
        out = ctx.lean_run("Drivers/C10.lean", "\n".join(l for _, l, _, _ in self.items) + "\n")
        out = [l for l in out if l.strip()]
        bad = {}
        if len(out) != len(self.items):
            ctx.broken.append(("correspondence:driver", "driver answered %d lines for %d operations: %s" % (len(out), len(self.items), out[-3:])))
            ctx.obligations["correspondence:driver"] = False
            return
        names = set()
        for (name, line, real, desc), got in zip(self.items, out):
            names.add(name)
            ctx.corr_cases += 1
            if got.strip() != real.strip():
                bad.setdefault(name, []).append({"op": line, "model": got, "code": real, "case": desc})
        for n in sorted(names):
            key = "correspondence:" + n
            if n in bad:
                ctx.obligations[key] = False
                ctx.broken.append((key, "model and code disagree on %d case(s); first: %s" % (len(bad[n]), bad[n][0])))
            else:
                ctx.obligations.setdefault(key, True)
        self.bad = bad
        self.items = []
        return bad


def _rand_grid(rng, kind=None):
    """tick grid of a given kind; values are multiples of BIG ticks"""
    kind = kind or rng.choice(["asc", "asc", "desc", "desc", "zero", "nonmono", "short", "asc2", "desc2", "mixedzero"])
    n = rng.randint(2, 7)
    t0 = rng.randint(-6, 6) * BIG * rng.choice([1, 1, 4])
    if kind in ("asc", "desc"):
        ds = [rng.randint(1, 9) * BIG for _ in range(n - 1)]
        sgn = 1 if kind == "asc" else -1
        ts = [t0]
        for d in ds:
            ts.append(ts[-1] + sgn * d)
    elif kind in ("asc2", "desc2"):
        ts = [t0, t0 + (1 if kind == "asc2" else -1) * rng.randint(1, 9) * BIG]
    elif kind == "zero":
        ts = [t0] * n
    elif kind == "short":
        ts = [t0] * rng.randint(0, 1)
    elif kind == "mixedzero":
        ts = [t0, t0 + BIG, t0 + BIG] + [t0 + 2 * BIG] * rng.randint(0, 1)
    else:
        ts = [t0]
        for _ in range(n - 1):
            ts.append(ts[-1] + rng.choice([-2, -1, 1, 2, 3]) * BIG)
        d = np.diff(ts)
        if np.all(d > 0) or np.all(d < 0):
            ts[-1] = ts[-2] - (ts[1] - ts[0])
    return kind, ts


def _close_bit(ts):
    if len(ts) < 2:
        return 0
    return int(bool(np.isclose(ts[0] * TICK, ts[-1] * TICK)))


def corr_validate_fixed_sym(ctx, C, n_cases):
    """validate_inputs + the fixed-step and symplectic `integrate` with the py_func bodies of their compiled loops."""
    from hiten.algorithms.integrators import rk
    from hiten.algorithms.integrators import symplectic as sy
    rng = ctx.rng
    fake = types.SimpleNamespace(rhs=lambda t, y: np.array([1.0]), dim=1)
    for _ in range(n_cases):
        kind, ts = _rand_grid(rng)
        tv = np.array([t * TICK for t in ts], dtype=float)
        ctx.case(("grid", kind, len(ts), ts[0] if ts else None), kind="grid:" + kind)
        # ---- validate_inputs alone
        try:
            rk._RK4().validate_inputs(fake, np.array([0.5]), tv.copy())
            d = np.diff(tv)
            real = "val ok:" + ("zeroSpan" if np.all(d == 0) else "ascending" if np.all(d > 0) else "descending")
        except Exception as ex:
            real = "val err:" + _err_class(ex)
        C.add("validate_inputs", "VAL " + _ints(ts), real, {"grid": ts})
        # ---- fixed-step integrate: real python entry + python body of the compiled loop, RK step recorded
        log = []

        def step_stub(f, t, y, h, A, B, BL, Cc, has):
            log.append((t, h))
            return y + h, y + h, np.zeros_like(y)

        order = rng.choice(sorted(rk.FixedRK._map))
        integ = rk.FixedRK(order)
        loop_py = _plain_copy(rk._FixedStepRK._integrate_fixed_rk, {"rk_embedded_step_jit_kernel": step_stub})
        y0 = np.array([0.5])
        try:
            with _patched(rk._FixedStepRK, "_integrate_fixed_rk", staticmethod(loop_py)):
                sol = integ.integrate(fake, y0, tv.copy())
            tt = _to_ticks(sol.times)
            lg = [(_to_ticks([a])[0], _to_ticks([b])[0]) for a, b in log]
            ok_first = bool(np.array_equal(sol.states[0], y0))
            real = "fix times=%s n=%d log=%s" % (_ints(tt), len(sol.states), ";".join("%d:%d" % p for p in lg) if lg else "-")
            if not ok_first:
                real += " FIRST-SAMPLE-NOT-Y0"
        except Exception as ex:
            real = "fix err:" + _err_class(ex)
        C.add("fixed_integrate", "FIX %d %s" % (_close_bit(ts), _ints(ts)), real, {"grid": ts, "order": order})
        # ---- symplectic integrate, _fwd = +1 / -1
        fwd = rng.choice([1, -1])
        dts = []

        def upd_stub(q_ext, dt, order, omega, jac_H, clmo_H):
            dts.append(dt)

        loop_core = _plain_copy(sy._integrate_symplectic, {"_recursive_update_poly": upd_stub, "_get_tao_omega": lambda *a: 1.0})
        seen_grid = []

        def loop_py(initial_state_6d, t_values, jac_H, clmo_H, order, c_omega_heuristic=20.0, _g=seen_grid, _core=loop_core):
            _g.append(np.array(t_values, dtype=float))
            return _core(initial_state_6d, t_values, jac_H, clmo_H, order, c_omega_heuristic)
        fsys = types.SimpleNamespace(rhs=lambda t, y: y, dim=6, jac_H=None, clmo_H=None, n_dof=3, _fwd=fwd)
        try:
            with _patched(sy, "_integrate_symplectic", loop_py):
                sol = sy._ExtendedSymplectic(order=rng.choice([2, 4, 6])).integrate(fsys, np.arange(6.0), tv.copy())
            real = "sym times=%s grid=%s n=%d dts=%s" % (_ints(_to_ticks(sol.times)), _ints(_to_ticks(seen_grid[0])), len(sol.states), _ints(_to_ticks(dts)))
            if not np.array_equal(sol.states[0], np.arange(6.0)):
                real += " FIRST-SAMPLE-NOT-Y0"
        except Exception as ex:
            real = "sym err:" + _err_class(ex)
        C.add("symplectic_integrate", "SYM %d %s" % (fwd, _ints(ts)), real, {"grid": ts, "fwd": fwd})


class _AdaptiveStub:
    """Recording replacements of the numerical kernels and of the step controller of the adaptive drivers.
    Toy dynamics y' = 1 (exact), so that the state identifies the node it belongs to."""
    SENT = 1.0e6

    def __init__(self, rng, h0, n_plan):
        self.plan = [(rng.random() < 0.7, rng.choice([0.25, 0.5, 0.5, 1.0, 2.0, 2.0, 4.0])) for _ in range(n_plan)]
        self.i = 0
        self.h0 = h0
        self.log = []        # oracle answers experienced by the real loop: (accepted, h*factor in ticks)
        self.cur = None
        self.evals = []      # dense evaluations: (y_old, x, hseg)
        self.attempts = 0
        self.nodes = None    # accepted nodes (floats) as experienced by the real loop
        self.entered = False
        self.last_hseg = None

    def _next(self, t, h):
        self.attempts += 1
        if self.attempts > 400:
            raise RuntimeError("adaptive loop does not terminate under the stub")
        acc, fac = self.plan[self.i] if self.i < len(self.plan) else (True, 2.0)
        self.i += 1
        self.cur = (acc, fac, h, t)
        return acc

    def step45(self, f, t, y, h, A, B, Cc, E):
        acc = self._next(t, h)
        return y + h, y + h, np.array([0.0 if acc else 4.0]), np.array([[float(len(self.log))]])

    def step853(self, f, t, y, h, A, B, Cc, E5, E3):
        acc = self._next(t, h)
        e5 = np.array([0.0 if acc else 4.0 / abs(h)])
        return y + h, y + h, e5.copy(), e5, np.zeros(1), np.array([[float(len(self.log))]])

    def acc_factor(self, err_norm, err_prev, order):
        acc, fac, h, t = self.cur
        assert acc and err_norm <= 1.0
        self.log.append((1, h * fac))
        self.nodes.append(t + h)
        return fac

    def rej_factor(self, err_norm, order):
        acc, fac, h, t = self.cur
        assert (not acc) and err_norm > 1.0
        self.log.append((0, h * fac))
        return fac

    def overrides(self):
        return {
            "List": list,
            "rk45_step_jit_kernel": self.step45,
            "dop853_step_jit_kernel": self.step853,
            "_pi_accept_factor": self.acc_factor,
            "_pi_reject_factor": self.rej_factor,
            "_select_initial_step": lambda d0, d1, mn, mx: self.h0,
            "_error_scale": lambda y, yh, rtol, atol: np.ones_like(y),
            "_rk45_build_Q_cache": lambda Kseg, P, dim: Kseg,
            "_rk45_eval_dense": self.eval45,
            "_dop853_build_dense_cache": self.build853,
            "_dop853_eval_dense": self.eval853,
        }

    def eval45(self, y_old, Q, P, x, hseg):
        self.evals.append((float(y_old[0]), float(x), float(hseg)))
        return np.array([self.SENT + len(self.evals) - 1])

    def build853(self, **kw):
        self.last_hseg = float(kw["hseg"])
        return np.zeros((1, 1))

    def wrap(self, loop_py, t0_index=2):
        """kernel wrapper: notes that the compiled driver was entered and where it started"""
        def kernel(*a, **kw):
            self.entered = True
            t_eval = kw["t_eval"] if "t_eval" in kw else None
            self.nodes = [float(t_eval[0])] if t_eval is not None else [float(a[t0_index])]
            return loop_py(*a, **kw)
        return kernel

    def eval853(self, y_old, F, power, x):
        self.evals.append((float(y_old[0]), float(x), self.last_hseg))
        return np.array([self.SENT + len(self.evals) - 1])


def _oracle_str(log):
    if not log:
        return "-"
    parts = []
    for a, h in log:
        v = h / TICK
        if v != int(v):
            return None
        parts.append("%d:%d" % (a, int(v)))
    return ",".join(parts)


def corr_adaptive(ctx, C, n_cases):
    """`_RK45.integrate` / `_DOP853.integrate` (real python entry) + python bodies of `_integrate_rk45` / `_integrate_dop853`
    and of the `*_until_event` drivers, numerical kernels and controller replaced by recording stubs (oracle)."""
    from hiten.algorithms.integrators import rk
    from hiten.algorithms.integrators.coefficients.rk45 import P as RK45_P
    rng = ctx.rng
    cfg = _CACHE["cfg"]
    fake = types.SimpleNamespace(rhs=lambda t, y: np.array([1.0]), dim=1)
    y0v = 0.5
    for it in range(n_cases):
        kind, ts = _rand_grid(rng, rng.choice(["asc", "asc", "asc", "asc2", "desc", "desc2", "zero", "nonmono", "short"]))
        tv = np.array([t * TICK for t in ts], dtype=float)
        k = rng.choice(["45", "853"])
        cls = rk._RK45 if k == "45" else rk._DOP853
        kern = "_integrate_rk45" if k == "45" else "_integrate_dop853"
        h0 = rng.choice([1, 2, 3, 5, 8, 40]) * BIG
        maxS = rng.choice([4 * BIG, 16 * BIG, 1 << 40])
        minS = rng.choice([1, BIG // 16, BIG])
        stub = _AdaptiveStub(rng, h0 * TICK, rng.randint(0, 10))
        loop_py = _plain_copy(getattr(cls, kern), stub.overrides())
        integ = cls(rtol=1.0, atol=1.0, max_step=maxS * TICK, min_step=minS * TICK)
        ctx.case(("adaptive", k, kind, len(ts), h0, maxS, minS, tuple(stub.plan[:3])), kind="adaptive:%s:%s" % (k, kind))
        real = None
        try:
            with _patched(cls, kern, staticmethod(stub.wrap(loop_py))), np.errstate(divide="raise", invalid="raise"), warnings.catch_warnings():
                warnings.simplefilter("ignore")
                sol = integ.integrate(fake, np.array([y0v]), tv.copy())
            if not stub.entered:
                real = "adp const:%d" % len(sol.states) if np.all(sol.states == y0v) else "adp CONST-NOT-Y0"
            elif _to_ticks(sol.times) != ts:
                real = "adp TIMES-NOT-REQUESTED-GRID"
            else:
                nodes = _to_ticks(stub.nodes)
                node_of_state = {y0v + (t - nodes[0]) * TICK: j for j, t in enumerate(nodes)}
                parts = []
                for idx in range(len(ts)):
                    v = float(sol.states[idx, 0])
                    if v >= _AdaptiveStub.SENT:
                        yo, x, hseg = stub.evals[int(v - _AdaptiveStub.SENT)]
                        j = node_of_state.get(yo)
                        den = hseg / TICK
                        num = round(x * den)
                        if j is not None and den == int(den) and (num * TICK) / hseg == x:
                            parts.append("d:%d:%d:%d" % (j, num, int(den)))
                        else:
                            parts.append("d:%s:x=%r:h=%r" % (j, x, hseg))
                    else:
                        parts.append("l:%s" % node_of_state.get(v))
                real = "adp nodes=%s samples=%s" % (_ints(nodes), ",".join(parts))
        except Exception as ex:
            real = "adp err:" + _err_class(ex)
        orc = _oracle_str(stub.log)
        if orc is None:
            continue    # a halving produced a non-integral tick count: not representable, skip the case
        line = "ADP %s %d %d %d %d %d %s %s" % (k, int(cfg["guards"][k]), _close_bit(ts), maxS, minS, h0, _ints(ts), orc)
        C.add("adaptive_integrate", line, real, {"grid": ts, "kind": k, "h0": h0, "maxS": maxS, "minS": minS, "oracle": orc})
        # ---- event driver, no crossing
        if kind in ("asc", "asc2", "desc", "desc2") and rng.random() < 0.6:
            stub2 = _AdaptiveStub(rng, h0 * TICK, rng.randint(0, 8))
            kern_ev = kern + "_until_event"
            ev_py = stub2.wrap(_plain_copy(getattr(cls, kern_ev), stub2.overrides()))
            try:
                if k == "45":
                    r = ev_py(fake.rhs, np.array([y0v]), tv[0], tv[-1], None, None, None, None, RK45_P, 1.0, 1.0, maxS * TICK, minS * TICK, 5,
                              lambda t, y: 1.0, 0, 1, 1e-12, 1e-12)
                else:
                    r = ev_py(fake.rhs, np.array([y0v]), tv[0], tv[-1], None, None, None, None, None, None, 16, 7, None, None, 1.0, 1.0,
                              maxS * TICK, minS * TICK, 8, lambda t, y: 1.0, 0, 1, 1e-12, 1e-12)
                hit, t_end, y_end, y_last = r
                n_acc = sum(1 for a, _ in stub2.log if a)
                consistent = ((not hit) and float(y_end[0]) == y0v + (float(t_end) - tv[0]) and float(t_end) == stub2.nodes[-1]
                              and float(y_last[0]) == float(y_end[0]) and len(stub2.nodes) == n_acc + 1)
                real_e = "evt nohit:%d:%d:%d" % (ts[0], ts[-1], n_acc) + ("" if consistent else " INCONSISTENT")
            except Exception as ex:
                real_e = "evt err:" + _err_class(ex)
            orc2 = _oracle_str(stub2.log)
            if orc2 is not None:
                C.add("adaptive_event_driver", "EVT %d %d %d %s %s" % (maxS, minS, h0, _ints(ts), orc2), real_e,
                      {"grid": ts, "kind": k, "oracle": orc2})
    # ---- entry logic (guards from Gen.cfg) on every grid kind, event and non-event, kernels replaced by sentinels
    class Entered(Exception):
        pass

    def sentinel(*a, **kw):
        raise Entered()

    for it in range(max(20, n_cases // 2)):
        kind, ts = _rand_grid(rng)
        tv = np.array([t * TICK for t in ts], dtype=float)
        k = rng.choice(["45", "853"])
        ev = rng.choice([0, 1])
        cls = rk._RK45 if k == "45" else rk._DOP853
        kern = "_integrate_rk45" if k == "45" else "_integrate_dop853"
        with _patched(cls, kern, staticmethod(sentinel)), _patched(cls, kern + "_until_event", staticmethod(sentinel)), \
                _patched(cls, "_compile_event_function", lambda self, f: f):
            try:
                sol = cls().integrate(fake, np.array([y0v]), tv.copy(), event_fn=(lambda t, y: 1.0) if ev else None)
                real = "entry const:%d" % len(sol.states)
            except Entered:
                real = "entry run"
            except Exception as ex:
                real = "entry err:" + _err_class(ex)
        ctx.case(("entry", k, ev, kind, len(ts)), kind="entry:%s" % kind)
        C.add("adaptive_entry", "ENTRY %s %d %d %s" % (k, ev, _close_bit(ts), _ints(ts)), real, {"grid": ts, "kind": k, "event": ev})


def corr_propagate(ctx, C, n_cases):
    """The real `_propagate_dynsys` (and the real `integrate` methods it dispatches to); only the compiled drivers are stubbed."""
    from hiten.algorithms.dynamics.base import _propagate_dynsys
    from hiten.algorithms.integrators import rk
    from hiten.algorithms.integrators import symplectic as sy
    rng = ctx.rng
    hs, _, yh = _poly_ham_system()
    usr, _, yu, _ = _user_system("rotation")
    calls = []

    def spy(cls):
        orig = cls.__dict__["integrate"]

        def integrate(self, system, y0, t_vals, **kw):
            calls.append((getattr(system, "_fwd", None), getattr(system, "_flip_idx", "missing"), np.array(t_vals, dtype=float)))
            return orig(self, system, y0, t_vals, **kw)
        return integrate

    def k_fixed(f, y0, t_vals, *a):
        s = np.zeros((t_vals.size, y0.size))
        return s, s.copy()

    def k_adapt(**kw):
        s = np.zeros((kw["t_eval"].size, kw["y0"].size))
        return s, s.copy()

    def k_sym(initial_state_6d, t_values, jac_H, clmo_H, order, c_omega_heuristic=20.0):
        return np.zeros((len(t_values), 6))

    with contextlib.ExitStack() as st:
        for cls in (rk._FixedStepRK, rk._RK45, rk._DOP853, sy._ExtendedSymplectic):
            st.enter_context(_patched(cls, "integrate", spy(cls)))
        st.enter_context(_patched(rk._FixedStepRK, "_integrate_fixed_rk", staticmethod(k_fixed)))
        st.enter_context(_patched(rk._RK45, "_integrate_rk45", staticmethod(k_adapt)))
        st.enter_context(_patched(rk._DOP853, "_integrate_dop853", staticmethod(k_adapt)))
        st.enter_context(_patched(sy, "_integrate_symplectic", k_sym))
        for _ in range(n_cases):
            method = rng.choice(["fixed", "adaptive", "symplectic"])
            order = {"fixed": rng.choice([4, 6, 8]), "adaptive": rng.choice([5, 8]), "symplectic": rng.choice([2, 4, 6])}[method]
            forward = rng.choice([1, -1, -1, -1, 1, 2, -2, 0])
            n = rng.choice([0, 1, 2, 2, 3, 5, 9, 17])
            d = rng.choice([0, 1, 3, -2, 5, 8, -1]) * BIG
            if rng.random() < 0.15:
                d = rng.choice([1, -1, 2])          # span below np.isclose's tolerance -> zero-span short circuit
            t0 = rng.choice([0, 0, 0, 3, -5, 40]) * BIG
            flip = rng.choice([None, None, [1], [0, 1]])
            sysm, y0 = (hs, yh) if method == "symplectic" else (usr, yu)
            if method == "symplectic" and flip is not None:
                flip = [0, 3]
            tf = t0 + d * (n - 1)
            grid = np.linspace(t0 * TICK, tf * TICK, n) if n > 0 else np.array([])
            gt = _to_ticks(grid)
            if gt != [t0 + d * i for i in range(n)]:
                continue
            del calls[:]
            ctx.case(("propagate", method, order, forward, n, d, t0, str(flip)), kind="propagate:%s:fwd%d" % (method, forward))
            try:
                sol = _propagate_dynsys(sysm, y0, t0 * TICK, tf * TICK, forward=forward, steps=n, method=method, order=order,
                                        flip_indices=flip)
                real_tail = "times=%s n=%d" % (_ints(_to_ticks(sol.times)), len(sol.states))
            except Exception as ex:
                real_tail = "err:" + _err_class(ex)
            nf = 1 if forward >= 0 else -1
            call_s = "call=%d/%s/%s" % (nf, "none" if flip is None else _ints(flip), _ints(gt))
            if calls:
                f_, fl_, g_ = calls[0]
                seen = "call=%s/%s/%s" % (f_, "none" if fl_ is None else _ints(fl_), _ints(_to_ticks(g_)))
                if seen != call_s:
                    call_s = seen + " (REAL CALL)"
            cl = _close_bit(gt) if n >= 2 else 0
            line = "PROP %s %s %d %s %d %d %d %d" % (method, "45" if order == 5 else "853", forward,
                                                     "none" if flip is None else _ints(flip), t0, d, n, cl)
            C.add("propagate_dynsys", line, "prop " + call_s + " " + real_tail,
                  {"method": method, "order": order, "forward": forward, "t0": t0, "d": d, "n": n, "flip": flip})


def correspondence(ctx):
    C = _Corr(ctx)
    n = 160 if ctx.thorough() else 45
    corr_validate_fixed_sym(ctx, C, n)
    corr_adaptive(ctx, C, 2 * n)
    corr_propagate(ctx, C, 3 * n)
    bad = C.flush() or {}
    ctx.extra["correspondence_cases"] = ctx.corr_cases
    return bad


# =====================================================================================================
# run
# =====================================================================================================

PROP_MODS = ["HitenModel.Props.C10"]
SRC_MODS = ["HitenModel.Props.C10", "HitenModel.Gen.C10", "HitenModel.Core.C10", "HitenModel.Lemmas.C10"]


def run(ctx):
    import hiten  # noqa: F401  (numba compile at import)
    gen(ctx)
    ok = ctx.lean_build(PROP_MODS)
    if ok:
        ctx.lean_audit(PROP_MODS, SRC_MODS)
        if ctx.thorough():
            ctx.leanchecker(PROP_MODS)
    correspondence(ctx)
    ctx.rule = ("cells = (entry point, integrator/method/order, direction, grid kind [ascending/descending/zero-span/non-monotone/short], "
                "grid size, controller oracle); distinct by that tuple; non-trivial = the case reaches a step loop or a sign decision")
