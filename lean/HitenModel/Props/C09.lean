/-
  Props/C09.lean — property C09: centre-manifold points map to synodic states consistently in position and energy.

  Model: `Core/C09.lean` (hand model of the bookkeeping of `services/center.py`, `services/maps.py`,
  `poincare/centermanifold/interfaces.py`, polymorphic in the scalar field) and `Gen/C09.lean`, regenerated on every run
  by *executing* the current objects with recording stubs (routing tables) and by tracing
  `_local2synodic_collinear` / `_synodic2local_collinear`.  `K` is an arbitrary linearly ordered field: the theorems are
  about exact arithmetic; the Lie-series remainders (`r^(N+1)` laws) and float rounding are measured by the harness.
  The root finder `solve_bracketed_brent` and the Hamiltonian polynomial are oracle parameters (`brent`, `H`): every
  theorem holds for all of them.
-/
import HitenModel.Lemmas.C09
import HitenModel.Lemmas.REReal
import HitenModel.Gen.C09
import Mathlib.Tactic.LinearCombination
import Mathlib.Tactic.FieldSimp
import Mathlib.Tactic.IntervalCases

namespace HitenModel.Props.C09
open HitenModel HitenModel.C09
set_option linter.unusedSectionVars false

/-! ### tie: the hand model's tables are the ones observed on the current source -/

/-- position of a centre-manifold coordinate in `[q2, p2, q3, p3]` -/
def pos : Sec → Nat
  | .q2 => 0 | .p2 => 1 | .q3 => 2 | .p3 => 3

/-- the marker experiment of `c09.py:observe_tables` replayed on the model: plane point `(1,2)`, other pair `(3,4)`,
the energy solve is made to return `5` (residual ≤ 0 at 0, > 0 at the first guess `7`, root finder answers `5`) -/
def mkH : List Int → Int := fun z => if z.contains 7 then 1 else 0
def mkP : Params Int := ⟨7, 2, 40, false⟩
def mkBrent : Int → Int → Option Int := fun _ _ => some 5
def stInts : Res (St Int) → List Int
  | .ok s => s.toList
  | _ => []
def vecInts : Res (List Int) → List Int
  | .ok z => z
  | _ => []

/-- **tie of the hand model to the source**: every routing table observed by executing the current code (slots written
by `_cm_point_to_synodic_4d`, slots read by `synodic_to_cm`, `var_indices`, `_CM_SECTION_TABLE`, `_STATE_INDEX`, the
variable / constraint dict / result routing of `lift_plane_point`, `build_state`, and the 6-vector that the public
`to_synodic(pt2, energy, section_coord)` feeds into the Lie chain, for all four section coordinates) equals what the
hand model computes on the same markers. -/
theorem gen_tables_eq_model :
    Gen.C09.varIndex = Name.all.map Name.idx ∧
    Gen.C09.unknownVarRaises = true ∧
    Gen.C09.placeSlots = placeSlots ∧
    Gen.C09.readSlots = readSlots ∧
    Gen.C09.placeVec = place6 (⟨1, 2, 3, 4⟩ : St Int) ∧
    Gen.C09.stateIndex = Sec.all.map Sec.stateIdx ∧
    Gen.C09.planeCoords = Sec.all.map (fun s => (pos s.planeCoords.1, pos s.planeCoords.2)) ∧
    Gen.C09.planeLabels = Gen.C09.planeCoords ∧
    Gen.C09.missing = Sec.all.map (fun s => s.missing.name.idx) ∧
    Gen.C09.constraintsTbl
      = Sec.all.map (fun s => (constraints (K := Int) s (1, 2)).map fun nv => (nv.1.idx, nv.2)) ∧
    Gen.C09.buildStateTbl = Sec.all.map (fun s => (buildState (K := Int) s (1, 2) (3, 4)).toList) ∧
    Gen.C09.liftTbl = Sec.all.map (fun s => stInts (liftPlanePoint mkH 0 mkBrent mkP s (1, 2))) ∧
    Gen.C09.liftNoneOnNone
      = Sec.all.map (fun s => decide (liftPlanePoint mkH 0 (fun _ _ => none) mkP s (1, 2) = Res.none)) ∧
    Gen.C09.liftPassesArgs = [true, true, true, true] ∧
    Gen.C09.liftDefaultsSame = true ∧
    Gen.C09.sectionTo6Tbl = Sec.all.map (fun s => vecInts (sectionTo6 mkH 0 mkBrent mkP s (1, 2))) ∧
    Gen.C09.sectionSolveVar = Gen.C09.missing := by
  decide

variable {K : Type} [Field K] [LinearOrder K] [IsStrictOrderedRing K]

/-! ### index placement -/

/-- **slots_roundtrip** (on the regenerated tables): reading the slots that `synodic_to_cm` returns from the 6-vector
that `_cm_point_to_synodic_4d` builds gives back the centre-manifold point, for every point; the vector has six
entries and its hyperbolic pair `(q1, p1)` (slots 0 and 3) is exactly zero. -/
theorem slots_roundtrip (a b c d : K) :
    readBy Gen.C09.readSlots (placeBy Gen.C09.placeSlots [a, b, c, d]) = [a, b, c, d] ∧
    (placeBy Gen.C09.placeSlots [a, b, c, d]).length = 6 ∧
    (placeBy Gen.C09.placeSlots [a, b, c, d]).getD 0 0 = 0 ∧
    (placeBy Gen.C09.placeSlots [a, b, c, d]).getD 3 0 = 0 := by
  refine ⟨rfl, rfl, rfl, rfl⟩

/-- the same for the hand model -/
theorem read6_place6 (s : St K) : read6 (place6 s) = s := by
  cases s; rfl

theorem place6_eq (s : St K) : place6 s = [0, s.q2, s.q3, 0, s.p2, s.p3] := by
  cases s; rfl

/-! ### section bookkeeping -/

/-- `build_state` puts the section coordinate to exactly 0 and returns the plane point in the plane slots, for all four
section coordinates -/
theorem buildState_on_section (sc : Sec) (plane other : K × K) :
    (buildState sc plane other).get sc = 0 ∧
    ((buildState sc plane other).get sc.planeCoords.1, (buildState sc plane other).get sc.planeCoords.2) = plane := by
  cases sc <;> exact ⟨rfl, rfl⟩

/-- `plane_points_from_states ∘ build_state` is the identity on plane points (all four section coordinates) -/
theorem plane_points_roundtrip (sc : Sec) (plane other : K × K) :
    planePoint sc (buildState sc plane other).toList = plane := by
  cases sc <;> rfl

/-- `enforce_section_coordinate` writes exactly 0 into the section slot and touches nothing else -/
theorem enforce_section_exact (sc : Sec) (s : St K) :
    enforceRow sc s.toList = (s.set sc 0).toList ∧ (s.set sc 0).get sc = 0 ∧
    ∀ c, c ≠ sc → (s.set sc 0).get c = s.get c := by
  refine ⟨by cases sc <;> rfl, by cases sc <;> rfl, ?_⟩
  intro c hc
  cases sc <;> cases c <;> first | rfl | exact absurd rfl hc

/-! ### the energy solve -/

/-- `solve_missing_coord` never raises once the variable name is known -/
theorem solve_never_error (res : K → K) (brent : K → K → Option K) (P : Params K) :
    solveCore res brent P ≠ Res.error := by
  rw [solveCore_eq]
  split_ifs <;> first
    | exact ofOption_ne_error _
    | (intro h; cases h)

/-- `BackendError` exactly for a variable name outside `var_indices` -/
theorem solveMissing_error_iff (H : List K → K) (h0 : K) (brent : K → K → Option K) (P : Params K)
    (var : Option Name) (fixed : List (Name × K)) :
    solveMissing H h0 brent P var fixed = Res.error ↔ var = none := by
  cases var with
  | none => exact ⟨fun _ => rfl, fun _ => rfl⟩
  | some v =>
      constructor
      · intro h
        exact absurd h (solve_never_error _ brent P)
      · intro h; cases h

/-- **returned root is bracketed** (`solve_missing_coord`, all residuals, all root finders that answer inside their
bracket): a returned value `x` comes from a bracket `[0, g·f^k]` (or, only with `symmetric` and only after the upward
search saw no sign change, `[-g·f^k, 0]`), `k ≤ max_expand`, at whose ends the residual has opposite signs
(`res 0 ≤ 0 < res (±g·f^k)`), `k` being the *first* expansion with a positive residual; and `x` lies in that bracket. -/
theorem solve_root_bracketed (res : K → K) (brent : K → K → Option K) (P : Params K) (x : K)
    (hB : ∀ a b y, a ≤ b → brent a b = some y → a ≤ y ∧ y ≤ b)
    (hg : 0 ≤ P.guess) (hf : 0 ≤ P.factor)
    (h : solveCore res brent P = Res.ok x) :
    res 0 ≤ 0 ∧
    ((∃ k, k ≤ P.maxExpand ∧ FirstPos res P.guess P.factor k ∧
        brent 0 (P.guess * P.factor ^ k) = some x ∧ 0 ≤ x ∧ x ≤ P.guess * P.factor ^ k) ∨
     (P.symmetric = true ∧ NoPos res P.guess P.factor P.maxExpand ∧
        ∃ k, k ≤ P.maxExpand ∧ FirstPos res (-P.guess) P.factor k ∧
          brent (-P.guess * P.factor ^ k) 0 = some x ∧ -P.guess * P.factor ^ k ≤ x ∧ x ≤ 0)) := by
  rw [solveCore_eq] at h
  by_cases h0 : res 0 > 0
  · rw [if_pos h0] at h; cases h
  rw [if_neg h0] at h
  refine ⟨not_lt.mp h0, ?_⟩
  rcases expandTo_cases res P.factor P.maxExpand P.guess with ⟨k, hk, hfp, he⟩ | ⟨hno, he⟩
  · left
    have hpos : res (expandTo res P.factor P.maxExpand P.guess) > 0 := by rw [he]; exact hfp.1
    rw [if_pos hpos, he, ofOption_eq_ok] at h
    have hnn : 0 ≤ P.guess * P.factor ^ k := mul_nonneg hg (pow_nonneg hf k)
    obtain ⟨h1, h2⟩ := hB _ _ _ hnn h
    exact ⟨k, hk, hfp, h, h1, h2⟩
  · right
    have hnp : ¬ res (expandTo res P.factor P.maxExpand P.guess) > 0 := by
      rw [he]; exact not_lt.mpr (hno _ (le_refl _))
    rw [if_neg hnp] at h
    by_cases hs : P.symmetric = true
    · rw [if_pos hs] at h
      rcases expandTo_cases res P.factor P.maxExpand (-P.guess) with ⟨k, hk, hfp, he'⟩ | ⟨hno', he'⟩
      · have hpos : res (expandTo res P.factor P.maxExpand (-P.guess)) > 0 := by rw [he']; exact hfp.1
        rw [if_pos hpos, he', ofOption_eq_ok] at h
        have hnn : -P.guess * P.factor ^ k ≤ 0 := by
          have : 0 ≤ P.guess * P.factor ^ k := mul_nonneg hg (pow_nonneg hf k)
          linarith [neg_mul P.guess (P.factor ^ k)]
        obtain ⟨h1, h2⟩ := hB _ _ _ hnn h
        exact ⟨hs, hno, k, hk, hfp, h, h1, h2⟩
      · have hnp' : ¬ res (expandTo res P.factor P.maxExpand (-P.guess)) > 0 := by
          rw [he']; exact not_lt.mpr (hno' _ (le_refl _))
        rw [if_neg hnp'] at h
        cases h
    · rw [if_neg hs] at h
      cases h

/-- **`None` exactly when** the residual is already positive at 0, or no sign change is found within `max_expand`
doublings (upwards, and — only with `symmetric` — downwards), or the root finder itself gives up on the bracket. -/
theorem solve_none_iff (res : K → K) (brent : K → K → Option K) (P : Params K) :
    solveCore res brent P = Res.none ↔
      0 < res 0 ∨
      (res 0 ≤ 0 ∧ ∃ k, k ≤ P.maxExpand ∧ FirstPos res P.guess P.factor k ∧
          brent 0 (P.guess * P.factor ^ k) = none) ∨
      (res 0 ≤ 0 ∧ NoPos res P.guess P.factor P.maxExpand ∧
        (P.symmetric = false ∨ NoPos res (-P.guess) P.factor P.maxExpand ∨
          ∃ k, k ≤ P.maxExpand ∧ FirstPos res (-P.guess) P.factor k ∧
            brent (-P.guess * P.factor ^ k) 0 = none)) := by
  have noBoth : ∀ g k, k ≤ P.maxExpand → FirstPos res g P.factor k → ¬ NoPos res g P.factor P.maxExpand :=
    fun g k hk hfp hno => absurd hfp.1 (not_lt.mpr (hno k hk))
  rw [solveCore_eq]
  by_cases h0 : res 0 > 0
  · rw [if_pos h0]
    exact ⟨fun _ => Or.inl h0, fun _ => rfl⟩
  rw [if_neg h0]
  have h0' : res 0 ≤ 0 := not_lt.mp h0
  rcases expandTo_cases res P.factor P.maxExpand P.guess with ⟨k, hk, hfp, he⟩ | ⟨hno, he⟩
  · have hpos : res (expandTo res P.factor P.maxExpand P.guess) > 0 := by rw [he]; exact hfp.1
    rw [if_pos hpos, he, ofOption_eq_none]
    constructor
    · intro hb
      exact Or.inr (Or.inl ⟨h0', k, hk, hfp, hb⟩)
    · rintro (h | ⟨_, k', hk', hfp', hb⟩ | ⟨_, hno, _⟩)
      · exact absurd h h0
      · rw [hfp.unique hfp']; exact hb
      · exact absurd hno (noBoth _ k hk hfp)
  · have hnp : ¬ res (expandTo res P.factor P.maxExpand P.guess) > 0 := by
      rw [he]; exact not_lt.mpr (hno _ (le_refl _))
    rw [if_neg hnp]
    by_cases hs : P.symmetric = true
    · rw [if_pos hs]
      have hsf : ¬ P.symmetric = false := by rw [hs]; exact Bool.noConfusion
      rcases expandTo_cases res P.factor P.maxExpand (-P.guess) with ⟨k, hk, hfp, he'⟩ | ⟨hno', he'⟩
      · have hpos : res (expandTo res P.factor P.maxExpand (-P.guess)) > 0 := by rw [he']; exact hfp.1
        rw [if_pos hpos, he', ofOption_eq_none]
        constructor
        · intro hb
          exact Or.inr (Or.inr ⟨h0', hno, Or.inr (Or.inr ⟨k, hk, hfp, hb⟩)⟩)
        · rintro (h | ⟨_, k', hk', hfp', _⟩ | ⟨_, _, h | h | ⟨k', hk', hfp', hb⟩⟩)
          · exact absurd h h0
          · exact absurd hno (noBoth _ k' hk' hfp')
          · exact absurd h hsf
          · exact absurd h (noBoth _ k hk hfp)
          · rw [hfp.unique hfp']; exact hb
      · have hnp' : ¬ res (expandTo res P.factor P.maxExpand (-P.guess)) > 0 := by
          rw [he']; exact not_lt.mpr (hno' _ (le_refl _))
        rw [if_neg hnp']
        exact ⟨fun _ => Or.inr (Or.inr ⟨h0', hno, Or.inr (Or.inl hno')⟩), fun _ => rfl⟩
    · rw [if_neg hs]
      have hsf : P.symmetric = false := by
        cases hb : P.symmetric with
        | false => rfl
        | true => exact absurd hb hs
      exact ⟨fun _ => Or.inr (Or.inr ⟨h0', hno, Or.inl hsf⟩), fun _ => rfl⟩

/-! ### lifting a section point to the energy level -/

/-- the state at which the energy solve evaluates the Hamiltonian for the trial value `x` *is* the 6-vector that the
conversion chain later receives for the lifted point (consistency of `var_indices`, `build_constraint_dict`,
`build_state`, `lift_plane_point` and the slot placement of `_cm_point_to_synodic_4d`, all four section coordinates) -/
theorem residState_eq_place6 (sc : Sec) (plane : K × K) (x : K) :
    residState (constraints sc plane) sc.missing.name x = place6 (buildState sc plane (otherVals sc x)) := by
  cases sc <;> rfl

/-- **lift_on_section_and_bracketed**: a lifted point has its section coordinate *exactly* 0, its plane coordinates are
the given plane point, the remaining coordinate is the value `x` returned by the energy solve (hence bracketed by a
sign change, `solve_root_bracketed`), and the energy error `H(point) − h0` of the 6-vector handed to the conversion chain
is exactly the residual the root finder left at `x`. -/
theorem lift_on_section_and_bracketed (H : List K → K) (h0 : K) (brent : K → K → Option K) (P : Params K)
    (sc : Sec) (plane : K × K) (s : St K)
    (h : liftPlanePoint H h0 brent P sc plane = Res.ok s) :
    s.get sc = 0 ∧ (s.get sc.planeCoords.1, s.get sc.planeCoords.2) = plane ∧
    ∃ x, s.get sc.missing = x ∧ s = buildState sc plane (otherVals sc x) ∧
      solveCore (C09.residual H h0 (constraints sc plane) sc.missing.name) brent P = Res.ok x ∧
      H (place6 s) - h0 = C09.residual H h0 (constraints sc plane) sc.missing.name x := by
  unfold liftPlanePoint solveMissing at h
  simp only at h
  cases hs : solveCore (C09.residual H h0 (constraints sc plane) sc.missing.name) brent P with
  | error => rw [hs] at h; cases h
  | none => rw [hs] at h; cases h
  | ok x =>
      rw [hs] at h
      simp only [Res.ok.injEq] at h
      subst h
      refine ⟨(buildState_on_section sc plane _).1, (buildState_on_section sc plane _).2, x, ?_, rfl, rfl, ?_⟩
      · cases sc <;> rfl
      · unfold C09.residual
        rw [residState_eq_place6]

/-- **on the energy level**: if the root finder returns exact zeros of the residual, the lifted point satisfies
`H = h0` exactly (and in general its energy error is the root finder's residual, previous theorem) -/
theorem lift_on_energy_level (H : List K → K) (h0 : K) (brent : K → K → Option K) (P : Params K)
    (sc : Sec) (plane : K × K) (s : St K)
    (hroot : ∀ a b y, brent a b = some y → C09.residual H h0 (constraints sc plane) sc.missing.name y = 0)
    (h : liftPlanePoint H h0 brent P sc plane = Res.ok s) :
    H (place6 s) = h0 := by
  obtain ⟨_, _, x, _, _, hx, he⟩ := lift_on_section_and_bracketed H h0 brent P sc plane s h
  have hz : C09.residual H h0 (constraints sc plane) sc.missing.name x = 0 := by
    rw [solveCore_eq] at hx
    split_ifs at hx <;> exact hroot _ _ _ ((ofOption_eq_ok _ _).mp hx)
  rw [hz] at he
  exact sub_eq_zero.mp he

/-- `lift_plane_point` returns `None` exactly when the energy solve does, and never raises; `_to_real_4d_cm` raises
exactly then -/
theorem lift_none_iff (H : List K → K) (h0 : K) (brent : K → K → Option K) (P : Params K)
    (sc : Sec) (plane : K × K) :
    (liftPlanePoint H h0 brent P sc plane = Res.none ↔
      solveCore (C09.residual H h0 (constraints sc plane) sc.missing.name) brent P = Res.none) ∧
    liftPlanePoint H h0 brent P sc plane ≠ Res.error ∧
    (toReal4dCm H h0 brent P sc plane = Res.error ↔
      solveCore (C09.residual H h0 (constraints sc plane) sc.missing.name) brent P = Res.none) := by
  have hne := solve_never_error (C09.residual H h0 (constraints sc plane) sc.missing.name) brent P
  unfold toReal4dCm liftPlanePoint solveMissing
  simp only
  cases hs : solveCore (C09.residual H h0 (constraints sc plane) sc.missing.name) brent P with
  | error => exact absurd hs hne
  | none => simp
  | ok x => simp

/-- the public section conversion feeds the chain with the placed lifted point: `(q1, p1) = (0, 0)`, section slot 0,
energy error = root-finder residual -/
theorem sectionTo6_spec (H : List K → K) (h0 : K) (brent : K → K → Option K) (P : Params K)
    (sc : Sec) (plane : K × K) (z : List K)
    (h : sectionTo6 H h0 brent P sc plane = Res.ok z) :
    ∃ s, liftPlanePoint H h0 brent P sc plane = Res.ok s ∧ z = place6 s ∧
      z.getD 0 0 = 0 ∧ z.getD 3 0 = 0 ∧ z.getD sc.name.idx 0 = 0 ∧ read6 z = s := by
  unfold sectionTo6 toReal4dCm at h
  cases hl : liftPlanePoint H h0 brent P sc plane with
  | error => rw [hl] at h; cases h
  | none => rw [hl] at h; cases h
  | ok s =>
      rw [hl] at h
      simp only [Res.ok.injEq] at h
      subst h
      have hsec := (lift_on_section_and_bracketed H h0 brent P sc plane s hl).1
      refine ⟨s, rfl, rfl, ?_, ?_, ?_, read6_place6 s⟩
      · cases s; rfl
      · cases s; rfl
      · cases s; cases sc <;> exact hsec

/-! ### the conversion chain -/

section chain
variable {F : Type} [Field F]

/-- entry codes of the exported complexification matrices: `h = 1/√2`, `i = √-1` -/
def decodeM (h i : F) : Nat → F
  | 0 => 0 | 1 => 1 | 2 => h | 3 => i * h | 4 => -(i * h) | _ => 0

def decodeMat (h i : F) (codes : List (List Nat)) : List (List F) := codes.map fun r => r.map (decodeM h i)

/-- **`_solve_real` and `_solve_complex` are mutually inverse** (on the regenerated matrices `_M(mix_pairs)`,
`_M_inv(mix_pairs)` of the service, in any field with `2h² = 1`, `i² = −1`, e.g. ℂ): both products are the identity
on every 6-vector. -/
theorem solve_real_complex_inverse (h i : F) (hh : 2 * h * h = 1) (hi : i * i = -1) (v0 v1 v2 v3 v4 v5 : F) :
    mulVec6 (decodeMat h i Gen.C09.mCodes) (mulVec6 (decodeMat h i Gen.C09.mInvCodes) [v0, v1, v2, v3, v4, v5])
      = [v0, v1, v2, v3, v4, v5] ∧
    mulVec6 (decodeMat h i Gen.C09.mInvCodes) (mulVec6 (decodeMat h i Gen.C09.mCodes) [v0, v1, v2, v3, v4, v5])
      = [v0, v1, v2, v3, v4, v5] := by
  constructor <;>
  · simp only [mulVec6, dot6, decodeMat, decodeM, Gen.C09.mCodes, Gen.C09.mInvCodes, List.map, List.cons.injEq,
      and_true]
    refine ⟨?_, ?_, ?_, ?_, ?_, ?_⟩ <;> first
      | ring1
      | linear_combination v1 * hh - h * h * v1 * hi
      | linear_combination v2 * hh - h * h * v2 * hi
      | linear_combination v4 * hh - h * h * v4 * hi
      | linear_combination v5 * hh - h * h * v5 * hi

end chain

/-- **chain_inverse_structure**: with every *linear / affine* link of the two chains inverted by its partner
(`_solve_complex`/`_solve_real`: `solve_real_complex_inverse`; `_local2synodic`/`_synodic2local`: `local_synodic_inverse`;
`C`/`C⁻¹` of the libration point: measured, C18), `synodic_to_cm ∘ _cm_point_to_synodic_4d` is exactly
`_solve_real ∘ (lieInv ∘ lieFwd) ∘ _solve_complex`: the round-trip error is the conjugated defect of the two Lie series
and nothing else (it vanishes identically when `lieInv ∘ lieFwd = id`; with truncated series it is `O(r^(N+1))`, C08 —
measured by the harness). -/
theorem chain_inverse_structure {V : Type} (L : Links V)
    (hC : ∀ z, L.local2modal (L.modal2local z) = z)
    (hS : ∀ z, L.syn2local (L.local2syn z) = z)
    (hM : ∀ z, L.solveComplex (L.solveReal z) = z) (z : V) :
    toCmChain L (toSynodicChain L z) = L.solveReal (L.lieInv (L.lieFwd (L.solveComplex z))) ∧
    ((∀ w, L.lieInv (L.lieFwd w) = w) → (∀ w, L.solveReal (L.solveComplex w) = w) →
      toCmChain L (toSynodicChain L z) = z) := by
  have h1 : toCmChain L (toSynodicChain L z) = L.solveReal (L.lieInv (L.lieFwd (L.solveComplex z))) := by
    simp only [toCmChain, toSynodicChain, hS, hC, hM]
  exact ⟨h1, fun hL hM' => by rw [h1, hL, hM']⟩

/-- the whole public round trip on the model: place, convert, convert back, read -/
theorem roundtrip_of_exact_links {K : Type} [Field K] (L : Links (List K))
    (hC : ∀ z, L.local2modal (L.modal2local z) = z)
    (hS : ∀ z, L.syn2local (L.local2syn z) = z)
    (hM : ∀ z, L.solveComplex (L.solveReal z) = z)
    (hM' : ∀ w, L.solveReal (L.solveComplex w) = w)
    (hL : ∀ w, L.lieInv (L.lieFwd w) = w) (s : St K) :
    read6 (toCmChain L (toSynodicChain L (place6 s))) = s := by
  rw [((chain_inverse_structure L hC hS hM (place6 s)).2 hL hM')]
  cases s; rfl

open RE Gen.C09 in
/-- the traced `_local2synodic_collinear` as a substitution of the six coordinates -/
noncomputable def synEnv (ρ : Nat → ℝ) : Nat → ℝ
  | 0 => eval ρ l2s0 | 1 => eval ρ l2s1 | 2 => eval ρ l2s2
  | 3 => eval ρ l2s3 | 4 => eval ρ l2s4 | 5 => eval ρ l2s5
  | j => ρ j

open RE Gen.C09 in
/-- the traced `_synodic2local_collinear` as a substitution of the six coordinates -/
noncomputable def locEnv (ρ : Nat → ℝ) : Nat → ℝ
  | 0 => eval ρ s2l0 | 1 => eval ρ s2l1 | 2 => eval ρ s2l2
  | 3 => eval ρ s2l3 | 4 => eval ρ s2l4 | 5 => eval ρ s2l5
  | j => ρ j

open RE Gen.C09 in
/-- **`_synodic2local_collinear` and `_local2synodic_collinear` (traced from the current source) are mutually inverse**
for every `gamma ≠ 0`, `sign ≠ 0`, all `mu`, `a` and all coordinates (variables: 0..5 coordinates, 6 gamma, 7 mu,
8 sign, 9 a). -/
theorem local_synodic_inverse (ρ : Nat → ℝ) (hγ : ρ 6 ≠ 0) (hs : ρ 8 ≠ 0) :
    (∀ j, j < 6 → locEnv (synEnv ρ) j = ρ j) ∧ (∀ j, j < 6 → synEnv (locEnv ρ) j = ρ j) := by
  constructor <;> intro j hj <;> interval_cases j <;>
    simp only [locEnv, synEnv, eval, l2s0, l2s1, l2s2, l2s3, l2s4, l2s5, s2l0, s2l1, s2l2, s2l3, s2l4, s2l5] <;>
    field_simp <;> ring

open RE Gen.C09 in
/-- **energy_chain (local part, `…_partial`)**: for the traced `_local2synodic_collinear` with `sign² = 1`, the kinetic
minus centrifugal part of the CR3BP energy of the synodic state is `γ²·(½|p|² + y·pₓ − x·p_y)` plus terms that depend on the
*position* only, and the squared distances to the two primaries are `γ²`-scaled local expressions.  Hence
`(E − E_L)/γ²` is the rotating-frame Hamiltonian of the local coordinates with the standard kinetic part — the `γ²` energy
scale and the momentum–velocity relation of the chain are right.  Missing for the full `energy_chain`: the Legendre
expansion of the two `1/r` terms (C07) and the Lie-series remainder (C08); both are measured by the harness. -/
theorem energy_chain_local_partial (ρ : Nat → ℝ) (hs : ρ 8 * ρ 8 = 1) :
    let X := synEnv ρ
    (1 / 2 * (X 3 ^ 2 + X 4 ^ 2 + X 5 ^ 2) - 1 / 2 * (X 0 ^ 2 + X 1 ^ 2)
      = ρ 6 ^ 2 * (1 / 2 * (ρ 3 ^ 2 + ρ 4 ^ 2 + ρ 5 ^ 2) + ρ 1 * ρ 3 - ρ 0 * ρ 4)
        - ρ 8 * ρ 6 * (ρ 7 + ρ 9) * ρ 0 - 1 / 2 * (ρ 7 + ρ 9) ^ 2) ∧
    ((X 0 + ρ 7) ^ 2 + X 1 ^ 2 + X 2 ^ 2 = (ρ 8 * ρ 6 * ρ 0 + ρ 9) ^ 2 + ρ 6 ^ 2 * (ρ 1 ^ 2 + ρ 2 ^ 2)) ∧
    ((X 0 - (1 - ρ 7)) ^ 2 + X 1 ^ 2 + X 2 ^ 2
      = (ρ 8 * ρ 6 * ρ 0 + ρ 9 + 1) ^ 2 + ρ 6 ^ 2 * (ρ 1 ^ 2 + ρ 2 ^ 2)) := by
  -- `sign = ±1`: substitute and normalise (robust against re-arrangements of the traced terms)
  rcases mul_self_eq_one_iff.mp hs with h | h <;>
    simp only [synEnv, eval, l2s0, l2s1, l2s2, l2s3, l2s4, l2s5, h] <;>
    refine ⟨?_, ?_, ?_⟩ <;> ring

/-! ### non-vacuity -/

/-- a concrete scripted solve over ℚ: `H = q2² + p3²`, `h0 = 1`, section `q3`, plane point `(1/2, 0)`: the residual
is `p3² − 3/4`, the first positive residual is at `1/1024·2^10 = 1`, the oracle answers `7/8` -/
example :
    liftPlanePoint (K := ℚ) (fun z => z.getD 1 0 * z.getD 1 0 + z.getD 5 0 * z.getD 5 0) 1
      (fun _ _ => some (7 / 8)) ⟨1 / 1024, 2, 40, false⟩ Sec.q3 (1 / 2, 0)
      = Res.ok ⟨1 / 2, 0, 0, 7 / 8⟩ := by
  decide +kernel

example :
    solveBracket (K := ℚ) (fun x => x * x - 3 / 4) ⟨1 / 1024, 2, 40, false⟩ = some (0, 1) := by
  decide +kernel

/-- the `None` branches are reachable: positive residual at 0, and no sign change within the expansions -/
example : solveCore (K := ℚ) (fun _ => 1) (fun _ _ => some 0) ⟨1, 2, 40, false⟩ = Res.none := by
  decide +kernel
example : solveCore (K := ℚ) (fun _ => -1) (fun _ _ => some 0) ⟨1, 2, 3, true⟩ = Res.none := by
  decide +kernel
/-- the symmetric branch is reachable -/
example : solveCore (K := ℚ) (fun x => -x - 3) (fun a _ => some a) ⟨1, 2, 3, true⟩ = Res.ok (-4) := by
  decide +kernel

/-- the hypotheses of `solve_real_complex_inverse` hold in ℂ with `h = √2/2`, `i = I` -/
example : ∃ h i : ℂ, 2 * h * h = 1 ∧ i * i = -1 := by
  refine ⟨((Real.sqrt 2 / 2 : ℝ) : ℂ), Complex.I, ?_, Complex.I_mul_I⟩
  have h2 : Real.sqrt 2 * Real.sqrt 2 = 2 := Real.mul_self_sqrt (by norm_num)
  have : (2 : ℝ) * (Real.sqrt 2 / 2) * (Real.sqrt 2 / 2) = 1 := by nlinarith
  exact_mod_cast this

/-- the hypotheses of `local_synodic_inverse` / `energy_chain_local_partial` hold at the Earth–Moon L1 values -/
example : ∃ ρ : Nat → ℝ, ρ 6 ≠ 0 ∧ ρ 8 ≠ 0 ∧ ρ 8 * ρ 8 = 1 :=
  ⟨fun j => if j = 6 then 3 / 20 else -1, by norm_num, by norm_num, by norm_num⟩

/-- a non-trivial instance of `chain_inverse_structure`: shifts on ℤ whose Lie links are *not* mutually inverse leave
exactly their defect -/
example :
    toCmChain (V := ℤ) ⟨(· - 1), (· + 1), (· + 10), (· - 9), (· * 1), (· * 1), (· + 5), (· - 5)⟩
      (toSynodicChain ⟨(· - 1), (· + 1), (· + 10), (· - 9), (· * 1), (· * 1), (· + 5), (· - 5)⟩ 7) = 7 + 1 := by
  decide

end HitenModel.Props.C09
