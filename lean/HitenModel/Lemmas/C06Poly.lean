/- Lemmas/C06Poly.lean — semantics of coefficient blocks in Mathlib's `MvPolynomial (Fin 6) K` and the kernel lemmas. -/
import Mathlib.Algebra.MvPolynomial.PDeriv
import Mathlib.Algebra.MvPolynomial.Eval
import Mathlib.RingTheory.PowerSeries.Basic
import Mathlib.Data.List.Perm.Basic
import Mathlib.Algebra.BigOperators.Group.List.Basic
import HitenModel.Lemmas.C06

set_option linter.unusedSectionVars false

open MvPolynomial
namespace HitenModel.C06

/-! ### list level -/
section lists
variable {K : Type}

@[simp] theorem length_zeros [OfNat K 0] (n : Nat) : (zeros n : List K).length = n := by simp [zeros]

theorem getD_zeros [OfNat K 0] (n i : Nat) : (zeros n : List K).getD i 0 = 0 := by
  unfold zeros
  rw [List.getD_eq_getElem?_getD, List.getElem?_replicate]
  split <;> rfl

@[simp] theorem length_addAt [Add K] : ∀ (p : List K) (i : Nat) (v : K), (addAt p i v).length = p.length
  | [], _, _ => rfl
  | _ :: _, 0, _ => rfl
  | _ :: as, n + 1, v => by simp [addAt, length_addAt as n v]

theorem getD_addAt [Add K] (z : K) : ∀ (p : List K) (i : Nat) (v : K) (j : Nat),
    (addAt p i v).getD j z = if j = i ∧ i < p.length then p.getD j z + v else p.getD j z
  | [], _, _, _ => by simp [addAt]
  | a :: as, 0, v, 0 => by simp [addAt]
  | a :: as, 0, v, j + 1 => by simp [addAt]
  | a :: as, n + 1, v, 0 => by simp [addAt]
  | a :: as, n + 1, v, j + 1 => by
    simp only [addAt, List.getD_cons_succ, getD_addAt z as n v j, List.length_cons]
    simp

@[simp] theorem length_applyUpd [Add K] : ∀ (ups : List (Nat × K)) (acc : List K), (applyUpd acc ups).length = acc.length
  | [], _ => rfl
  | u :: us, acc => by
    unfold applyUpd; rw [List.foldl_cons]
    have := length_applyUpd us (addAt acc u.1 u.2)
    unfold applyUpd at this; rw [this, length_addAt]

theorem length_polyAdd [Add K] (p q : List K) : (polyAdd p q).length = min p.length q.length := by
  simp [polyAdd]

theorem getD_polyAdd [AddZeroClass K] (p q : List K) (h : p.length = q.length) (j : Nat) :
    (polyAdd p q).getD j 0 = p.getD j 0 + q.getD j 0 := by
  unfold polyAdd
  by_cases hj : j < p.length
  · have hq : j < q.length := h ▸ hj
    rw [List.getD_eq_getElem?_getD, List.getD_eq_getElem?_getD, List.getD_eq_getElem?_getD,
      List.getElem?_zipWith, List.getElem?_eq_getElem hj, List.getElem?_eq_getElem hq]
    rfl
  · have hq : ¬ j < q.length := h ▸ hj
    rw [List.getD_eq_default _ _ (by simp; omega), List.getD_eq_default _ _ (by omega),
      List.getD_eq_default _ _ (by omega), add_zero]

end lists

/-! ### semantics -/

/-- the monomial of an exponent list -/
noncomputable def mono (k : List Nat) : Fin 6 →₀ ℕ := Finsupp.equivFunOnFinite.symm (fun i => k.getD i.val 0)

@[simp] theorem mono_apply (k : List Nat) (i : Fin 6) : mono k i = k.getD i.val 0 := rfl

section sem
variable {K : Type} [CommSemiring K]

/-- the polynomial a coefficient block of degree `d` stands for: slot `i` is the coefficient of the monomial
`decode i d` -/
noncomputable def toMv (clmo : List (List Nat)) (d : Nat) (p : List K) : MvPolynomial (Fin 6) K :=
  ∑ i ∈ Finset.range p.length, monomial (mono (decode clmo i d)) (p.getD i 0)

/-- one `arr[idx] += v` statement, read as a polynomial -/
noncomputable def term (clmo : List (List Nat)) (d : Nat) (u : Nat × K) : MvPolynomial (Fin 6) K :=
  monomial (mono (decode clmo u.1 d)) u.2

theorem toMv_zeros (clmo : List (List Nat)) (d n : Nat) : toMv clmo d (zeros n : List K) = 0 := by
  unfold toMv
  apply Finset.sum_eq_zero
  intro i _
  rw [getD_zeros, monomial_zero]

theorem toMv_addAt (clmo : List (List Nat)) (d : Nat) (p : List K) (idx : Nat) (v : K) (h : idx < p.length) :
    toMv clmo d (addAt p idx v) = toMv clmo d p + term clmo d (idx, v) := by
  unfold toMv term
  rw [length_addAt]
  have : ∀ i ∈ Finset.range p.length, monomial (mono (decode clmo i d)) ((addAt p idx v).getD i 0)
      = monomial (mono (decode clmo i d)) (p.getD i 0) + (if i = idx then monomial (mono (decode clmo idx d)) v else 0) := by
    intro i _
    rw [getD_addAt]
    by_cases hi : i = idx
    · subst hi; simp [h]
    · simp [hi]
  rw [Finset.sum_congr rfl this, Finset.sum_add_distrib, Finset.sum_ite_eq' (Finset.range p.length) idx]
  simp [h]

theorem toMv_applyUpd (clmo : List (List Nat)) (d : Nat) : ∀ (ups : List (Nat × K)) (acc : List K),
    (∀ u ∈ ups, u.1 < acc.length) → toMv clmo d (applyUpd acc ups) = toMv clmo d acc + (ups.map (term clmo d)).sum
  | [], acc, _ => by simp [applyUpd]
  | u :: us, acc, h => by
    have h1 : u.1 < acc.length := h u (by simp)
    have ih := toMv_applyUpd clmo d us (addAt acc u.1 u.2) (fun w hw => by rw [length_addAt]; exact h w (by simp [hw]))
    unfold applyUpd at ih ⊢
    rw [List.foldl_cons, ih, toMv_addAt clmo d acc u.1 u.2 h1, List.map_cons, List.sum_cons, add_assoc]

theorem toMv_polyAdd (clmo : List (List Nat)) (d : Nat) (p q : List K) (h : p.length = q.length) :
    toMv clmo d (polyAdd p q) = toMv clmo d p + toMv clmo d q := by
  unfold toMv
  rw [length_polyAdd, ← h, Nat.min_self, ← Finset.sum_add_distrib]
  apply Finset.sum_congr rfl
  intro i _
  rw [getD_polyAdd p q h, map_add]

theorem length_reduceRows (n : Nat) : ∀ (rows : List (List K)) (acc : List K), acc.length = n → (∀ r ∈ rows, r.length = n) →
    (rows.foldl polyAdd acc).length = n
  | [], acc, h, _ => h
  | r :: rs, acc, h, hr => by
    rw [List.foldl_cons]
    apply length_reduceRows n rs
    · rw [length_polyAdd, h, hr r (by simp), Nat.min_self]
    · intro r' hr'; exact hr r' (by simp [hr'])

theorem toMv_foldl_polyAdd (clmo : List (List Nat)) (d n : Nat) : ∀ (rows : List (List K)) (acc : List K), acc.length = n →
    (∀ r ∈ rows, r.length = n) →
    toMv clmo d (rows.foldl polyAdd acc) = toMv clmo d acc + (rows.map (toMv clmo d)).sum
  | [], acc, _, _ => by simp
  | r :: rs, acc, h, hr => by
    have hrn : r.length = n := hr r (by simp)
    rw [List.foldl_cons, toMv_foldl_polyAdd clmo d n rs (polyAdd acc r) (by rw [length_polyAdd, h, hrn, Nat.min_self])
      (fun r' hr' => hr r' (by simp [hr'])), toMv_polyAdd clmo d acc r (by rw [h, hrn]), List.map_cons, List.sum_cons, add_assoc]

theorem length_threadRow (n : Nat) (upd : Nat → List (Nat × K)) (iters : List Nat) : (threadRow n upd iters).length = n := by
  simp [threadRow]

theorem length_parKernel (n : Nat) (upd : Nat → List (Nat × K)) (sched : List (List Nat)) : (parKernel n upd sched).length = n := by
  unfold parKernel reduceRows
  apply length_reduceRows n _ _ (length_zeros n)
  intro r hr
  obtain ⟨it, _, rfl⟩ := List.mem_map.mp hr
  exact length_threadRow n upd it

/-- the polynomial computed by the parallel kernel, for EVERY schedule: the sum of all update terms of all outer
iterations the schedule executes (each in whatever thread, in whatever order) -/
theorem toMv_parKernel (clmo : List (List Nat)) (d n : Nat) (upd : Nat → List (Nat × K)) (hupd : ∀ i, ∀ u ∈ upd i, u.1 < n)
    (sched : List (List Nat)) :
    toMv clmo d (parKernel n upd sched) = (sched.flatten.map fun i => ((upd i).map (term clmo d)).sum).sum := by
  unfold parKernel reduceRows
  rw [toMv_foldl_polyAdd clmo d n _ _ (length_zeros n) (by
    intro r hr
    obtain ⟨it, _, rfl⟩ := List.mem_map.mp hr
    exact length_threadRow n upd it), toMv_zeros, zero_add, List.map_map]
  induction sched with
  | nil => simp
  | cons it rest ih =>
    rw [List.map_cons, List.sum_cons, ih, List.flatten_cons, List.map_append, List.sum_append]
    congr 1
    simp only [Function.comp, threadRow]
    rw [toMv_applyUpd clmo d _ _ (by
      intro u hu
      obtain ⟨i, _, hi⟩ := List.mem_flatMap.mp hu
      rw [length_zeros]; exact hupd i u hi), toMv_zeros, zero_add]
    induction it with
    | nil => simp
    | cons a as ih2 => rw [List.flatMap_cons, List.map_append, List.sum_append, ih2, List.map_cons, List.sum_cons]

theorem sum_map_range_eq_finset {M : Type} [AddCommMonoid M] (f : Nat → M) (n : Nat) :
    ((List.range n).map f).sum = ∑ i ∈ Finset.range n, f i := by
  induction n with
  | zero => simp
  | succ n ih => rw [List.range_succ, List.map_append, List.sum_append, ih, Finset.sum_range_succ]; simp

/-- schedule independence at the level of the represented polynomial: any schedule that executes every outer iteration
exactly once (any assignment to threads, any order) yields `Σ_i Σ_{updates of i}` -/
theorem toMv_parKernel_perm (clmo : List (List Nat)) (d n N : Nat) (upd : Nat → List (Nat × K)) (hupd : ∀ i, ∀ u ∈ upd i, u.1 < n)
    (sched : List (List Nat)) (hs : sched.flatten.Perm (List.range N)) :
    toMv clmo d (parKernel n upd sched) = ∑ i ∈ Finset.range N, ((upd i).map (term clmo d)).sum := by
  rw [toMv_parKernel clmo d n upd hupd, ← sum_map_range_eq_finset]
  exact (hs.map _).sum_eq

end sem

/-! ### exponent lists -/

theorem length_decodePacked (d p : Nat) : (decodePacked d p).length = 6 := by simp [decodePacked]
theorem length_decode (T : List (List Nat)) (i d : Nat) : (decode T i d).length = 6 := length_decodePacked _ _

theorem psi_lt_enum {d i : Nat} (hi : i < psi 6 d) : i < (enum 6 d).length := by
  rw [psi6_eq_length] at hi; unfold clmoModel at hi; simpa using hi

theorem sum_decode {D d i : Nat} (hD : D ≤ 63) (hd : d ≤ D) (hi : i < psi 6 d) : (decode (mkTables D) i d).sum = d := by
  rw [decode_table hD hd (psi_lt_enum hi)]
  exact ((mem_enum 6 d _).mp (List.getElem_mem _)).2

theorem length_addIdx (a b : List Nat) : (addIdx a b).length = min a.length b.length := by simp [addIdx]

theorem sum_addIdx : ∀ (a b : List Nat), a.length = b.length → (addIdx a b).sum = a.sum + b.sum
  | [], [], _ => rfl
  | x :: a, y :: b, h => by
    have := sum_addIdx a b (by simpa using h)
    simp only [addIdx, List.zipWith_cons_cons, List.sum_cons] at this ⊢
    omega
  | [], _ :: _, h => by simp at h
  | _ :: _, [], h => by simp at h

theorem mono_addIdx {a b : List Nat} (ha : a.length = 6) (hb : b.length = 6) : mono (addIdx a b) = mono a + mono b := by
  obtain ⟨a0, a1, a2, a3, a4, a5, rfl⟩ := length_six ha
  obtain ⟨b0, b1, b2, b3, b4, b5, rfl⟩ := length_six hb
  ext i
  fin_cases i <;> simp [addIdx]

theorem mono_set_pred {k : List Nat} (hk : k.length = 6) (v : Fin 6) :
    mono (k.set v.val (k.getD v.val 0 - 1)) = mono k - Finsupp.single v 1 := by
  obtain ⟨a0, a1, a2, a3, a4, a5, rfl⟩ := length_six hk
  ext i
  fin_cases v <;> fin_cases i <;> simp

theorem mono_set_succ {k : List Nat} (hk : k.length = 6) (v : Fin 6) :
    mono (k.set v.val (k.getD v.val 0 + 1)) = mono k + Finsupp.single v 1 := by
  obtain ⟨a0, a1, a2, a3, a4, a5, rfl⟩ := length_six hk
  ext i
  fin_cases v <;> fin_cases i <;> simp

theorem sum_set_pred {k : List Nat} (hk : k.length = 6) (v : Fin 6) (h : k.getD v.val 0 ≠ 0) :
    (k.set v.val (k.getD v.val 0 - 1)).sum = k.sum - 1 := by
  obtain ⟨a0, a1, a2, a3, a4, a5, rfl⟩ := length_six hk
  fin_cases v <;> simp at h ⊢ <;> omega

theorem sum_set_succ {k : List Nat} (hk : k.length = 6) (v : Fin 6) :
    (k.set v.val (k.getD v.val 0 + 1)).sum = k.sum + 1 := by
  obtain ⟨a0, a1, a2, a3, a4, a5, rfl⟩ := length_six hk
  fin_cases v <;> simp <;> omega


/-! ### multiplication -/

section
variable {K : Type} [CommSemiring K] [DecidableEq K]

theorem sum_filterMap_range {α M : Type} [AddCommMonoid M] (f : Nat → Option α) (g : α → M) (n : Nat) :
    (((List.range n).filterMap f).map g).sum = ∑ j ∈ Finset.range n, (f j).elim 0 g := by
  induction n with
  | zero => simp
  | succ n ih =>
    rw [List.range_succ, List.filterMap_append, List.map_append, List.sum_append, ih, Finset.sum_range_succ]
    congr 1
    cases h : f n <;> simp [h]

/-- slot of a product monomial -/
theorem enc_add {D dp dq i j : Nat} (hD : D ≤ 63) (hd : dp + dq ≤ D) (hi : i < psi 6 dp) (hj : j < psi 6 dq) :
    ∃ idx, idx < psi 6 (dp + dq) ∧
      encode (mkTables D) (addIdx (decode (mkTables D) i dp) (decode (mkTables D) j dq)) (dp + dq) = some idx ∧
      mono (decode (mkTables D) idx (dp + dq)) = mono (decode (mkTables D) i dp) + mono (decode (mkTables D) j dq) := by
  have hl : (addIdx (decode (mkTables D) i dp) (decode (mkTables D) j dq)).length = 6 := by
    rw [length_addIdx, length_decode, length_decode]; rfl
  have hs : (addIdx (decode (mkTables D) i dp) (decode (mkTables D) j dq)).sum = dp + dq := by
    rw [sum_addIdx _ _ (by rw [length_decode, length_decode]), sum_decode hD (by omega) hi, sum_decode hD (by omega) hj]
  obtain ⟨idx, h1, h2, h3⟩ := encode_of_degree hD hd hl hs
  exact ⟨idx, h1, h2, by rw [h3, mono_addIdx (length_decode _ _ _) (length_decode _ _ _)]⟩

theorem mulUpd_bound {D dp dq : Nat} (hD : D ≤ 63) (hd : dp + dq ≤ D) (p q : List K) (hp : p.length = psi 6 dp)
    (hq : q.length = psi 6 dq) (i : Nat) : ∀ u ∈ mulUpd (mkTables D) p dp q dq i, u.1 < psi 6 (dp + dq) := by
  intro u hu
  unfold mulUpd at hu
  simp only at hu
  split at hu
  · cases hu
  · rename_i hpi
    have hi : i < psi 6 dp := by
      by_contra hc
      apply hpi
      rw [List.getD_eq_default _ _ (by omega)]
    obtain ⟨j, hj, hu⟩ := List.mem_filterMap.mp hu
    have hj' : j < psi 6 dq := by rw [← hq]; exact List.mem_range.mp hj
    split at hu
    · cases hu
    · obtain ⟨idx, h1, h2, _⟩ := enc_add hD hd hi hj'
      rw [h2] at hu
      simp only [Option.some.injEq] at hu
      rw [← hu]; exact h1

theorem mulUpd_sum {D dp dq : Nat} (hD : D ≤ 63) (hd : dp + dq ≤ D) (p q : List K) (hq : q.length = psi 6 dq) (i : Nat)
    (hi : i < psi 6 dp) :
    ((mulUpd (mkTables D) p dp q dq i).map (term (mkTables D) (dp + dq))).sum
      = monomial (mono (decode (mkTables D) i dp)) (p.getD i 0) * toMv (mkTables D) dq q := by
  unfold mulUpd
  simp only
  split
  · rename_i h; rw [h]; simp
  · rw [sum_filterMap_range, toMv, Finset.mul_sum]
    apply Finset.sum_congr rfl
    intro j hj
    have hj' : j < psi 6 dq := by rw [← hq]; exact Finset.mem_range.mp hj
    split
    · rename_i h; rw [h]; simp
    · obtain ⟨idx, _, h2, h3⟩ := enc_add hD hd hi hj'
      rw [h2]
      simp only [Option.elim, term]
      rw [h3, monomial_mul]

/-- `_poly_mul` returns the block of the product polynomial — for every schedule of the `prange` -/
theorem toMv_polyMulSched {D dp dq : Nat} (hD : D ≤ 63) (hd : dp + dq ≤ D) (p q : List K) (hp : p.length = psi 6 dp)
    (hq : q.length = psi 6 dq) (sched : List (List Nat)) (hs : sched.flatten.Perm (List.range p.length)) :
    toMv (mkTables D) (dp + dq) (polyMulSched (mkTables D) p dp q dq sched)
      = toMv (mkTables D) dp p * toMv (mkTables D) dq q := by
  unfold polyMulSched
  rw [toMv_parKernel_perm _ _ _ p.length _ (mulUpd_bound hD hd p q hp hq) sched hs]
  conv_rhs => rw [toMv, Finset.sum_mul]
  apply Finset.sum_congr rfl
  intro i hi
  exact mulUpd_sum hD hd p q hq i (by rw [← hp]; exact Finset.mem_range.mp hi)

theorem length_polyMulSched (T : List (List Nat)) (p q : List K) (dp dq : Nat) (sched : List (List Nat)) :
    (polyMulSched T p dp q dq sched).length = psi 6 (dp + dq) := length_parKernel _ _ _

/-! ### differentiation -/

theorem diffUpd_bound {D d : Nat} (hD : D ≤ 63) (hd : d ≤ D) (p : List K) (hp : p.length = psi 6 d) (v : Fin 6) (i : Nat) :
    ∀ u ∈ diffUpd (mkTables D) p v.val d i, u.1 < psi 6 (d - 1) := by
  intro u hu
  unfold diffUpd at hu
  simp only at hu
  split at hu
  · cases hu
  · rename_i hc
    have hi : i < psi 6 d := by
      by_contra h
      apply hc
      rw [List.getD_eq_default _ _ (by omega)]
    split at hu
    · cases hu
    · rename_i he
      have hl := length_decode (mkTables D) i d
      have hl' : ((decode (mkTables D) i d).set v.val ((decode (mkTables D) i d).getD v.val 0 - 1)).length = 6 := by
        rw [List.length_set]; exact hl
      have hs := sum_set_pred hl v he
      rw [sum_decode hD hd hi] at hs
      obtain ⟨idx, h1, h2, _⟩ := encode_of_degree hD (d := d - 1) (by omega) hl' hs
      rw [h2] at hu
      simp only [List.mem_singleton] at hu
      rw [hu]; exact h1

theorem diffUpd_sum {D d : Nat} (hD : D ≤ 63) (hd : d ≤ D) (p : List K) (v : Fin 6) (i : Nat) (hi : i < psi 6 d) :
    ((diffUpd (mkTables D) p v.val d i).map (term (mkTables D) (d - 1))).sum
      = pderiv v (monomial (mono (decode (mkTables D) i d)) (p.getD i 0)) := by
  unfold diffUpd
  simp only
  rw [pderiv_monomial]
  split
  · rename_i h; rw [h]; simp
  · split
    · rename_i he
      have : (mono (decode (mkTables D) i d)) v = 0 := by rw [mono_apply]; exact he
      rw [this]; simp
    · rename_i he
      have hl := length_decode (mkTables D) i d
      have hl' : ((decode (mkTables D) i d).set v.val ((decode (mkTables D) i d).getD v.val 0 - 1)).length = 6 := by
        rw [List.length_set]; exact hl
      have hs := sum_set_pred hl v he
      rw [sum_decode hD hd hi] at hs
      obtain ⟨idx, _, h2, h3⟩ := encode_of_degree hD (d := d - 1) (by omega) hl' hs
      rw [h2]
      simp only [List.map_cons, List.map_nil, List.sum_cons, List.sum_nil, add_zero, term]
      rw [h3, mono_set_pred hl v, mono_apply]

/-- `_poly_diff` returns the block of the partial derivative — for every schedule of the `prange` -/
theorem toMv_polyDiffSched {D d : Nat} (hD : D ≤ 63) (hd : d ≤ D) (p : List K) (hp : p.length = psi 6 d) (v : Fin 6)
    (sched : List (List Nat)) (hs : sched.flatten.Perm (List.range p.length)) :
    toMv (mkTables D) (d - 1) (polyDiffSched (mkTables D) p v.val d sched) = pderiv v (toMv (mkTables D) d p) := by
  unfold polyDiffSched
  split
  · rename_i h0
    subst h0
    rw [toMv_zeros]
    -- a degree-0 block is a constant
    unfold toMv
    rw [map_sum]
    symm
    apply Finset.sum_eq_zero
    intro i hi
    have hi' : i < psi 6 0 := by rw [← hp]; exact Finset.mem_range.mp hi
    rw [pderiv_monomial]
    have hsum := sum_decode hD hd hi'
    have : (mono (decode (mkTables D) i 0)) v = 0 := by
      rw [mono_apply]
      have hm : (decode (mkTables D) i 0).getD v.val 0 ≤ (decode (mkTables D) i 0).sum := by
        rw [List.getD_eq_getElem _ _ (by rw [length_decode]; exact v.isLt)]
        exact le_sum_of_mem (List.getElem_mem _)
      omega
    rw [this]; simp
  · rw [toMv_parKernel_perm _ _ _ p.length _ (diffUpd_bound hD hd p hp v) sched hs]
    conv_rhs => rw [toMv, map_sum]
    apply Finset.sum_congr rfl
    intro i hi
    exact diffUpd_sum hD hd p v i (by rw [← hp]; exact Finset.mem_range.mp hi)

theorem length_polyDiffSched (T : List (List Nat)) (p : List K) (var d : Nat) (sched : List (List Nat)) :
    (polyDiffSched T p var d sched).length = psi 6 (d - 1) := by
  unfold polyDiffSched
  split
  · rename_i h; subst h; simp
  · exact length_parKernel _ _ _

end


/-! ### coefficients -/

theorem mono_injective {a b : List Nat} (ha : a.length = 6) (hb : b.length = 6) (h : mono a = mono b) : a = b := by
  obtain ⟨a0, a1, a2, a3, a4, a5, rfl⟩ := length_six ha
  obtain ⟨b0, b1, b2, b3, b4, b5, rfl⟩ := length_six hb
  have h0 := DFunLike.congr_fun h (0 : Fin 6)
  have h1 := DFunLike.congr_fun h (1 : Fin 6)
  have h2 := DFunLike.congr_fun h (2 : Fin 6)
  have h3 := DFunLike.congr_fun h (3 : Fin 6)
  have h4 := DFunLike.congr_fun h (4 : Fin 6)
  have h5 := DFunLike.congr_fun h (5 : Fin 6)
  simp at h0 h1 h2 h3 h4 h5
  subst_vars; rfl

/-- distinct slots of a degree hold distinct monomials -/
theorem decode_injective {D d i j : Nat} (hD : D ≤ 63) (hd : d ≤ D) (hi : i < psi 6 d) (hj : j < psi 6 d)
    (h : mono (decode (mkTables D) i d) = mono (decode (mkTables D) j d)) : i = j := by
  have h' := mono_injective (length_decode _ _ _) (length_decode _ _ _) h
  rw [decode_table hD hd (psi_lt_enum hi), decode_table hD hd (psi_lt_enum hj)] at h'
  exact (List.Nodup.getElem_inj_iff (nodup_enum 6 d)).mp h'

section
variable {K : Type} [CommSemiring K]

/-- slot `i` of a block is the coefficient of the monomial `decode i` of the represented polynomial -/
theorem coeff_toMv {D d : Nat} (hD : D ≤ 63) (hd : d ≤ D) (p : List K) (hp : p.length = psi 6 d) {i : Nat} (hi : i < psi 6 d) :
    coeff (mono (decode (mkTables D) i d)) (toMv (mkTables D) d p) = p.getD i 0 := by
  classical
  unfold toMv
  rw [coeff_sum]
  rw [Finset.sum_eq_single i]
  · rw [coeff_monomial, if_pos rfl]
  · intro j hj hne
    rw [coeff_monomial, if_neg]
    intro h
    exact hne (decode_injective hD hd (by rw [← hp]; exact Finset.mem_range.mp hj) hi h)
  · intro h; exact absurd (Finset.mem_range.mpr (hp ▸ hi)) h

/-- a block is determined by the polynomial it represents -/
theorem toMv_injective {D d : Nat} (hD : D ≤ 63) (hd : d ≤ D) (p q : List K) (hp : p.length = psi 6 d) (hq : q.length = psi 6 d)
    (h : toMv (mkTables D) d p = toMv (mkTables D) d q) : p = q := by
  apply List.ext_getElem (by rw [hp, hq])
  intro i h1 h2
  have hi : i < psi 6 d := hp ▸ h1
  have e1 := coeff_toMv hD hd p hp hi
  have e2 := coeff_toMv hD hd q hq hi
  rw [h, e2] at e1
  rw [List.getD_eq_getElem _ _ h1, List.getD_eq_getElem _ _ h2] at e1
  exact e1.symm

end



/-! ### integration -/
section
variable {K : Type} [Field K] [CharZero K] [DecidableEq K]

theorem intUpd_bound {D d : Nat} (hD : D ≤ 63) (hd : d + 1 ≤ D) (p : List K) (hp : p.length = psi 6 d) (v : Fin 6) (i : Nat) :
    ∀ u ∈ intUpd (mkTables D) p v.val d i, u.1 < psi 6 (d + 1) := by
  intro u hu
  unfold intUpd at hu
  simp only at hu
  split at hu
  · cases hu
  · rename_i hc
    have hi : i < psi 6 d := by
      by_contra h
      apply hc
      rw [List.getD_eq_default _ _ (by omega)]
    have hl := length_decode (mkTables D) i d
    have hl' : ((decode (mkTables D) i d).set v.val ((decode (mkTables D) i d).getD v.val 0 + 1)).length = 6 := by
      rw [List.length_set]; exact hl
    have hs := sum_set_succ hl v
    rw [sum_decode hD (by omega) hi] at hs
    obtain ⟨idx, h1, h2, _⟩ := encode_of_degree hD hd hl' hs
    rw [h2] at hu
    simp only [List.mem_singleton] at hu
    rw [hu]; exact h1

theorem intUpd_sum {D d : Nat} (hD : D ≤ 63) (hd : d + 1 ≤ D) (p : List K) (v : Fin 6) (i : Nat) (hi : i < psi 6 d) :
    pderiv v (((intUpd (mkTables D) p v.val d i).map (term (mkTables D) (d + 1))).sum)
      = monomial (mono (decode (mkTables D) i d)) (p.getD i 0) := by
  unfold intUpd
  simp only
  split
  · rename_i h; rw [h]; simp
  · have hl := length_decode (mkTables D) i d
    have hl' : ((decode (mkTables D) i d).set v.val ((decode (mkTables D) i d).getD v.val 0 + 1)).length = 6 := by
      rw [List.length_set]; exact hl
    have hs := sum_set_succ hl v
    rw [sum_decode hD (by omega) hi] at hs
    obtain ⟨idx, _, h2, h3⟩ := encode_of_degree hD hd hl' hs
    rw [h2]
    simp only [List.map_cons, List.map_nil, List.sum_cons, List.sum_nil, add_zero, term]
    rw [h3, mono_set_succ hl v, pderiv_monomial]
    have e1 : mono (decode (mkTables D) i d) + Finsupp.single v 1 - Finsupp.single v 1 = mono (decode (mkTables D) i d) := by
      ext j; simp
    rw [e1]
    congr 1
    have : (mono (decode (mkTables D) i d) + Finsupp.single v 1 : Fin 6 →₀ ℕ) v = (decode (mkTables D) i d).getD v.val 0 + 1 := by
      simp
    rw [this]
    have hne : (((decode (mkTables D) i d).getD v.val 0 + 1 : ℕ) : K) ≠ 0 := Nat.cast_ne_zero.mpr (by omega)
    exact div_mul_cancel₀ _ hne

/-- `_poly_integrate`: the partial derivative of the returned block is the input block (antiderivative in `x_v`) -/
theorem pderiv_toMv_polyIntegrate {D d : Nat} (hD : D ≤ 63) (hd : d + 1 ≤ D) (p : List K) (hp : p.length = psi 6 d) (v : Fin 6) :
    pderiv v (toMv (mkTables D) (d + 1) (polyIntegrate (mkTables D) p v.val d)) = toMv (mkTables D) d p := by
  unfold polyIntegrate
  rw [toMv_applyUpd _ _ _ _ (by
    intro u hu
    obtain ⟨i, _, hi⟩ := List.mem_flatMap.mp hu
    rw [length_zeros]; exact intUpd_bound hD hd p hp v i u hi), toMv_zeros, zero_add]
  have : ∀ (l : List Nat), (∀ i ∈ l, i < psi 6 d) →
      pderiv v (((l.flatMap (intUpd (mkTables D) p v.val d)).map (term (mkTables D) (d + 1))).sum)
        = (l.map fun i => monomial (mono (decode (mkTables D) i d)) (p.getD i 0)).sum := by
    intro l
    induction l with
    | nil => intro _; simp
    | cons a as ih =>
      intro h
      rw [List.flatMap_cons, List.map_append, List.sum_append, map_add, ih (fun i hi => h i (by simp [hi])),
        intUpd_sum hD hd p v a (h a (by simp)), List.map_cons, List.sum_cons]
  rw [this _ (by intro i hi; rw [← hp]; exact List.mem_range.mp hi), sum_map_range_eq_finset]
  rfl

theorem length_polyIntegrate (T : List (List Nat)) (p : List K) (var d : Nat) :
    (polyIntegrate T p var d).length = psi 6 (d + 1) := by simp [polyIntegrate]

end

/-! ### evaluation -/
section
variable {K : Type} [CommSemiring K] [DecidableEq K]

theorem length_powTable (b : K) : ∀ n, (powTable b n).length = n + 1
  | 0 => rfl
  | n + 1 => by simp [powTable, length_powTable b n]

theorem getD_powTable (b : K) : ∀ (n e : Nat), e ≤ n → (powTable b n).getD e 0 = b ^ e
  | 0, e, h => by
    have : e = 0 := by omega
    subst this; simp [powTable]
  | n + 1, e, h => by
    simp only [powTable]
    by_cases he : e ≤ n
    · rw [List.getD_append _ _ _ _ (by rw [length_powTable]; omega)]
      exact getD_powTable b n e he
    · have : e = n + 1 := by omega
      subst this
      rw [List.getD_append_right _ _ _ _ (by rw [length_powTable])]
      rw [length_powTable, Nat.sub_self, List.getD_cons_zero, getD_powTable b n n le_rfl, pow_succ]

theorem foldl_add_range (f : Nat → K) (n : Nat) (s0 : K) :
    (List.range n).foldl (fun s i => s + f i) s0 = s0 + ∑ i ∈ Finset.range n, f i := by
  induction n with
  | zero => simp
  | succ n ih => rw [List.range_succ, List.foldl_append, ih, Finset.sum_range_succ]; simp [add_assoc]

theorem foldl_range_eq_sum (F : K → Nat → K) (g : Nat → K) (n : Nat) (h : ∀ s i, i < n → F s i = s + g i) (s0 : K) :
    (List.range n).foldl F s0 = s0 + ∑ i ∈ Finset.range n, g i := by
  induction n with
  | zero => simp
  | succ n ih =>
    rw [List.range_succ, List.foldl_append, ih (fun s i hi => h s i (by omega)), Finset.sum_range_succ]
    simp only [List.foldl_cons, List.foldl_nil]
    rw [h _ n (by omega), add_assoc]

/-- `_poly_evaluate` is the value of the represented polynomial at the point -/
theorem polyEvaluate_eq_eval {D d : Nat} (hD : D ≤ 63) (hd : d ≤ D) (p : List K) (hp : p.length = psi 6 d) (pt : List K)
    (hpt : pt.length = 6) :
    polyEvaluate (mkTables D) p d pt = eval (fun i : Fin 6 => pt.getD i.val 0) (toMv (mkTables D) d p) := by
  unfold polyEvaluate
  split
  · rename_i h0
    unfold toMv; rw [h0]; simp
  · simp only
    have key : ∀ i, i < psi 6 d →
        (List.range 6).foldl (fun t v => t * ((pt.map fun b => powTable b d).getD v []).getD ((decode (mkTables D) i d).getD v 0) 0) (1 : K)
          = (mono (decode (mkTables D) i d)).prod fun n e => (pt.getD n.val 0) ^ e := by
      intro i hi
      rw [Finsupp.prod_fintype _ _ (fun _ => pow_zero _), Fin.prod_univ_six]
      have hsum := sum_decode hD hd hi
      have hle : ∀ v : Fin 6, (decode (mkTables D) i d).getD v.val 0 ≤ d := by
        intro v
        have : (decode (mkTables D) i d).getD v.val 0 ≤ (decode (mkTables D) i d).sum := by
          rw [List.getD_eq_getElem _ _ (by rw [length_decode]; exact v.isLt)]
          exact le_sum_of_mem (List.getElem_mem _)
        omega
      have tb : ∀ v : Fin 6, ((pt.map fun b => powTable b d).getD v.val []).getD ((decode (mkTables D) i d).getD v.val 0) 0
          = (pt.getD v.val 0) ^ ((decode (mkTables D) i d).getD v.val 0) := by
        intro v
        have hv : v.val < pt.length := by rw [hpt]; exact v.isLt
        have e : (pt.map fun b => powTable b d).getD v.val [] = powTable (pt.getD v.val 0) d := by
          rw [List.getD_eq_getElem?_getD, List.getElem?_map, List.getElem?_eq_getElem hv, List.getD_eq_getElem _ _ hv]
          rfl
        rw [e, getD_powTable _ _ _ (hle v)]
      have h0 := tb 0; have h1 := tb 1; have h2 := tb 2; have h3 := tb 3; have h4 := tb 4; have h5 := tb 5
      simp only [mono_apply]
      simp only [Fin.val_zero, Fin.val_one] at h0 h1
      have e2 : ((2 : Fin 6) : Nat) = 2 := rfl
      have e3 : ((3 : Fin 6) : Nat) = 3 := rfl
      have e4 : ((4 : Fin 6) : Nat) = 4 := rfl
      have e5 : ((5 : Fin 6) : Nat) = 5 := rfl
      rw [e2] at h2; rw [e3] at h3; rw [e4] at h4; rw [e5] at h5
      simp only [List.range, List.range.loop, List.foldl_cons, List.foldl_nil, one_mul]
      rw [h0, h1, h2, h3, h4, h5]
      simp only [Fin.val_zero, Fin.val_one, e2, e3, e4, e5]
    have body : ∀ (s : K) (i : Nat), i < psi 6 d →
        (if p.getD i 0 = 0 then s else s + p.getD i 0 *
          (List.range 6).foldl (fun t v => t * ((pt.map fun b => powTable b d).getD v []).getD ((decode (mkTables D) i d).getD v 0) 0) (1 : K))
        = s + p.getD i 0 * ((mono (decode (mkTables D) i d)).prod fun n e => (pt.getD n.val 0) ^ e) := by
      intro s i hi
      rw [key i hi]
      split
      · rename_i h; rw [h]; simp
      · rfl
    rw [foldl_range_eq_sum _ _ p.length (fun s i hi => body s i (by omega)) 0, zero_add]
    unfold toMv
    rw [map_sum]
    apply Finset.sum_congr rfl
    intro i _
    rw [eval_monomial]

end



/-! ### Poisson bracket -/
section
variable {K : Type} [CommRing K] [DecidableEq K]

theorem length_polySub (p q : List K) : (polySub p q).length = min p.length q.length := by simp [polySub]

theorem getD_polySub (p q : List K) (h : p.length = q.length) (j : Nat) :
    (polySub p q).getD j 0 = p.getD j 0 - q.getD j 0 := by
  unfold polySub
  by_cases hj : j < p.length
  · have hq : j < q.length := h ▸ hj
    rw [List.getD_eq_getElem?_getD, List.getD_eq_getElem?_getD, List.getD_eq_getElem?_getD,
      List.getElem?_zipWith, List.getElem?_eq_getElem hj, List.getElem?_eq_getElem hq]
    rfl
  · have hq : ¬ j < q.length := h ▸ hj
    rw [List.getD_eq_default _ _ (by simp; omega), List.getD_eq_default _ _ (by omega),
      List.getD_eq_default _ _ (by omega), sub_zero]

theorem toMv_polySub (clmo : List (List Nat)) (d : Nat) (p q : List K) (h : p.length = q.length) :
    toMv clmo d (polySub p q) = toMv clmo d p - toMv clmo d q := by
  unfold toMv
  rw [length_polySub, ← h, Nat.min_self, ← Finset.sum_sub_distrib]
  apply Finset.sum_congr rfl
  intro i _
  rw [getD_polySub p q h, map_sub]

theorem step_shape (r t1 t2 : List K) (n : Nat) (hr : r.length = n) (h1 : t1.length = n) (h2 : t2.length = n) :
    (let r1 := if t1.length = r.length then polyAdd r t1 else r
     if t2.length = r1.length then polySub r1 t2 else r1) = polySub (polyAdd r t1) t2 := by
  have e1 : t1.length = r.length := by rw [h1, hr]
  have e2 : t2.length = (polyAdd r t1).length := by rw [length_polyAdd, h1, hr, h2, Nat.min_self]
  simp only [if_pos e1, if_pos e2]

/-- the canonical bracket of two polynomials in `(q₁,q₂,q₃,p₁,p₂,p₃)` -/
noncomputable def bracket (P Q : MvPolynomial (Fin 6) K) : MvPolynomial (Fin 6) K :=
  ∑ m : Fin 3, (pderiv ⟨m.val, by omega⟩ P * pderiv ⟨m.val + 3, by omega⟩ Q
              - pderiv ⟨m.val + 3, by omega⟩ P * pderiv ⟨m.val, by omega⟩ Q)

theorem toMv_poissonStep {D dp dq : Nat} (hD : D ≤ 63) (hd : dp + dq ≤ D) (hdp : 1 ≤ dp) (hdq : 1 ≤ dq) (p q : List K)
    (hp : p.length = psi 6 dp) (hq : q.length = psi 6 dq) (σ : Nat → List (List Nat))
    (hσ : ∀ n, (σ n).flatten.Perm (List.range n)) (r : List K) (hr : r.length = psi 6 (dp + dq - 2)) (m : Fin 3) :
    (poissonStep (mkTables D) σ p dp q dq r m.val).length = psi 6 (dp + dq - 2) ∧
    toMv (mkTables D) (dp + dq - 2) (poissonStep (mkTables D) σ p dp q dq r m.val)
      = toMv (mkTables D) (dp + dq - 2) r
        + (pderiv ⟨m.val, by omega⟩ (toMv (mkTables D) dp p) * pderiv ⟨m.val + 3, by omega⟩ (toMv (mkTables D) dq q)
           - pderiv ⟨m.val + 3, by omega⟩ (toMv (mkTables D) dp p) * pderiv ⟨m.val, by omega⟩ (toMv (mkTables D) dq q)) := by
  have e : dp - 1 + (dq - 1) = dp + dq - 2 := by omega
  have d1 := toMv_polyDiffSched hD (by omega : dp ≤ D) p hp ⟨m.val, by omega⟩ (σ p.length) (hσ _)
  have d2 := toMv_polyDiffSched hD (by omega : dq ≤ D) q hq ⟨m.val + 3, by omega⟩ (σ q.length) (hσ _)
  have d3 := toMv_polyDiffSched hD (by omega : dp ≤ D) p hp ⟨m.val + 3, by omega⟩ (σ p.length) (hσ _)
  have d4 := toMv_polyDiffSched hD (by omega : dq ≤ D) q hq ⟨m.val, by omega⟩ (σ q.length) (hσ _)
  have m1 := toMv_polyMulSched hD (by omega : dp - 1 + (dq - 1) ≤ D) _ _ (length_polyDiffSched (mkTables D) p m.val dp (σ p.length))
    (length_polyDiffSched (mkTables D) q (m.val + 3) dq (σ q.length)) (σ _) (hσ _)
  have m2 := toMv_polyMulSched hD (by omega : dp - 1 + (dq - 1) ≤ D) _ _ (length_polyDiffSched (mkTables D) p (m.val + 3) dp (σ p.length))
    (length_polyDiffSched (mkTables D) q m.val dq (σ q.length)) (σ _) (hσ _)
  have l1 := length_polyMulSched (mkTables D) (polyDiffSched (mkTables D) p m.val dp (σ p.length))
    (polyDiffSched (mkTables D) q (m.val + 3) dq (σ q.length)) (dp - 1) (dq - 1)
    (σ (polyDiffSched (mkTables D) p m.val dp (σ p.length)).length)
  have l2 := length_polyMulSched (mkTables D) (polyDiffSched (mkTables D) p (m.val + 3) dp (σ p.length))
    (polyDiffSched (mkTables D) q m.val dq (σ q.length)) (dp - 1) (dq - 1)
    (σ (polyDiffSched (mkTables D) p (m.val + 3) dp (σ p.length)).length)
  rw [e] at m1 m2 l1 l2
  simp only at d1 d2 d3 d4
  have shape := step_shape r _ _ _ hr l1 l2
  have hstep : poissonStep (mkTables D) σ p dp q dq r m.val = _ := shape
  rw [hstep]
  have lr1 : (polyAdd r (polyMulSched (mkTables D) (polyDiffSched (mkTables D) p m.val dp (σ p.length)) (dp - 1)
      (polyDiffSched (mkTables D) q (m.val + 3) dq (σ q.length)) (dq - 1)
      (σ (polyDiffSched (mkTables D) p m.val dp (σ p.length)).length))).length = psi 6 (dp + dq - 2) := by
    rw [length_polyAdd, l1, hr, Nat.min_self]
  refine ⟨by rw [length_polySub, lr1, l2, Nat.min_self], ?_⟩
  rw [toMv_polySub _ _ _ _ (by rw [lr1, l2]), toMv_polyAdd _ _ _ _ (by rw [hr, l1]), m1, m2, d1, d2, d3, d4]
  ring

/-- `_poly_poisson` returns the block of the Poisson bracket `Σ ∂P/∂qᵢ ∂Q/∂pᵢ − ∂P/∂pᵢ ∂Q/∂qᵢ` (for every scheduler of the
nested parallel kernels); the zero-degree cases return the zero block, which is the bracket with a constant -/
theorem toMv_polyPoisson {D dp dq : Nat} (hD : D ≤ 63) (hd : dp + dq ≤ D) (p q : List K)
    (hp : p.length = psi 6 dp) (hq : q.length = psi 6 dq) (σ : Nat → List (List Nat))
    (hσ : ∀ n, (σ n).flatten.Perm (List.range n)) :
    toMv (mkTables D) (dp + dq - 2) (polyPoisson (mkTables D) σ p dp q dq)
      = bracket (toMv (mkTables D) dp p) (toMv (mkTables D) dq q) := by
  unfold polyPoisson
  split
  · rename_i h0
    rw [toMv_zeros]
    unfold bracket
    symm
    apply Finset.sum_eq_zero
    intro m _
    rcases h0 with h0 | h0
    · subst h0
      have a := toMv_polyDiffSched hD (by omega : 0 ≤ D) p hp ⟨m.val, by omega⟩ [List.range p.length] (by simp)
      have b := toMv_polyDiffSched hD (by omega : 0 ≤ D) p hp ⟨m.val + 3, by omega⟩ [List.range p.length] (by simp)
      simp only [polyDiffSched, if_true, toMv_zeros] at a b
      rw [← a, ← b]; simp
    · subst h0
      have a := toMv_polyDiffSched hD (by omega : 0 ≤ D) q hq ⟨m.val, by omega⟩ [List.range q.length] (by simp)
      have b := toMv_polyDiffSched hD (by omega : 0 ≤ D) q hq ⟨m.val + 3, by omega⟩ [List.range q.length] (by simp)
      simp only [polyDiffSched, if_true, toMv_zeros] at a b
      rw [← a, ← b]; simp
  · rename_i h0
    have hdp : 1 ≤ dp := by omega
    have hdq : 1 ≤ dq := by omega
    simp only [List.foldl_cons, List.foldl_nil]
    have s0 := toMv_poissonStep hD hd hdp hdq p q hp hq σ hσ (zeros (psi 6 (dp + dq - 2))) (length_zeros _) (0 : Fin 3)
    have s1 := toMv_poissonStep hD hd hdp hdq p q hp hq σ hσ _ s0.1 (1 : Fin 3)
    have s2 := toMv_poissonStep hD hd hdp hdq p q hp hq σ hσ _ s1.1 (2 : Fin 3)
    have e0 : ((0 : Fin 3) : Nat) = 0 := rfl
    have e1 : ((1 : Fin 3) : Nat) = 1 := rfl
    have e2 : ((2 : Fin 3) : Nat) = 2 := rfl
    simp only [e0, e1, e2] at s0 s1 s2
    rw [s2.2, s1.2, s0.2, toMv_zeros, zero_add]
    unfold bracket
    rw [Fin.sum_univ_three]
    simp only [e0, e1, e2]

theorem length_polyPoisson {D dp dq : Nat} (hD : D ≤ 63) (hd : dp + dq ≤ D) (hdp : 1 ≤ dp) (hdq : 1 ≤ dq) (p q : List K)
    (hp : p.length = psi 6 dp) (hq : q.length = psi 6 dq) (σ : Nat → List (List Nat))
    (hσ : ∀ n, (σ n).flatten.Perm (List.range n)) :
    (polyPoisson (mkTables D) σ p dp q dq).length = psi 6 (dp + dq - 2) := by
  unfold polyPoisson
  rw [if_neg (by omega)]
  simp only [List.foldl_cons, List.foldl_nil]
  have s0 := toMv_poissonStep hD hd hdp hdq p q hp hq σ hσ (zeros (psi 6 (dp + dq - 2))) (length_zeros _) (0 : Fin 3)
  have s1 := toMv_poissonStep hD hd hdp hdq p q hp hq σ hσ _ s0.1 (1 : Fin 3)
  exact (toMv_poissonStep hD hd hdp hdq p q hp hq σ hσ _ s1.1 (2 : Fin 3)).1

end


/-! ### graded polynomials (operations.py) -/

section
variable {K : Type} [CommSemiring K] [DecidableEq K]

/-- a graded list with blocks of the right sizes for degrees `0..N` -/
def WF (P : GPoly K) (N : Nat) : Prop := P.length = N + 1 ∧ ∀ d, d ≤ N → (P.getD d []).length = psi 6 d

theorem anyNZ_false {b : List K} (h : anyNZ b = false) (i : Nat) : b.getD i 0 = 0 := by
  unfold anyNZ at h
  rw [List.any_eq_false] at h
  by_cases hi : i < b.length
  · have := h (b[i]) (List.getElem_mem hi)
    rw [List.getD_eq_getElem _ _ hi]
    simpa using this
  · exact List.getD_eq_default _ _ (by omega)

theorem toMv_of_anyNZ_false (clmo : List (List Nat)) (d : Nat) {b : List K} (h : anyNZ b = false) : toMv clmo d b = 0 := by
  unfold toMv
  apply Finset.sum_eq_zero
  intro i _
  rw [anyNZ_false h, monomial_zero]

theorem WF_zeroList (N : Nat) : WF (polynomialZeroList N : GPoly K) N := by
  constructor
  · simp [polynomialZeroList]
  · intro d hd
    unfold polynomialZeroList
    rw [List.getD_eq_getElem?_getD, List.getElem?_map, List.getElem?_range (by omega)]
    simp

theorem getD_zeroList (N d : Nat) (hd : d ≤ N) : (polynomialZeroList N : GPoly K).getD d [] = zeros (psi 6 d) := by
  unfold polynomialZeroList
  rw [List.getD_eq_getElem?_getD, List.getElem?_map, List.getElem?_range (by omega)]
  rfl

theorem getD_set_list {α : Type} (l : List α) (i j : Nat) (a z : α) (hi : i < l.length) :
    (l.set i a).getD j z = if j = i then a else l.getD j z := by
  rw [List.getD_eq_getElem?_getD, List.getElem?_set]
  by_cases h : i = j
  · subst h; simp [hi]
  · rw [if_neg h, if_neg (Ne.symm h), List.getD_eq_getElem?_getD]

/-- one `(d1, d2)` step of `_polynomial_multiply` -/
theorem multiply_step {D N : Nat} (hD : D ≤ 63) (hN : N ≤ D) (σ : Nat → List (List Nat))
    (hσ : ∀ n, (σ n).flatten.Perm (List.range n)) (P Q R : GPoly K) (hP : WF P N) (hQ : WF Q N) (hR : WF R N)
    (d1 d2 : Nat) (h12 : d1 + d2 ≤ N) :
    let R' := if d2 ≥ Q.length ∨ !anyNZ (Q.getD d2 []) then R else
      let prod := polyMulSched (mkTables D) (P.getD d1 []) d1 (Q.getD d2 []) d2 (σ (P.getD d1 []).length)
      if prod.length = (R.getD (d1 + d2) []).length then R.set (d1 + d2) (polyAdd (R.getD (d1 + d2) []) prod) else R
    WF R' N ∧ ∀ r, r ≤ N → toMv (mkTables D) r (R'.getD r []) = toMv (mkTables D) r (R.getD r [])
      + (if r = d1 + d2 then toMv (mkTables D) d1 (P.getD d1 []) * toMv (mkTables D) d2 (Q.getD d2 []) else 0) := by
  intro R'
  have hd2 : ¬ d2 ≥ Q.length := by rw [hQ.1]; omega
  by_cases hz : anyNZ (Q.getD d2 []) = false
  · have hR' : R' = R := by simp only [R']; rw [if_pos (Or.inr (by rw [hz]; rfl))]
    rw [hR']
    refine ⟨hR, fun r _ => ?_⟩
    rw [toMv_of_anyNZ_false _ d2 hz, mul_zero]; simp
  · have hlp := hP.2 d1 (by omega)
    have hlq := hQ.2 d2 (by omega)
    have hlr := hR.2 (d1 + d2) h12
    have hlen := length_polyMulSched (mkTables D) (P.getD d1 []) (Q.getD d2 []) d1 d2 (σ (P.getD d1 []).length)
    have hR' : R' = R.set (d1 + d2) (polyAdd (R.getD (d1 + d2) [])
        (polyMulSched (mkTables D) (P.getD d1 []) d1 (Q.getD d2 []) d2 (σ (P.getD d1 []).length))) := by
      simp only [R']
      rw [if_neg (by
        intro h; rcases h with h | h
        · exact hd2 h
        · apply hz; revert h; cases anyNZ (Q.getD d2 []) <;> simp), if_pos (by rw [hlen, hlr])]
    rw [hR']
    have hi : d1 + d2 < R.length := by rw [hR.1]; omega
    constructor
    · constructor
      · rw [List.length_set]; exact hR.1
      · intro d hd
        rw [getD_set_list _ _ _ _ _ hi]
        split
        · rename_i h; subst h; rw [length_polyAdd, hlr, hlen, Nat.min_self]
        · exact hR.2 d hd
    · intro r hr
      rw [getD_set_list _ _ _ _ _ hi]
      by_cases h : r = d1 + d2
      · subst h
        rw [if_pos rfl, if_pos rfl, toMv_polyAdd _ _ _ _ (by rw [hlr, hlen]),
          toMv_polyMulSched hD (by omega) _ _ hlp hlq _ (hσ _)]
      · rw [if_neg h, if_neg h, add_zero]

end


section
variable {K : Type} [CommSemiring K] [DecidableEq K]

/-- contribution of the block pair `(d1, d2)` to the product -/
noncomputable def contrib (T : List (List Nat)) (P Q : GPoly K) (d1 d2 : Nat) : MvPolynomial (Fin 6) K :=
  toMv T d1 (P.getD d1 []) * toMv T d2 (Q.getD d2 [])

theorem multiply_inner {D N : Nat} (hD : D ≤ 63) (hN : N ≤ D) (σ : Nat → List (List Nat))
    (hσ : ∀ n, (σ n).flatten.Perm (List.range n)) (P Q R : GPoly K) (hP : WF P N) (hQ : WF Q N) (hR : WF R N)
    (d1 : Nat) (hd1 : d1 ≤ N) : ∀ n, n ≤ N + 1 - d1 →
    let Rn := (List.range n).foldl (fun R d2 =>
      if d2 ≥ Q.length ∨ !anyNZ (Q.getD d2 []) then R else
      let prod := polyMulSched (mkTables D) (P.getD d1 []) d1 (Q.getD d2 []) d2 (σ (P.getD d1 []).length)
      if prod.length = (R.getD (d1 + d2) []).length then R.set (d1 + d2) (polyAdd (R.getD (d1 + d2) []) prod) else R) R
    WF Rn N ∧ ∀ r, r ≤ N → toMv (mkTables D) r (Rn.getD r []) = toMv (mkTables D) r (R.getD r [])
      + (if d1 ≤ r ∧ r - d1 < n then contrib (mkTables D) P Q d1 (r - d1) else 0) := by
  intro n
  induction n with
  | zero => intro _; simp; exact hR
  | succ n ih =>
    intro hn
    have ih' := ih (by omega)
    simp only at ih' ⊢
    rw [List.range_succ, List.foldl_append]
    simp only [List.foldl_cons, List.foldl_nil]
    have st := multiply_step hD hN σ hσ P Q _ hP hQ ih'.1 d1 n (by omega)
    simp only at st
    refine ⟨st.1, fun r hr => ?_⟩
    rw [st.2 r hr, ih'.2 r hr, add_assoc]
    congr 1
    by_cases h : r = d1 + n
    · subst h
      rw [if_pos rfl, if_neg (by omega), if_pos (by omega), zero_add]
      unfold contrib
      have : d1 + n - d1 = n := by omega
      rw [this]
    · rw [if_neg h, add_zero]
      by_cases h2 : d1 ≤ r ∧ r - d1 < n
      · rw [if_pos h2, if_pos (by omega)]
      · rw [if_neg h2, if_neg (by omega)]

theorem multiply_row {D N : Nat} (hD : D ≤ 63) (hN : N ≤ D) (σ : Nat → List (List Nat))
    (hσ : ∀ n, (σ n).flatten.Perm (List.range n)) (P Q R : GPoly K) (hP : WF P N) (hQ : WF Q N) (hR : WF R N)
    (d1 : Nat) (hd1 : d1 ≤ N) :
    WF (multiplyRow (mkTables D) σ P Q N d1 R) N ∧ ∀ r, r ≤ N →
      toMv (mkTables D) r ((multiplyRow (mkTables D) σ P Q N d1 R).getD r []) = toMv (mkTables D) r (R.getD r [])
        + (if d1 ≤ r then contrib (mkTables D) P Q d1 (r - d1) else 0) := by
  unfold multiplyRow
  have hd : ¬ d1 ≥ P.length := by rw [hP.1]; omega
  by_cases hz : anyNZ (P.getD d1 []) = false
  · rw [if_pos (Or.inr (by rw [hz]; rfl))]
    refine ⟨hR, fun r _ => ?_⟩
    unfold contrib
    rw [toMv_of_anyNZ_false _ d1 hz, zero_mul]; simp
  · rw [if_neg (by
      intro h; rcases h with h | h
      · exact hd h
      · apply hz; revert h; cases anyNZ (P.getD d1 []) <;> simp)]
    have := multiply_inner hD hN σ hσ P Q R hP hQ hR d1 hd1 (N + 1 - d1) le_rfl
    simp only at this
    refine ⟨this.1, fun r hr => ?_⟩
    rw [this.2 r hr]
    congr 1
    by_cases h : d1 ≤ r
    · rw [if_pos h, if_pos ⟨h, by omega⟩]
    · rw [if_neg h, if_neg (by omega)]

theorem multiply_outer {D N : Nat} (hD : D ≤ 63) (hN : N ≤ D) (σ : Nat → List (List Nat))
    (hσ : ∀ n, (σ n).flatten.Perm (List.range n)) (P Q : GPoly K) (hP : WF P N) (hQ : WF Q N) : ∀ n, n ≤ N + 1 →
    let Rn := (List.range n).foldl (fun R d1 => multiplyRow (mkTables D) σ P Q N d1 R) (polynomialZeroList N)
    WF Rn N ∧ ∀ r, r ≤ N → toMv (mkTables D) r (Rn.getD r [])
      = ∑ d1 ∈ Finset.range n, (if d1 ≤ r then contrib (mkTables D) P Q d1 (r - d1) else 0) := by
  intro n
  induction n with
  | zero =>
    intro _
    simp only [List.range_zero, List.foldl_nil, Finset.range_zero, Finset.sum_empty]
    refine ⟨WF_zeroList N, fun r hr => ?_⟩
    rw [getD_zeroList N r hr, toMv_zeros]
  | succ n ih =>
    intro hn
    have ih' := ih (by omega)
    simp only at ih' ⊢
    rw [List.range_succ, List.foldl_append]
    simp only [List.foldl_cons, List.foldl_nil]
    have st := multiply_row hD hN σ hσ P Q _ hP hQ ih'.1 n (by omega)
    refine ⟨st.1, fun r hr => ?_⟩
    rw [st.2 r hr, ih'.2 r hr, Finset.sum_range_succ]

/-- `_polynomial_multiply`: block `r` of the result is `Σ_{d1+d2=r} P[d1]·Q[d2]`, i.e. the product truncated at `max_deg` -/
theorem toMv_polynomialMultiply {D N : Nat} (hD : D ≤ 63) (hN : N ≤ D) (σ : Nat → List (List Nat))
    (hσ : ∀ n, (σ n).flatten.Perm (List.range n)) (P Q : GPoly K) (hP : WF P N) (hQ : WF Q N) :
    WF (polynomialMultiply (mkTables D) σ P Q N) N ∧ ∀ r, r ≤ N →
      toMv (mkTables D) r ((polynomialMultiply (mkTables D) σ P Q N).getD r [])
        = ∑ x ∈ Finset.antidiagonal r, toMv (mkTables D) x.1 (P.getD x.1 []) * toMv (mkTables D) x.2 (Q.getD x.2 []) := by
  have := multiply_outer hD hN σ hσ P Q hP hQ (N + 1) le_rfl
  simp only at this
  unfold polynomialMultiply
  refine ⟨this.1, fun r hr => ?_⟩
  rw [this.2 r hr, Finset.Nat.sum_antidiagonal_eq_sum_range_succ (fun a b => toMv (mkTables D) a (P.getD a []) * toMv (mkTables D) b (Q.getD b []))]
  rw [← Finset.sum_filter]
  have : (Finset.range (N + 1)).filter (fun d1 => d1 ≤ r) = Finset.range (r + 1) := by
    ext a; simp only [Finset.mem_filter, Finset.mem_range]; omega
  rw [this]
  rfl

end

/-! ### truncated powers: the grading variable -/

section
variable {R : Type} [CommSemiring R]

/-- truncation of a power series in the grading variable at degree `N` (inclusive) -/
noncomputable def tr (N : Nat) (φ : PowerSeries R) : PowerSeries R := PowerSeries.mk fun r => if r ≤ N then PowerSeries.coeff r φ else 0

theorem coeff_tr (N r : Nat) (φ : PowerSeries R) : PowerSeries.coeff r (tr N φ) = if r ≤ N then PowerSeries.coeff r φ else 0 := by
  simp [tr, PowerSeries.coeff_mk]

theorem tr_tr_mul (N : Nat) (a b : PowerSeries R) : tr N (tr N a * b) = tr N (a * b) := by
  refine PowerSeries.ext (fun r => ?_)
  rw [coeff_tr, coeff_tr]
  split
  · rename_i hr
    rw [PowerSeries.coeff_mul, PowerSeries.coeff_mul]
    apply Finset.sum_congr rfl
    intro x hx
    have := Finset.mem_antidiagonal.mp hx
    rw [coeff_tr, if_pos (by omega)]
  · rfl

theorem tr_idem (N : Nat) (a : PowerSeries R) : tr N (tr N a) = tr N a := by
  have := tr_tr_mul N a 1
  simpa using this

theorem tr_mul_tr_pow (N : Nat) (y : PowerSeries R) : ∀ (n : Nat) (x : PowerSeries R), tr N (x * (tr N y) ^ n) = tr N (x * y ^ n)
  | 0, x => by simp
  | n + 1, x => by
    have e1 : x * tr N y ^ (n + 1) = tr N y * (x * tr N y ^ n) := by ring
    rw [e1, tr_tr_mul]
    have e2 : y * (x * tr N y ^ n) = (y * x) * tr N y ^ n := by ring
    rw [e2, tr_mul_tr_pow N y n (y * x)]
    congr 1; ring

end

section
variable {K : Type} [CommSemiring K] [DecidableEq K]

/-- the graded list as a power series in a grading variable: coefficient `r` = the polynomial of block `r` -/
noncomputable def Ser (T : List (List Nat)) (N : Nat) (P : GPoly K) : PowerSeries (MvPolynomial (Fin 6) K) :=
  PowerSeries.mk fun r => if r ≤ N then toMv T r (P.getD r []) else 0

theorem coeff_Ser (T : List (List Nat)) (N r : Nat) (P : GPoly K) :
    PowerSeries.coeff r (Ser T N P) = if r ≤ N then toMv T r (P.getD r []) else 0 := by
  simp [Ser, PowerSeries.coeff_mk]

theorem tr_Ser (T : List (List Nat)) (N : Nat) (P : GPoly K) : tr N (Ser T N P) = Ser T N P := by
  refine PowerSeries.ext (fun r => ?_)
  rw [coeff_tr, coeff_Ser]
  split <;> rfl

theorem Ser_multiply {D N : Nat} (hD : D ≤ 63) (hN : N ≤ D) (σ : Nat → List (List Nat))
    (hσ : ∀ n, (σ n).flatten.Perm (List.range n)) (P Q : GPoly K) (hP : WF P N) (hQ : WF Q N) :
    Ser (mkTables D) N (polynomialMultiply (mkTables D) σ P Q N) = tr N (Ser (mkTables D) N P * Ser (mkTables D) N Q) := by
  refine PowerSeries.ext (fun r => ?_)
  rw [coeff_tr, coeff_Ser]
  split
  · rename_i hr
    rw [(toMv_polynomialMultiply hD hN σ hσ P Q hP hQ).2 r hr, PowerSeries.coeff_mul]
    apply Finset.sum_congr rfl
    intro x hx
    have h1 := Finset.mem_antidiagonal.mp hx
    rw [coeff_Ser, coeff_Ser, if_pos (by omega), if_pos (by omega)]
  · rfl

theorem mono_zero_list : mono [0, 0, 0, 0, 0, 0] = 0 := by
  ext i; fin_cases i <;> rfl

theorem WF_one (N : Nat) : WF (polynomialOne N : GPoly K) N := by
  unfold polynomialOne
  have h0 : ((polynomialZeroList N : GPoly K).getD 0 []).length > 0 := by
    rw [getD_zeroList N 0 (by omega), length_zeros]; decide
  simp only [if_pos h0]
  have hz := WF_zeroList (K := K) N
  constructor
  · rw [List.length_set]; exact hz.1
  · intro d hd
    rw [getD_set_list _ _ _ _ _ (by rw [hz.1]; omega)]
    split
    · rename_i h; subst h; rw [List.length_set]; exact hz.2 0 hd
    · exact hz.2 d hd

theorem Ser_one {D N : Nat} (hD : D ≤ 63) (hN : N ≤ D) : Ser (mkTables D) N (polynomialOne N : GPoly K) = 1 := by
  refine PowerSeries.ext (fun r => ?_)
  rw [coeff_Ser, PowerSeries.coeff_one]
  unfold polynomialOne
  have h0 : ((polynomialZeroList N : GPoly K).getD 0 []).length > 0 := by
    rw [getD_zeroList N 0 (by omega), length_zeros]; decide
  simp only [if_pos h0]
  have hz := WF_zeroList (K := K) N
  by_cases hr : r ≤ N
  · rw [if_pos hr, getD_set_list _ _ _ _ _ (by rw [hz.1]; omega)]
    by_cases h : r = 0
    · subst h
      rw [if_pos rfl, if_pos rfl, getD_zeroList N 0 (by omega)]
      have e0 : psi 6 0 = 1 := by decide
      have e : ((zeros (psi 6 0) : List K).set 0 1) = [1] := by rw [e0]; rfl
      rw [e]
      unfold toMv
      simp only [List.length_singleton, Finset.range_one, Finset.sum_singleton, List.getD_cons_zero]
      have : decode (mkTables D) 0 0 = [0, 0, 0, 0, 0, 0] := by
        rw [decode_table hD (by omega) (by decide)]; decide
      rw [this, mono_zero_list]; rfl
    · rw [if_neg h, if_neg h, getD_zeroList N r hr, toMv_zeros]
  · rw [if_neg hr, if_neg (by omega)]

theorem powerLoop_spec {D N : Nat} (hD : D ≤ 63) (hN : N ≤ D) (σ : Nat → List (List Nat))
    (hσ : ∀ n, (σ n).flatten.Perm (List.range n)) : ∀ (fuel : Nat) (result base : GPoly K) (e : Nat), e < fuel →
    WF result N → WF base N →
    WF (powerLoop (mkTables D) σ N fuel result base e) N ∧
    Ser (mkTables D) N (powerLoop (mkTables D) σ N fuel result base e)
      = tr N (Ser (mkTables D) N result * (Ser (mkTables D) N base) ^ e)
  | 0, _, _, _, h, _, _ => by omega
  | fuel + 1, result, base, e, h, hr, hb => by
    unfold powerLoop
    by_cases he : e = 0
    · subst he
      rw [if_pos rfl]
      refine ⟨hr, ?_⟩
      rw [pow_zero, mul_one, tr_Ser]
    · rw [if_neg he]
      simp only
      have hm := toMv_polynomialMultiply hD hN σ hσ result base hr hb
      have hbb := toMv_polynomialMultiply hD hN σ hσ base base hb hb
      have sm := Ser_multiply hD hN σ hσ result base hr hb
      have sbb := Ser_multiply hD hN σ hσ base base hb hb
      have hdiv : e / 2 < fuel := by omega
      have hmod := Nat.div_add_mod e 2
      by_cases ho : e % 2 = 1
      · by_cases h1 : e > 1
        · rw [if_pos ho, if_pos h1]
          have ih := powerLoop_spec hD hN σ hσ fuel _ _ (e / 2) hdiv hm.1 hbb.1
          refine ⟨ih.1, ?_⟩
          rw [ih.2, sm, sbb, tr_tr_mul, tr_mul_tr_pow]
          congr 1
          have : e = 2 * (e / 2) + 1 := by omega
          conv_rhs => rw [this]
          ring
        · rw [if_pos ho, if_neg h1]
          have e1 : e = 1 := by omega
          subst e1
          have ih := powerLoop_spec hD hN σ hσ fuel _ _ (1 / 2) hdiv hm.1 hb
          refine ⟨ih.1, ?_⟩
          rw [ih.2, sm]
          simp [tr_idem]
      · have h1 : e > 1 := by omega
        rw [if_neg ho, if_pos h1]
        have ih := powerLoop_spec hD hN σ hσ fuel _ _ (e / 2) hdiv hr hbb.1
        refine ⟨ih.1, ?_⟩
        rw [ih.2, sbb, tr_mul_tr_pow]
        congr 1
        have : e = 2 * (e / 2) := by omega
        conv_rhs => rw [this]
        ring

/-- `_polynomial_power`: binary exponentiation with truncation computes the truncated power -/
theorem Ser_polynomialPower {D N : Nat} (hD : D ≤ 63) (hN : N ≤ D) (σ : Nat → List (List Nat))
    (hσ : ∀ n, (σ n).flatten.Perm (List.range n)) (P : GPoly K) (hP : WF P N) (k : Nat) :
    WF (polynomialPower (mkTables D) σ P k N) N ∧
    Ser (mkTables D) N (polynomialPower (mkTables D) σ P k N) = tr N ((Ser (mkTables D) N P) ^ k) := by
  unfold polynomialPower
  by_cases hk : k = 0
  · subst hk
    rw [if_pos rfl, pow_zero, Ser_one hD hN]
    refine ⟨WF_one N, ?_⟩
    have := tr_Ser (mkTables D) N (polynomialOne N : GPoly K)
    rw [Ser_one hD hN] at this
    exact this.symm
  · rw [if_neg hk]
    have := powerLoop_spec hD hN σ hσ (k + 1) (polynomialOne N) P k (by omega) (WF_one N) hP
    rw [Ser_one hD hN, one_mul] at this
    exact this

end

/-! ### graded wrappers -/

section
variable {K : Type} [CommSemiring K] [DecidableEq K]

theorem psi6_pos (d : Nat) : 0 < psi 6 d := by
  rw [psi_succ 5 d]; exact Nat.choose_pos (by omega)

/-- `_polynomial_evaluate`: the sum of the block values = the value of the whole polynomial -/
theorem polynomialEvaluate_eq_eval {D N : Nat} (hD : D ≤ 63) (hN : N ≤ D) (P : GPoly K) (hP : WF P N) (pt : List K)
    (hpt : pt.length = 6) :
    polynomialEvaluate (mkTables D) P pt
      = eval (fun i : Fin 6 => pt.getD i.val 0) (∑ d ∈ Finset.range (N + 1), toMv (mkTables D) d (P.getD d [])) := by
  unfold polynomialEvaluate
  rw [foldl_range_eq_sum _ (fun d => eval (fun i : Fin 6 => pt.getD i.val 0) (toMv (mkTables D) d (P.getD d []))) P.length
    (fun s d hd => by
      have hd' : d ≤ N := by rw [hP.1] at hd; omega
      have hl := hP.2 d hd'
      simp only
      rw [if_pos (by rw [hl]; exact psi6_pos d), polyEvaluate_eq_eval hD (by omega) _ hl pt hpt]) 0, zero_add, hP.1, map_sum]

/-- one degree of `_polynomial_differentiate` -/
theorem differentiate_step {D N : Nat} (hD : D ≤ 63) (hN : N ≤ D) (σ : Nat → List (List Nat))
    (hσ : ∀ n, (σ n).flatten.Perm (List.range n)) (P : GPoly K) (hP : WF P N) (v : Fin 6) (R : GPoly K) (hR : WF R (N - 1))
    (n : Nat) (hn : n + 1 ≤ N) :
    let R' := (let dorig := n + 1
      if n ≤ N - 1 ∧ dorig < P.length ∧ anyNZ (P.getD dorig []) then
        let t := polyDiffSched (mkTables D) (P.getD dorig []) v.val dorig (σ (P.getD dorig []).length)
        if n < R.length ∧ (R.getD n []).length = t.length then R.set n t else R
      else R)
    WF R' (N - 1) ∧ ∀ r, r ≤ N - 1 → toMv (mkTables D) r (R'.getD r [])
      = if r = n ∧ anyNZ (P.getD (n + 1) []) = true then pderiv v (toMv (mkTables D) (n + 1) (P.getD (n + 1) []))
        else toMv (mkTables D) r (R.getD r []) := by
  intro R'
  have hl := hP.2 (n + 1) (by omega)
  by_cases hz : anyNZ (P.getD (n + 1) []) = true
  · have hlt := length_polyDiffSched (mkTables D) (P.getD (n + 1) []) v.val (n + 1) (σ (P.getD (n + 1) []).length)
    have hn1 : n + 1 - 1 = n := by omega
    rw [hn1] at hlt
    have hR' : R' = R.set n (polyDiffSched (mkTables D) (P.getD (n + 1) []) v.val (n + 1) (σ (P.getD (n + 1) []).length)) := by
      simp only [R']
      rw [if_pos ⟨by omega, by rw [hP.1]; omega, hz⟩, if_pos ⟨by rw [hR.1]; omega, by rw [hR.2 n (by omega), hlt]⟩]
    rw [hR']
    have hi : n < R.length := by rw [hR.1]; omega
    constructor
    · constructor
      · rw [List.length_set]; exact hR.1
      · intro d hd
        rw [getD_set_list _ _ _ _ _ hi]
        split
        · rename_i h; subst h; exact hlt
        · exact hR.2 d hd
    · intro r hr
      rw [getD_set_list _ _ _ _ _ hi]
      by_cases h : r = n
      · subst h
        rw [if_pos rfl, if_pos ⟨rfl, hz⟩]
        have := toMv_polyDiffSched hD (by omega : r + 1 ≤ D) _ hl v _ (hσ _)
        rw [hn1] at this
        exact this
      · rw [if_neg h, if_neg (by intro hh; exact h hh.1)]
  · have hR' : R' = R := by
      simp only [R']
      rw [if_neg (by intro h; exact hz h.2.2)]
    rw [hR']
    refine ⟨hR, fun r _ => ?_⟩
    rw [if_neg (by intro hh; exact hz hh.2)]

/-- `_polynomial_differentiate`, processed degrees `0..n-1` -/
theorem differentiate_fold {D N : Nat} (hD : D ≤ 63) (hN : N ≤ D) (σ : Nat → List (List Nat))
    (hσ : ∀ n, (σ n).flatten.Perm (List.range n)) (P : GPoly K) (hP : WF P N) (v : Fin 6) : ∀ n, n ≤ N →
    let Rn := (List.range n).foldl (fun R dres =>
      let dorig := dres + 1
      if dres ≤ N - 1 ∧ dorig < P.length ∧ anyNZ (P.getD dorig []) then
        let t := polyDiffSched (mkTables D) (P.getD dorig []) v.val dorig (σ (P.getD dorig []).length)
        if dres < R.length ∧ (R.getD dres []).length = t.length then R.set dres t else R
      else R) (polynomialZeroList (N - 1))
    WF Rn (N - 1) ∧ ∀ r, r ≤ N - 1 → toMv (mkTables D) r (Rn.getD r [])
      = if r < n then pderiv v (toMv (mkTables D) (r + 1) (P.getD (r + 1) [])) else 0 := by
  intro n
  induction n with
  | zero =>
    intro _
    simp only [List.range_zero, List.foldl_nil]
    refine ⟨WF_zeroList _, fun r hr => ?_⟩
    rw [getD_zeroList _ r hr, toMv_zeros]; simp
  | succ n ih =>
    intro hn
    have ih' := ih (by omega)
    simp only at ih' ⊢
    rw [List.range_succ, List.foldl_append]
    simp only [List.foldl_cons, List.foldl_nil]
    have st := differentiate_step hD hN σ hσ P hP v _ ih'.1 n hn
    simp only at st
    refine ⟨st.1, fun r hr => ?_⟩
    rw [st.2 r hr, ih'.2 r hr]
    by_cases h : r = n
    · subst h
      by_cases hz : anyNZ (P.getD (r + 1) []) = true
      · rw [if_pos ⟨rfl, hz⟩, if_pos (by omega)]
      · rw [if_neg (by intro hh; exact hz hh.2), if_neg (by omega), if_pos (by omega)]
        have : anyNZ (P.getD (r + 1) []) = false := by revert hz; cases anyNZ (P.getD (r + 1) []) <;> simp
        rw [toMv_of_anyNZ_false _ _ this, map_zero]
    · rw [if_neg (by intro hh; exact h hh.1)]
      by_cases h2 : r < n
      · rw [if_pos h2, if_pos (by omega)]
      · rw [if_neg h2, if_neg (by omega)]

/-- `_polynomial_differentiate`: block `r` of the result is `∂/∂x_v` of block `r+1` of the input -/
theorem toMv_polynomialDifferentiate {D N : Nat} (hD : D ≤ 63) (hN : N ≤ D) (σ : Nat → List (List Nat))
    (hσ : ∀ n, (σ n).flatten.Perm (List.range n)) (P : GPoly K) (hP : WF P N) (v : Fin 6) :
    WF (polynomialDifferentiate (mkTables D) σ P v.val N) (N - 1) ∧ ∀ r, r + 1 ≤ N →
      toMv (mkTables D) r ((polynomialDifferentiate (mkTables D) σ P v.val N).getD r [])
        = pderiv v (toMv (mkTables D) (r + 1) (P.getD (r + 1) [])) := by
  have := differentiate_fold hD hN σ hσ P hP v N le_rfl
  simp only at this
  unfold polynomialDifferentiate
  simp only
  refine ⟨this.1, fun r hr => ?_⟩
  rw [this.2 r (by omega), if_pos (by omega)]

end


section
variable {K : Type} [CommRing K] [DecidableEq K]

theorem bracket_zero_right (P : MvPolynomial (Fin 6) K) : bracket P 0 = 0 := by
  unfold bracket; simp

theorem bracket_zero_left (Q : MvPolynomial (Fin 6) K) : bracket 0 Q = 0 := by
  unfold bracket; simp

/-- one `(d1,d2)` step of `_polynomial_poisson_bracket` -/
theorem pbracket_step {D N : Nat} (hD : D ≤ 63) (hN : N + 2 ≤ D) (σ : Nat → List (List Nat))
    (hσ : ∀ n, (σ n).flatten.Perm (List.range n)) (P Q R : GPoly K) (hP : WF P N) (hQ : WF Q N) (hR : WF R N)
    (d1 d2 : Nat) (h1 : d1 ≤ N) (h2 : d2 ≤ N) :
    let R' := if !anyNZ (Q.getD d2 []) then R else
      if d1 + d2 < 2 ∨ d1 + d2 - 2 > N then R else
      let t := polyPoisson (mkTables D) σ (P.getD d1 []) d1 (Q.getD d2 []) d2
      let rd := d1 + d2 - 2
      if t.length = (R.getD rd []).length then R.set rd (polyAdd (R.getD rd []) t) else R
    WF R' N ∧ ∀ r, r ≤ N → toMv (mkTables D) r (R'.getD r []) = toMv (mkTables D) r (R.getD r [])
      + (if d1 + d2 = r + 2 then bracket (toMv (mkTables D) d1 (P.getD d1 [])) (toMv (mkTables D) d2 (Q.getD d2 [])) else 0) := by
  intro R'
  by_cases hz : anyNZ (Q.getD d2 []) = false
  · have hR' : R' = R := by simp only [R']; rw [if_pos (by rw [hz]; rfl)]
    rw [hR']
    refine ⟨hR, fun r _ => ?_⟩
    rw [toMv_of_anyNZ_false _ d2 hz, bracket_zero_right]; simp
  · have hnz : ¬ (!anyNZ (Q.getD d2 [])) = true := by revert hz; cases anyNZ (Q.getD d2 []) <;> simp
    by_cases hw : d1 + d2 < 2 ∨ d1 + d2 - 2 > N
    · have hR' : R' = R := by simp only [R']; rw [if_neg hnz, if_pos hw]
      rw [hR']
      refine ⟨hR, fun r hr => ?_⟩
      rw [if_neg (by omega), add_zero]
    · have hlp := hP.2 d1 h1
      have hlq := hQ.2 d2 h2
      have hrd : d1 + d2 - 2 ≤ N := by omega
      have hlr := hR.2 (d1 + d2 - 2) hrd
      have hb := toMv_polyPoisson hD (by omega : d1 + d2 ≤ D) _ _ hlp hlq σ hσ
      by_cases hlen : (polyPoisson (mkTables D) σ (P.getD d1 []) d1 (Q.getD d2 []) d2).length = (R.getD (d1 + d2 - 2) []).length
      · have hR' : R' = R.set (d1 + d2 - 2) (polyAdd (R.getD (d1 + d2 - 2) [])
            (polyPoisson (mkTables D) σ (P.getD d1 []) d1 (Q.getD d2 []) d2)) := by
          simp only [R']; rw [if_neg hnz, if_neg hw, if_pos hlen]
        rw [hR']
        have hi : d1 + d2 - 2 < R.length := by rw [hR.1]; omega
        constructor
        · constructor
          · rw [List.length_set]; exact hR.1
          · intro d hd
            rw [getD_set_list _ _ _ _ _ hi]
            split
            · rename_i h; subst h; rw [length_polyAdd, hlen, Nat.min_self]; exact hlr
            · exact hR.2 d hd
        · intro r hr
          rw [getD_set_list _ _ _ _ _ hi]
          by_cases h : r = d1 + d2 - 2
          · subst h
            rw [if_pos rfl, if_pos (by omega), toMv_polyAdd _ _ _ _ hlen.symm, hb]
          · rw [if_neg h, if_neg (by omega), add_zero]
      · have hR' : R' = R := by simp only [R']; rw [if_neg hnz, if_neg hw, if_neg hlen]
        rw [hR']
        refine ⟨hR, fun r hr => ?_⟩
        -- the shape guard can only fail for a constant operand, whose bracket is zero
        have h0 : d1 = 0 ∨ d2 = 0 := by
          by_contra hc
          apply hlen
          rw [length_polyPoisson hD (by omega) (by omega) (by omega) _ _ hlp hlq σ hσ, hlr]
        have hzero : polyPoisson (mkTables D) σ (P.getD d1 []) d1 (Q.getD d2 []) d2 = zeros (psi 6 0) := by
          unfold polyPoisson; rw [if_pos h0]
        rw [hzero, toMv_zeros] at hb
        rw [← hb]; simp

theorem pbracket_inner {D N : Nat} (hD : D ≤ 63) (hN : N + 2 ≤ D) (σ : Nat → List (List Nat))
    (hσ : ∀ n, (σ n).flatten.Perm (List.range n)) (P Q R : GPoly K) (hP : WF P N) (hQ : WF Q N) (hR : WF R N)
    (d1 : Nat) (h1 : d1 ≤ N) : ∀ n, n ≤ N + 1 →
    let Rn := (List.range n).foldl (fun R d2 =>
      if !anyNZ (Q.getD d2 []) then R else
      if d1 + d2 < 2 ∨ d1 + d2 - 2 > N then R else
      let t := polyPoisson (mkTables D) σ (P.getD d1 []) d1 (Q.getD d2 []) d2
      let rd := d1 + d2 - 2
      if t.length = (R.getD rd []).length then R.set rd (polyAdd (R.getD rd []) t) else R) R
    WF Rn N ∧ ∀ r, r ≤ N → toMv (mkTables D) r (Rn.getD r []) = toMv (mkTables D) r (R.getD r [])
      + (if d1 ≤ r + 2 ∧ r + 2 - d1 < n then
          bracket (toMv (mkTables D) d1 (P.getD d1 [])) (toMv (mkTables D) (r + 2 - d1) (Q.getD (r + 2 - d1) [])) else 0) := by
  intro n
  induction n with
  | zero => intro _; simp; exact hR
  | succ n ih =>
    intro hn
    have ih' := ih (by omega)
    simp only at ih' ⊢
    rw [List.range_succ, List.foldl_append]
    simp only [List.foldl_cons, List.foldl_nil]
    have st := pbracket_step hD hN σ hσ P Q _ hP hQ ih'.1 d1 n h1 (by omega)
    simp only at st
    refine ⟨st.1, fun r hr => ?_⟩
    rw [st.2 r hr, ih'.2 r hr, add_assoc]
    congr 1
    by_cases h : d1 + n = r + 2
    · have e : r + 2 - d1 = n := by omega
      rw [if_pos h, if_neg (by omega), if_pos (by omega), zero_add, e]
    · rw [if_neg h, add_zero]
      by_cases h2 : d1 ≤ r + 2 ∧ r + 2 - d1 < n
      · rw [if_pos h2, if_pos (by omega)]
      · rw [if_neg h2, if_neg (by omega)]

theorem pbracket_outer {D N : Nat} (hD : D ≤ 63) (hN : N + 2 ≤ D) (σ : Nat → List (List Nat))
    (hσ : ∀ n, (σ n).flatten.Perm (List.range n)) (P Q : GPoly K) (hP : WF P N) (hQ : WF Q N) : ∀ n, n ≤ N + 1 →
    let Rn := (List.range n).foldl (fun R d1 =>
      if !anyNZ (P.getD d1 []) then R else
      (List.range Q.length).foldl (fun R d2 =>
        if !anyNZ (Q.getD d2 []) then R else
        if d1 + d2 < 2 ∨ d1 + d2 - 2 > N then R else
        let t := polyPoisson (mkTables D) σ (P.getD d1 []) d1 (Q.getD d2 []) d2
        let rd := d1 + d2 - 2
        if t.length = (R.getD rd []).length then R.set rd (polyAdd (R.getD rd []) t) else R) R) (polynomialZeroList N)
    WF Rn N ∧ ∀ r, r ≤ N → toMv (mkTables D) r (Rn.getD r [])
      = ∑ d1 ∈ Finset.range n, (if d1 ≤ r + 2 ∧ r + 2 - d1 ≤ N then
          bracket (toMv (mkTables D) d1 (P.getD d1 [])) (toMv (mkTables D) (r + 2 - d1) (Q.getD (r + 2 - d1) [])) else 0) := by
  intro n
  induction n with
  | zero =>
    intro _
    simp only [List.range_zero, List.foldl_nil, Finset.range_zero, Finset.sum_empty]
    refine ⟨WF_zeroList N, fun r hr => ?_⟩
    rw [getD_zeroList N r hr, toMv_zeros]
  | succ n ih =>
    intro hn
    have ih' := ih (by omega)
    simp only at ih' ⊢
    rw [List.range_succ, List.foldl_append]
    simp only [List.foldl_cons, List.foldl_nil]
    by_cases hz : anyNZ (P.getD n []) = false
    · rw [if_pos (by rw [hz]; rfl)]
      refine ⟨ih'.1, fun r hr => ?_⟩
      rw [ih'.2 r hr, Finset.sum_range_succ, toMv_of_anyNZ_false _ n hz, bracket_zero_left]; simp
    · have hnz : ¬ (!anyNZ (P.getD n [])) = true := by revert hz; cases anyNZ (P.getD n []) <;> simp
      rw [if_neg hnz]
      have hQl := hQ.1
      have inn := pbracket_inner hD hN σ hσ P Q _ hP hQ ih'.1 n (by omega) Q.length (by omega)
      simp only at inn
      refine ⟨inn.1, fun r hr => ?_⟩
      rw [inn.2 r hr, ih'.2 r hr, Finset.sum_range_succ]
      congr 1
      by_cases h : n ≤ r + 2 ∧ r + 2 - n ≤ N
      · rw [if_pos h, if_pos ⟨h.1, by omega⟩]
      · rw [if_neg h, if_neg (by omega)]

/-- `_polynomial_poisson_bracket`: block `r` of the result is `Σ_{d1+d2 = r+2} {P[d1], Q[d2]}` -/
theorem toMv_polynomialPoissonBracket {D N : Nat} (hD : D ≤ 63) (hN : N + 2 ≤ D) (σ : Nat → List (List Nat))
    (hσ : ∀ n, (σ n).flatten.Perm (List.range n)) (P Q : GPoly K) (hP : WF P N) (hQ : WF Q N) :
    WF (polynomialPoissonBracket (mkTables D) σ P Q N) N ∧ ∀ r, r ≤ N →
      toMv (mkTables D) r ((polynomialPoissonBracket (mkTables D) σ P Q N).getD r [])
        = ∑ d1 ∈ Finset.range (N + 1), (if d1 ≤ r + 2 ∧ r + 2 - d1 ≤ N then
          bracket (toMv (mkTables D) d1 (P.getD d1 [])) (toMv (mkTables D) (r + 2 - d1) (Q.getD (r + 2 - d1) [])) else 0) := by
  have := pbracket_outer hD hN σ hσ P Q hP hQ (N + 1) le_rfl
  simp only at this
  unfold polynomialPoissonBracket
  rw [hP.1]
  exact this

end


section
variable {K : Type} [Field K] [CharZero K] [DecidableEq K]

/-- one degree of `_polynomial_integrate` -/
theorem integrate_step {D N : Nat} (_hD : D ≤ 63) (_hN : N + 1 ≤ D) (P : GPoly K) (hP : WF P N) (v : Fin 6) (R : GPoly K)
    (hR : WF R (N + 1)) (n : Nat) (hn : n ≤ N) :
    let R' := (let dres := n + 1
      if n < P.length ∧ anyNZ (P.getD n []) then
        let t := polyIntegrate (mkTables D) (P.getD n []) v.val n
        if dres < R.length ∧ (R.getD dres []).length = t.length then R.set dres (polyAdd (R.getD dres []) t) else R
      else R)
    WF R' (N + 1) ∧ ∀ r, r ≤ N + 1 → toMv (mkTables D) r (R'.getD r [])
      = toMv (mkTables D) r (R.getD r []) + (if r = n + 1 ∧ anyNZ (P.getD n []) = true then
          toMv (mkTables D) (n + 1) (polyIntegrate (mkTables D) (P.getD n []) v.val n) else 0) := by
  intro R'
  by_cases hz : anyNZ (P.getD n []) = true
  · have hlt := length_polyIntegrate (mkTables D) (P.getD n []) v.val n
    have hlr := hR.2 (n + 1) (by omega)
    have hR' : R' = R.set (n + 1) (polyAdd (R.getD (n + 1) []) (polyIntegrate (mkTables D) (P.getD n []) v.val n)) := by
      simp only [R']
      rw [if_pos ⟨by rw [hP.1]; omega, hz⟩, if_pos ⟨by rw [hR.1]; omega, by rw [hlr, hlt]⟩]
    rw [hR']
    have hi : n + 1 < R.length := by rw [hR.1]; omega
    constructor
    · constructor
      · rw [List.length_set]; exact hR.1
      · intro d hd
        rw [getD_set_list _ _ _ _ _ hi]
        split
        · rename_i h; subst h; rw [length_polyAdd, hlr, hlt, Nat.min_self]
        · exact hR.2 d hd
    · intro r hr
      rw [getD_set_list _ _ _ _ _ hi]
      by_cases h : r = n + 1
      · subst h
        rw [if_pos rfl, if_pos ⟨rfl, hz⟩, toMv_polyAdd _ _ _ _ (by rw [hlr, hlt])]
      · rw [if_neg h, if_neg (by intro hh; exact h hh.1), add_zero]
  · have hR' : R' = R := by
      simp only [R']
      rw [if_neg (by intro h; exact hz h.2)]
    rw [hR']
    refine ⟨hR, fun r _ => ?_⟩
    rw [if_neg (by intro hh; exact hz hh.2), add_zero]

theorem integrate_fold {D N : Nat} (hD : D ≤ 63) (hN : N + 1 ≤ D) (P : GPoly K) (hP : WF P N) (v : Fin 6) : ∀ n, n ≤ N + 1 →
    let Rn := (List.range n).foldl (fun R dorig =>
      let dres := dorig + 1
      if dorig < P.length ∧ anyNZ (P.getD dorig []) then
        let t := polyIntegrate (mkTables D) (P.getD dorig []) v.val dorig
        if dres < R.length ∧ (R.getD dres []).length = t.length then R.set dres (polyAdd (R.getD dres []) t) else R
      else R) (polynomialZeroList (N + 1))
    WF Rn (N + 1) ∧ ∀ r, r ≤ N + 1 → toMv (mkTables D) r (Rn.getD r [])
      = if 1 ≤ r ∧ r - 1 < n ∧ anyNZ (P.getD (r - 1) []) = true then
          toMv (mkTables D) r (polyIntegrate (mkTables D) (P.getD (r - 1) []) v.val (r - 1)) else 0 := by
  intro n
  induction n with
  | zero =>
    intro _
    simp only [List.range_zero, List.foldl_nil]
    refine ⟨WF_zeroList _, fun r hr => ?_⟩
    rw [getD_zeroList _ r hr, toMv_zeros]; simp
  | succ n ih =>
    intro hn
    have ih' := ih (by omega)
    simp only at ih' ⊢
    rw [List.range_succ, List.foldl_append]
    simp only [List.foldl_cons, List.foldl_nil]
    have st := integrate_step hD hN P hP v _ ih'.1 n (by omega)
    simp only at st
    refine ⟨st.1, fun r hr => ?_⟩
    rw [st.2 r hr, ih'.2 r hr]
    by_cases h : r = n + 1
    · subst h
      have e : n + 1 - 1 = n := by omega
      rw [if_neg (by omega), zero_add, e]
      by_cases hz : anyNZ (P.getD n []) = true
      · rw [if_pos ⟨rfl, hz⟩, if_pos ⟨by omega, by omega, hz⟩]
      · rw [if_neg (by intro hh; exact hz hh.2), if_neg (by intro hh; exact hz hh.2.2)]
    · have hne : ¬ (r = n + 1 ∧ anyNZ (P.getD n []) = true) := fun hh => h hh.1
      simp only [if_neg hne, add_zero]
      by_cases h2 : 1 ≤ r ∧ r - 1 < n ∧ anyNZ (P.getD (r - 1) []) = true
      · rw [if_pos h2, if_pos ⟨h2.1, by omega, h2.2.2⟩]
      · rw [if_neg h2, if_neg (by intro hh; exact h2 ⟨hh.1, by omega, hh.2.2⟩)]

/-- `_polynomial_integrate`: the result has `max_deg+2` well-formed blocks, its constant block is zero and `∂/∂x_v` of its
block `r+1` is block `r` of the input -/
theorem toMv_polynomialIntegrate {D N : Nat} (hD : D ≤ 63) (hN : N + 1 ≤ D) (P : GPoly K) (hP : WF P N) (v : Fin 6) :
    WF (polynomialIntegrate (mkTables D) P v.val N) (N + 1) ∧
    toMv (mkTables D) 0 ((polynomialIntegrate (mkTables D) P v.val N).getD 0 []) = 0 ∧
    ∀ r, r ≤ N → pderiv v (toMv (mkTables D) (r + 1) ((polynomialIntegrate (mkTables D) P v.val N).getD (r + 1) []))
      = toMv (mkTables D) r (P.getD r []) := by
  have := integrate_fold hD hN P hP v (N + 1) le_rfl
  simp only at this
  unfold polynomialIntegrate
  refine ⟨this.1, ?_, fun r hr => ?_⟩
  · rw [this.2 0 (by omega), if_neg (by omega)]
  · rw [this.2 (r + 1) (by omega)]
    have e : r + 1 - 1 = r := by omega
    rw [e]
    by_cases hz : anyNZ (P.getD r []) = true
    · rw [if_pos ⟨by omega, by omega, hz⟩]
      exact pderiv_toMv_polyIntegrate hD (by omega) _ (hP.2 r hr) v
    · rw [if_neg (by intro hh; exact hz hh.2.2), map_zero]
      have : anyNZ (P.getD r []) = false := by revert hz; cases anyNZ (P.getD r []) <;> simp
      rw [toMv_of_anyNZ_false _ _ this]

end

end HitenModel.C06
