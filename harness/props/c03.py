"""C03 — the state-transition matrix is the derivative of the flow and is symplectic.

Model: the traced Jacobian / variational field of Gen/C01 (regenerated there) plus, regenerated here into Gen/C03.lean, the
wiring of `_compute_stm` (initial condition, flip indices, row-major extraction of Phi_T; `_propagate_dynsys` rebound to a
recorder) and the sign pattern of `_DirectedSystem._rhs_impl` for that configuration.  Props/C03.lean: the traced Jacobian is
infinitesimally symplectic for Omega = [[-2K, I], [-I, 0]], hence (Lemmas/Symplectic.lean, calculus) Phi^T Omega Phi is
constant along every solution of the variational system, det Phi^2 = 1, reciprocal spectrum; the vector field solves the
variational equation; backward STM negates all 42 components.  Numerics: finite-difference d(flow)/dx0 vs Phi for every
method/order/direction, symplecticity residual, Phi f(x0) = f(x_T)."""
from __future__ import annotations

import math

import numpy as np

import lean_emit as E
import tracer as T


class _Sol:
    def __init__(self, times, states):
        self.times = times
        self.states = states


def gen(ctx):
    from hiten.algorithms.dynamics import base as dbase
    from hiten.algorithms.dynamics import rtbp
    txt = E.header("C03", imports=("HitenModel.Core.RE",), note="wiring of rtbp._compute_stm and dynamics.base._DirectedSystem")
    txt += "open RE\n"
    T.reset()
    x0 = T.symarray([T.Sym.var("x%d" % i, 0.1 * i + 0.3) for i in range(6)])
    rec = {}

    def fake_propagate(**kw):
        rec.update(kw)
        states = np.empty((3, 42), dtype=object)
        for r in range(3):
            for k in range(42):
                states[r, k] = T.Sym.var("s%d_%d" % (r, k), 0.01 * (r * 42 + k))
        return _Sol(np.array([0.0, 0.5, 1.0]), states)

    shim = T.ShimNP()
    f = T.retarget(rtbp._compute_stm, {"_propagate_dynsys": fake_propagate}, shim=shim)
    out = {}
    for fwd in (1, -1):
        rec.clear()
        x, times, phi_T, PHI = f("DYNSYS", x0, T.Sym.var("tf", 2.0), steps=7, forward=fwd, method="adaptive", order=8)
        init = [T.Sym.lift(v) for v in rec["state0"]]
        flip = rec.get("flip_indices", "MISSING")
        out[fwd] = dict(init=init, flip=flip, forward=rec.get("forward"), t0=rec.get("t0"), steps=rec.get("steps"),
                        method=rec.get("method"), order=rec.get("order"), dynsys=rec.get("dynsys"),
                        phiT=[T.Sym.lift(phi_T[a, b]) for a in range(6) for b in range(6)],
                        xcols=[T.Sym.lift(x[-1, i]) for i in range(6)])
    vidx = {"x%d" % i: i for i in range(6)}
    txt += E.re_fun("stmInit", out[1]["init"], vidx)
    txt += "def stmInitSameBackward : Bool := %s\n" % ("true" if [T.show(a) for a in out[1]["init"]] == [T.show(a) for a in out[-1]["init"]] else "false")

    def lastrow_index(s):
        if s.op != "var" or not s.args[0].startswith("s2_"):
            return 999
        return int(s.args[0][3:])
    txt += "def phiTIndex : List Nat := %s\n" % [lastrow_index(s) for s in out[1]["phiT"]]
    txt += "def xIndex : List Nat := %s\n" % [lastrow_index(s) for s in out[1]["xcols"]]
    txt += "def passesForward : Bool := %s\n" % ("true" if out[1]["forward"] == 1 and out[-1]["forward"] == -1 else "false")
    txt += "def passesArgs : Bool := %s\n" % ("true" if out[1]["steps"] == 7 and out[1]["method"] == "adaptive" and out[1]["order"] == 8
                                               and out[1]["dynsys"] == "DYNSYS" and T.Sym.lift(out[1]["t0"]).is_const(0) else "false")
    # sign pattern of the directed system for the flip configuration _compute_stm passes
    flip = out[-1]["flip"]
    signs = {}
    for fwd in (1, -1):
        class Base(dbase._DynamicalSystem):
            def __init__(self):
                super().__init__(42)

            def _build_rhs_impl(self):
                return lambda t, y: y
        dsys = dbase._DirectedSystem(Base(), fwd, flip_indices=flip)
        impl = dsys._build_rhs_impl()
        pyf = getattr(impl, "py_func", impl)
        yv = T.symarray([T.Sym.var("d%d" % k, 0.5 + k) for k in range(42)])
        tt = T.Sym.var("t", 0.25)
        seen_t = []

        def base_rhs(t, y):
            seen_t.append(T.polynf(T.Sym.lift(t)))
            return y.copy()
        res = T.retarget(pyf)(tt, yv, _base_rhs=base_rhs)
        sg = []
        for k in range(42):
            nf = T.polynf(T.Sym.lift(res[k]))
            c = nf.get((("d%d" % k, 1),)) if nf is not None and len(nf) == 1 else None
            sg.append(int(c) if c in (1, -1) else 0)
        signs[fwd] = sg
        signs["t%d" % fwd] = seen_t[0] if seen_t else None
    txt += "def directedSignsForward : List Int := %s\n" % signs[1]
    txt += "def directedSignsBackward : List Int := %s\n" % signs[-1]
    txt += E.footer("C03")
    ctx.write_gen("HitenModel.Gen.C03", txt)
    ctx.extra["compute_stm_flip_indices"] = repr(flip)
    # C03 theorems are about the Jacobian traced for C01: regenerate that module as well
    from props import c01
    c01.gen(ctx)


def run(ctx):
    ctx.guard("regenerate", gen, ctx)
    ok = ctx.lean_build(["HitenModel.Props.C03"])
    if ok:
        ctx.lean_audit(["HitenModel.Props.C03"], ["HitenModel.Props.C03", "HitenModel.Gen.C03", "HitenModel.Lemmas.Symplectic"])
        if ctx.thorough():
            ctx.leanchecker(["HitenModel.Props.C03"])
    numerics(ctx)
    ctx.rule = ("(mu, initial state away from the primaries, duration <= 3, method/order, direction) random; distinct by rounded tuple; "
                "non-trivial = spatial state (z, vz != 0) or backward direction")


_SYS = {}


def _sys(kind, mu):
    """one dynamical-system object per (kind, mu): every new object compiles a new numba closure"""
    from hiten.algorithms.dynamics import rtbp
    k = (kind, mu)
    if k not in _SYS:
        _SYS[k] = rtbp.variational_dynsys(mu) if kind == "var" else rtbp.rtbp_dynsys(mu)
    return _SYS[k]


def numerics(ctx):
    from hiten.algorithms.dynamics import rtbp
    from hiten.algorithms.dynamics.base import _propagate_dynsys
    from props.c01 import rand_state
    rng = ctx.rng
    K = np.array([[0, 1, 0], [-1, 0, 0], [0, 0, 0.0]])
    I3, Z3 = np.eye(3), np.zeros((3, 3))
    Om = np.block([[-2 * K, I3], [-I3, Z3]])
    configs = [("adaptive", 8), ("adaptive", 5), ("fixed", 8), ("fixed", 6), ("fixed", 4)]
    n = 30 if ctx.thorough() else 4
    for it in range(n):
        # every new (system, direction) pair makes numba recompile the integrator kernels: keep the number of distinct mu small
        mu = [0.0121505856, 0.3][it % 2] if ctx.thorough() else 0.0121505856
        while True:
            s = np.array(rand_state(rng, mu))
            s[3:] *= 0.3
            if abs(s[0]) < 1.3 and abs(s[1]) < 1.0:
                break
        tf = rng.uniform(0.3, 1.5)
        for (meth, order) in (configs if ctx.thorough() else [configs[0], [configs[2], configs[3], configs[4]][it % 3]]):
            for fwd in (1, -1):
                steps = 600 if meth == "fixed" else 50
                kw = dict(steps=steps, forward=fwd, method=meth, order=order)
                var = _sys("var", mu)
                x, times, Phi, PHI = rtbp._compute_stm(var, s, tf, **kw)
                # stayed away from the primaries?
                r1 = np.sqrt((x[:, 0] + mu) ** 2 + x[:, 1] ** 2 + x[:, 2] ** 2).min()
                r2 = np.sqrt((x[:, 0] - 1 + mu) ** 2 + x[:, 1] ** 2 + x[:, 2] ** 2).min()
                if min(r1, r2) < 0.05:
                    continue
                key = (round(mu, 9), tuple(np.round(s, 5)), round(tf, 4), meth, order, fwd)
                ctx.case(key, nontrivial=True, kind="%s%d%+d" % (meth, order, fwd),
                         sample={"mu": mu, "state": s.tolist(), "tf": tf, "method": meth, "order": order, "forward": fwd} if it == 0 and fwd == -1 else None)

                def flow(y0):
                    sol = _propagate_dynsys(_sys("rtbp", mu), y0, 0.0, tf, forward=fwd, steps=steps, method=meth, order=order)
                    return sol.states[-1]
                # Richardson central differences of the SAME flow (same method, same steps, same direction)
                h = 2e-5
                Jfd = np.zeros((6, 6))
                for j in range(6):
                    e = np.zeros(6)
                    e[j] = 1
                    d1 = (flow(s + h * e) - flow(s - h * e)) / (2 * h)
                    d2 = (flow(s + 2 * h * e) - flow(s - 2 * h * e)) / (4 * h)
                    Jfd[:, j] = (4 * d1 - d2) / 3
                scale = 1 + np.abs(Jfd).max()
                err = float(np.abs(Phi - Jfd).max() / scale)
                tol = 2e-5 if meth == "adaptive" or order >= 6 else 2e-4
                if not err <= tol:
                    ctx.violation("stm-not-flow-derivative:%+d" % fwd,
                                  "Phi differs from the finite-difference derivative of the final state of the same flow (rel. %g, forward=%d, %s order %d)" % (err, fwd, meth, order),
                                  {"mu": mu, "state0": s.tolist(), "tf": tf, "method": meth, "order": order, "forward": fwd, "steps": steps,
                                   "Phi": Phi.tolist(), "finite_difference": Jfd.tolist(), "rel_err": err})
                    return
                res = float(np.abs(Phi.T @ Om @ Phi - Om).max() / (1 + np.abs(Phi).max() ** 2))
                # Runge-Kutta schemes are symplectic only up to their discretisation error: the admissible residual scales with the accuracy
                # this method/step count achieves on the state itself (reference: the tight adaptive run of the same flow)
                xref = _propagate_dynsys(_sys("rtbp", mu), s, 0.0, tf, forward=fwd, steps=2, method="adaptive", order=8, rtol=1e-13, atol=1e-13).states[-1]
                err_int = float(np.abs(np.asarray(x[-1]) - xref).max())
                if not res <= 1e-6 + 50 * err_int:
                    ctx.violation("stm-not-symplectic:%+d" % fwd, "Phi^T Omega Phi != Omega (rel. residual %g)" % res,
                                  {"mu": mu, "state0": s.tolist(), "tf": tf, "method": meth, "order": order, "forward": fwd, "residual": res})
                    return
                detv = float(np.linalg.det(Phi))
                if not abs(detv - 1) <= (1e-5 + 300 * err_int) * (1 + np.abs(Phi).max() ** 2):
                    ctx.violation("stm-det:%+d" % fwd, "det Phi = %r" % detv, {"mu": mu, "state0": s.tolist(), "tf": tf, "forward": fwd, "det": detv})
                    return
                # Phi f(x0) = (+/-) f(x_T): the (directed) vector field solves the variational equation
                f0 = rtbp._crtbp_accel(s, mu)
                fT = rtbp._crtbp_accel(x[-1], mu)
                e2 = float(np.abs(Phi @ f0 - fT).max() / (1 + np.abs(fT).max()))
                if not e2 <= 1e-5:
                    ctx.violation("stm-field-transport:%+d" % fwd, "Phi f(x0) != f(x_T) (rel. %g)" % e2,
                                  {"mu": mu, "state0": s.tolist(), "tf": tf, "method": meth, "order": order, "forward": fwd, "rel_err": e2})
                    return
                # signed times
                if not (times[0] == 0 and np.all(np.diff(times) * fwd > 0)):
                    ctx.violation("stm-times:%+d" % fwd, "time stamps of the STM trajectory are not signed consistently", {"times": times[:5].tolist(), "forward": fwd})
                    return
    if not ctx.violations:
        orbit_object(ctx)
    if ctx.thorough() and not ctx.violations:
        periodic(ctx)


def orbit_object(ctx):
    """the matrix a user actually reads -- orbit.monodromy -- is the STM of the orbit's CURRENT initial state over its CURRENT period
    (services/orbits.py caches it; histories: read, change period, read; read, change initial state via a new orbit, read)."""
    from hiten import System
    from hiten.system.orbits.base import GenericOrbit
    from hiten.algorithms.dynamics import rtbp
    rng = ctx.rng
    system = System.from_mu(0.0121505856)
    L4 = system.get_libration_point(4)
    x0 = [0.5 + 0.05 * rng.uniform(-1, 1), 0.8, 0.3 * rng.uniform(0.2, 1), 0.1, -0.1, 0.1]
    orbit = GenericOrbit(L4, initial_state=x0)
    hist = []
    for T in (round(rng.uniform(0.6, 1.1), 3), round(rng.uniform(1.2, 1.6), 3), round(rng.uniform(0.6, 1.1), 3)):
        orbit.period = T
        hist.append(T)
        M = np.asarray(orbit.monodromy, dtype=float)
        _, _, Phi, _ = rtbp._compute_stm(system.var_dynsys, np.asarray(orbit.initial_state, float), float(orbit.period))
        err = float(np.abs(M - Phi).max() / (1 + np.abs(Phi).max()))
        ctx.case(("orbit-monodromy", tuple(hist)), nontrivial=len(hist) > 1, kind="orbit-object")
        if not err <= 1e-9:
            ctx.violation("orbit-monodromy-stale" if len(hist) > 1 else "orbit-monodromy",
                          "orbit.monodromy is not the STM over the orbit's current period after the period history %r (rel. %g)" % (hist, err),
                          {"initial_state": x0, "period_history": hist, "monodromy": M.tolist(), "stm_current_period": Phi.tolist(), "rel_err": err})
            return


def periodic(ctx):
    """monodromy of a corrected halo orbit: M f = f, reciprocal pairs, stability indices."""
    from hiten import System
    from hiten.algorithms.dynamics import rtbp
    sysm = System.from_bodies("earth", "moon")
    L1 = sysm.get_libration_point(1)
    orb = L1.create_orbit("halo", amplitude_z=0.2, zenith="southern")
    orb.correct()
    x0 = np.asarray(orb.initial_state, dtype=float)
    M = np.asarray(orb.monodromy, dtype=float)
    f0 = rtbp._crtbp_accel(x0, sysm.mu)
    e = float(np.abs(M @ f0 - f0).max() / np.abs(f0).max())
    ctx.case(("halo-monodromy",), kind="periodic", sample={"Mf-f": e})
    if not e <= 1e-4:
        ctx.violation("monodromy-velocity", "monodromy does not map the orbit's velocity vector to itself (rel. %g)" % e,
                      {"initial_state": x0.tolist(), "period": float(orb.period), "rel_err": e})
        return
    ev = np.linalg.eigvals(M)
    for lam in ev:
        if np.min(np.abs(ev - 1 / lam)) > 1e-4 * max(1, abs(1 / lam)):
            ctx.violation("monodromy-reciprocal", "eigenvalue %r of the monodromy matrix has no reciprocal partner" % lam,
                          {"eigenvalues": [complex(z).__repr__() for z in ev]})
            return
