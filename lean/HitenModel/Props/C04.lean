/-
  Props/C04.lean — property C04: libration points are equilibria with the correct linear dynamics.
  `Gen.C04` is traced from the current `types/services/libration.py` on every run (dOmega/dx, the three quintics, c_n, J·Hess(H2),
  scale factors, the normal-form matrix) together with the body catalogue and the live search brackets; `Gen.C01` supplies the
  traced CR3BP field and Jacobian.  Polynomial certificates (cofactors of the two Vieta relations) were computed offline with
  sympy and are re-checked here by `linear_combination`.
  Triangular points (L4/L5): `triJhess`, `triS1sq`, `triS2sq`, `triS3`, `triC`, `a4`, `a5` are traced as well; section `Triangular`
  (helper lemmas and the 36 + 36 certificates in `Lemmas/C04Tri.lean`).
  Not formalised (measured by the harness): Brent root finding, LAPACK eigenvalues.
-/
import HitenModel.Gen.C04
import HitenModel.Props.C01
import HitenModel.Lemmas.C04Tri
import Mathlib.Tactic.FieldSimp
import Mathlib.Tactic.Ring
import Mathlib.Tactic.LinearCombination
import Mathlib.Tactic.IntervalCases
import Mathlib.Tactic.Linarith
import Mathlib.Tactic.NormNum
import Mathlib.Tactic.FinCases
import Mathlib.Data.Matrix.Basic

namespace HitenModel.Props.C04
open HitenModel RE Gen.C04

/-! ### equilibria -/

theorem dq_meaning (σ : ℕ → ℝ) : eval σ dq0 = (σ 0 + σ 1) ^ 2 ∧ eval σ dq1 = (σ 0 - (1 - σ 1)) ^ 2 ∧
    dOmegaSqrtArgs = [dq0, dq1] := by
  refine ⟨by simp [dq0, eval], by simp [dq1, eval], rfl⟩

/-- state `(x,0,0,0,0,0)` with mass parameter `mu` in the variables of the C01 trace -/
def onAxis (x mu : ℝ) : ℕ → ℝ := fun k => if k = 0 then x else if k = 6 then mu else 0
/-- the same point in the variables of `dOmega` -/
def axisVars (x mu : ℝ) : ℕ → ℝ := fun k => if k = 0 then x else mu

/-- **equilibrium_iff_dOmega**: at a point of the x-axis at rest the traced CR3BP field is `(0,0,0, dΩ/dx(x), 0, 0)`; hence a root
of `_dOmega_dx` away from the primaries IS an equilibrium of the equations of motion the library integrates. -/
theorem equilibrium_iff_dOmega (x mu : ℝ) (h0 : x + mu ≠ 0) (h1 : x - (1 - mu) ≠ 0) :
    eval (onAxis x mu) (Gen.C01.accel 0) = 0 ∧ eval (onAxis x mu) (Gen.C01.accel 1) = 0 ∧
    eval (onAxis x mu) (Gen.C01.accel 2) = 0 ∧ eval (onAxis x mu) (Gen.C01.accel 4) = 0 ∧
    eval (onAxis x mu) (Gen.C01.accel 5) = 0 ∧
    eval (onAxis x mu) (Gen.C01.accel 3) = eval (axisVars x mu) dOmega := by
  have q0 : eval (onAxis x mu) Gen.C01.sq0 = eval (axisVars x mu) dq0 := by
    simp [Gen.C01.sq0, dq0, eval, onAxis, axisVars]
  have q1 : eval (onAxis x mu) Gen.C01.sq1 = eval (axisVars x mu) dq1 := by
    simp [Gen.C01.sq1, dq1, eval, onAxis, axisVars]
  have e0 : Real.sqrt (eval (axisVars x mu) dq0) ≠ 0 := by
    rw [(dq_meaning _).1, Real.sqrt_sq_eq_abs]; simpa [axisVars] using h0
  have e1 : Real.sqrt (eval (axisVars x mu) dq1) ≠ 0 := by
    rw [(dq_meaning _).2.1, Real.sqrt_sq_eq_abs]; simpa [axisVars] using h1
  refine ⟨?_, ?_, ?_, ?_, ?_, ?_⟩ <;>
    simp only [Gen.C01.accel, dOmega, eval, q0, q1] <;>
    (generalize Real.sqrt (eval (axisVars x mu) dq0) = r0 at *
     generalize Real.sqrt (eval (axisVars x mu) dq1) = r1 at *
     simp [onAxis, axisVars]
     try field_simp
     try ring)

/-- value of a quintic (coefficients highest power first) -/
noncomputable def quinticVal (q : ℕ → RE) (mu g : ℝ) : ℝ :=
  let ρ : ℕ → ℝ := fun _ => mu
  eval ρ (q 0) * g ^ 5 + eval ρ (q 1) * g ^ 4 + eval ρ (q 2) * g ^ 3 + eval ρ (q 3) * g ^ 2 + eval ρ (q 4) * g + eval ρ (q 5)

/-- **quintic_iff_dOmega (L1)**: for `0 < γ < 1`, at `x = 1 − μ − γ`: `dΩ/dx · γ²(1−γ)² = −q_L1(γ)`.  The reported distance ratio and
the reported position are roots of the same equation. -/
theorem quintic_iff_dOmega_L1 (mu g : ℝ) (hg0 : 0 < g) (hg1 : g < 1) :
    eval (axisVars (1 - mu - g) mu) dOmega * (g ^ 2 * (1 - g) ^ 2) = - quinticVal quintic1 mu g := by
  have a0 : Real.sqrt (eval (axisVars (1 - mu - g) mu) dq0) = 1 - g := by
    rw [(dq_meaning _).1, show (axisVars (1 - mu - g) mu 0 + axisVars (1 - mu - g) mu 1) ^ 2 = (1 - g) ^ 2 by simp [axisVars] <;> ring]
    exact Real.sqrt_sq (by linarith)
  have a1 : Real.sqrt (eval (axisVars (1 - mu - g) mu) dq1) = g := by
    rw [(dq_meaning _).2.1, show (axisVars (1 - mu - g) mu 0 - (1 - axisVars (1 - mu - g) mu 1)) ^ 2 = (g) ^ 2 by simp [axisVars] <;> ring]
    exact Real.sqrt_sq (by linarith)
  have h1g : (1 - g) ≠ 0 := by linarith
  have hg : g ≠ 0 := hg0.ne'
  simp only [dOmega, eval, a0, a1, quinticVal, quintic1]
  simp [axisVars]
  field_simp
  ring

/-- **quintic_iff_dOmega (L2)**: for `γ > 0`, at `x = 1 − μ + γ`: `dΩ/dx · γ²(1+γ)² = q_L2(γ)` -/
theorem quintic_iff_dOmega_L2 (mu g : ℝ) (hg0 : 0 < g) :
    eval (axisVars (1 - mu + g) mu) dOmega * (g ^ 2 * (1 + g) ^ 2) = quinticVal quintic2 mu g := by
  have a0 : Real.sqrt (eval (axisVars (1 - mu + g) mu) dq0) = 1 + g := by
    rw [(dq_meaning _).1, show (axisVars (1 - mu + g) mu 0 + axisVars (1 - mu + g) mu 1) ^ 2 = (1 + g) ^ 2 by simp [axisVars] <;> ring]
    exact Real.sqrt_sq (by linarith)
  have a1 : Real.sqrt (eval (axisVars (1 - mu + g) mu) dq1) = g := by
    rw [(dq_meaning _).2.1, show (axisVars (1 - mu + g) mu 0 - (1 - axisVars (1 - mu + g) mu 1)) ^ 2 = (g) ^ 2 by simp [axisVars] <;> ring]
    exact Real.sqrt_sq (by linarith)
  have h1g : (1 + g) ≠ 0 := by linarith
  have hg : g ≠ 0 := hg0.ne'
  simp only [dOmega, eval, a0, a1, quinticVal, quintic2]
  simp [axisVars]
  field_simp
  ring

/-- **quintic_iff_dOmega (L3)**: for `γ > 0`, at `x = −μ − γ`: `dΩ/dx · γ²(1+γ)² = −q_L3(γ)` -/
theorem quintic_iff_dOmega_L3 (mu g : ℝ) (hg0 : 0 < g) :
    eval (axisVars (-mu - g) mu) dOmega * (g ^ 2 * (1 + g) ^ 2) = - quinticVal quintic3 mu g := by
  have a0 : Real.sqrt (eval (axisVars (-mu - g) mu) dq0) = g := by
    rw [(dq_meaning _).1, show (axisVars (-mu - g) mu 0 + axisVars (-mu - g) mu 1) ^ 2 = (g) ^ 2 by simp [axisVars] <;> ring]
    exact Real.sqrt_sq (by linarith)
  have a1 : Real.sqrt (eval (axisVars (-mu - g) mu) dq1) = 1 + g := by
    rw [(dq_meaning _).2.1, show (axisVars (-mu - g) mu 0 - (1 - axisVars (-mu - g) mu 1)) ^ 2 = (1 + g) ^ 2 by simp [axisVars] <;> ring]
    exact Real.sqrt_sq (by linarith)
  have h1g : (1 + g) ≠ 0 := by linarith
  have hg : g ≠ 0 := hg0.ne'
  simp only [dOmega, eval, a0, a1, quinticVal, quintic3]
  simp [axisVars]
  field_simp
  ring

/-- the search ranges of the quintics and the side of each point -/
theorem quintic_ranges : quintic1_range = ((0, 1), (1, 1)) ∧ quintic2_range = ((0, 1), (1, 1)) ∧ quintic3_range = ((1, 2), (3, 2)) ∧
    sign1 = -1 ∧ sign2 = -1 ∧ sign3 = 1 := by decide

/-- **dOmega_strictly_mono** (uniqueness of the root on each of the three intervals): the derivative of `dΩ/dx` along the axis is
`1 + 2(1−μ)/r₁³ + 2μ/r₂³ > 0` — here in the traced Jacobian of C01 (`jac 18` = ∂a_x/∂x) for `0 ≤ μ ≤ 1`. -/
theorem dOmega_strictly_mono (x mu : ℝ) (hmu0 : 0 ≤ mu) (hmu1 : mu ≤ 1) (h0 : x + mu ≠ 0) (h1 : x - (1 - mu) ≠ 0) :
    0 < eval (onAxis x mu) (Gen.C01.jac 18) := by
  have q0 : eval (onAxis x mu) Gen.C01.sq0 = (x + mu) ^ 2 := by simp [Gen.C01.sq0, eval, onAxis]
  have q1 : eval (onAxis x mu) Gen.C01.sq1 = (x - (1 - mu)) ^ 2 := by simp [Gen.C01.sq1, eval, onAxis]
  have p0 : 0 < Real.sqrt (eval (onAxis x mu) Gen.C01.sq0) := by
    rw [q0, Real.sqrt_sq_eq_abs]; exact abs_pos.mpr h0
  have p1 : 0 < Real.sqrt (eval (onAxis x mu) Gen.C01.sq1) := by
    rw [q1, Real.sqrt_sq_eq_abs]; exact abs_pos.mpr h1
  have s0 : Real.sqrt (eval (onAxis x mu) Gen.C01.sq0) ^ 2 = (x + mu) ^ 2 := by rw [Real.sq_sqrt (by rw [q0]; positivity), q0]
  have s1 : Real.sqrt (eval (onAxis x mu) Gen.C01.sq1) ^ 2 = (x - (1 - mu)) ^ 2 := by rw [Real.sq_sqrt (by rw [q1]; positivity), q1]
  simp only [Gen.C01.jac, eval]
  generalize Real.sqrt (eval (onAxis x mu) Gen.C01.sq0) = r0 at *
  generalize Real.sqrt (eval (onAxis x mu) Gen.C01.sq1) = r1 at *
  simp [onAxis]
  have e0 : (1 - mu) / r0 ^ 5 * 3 * (x + mu) ^ 2 = 3 * ((1 - mu) / r0 ^ 3) := by
    rw [← s0]; field_simp
  have e1 : mu / r1 ^ 5 * 3 * (x - (1 - mu)) ^ 2 = 3 * (mu / r1 ^ 3) := by
    rw [← s1]; field_simp
  have t0 : 0 ≤ (1 - mu) / r0 ^ 3 := div_nonneg (by linarith) (pow_pos p0 3).le
  have t1 : 0 ≤ mu / r1 ^ 3 := div_nonneg hmu0 (pow_pos p1 3).le
  rw [e0, e1]
  linarith

/-! ### curvature and the linearised Hamiltonian vector field -/

/-- **c2_is_curvature (L1)**: with `x = 1 − μ − γ`, `0 < γ < 1`, the second derivatives of the effective potential at the point are
`Ω_xx = 1 + 2c₂`, `Ω_yy = 1 − c₂`, `Ω_zz = −c₂` with `c₂ = _compute_cn(2)` (entries 18, 25, 32 of the traced Jacobian). -/
theorem c2_is_curvature_L1 (mu g : ℝ) (hg0 : 0 < g) (hg1 : g < 1) :
    let c2 := eval (fun k => if k = 0 then g else mu) cn1_2
    eval (onAxis (1 - mu - g) mu) (Gen.C01.jac 18) = 1 + 2 * c2 ∧
    eval (onAxis (1 - mu - g) mu) (Gen.C01.jac 25) = 1 - c2 ∧
    eval (onAxis (1 - mu - g) mu) (Gen.C01.jac 32) = - c2 := by
  intro c2
  have a0 : Real.sqrt (eval (onAxis (1 - mu - g) mu) Gen.C01.sq0) = 1 - g := by
    rw [show eval (onAxis (1 - mu - g) mu) Gen.C01.sq0 = (1 - g) ^ 2 by simp [Gen.C01.sq0, eval, onAxis] <;> ring]
    exact Real.sqrt_sq (by linarith)
  have a1 : Real.sqrt (eval (onAxis (1 - mu - g) mu) Gen.C01.sq1) = g := by
    rw [show eval (onAxis (1 - mu - g) mu) Gen.C01.sq1 = (g) ^ 2 by simp [Gen.C01.sq1, eval, onAxis] <;> ring]
    exact Real.sqrt_sq (by linarith)
  have h1g : (1 - g) ≠ 0 := by linarith
  have hg : g ≠ 0 := hg0.ne'
  refine ⟨?_, ?_, ?_⟩ <;>
    simp only [Gen.C01.jac, eval, a0, a1] <;>
    simp [c2, cn1_2, eval, onAxis] <;>
    field_simp <;> ring

theorem c2_is_curvature_L2 (mu g : ℝ) (hg0 : 0 < g) :
    let c2 := eval (fun k => if k = 0 then g else mu) cn2_2
    eval (onAxis (1 - mu + g) mu) (Gen.C01.jac 18) = 1 + 2 * c2 ∧
    eval (onAxis (1 - mu + g) mu) (Gen.C01.jac 25) = 1 - c2 ∧
    eval (onAxis (1 - mu + g) mu) (Gen.C01.jac 32) = - c2 := by
  intro c2
  have a0 : Real.sqrt (eval (onAxis (1 - mu + g) mu) Gen.C01.sq0) = 1 + g := by
    rw [show eval (onAxis (1 - mu + g) mu) Gen.C01.sq0 = (1 + g) ^ 2 by simp [Gen.C01.sq0, eval, onAxis] <;> ring]
    exact Real.sqrt_sq (by linarith)
  have a1 : Real.sqrt (eval (onAxis (1 - mu + g) mu) Gen.C01.sq1) = g := by
    rw [show eval (onAxis (1 - mu + g) mu) Gen.C01.sq1 = (g) ^ 2 by simp [Gen.C01.sq1, eval, onAxis] <;> ring]
    exact Real.sqrt_sq (by linarith)
  have h1g : (1 + g) ≠ 0 := by linarith
  have hg : g ≠ 0 := hg0.ne'
  refine ⟨?_, ?_, ?_⟩ <;>
    simp only [Gen.C01.jac, eval, a0, a1] <;>
    simp [c2, cn2_2, eval, onAxis] <;>
    field_simp <;> ring

theorem c2_is_curvature_L3 (mu g : ℝ) (hg0 : 0 < g) :
    let c2 := eval (fun k => if k = 0 then g else mu) cn3_2
    eval (onAxis (-mu - g) mu) (Gen.C01.jac 18) = 1 + 2 * c2 ∧
    eval (onAxis (-mu - g) mu) (Gen.C01.jac 25) = 1 - c2 ∧
    eval (onAxis (-mu - g) mu) (Gen.C01.jac 32) = - c2 := by
  intro c2
  have a0 : Real.sqrt (eval (onAxis (-mu - g) mu) Gen.C01.sq0) = g := by
    rw [show eval (onAxis (-mu - g) mu) Gen.C01.sq0 = (g) ^ 2 by simp [Gen.C01.sq0, eval, onAxis] <;> ring]
    exact Real.sqrt_sq (by linarith)
  have a1 : Real.sqrt (eval (onAxis (-mu - g) mu) Gen.C01.sq1) = 1 + g := by
    rw [show eval (onAxis (-mu - g) mu) Gen.C01.sq1 = (1 + g) ^ 2 by simp [Gen.C01.sq1, eval, onAxis] <;> ring]
    exact Real.sqrt_sq (by linarith)
  have h1g : (1 + g) ≠ 0 := by linarith
  have hg : g ≠ 0 := hg0.ne'
  refine ⟨?_, ?_, ?_⟩ <;>
    simp only [Gen.C01.jac, eval, a0, a1] <;>
    simp [c2, cn3_2, eval, onAxis] <;>
    field_simp <;> ring

/-- the planar block of the traced `_J_hess_H2` (ordering x, y, p_x, p_y) -/
noncomputable def Jp (ρ : ℕ → ℝ) : Matrix (Fin 4) (Fin 4) ℝ := fun i j => eval ρ (jhess (6 * i.val + j.val))

/-- it is the Hamiltonian matrix `J·Hess(H₂)` of `H₂ = ½(p_x²+p_y²) + y p_x − x p_y − c₂x² + ½c₂y²` -/
theorem jhess_planar_is_J_hess (ρ : ℕ → ℝ) :
    Jp ρ = !![0, 1, 1, 0; -1, 0, 0, 1; 2 * ρ 3, 0, 0, 1; 0, -(ρ 3), -1, 0] ∧
    (!![0, 1, 1, 0; -1, 0, 0, 1; 2 * ρ 3, 0, 0, 1; 0, -(ρ 3), -1, 0] : Matrix (Fin 4) (Fin 4) ℝ) =
      (!![0, 0, 1, 0; 0, 0, 0, 1; -1, 0, 0, 0; 0, -1, 0, 0] : Matrix (Fin 4) (Fin 4) ℝ) *
      !![-2 * ρ 3, 0, 0, -1; 0, ρ 3, 1, 0; 0, 1, 1, 0; -1, 0, 0, 1] := by
  constructor
  · ext i j; fin_cases i <;> fin_cases j <;> simp [Jp, jhess, eval]
  · ext i j; fin_cases i <;> fin_cases j <;> simp [Matrix.mul_apply, Fin.sum_univ_four]

/-- the vertical block has eigenvalues `±i√c₂` -/
theorem jhess_vertical_block (ρ : ℕ → ℝ) (hc : 0 ≤ ρ 3) :
    eval ρ (jhess 28) = 0 ∧ eval ρ (jhess 35) = 0 ∧ eval ρ (jhess 29) * eval ρ (jhess 34) = -(ρ 3) := by
  refine ⟨by simp [jhess, eval], by simp [jhess, eval], ?_⟩
  simp only [jhess, eval]
  have := Real.mul_self_sqrt hc
  linarith

/-- **characteristic_equation** (Cayley–Hamilton form): the planar block satisfies `A⁴ + (2 − c₂)A² + (1 + c₂ − 2c₂²) = 0`; hence
every eigenvalue η of the linearised planar dynamics satisfies `η⁴ + (2−c₂)η² + (1+c₂−2c₂²) = 0`. -/
theorem characteristic_equation (ρ : ℕ → ℝ) :
    (Jp ρ) ^ 4 + (2 - ρ 3) • (Jp ρ) ^ 2 + (1 + ρ 3 - 2 * ρ 3 ^ 2) • (1 : Matrix (Fin 4) (Fin 4) ℝ) = 0 := by
  rw [(jhess_planar_is_J_hess ρ).1]
  ext i j
  fin_cases i <;> fin_cases j <;>
    simp [pow_succ, Matrix.mul_apply, Fin.sum_univ_four, Matrix.one_apply] <;> ring

/-- `(η² − λ²)(η² + ω²)` is that quartic exactly when `λ², −ω²` satisfy the two Vieta relations used below -/
theorem vieta_iff (l o c : ℝ) :
    (∀ η : ℝ, (η ^ 2 - l ^ 2) * (η ^ 2 + o ^ 2) = η ^ 4 + (2 - c) * η ^ 2 + (1 + c - 2 * c ^ 2)) ↔
      (l ^ 2 - o ^ 2 = c - 2 ∧ l ^ 2 * o ^ 2 = 2 * c ^ 2 - c - 1) := by
  constructor
  · intro h
    have h0 := h 0
    have h1 := h 1
    constructor <;> nlinarith [h0, h1]
  · rintro ⟨h1, h2⟩ η
    linear_combination (-(η ^ 2)) * h1 - h2

/-- **no_mode_crossing**: for `c₂ > 1` the planar frequency exceeds the vertical one (`ω₁² > c₂ = ω₂²`), so the swap branch of
`_compute_linear_modes` cannot mis-assign the modes -/
theorem no_mode_crossing (l o c : ℝ) (hc : 1 < c) (h1 : l ^ 2 - o ^ 2 = c - 2) (h2 : l ^ 2 * o ^ 2 = 2 * c ^ 2 - c - 1) :
    c < o ^ 2 := by
  by_contra hcon
  push_neg at hcon
  have hl : l ^ 2 = o ^ 2 + c - 2 := by linarith
  have : (o ^ 2 + c - 2) * o ^ 2 = 2 * c ^ 2 - c - 1 := by rw [← hl]; exact h2
  nlinarith [sq_nonneg (o ^ 2), sq_nonneg (c - o ^ 2), sq_nonneg l]

/-! ### the normal-form matrix -/

/-- numerators of the normal-form matrix: `C = Ĉ · diag(1/s₁, 1/s₂, 1/w, 1/s₁, 1/s₂, w)`, `w = √ω₂` -/
def Chat (l o c : ℝ) : ℕ → ℕ → ℝ
  | 0, 0 => 2 * l | 1, 0 => l ^ 2 - 2 * c - 1 | 3, 0 => l ^ 2 + 2 * c + 1 | 4, 0 => l ^ 3 + (1 - 2 * c) * l
  | 1, 1 => -o ^ 2 - 2 * c - 1 | 3, 1 => -o ^ 2 + 2 * c + 1
  | 2, 2 => 1
  | 0, 3 => -2 * l | 1, 3 => l ^ 2 - 2 * c - 1 | 3, 3 => l ^ 2 + 2 * c + 1 | 4, 3 => -l ^ 3 - (1 - 2 * c) * l
  | 0, 4 => 2 * o | 4, 4 => -o ^ 3 + (1 - 2 * c) * o
  | 5, 5 => 1
  | _, _ => 0
noncomputable def dcol (s1 s2 w : ℝ) : ℕ → ℝ
  | 0 => 1 / s1 | 1 => 1 / s2 | 2 => 1 / w | 3 => 1 / s1 | 4 => 1 / s2 | _ => w

theorem nfSqrtArgs_meaning (ρ : ℕ → ℝ) : eval ρ wq0 = ρ 2 ∧ nfSqrtArgs = [wq0] := ⟨by simp only [wq0, eval], rfl⟩

/-- the traced `_build_normal_form` matrix (variables 0 λ₁, 1 ω₁, 2 ω₂, 3 c₂, 4 s₁, 5 s₂) has exactly this shape -/
theorem nfC_factor (ρ : ℕ → ℝ) (i j : ℕ) (hi : i < 6) (hj : j < 6) :
    eval ρ (nfC (6 * i + j)) = Chat (ρ 0) (ρ 1) (ρ 3) i j * dcol (ρ 4) (ρ 5) (Real.sqrt (eval ρ wq0)) j := by
  interval_cases i <;> interval_cases j <;> simp only [nfC, eval, Chat, dcol, Nat.reduceMul, Nat.reduceAdd] <;> ring

/-- the traced scale factors -/
theorem scale_factors (ρ : ℕ → ℝ) :
    eval ρ s1sq = 2 * ρ 0 * ((4 + 3 * ρ 3) * ρ 0 ^ 2 + (4 + 5 * ρ 3 - 6 * ρ 3 ^ 2)) ∧
    eval ρ s2sq = ρ 1 * ((4 + 3 * ρ 3) * ρ 1 ^ 2 - (4 + 5 * ρ 3 - 6 * ρ 3 ^ 2)) := by
  constructor <;> simp only [s1sq, s2sq, eval] <;> ring

/-- `ĈᵀJĈ` entry (i,j) and `ĈᵀSĈ` entry (i,j) with `S = Hess(H₂)`, `H₂ = ½|p|² + y p_x − x p_y − c₂x² + ½c₂y² + ½c₂z²` -/
def sympl (l o c : ℝ) (i j : ℕ) : ℝ :=
  (Chat l o c 0 i * Chat l o c 3 j - Chat l o c 3 i * Chat l o c 0 j) +
  (Chat l o c 1 i * Chat l o c 4 j - Chat l o c 4 i * Chat l o c 1 j) +
  (Chat l o c 2 i * Chat l o c 5 j - Chat l o c 5 i * Chat l o c 2 j)
def quad (l o c : ℝ) (i j : ℕ) : ℝ :=
  Chat l o c 3 i * Chat l o c 3 j + Chat l o c 4 i * Chat l o c 4 j + Chat l o c 5 i * Chat l o c 5 j +
  (Chat l o c 1 i * Chat l o c 3 j + Chat l o c 3 i * Chat l o c 1 j) -
  (Chat l o c 0 i * Chat l o c 4 j + Chat l o c 4 i * Chat l o c 0 j) -
  2 * c * (Chat l o c 0 i * Chat l o c 0 j) + c * (Chat l o c 1 i * Chat l o c 1 j) + c * (Chat l o c 2 i * Chat l o c 2 j)
def E1 (l c : ℝ) : ℝ := 2 * l * ((4 + 3 * c) * l ^ 2 + (4 + 5 * c - 6 * c ^ 2))
def E2 (o c : ℝ) : ℝ := o * ((4 + 3 * c) * o ^ 2 - (4 + 5 * c - 6 * c ^ 2))
def symplTarget (l o c : ℝ) : ℕ → ℕ → ℝ
  | 0, 3 => E1 l c | 1, 4 => E2 o c | 2, 5 => 1 | _, _ => 0
def quadTarget (l o c : ℝ) : ℕ → ℕ → ℝ
  | 0, 3 => l * E1 l c | 1, 1 => o * E2 o c | 4, 4 => o * E2 o c | 2, 2 => c | 5, 5 => 1 | _, _ => 0
theorem sympl_0_1 (l o c : ℝ) (h1 : l ^ 2 - o ^ 2 = c - 2) (h2 : l ^ 2 * o ^ 2 = 2 * c ^ 2 - c - 1) :
    sympl l o c 0 1 = symplTarget l o c 0 1 := by
  simp only [sympl, symplTarget, Chat, E1, E2]
  linear_combination (2*c*l + l) * h1 + (l) * h2
theorem sympl_0_2 (l o c : ℝ) (h1 : l ^ 2 - o ^ 2 = c - 2) (h2 : l ^ 2 * o ^ 2 = 2 * c ^ 2 - c - 1) :
    sympl l o c 0 2 = symplTarget l o c 0 2 := by
  simp only [sympl, symplTarget, Chat, E1, E2]
  linear_combination (0) * h1 + (0) * h2
theorem sympl_0_3 (l o c : ℝ) (h1 : l ^ 2 - o ^ 2 = c - 2) (h2 : l ^ 2 * o ^ 2 = 2 * c ^ 2 - c - 1) :
    sympl l o c 0 3 = symplTarget l o c 0 3 := by
  simp only [sympl, symplTarget, Chat, E1, E2]
  linear_combination (-2*l^3) * h1 + (-2*l) * h2
theorem sympl_0_4 (l o c : ℝ) (h1 : l ^ 2 - o ^ 2 = c - 2) (h2 : l ^ 2 * o ^ 2 = 2 * c ^ 2 - c - 1) :
    sympl l o c 0 4 = symplTarget l o c 0 4 := by
  simp only [sympl, symplTarget, Chat, E1, E2]
  linear_combination (-2*c*o - o) * h1 + (-o) * h2
theorem sympl_0_5 (l o c : ℝ) (h1 : l ^ 2 - o ^ 2 = c - 2) (h2 : l ^ 2 * o ^ 2 = 2 * c ^ 2 - c - 1) :
    sympl l o c 0 5 = symplTarget l o c 0 5 := by
  simp only [sympl, symplTarget, Chat, E1, E2]
  linear_combination (0) * h1 + (0) * h2
theorem sympl_1_2 (l o c : ℝ) (h1 : l ^ 2 - o ^ 2 = c - 2) (h2 : l ^ 2 * o ^ 2 = 2 * c ^ 2 - c - 1) :
    sympl l o c 1 2 = symplTarget l o c 1 2 := by
  simp only [sympl, symplTarget, Chat, E1, E2]
  linear_combination (0) * h1 + (0) * h2
theorem sympl_1_3 (l o c : ℝ) (h1 : l ^ 2 - o ^ 2 = c - 2) (h2 : l ^ 2 * o ^ 2 = 2 * c ^ 2 - c - 1) :
    sympl l o c 1 3 = symplTarget l o c 1 3 := by
  simp only [sympl, symplTarget, Chat, E1, E2]
  linear_combination (2*c*l + l) * h1 + (l) * h2
theorem sympl_1_4 (l o c : ℝ) (h1 : l ^ 2 - o ^ 2 = c - 2) (h2 : l ^ 2 * o ^ 2 = 2 * c ^ 2 - c - 1) :
    sympl l o c 1 4 = symplTarget l o c 1 4 := by
  simp only [sympl, symplTarget, Chat, E1, E2]
  linear_combination (-o^3) * h1 + (o) * h2
theorem sympl_1_5 (l o c : ℝ) (h1 : l ^ 2 - o ^ 2 = c - 2) (h2 : l ^ 2 * o ^ 2 = 2 * c ^ 2 - c - 1) :
    sympl l o c 1 5 = symplTarget l o c 1 5 := by
  simp only [sympl, symplTarget, Chat, E1, E2]
  linear_combination (0) * h1 + (0) * h2
theorem sympl_2_3 (l o c : ℝ) (h1 : l ^ 2 - o ^ 2 = c - 2) (h2 : l ^ 2 * o ^ 2 = 2 * c ^ 2 - c - 1) :
    sympl l o c 2 3 = symplTarget l o c 2 3 := by
  simp only [sympl, symplTarget, Chat, E1, E2]
  linear_combination (0) * h1 + (0) * h2
theorem sympl_2_4 (l o c : ℝ) (h1 : l ^ 2 - o ^ 2 = c - 2) (h2 : l ^ 2 * o ^ 2 = 2 * c ^ 2 - c - 1) :
    sympl l o c 2 4 = symplTarget l o c 2 4 := by
  simp only [sympl, symplTarget, Chat, E1, E2]
  linear_combination (0) * h1 + (0) * h2
theorem sympl_2_5 (l o c : ℝ) (h1 : l ^ 2 - o ^ 2 = c - 2) (h2 : l ^ 2 * o ^ 2 = 2 * c ^ 2 - c - 1) :
    sympl l o c 2 5 = symplTarget l o c 2 5 := by
  simp only [sympl, symplTarget, Chat, E1, E2]
  linear_combination (0) * h1 + (0) * h2
theorem sympl_3_4 (l o c : ℝ) (h1 : l ^ 2 - o ^ 2 = c - 2) (h2 : l ^ 2 * o ^ 2 = 2 * c ^ 2 - c - 1) :
    sympl l o c 3 4 = symplTarget l o c 3 4 := by
  simp only [sympl, symplTarget, Chat, E1, E2]
  linear_combination (-2*c*o - o) * h1 + (-o) * h2
theorem sympl_3_5 (l o c : ℝ) (h1 : l ^ 2 - o ^ 2 = c - 2) (h2 : l ^ 2 * o ^ 2 = 2 * c ^ 2 - c - 1) :
    sympl l o c 3 5 = symplTarget l o c 3 5 := by
  simp only [sympl, symplTarget, Chat, E1, E2]
  linear_combination (0) * h1 + (0) * h2
theorem sympl_4_5 (l o c : ℝ) (h1 : l ^ 2 - o ^ 2 = c - 2) (h2 : l ^ 2 * o ^ 2 = 2 * c ^ 2 - c - 1) :
    sympl l o c 4 5 = symplTarget l o c 4 5 := by
  simp only [sympl, symplTarget, Chat, E1, E2]
  linear_combination (0) * h1 + (0) * h2
theorem quad_0_0 (l o c : ℝ) (h1 : l ^ 2 - o ^ 2 = c - 2) (h2 : l ^ 2 * o ^ 2 = 2 * c ^ 2 - c - 1) :
    quad l o c 0 0 = quadTarget l o c 0 0 := by
  simp only [quad, quadTarget, Chat, E1, E2]
  linear_combination (-4*c^2 - 2*c*l^2 + 2*c + l^4 + 2*l^2*o^2 - l^2 + 2) * h1 + (-l^2 + 2*o^2 - 5) * h2
theorem quad_0_1 (l o c : ℝ) (h1 : l ^ 2 - o ^ 2 = c - 2) (h2 : l ^ 2 * o ^ 2 = 2 * c ^ 2 - c - 1) :
    quad l o c 0 1 = quadTarget l o c 0 1 := by
  simp only [quad, quadTarget, Chat, E1, E2]
  linear_combination (-4*c^2 + 2*c + l^2*o^2 + 2) * h1 + (-l^2 + o^2 - 5) * h2
theorem quad_0_2 (l o c : ℝ) (h1 : l ^ 2 - o ^ 2 = c - 2) (h2 : l ^ 2 * o ^ 2 = 2 * c ^ 2 - c - 1) :
    quad l o c 0 2 = quadTarget l o c 0 2 := by
  simp only [quad, quadTarget, Chat, E1, E2]
  linear_combination (0) * h1 + (0) * h2
theorem quad_0_3 (l o c : ℝ) (h1 : l ^ 2 - o ^ 2 = c - 2) (h2 : l ^ 2 * o ^ 2 = 2 * c ^ 2 - c - 1) :
    quad l o c 0 3 = quadTarget l o c 0 3 := by
  simp only [quad, quadTarget, Chat, E1, E2]
  linear_combination (-4*c^2 - 2*c*l^2 + 2*c - l^4 + 2*l^2*o^2 - l^2 + 2) * h1 + (-3*l^2 + 2*o^2 - 5) * h2
theorem quad_0_4 (l o c : ℝ) (h1 : l ^ 2 - o ^ 2 = c - 2) (h2 : l ^ 2 * o ^ 2 = 2 * c ^ 2 - c - 1) :
    quad l o c 0 4 = quadTarget l o c 0 4 := by
  simp only [quad, quadTarget, Chat, E1, E2]
  linear_combination (-2*c*l*o - l*o) * h1 + (-l*o) * h2
theorem quad_0_5 (l o c : ℝ) (h1 : l ^ 2 - o ^ 2 = c - 2) (h2 : l ^ 2 * o ^ 2 = 2 * c ^ 2 - c - 1) :
    quad l o c 0 5 = quadTarget l o c 0 5 := by
  simp only [quad, quadTarget, Chat, E1, E2]
  linear_combination (0) * h1 + (0) * h2
theorem quad_1_1 (l o c : ℝ) (h1 : l ^ 2 - o ^ 2 = c - 2) (h2 : l ^ 2 * o ^ 2 = 2 * c ^ 2 - c - 1) :
    quad l o c 1 1 = quadTarget l o c 1 1 := by
  simp only [quad, quadTarget, Chat, E1, E2]
  linear_combination (-4*c^2 + 2*c*o^2 + 2*c + 2*l^2*o^2 + o^2 + 2) * h1 + (-2*l^2 + 2*o^2 - 5) * h2
theorem quad_1_2 (l o c : ℝ) (h1 : l ^ 2 - o ^ 2 = c - 2) (h2 : l ^ 2 * o ^ 2 = 2 * c ^ 2 - c - 1) :
    quad l o c 1 2 = quadTarget l o c 1 2 := by
  simp only [quad, quadTarget, Chat, E1, E2]
  linear_combination (0) * h1 + (0) * h2
theorem quad_1_3 (l o c : ℝ) (h1 : l ^ 2 - o ^ 2 = c - 2) (h2 : l ^ 2 * o ^ 2 = 2 * c ^ 2 - c - 1) :
    quad l o c 1 3 = quadTarget l o c 1 3 := by
  simp only [quad, quadTarget, Chat, E1, E2]
  linear_combination (-4*c^2 + 2*c + l^2*o^2 + 2) * h1 + (-l^2 + o^2 - 5) * h2
theorem quad_1_4 (l o c : ℝ) (h1 : l ^ 2 - o ^ 2 = c - 2) (h2 : l ^ 2 * o ^ 2 = 2 * c ^ 2 - c - 1) :
    quad l o c 1 4 = quadTarget l o c 1 4 := by
  simp only [quad, quadTarget, Chat, E1, E2]
  linear_combination (0) * h1 + (0) * h2
theorem quad_1_5 (l o c : ℝ) (h1 : l ^ 2 - o ^ 2 = c - 2) (h2 : l ^ 2 * o ^ 2 = 2 * c ^ 2 - c - 1) :
    quad l o c 1 5 = quadTarget l o c 1 5 := by
  simp only [quad, quadTarget, Chat, E1, E2]
  linear_combination (0) * h1 + (0) * h2
theorem quad_2_2 (l o c : ℝ) (h1 : l ^ 2 - o ^ 2 = c - 2) (h2 : l ^ 2 * o ^ 2 = 2 * c ^ 2 - c - 1) :
    quad l o c 2 2 = quadTarget l o c 2 2 := by
  simp only [quad, quadTarget, Chat, E1, E2]
  linear_combination (0) * h1 + (0) * h2
theorem quad_2_3 (l o c : ℝ) (h1 : l ^ 2 - o ^ 2 = c - 2) (h2 : l ^ 2 * o ^ 2 = 2 * c ^ 2 - c - 1) :
    quad l o c 2 3 = quadTarget l o c 2 3 := by
  simp only [quad, quadTarget, Chat, E1, E2]
  linear_combination (0) * h1 + (0) * h2
theorem quad_2_4 (l o c : ℝ) (h1 : l ^ 2 - o ^ 2 = c - 2) (h2 : l ^ 2 * o ^ 2 = 2 * c ^ 2 - c - 1) :
    quad l o c 2 4 = quadTarget l o c 2 4 := by
  simp only [quad, quadTarget, Chat, E1, E2]
  linear_combination (0) * h1 + (0) * h2
theorem quad_2_5 (l o c : ℝ) (h1 : l ^ 2 - o ^ 2 = c - 2) (h2 : l ^ 2 * o ^ 2 = 2 * c ^ 2 - c - 1) :
    quad l o c 2 5 = quadTarget l o c 2 5 := by
  simp only [quad, quadTarget, Chat, E1, E2]
  linear_combination (0) * h1 + (0) * h2
theorem quad_3_3 (l o c : ℝ) (h1 : l ^ 2 - o ^ 2 = c - 2) (h2 : l ^ 2 * o ^ 2 = 2 * c ^ 2 - c - 1) :
    quad l o c 3 3 = quadTarget l o c 3 3 := by
  simp only [quad, quadTarget, Chat, E1, E2]
  linear_combination (-4*c^2 - 2*c*l^2 + 2*c + l^4 + 2*l^2*o^2 - l^2 + 2) * h1 + (-l^2 + 2*o^2 - 5) * h2
theorem quad_3_4 (l o c : ℝ) (h1 : l ^ 2 - o ^ 2 = c - 2) (h2 : l ^ 2 * o ^ 2 = 2 * c ^ 2 - c - 1) :
    quad l o c 3 4 = quadTarget l o c 3 4 := by
  simp only [quad, quadTarget, Chat, E1, E2]
  linear_combination (2*c*l*o + l*o) * h1 + (l*o) * h2
theorem quad_3_5 (l o c : ℝ) (h1 : l ^ 2 - o ^ 2 = c - 2) (h2 : l ^ 2 * o ^ 2 = 2 * c ^ 2 - c - 1) :
    quad l o c 3 5 = quadTarget l o c 3 5 := by
  simp only [quad, quadTarget, Chat, E1, E2]
  linear_combination (0) * h1 + (0) * h2
theorem quad_4_4 (l o c : ℝ) (h1 : l ^ 2 - o ^ 2 = c - 2) (h2 : l ^ 2 * o ^ 2 = 2 * c ^ 2 - c - 1) :
    quad l o c 4 4 = quadTarget l o c 4 4 := by
  simp only [quad, quadTarget, Chat, E1, E2]
  linear_combination (-o^4) * h1 + (o^2) * h2
theorem quad_4_5 (l o c : ℝ) (h1 : l ^ 2 - o ^ 2 = c - 2) (h2 : l ^ 2 * o ^ 2 = 2 * c ^ 2 - c - 1) :
    quad l o c 4 5 = quadTarget l o c 4 5 := by
  simp only [quad, quadTarget, Chat, E1, E2]
  linear_combination (0) * h1 + (0) * h2
theorem quad_5_5 (l o c : ℝ) (h1 : l ^ 2 - o ^ 2 = c - 2) (h2 : l ^ 2 * o ^ 2 = 2 * c ^ 2 - c - 1) :
    quad l o c 5 5 = quadTarget l o c 5 5 := by
  simp only [quad, quadTarget, Chat, E1, E2]
  linear_combination (0) * h1 + (0) * h2

/-- **Ĉ is symplectic up to the column scalings and diagonalises H₂** (all 15 + 21 independent entries), for all real `λ, ω, c₂`
satisfying the two Vieta relations — i.e. `λ²` and `−ω²` are the two roots of the characteristic equation in `η²`. -/
theorem chat_symplectic_and_diagonalising (l o c : ℝ) (h1 : l ^ 2 - o ^ 2 = c - 2) (h2 : l ^ 2 * o ^ 2 = 2 * c ^ 2 - c - 1)
    (i j : ℕ) (hj : j < 6) :
    (i < j → sympl l o c i j = symplTarget l o c i j) ∧ (i ≤ j → quad l o c i j = quadTarget l o c i j) := by
  constructor
  · intro hij
    interval_cases j <;> interval_cases i <;>
      first
        | exact sympl_0_1 l o c h1 h2
        | exact sympl_0_2 l o c h1 h2
        | exact sympl_0_3 l o c h1 h2
        | exact sympl_0_4 l o c h1 h2
        | exact sympl_0_5 l o c h1 h2
        | exact sympl_1_2 l o c h1 h2
        | exact sympl_1_3 l o c h1 h2
        | exact sympl_1_4 l o c h1 h2
        | exact sympl_1_5 l o c h1 h2
        | exact sympl_2_3 l o c h1 h2
        | exact sympl_2_4 l o c h1 h2
        | exact sympl_2_5 l o c h1 h2
        | exact sympl_3_4 l o c h1 h2
        | exact sympl_3_5 l o c h1 h2
        | exact sympl_4_5 l o c h1 h2
  · intro hij
    interval_cases j <;> interval_cases i <;>
      first
        | exact quad_0_0 l o c h1 h2
        | exact quad_0_1 l o c h1 h2
        | exact quad_0_2 l o c h1 h2
        | exact quad_0_3 l o c h1 h2
        | exact quad_0_4 l o c h1 h2
        | exact quad_0_5 l o c h1 h2
        | exact quad_1_1 l o c h1 h2
        | exact quad_1_2 l o c h1 h2
        | exact quad_1_3 l o c h1 h2
        | exact quad_1_4 l o c h1 h2
        | exact quad_1_5 l o c h1 h2
        | exact quad_2_2 l o c h1 h2
        | exact quad_2_3 l o c h1 h2
        | exact quad_2_4 l o c h1 h2
        | exact quad_2_5 l o c h1 h2
        | exact quad_3_3 l o c h1 h2
        | exact quad_3_4 l o c h1 h2
        | exact quad_3_5 l o c h1 h2
        | exact quad_4_4 l o c h1 h2
        | exact quad_4_5 l o c h1 h2
        | exact quad_5_5 l o c h1 h2

/-- entries of `CᵀJC` and `CᵀSC` for the traced matrix -/
noncomputable def Cent (ρ : ℕ → ℝ) (i j : ℕ) : ℝ := eval ρ (nfC (6 * i + j))
noncomputable def CtJC (ρ : ℕ → ℝ) (i j : ℕ) : ℝ :=
  (Cent ρ 0 i * Cent ρ 3 j - Cent ρ 3 i * Cent ρ 0 j) + (Cent ρ 1 i * Cent ρ 4 j - Cent ρ 4 i * Cent ρ 1 j) +
  (Cent ρ 2 i * Cent ρ 5 j - Cent ρ 5 i * Cent ρ 2 j)
noncomputable def CtSC (ρ : ℕ → ℝ) (i j : ℕ) : ℝ :=
  Cent ρ 3 i * Cent ρ 3 j + Cent ρ 4 i * Cent ρ 4 j + Cent ρ 5 i * Cent ρ 5 j +
  (Cent ρ 1 i * Cent ρ 3 j + Cent ρ 3 i * Cent ρ 1 j) - (Cent ρ 0 i * Cent ρ 4 j + Cent ρ 4 i * Cent ρ 0 j) -
  2 * ρ 3 * (Cent ρ 0 i * Cent ρ 0 j) + ρ 3 * (Cent ρ 1 i * Cent ρ 1 j) + ρ 3 * (Cent ρ 2 i * Cent ρ 2 j)

theorem CtJC_factor (ρ : ℕ → ℝ) (i j : ℕ) (hi : i < 6) (hj : j < 6) :
    CtJC ρ i j = dcol (ρ 4) (ρ 5) (Real.sqrt (eval ρ wq0)) i * dcol (ρ 4) (ρ 5) (Real.sqrt (eval ρ wq0)) j *
      sympl (ρ 0) (ρ 1) (ρ 3) i j := by
  simp only [CtJC, Cent, sympl]
  rw [nfC_factor ρ 0 i (by norm_num) hi, nfC_factor ρ 3 j (by norm_num) hj, nfC_factor ρ 3 i (by norm_num) hi,
    nfC_factor ρ 0 j (by norm_num) hj, nfC_factor ρ 1 i (by norm_num) hi, nfC_factor ρ 4 j (by norm_num) hj,
    nfC_factor ρ 4 i (by norm_num) hi, nfC_factor ρ 1 j (by norm_num) hj, nfC_factor ρ 2 i (by norm_num) hi,
    nfC_factor ρ 5 j (by norm_num) hj, nfC_factor ρ 5 i (by norm_num) hi, nfC_factor ρ 2 j (by norm_num) hj]
  ring

theorem CtSC_factor (ρ : ℕ → ℝ) (i j : ℕ) (hi : i < 6) (hj : j < 6) :
    CtSC ρ i j = dcol (ρ 4) (ρ 5) (Real.sqrt (eval ρ wq0)) i * dcol (ρ 4) (ρ 5) (Real.sqrt (eval ρ wq0)) j *
      quad (ρ 0) (ρ 1) (ρ 3) i j := by
  simp only [CtSC, Cent, quad]
  rw [nfC_factor ρ 0 i (by norm_num) hi, nfC_factor ρ 3 j (by norm_num) hj, nfC_factor ρ 3 i (by norm_num) hi,
    nfC_factor ρ 0 j (by norm_num) hj, nfC_factor ρ 1 i (by norm_num) hi, nfC_factor ρ 4 j (by norm_num) hj,
    nfC_factor ρ 4 i (by norm_num) hi, nfC_factor ρ 1 j (by norm_num) hj, nfC_factor ρ 2 i (by norm_num) hi,
    nfC_factor ρ 5 j (by norm_num) hj, nfC_factor ρ 5 i (by norm_num) hi, nfC_factor ρ 2 j (by norm_num) hj]
  ring

/-- the defining relations between the quantities `_build_normal_form` combines -/
structure NFHyp (ρ : ℕ → ℝ) : Prop where
  vieta1 : ρ 0 ^ 2 - ρ 1 ^ 2 = ρ 3 - 2
  vieta2 : ρ 0 ^ 2 * ρ 1 ^ 2 = 2 * ρ 3 ^ 2 - ρ 3 - 1
  vert : ρ 2 ^ 2 = ρ 3
  om2_pos : 0 < ρ 2
  s1 : ρ 4 ^ 2 = eval ρ s1sq
  s2 : ρ 5 ^ 2 = eval ρ s2sq
  s1_ne : ρ 4 ≠ 0
  s2_ne : ρ 5 ≠ 0

/-- **normal_form_symplectic_and_diagonalising**: for the traced `_build_normal_form` matrix `C` (ordering x,y,z,p_x,p_y,p_z), under
the defining relations `NFHyp` (λ₁², −ω₁² the two roots of the characteristic equation, ω₂² = c₂, s₁², s₂² the traced scale factors):
`CᵀJC = J` and `CᵀSC = T` where `S = Hess(H₂)` and `T` is the Hessian of `λ₁q₁p₁ + ω₁/2(q₂²+p₂²) + ω₂/2(q₃²+p₃²)`. -/
theorem normal_form_symplectic_and_diagonalising (ρ : ℕ → ℝ) (h : NFHyp ρ) (i j : ℕ) (hj : j < 6) :
    (i < j → CtJC ρ i j = if j = i + 3 then 1 else 0) ∧
    (i ≤ j → CtSC ρ i j =
      if (i, j) = (0, 3) then ρ 0 else if (i, j) = (1, 1) ∨ (i, j) = (4, 4) then ρ 1
      else if (i, j) = (2, 2) ∨ (i, j) = (5, 5) then ρ 2 else 0) := by
  have hw : Real.sqrt (eval ρ wq0) ^ 2 = ρ 2 := by
    rw [(nfSqrtArgs_meaning ρ).1]; exact Real.sq_sqrt h.om2_pos.le
  have hw0 : Real.sqrt (eval ρ wq0) ≠ 0 := by
    rw [(nfSqrtArgs_meaning ρ).1]; exact (Real.sqrt_pos.mpr h.om2_pos).ne'
  have hs1 := h.s1
  have hs2 := h.s2
  rw [(scale_factors ρ).1] at hs1
  rw [(scale_factors ρ).2] at hs2
  have h41 := h.s1_ne
  have h51 := h.s2_ne
  have hv := h.vert
  constructor
  · intro hij
    have hi : i < 6 := by omega
    rw [CtJC_factor ρ i j hi hj, ((chat_symplectic_and_diagonalising _ _ _ h.vieta1 h.vieta2 i j hj).1 hij)]
    generalize Real.sqrt (eval ρ wq0) = w at *
    interval_cases j <;> interval_cases i <;> simp [dcol, symplTarget, E1, E2] <;> field_simp <;>
      first | linear_combination hs1 | linear_combination hs2 | linear_combination (-1 : ℝ) * hs1
            | linear_combination (-1 : ℝ) * hs2 | ring
  · intro hij
    have hi : i < 6 := by omega
    rw [CtSC_factor ρ i j hi hj, ((chat_symplectic_and_diagonalising _ _ _ h.vieta1 h.vieta2 i j hj).2 hij)]
    generalize Real.sqrt (eval ρ wq0) = w at *
    interval_cases j <;> interval_cases i <;> simp [dcol, quadTarget, E1, E2] <;> field_simp <;>
      first | linear_combination (ρ 0) * hs1 | linear_combination (ρ 1) * hs2 | linear_combination (-(ρ 0)) * hs1
            | linear_combination (-(ρ 1)) * hs2 | linear_combination hv - (ρ 2) * hw | linear_combination hw
            | linear_combination (-1 : ℝ) * hw | linear_combination (ρ 2) * hw - hv
            | linear_combination (-1 : ℝ) * hv - (ρ 2) * hw | linear_combination hv + (ρ 2) * hw | ring


/-! ### the search brackets contain the root for EVERY admissible mass parameter -/

/-- the float literals 0.01 and 0.001 as the code holds them -/
noncomputable def c01 : ℝ := 5764607523034235 / 576460752303423488
noncomputable def c001 : ℝ := 1152921504606847 / 1152921504606846976

/-- the traced `_position_search_interval`s (variables 0 = μ, 1 = h with h³ = μ/3, the Hill radius): both branches of the
`min(·, 0.5·h)`, their branch conditions and the cube relation -/
theorem brackets_traced (mu h : ℝ) :
    let ρ : ℕ → ℝ := fun k => if k = 0 then mu else h
    bracket1_small.map (eval ρ) = [-mu + c01, 1 - mu - 1 / 2 * h] ∧ bracket1_large.map (eval ρ) = [-mu + c01, 1 - mu - c01] ∧
    bracket2_small.map (eval ρ) = [1 - mu + 1 / 2 * h, 2] ∧ bracket2_large.map (eval ρ) = [1 - mu + c001, 2] ∧
    bracket3_small.map (eval ρ) = [-3 / 2, -mu - c001] ∧ bracket3_large = bracket3_small ∧
    eval ρ bracket1_small_cube = mu / 3 ∧ eval ρ bracket2_small_cube = mu / 3 ∧
    bracket1_small_path = [("lt", .mul (.const 1 2) (.var 1), .const 5764607523034235 576460752303423488, true)] ∧
    bracket1_large_path = [("lt", .mul (.const 1 2) (.var 1), .const 5764607523034235 576460752303423488, false)] ∧
    bracket2_small_path = [("lt", .mul (.const 1 2) (.var 1), .const 1152921504606847 1152921504606846976, true)] ∧
    bracket2_large_path = [("lt", .mul (.const 1 2) (.var 1), .const 1152921504606847 1152921504606846976, false)] ∧
    bracket3_small_path = [] := by
  intro ρ
  refine ⟨?_, ?_, ?_, ?_, ?_, rfl, ?_, ?_, by decide, by decide, by decide, by decide, rfl⟩ <;>
    simp [bracket1_small, bracket1_large, bracket2_small, bracket2_large, bracket3_small, bracket1_small_cube,
      bracket2_small_cube, eval, ρ, c01, c001] <;> (try constructor) <;> (try norm_num) <;> (try ring)

theorem q1_val (mu g : ℝ) : quinticVal quintic1 mu g = g ^ 5 - (3 - mu) * g ^ 4 + (3 - 2 * mu) * g ^ 3 - mu * g ^ 2 + 2 * mu * g - mu := by
  simp [quinticVal, quintic1, eval]; ring
theorem q2_val (mu g : ℝ) : quinticVal quintic2 mu g = g ^ 5 + (3 - mu) * g ^ 4 + (3 - 2 * mu) * g ^ 3 - mu * g ^ 2 - 2 * mu * g - mu := by
  simp [quinticVal, quintic2, eval]; ring
theorem q3_val (mu g : ℝ) : quinticVal quintic3 mu g =
    g ^ 5 + (2 + mu) * g ^ 4 + (1 + 2 * mu) * g ^ 3 - (1 - mu) * g ^ 2 - 2 * (1 - mu) * g - (1 - mu) := by
  simp [quinticVal, quintic3, eval]; ring

/-- **bracket_contains_root**: for EVERY mass parameter `0 < μ ≤ ½` (h the Hill radius, `h³ = μ/3`) each of the three traced
brackets lies strictly on the correct side of the primaries and `dΩ/dx` is negative at its left and positive at its right end —
whichever branch of the `min` is taken.  With `dOmega_strictly_mono` the root is unique, and a bracketing root finder returns it:
L1, L2, L3 are found for every admissible mass parameter. -/
theorem bracket_contains_root (mu h : ℝ) (hmu : 0 < mu) (hmu2 : mu ≤ 1 / 2) (hh : 0 < h) (hc : h ^ 3 = mu / 3) :
    let d1 := if 1 / 2 * h < c01 then 1 / 2 * h else c01
    let d2 := if 1 / 2 * h < c001 then 1 / 2 * h else c001
    (eval (axisVars (-mu + c01) mu) dOmega < 0 ∧ 0 < eval (axisVars (1 - mu - d1) mu) dOmega ∧ -mu < -mu + c01 ∧
      -mu + c01 < 1 - mu - d1 ∧ 1 - mu - d1 < 1 - mu) ∧
    (eval (axisVars (1 - mu + d2) mu) dOmega < 0 ∧ 0 < eval (axisVars 2 mu) dOmega ∧ 1 - mu < 1 - mu + d2 ∧ 1 - mu + d2 < 2) ∧
    (eval (axisVars (-3 / 2) mu) dOmega < 0 ∧ 0 < eval (axisVars (-mu - c001) mu) dOmega ∧ (-3 / 2 : ℝ) < -mu - c001 ∧
      -mu - c001 < -mu) := by
  intro d1 d2
  have hmu3 : mu = 3 * h ^ 3 := by linarith
  have h3 : 0 < h ^ 3 := by positivity
  have hc01 : (0 : ℝ) < c01 ∧ c01 < 1 / 99 := by unfold c01; constructor <;> norm_num
  have hc001 : (0 : ℝ) < c001 ∧ c001 < 1 / 999 := by unfold c001; constructor <;> norm_num
  -- sign transfer through the quintics
  have sL1 : ∀ g : ℝ, 0 < g → g < 1 →
      (quinticVal quintic1 mu g < 0 → 0 < eval (axisVars (1 - mu - g) mu) dOmega) ∧
      (0 < quinticVal quintic1 mu g → eval (axisVars (1 - mu - g) mu) dOmega < 0) := by
    intro g g0 g1
    have hP : 0 < g ^ 2 * (1 - g) ^ 2 := by have : 0 < 1 - g := by linarith
                                            positivity
    have e := quintic_iff_dOmega_L1 mu g g0 g1
    constructor
    · intro hq; by_contra hn; push_neg at hn
      nlinarith [mul_nonpos_of_nonpos_of_nonneg hn hP.le]
    · intro hq; by_contra hn; push_neg at hn
      nlinarith [mul_nonneg hn hP.le]
  have sL2 : ∀ g : ℝ, 0 < g →
      (quinticVal quintic2 mu g < 0 → eval (axisVars (1 - mu + g) mu) dOmega < 0) ∧
      (0 < quinticVal quintic2 mu g → 0 < eval (axisVars (1 - mu + g) mu) dOmega) := by
    intro g g0
    have hP : 0 < g ^ 2 * (1 + g) ^ 2 := by positivity
    have e := quintic_iff_dOmega_L2 mu g g0
    constructor
    · intro hq; by_contra hn; push_neg at hn
      nlinarith [mul_nonneg hn hP.le]
    · intro hq; by_contra hn; push_neg at hn
      nlinarith [mul_nonpos_of_nonpos_of_nonneg hn hP.le]
  have sL3 : ∀ g : ℝ, 0 < g →
      (quinticVal quintic3 mu g < 0 → 0 < eval (axisVars (-mu - g) mu) dOmega) ∧
      (0 < quinticVal quintic3 mu g → eval (axisVars (-mu - g) mu) dOmega < 0) := by
    intro g g0
    have hP : 0 < g ^ 2 * (1 + g) ^ 2 := by positivity
    have e := quintic_iff_dOmega_L3 mu g g0
    constructor
    · intro hq; by_contra hn; push_neg at hn
      nlinarith [mul_nonpos_of_nonpos_of_nonneg hn hP.le]
    · intro hq; by_contra hn; push_neg at hn
      nlinarith [mul_nonneg hn hP.le]
  have hd1 : 0 < d1 ∧ d1 ≤ c01 := by
    simp only [d1]; split
    · constructor <;> linarith
    · exact ⟨hc01.1, le_refl _⟩
  have hd2 : 0 < d2 ∧ d2 ≤ c001 := by
    simp only [d2]; split
    · constructor <;> linarith
    · exact ⟨hc001.1, le_refl _⟩
  refine ⟨⟨?_, ?_, by linarith [hc01.1], by linarith [hc01.2, hd1.2], by linarith [hd1.1]⟩,
          ⟨?_, ?_, by linarith [hd2.1], by linarith [hd2.2, hc001.2]⟩,
          ⟨?_, ?_, by linarith [hc001.2], by linarith [hc001.1]⟩⟩
  · -- L1 left end: γ = 1 - c01
    have := (sL1 (1 - c01) (by linarith [hc01.2]) (by linarith [hc01.1])).2
      (by rw [q1_val]; unfold c01; nlinarith)
    rwa [show 1 - mu - (1 - c01) = -mu + c01 by ring] at this
  · -- L1 right end
    refine (sL1 d1 hd1.1 (by linarith [hd1.2, hc01.2])).1 ?_
    simp only [d1]; split
    · rename_i hb
      rw [q1_val, hmu3]
      have hb' : h < 1 / 40 := by unfold c01 at hb; linarith
      nlinarith [mul_pos hh h3, mul_pos h3 h3, mul_pos (mul_pos hh hh) h3, sq_nonneg h]
    · rename_i hb
      push_neg at hb
      have hmin : 24 * c01 ^ 3 ≤ mu := by
        have : 2 * c01 ≤ h := by linarith
        have h8 : (2 * c01) ^ 3 ≤ h ^ 3 := pow_le_pow_left₀ (by linarith [hc01.1]) this 3
        nlinarith
      rw [q1_val]; unfold c01 at *; nlinarith
  · -- L2 left end
    refine (sL2 d2 hd2.1).1 ?_
    simp only [d2]; split
    · rename_i hb
      rw [q2_val, hmu3]
      have hb' : h < 1 / 400 := by unfold c001 at hb; linarith
      nlinarith [mul_pos hh h3, mul_pos h3 h3, mul_pos (mul_pos hh hh) h3, sq_nonneg h]
    · rename_i hb
      push_neg at hb
      have hmin : 24 * c001 ^ 3 ≤ mu := by
        have : 2 * c001 ≤ h := by linarith
        have h8 : (2 * c001) ^ 3 ≤ h ^ 3 := pow_le_pow_left₀ (by linarith [hc001.1]) this 3
        nlinarith
      rw [q2_val]; unfold c001 at *; nlinarith
  · -- L2 right end: x = 2, γ = 1 + μ
    have := (sL2 (1 + mu) (by linarith)).2 (by rw [q2_val]; nlinarith [mul_pos hmu hmu, mul_pos (mul_pos hmu hmu) hmu])
    rwa [show 1 - mu + (1 + mu) = 2 by ring] at this
  · -- L3 left end: x = -3/2, γ = 3/2 - μ
    have := (sL3 (3 / 2 - mu) (by linarith)).2
      (by rw [q3_val]; nlinarith [mul_pos hmu hmu, mul_pos (mul_pos hmu hmu) hmu, sq_nonneg (1 - 2 * mu)])
    rwa [show -mu - (3 / 2 - mu) = -3 / 2 by ring] at this
  · -- L3 right end: γ = c001
    exact (sL3 c001 hc001.1).1 (by rw [q3_val]; unfold c001; nlinarith)


/-! ### the catalogue -/

def ratOf (p : Int × Nat) : ℚ := (p.1 : ℚ) / (p.2 : ℚ)
/-- `dΩ/dx(x)·|x+μ|³·|x−1+μ|³` in exact rational arithmetic (same sign as `dΩ/dx` away from the primaries) -/
def dOmegaScaled (x mu : ℚ) : ℚ :=
  let r1 := |x + mu|
  let r2 := |x - (1 - mu)|
  x * r1 ^ 3 * r2 ^ 3 - (1 - mu) * (x + mu) * r2 ^ 3 - mu * (x - (1 - mu)) * r1 ^ 3
/-- a bracket is good when its end points lie on the correct side of the primaries and `dΩ/dx` changes sign between them -/
def bracketGood (mu : ℚ) (k : ℕ) (ab : (Int × Nat) × (Int × Nat)) : Bool :=
  let a := ratOf ab.1
  let b := ratOf ab.2
  decide (a < b) && decide (dOmegaScaled a mu * dOmegaScaled b mu < 0) &&
  (match k with
   | 0 => decide (-mu < a) && decide (b < 1 - mu)
   | 1 => decide (1 - mu < a)
   | _ => decide (b < -mu))
def pairGood (row : String × (Int × Nat) × List ((Int × Nat) × (Int × Nat))) : Bool :=
  let mu := ratOf row.2.1
  decide (0 < mu) && decide (mu ≤ 1 / 2) && row.2.2.length == 3 &&
  (List.zip (List.range 3) row.2.2).all fun p => bracketGood mu p.1 p.2

/-- **catalogue_in_domain**: for EVERY primary/secondary pair of the built-in catalogue the mass ratio is admissible and each of
the three live search brackets lies strictly between / beyond the primaries with a sign change of `dΩ/dx` — so (Brent being a
bracketing method, and `dΩ/dx` strictly increasing there) L1, L2, L3 are found. -/
theorem catalogue_in_domain : catalogue.all pairGood = true ∧ catalogue.length = 18 := by
  constructor
  · decide +kernel
  · rfl

/-! ### the triangular points L4 / L5 -/

section Triangular
open HitenModel.Lemmas.C04Tri

/-- position of the code's coordinate number (layout `x, y, p_x, p_y | z, p_z` of `_J_hess_H2`) in the ordering
`(x, y, z, p_x, p_y, p_z)` of `triS`, `triJ` -/
def triPerm : ℕ → ℕ
  | 0 => 0 | 1 => 1 | 2 => 3 | 3 => 4 | 4 => 2 | _ => 5

theorem triJ_row (p : ℕ) (hp : p < 6) (f : ℕ → ℝ) :
    ∑ k ∈ Finset.range 6, triJ p k * f k = if p < 3 then f (p + 3) else - f (p - 3) := by
  interval_cases p <;> simp [Finset.sum_range_succ, triJ]

/-- **tri_jhess_is_J_hess**: the traced `_J_hess_H2` of a triangular point is `J·Hess(H₂)` for
`H₂ = ½(p_x²+p_y²+p_z²) + y p_x − x p_y + ⅛x² − a x y − ⅝y² + ½z²` (`triS a` is its Hessian: `triS_is_hessian`), entry by entry, in
the code's layout (planar block first, vertical block last; `triPerm`). -/
theorem tri_jhess_is_J_hess (ρ : ℕ → ℝ) (i j : ℕ) (hi : i < 6) (hj : j < 6) :
    eval ρ (triJhess (6 * i + j)) = ∑ k ∈ Finset.range 6, triJ (triPerm i) k * triS (ρ 0) k (triPerm j) := by
  rw [triJ_row _ (by interval_cases i <;> simp [triPerm])]
  interval_cases i <;> interval_cases j <;> (simp [triJhess, eval, triS, triPerm]; try norm_num)

/-- the planar block of the traced triangular `_J_hess_H2` (ordering x, y, p_x, p_y) -/
noncomputable def triJp (ρ : ℕ → ℝ) : Matrix (Fin 4) (Fin 4) ℝ := fun i j => eval ρ (triJhess (6 * i.val + j.val))

theorem triJp_eq (ρ : ℕ → ℝ) : triJp ρ = !![0, 1, 1, 0; -1, 0, 0, 1; -(1 / 4), ρ 0, 0, 1; ρ 0, 5 / 4, -1, 0] := by
  ext i j; fin_cases i <;> fin_cases j <;> (simp [triJp, triJhess, eval]; try norm_num)

/-- the vertical block is `[[0, 1], [-1, 0]]`: eigenvalues `±i`, `ω_z = 1` -/
theorem tri_jhess_vertical_block (ρ : ℕ → ℝ) :
    eval ρ (triJhess 28) = 0 ∧ eval ρ (triJhess 29) = 1 ∧ eval ρ (triJhess 34) = -1 ∧ eval ρ (triJhess 35) = 0 := by
  refine ⟨?_, ?_, ?_, ?_⟩ <;> simp [triJhess, eval]

/-- **tri_characteristic_equation** (Cayley–Hamilton form): the planar block satisfies `M⁴ + M² + (27/16 − a²) = 0`; hence every
eigenvalue η of the linearised planar dynamics satisfies `η⁴ + η² + 27/16 − a² = 0`, i.e. `η = iω` with `ω⁴ − ω² + 27/16 − a² = 0`. -/
theorem tri_characteristic_equation (ρ : ℕ → ℝ) :
    (triJp ρ) ^ 4 + (triJp ρ) ^ 2 + (27 / 16 - ρ 0 ^ 2) • (1 : Matrix (Fin 4) (Fin 4) ℝ) = 0 := by
  rw [triJp_eq ρ]
  ext i j
  fin_cases i <;> fin_cases j <;>
    simp [pow_succ] <;> ring

/-- for `ω₁² ≠ ω₂²`: both are roots of `ω⁴ − ω² + 27/16 − a²` exactly when the two Vieta relations used below hold -/
theorem tri_vieta_iff (o1 o2 a : ℝ) (hne : o1 ^ 2 ≠ o2 ^ 2) :
    (o1 ^ 4 - o1 ^ 2 + 27 / 16 - a ^ 2 = 0 ∧ o2 ^ 4 - o2 ^ 2 + 27 / 16 - a ^ 2 = 0) ↔
      (o1 ^ 2 + o2 ^ 2 = 1 ∧ o1 ^ 2 * o2 ^ 2 = 27 / 16 - a ^ 2) := by
  constructor
  · rintro ⟨e1, e2⟩
    have hsum : o1 ^ 2 + o2 ^ 2 = 1 := by
      have hd : o1 ^ 2 - o2 ^ 2 ≠ 0 := sub_ne_zero.mpr hne
      have : (o1 ^ 2 - o2 ^ 2) * (o1 ^ 2 + o2 ^ 2 - 1) = 0 := by linear_combination e1 - e2
      rcases mul_eq_zero.mp this with h | h
      · exact absurd h hd
      · linarith
    refine ⟨hsum, ?_⟩
    linear_combination (o1 ^ 2) * hsum - e1
  · rintro ⟨h1, h2⟩
    constructor
    · linear_combination (o1 ^ 2) * h1 - h2
    · linear_combination (o2 ^ 2) * h1 - h2

/-- the same as an identity of polynomials in η (no distinctness needed) -/
theorem tri_vieta_iff_all_eta (o1 o2 a : ℝ) :
    (∀ η : ℝ, (η ^ 2 + o1 ^ 2) * (η ^ 2 + o2 ^ 2) = η ^ 4 + η ^ 2 + (27 / 16 - a ^ 2)) ↔
      (o1 ^ 2 + o2 ^ 2 = 1 ∧ o1 ^ 2 * o2 ^ 2 = 27 / 16 - a ^ 2) := by
  constructor
  · intro h
    have h0 := h 0
    have h1 := h 1
    constructor <;> nlinarith [h0, h1]
  · rintro ⟨h1, h2⟩ η
    linear_combination (η ^ 2) * h1 + h2

/-- the traced constant vertical scale factor -/
theorem triS3_val : triS3 = (1, 1) ∧ ((triS3.1 : ℝ) / (triS3.2 : ℝ)) = 1 := ⟨rfl, by simp [triS3]⟩

/-- entries of the traced triangular normal-form matrix, `triCent ρ k i = C[k][i]` (ordering x, y, z, p_x, p_y, p_z) -/
noncomputable def triCent (ρ : ℕ → ℝ) (k i : ℕ) : ℝ := eval ρ (triC (6 * k + i))

/-- the defining relations between the quantities `_build_normal_form` combines at a triangular point (variables 0 `a`, 1 `ω₁`,
2 `ω₂`, 3 `ω_z`, 4 `s₁`, 5 `s₂`, 6 `s₃`): `ω₁²`, `ω₂²` the two roots of `t² − t + 27/16 − a²`, `ω_z = 1`, `s₁²`, `s₂²` the traced
`d(ω₁)`, `d(ω₂)`, `s₃` the traced constant -/
structure TriNFHyp (ρ : ℕ → ℝ) : Prop where
  vieta1 : ρ 1 ^ 2 + ρ 2 ^ 2 = 1
  vieta2 : ρ 1 ^ 2 * ρ 2 ^ 2 = 27 / 16 - ρ 0 ^ 2
  wz : ρ 3 = 1
  s1 : ρ 4 ^ 2 = eval ρ triS1sq
  s2 : ρ 5 ^ 2 = eval ρ triS2sq
  s3 : ρ 6 = (triS3.1 : ℝ) / (triS3.2 : ℝ)
  s1_ne : ρ 4 ≠ 0
  s2_ne : ρ 5 ≠ 0

theorem triCtJC_factor (ρ : ℕ → ℝ) (i j : ℕ) (hi : i < 6) (hj : j < 6) :
    (∑ k ∈ Finset.range 6, ∑ l ∈ Finset.range 6, triCent ρ k i * triJ k l * triCent ρ l j) =
      triDcol (ρ 4) (ρ 5) (ρ 6) (Real.sqrt (ρ 3)) i * triDcol (ρ 4) (ρ 5) (ρ 6) (Real.sqrt (ρ 3)) j *
        triSympl (ρ 0) (ρ 1) (ρ 2) i j := by
  rw [sumJ_expand]
  simp only [triCent, triSympl]
  rw [triC_factor ρ 0 i (by norm_num) hi, triC_factor ρ 3 j (by norm_num) hj, triC_factor ρ 3 i (by norm_num) hi,
    triC_factor ρ 0 j (by norm_num) hj, triC_factor ρ 1 i (by norm_num) hi, triC_factor ρ 4 j (by norm_num) hj,
    triC_factor ρ 4 i (by norm_num) hi, triC_factor ρ 1 j (by norm_num) hj, triC_factor ρ 2 i (by norm_num) hi,
    triC_factor ρ 5 j (by norm_num) hj, triC_factor ρ 5 i (by norm_num) hi, triC_factor ρ 2 j (by norm_num) hj]
  ring

theorem triCtSC_factor (ρ : ℕ → ℝ) (i j : ℕ) (hi : i < 6) (hj : j < 6) :
    (∑ k ∈ Finset.range 6, ∑ l ∈ Finset.range 6, triCent ρ k i * triS (ρ 0) k l * triCent ρ l j) =
      triDcol (ρ 4) (ρ 5) (ρ 6) (Real.sqrt (ρ 3)) i * triDcol (ρ 4) (ρ 5) (ρ 6) (Real.sqrt (ρ 3)) j *
        triQuad (ρ 0) (ρ 1) (ρ 2) i j := by
  rw [sumS_expand]
  simp only [triCent, triQuad]
  rw [triC_factor ρ 0 i (by norm_num) hi, triC_factor ρ 3 j (by norm_num) hj, triC_factor ρ 3 i (by norm_num) hi,
    triC_factor ρ 0 j (by norm_num) hj, triC_factor ρ 1 i (by norm_num) hi, triC_factor ρ 4 j (by norm_num) hj,
    triC_factor ρ 4 i (by norm_num) hi, triC_factor ρ 1 j (by norm_num) hj, triC_factor ρ 2 i (by norm_num) hi,
    triC_factor ρ 5 j (by norm_num) hj, triC_factor ρ 5 i (by norm_num) hi, triC_factor ρ 2 j (by norm_num) hj]
  ring

/-- **tri_normal_form_symplectic_and_diagonalising**: for the traced `_build_normal_form` matrix `C` of a triangular point (ordering
x, y, z, p_x, p_y, p_z), under the defining relations `TriNFHyp`: `CᵀJC = J` and `CᵀSC = T`, all 36 + 36 entries, where
`S = Hess(H₂)` (`triS`, `triS_is_hessian`) and `T = diag(ω₁, ω₂, 1, ω₁, ω₂, 1)` is the Hessian of
`ω₁/2(q₁²+p₁²) + ω₂/2(q₂²+p₂²) + ½(q₃²+p₃²)`. -/
theorem tri_normal_form_symplectic_and_diagonalising (ρ : ℕ → ℝ) (h : TriNFHyp ρ) (i j : ℕ) (hi : i < 6) (hj : j < 6) :
    (∑ k ∈ Finset.range 6, ∑ l ∈ Finset.range 6, triCent ρ k i * triJ k l * triCent ρ l j) = triJ i j ∧
    (∑ k ∈ Finset.range 6, ∑ l ∈ Finset.range 6, triCent ρ k i * triS (ρ 0) k l * triCent ρ l j) =
      triT (ρ 1) (ρ 2) i j := by
  have hw : Real.sqrt (ρ 3) = 1 := by rw [h.wz, Real.sqrt_one]
  have hs3 : ρ 6 = 1 := by rw [h.s3, triS3_val.2]
  have hs1 := h.s1
  have hs2 := h.s2
  rw [(tri_scale_factors ρ).1] at hs1
  rw [(tri_scale_factors ρ).2] at hs2
  have h41 := h.s1_ne
  have h51 := h.s2_ne
  have key := triChat_symplectic_and_diagonalising _ _ _ h.vieta1 h.vieta2 i j hi hj
  constructor
  · rw [triCtJC_factor ρ i j hi hj, key.1, hw, hs3]
    interval_cases i <;> interval_cases j <;> simp only [triDcol, triSymplTarget, triJ, mul_zero] <;> field_simp <;>
      first | linear_combination hs1 | linear_combination hs2 | linear_combination (-1 : ℝ) * hs1
            | linear_combination (-1 : ℝ) * hs2
  · rw [triCtSC_factor ρ i j hi hj, key.2, hw, hs3]
    interval_cases i <;> interval_cases j <;> simp only [triDcol, triQuadTarget, triT, mul_zero] <;> field_simp <;>
      first | linear_combination (ρ 1) * hs1 | linear_combination (ρ 2) * hs2 | linear_combination (-(ρ 1)) * hs1
            | linear_combination (-(ρ 2)) * hs2

/-- non-vacuity: `TriNFHyp` is satisfiable — `ω₁ = √3/2`, `ω₂ = −1/2` (so `ω₁²ω₂² = 3/16`, `a = −√(3/2)`), `s₂ = ½`, `s₁ = √d(ω₁)`
with `d(ω₁) = (3/8)√3 > 0` -/
theorem triNFHyp_satisfiable : ∃ ρ : ℕ → ℝ, TriNFHyp ρ := by
  have hr : Real.sqrt 3 ^ 2 = 3 := Real.sq_sqrt (by norm_num)
  have ha : Real.sqrt (3 / 2) ^ 2 = 3 / 2 := Real.sq_sqrt (by norm_num)
  have hd : triD (Real.sqrt 3 / 2) = 3 / 8 * Real.sqrt 3 := by
    simp only [triD]
    linear_combination (Real.sqrt 3 / 16 * (Real.sqrt 3 ^ 2 + 4)) * hr
  have hdpos : 0 < triD (Real.sqrt 3 / 2) := by
    rw [hd]; exact mul_pos (by norm_num) (Real.sqrt_pos.mpr (by norm_num))
  refine ⟨fun k => match k with
    | 0 => -Real.sqrt (3 / 2) | 1 => Real.sqrt 3 / 2 | 2 => -(1 / 2) | 3 => 1
    | 4 => Real.sqrt (triD (Real.sqrt 3 / 2)) | 5 => 1 / 2 | 6 => 1 | _ => 0, ?_⟩
  constructor
  · show (Real.sqrt 3 / 2) ^ 2 + (-(1 / 2 : ℝ)) ^ 2 = 1
    linear_combination (1 / 4 : ℝ) * hr
  · show (Real.sqrt 3 / 2) ^ 2 * (-(1 / 2 : ℝ)) ^ 2 = 27 / 16 - (-Real.sqrt (3 / 2)) ^ 2
    linear_combination (1 / 16 : ℝ) * hr + ha
  · rfl
  · rw [(tri_scale_factors _).1]
    show Real.sqrt (triD (Real.sqrt 3 / 2)) ^ 2 = triD (Real.sqrt 3 / 2)
    exact Real.sq_sqrt hdpos.le
  · rw [(tri_scale_factors _).2]
    show (1 / 2 : ℝ) ^ 2 = triD (-(1 / 2))
    simp only [triD]; norm_num
  · show (1 : ℝ) = _
    exact triS3_val.2.symm
  · show Real.sqrt (triD (Real.sqrt 3 / 2)) ≠ 0
    exact (Real.sqrt_pos.mpr hdpos).ne'
  · show (1 / 2 : ℝ) ≠ 0
    norm_num

/-- **a4_a5_relation**: the traced offsets of L4 and L5 are `a = ±c·(1 − 2μ)` with one float constant `c`, `c² = 27/16` up to
`2⁻⁴⁴` (`c` is `3√3/4` as the code holds it) — so `a² = 27/16·(1 − 2μ)²` up to float rounding, and `a₅ = −a₄` exactly. -/
theorem a4_a5_relation (ρ : ℕ → ℝ) :
    let c : ℝ := 45705840067699 / 35184372088832
    eval ρ a4 = c * (1 - 2 * ρ 0) ∧ eval ρ a5 = -eval ρ a4 ∧ |c ^ 2 - 27 / 16| ≤ 1 / 2 ^ 44 ∧ sign4 = 1 ∧ sign5 = -1 := by
  intro c
  refine ⟨by simp [a4, eval, c], by simp [a4, a5, eval]; ring, ?_, rfl, rfl⟩
  rw [abs_le]
  constructor <;> norm_num [c]

end Triangular

end HitenModel.Props.C04
