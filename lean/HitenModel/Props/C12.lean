/-
  Props/C12.lean — property C12: invariant-manifold seeds lie on the true stable/unstable Floquet directions.
  `Gen.C12` is regenerated on every run from `types/services/manifold.py` / `linalg/backend.py`:
  the branch table, the arguments handed to `_compute_stm` and `_propagate_dynsys` (recorders), the traced formula of
  `_compute_manifold_section` (variables: 0..35 Φ(τ) row-major, 36..41 orbit point x(τ), 42..47 eigenvector v,
  48 displacement, 49 direction sign) and probes of the discrete eigenvalue classifier.
  That the matrix handed over IS the state-transition matrix of the forward flow is property C03.
-/
import HitenModel.Gen.C12
import HitenModel.Lemmas.REReal
import HitenModel.Lemmas.Symplectic
import Mathlib.Tactic.FieldSimp
import Mathlib.Tactic.Ring
import Mathlib.Tactic.IntervalCases
import Mathlib.Tactic.Linarith

namespace HitenModel.Props.C12
open HitenModel RE Gen.C12

/-! ### which matrix, which direction -/

/-- stable manifolds are integrated backward (`forward = −1`), unstable ones forward; the requested side is the sign of
the displacement -/
theorem branch_table :
    branchTable = [(true, true, 1, -1, 1), (true, false, 1, -1, -1), (false, true, -1, 1, 1), (false, false, -1, 1, -1)] := by
  decide

/-- **branch_uses_true_stm**: for the stable AND the unstable branch the eigen-analysis and the transport use the STM of
the forward flow over one period started at the orbit's initial state (`forward = 1`, other arguments passed unchanged) —
by C03 that matrix is `∂φ_t/∂x₀`, so `floquet_transport` applies with `M = Φ(T)`, `Φ_τ = Φ(τ)`. -/
theorem branch_uses_true_stm : stmForward = [(true, 1, true), (false, 1, true)] := by decide

/-- **stable_backward_unstable_forward**: the branch trajectories are propagated with the 6-D CR3BP system from `t0 = 0`,
direction −1 for stable and +1 for unstable branches, all six components of the field reversed (`slice(0,6)`). -/
theorem stable_backward_unstable_forward :
    branchPropagation = [(true, [-1], ["slice(0, 6, None)"], true, true), (false, [1], ["slice(0, 6, None)"], true, true)] := by
  decide

/-! ### the seed -/

/-- component `i` of `Φ(τ) v` in the variables of the trace -/
def transported (ρ : ℕ → ℝ) (i : ℕ) : ℝ :=
  ρ (6 * i + 0) * ρ 42 + ρ (6 * i + 1) * ρ 43 + ρ (6 * i + 2) * ρ 44 + ρ (6 * i + 3) * ρ 45 + ρ (6 * i + 4) * ρ 46 +
    ρ (6 * i + 5) * ρ 47

theorem seedSqrtArgs_complete : seedSqrtArgs = [nq0] := rfl

/-- the normalisation is the position norm of the (signed) transported vector -/
theorem nq0_is_position_norm_sq (ρ : ℕ → ℝ) :
    eval ρ nq0 = (ρ 49 * transported ρ 0) ^ 2 + (ρ 49 * transported ρ 1) ^ 2 + (ρ 49 * transported ρ 2) ^ 2 := by
  simp only [nq0, eval, transported]

/-- **seed_displacement**: on the generic path (position norm of the transported vector not below 1e-14, no clean-up of tiny
z, vz) every seed component is the orbit sample plus `displacement / ‖(dir·Φ(τ)v)₁..₃‖ · dir · (Φ(τ)v)ᵢ`: the seed is displaced
from the orbit point along the transported eigenvector, on the side given by `dir`. -/
theorem seed_displacement (ρ : ℕ → ℝ) (h : 0 < eval ρ nq0) (i : ℕ) (hi : i < 6) :
    eval ρ (seed i) = ρ (36 + i) + ρ 48 / Real.sqrt (eval ρ nq0) * (ρ 49 * transported ρ i) := by
  have hr : Real.sqrt (eval ρ nq0) ≠ 0 := (Real.sqrt_pos.mpr h).ne'
  interval_cases i <;> simp only [seed, eval, transported, Nat.reduceMul, Nat.reduceAdd] <;>
    try (generalize Real.sqrt (eval ρ nq0) = r at *
         field_simp
         try ring)

/-- **seed_distance**: the position part of the displacement has exactly the configured length -/
theorem seed_distance (ρ : ℕ → ℝ) (h : 0 < eval ρ nq0) :
    (eval ρ (seed 0) - ρ 36) ^ 2 + (eval ρ (seed 1) - ρ 37) ^ 2 + (eval ρ (seed 2) - ρ 38) ^ 2 = ρ 48 ^ 2 := by
  have hs : Real.sqrt (eval ρ nq0) ^ 2 = eval ρ nq0 := Real.sq_sqrt h.le
  have hr : Real.sqrt (eval ρ nq0) ≠ 0 := (Real.sqrt_pos.mpr h).ne'
  rw [seed_displacement ρ h 0 (by norm_num), seed_displacement ρ h 1 (by norm_num), seed_displacement ρ h 2 (by norm_num)]
  have e := nq0_is_position_norm_sq ρ
  have key : (ρ 48 / Real.sqrt (eval ρ nq0)) ^ 2 * eval ρ nq0 = ρ 48 ^ 2 := by
    rw [div_pow, hs]; field_simp
  calc (ρ (36 + 0) + ρ 48 / Real.sqrt (eval ρ nq0) * (ρ 49 * transported ρ 0) - ρ 36) ^ 2 +
        (ρ (36 + 1) + ρ 48 / Real.sqrt (eval ρ nq0) * (ρ 49 * transported ρ 1) - ρ 37) ^ 2 +
        (ρ (36 + 2) + ρ 48 / Real.sqrt (eval ρ nq0) * (ρ 49 * transported ρ 2) - ρ 38) ^ 2
      = (ρ 48 / Real.sqrt (eval ρ nq0)) ^ 2 *
          ((ρ 49 * transported ρ 0) ^ 2 + (ρ 49 * transported ρ 1) ^ 2 + (ρ 49 * transported ρ 2) ^ 2) := by
        simp only [Nat.add_zero, Nat.reduceAdd]; ring
    _ = (ρ 48 / Real.sqrt (eval ρ nq0)) ^ 2 * eval ρ nq0 := by rw [e]
    _ = ρ 48 ^ 2 := key

/-- **seed_side**: reversing the requested direction mirrors the seed through the orbit point -/
theorem seed_side (ρ ρ' : ℕ → ℝ) (h : 0 < eval ρ nq0) (hρ : ∀ k, k ≠ 49 → ρ' k = ρ k) (hd : ρ' 49 = - ρ 49)
    (i : ℕ) (hi : i < 6) :
    eval ρ' (seed i) - ρ' (36 + i) = -(eval ρ (seed i) - ρ (36 + i)) := by
  have hn : eval ρ' nq0 = eval ρ nq0 := by
    rw [nq0_is_position_norm_sq, nq0_is_position_norm_sq, hd]
    simp only [transported]
    repeat rw [hρ _ (by omega)]
    ring
  have h' : 0 < eval ρ' nq0 := hn ▸ h
  rw [seed_displacement ρ' h' i hi, seed_displacement ρ h i hi, hn, hd]
  have ht : transported ρ' i = transported ρ i := by
    simp only [transported]
    repeat rw [hρ _ (by omega)]
  rw [ht, hρ 48 (by omega)]
  ring

/-- **floquet_transport** (restated for 6×6): the transported eigenvector is an eigenvector, with the same multiplier, of
the monodromy matrix based at the later orbit point, `Φ_τ M Φ_τ⁻¹` — i.e. the true Floquet direction there; inside the unit
circle for the stable, outside for the unstable branch. -/
theorem seed_direction_is_floquet (M Φτ Φinv : Matrix (Fin 6) (Fin 6) ℝ) (v : Fin 6 → ℝ) (lam : ℝ)
    (hv : M.mulVec v = lam • v) (hinv : Φinv * Φτ = 1) :
    (Φτ * M * Φinv).mulVec (Φτ.mulVec v) = lam • Φτ.mulVec v :=
  floquet_transport M Φτ Φinv v lam hv hinv

/-! ### eigenvalue classification (discrete time) -/

/-- the classification rule of `_classify_eigenvalue` for monodromy matrices -/
def classify (mag δ : ℚ) : String := if mag < 1 - δ then "stable" else if mag > 1 + δ then "unstable" else "center"

/-- the live classifier agrees with the rule on every probed magnitude (both signs), including the band edges -/
theorem classifier_matches_rule :
    classifierProbe.all (fun (n, d, _, c) => c == classify ((n : ℚ) / (d : ℚ)) ((classifierDelta.1 : ℚ) / (classifierDelta.2 : ℚ))) = true := by
  decide +kernel

/-- classified stable ⇒ multiplier inside the unit circle, unstable ⇒ outside (for any non-negative band) -/
theorem classify_sound (mag δ : ℚ) (hδ : 0 ≤ δ) :
    (classify mag δ = "stable" → mag < 1) ∧ (classify mag δ = "unstable" → 1 < mag) := by
  unfold classify
  constructor
  · intro h
    split at h
    · linarith
    · split at h <;> simp at h
  · intro h
    split at h
    · simp at h
    · split at h
      · linarith
      · simp at h

/-- non-vacuity of `seed_displacement`: identity STM, eigenvector e₁, displacement 1/1000 -/
example : let ρ : ℕ → ℝ := fun k => if k % 7 = 0 ∧ k < 36 then 1 else if k = 42 then 1 else if k = 48 then 1/1000 else if k = 49 then 1 else 0
    0 < eval ρ nq0 := by
  intro ρ
  rw [nq0_is_position_norm_sq]
  simp [ρ, transported]

end HitenModel.Props.C12
