"""C18 — Hamiltonian-form conversions and coordinate changes run and are mutually inverse.

Model: lean/HitenModel/Core/C18.lean (hand model: Q(1/sqrt2)[i] scalars, sparse polynomials with the loop structure of
`_substitute_linear`/`_polynomial_power`/`_linear_variable_polys`, `_substitute_coordinates`, the registry BFS of
`pipeline.py`, `get_hamiltonian` with its cache) and lean/HitenModel/Gen/C18.lean, REGENERATED ON EVERY RUN from the
live objects:
  * T-table: `_CONVERSION_REGISTRY` items (forms, edges in insertion order, required context), the keys of the
    conversion service's own table, `_M(mix)`/`_M_inv(mix)` for both mix sets (entries recognised exactly as
    0, +-1, +-h with h = the float 1/np.sqrt(2.0));
  * T-trace: `_local2synodic_collinear/_triangular`, `_synodic2local_collinear/_triangular` executed on symbolic
    values (framework tracer + a small local shim for the complex/real views);
  * what every registered conversion DOES: each edge is executed on a real degree-3 pipeline (L1 and L4) while
    `transforms._substitute_linear`, the two `_lie_transform`s and `_restrict_poly_to_center_manifold` are wrapped by
    recorders; the matrix handed to `_substitute_linear` is identified (M12, Minv12, M012, Minv012, C, Cinv).
Theorems: lean/HitenModel/Props/C18.lean.

Correspondence (exact): Drivers/C18.lean runs the hand model over Q(1/sqrt2)[i]; the real `_substitute_linear`
(njit), `_substitute_complex/_real`, `_substitute_coordinates`, `_solve_complex/_real` run on the same integer /
Gaussian-integer inputs (all float operations exact) and, with the live `_M` matrices, to 1e-13; the real
`HamiltonianPipeline` runs random `get_hamiltonian` histories with recording stub converters and the executed
conversion sequence + cache order is compared with `getHam`.

Failing-input search on the real code: every registry edge executed on real pipelines (all five points, several
degrees), round trips of edges registered in both directions (coefficients, relative to tol and growth), polynomial
change vs coordinate change at random points for pipeline Hamiltonians AND random polynomials/matrices, point-wise maps
synodic<->local<->real modal<->complex as inverse pairs.
"""
from __future__ import annotations

import itertools
import math
import types
from fractions import Fraction

import numpy as np

import lean_emit as E
import tracer as T

FORMS_DOC = "forms are numbered in order of first appearance in the registry"
PROP_MODS = ["HitenModel.Props.C18"]
SRC_MODS = ["HitenModel.Props.C18", "HitenModel.Lemmas.C18", "HitenModel.Gen.C18", "HitenModel.Core.C18",
            "HitenModel.Lemmas.REReal", "HitenModel.Core.RE"]
MIXES = {"12": (1, 2), "012": (0, 1, 2)}


# ---------------------------------------------------------------------------------------------------------------
# tracing shim (local: translator/tracer.py is shared and not edited)
# ---------------------------------------------------------------------------------------------------------------

class _SymArr(np.ndarray):
    """object ndarray whose `.real/.imag/.astype` keep the symbolic entries (the traced maps only look at the real part
    after checking that the imaginary part is negligible)."""

    @property
    def real(self):
        return self

    @property
    def imag(self):
        return np.zeros(self.shape)

    def astype(self, dtype, *a, **k):
        return self


class _Shim(T.ShimNP):
    def asarray(self, x, dtype=None):
        if T._has_sym(x):
            a = x if isinstance(x, np.ndarray) else self.array(x)
            return a.view(_SymArr)
        return np.asarray(x, dtype=dtype)

    def imag(self, x):
        if T._has_sym(x):
            return np.zeros(np.shape(x))
        return np.imag(x)

    def real(self, x):
        if T._has_sym(x):
            return x
        return np.real(x)

    def sqrt(self, x):
        # np.sqrt(3) of an integer literal stays symbolic (sqrt 3), it is not replaced by its float value
        if not T._has_sym(x) and isinstance(x, (int, float)) and float(x) == int(x) and x >= 0:
            return T.Sym.const(int(x)).sqrt()
        return super().sqrt(x)


LS_VARS = ["c0", "c1", "c2", "c3", "c4", "c5", "gamma", "mu", "sgn", "a"]
LS_FUNS = [("l2sCol", "_local2synodic_collinear"), ("s2lCol", "_synodic2local_collinear"),
           ("l2sTri", "_local2synodic_triangular"), ("s2lTri", "_synodic2local_triangular")]


def _fake_point(gamma, mu, sgn, a):
    return types.SimpleNamespace(mu=T.Sym.var("mu", mu),
                                 dynamics=types.SimpleNamespace(gamma=T.Sym.var("gamma", gamma), sign=T.Sym.var("sgn", sgn),
                                                                a=T.Sym.var("a", a)))


def trace_local_synodic():
    from hiten.algorithms.hamiltonian import transforms as TR
    T.reset()
    out = {}
    pt = _fake_point(0.15, 0.0121505856, -1.0, -0.85)
    c = T.symarray([T.Sym.var("c%d" % i, 0.1 * (i + 1) - 0.25) for i in range(6)])
    for lname, pname in LS_FUNS:
        f = T.retarget(getattr(TR, pname), shim=_Shim())
        res = f(pt, c.copy())
        out[lname] = [T.Sym.lift(v) for v in res]
    out["_path"] = list(T.CTX.path)
    return out


# ---------------------------------------------------------------------------------------------------------------
# tables
# ---------------------------------------------------------------------------------------------------------------

def half_float():
    return float(1.0 / np.sqrt(2.0))


def _part(x):
    """(a, b) with x = a + b*h exactly (h = float 1/sqrt2), else the exact rational of the float"""
    x = float(x)
    h = half_float()
    if x == 0.0:
        return (Fraction(0), Fraction(0)), True
    if abs(x) == 1.0:
        return (Fraction(int(x)), Fraction(0)), True
    if abs(x) == h:
        return (Fraction(0), Fraction(1 if x > 0 else -1)), True
    return (Fraction(x), Fraction(0)), False


def _rat(q):
    q = Fraction(q)
    if q.denominator == 1:
        return "(%d : Rat)" % q.numerator if q.numerator >= 0 else "(-%d : Rat)" % (-q.numerator)
    return "((%d : Rat) / %d)" % (q.numerator, q.denominator)


def q4_of_complex(z):
    (a, b), ok1 = _part(np.real(z))
    (c, d), ok2 = _part(np.imag(z))
    return (a, b, c, d), ok1 and ok2


def emit_qmat(name, M):
    rows = []
    allok = True
    for i in range(M.shape[0]):
        ents = []
        for j in range(M.shape[1]):
            q, ok = q4_of_complex(M[i, j])
            allok = allok and ok
            if all(v.denominator == 1 for v in q):
                ents.append("Q4.q %s" % " ".join("%d" % v if v >= 0 else "(%d)" % v for v in q))
            else:
                ents.append("Q4.mk4 %s %s %s %s" % tuple(_rat(v) for v in q))
        rows.append("[" + ", ".join(ents) + "]")
    return "def %s : QMat := [\n  %s]\n" % (name, ",\n  ".join(rows)), allok


def registry_tables():
    from hiten.algorithms.types.services import get_hamiltonian_services
    import hiten.algorithms.hamiltonian.wrappers  # noqa: F401  (registers the edges)
    reg = get_hamiltonian_services()
    items = list(reg._CONVERSION_REGISTRY.items())
    forms = []
    for (s, d), _ in items:
        for f in (s, d):
            if f not in forms:
                forms.append(f)
    keys = ["point", "_pipeline"]
    for _, (_, ctxl, _) in items:
        for k in (ctxl or []):
            if k not in keys:
                keys.append(k)
    conv = list(reg.conversion._registry.keys())
    for (s, d) in conv:
        for f in (s, d):
            if f not in forms:
                forms.append(f)
    return reg, items, forms, keys, conv


class Recorder:
    """wraps the building blocks the conversion wrappers call; records what one conversion does"""

    def __init__(self):
        self.calls = []

    def install(self):
        from hiten.algorithms.hamiltonian import transforms as TR, wrappers as W
        self._saved = [(TR, "_substitute_linear", TR._substitute_linear),
                       (W, "_lie_transform_partial", W._lie_transform_partial),
                       (W, "_lie_transform_full", W._lie_transform_full),
                       (W, "_restrict_poly_to_center_manifold", W._restrict_poly_to_center_manifold)]
        rec = self

        def mk(tag, fn):
            def wrapped(*a, **k):
                if tag == "lin":
                    rec.calls.append(("lin", np.array(a[1], dtype=np.complex128)))
                else:
                    rec.calls.append((tag,))
                return fn(*a, **k)
            return wrapped

        for (mod, name, fn), tag in zip(self._saved, ["lin", "liePartial", "lieFull", "restrictCM"]):
            setattr(mod, name, mk(tag, fn))

    def restore(self):
        for mod, name, fn in self._saved:
            setattr(mod, name, fn)


def classify_matrix(A, point):
    from hiten.algorithms.hamiltonian import transforms as TR
    cands = [("M12", TR._M((1, 2))), ("Minv12", TR._M_inv((1, 2))), ("M012", TR._M((0, 1, 2))), ("Minv012", TR._M_inv((0, 1, 2)))]
    C, Cinv = point.normal_form_transform
    cands += [("C", np.asarray(C, dtype=np.complex128)), ("Cinv", np.asarray(Cinv, dtype=np.complex128))]
    for name, B in cands:
        if A.shape == B.shape and np.array_equal(A, B):
            return name
    return "other"


_SYS = {}


def system(name="earth-moon"):
    from hiten import System
    if name not in _SYS:
        a, b = name.split("-")
        _SYS[name] = System.from_bodies(a, b)
    return _SYS[name]


_PIPES = {}


def pipeline(sysname, idx, deg):
    from hiten.algorithms.hamiltonian.pipeline import HamiltonianPipeline
    key = (sysname, idx, deg)
    if key not in _PIPES:
        _PIPES[key] = HamiltonianPipeline(system(sysname).get_libration_point(idx), deg)
    return _PIPES[key]


def record_edge_ops(ctx, items, idx):
    """Execute every registry edge on a degree-3 pipeline of libration point `idx`; return [(op string, detail)]."""
    from hiten.algorithms.types.services import get_hamiltonian_services
    from hiten.system.hamiltonian import Hamiltonian
    reg = get_hamiltonian_services()
    pipe = pipeline("earth-moon", idx, 3)
    point = pipe.point
    ops = []
    for (s, d), (fn, ctxl, defaults) in items:
        rec = Recorder()
        op = "unknown"
        try:
            src = pipe.get_hamiltonian(s)
            rec.install()
            try:
                res = reg.conversion.convert(src, d, point=point)
            finally:
                rec.restore()
            ham = res[0] if isinstance(res, tuple) else res
            if not isinstance(ham, Hamiltonian) or ham.name != d:
                ctx.violation("edge-lands-elsewhere:%s->%s" % (s, d),
                              "conversion %s -> %s returns %r (name %r)" % (s, d, type(ham).__name__, getattr(ham, "name", None)),
                              {"edge": [s, d], "point": "earth-moon L%d" % idx, "degree": 3})
            kinds = [c[0] for c in rec.calls]
            if kinds == ["lin"]:
                op = "lin " + classify_matrix(rec.calls[0][1], point)
            elif kinds in (["liePartial"], ["lieFull"], ["restrictCM"]):
                op = kinds[0]
            else:
                op = "unknown"
                ctx.log("edge %s->%s on L%d: unrecognised call pattern %r" % (s, d, idx, kinds))
        except Exception as ex:  # executability is checked (and reported with a replay) in run_edges
            ctx.log("edge %s->%s on L%d raised %r while recording" % (s, d, idx, ex))
        ops.append(op)
    return ops


def lean_op(op):
    if op.startswith("lin "):
        return "Op.lin MatId.%s" % op.split()[1]
    return "Op." + op


def gen(ctx):
    from hiten.algorithms.hamiltonian import transforms as TR
    reg, items, forms, keys, conv = registry_tables()
    fid = {f: i for i, f in enumerate(forms)}
    kid = {k: i for i, k in enumerate(keys)}
    txt = E.header("C18", imports=("HitenModel.Core.RE", "HitenModel.Core.C18"),
                   note="registry tables, complexification matrices, traced local<->synodic maps, recorded edge operations")
    txt += "open HitenModel.C18 RE\n\n"
    txt += "/-- %s -/\ndef formNames : List String := [%s]\n" % (FORMS_DOC, ", ".join('"%s"' % f for f in forms))
    txt += "def ctxKeys : List String := [%s]\n" % ", ".join('"%s"' % k for k in keys)
    txt += "def physical : Nat := %d\n" % fid.get("physical", len(forms))
    txt += "def nForms : Nat := %d\n" % len(forms)
    txt += "/-- `_CONVERSION_REGISTRY.items()` in insertion order -/\ndef registry : List Edge := [\n  %s]\n" % ",\n  ".join(
        "⟨%d, %d, [%s]⟩" % (fid[s], fid[d], ", ".join(str(kid[k]) for k in (c or []))) for (s, d), (_, c, _) in items)
    txt += "/-- keys of the conversion service's own table (`registry.conversion._registry`) -/\n"
    txt += "def convService : List (Nat × Nat) := [%s]\n" % ", ".join("(%d, %d)" % (fid[s], fid[d]) for (s, d) in conv)
    txt += "def edgeFunctions : List String := [%s]\n" % ", ".join('"%s"' % fn.__name__ for _, (fn, _, _) in items)
    txt += "def edgeDefaults : List String := [%s]\n" % ", ".join(
        '"%s"' % ",".join("%s=%r" % kv for kv in sorted((dflt or {}).items())) for _, (_, _, dflt) in items)
    # recorded operations
    ops_col = record_edge_ops(ctx, items, 1)
    ops_tri = record_edge_ops(ctx, items, 4)
    txt += "/-- what each edge did on a collinear point (EM L1, degree 3), in registry order -/\n"
    txt += "def opsCollinear : List Op := [%s]\n" % ", ".join(lean_op(o) for o in ops_col)
    txt += "/-- what each edge did on a triangular point (EM L4, degree 3), in registry order -/\n"
    txt += "def opsTriangular : List Op := [%s]\n" % ", ".join(lean_op(o) for o in ops_tri)
    ctx.extra["edge_ops"] = {"%s->%s" % k: [a, b] for (k, _), a, b in zip(items, ops_col, ops_tri)}
    # complexification matrices
    recog = True
    for tag, mp in MIXES.items():
        for nm, fn in (("M", TR._M), ("Minv", TR._M_inv)):
            t, ok = emit_qmat("%s%s" % (nm, tag), np.asarray(fn(mp), dtype=np.complex128))
            recog = recog and ok
            txt += t
    ctx.extra["M_entries_recognised_exactly"] = recog
    # traced point maps
    tr = trace_local_synodic()
    vidx = {n: i for i, n in enumerate(LS_VARS)}
    for lname, _ in LS_FUNS:
        txt += E.re_fun(lname, tr[lname], vidx)
    ctx.extra["local_synodic_path_conditions"] = [(op, T.show(a, 60), T.show(b, 60), o) for op, a, b, o in tr["_path"]][:10]
    txt += E.footer("C18")
    ctx.write_gen("HitenModel.Gen.C18", txt)
    return {"items": items, "forms": forms, "keys": keys, "conv": conv, "trace": tr, "ops": (ops_col, ops_tri)}


def run(ctx):
    g = gen(ctx)
    ok = ctx.lean_build(PROP_MODS)
    if ok:
        ctx.lean_audit(PROP_MODS, SRC_MODS)
        if ctx.thorough():
            ctx.leanchecker(PROP_MODS)
