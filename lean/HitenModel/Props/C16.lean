/-
  Props/C16.lean — property C16: the extended-phase-space (Tao) symplectic integrator.
  `Gen.C16` is traced from the current `integrators/symplectic.py` on every run:
    * `phiA_*`, `phiB_*`  : which gradient is evaluated at which blocks and which block it updates with which sign;
    * `rot`               : the per-degree-of-freedom 4×4 matrix of `_phi_omega_H_c_update_poly` (entries k0+kc·c+ks·s, doubled);
    * `word2..8`, `jump4..8` : the composition word of `_recursive_update_poly` with the float64 fractions it computes;
    * `tao2..8`           : `_get_tao_omega` as a real expression in (delta, c).
  Background theorem (Yoshida/Suzuki): a symmetric scheme of order p−2 composed with fractions (γ, 1−2γ, γ) satisfying
  2γ^(p−1) + (1−2γ)^(p−1) = 0 has order p.
-/
import HitenModel.Gen.C16
import HitenModel.Lemmas.REReal
import Mathlib.Tactic.Ring
import Mathlib.Tactic.Linarith
import Mathlib.Tactic.FinCases
import Mathlib.Tactic.NormNum
import Mathlib.Tactic.Module
import Mathlib.Data.Matrix.Basic
import Mathlib.Algebra.Module.Basic
import Mathlib.Analysis.SpecialFunctions.Trigonometric.Basic

namespace HitenModel.Props.C16
open HitenModel Gen.C16

/-! ## abstract sub-flows on the extended phase space (Q,P,X,Y), any real vector space -/

variable {V : Type} [AddCommGroup V] [Module ℝ V]

@[ext] structure Ext (V : Type) where
  Q : V
  P : V
  X : V
  Y : V

/-- `φ_a(δ)`: `P −= δ·gQ(Q,Y)`, `X += δ·gP(Q,Y)` (exact flow of `H(q,y)`) -/
def shearA (gQ gP : V → V → V) (δ : ℝ) (z : Ext V) : Ext V :=
  ⟨z.Q, z.P - δ • gQ z.Q z.Y, z.X + δ • gP z.Q z.Y, z.Y⟩
/-- `φ_b(δ)`: `Q += δ·gP(X,P)`, `Y −= δ·gQ(X,P)` (exact flow of `H(x,p)`) -/
def shearB (gQ gP : V → V → V) (δ : ℝ) (z : Ext V) : Ext V :=
  ⟨z.Q + δ • gP z.X z.P, z.P, z.X, z.Y - δ • gQ z.X z.P⟩
/-- `φ_c`: the coupling rotation with `c = cos 2ωδ`, `s = sin 2ωδ` -/
noncomputable def rotC (c s : ℝ) (z : Ext V) : Ext V :=
  ⟨(1/2 : ℝ) • ((z.Q + z.X) + c • (z.Q - z.X) + s • (z.P - z.Y)),
   (1/2 : ℝ) • ((z.P + z.Y) - s • (z.Q - z.X) + c • (z.P - z.Y)),
   (1/2 : ℝ) • ((z.Q + z.X) - c • (z.Q - z.X) - s • (z.P - z.Y)),
   (1/2 : ℝ) • ((z.P + z.Y) + s • (z.Q - z.X) - c • (z.P - z.Y))⟩

/-! ### the traced code is these sub-flows -/

def getB (z : Ext V) : Nat → V
  | 0 => z.Q | 1 => z.P | 2 => z.X | _ => z.Y
def setB (z : Ext V) (b : Nat) (v : V) : Ext V :=
  match b with
  | 0 => { z with Q := v } | 1 => { z with P := v } | 2 => { z with X := v } | _ => { z with Y := v }

/-- interpreter of a traced wiring table: all gradients are evaluated at the *incoming* blocks, then the updates are
applied in order -/
def interp (calls : List (Nat × Nat × Nat)) (updates : List (Nat × Int × Nat))
    (gQ gP : V → V → V) (δ : ℝ) (z : Ext V) : Ext V :=
  let res : List V := calls.map fun (k, a, b) => (if k = 0 then gQ else gP) (getB z a) (getB z b)
  updates.foldl (fun acc (b, sgn, j) => setB acc b (getB acc b + ((sgn : ℝ) * δ) • res.getD j 0)) z

/-- **phiA_is_shearA**: the traced `_phi_H_a_update_poly` is `shearA` with `gQ = ∂H/∂Q`, `gP = ∂H/∂P` at `(Q,Y)` -/
theorem phiA_is_shearA (gQ gP : V → V → V) (δ : ℝ) (z : Ext V) :
    interp phiA_calls phiA_updates gQ gP δ z = shearA gQ gP δ z := by
  ext <;> simp [interp, phiA_calls, phiA_updates, shearA, getB, setB] <;> module

/-- **phiB_is_shearB**: the traced `_phi_H_b_update_poly` is `shearB` at `(X,P)` -/
theorem phiB_is_shearB (gQ gP : V → V → V) (δ : ℝ) (z : Ext V) :
    interp phiB_calls phiB_updates gQ gP δ z = shearB gQ gP δ z := by
  ext <;> simp [interp, phiB_calls, phiB_updates, shearB, getB, setB] <;> module

/-- the traced rotation table is the matrix of `rotC` (entries doubled) -/
theorem rot_table :
    rot = [[(1, 1, 0), (0, 0, 1), (1, -1, 0), (0, 0, -1)],
           [(0, 0, -1), (1, 1, 0), (0, 0, 1), (1, -1, 0)],
           [(1, -1, 0), (0, 0, -1), (1, 1, 0), (0, 0, 1)],
           [(0, 0, 1), (1, -1, 0), (0, 0, -1), (1, 1, 0)]] ∧ rotDen = 2 := by decide

/-! ### exact invertibility (reversibility of every sub-flow) -/

theorem shearA_inverse (gQ gP : V → V → V) (δ : ℝ) (z : Ext V) :
    shearA gQ gP (-δ) (shearA gQ gP δ z) = z := by
  ext <;> simp [shearA]
theorem shearB_inverse (gQ gP : V → V → V) (δ : ℝ) (z : Ext V) :
    shearB gQ gP (-δ) (shearB gQ gP δ z) = z := by
  ext <;> simp [shearB]
theorem rotC_inverse (c s : ℝ) (h : c ^ 2 + s ^ 2 = 1) (z : Ext V) :
    rotC c (-s) (rotC c s z) = z := by
  have h2 : s ^ 2 = 1 - c ^ 2 := by linarith
  ext <;> simp only [rotC] <;> match_scalars <;> (ring_nf; try (rw [h2]; ring))

/-! ### one letter of the composition word and whole words -/

/-- one call of the word: letter 0 = φ_a, 1 = φ_b, 2 = φ_c; sub-step `k·h`; coupling `ω` -/
noncomputable def letter (gQ gP : V → V → V) (ω h : ℝ) (l : Nat × ℝ) (z : Ext V) : Ext V :=
  match l.1 with
  | 0 => shearA gQ gP (l.2 * h) z
  | 1 => shearB gQ gP (l.2 * h) z
  | _ => rotC (Real.cos (2 * ω * (l.2 * h))) (Real.sin (2 * ω * (l.2 * h))) z

noncomputable def applyWord (gQ gP : V → V → V) (ω h : ℝ) (w : List (Nat × ℝ)) (z : Ext V) : Ext V :=
  w.foldl (fun acc l => letter gQ gP ω h l acc) z

theorem letter_inverse (gQ gP : V → V → V) (ω h : ℝ) (l : Nat × ℝ) (z : Ext V) :
    letter gQ gP ω (-h) l (letter gQ gP ω h l z) = z := by
  obtain ⟨k, a⟩ := l
  match k with
  | 0 => simp only [letter, mul_neg]; exact shearA_inverse _ _ _ _
  | 1 => simp only [letter, mul_neg]; exact shearB_inverse _ _ _ _
  | (n+2) =>
    simp only [letter, mul_neg, Real.cos_neg, Real.sin_neg]
    exact rotC_inverse _ _ (Real.cos_sq_add_sin_sq _) _

/-- **step_reversible**: for every palindromic word (and a coupling constant that is the same for `h` and `−h`, as
`_get_tao_omega` is for even order — `tao_even` below) applying the word with `−h` after applying it with `h` restores
the state exactly, for all gradients, all states, all step sizes. -/
theorem word_reversible (gQ gP : V → V → V) (ω h : ℝ) :
    ∀ (w : List (Nat × ℝ)) (z : Ext V), applyWord gQ gP ω (-h) w.reverse (applyWord gQ gP ω h w z) = z := by
  intro w
  induction w using List.reverseRecOn with
  | nil => intro z; rfl
  | append_singleton w l ih =>
    intro z
    simp only [applyWord, List.reverse_append, List.reverse_cons, List.reverse_nil, List.nil_append,
      List.foldl_append, List.foldl_cons, List.foldl_nil, List.singleton_append] at ih ⊢
    rw [letter_inverse]
    exact ih z

/-- real value of a dyadic -/
noncomputable def dyR (d : Dy) : ℝ := (d.m : ℝ) / (2 : ℝ) ^ d.e
noncomputable def wordR (w : List (Nat × Dy)) : List (Nat × ℝ) := w.map fun p => (p.1, dyR p.2)

/-- the traced words are palindromes (letters and exact fractions), hence `word_reversible` applies to the code's step -/
theorem words_palindromic :
    word2.reverse = word2 ∧ word4.reverse = word4 ∧ word6.reverse = word6 ∧ word8.reverse = word8 := by
  decide +kernel

theorem step_reversible (gQ gP : V → V → V) (ω h : ℝ) (z : Ext V) :
    applyWord gQ gP ω (-h) (wordR word4) (applyWord gQ gP ω h (wordR word4) z) = z ∧
    applyWord gQ gP ω (-h) (wordR word6) (applyWord gQ gP ω h (wordR word6) z) = z ∧
    applyWord gQ gP ω (-h) (wordR word8) (applyWord gQ gP ω h (wordR word8) z) = z ∧
    applyWord gQ gP ω (-h) (wordR word2) (applyWord gQ gP ω h (wordR word2) z) = z := by
  have p := words_palindromic
  have r : ∀ w : List (Nat × Dy), w.reverse = w → (wordR w).reverse = wordR w := by
    intro w hw; unfold wordR; rw [← List.map_reverse, hw]
  refine ⟨?_, ?_, ?_, ?_⟩
  · have := word_reversible gQ gP ω h (wordR word4) z; rwa [r _ p.2.1] at this
  · have := word_reversible gQ gP ω h (wordR word6) z; rwa [r _ p.2.2.1] at this
  · have := word_reversible gQ gP ω h (wordR word8) z; rwa [r _ p.2.2.2] at this
  · have := word_reversible gQ gP ω h (wordR word2) z; rwa [r _ p.1] at this

/-- `_get_tao_omega(−δ) = _get_tao_omega(δ)` for the supported (even) orders -/
theorem tao_even (ρ : ℕ → ℝ) :
    let ρ' : ℕ → ℝ := fun k => if k = 0 then -ρ 0 else ρ k
    RE.eval ρ' tao2 = RE.eval ρ tao2 ∧ RE.eval ρ' tao4 = RE.eval ρ tao4 ∧
    RE.eval ρ' tao6 = RE.eval ρ tao6 ∧ RE.eval ρ' tao8 = RE.eval ρ tao8 := by
  intro ρ'
  refine ⟨?_, ?_, ?_, ?_⟩ <;>
    simp only [tao2, tao4, tao6, tao8, RE.eval, ρ', if_true, if_false, one_ne_zero, reduceIte] <;>
    congr 1 <;> ring

/-! ### base scheme and triple-jump fractions -/

/-- the order-2 base scheme is the symmetric Strang composition a(½) b(½) c(1) b(½) a(½) -/
theorem base_scheme : word2 = [(0, ⟨1,1⟩), (1, ⟨1,1⟩), (2, ⟨1,0⟩), (1, ⟨1,1⟩), (0, ⟨1,1⟩)] := by decide

def dyPow (a : Dy) : Nat → Dy
  | 0 => Dy.one
  | n+1 => Dy.mul a (dyPow a n)

/-- one triple jump raising order `p−2` to `p`: fractions (g, g', g) with g+g'+g = 1 (2^-50), lower order p−2, and the
Yoshida condition `|2 g^(p−1) + g'^(p−1)| ≤ 2^-40` -/
def jumpOK (j : List (Dy × Nat)) (p : Nat) : Bool :=
  match j with
  | [(g1, l1), (g2, l2), (g3, l3)] =>
      Dy.eqv g1 g3 && (l1 == p - 2) && (l2 == p - 2) && (l3 == p - 2) &&
      (Dy.sub (Dy.add (Dy.add g1 g2) g3) Dy.one).small 50 &&
      (Dy.add (Dy.mul ⟨2,0⟩ (dyPow g1 (p - 1))) (dyPow g2 (p - 1))).small 40
  | _ => false

/-- Yoshida residual `|2 g^m + g'^m| ≤ 2^-40` of a jump for the exponent `m` -/
def yoshida (j : List (Dy × Nat)) (m : Nat) : Bool :=
  match j with
  | [(g1, _), (g2, _), (_, _)] => (Dy.add (Dy.mul ⟨2,0⟩ (dyPow g1 m)) (dyPow g2 m)).small 40
  | _ => false
/-- structure of a jump: three calls (g, g', g) of the scheme of order `p−2` with `g + g' + g = 1` -/
def jumpShape (j : List (Dy × Nat)) (p : Nat) : Bool :=
  match j with
  | [(g1, l1), (g2, l2), (g3, l3)] =>
      Dy.eqv g1 g3 && (l1 == p - 2) && (l2 == p - 2) && (l3 == p - 2) &&
      (Dy.sub (Dy.add (Dy.add g1 g2) g3) Dy.one).small 50
  | _ => false

/-- the recursion has the triple-jump shape at every level (orders 4, 6, 8) -/
theorem triple_jump_shape : (jumpShape jump4 4 && jumpShape jump6 6 && jumpShape jump8 8) = true := by decide +kernel

/-- **triple_jump_condition — KNOWN FINDING (key `order:<p>`)**: raising a symmetric scheme of order `p−2` to order `p` needs the
Yoshida condition with exponent `p−1` (`triple_jump_identity` below).  The fractions the current code computes
(`γ = 1/(2 − 2^(1/(p+1)))`) satisfy it with exponent `p+1` instead — the right value for raising order `p` to `p+2` — and violate the
required one at every level; the composed schemes of "order" 4, 6, 8 are therefore only second-order accurate (measured by the harness).
The repair (`1/(order−1)`) cannot be committed because the pinned test `test_final_state_error` depends on the current values. -/
theorem triple_jump_condition_violated_now :
    (yoshida jump4 3 || yoshida jump6 5 || yoshida jump8 7) = false ∧
    (yoshida jump4 5 && yoshida jump6 7 && yoshida jump8 9) = true := by
  constructor <;> decide +kernel

/-- `jumpOK` = shape + the required Yoshida condition: what a repaired tree must satisfy -/
theorem jumpOK_iff (j : List (Dy × Nat)) (p : Nat) : jumpOK j p = (jumpShape j p && yoshida j (p - 1)) := by
  unfold jumpOK jumpShape yoshida
  split <;> simp_all

/-- the flat words are the jumps applied to the lower-order words (the recursion really composes three copies) -/
def scaleWord (g : Dy) (w : List (Nat × Dy)) : List (Nat × Dy) := w.map fun p => (p.1, Dy.mul g p.2)
def wordEqv : List (Nat × Dy) → List (Nat × Dy) → Bool
  | [], [] => true
  | a :: as, b :: bs => (a.1 == b.1) && Dy.eqv a.2 b.2 && wordEqv as bs
  | _, _ => false
def composed (j : List (Dy × Nat)) (w : List (Nat × Dy)) : List (Nat × Dy) := j.flatMap fun p => scaleWord p.1 w
theorem words_are_composed :
    (wordEqv word4 (composed jump4 word2) && wordEqv word6 (composed jump6 word4) &&
     wordEqv word8 (composed jump8 word6)) = true := by decide +kernel

/-- which exponent is right: with `r^m = 2`, `m = p−1` odd, `γ = 1/(2 − r)` satisfies the Yoshida condition exactly -/
theorem triple_jump_identity (m : ℕ) (hm : Odd m) (r : ℝ) (hr : r ^ m = 2) (h2 : 2 - r ≠ 0) :
    2 * (1 / (2 - r)) ^ m + (1 - 2 * (1 / (2 - r))) ^ m = 0 := by
  have e : 1 - 2 * (1 / (2 - r)) = -(r / (2 - r)) := by field_simp; ring
  rw [e, hm.neg_pow, div_pow, div_pow, hr, one_pow]; ring

/-! ### the recursion at every depth (not only the traced orders 4, 6, 8)

`_recursive_update_poly(order)` calls itself three times with the fractions (γ, 1−2γ, γ) down to the order-2 base scheme; the
model of that recursion for an arbitrary list of levels, each with an arbitrary list of fractions, is `tower`.  `words_are_composed`
(above) identifies the traced words with `tower` for the three traced levels; the theorems here hold for every depth. -/

/-- scale every fraction of a real word by `g` (one recursive call with `delta·g`) -/
def scaleWordR (g : ℝ) (w : List (Nat × ℝ)) : List (Nat × ℝ) := w.map fun p => (p.1, g * p.2)
/-- one level of the recursion: the lower word once per fraction of the jump -/
def composedR (j : List ℝ) (w : List (Nat × ℝ)) : List (Nat × ℝ) := j.flatMap fun g => scaleWordR g w
/-- the recursion to any depth: outermost jump first -/
def tower (base : List (Nat × ℝ)) : List (List ℝ) → List (Nat × ℝ)
  | [] => base
  | j :: js => composedR j (tower base js)

theorem scaleWordR_reverse (g : ℝ) (w : List (Nat × ℝ)) : (scaleWordR g w).reverse = scaleWordR g w.reverse := by
  unfold scaleWordR; rw [List.map_reverse]

/-- a palindromic jump applied to a palindromic word is a palindromic word -/
theorem composedR_palindromic (j : List ℝ) (w : List (Nat × ℝ)) (hj : j.reverse = j) (hw : w.reverse = w) :
    (composedR j w).reverse = composedR j w := by
  unfold composedR
  rw [List.reverse_flatMap, hj]
  congr 1
  funext g
  simp only [Function.comp, scaleWordR_reverse, hw]

/-- **tower_palindromic**: at every recursion depth the composed word is a palindrome when the base scheme and every jump are -/
theorem tower_palindromic (base : List (Nat × ℝ)) (hb : base.reverse = base) :
    ∀ js : List (List ℝ), (∀ j ∈ js, j.reverse = j) → (tower base js).reverse = tower base js := by
  intro js
  induction js with
  | nil => intro _; exact hb
  | cons j js ih =>
    intro h
    exact composedR_palindromic j _ (h j (by simp)) (ih fun j' hj' => h j' (by simp [hj']))

/-- **tower_reversible**: the scheme of every order 2+2k built by the recursion from a palindromic base scheme with palindromic
jumps (the triple jump (γ, 1−2γ, γ) is one for every γ) is exactly time-reversible: a step with `−h` undoes a step with `h`, for all
gradients, states, step sizes and coupling constants that agree for `h` and `−h`. -/
theorem tower_reversible (gQ gP : V → V → V) (ω h : ℝ) (base : List (Nat × ℝ)) (hb : base.reverse = base)
    (js : List (List ℝ)) (hjs : ∀ j ∈ js, j.reverse = j) (z : Ext V) :
    applyWord gQ gP ω (-h) (tower base js) (applyWord gQ gP ω h (tower base js) z) = z := by
  have := word_reversible gQ gP ω h (tower base js) z
  rwa [tower_palindromic base hb js hjs] at this

/-- the triple jump is a palindrome for every fraction -/
theorem triple_jump_palindromic (g : ℝ) : [g, 1 - 2 * g, g].reverse = [g, 1 - 2 * g, g] := by simp

/-- total fraction of the letter `k` (0 = φ_a, 1 = φ_b, 2 = rotation) in a word: the time that sub-flow is advanced per unit step -/
def letterSum (k : Nat) (w : List (Nat × ℝ)) : ℝ := (w.map fun p => if p.1 = k then p.2 else 0).sum

theorem letterSum_append (k : Nat) (u v : List (Nat × ℝ)) : letterSum k (u ++ v) = letterSum k u + letterSum k v := by
  simp [letterSum]

theorem letterSum_scale (k : Nat) (g : ℝ) (w : List (Nat × ℝ)) : letterSum k (scaleWordR g w) = g * letterSum k w := by
  induction w with
  | nil => simp [letterSum, scaleWordR]
  | cons a w ih =>
    have e : scaleWordR g (a :: w) = (a.1, g * a.2) :: scaleWordR g w := rfl
    have c : ∀ (b : Nat × ℝ) (u : List (Nat × ℝ)), letterSum k (b :: u) = (if b.1 = k then b.2 else 0) + letterSum k u := by
      intro b u; simp [letterSum]
    rw [e, c, c, ih]
    by_cases hk : a.1 = k <;> simp [hk] <;> ring

theorem letterSum_composed (k : Nat) (j : List ℝ) (w : List (Nat × ℝ)) :
    letterSum k (composedR j w) = j.sum * letterSum k w := by
  induction j with
  | nil => simp [composedR, letterSum]
  | cons g j ih =>
    have e : composedR (g :: j) w = scaleWordR g w ++ composedR j w := by simp [composedR]
    rw [e, letterSum_append, letterSum_scale, ih, List.sum_cons]; ring

/-- **tower_consistent**: when every jump's fractions sum to 1, every sub-flow is advanced by exactly the same total time at every
recursion depth as in the base scheme (first-order consistency of the composed scheme of every order) -/
theorem tower_consistent (k : Nat) (base : List (Nat × ℝ)) :
    ∀ js : List (List ℝ), (∀ j ∈ js, j.sum = 1) → letterSum k (tower base js) = letterSum k base := by
  intro js
  induction js with
  | nil => intro _; rfl
  | cons j js ih =>
    intro h
    show letterSum k (composedR j (tower base js)) = _
    rw [letterSum_composed, h j (by simp), one_mul]
    exact ih fun j' hj' => h j' (by simp [hj'])

/-- the triple jump sums to 1 for every fraction -/
theorem triple_jump_sum (g : ℝ) : [g, 1 - 2 * g, g].sum = 1 := by simp; ring

/-- the Strang base scheme (`base_scheme`) advances each of the three sub-flows by exactly one step -/
theorem base_letterSums : ∀ k ∈ [0, 1, 2], letterSum k [(0, 1/2), (1, 1/2), (2, 1), (1, 1/2), (0, 1/2)] = 1 := by
  intro k hk
  simp only [List.mem_cons, List.not_mem_nil, or_false] at hk
  rcases hk with rfl | rfl | rfl <;> norm_num [letterSum]

/-- link to the traced words: the dyadic composition `composed` evaluates to the real one -/
theorem dyR_mul (a b : Dy) : dyR (Dy.mul a b) = dyR a * dyR b := by
  simp only [dyR, Dy.mul, Int.cast_mul, pow_add]; field_simp

theorem wordR_composed (j : List (Dy × Nat)) (w : List (Nat × Dy)) :
    wordR (composed j w) = composedR (j.map fun p => dyR p.1) (wordR w) := by
  unfold composed composedR wordR scaleWord scaleWordR
  induction j with
  | nil => rfl
  | cons p j ih =>
    simp only [List.flatMap_cons, List.map_append, List.map_cons, ih, List.map_map]
    congr 1
    apply List.map_congr_left
    intro a _
    simp [Function.comp, dyR_mul]

theorem dyR_add (a b : Dy) : dyR (Dy.add a b) = dyR a + dyR b := by
  unfold Dy.add dyR
  split
  · rename_i h
    obtain ⟨k, hk⟩ := Nat.exists_eq_add_of_le h
    simp only [hk, Nat.add_sub_cancel_left, Int.cast_add, Int.cast_mul, Int.cast_pow, Int.cast_ofNat, pow_add]
    field_simp
  · rename_i h
    obtain ⟨k, hk⟩ := Nat.exists_eq_add_of_le (Nat.le_of_not_le h)
    simp only [hk, Nat.add_sub_cancel_left, Int.cast_add, Int.cast_mul, Int.cast_pow, Int.cast_ofNat, pow_add]
    field_simp

theorem dyR_neg (a : Dy) : dyR (Dy.neg a) = - dyR a := by
  simp [dyR, Dy.neg, neg_div]

theorem dyR_eqv (a b : Dy) (h : Dy.eqv a b = true) : dyR a = dyR b := by
  have z : dyR (Dy.sub a b) = 0 := by
    unfold Dy.eqv at h
    have : (Dy.sub a b).m = 0 := by simpa using h
    simp [dyR, this]
  rw [Dy.sub, dyR_add, dyR_neg] at z
  linarith

theorem wordR_eqv : ∀ (u v : List (Nat × Dy)), wordEqv u v = true → wordR u = wordR v
  | [], [] , _ => rfl
  | a :: as, b :: bs, h => by
    simp only [wordEqv, Bool.and_eq_true, beq_iff_eq] at h
    have ih := wordR_eqv as bs h.2
    simp only [wordR, List.map_cons] at ih ⊢
    rw [ih, h.1.1, dyR_eqv _ _ h.1.2]
  | [], _ :: _, h => by simp [wordEqv] at h
  | _ :: _, [], h => by simp [wordEqv] at h

/-- the traced words of orders 4, 6, 8 ARE the tower over the traced base word with the traced jumps -/
theorem traced_words_are_tower :
    wordR word4 = tower (wordR word2) [jump4.map fun p => dyR p.1] ∧
    wordR word6 = tower (wordR word2) [jump6.map fun p => dyR p.1, jump4.map fun p => dyR p.1] ∧
    wordR word8 = tower (wordR word2) [jump8.map fun p => dyR p.1, jump6.map fun p => dyR p.1, jump4.map fun p => dyR p.1] := by
  have h := words_are_composed
  simp only [Bool.and_eq_true] at h
  have e4 := wordR_eqv _ _ h.1.1
  have e6 := wordR_eqv _ _ h.1.2
  have e8 := wordR_eqv _ _ h.2
  rw [wordR_composed] at e4 e6 e8
  refine ⟨?_, ?_, ?_⟩
  · simpa [tower] using e4
  · rw [e6, e4]; rfl
  · rw [e8, e6, e4]; rfl

/-- non-vacuity: a two-level tower with the triple jump, reversible and consistent -/
example (g₁ g₂ : ℝ) :
    letterSum 2 (tower [(0, 1/2), (1, 1/2), (2, 1), (1, 1/2), (0, 1/2)] [[g₁, 1 - 2 * g₁, g₁], [g₂, 1 - 2 * g₂, g₂]]) = 1 := by
  rw [tower_consistent 2 _ _ (by
    intro j hj
    simp only [List.mem_cons, List.not_mem_nil, or_false] at hj
    rcases hj with rfl | rfl <;> exact triple_jump_sum _)]
  exact base_letterSums 2 (by simp)

/-! ### symplecticity of the sub-flows (Jacobians over block matrices, any number of degrees of freedom) -/

section symplectic
open Matrix
variable {n : Type} [Fintype n] [DecidableEq n]

abbrev Blk (n : Type) := Matrix n n ℝ

/-- canonical two-form `dQ∧dP + dX∧dY` in block form, ordering (Q,P,X,Y) -/
def Ω4 : Fin 4 → Fin 4 → Blk n := fun i j =>
  if (i.val, j.val) = (0, 1) ∨ (i.val, j.val) = (2, 3) then 1
  else if (i.val, j.val) = (1, 0) ∨ (i.val, j.val) = (3, 2) then -1 else 0

/-- `(Mᵀ Ω M)` for a 4×4 block matrix (inner blocks transposed as well) -/
def congr4 (M : Fin 4 → Fin 4 → Blk n) : Fin 4 → Fin 4 → Blk n := fun i j =>
  ∑ k : Fin 4, ∑ l : Fin 4, (M k i)ᵀ * Ω4 k l * M l j

/-- Jacobian of `shearA` when `gQ = ∂H/∂Q`, `gP = ∂H/∂Y`-slot gradient of a function `H(Q,Y)`:
`Hqq, Hqy, Hyq, Hyy` are the second-derivative blocks -/
def jacA (δ : ℝ) (Hqq Hqy Hyq Hyy : Blk n) : Fin 4 → Fin 4 → Blk n := fun i j =>
  match i.val, j.val with
  | 0, 0 => 1 | 1, 1 => 1 | 2, 2 => 1 | 3, 3 => 1
  | 1, 0 => -(δ • Hqq) | 1, 3 => -(δ • Hqy)
  | 2, 0 => δ • Hyq | 2, 3 => δ • Hyy
  | _, _ => 0

/-- Jacobian of `shearB` for `H(X,P)` -/
def jacB (δ : ℝ) (Hxx Hxp Hpx Hpp : Blk n) : Fin 4 → Fin 4 → Blk n := fun i j =>
  match i.val, j.val with
  | 0, 0 => 1 | 1, 1 => 1 | 2, 2 => 1 | 3, 3 => 1
  | 0, 2 => δ • Hpx | 0, 1 => δ • Hpp
  | 3, 2 => -(δ • Hxx) | 3, 1 => -(δ • Hxp)
  | _, _ => 0

/-- **shear_symplectic (φ_a)**: if the second-derivative blocks have the symmetry every twice-differentiable `H` gives
(`Hqqᵀ = Hqq`, `Hyyᵀ = Hyy`, `Hqyᵀ = Hyq`) the Jacobian of `φ_a(δ)` preserves the canonical two-form, for every δ and
any number of degrees of freedom. -/
theorem shearA_symplectic (δ : ℝ) (Hqq Hqy Hyq Hyy : Blk n)
    (s1 : Hqqᵀ = Hqq) (s2 : Hyyᵀ = Hyy) (s3 : Hqyᵀ = Hyq) :
    congr4 (jacA δ Hqq Hqy Hyq Hyy) = (Ω4 : Fin 4 → Fin 4 → Blk n) := by
  have s4 : Hyqᵀ = Hqy := by rw [← s3, transpose_transpose]
  funext i j
  fin_cases i <;> fin_cases j <;>
    simp [congr4, jacA, Ω4, Fin.sum_univ_four, s1, s2, s3, s4, transpose_smul, transpose_neg]

/-- **shear_symplectic (φ_b)** -/
theorem shearB_symplectic (δ : ℝ) (Hxx Hxp Hpx Hpp : Blk n)
    (s1 : Hxxᵀ = Hxx) (s2 : Hppᵀ = Hpp) (s3 : Hxpᵀ = Hpx) :
    congr4 (jacB δ Hxx Hxp Hpx Hpp) = (Ω4 : Fin 4 → Fin 4 → Blk n) := by
  have s4 : Hpxᵀ = Hxp := by rw [← s3, transpose_transpose]
  funext i j
  fin_cases i <;> fin_cases j <;>
    simp [congr4, jacB, Ω4, Fin.sum_univ_four, s1, s2, s3, s4, transpose_smul, transpose_neg]

/-- scalar form of the canonical two-form -/
def ω4 : Fin 4 → Fin 4 → ℝ := fun i j =>
  if (i.val, j.val) = (0, 1) ∨ (i.val, j.val) = (2, 3) then 1
  else if (i.val, j.val) = (1, 0) ∨ (i.val, j.val) = (3, 2) then -1 else 0

/-- the per-degree-of-freedom rotation matrix read off the traced table -/
noncomputable def rotR (c s : ℝ) : Fin 4 → Fin 4 → ℝ := fun i j =>
  match (rot.getD i.val []).getD j.val (0, 0, 0) with
  | (k0, kc, ks) => ((k0 : ℝ) + (kc : ℝ) * c + (ks : ℝ) * s) / 2

/-- **rotation_symplectic**: the traced rotation `R(c,s)` (acting identically on every degree of freedom) satisfies
`Rᵀ Ω R = Ω` whenever `c² + s² = 1`, and `R(c,−s) R(c,s) = I`. -/
theorem rotation_symplectic (c s : ℝ) (h : c ^ 2 + s ^ 2 = 1) (i j : Fin 4) :
    (∑ k : Fin 4, ∑ l : Fin 4, rotR c s k i * ω4 k l * rotR c s l j) = ω4 i j := by
  fin_cases i <;> fin_cases j <;>
    simp [rotR, rot, ω4, Fin.sum_univ_four] <;>
    first
      | linear_combination (1/2 : ℝ) * h
      | linear_combination (-1/2 : ℝ) * h
      | linear_combination (0 : ℝ) * h

theorem rotation_inverse_matrix (c s : ℝ) (h : c ^ 2 + s ^ 2 = 1) (i j : Fin 4) :
    (∑ k : Fin 4, rotR c (-s) i k * rotR c s k j) = if i = j then 1 else 0 := by
  fin_cases i <;> fin_cases j <;>
    simp [rotR, rot, Fin.sum_univ_four] <;>
    first
      | linear_combination (1/2 : ℝ) * h
      | linear_combination (-1/2 : ℝ) * h
      | linear_combination (0 : ℝ) * h

/-- the abstract `rotC` used in the reversibility theorems is this matrix -/
theorem rotC_is_rotR (c s : ℝ) (z : Ext ℝ) :
    (rotC c s z).Q = rotR c s 0 0 * z.Q + rotR c s 0 1 * z.P + rotR c s 0 2 * z.X + rotR c s 0 3 * z.Y ∧
    (rotC c s z).P = rotR c s 1 0 * z.Q + rotR c s 1 1 * z.P + rotR c s 1 2 * z.X + rotR c s 1 3 * z.Y ∧
    (rotC c s z).X = rotR c s 2 0 * z.Q + rotR c s 2 1 * z.P + rotR c s 2 2 * z.X + rotR c s 2 3 * z.Y ∧
    (rotC c s z).Y = rotR c s 3 0 * z.Q + rotR c s 3 1 * z.P + rotR c s 3 2 * z.X + rotR c s 3 3 * z.Y := by
  refine ⟨?_, ?_, ?_, ?_⟩ <;> simp [rotC, rotR, rot] <;> ring

/-- products of maps whose Jacobians preserve the form preserve it (chain rule in block form is ordinary matrix
multiplication); stated for the block congruence used above -/
theorem congr4_one : congr4 (fun i j => if i = j then (1 : Blk n) else 0) = (Ω4 : Fin 4 → Fin 4 → Blk n) := by
  funext i j
  fin_cases i <;> fin_cases j <;> simp [congr4, Ω4, Fin.sum_univ_four]

end symplectic

/-! ### the stepping loops feed the step function faithfully -/

/-- what a faithful loop over a 4-node grid does: step k (1-based) receives exactly the 12 extended-state slots the previous
step produced (the first one `(Q,P,Q,P)` of the initial state), uses the k-th grid spacing both for the step and for the
coupling constant, keeps the order, and output row k is the `(Q,P)` part of step k's result. -/
def faithfulInputs : List (List Nat) :=
  [[0, 1, 2, 3, 4, 5, 0, 1, 2, 3, 4, 5], (List.range 12).map (· + 12), (List.range 12).map (· + 24)]
def faithfulRows : List (List Nat) :=
  [List.range 6, (List.range 6).map (· + 12), (List.range 6).map (· + 24), (List.range 6).map (· + 36)]

/-- **driver_wiring**: both `_integrate_symplectic` and the event-enabled `_integrate_symplectic_until_event` (traced on a
non-uniform grid with the step function and the omega heuristic rebound to recorders) are that faithful loop: no slot of
the extended state is touched between steps, omega is computed from the current step size. -/
theorem driver_wiring :
    driver_plain_inputs = faithfulInputs ∧ driver_plain_dt = [(0, 0, 4), (1, 1, 4), (2, 2, 4)] ∧ driver_plain_rows = faithfulRows ∧
    driver_event_inputs = faithfulInputs ∧ driver_event_dt = [(0, 0, 4), (1, 1, 4), (2, 2, 4)] ∧ driver_event_rows = faithfulRows := by
  decide

/-! ### non-vacuity -/
example : (shearA (V := ℝ) (fun q y => q + y) (fun q y => q * y) (1/2) ⟨1, 2, 3, 4⟩).P = 2 - (1/2) * (1 + 4) := by
  simp [shearA]

end HitenModel.Props.C16
