"""C11 — event detection returns the first admissible crossing, on the trajectory.

Model: lean/HitenModel/Core/C11.lean (predicates, one generic refine loop, generic scan / grid / adaptive drivers with
step oracles), theorems in lean/HitenModel/Props/C11.lean.  Ties, all re-checked on every run:

* T-trace/T-table (`gen`): the four predicates of integrators/utils.py are *executed* on symbolic values (concolic
  tracer); the recorded path conditions show that they inspect nothing but signs, so their complete decision tables
  over sign classes are exported to Gen/C11.lean (plus the traced comparison of `_bracket_converged`, the selection
  pattern of `_bisection_update`, the live EventOptions/EventConfig validation and defaults) and Props/C11.lean proves
  that the model's predicates coincide with them for all inputs.
* T-corr exact (`corr_exact`): the python bodies (`.py_func`) of all five refine loops and all eight scan drivers are
  run with the numerics replaced by scripted oracles of a dyadic world (state u' = 1, piecewise-affine event scripts,
  scripted accept/reject/factor sequences), the same scripts are run by Drivers/C11.lean on the Lean model at
  α = Rat, and hit step, θ_hit, t_hit, state, number of event evaluations, end state are compared for equality.
  The stubs check the wiring (which step data reach the dense evaluator / event function).
* T-corr replay (`corr_replay`): the same python control flow with the *compiled* kernels on real systems; every event
  value is recorded and the Lean model replays the recorded oracle answers (scan index, bisection path, θ_hit exact;
  t_hit to rounding); the run is also compared with the fully compiled driver reached through the public API.
* numerics / failing-input search (`numerics`): all eight drivers through `integrate(..)` on systems with exact flows
  (rotation generic + harmonic polynomial Hamiltonian) and a nonlinear reference problem: first admissible crossing,
  on-trajectory, |g| small, direction filter, end-of-span state.
"""
from __future__ import annotations

import math
from fractions import Fraction

import numpy as np

import lean_emit as E
import tracer as T

F = Fraction


# =====================================================================================================
# small exact helpers
# =====================================================================================================

class Inexact(Exception):
    pass


def fx(q):
    """float of an exact rational, raising when it is not representable (the scripted world must stay exact)."""
    q = F(q)
    f = float(q)
    if F(f) != q:
        raise Inexact(str(q))
    return f


def rs(q):
    q = F(q)
    return str(q.numerator) if q.denominator == 1 else "%d/%d" % (q.numerator, q.denominator)


def pr(s):
    return F(s)


class Script:
    """piecewise-affine scalar event script G(u): pieces (lo, c0, c1); the piece with the largest lo <= u applies
    (the first below the second lo): G(u) = c0 + c1*(u-lo)"""

    def __init__(self, pieces):
        self.p = [(F(a), F(b), F(c)) for a, b, c in pieces]

    def __call__(self, u):
        u = F(u)
        cur = self.p[0]
        for q in self.p[1:]:
            if q[0] <= u:
                cur = q
        return cur[1] + cur[2] * (u - cur[0])

    def toks(self):
        return " ".join("%s %s %s" % (rs(a), rs(b), rs(c)) for a, b, c in self.p)


class Wiring(Exception):
    pass


# =====================================================================================================
# Gen: trace the predicates (T-trace) and export live configuration facts (T-table)
# =====================================================================================================

SIGNS = (-1, 0, 1)


def _sign_only(path, names):
    """every recorded path condition compares one input variable with the constant 0"""
    for op, a, b, out in path:
        ok = (a.op == "var" and a.args[0] in names and b.is_const(0)) or (b.op == "var" and b.args[0] in names and a.is_const(0))
        if not ok:
            return False, "%s(%s, %s)" % (op, T.show(a, 60), T.show(b, 60))
    return True, ""


def trace_sign_table(fn, names):
    """Run the python body of a predicate on symbolic inputs of every sign class; returns (table, problem)."""
    tab = []
    for sa in SIGNS:
        for sb in SIGNS:
            for sd in SIGNS:
                T.reset()
                a = T.Sym.var(names[0], 1.5 * sa)
                b = T.Sym.var(names[1], 0.75 * sb)
                d = T.Sym.var(names[2], float(sd))
                out = T.retarget(fn)(a, b, d)
                ok, why = _sign_only(T.CTX.path, names)
                if not ok:
                    return None, "inspects more than signs: " + why
                if not isinstance(out, (bool, np.bool_)):
                    return None, "does not return a bool (%r)" % (type(out),)
                tab.append((sa, sb, sd, bool(out)))
    return tab, ""


def gen(ctx):
    from hiten.algorithms.integrators import utils as U
    from hiten.algorithms.types.configs import EventConfig
    from hiten.algorithms.types.options import EventOptions
    txt = E.header("C11", imports=("HitenModel.Core.RE",), note="decision tables / traced comparison of integrators/utils.py predicates, live event options")
    info = {}
    for lname, fn, names in (("eventCrossedTab", U._event_crossed, ("g_prev", "g_new", "direction")),
                             ("crossedDirectionTab", U._crossed_direction, ("g_left", "g_mid", "direction"))):
        tab, why = trace_sign_table(fn, names)
        if tab is None:
            ctx.broken.append(("trace:" + fn.py_func.__name__, why))
            ctx.obligations["trace:" + fn.py_func.__name__] = False
            tab = []
        # concrete validation of the table against the compiled function on several magnitudes (incl. tiny/huge)
        for (sa, sb, sd, out) in tab:
            for ma in (5e-324, 1e-13, 1.0, 1e300):
                for mb in (5e-324, 3e-9, 2.0, 1e300):
                    for md in ((1, 3) if sd else (1,)):
                        got = bool(fn(sa * ma, sb * mb, int(sd * md)))
                        ctx.traces_validated += 1
                        if got != out:
                            ctx.broken.append(("trace-validation:" + lname, "compiled %s(%g,%g,%d)=%s, table says %s" % (
                                fn.py_func.__name__, sa * ma, sb * mb, sd * md, got, out)))
                            ctx.obligations["trace-validation:" + lname] = False
        txt += "/-- (sign g_a, sign g_b, sign direction, result) for every sign class; the traced path conditions compare inputs with 0 only -/\n"
        txt += "def %s : List (Int × Int × Int × Bool) := [\n  %s]\n" % (
            lname, ",\n  ".join("(%d, %d, %d, %s)" % (a, b, d, "true" if o else "false") for a, b, d, o in tab))
        info[lname] = len(tab)
    # ---- _bisection_update: which input each output is ---------------------------------------------
    names = ["a", "b", "g_left", "mid", "g_mid"]
    rows = []
    for crossed in (True, False):
        T.reset()
        syms = [T.Sym.var(n, 0.1 + 0.2 * i) for i, n in enumerate(names)]
        out = T.retarget(U._bisection_update)(*syms, crossed)
        idx = []
        for o in out:
            hit = [i for i, s in enumerate(syms) if o is s]
            idx.append(hit[0] if hit else 99)
        if T.CTX.path:
            idx = [98, 98, 98]
        rows.append((crossed, idx))
    txt += "/-- `_bisection_update`: for crossed = true/false, the index (0 a, 1 b, 2 g_left, 3 mid, 4 g_mid) of the input returned as (a, b, g_left) -/\n"
    txt += "def bisectionTab : List (Bool × Nat × Nat × Nat) := [%s]\n" % ", ".join(
        "(%s, %d, %d, %d)" % ("true" if c else "false", i[0], i[1], i[2]) for c, i in rows)
    # ---- _bracket_converged: the traced comparison -----------------------------------------------
    vidx = {"a": 0, "b": 1, "h": 2, "xtol": 3}
    for tag, hv in (("Pos", 0.25), ("Neg", -0.25)):
        T.reset()
        sv = {n: T.Sym.var(n, v) for n, v in (("a", 0.25), ("b", 0.5), ("h", hv), ("xtol", 0.01))}
        out = T.retarget(U._bracket_converged)(sv["a"], sv["b"], sv["h"], sv["xtol"])
        path = list(T.CTX.path)
        # expected shape: [abs(h) decided by 'h < 0'] then the returned comparison
        cmp_ = path[-1] if path else None
        absok = all(p[1] is sv["h"] and p[2].is_const(0) for p in path[:-1])
        if cmp_ is None or not absok or not isinstance(out, (bool, np.bool_)) or bool(out) != cmp_[3]:
            ctx.broken.append(("trace:_bracket_converged", "unexpected shape of the traced predicate"))
            ctx.obligations["trace:_bracket_converged"] = False
            txt += "def conv%sOp : String := \"?\"\ndef conv%sLhs : RE := .const 0 1\ndef conv%sRhs : RE := .const 0 1\n" % (tag, tag, tag)
            continue
        txt += "def conv%sOp : String := \"%s\"\n" % (tag, cmp_[0])
        txt += E.re_def("conv%sLhs" % tag, cmp_[1], vidx)
        txt += E.re_def("conv%sRhs" % tag, cmp_[2], vidx)
    for a, b, h, x in ((0.0, 1.0, 0.5, 0.5), (0.0, 1.0, -0.5, 0.5), (0.25, 0.5, 2.0, 0.25), (0.25, 0.5, -2.0, 0.5 - 2 ** -40), (0.0, 2.0 ** -128, 1.0, 1e-40)):
        ctx.traces_validated += 1
        if bool(U._bracket_converged(a, b, h, x)) != ((b - a) * abs(h) <= x):
            ctx.broken.append(("trace-validation:_bracket_converged", "compiled value differs at %r" % ((a, b, h, x),)))
            ctx.obligations["trace-validation:_bracket_converged"] = False
    # ---- live options / configuration --------------------------------------------------------------
    def rejects(mk):
        try:
            mk()
            return False
        except Exception:
            return True
    d = EventOptions()
    txt += "/-- exact values of the default tolerances `EventOptions().xtol/.gtol` (numerator, denominator) -/\n"
    txt += "def defaultXtol : Int × Nat := (%d, %d)\n" % (F(float(d.xtol)).numerator, F(float(d.xtol)).denominator)
    txt += "def defaultGtol : Int × Nat := (%d, %d)\n" % (F(float(d.gtol)).numerator, F(float(d.gtol)).denominator)
    rej = all(rejects(lambda k=k, v=v: EventOptions(**{k: v})) for k in ("xtol", "gtol") for v in (0.0, -1e-12, -1.0))
    txt += "/-- EventOptions refuses xtol <= 0 and gtol <= 0 (probed on the live class) -/\n"
    txt += "def optionsRejectNonPositive : Bool := %s\n" % ("true" if rej else "false")
    dirs = [k for k in (-2, -1, 0, 1, 2) if not rejects(lambda k=k: EventConfig(direction=k))]
    txt += "/-- directions accepted by the live EventConfig among -2..2, and its default -/\n"
    txt += "def acceptedDirections : List Int := [%s]\n" % ", ".join(str(k) for k in dirs)
    txt += "def defaultDirection : Int := %d\n" % int(EventConfig().direction)
    txt += E.footer("C11")
    ctx.write_gen("HitenModel.Gen.C11", txt)
    ctx.extra["gen"] = info
    ctx.obligations.setdefault("trace-validation", True)


# =====================================================================================================
# T-corr exact: scripted dyadic world
# =====================================================================================================

U0_TAG = 7.0


class World:
    """u' = 1 world.  State y = [u, 7.0] (dim 6 for the symplectic driver: [u,0,0,7,0,0]); f(t,y) = [1, u]."""

    def __init__(self, script, t0, u0, dim=2, attempts=None, h0=None):
        self.G = script
        self.t0 = F(t0)
        self.u0 = F(u0)
        self.dim = dim
        self.attempts = list(attempts or [])
        self.k = 0                  # attempt counter
        self.h0 = h0
        self.n_event = 0
        self.n_dense = 0
        self.last_x = None
        self.n_steps = 0            # step-kernel calls
        self.accepted = 0
        self.cur = None             # (t, u, h) of the last attempted step
        self.prev_acc = None        # (t, u, h) of the last accepted step
        self.mids = []

    # ---- state helpers
    def state(self, u):
        y = np.zeros(self.dim)
        y[0] = fx(u)
        y[self.dim // 2 if self.dim == 6 else 1] = U0_TAG
        return y

    def check_state(self, y, what):
        tagpos = 3 if self.dim == 6 else 1
        if len(y) != self.dim or y[tagpos] != U0_TAG:
            raise Wiring("%s: not a state of this world: %r" % (what, list(y)))

    def check_tu(self, t, u, what):
        exp = self.t0 + (F(float(u)) - self.u0)
        if abs(F(float(t)) - exp) > F(1, 10 ** 9) * (1 + abs(exp)):
            raise Wiring("%s: time %r does not belong to state u=%r (expected t=%r)" % (what, float(t), float(u), float(exp)))

    # ---- oracles
    def f(self, t, y):
        self.check_state(y, "rhs")
        out = np.zeros(self.dim)
        out[0] = 1.0
        out[1] = y[0]
        return out

    def ham_rhs(self, y, jac_H, clmo_H, n_dof):
        # also called at the extra dense-output stages of `_dop853_refine_in_step_ham` (not states of the world)
        out = np.zeros(self.dim)
        out[0] = 1.0
        out[1] = y[0]
        return out

    def event(self, t, y):
        self.check_state(y, "event_fn")
        self.check_tu(t, y[0], "event_fn")
        self.n_event += 1
        return fx(self.G(F(float(y[0]))))

    def att(self):
        a = self.attempts[self.k] if self.k < len(self.attempts) else (True, F(1))
        return a

    def begin_step(self, t, y, h, what):
        self.check_state(y, what)
        self.check_tu(t, y[0], what)
        self.n_steps += 1
        self.cur = (F(float(t)), F(float(y[0])), F(float(h)))
        return self.state(F(float(y[0])) + F(float(h)))

    # generic fixed step
    def fixed_step(self, f, t, y, h, A, B_HIGH, B_LOW, C, has_b_low):
        return self.begin_step(t, y, h, "rk_embedded_step"), None, None

    def fixed_step_ham(self, t, y, h, A, B_HIGH, B_LOW, C, has_b_low, jac_H, clmo_H, n_dof):
        return self.begin_step(t, y, h, "rk_embedded_step_ham"), None, None

    def _adaptive(self, t, y, h, what, dop):
        yn = self.begin_step(t, y, h, what)
        acc, _ = self.att()
        err = np.zeros(self.dim) if acc else np.full(self.dim, 1.0e3)
        K = np.zeros((12 if dop else 7, self.dim))
        K[0, 0] = float(h)
        K[1, 0] = float(y[0])
        if dop:
            return yn, yn.copy(), err, err.copy(), err.copy(), K
        return yn, yn.copy(), err, K

    def rk45_step(self, f, t, y, h, A, B_HIGH, C, E_):
        return self._adaptive(t, y, h, "rk45_step", False)

    def rk45_step_ham(self, t, y, h, A, B_HIGH, C, E_, jac_H, clmo_H, n_dof):
        return self._adaptive(t, y, h, "rk45_step_ham", False)

    def dop_step(self, f, t, y, h, A, B_HIGH, C, E5, E3):
        return self._adaptive(t, y, h, "dop853_step", True)

    def dop_step_ham(self, t, y, h, A, B_HIGH, C, E5, E3, jac_H, clmo_H, n_dof):
        return self._adaptive(t, y, h, "dop853_step_ham", True)

    def accept_factor(self, err_norm, err_prev, order):
        acc, fac = self.att()
        if not acc or not err_norm <= 1.0:
            raise Wiring("_pi_accept_factor called for a step scripted as rejected (err_norm=%r)" % (err_norm,))
        self.k += 1
        return fx(fac)

    def reject_factor(self, err_norm, order):
        acc, fac = self.att()
        if acc or err_norm <= 1.0:
            raise Wiring("_pi_reject_factor called for a step scripted as accepted (err_norm=%r)" % (err_norm,))
        self.k += 1
        return fx(fac)

    def initial_step(self, d0, d1, min_step, max_step):
        return fx(self.h0)

    # symplectic
    def sympl_update(self, q_ext, dt, order, omega, jac_H, clmo_H):
        self.n_steps += 1
        self.cur = (None, F(float(q_ext[0])), F(float(dt)))
        q_ext[0] = fx(F(float(q_ext[0])) + F(float(dt)))

    def sympl_deriv(self, Q, P, jac_H, clmo_H):
        out = np.zeros(6)
        out[0] = 1.0
        out[1] = Q[0]
        return out

    # dense evaluators -------------------------------------------------------------------------------
    def _dense(self, u0, du, x, what):
        self.n_dense += 1
        self.last_x = F(float(x))
        self.mids.append(self.last_x)
        if self.cur is not None:
            _, cu, ch = self.cur
            if F(float(u0)) != cu or F(float(du)) != ch:
                raise Wiring("%s: dense output built from (u0=%r, h=%r) but the current step is (u0=%r, h=%r)" % (
                    what, float(u0), float(du), float(cu), float(ch)))
        return self.state(F(float(u0)) + self.last_x * F(float(du)))

    def hermite(self, y0, f0, y1, f1, x, h):
        self.check_state(y0, "hermite y0")
        self.check_state(y1, "hermite y1")
        if f0[1] != y0[0] or f1[1] != y1[0] or f0[0] != 1.0 or f1[0] != 1.0:
            raise Wiring("hermite dense output: derivatives do not belong to the step end points (f0 tag %r vs y0 %r, f1 tag %r vs y1 %r)" % (
                f0[1], y0[0], f1[1], y1[0]))
        if F(float(y1[0])) - F(float(y0[0])) != F(float(h)):
            raise Wiring("hermite dense output: h=%r but y1-y0=%r" % (h, y1[0] - y0[0]))
        return self._dense(y0[0], h, x, "hermite")

    def rk45_Q(self, Kseg, P, dim):
        return Kseg

    def rk45_dense(self, y_old, Q_cache, P, x, hseg):
        self.check_state(y_old, "rk45 dense y_old")
        if Q_cache[0, 0] != hseg or Q_cache[1, 0] != y_old[0]:
            raise Wiring("rk45 dense output: stage data of another step (K tag h=%r,u=%r; called with h=%r,u=%r)" % (
                Q_cache[0, 0], Q_cache[1, 0], hseg, y_old[0]))
        return self._dense(y_old[0], hseg, x, "rk45 dense")

    def dop_cache(self, f, t_old, y_old, f_old, y_new, f_new, hseg, Kseg, A_full, C_full, D, n_stages_extended, interpolator_power):
        self.check_state(y_old, "dop853 cache y_old")
        self.check_state(y_new, "dop853 cache y_new")
        self.check_tu(t_old, y_old[0], "dop853 cache")
        if f_old[1] != y_old[0] or f_new[1] != y_new[0]:
            raise Wiring("dop853 dense cache: derivatives do not belong to the step end points")
        if Kseg[0, 0] != hseg or Kseg[1, 0] != y_old[0] or F(float(y_new[0])) - F(float(y_old[0])) != F(float(hseg)):
            raise Wiring("dop853 dense cache: stage data / step length of another step")
        Fc = np.zeros((interpolator_power, self.dim))
        Fc[0, 0] = y_new[0] - y_old[0]
        return Fc

    def dop_dense(self, y_old, F_cache, interpolator_power, x):
        self.check_state(y_old, "dop853 dense y_old")
        return self._dense(y_old[0], F_cache[0, 0], x, "dop853 dense")


def _stubs(w):
    return {
        "_hermite_eval_dense": w.hermite, "_hermite_eval_dense_symplectic": w.hermite,
        "_rk45_build_Q_cache": w.rk45_Q, "_rk45_eval_dense": w.rk45_dense,
        "_dop853_build_dense_cache": w.dop_cache, "_dop853_eval_dense": w.dop_dense,
        "_hamiltonian_rhs": w.ham_rhs,
        "rk_embedded_step_jit_kernel": w.fixed_step, "rk_embedded_step_ham_jit_kernel": w.fixed_step_ham,
        "rk45_step_jit_kernel": w.rk45_step, "rk45_step_ham_jit_kernel": w.rk45_step_ham,
        "dop853_step_jit_kernel": w.dop_step, "dop853_step_ham_jit_kernel": w.dop_step_ham,
        "_pi_accept_factor": w.accept_factor, "_pi_reject_factor": w.reject_factor, "_select_initial_step": w.initial_step,
        "_recursive_update_poly": w.sympl_update, "_eval_hamiltonian_derivative": w.sympl_deriv,
        "_get_tao_omega": lambda dt, order, c: 1.0,
    }


def py(fn, w):
    """python body of a numba function with numpy = numpy and the numerics replaced by the world's oracles"""
    return T.retarget(fn, _stubs(w), shim=np)


REFINERS = ("hermite", "hermite_sympl", "rk45", "dop853", "dop853_ham")
GRID_DRIVERS = ("fixed", "fixed_ham", "symplectic")
ADAPTIVE_DRIVERS = ("rk45", "rk45_ham", "dop853", "dop853_ham")


def _dop_consts():
    from hiten.algorithms.integrators.coefficients import dop853 as c8
    return c8.A, c8.C, c8.D, c8.N_STAGES_EXTENDED, c8.INTERPOLATOR_POWER


def run_refiner(kind, w, t0, h, direction, xtol, gtol):
    """call the real refine loop `kind` on the world's step starting at (t0, u0) of length h"""
    from hiten.algorithms.integrators import rk, symplectic as sy
    y0 = w.state(w.u0)
    y1 = w.state(w.u0 + F(h))
    f0 = w.f(t0, y0)
    f1 = w.f(t0 + h, y1)
    w.cur = (F(t0), w.u0, F(h))
    t0f, hf, t1f = fx(t0), fx(h), fx(F(t0) + F(h))
    if kind == "hermite":
        return py(rk._hermite_refine_in_step, w)(w.event, t0f, y0, f0, t1f, y1, f1, hf, direction, xtol, gtol)
    if kind == "hermite_sympl":
        return py(sy._hermite_refine_event_symplectic, w)(w.event, t0f, y0, f0, t1f, y1, f1, hf, direction, xtol, gtol)
    K = np.zeros((12, w.dim))
    K[0, 0] = hf
    K[1, 0] = y0[0]
    if kind == "rk45":
        return py(rk._rk45_refine_in_step, w)(w.event, t0f, y0, t1f, y1, hf, K, None, direction, xtol, gtol)
    A, C, D, nse, ip = _dop_consts()
    if kind == "dop853":
        return py(rk._dop853_refine_in_step, w)(w.f, w.event, t0f, y0, f0, t1f, y1, f1, hf, K, A, C, D, nse, ip, direction, xtol, gtol)
    if kind == "dop853_ham":
        return py(rk._dop853_refine_in_step_ham, w)(w.event, t0f, y0, f0, t1f, y1, f1, hf, K, A, C, D, nse, ip, direction, xtol, gtol, None, None, 1)
    raise ValueError(kind)


def run_grid_driver(kind, w, tvals, direction, xtol, gtol):
    from hiten.algorithms.integrators import rk, symplectic as sy
    tv = np.array([fx(t) for t in tvals])
    y0 = w.state(w.u0)
    if kind == "fixed":
        hit, t, y, states = py(rk._FixedStepRK._integrate_fixed_rk_until_event, w)(w.f, y0, tv, None, None, None, w.event, direction, 1, xtol, gtol)
    elif kind == "fixed_ham":
        hit, t, y, states = py(rk._FixedStepRK._integrate_fixed_rk_until_event_ham, w)(y0, tv, None, None, None, w.event, direction, 1, xtol, gtol, None, None, 1)
    elif kind == "symplectic":
        hit, t, y, states = py(sy._integrate_symplectic_until_event, w)(y0, tv, None, None, 4, w.event, direction, xtol, gtol)
    else:
        raise ValueError(kind)
    return bool(hit), float(t), np.array(y, dtype=float), None


def run_adaptive_driver(kind, w, t0, tmax, maxS, minS, direction, xtol, gtol):
    from hiten.algorithms.integrators import rk
    y0 = w.state(w.u0)
    common = dict(y0=y0, t0=fx(t0), tmax=fx(tmax), A=None, B_HIGH=None, C=None, rtol=1e-6, atol=1e-6, max_step=fx(maxS), min_step=fx(minS),
                  event_fn=w.event, direction=direction, terminal=1, xtol=xtol, gtol=gtol)
    A, C, D, nse, ip = _dop_consts()
    dop = dict(E5=None, E3=None, D=D, n_stages_extended=nse, interpolator_power=ip, A_full=A, C_full=C, order=8)
    if kind == "rk45":
        r = py(rk._RK45._integrate_rk45_until_event, w)(f=w.f, E=None, P=None, order=5, **common)
    elif kind == "rk45_ham":
        r = py(rk._RK45._integrate_rk45_until_event_ham, w)(E=None, P=None, order=5, jac_H=None, clmo_H=None, n_dof=1, **common)
    elif kind == "dop853":
        r = py(rk._DOP853._integrate_dop853_until_event, w)(f=w.f, **dop, **common)
    elif kind == "dop853_ham":
        r = py(rk._DOP853._integrate_dop853_until_event_ham, w)(jac_H=None, clmo_H=None, n_dof=1, **dop, **common)
    else:
        raise ValueError(kind)
    hit, t, y, ynew = r
    return bool(hit), float(t), np.array(y, dtype=float), np.array(ynew, dtype=float)


# ---- script generators ------------------------------------------------------------------------------

def dy(rng, bits, lo, hi):
    """random dyadic k/2^bits in [lo,hi]"""
    n = 1 << bits
    return F(rng.randint(int(lo * n), int(hi * n)), n)


def gen_script(rng, ulo, uhi):
    """random piecewise-affine script over [ulo,uhi]: constant sign pieces, exact zeros, linear pieces through zero with
    power-of-two slopes; break points are dyadic (<= 6 bits) so that hits at step ends / midpoints occur"""
    n = rng.choice([1, 1, 2, 2, 3, 4, 5])
    span = uhi - ulo
    cuts = sorted({ulo + dy(rng, rng.choice([1, 2, 3, 4, 6]), 0, 1) * span for _ in range(n)})
    pieces = [(ulo - 100, F(rng.choice([-1, -1, 1, 1, 0, -3, 2])), 0)]
    for c in cuts:
        kind = rng.random()
        if kind < 0.45:
            pieces.append((c, F(rng.choice([-1, 1, -2, 3, 0, F(1, 4), F(-1, 8)])), 0))
        else:
            pieces.append((c, 0, F(rng.choice([-1, 1])) * F(2) ** rng.randint(-3, 3)))
    return Script(pieces)


def gen_script_alt(rng, ulo, uhi):
    """alternating-sign script (several crossings in both directions, some through exact zeros)"""
    n = rng.randint(2, 6)
    span = uhi - ulo
    cuts = sorted({ulo + dy(rng, rng.choice([2, 3, 4, 5]), 0, 1) * span for _ in range(n)})
    s = rng.choice([-1, 1])
    pieces = [(ulo - 100, F(s), 0)]
    for c in cuts:
        s = -s
        if rng.random() < 0.3:
            pieces.append((c, 0, F(s) * F(2) ** rng.randint(-2, 2)))     # linear through zero at c, then sign s
        else:
            pieces.append((c, F(s) * rng.choice([1, 2, F(1, 2)]), 0))
    return Script(pieces)


def gen_tols(rng, hmag):
    """xtol = hmag * 2^-m so that the bracket test stops the bisection after m halvings (m <= 36 keeps floats exact)"""
    m = rng.choice([1, 2, 3, 5, 8, 12, 20, 30, 36])
    xtol = hmag * F(1, 2 ** m)
    if rng.random() < 0.15:
        xtol = xtol * F(3, 4)
    gtol = rng.choice([F(0), F(0), F(1, 2 ** 10), F(1, 2 ** 30), F(1e-12), F(1, 8), F(1, 2 ** 45)])
    return xtol, gtol


def corr_exact(ctx):
    rng = ctx.rng
    lines = []      # lean requests
    checks = []     # (kind, name, python observation, request index)
    inexact = 0
    wiring = []
    n_ref = 600 if ctx.thorough() else 40
    n_grid = 1000 if ctx.thorough() else 60
    n_ad = 1000 if ctx.thorough() else 60

    # ---- predicates: exhaustive sign patterns x magnitudes on python body and compiled function -----
    from hiten.algorithms.integrators import utils as U
    mags = [F(1), F(1, 2 ** 40), F(3, 8), F(10 ** 6)]
    for d in (-1, 0, 1, 2, -3):
        for sa in SIGNS:
            for sb in SIGNS:
                ma, mb = rng.choice(mags), rng.choice(mags)
                a, b = sa * ma, sb * mb
                for nm, fn, tag in (("EC", U._event_crossed, "_event_crossed"), ("CD", U._crossed_direction, "_crossed_direction")):
                    o1 = bool(fn(fx(a), fx(b), d))
                    o2 = bool(fn.py_func(fx(a), fx(b), d))
                    lines.append("%s %s %s %d" % (nm, rs(a), rs(b), d))
                    checks.append(("pred", tag, ("1" if o1 else "0", "1" if o2 else "0"), len(lines) - 1, (float(a), float(b), d)))
    for _ in range(30):
        a, b = dy(rng, 8, 0, 1), dy(rng, 8, 0, 1)
        gl, gm, mid = dy(rng, 4, -2, 2), dy(rng, 4, -2, 2), dy(rng, 9, 0, 1)
        c = rng.random() < 0.5
        o = U._bisection_update(fx(a), fx(b), fx(gl), fx(mid), fx(gm), c)
        lines.append("BU %s %s %s %s %s %d" % (rs(a), rs(b), rs(gl), rs(mid), rs(gm), 1 if c else 0))
        checks.append(("tuple", "_bisection_update", tuple(F(float(v)) for v in o), len(lines) - 1, None))
        h = rng.choice([-1, 1]) * F(2) ** rng.randint(-4, 3) * rng.choice([1, 3])
        xt = abs(b - a) * abs(h) + rng.choice([0, 0, F(1, 2 ** 30), -F(1, 2 ** 30)])
        o = U._bracket_converged(fx(a), fx(b), fx(h), fx(xt))
        lines.append("BC %s %s %s %s" % (rs(a), rs(b), rs(h), rs(xt)))
        checks.append(("pred1", "_bracket_converged", "1" if o else "0", len(lines) - 1, (float(a), float(b), float(h), float(xt))))
        hh, mx, mn = dy(rng, 5, 0, 2), dy(rng, 5, 0, 2), dy(rng, 5, 0, 1)
        lines.append("CL %s %s %s" % (rs(hh), rs(mx), rs(mn)))
        checks.append(("num", "_clamp_step", F(float(U._clamp_step(fx(hh), fx(mx), fx(mn)))), len(lines) - 1, None))
        t, te = dy(rng, 5, -2, 2), dy(rng, 5, -2, 2)
        lines.append("AJ %s %s %s" % (rs(t), rs(hh), rs(te)))
        checks.append(("num", "_adjust_step_to_endpoint", F(float(U._adjust_step_to_endpoint(fx(t), fx(hh), fx(te)))), len(lines) - 1, None))

    def observe(w, hit, t, y, ynew):
        return {"hit": hit, "t": F(t), "u": F(float(y[0])), "ynew": None if ynew is None else F(float(ynew[0])),
                "n_event": w.n_event, "n_dense": w.n_dense, "x": w.last_x, "steps": w.n_steps}

    # ---- the five refine loops ------------------------------------------------------------------------
    special = []
    # max_iter: root at 0+, tolerances unreachable -> 128 iterations, x = 2^-128
    special.append((Script([(-100, -1, 0), (F(0), -1, 0), (F(1, 2 ** 140), 1, 0)]), F(0), F(0), F(1), 1, F(1, 2 ** 300), F(0)))
    special.append((Script([(-100, 1, 0), (F(0), 1, 0), (F(1, 2 ** 140), -1, 0)]), F(0), F(0), F(1, 2), 0, F(1, 2 ** 300), F(1, 2 ** 20)))
    # xtol = 2^-128 |h| exactly: converges at iteration 128 by the bracket test
    special.append((Script([(-100, -1, 0), (F(1, 2 ** 140), 2, 0)]), F(0), F(0), F(2), 1, F(2, 2 ** 128), F(0)))
    # endpoint zero with same-sign start (no sign change): walks to b = 1
    special.append((Script([(-100, 1, 0), (F(1), 0, 0)]), F(0), F(0), F(1), 1, F(1, 2 ** 20), F(0)))
    special.append((Script([(-100, 1, 0), (F(1), 0, 0)]), F(1, 2), F(0), F(1), -1, F(1, 2 ** 20), F(1, 2 ** 40)))
    # hit exactly at the first midpoint
    special.append((Script([(-100, -1, 0), (F(1, 2), 0, 1)]), F(3), F(0), F(1), 0, F(1, 2 ** 30), F(0)))
    for kind in REFINERS:
        cases = list(special)
        for _ in range(n_ref):
            h = rng.choice([-1, 1, 1]) * F(2) ** rng.randint(-5, 2) * rng.choice([1, 1, 3])
            t0 = dy(rng, 4, -4, 4)
            u0 = dy(rng, 4, -2, 2)
            ulo, uhi = min(u0, u0 + h), max(u0, u0 + h)
            sc = gen_script(rng, ulo, uhi)
            xtol, gtol = gen_tols(rng, abs(h))
            cases.append((sc, t0, u0, h, rng.choice([-1, 0, 1]), xtol, gtol))
        for (sc, t0, u0, h, d, xtol, gtol) in cases:
            w = World(sc, t0, u0)
            try:
                t, y = run_refiner(kind, w, t0, h, d, fx(xtol), fx(gtol))
            except Inexact:
                inexact += 1
                continue
            except Wiring as ex:
                wiring.append(("refine:" + kind, str(ex), {"script": sc.toks(), "t0": rs(t0), "u0": rs(u0), "h": rs(h), "direction": d}))
                continue
            lines.append("RF %d %s %s %s %s %s %s ; %s" % (d, rs(t0), rs(h), rs(u0), rs(h), rs(xtol), rs(gtol), sc.toks()))
            checks.append(("refine", kind, observe(w, True, t, y, None), len(lines) - 1,
                           {"script": sc.toks(), "t0": rs(t0), "u0": rs(u0), "h": rs(h), "direction": d, "xtol": rs(xtol), "gtol": rs(gtol)}))

    # ---- grid drivers ---------------------------------------------------------------------------------
    for kind in GRID_DRIVERS:
        for ci in range(n_grid):
            n = rng.randint(1, 7)
            sgn = rng.choice([1, 1, -1])
            t0 = dy(rng, 3, -2, 2)
            ts = [t0]
            for _ in range(n):
                ts.append(ts[-1] + sgn * F(2) ** rng.randint(-4, 0) * rng.choice([1, 1, 3]))
            u0 = dy(rng, 3, -1, 1)
            span = ts[-1] - ts[0]
            ulo, uhi = min(u0, u0 + span), max(u0, u0 + span)
            if ci % 5 == 4:     # exhaustive-ish sign pattern scripts: constant sign per step interval, zeros at step ends
                pieces = [(ulo - 100, F(rng.choice([-1, 0, 1])), 0)]
                us = sorted(u0 + (t - t0) for t in ts)
                for uu in us:
                    pieces.append((uu, F(rng.choice([-1, 0, 1, 1, -1])), 0))
                sc = Script(pieces)
            elif ci % 5 in (1, 3):
                sc = gen_script_alt(rng, ulo, uhi)
            else:
                sc = gen_script(rng, ulo, uhi)
            xtol, gtol = gen_tols(rng, F(1, 16))
            d = rng.choice([-1, 0, 1])
            w = World(sc, t0, u0, dim=6 if kind == "symplectic" else 2)
            try:
                hit, t, y, ynew = run_grid_driver(kind, w, ts, d, fx(xtol), fx(gtol))
            except Inexact:
                inexact += 1
                continue
            except Wiring as ex:
                wiring.append(("driver:" + kind, str(ex), {"script": sc.toks(), "t_vals": [rs(t) for t in ts], "u0": rs(u0), "direction": d}))
                continue
            lines.append("SG %d %s %s %s ; %s ; %s" % (d, rs(xtol), rs(gtol), rs(u0), " ".join(rs(t) for t in ts), sc.toks()))
            checks.append(("scan", kind, observe(w, hit, t, y, ynew), len(lines) - 1,
                           {"script": sc.toks(), "t_vals": [rs(t) for t in ts], "u0": rs(u0), "direction": d, "xtol": rs(xtol), "gtol": rs(gtol)}))

    # ---- adaptive drivers -----------------------------------------------------------------------------
    for kind in ADAPTIVE_DRIVERS:
        for ci in range(n_ad):
            t0 = dy(rng, 3, -2, 2)
            tmax = t0 + dy(rng, 4, 0, 3) if rng.random() < 0.9 else t0 - dy(rng, 3, 0, 1)
            u0 = dy(rng, 3, -1, 1)
            minS = F(2) ** rng.randint(-8, -4)
            maxS = F(2) ** rng.randint(-2, 1)
            h0 = F(2) ** rng.randint(-6, 0)
            atts = []
            for _ in range(rng.randint(0, 30)):
                if rng.random() < 0.75:
                    atts.append((True, F(2) ** rng.randint(-2, 3)))
                else:
                    atts.append((False, F(2) ** rng.randint(-2, -1)))
            span = abs(tmax - t0) + 1
            sc = gen_script_alt(rng, u0, u0 + span - 1) if ci % 2 else gen_script(rng, u0 - F(1, 8), u0 + span)
            xtol, gtol = gen_tols(rng, minS)
            d = rng.choice([-1, 0, 1])
            w = World(sc, t0, u0, attempts=atts, h0=h0)
            try:
                hit, t, y, ynew = run_adaptive_driver(kind, w, t0, tmax, maxS, minS, d, fx(xtol), fx(gtol))
            except Inexact:
                inexact += 1
                continue
            except Wiring as ex:
                wiring.append(("driver:" + kind, str(ex), {"script": sc.toks(), "t0": rs(t0), "tmax": rs(tmax), "u0": rs(u0), "direction": d,
                                                          "attempts": [(a, rs(f_)) for a, f_ in atts]}))
                continue
            lines.append("SA %d %s %s %s %s %s %s %s %s 100000 ; %s ; %s" % (
                d, rs(xtol), rs(gtol), rs(u0), rs(t0), rs(tmax), rs(maxS), rs(minS), rs(h0),
                " ".join("%d %s" % (1 if a else 0, rs(f_)) for a, f_ in atts), sc.toks()))
            checks.append(("scan", kind, observe(w, hit, t, y, ynew), len(lines) - 1,
                           {"script": sc.toks(), "t0": rs(t0), "tmax": rs(tmax), "u0": rs(u0), "direction": d, "xtol": rs(xtol), "gtol": rs(gtol),
                            "max_step": rs(maxS), "min_step": rs(minS), "h0": rs(h0), "attempts": [(a, rs(f_)) for a, f_ in atts]}))

    out = [l for l in ctx.lean_run("Drivers/C11.lean", "\n".join(lines) + "\n") if l.strip()]
    if len(out) != len(lines):
        ctx.broken.append(("correspondence:driver", "lean driver answered %d lines for %d requests" % (len(out), len(lines))))
        ctx.obligations["correspondence:driver"] = False
        return
    bad = {}

    def mismatch(name, what, req, info):
        bad.setdefault(name, []).append((what, req, info))

    stats = {"hit": 0, "nohit": 0, "gtol": 0, "xtol": 0, "maxiter": 0}
    for kind, name, obs, li, info in checks:
        ans = out[li].split()
        if ans and ans[0] == "ERR":
            mismatch(name, "driver error " + out[li], lines[li], info)
            continue
        if kind == "pred":
            ctx.case(("pred", name, lines[li]), nontrivial=False, kind="predicate")
            if obs[0] != ans[0] or obs[1] != ans[0]:
                mismatch(name, "compiled=%s python=%s model=%s" % (obs[0], obs[1], ans[0]), lines[li], info)
        elif kind == "pred1":
            ctx.case(("pred", name, lines[li]), nontrivial=False, kind="predicate")
            if obs != ans[0]:
                mismatch(name, "code=%s model=%s" % (obs, ans[0]), lines[li], info)
        elif kind == "tuple":
            ctx.case(("pred", name, lines[li]), nontrivial=False, kind="predicate")
            if tuple(pr(a) for a in ans) != obs:
                mismatch(name, "code=%s model=%s" % (obs, ans), lines[li], info)
        elif kind == "num":
            ctx.case(("pred", name, lines[li]), nontrivial=False, kind="predicate")
            if pr(ans[0]) != obs:
                mismatch(name, "code=%s model=%s" % (obs, ans[0]), lines[li], info)
        elif kind == "refine":
            x, t, y, ex, iters = pr(ans[0]), pr(ans[1]), pr(ans[2]), ans[3], int(ans[4])
            stats[ex] += 1
            ctx.case(("refine", name, lines[li]), kind="refine:" + ex, sample={"refiner": name, "request": lines[li], "answer": out[li]} if li % 97 == 0 else None)
            exp_dense = iters + 1
            extra_ev = 1 if name.startswith("dop853") else 0      # the DOP853 loops also evaluate an (unused) g_right
            # the NUMBER of dense / event evaluations is cost, not behaviour (a refiner may reuse a value it already has): deviations
            # from the model's count are recorded, not treated as a disagreement
            if not (obs["n_dense"] == exp_dense and obs["n_event"] == iters + 1 + extra_ev):
                cd = ctx.extra.setdefault("evaluation_count_deviations", {})
                cd["refine:" + name] = cd.get("refine:" + name, 0) + 1
            if not (obs["x"] == x and obs["u"] == y and obs["t"] == F(float(t))):
                mismatch("refine:" + name, "code (x=%s,t=%s,u=%s,event calls=%d,dense calls=%d) model (x=%s,t=%s,u=%s,exit=%s,iters=%d)" % (
                    obs["x"], obs["t"], obs["u"], obs["n_event"], obs["n_dense"], x, t, y, ex, iters), lines[li], info)
        elif kind == "scan":
            if ans[0] == "HIT":
                idx, x, t, y, ex, iters, ynew = int(ans[1]), pr(ans[2]), pr(ans[3]), pr(ans[4]), ans[5], int(ans[6]), pr(ans[10])
                stats["hit"] += 1
                stats[ex] += 1
                ctx.case(("scan", name, lines[li]), kind="driver:hit", sample={"driver": name, "request": lines[li], "answer": out[li]} if li % 61 == 0 else None)
                ok = (obs["hit"] and obs["x"] == x and obs["u"] == y and obs["t"] == F(float(t))
                      and (obs["ynew"] is None or obs["ynew"] == ynew))
                # event evaluations (model: start + one per accepted step up to the hit step + g_left + midpoints) and dense evaluations are
                # cost, not behaviour: deviations are recorded only
                if not (obs["n_dense"] == iters + 1 and obs["n_event"] == 1 + (idx + 1) + 1 + iters + (1 if name.startswith("dop853") else 0)):
                    cd = ctx.extra.setdefault("evaluation_count_deviations", {})
                    cd["driver:" + name] = cd.get("driver:" + name, 0) + 1
                if not ok:
                    mismatch("driver:" + name, "code (hit=%s,x=%s,t=%s,u=%s,ynew=%s,event calls=%d,dense=%d) model %s" % (
                        obs["hit"], obs["x"], obs["t"], obs["u"], obs["ynew"], obs["n_event"], obs["n_dense"], out[li]), lines[li], info)
            elif ans[0] == "NOHIT":
                t, y = pr(ans[1]), pr(ans[2])
                stats["nohit"] += 1
                ctx.case(("scan", name, lines[li]), kind="driver:nohit")
                if not ((not obs["hit"]) and obs["t"] == F(float(t)) and obs["u"] == y):
                    mismatch("driver:" + name, "code (hit=%s,t=%s,u=%s) model %s" % (obs["hit"], obs["t"], obs["u"], out[li]), lines[li], info)
            else:
                mismatch("driver:" + name, "model answered " + out[li], lines[li], info)
    for nm, why, info in wiring:
        bad.setdefault(nm, []).append(("wiring: " + why, "", info))
    names = {("refine:" + k) for k in REFINERS} | {("driver:" + k) for k in GRID_DRIVERS + ADAPTIVE_DRIVERS} | {
        "_event_crossed", "_crossed_direction", "_bisection_update", "_bracket_converged", "_clamp_step", "_adjust_step_to_endpoint"}
    for nm in sorted(names):
        key = "correspondence:" + nm
        if nm in bad:
            what, req, info = bad[nm][0]
            ctx.obligations[key] = False
            ctx.broken.append((key, "%d disagreement(s); first: %s | request: %s" % (len(bad[nm]), what, req)))
            ctx.extra.setdefault("first_disagreements", {})[nm] = {"what": what, "request": req, "input": info}
        else:
            ctx.obligations[key] = True
    ctx.corr_cases += len(lines)
    ctx.extra["exact_correspondence"] = {"requests": len(lines), "skipped_inexact": inexact, "outcomes": stats, "wiring_errors": len(wiring)}
    ctx.log("exact correspondence: %d requests, outcomes %s, inexact skipped %d, disagreements %s" % (
        len(lines), stats, inexact, {k: len(v) for k, v in bad.items()}))
    return bad


# =====================================================================================================
# numerics / failing-input search on the compiled drivers through the public API
# =====================================================================================================

_SYS = {}


def systems():
    """Real hiten systems with exact flows; event parameters travel in constant state components so that one compiled
    event function / one compiled rhs serves every scenario (each new function type recompiles the numba drivers)."""
    if _SYS:
        return _SYS
    import numba
    from numba.typed import List
    from hiten.algorithms.dynamics.rhs import create_rhs_system
    from hiten.algorithms.dynamics.hamiltonian import create_hamiltonian_system
    from hiten.algorithms.polynomial.base import _create_encode_dict_from_clmo, _encode_multiindex, _init_index_tables
    from hiten.algorithms.integrators.symplectic import N_VARS_POLY, P_POLY_INDICES, Q_POLY_INDICES

    # generic: y = (x, v, w, a0, a1, a2, a3, a4, c);  x' = v, v' = -w^2 x, parameters constant
    @numba.njit(cache=False)
    def rhs9(t, y):
        out = np.zeros_like(y)
        out[0] = y[1]
        out[1] = -y[2] * y[2] * y[0]
        return out

    @numba.njit(numba.types.float64(numba.types.float64, numba.types.float64[:]), cache=False)
    def g9(t, y):
        return y[3] * y[0] + y[4] * y[1] + y[5] * y[0] * y[0] + y[6] * y[0] * y[1] + y[7] * t - y[8]

    _SYS["gen"] = (create_rhs_system(rhs9, dim=9, name="c11-oscillator"), g9)

    # Hamiltonian: H = (q1^2+p1^2)/2 (polynomial, 3 dof); q2,q3,p2,p3 are constants of motion and carry the event
    deg = 2
    psi, clmo = _init_index_tables(deg)
    enc = _create_encode_dict_from_clmo(clmo)
    H = [np.zeros(psi[N_VARS_POLY, d], dtype=np.complex128) for d in range(deg + 1)]
    for idx in (Q_POLY_INDICES[0], P_POLY_INDICES[0]):
        k = np.zeros(N_VARS_POLY, dtype=np.int64)
        k[idx] = 2
        H[2][_encode_multiindex(k, 2, enc)] += 0.5
    Hn = List()
    for a in H:
        Hn.append(a.copy())
    hs = create_hamiltonian_system(H_blocks=Hn, degree=deg, psi_table=psi, clmo_table=clmo, encode_dict_list=enc, n_dof=3, name="c11-harmonic")

    @numba.njit(numba.types.float64(numba.types.float64, numba.types.float64[:]), cache=False)
    def g6(t, y):
        # y = (q1,q2,q3,p1,p2,p3):  q2*q1 + q3*p1 + p2*q1*p1 - p3
        return y[1] * y[0] + y[2] * y[3] + y[4] * y[0] * y[3] - y[5]

    _SYS["ham"] = (hs, g6)
    return _SYS


def osc_exact(A, w, phi, t):
    """x = A cos(w t + phi), v = -A w sin(w t + phi)"""
    return A * np.cos(w * t + phi), -A * w * np.sin(w * t + phi)


def ref_crossings(Gf, t0, t1, n=6000):
    """all sign changes of G on (t0,t1] located by dense sampling + Brent: [(t, direction)]"""
    from scipy.optimize import brentq
    ts = np.linspace(t0, t1, n + 1)
    gs = Gf(ts)
    out = []
    prev_s, prev_i = 0, 0
    for i in range(len(ts)):
        s = int(np.sign(gs[i]))
        if s == 0:
            continue
        if prev_s != 0 and s != prev_s:
            tz = brentq(lambda t: float(Gf(np.array([t]))[0]), ts[prev_i], ts[i], xtol=1e-15, rtol=8.9e-16)
            out.append((tz, s))
        prev_s, prev_i = s, i
    return out


DRIVERS_GEN = ("fixed", "rk45", "dop853")
DRIVERS_HAM = ("fixed_ham", "rk45_ham", "dop853_ham", "symplectic")


def make_integrator(driver, rng, hmax):
    from hiten.algorithms.integrators.rk import AdaptiveRK, FixedRK
    from hiten.algorithms.integrators.symplectic import ExtendedSymplectic
    base = driver.replace("_ham", "")
    if base == "fixed":
        order = rng.choice([4, 6, 8])
        return FixedRK(order), {"class": "FixedRK", "order": order}
    if base == "symplectic":
        order = rng.choice([4, 6])
        return ExtendedSymplectic(order), {"class": "ExtendedSymplectic", "order": order}
    order = 5 if base == "rk45" else 8
    rtol = rng.choice([1e-8, 1e-10, 1e-12])
    return AdaptiveRK(order, rtol=rtol, atol=rtol * 1e-2, max_step=hmax), {"class": "AdaptiveRK", "order": order, "rtol": rtol, "atol": rtol * 1e-2, "max_step": hmax}


def gen_coarse(rng):
    """uniform motion x = v0 t (w = 0 in the generic system, exact for every RK method and dense output) on a grid with |h| = 64 >> 1:
    the only error left is the event location, which must respect xtol *in time* although the bracket lives in normalised step time"""
    v0 = 2.0 ** -6
    c = rng.uniform(1.05, 6.95)
    xtol = rng.choice([1e-6, 1e-8])
    direction = rng.choice([0, 1])

    def Gf(ts):
        return v0 * np.asarray(ts) - c

    return {"family": "gen", "kind": "coarse", "A": 8.0, "w": 0.0, "phi": 0.0, "t0": 0.0, "T": 512.0, "h": 64.0, "a": [1.0, 0.0, 0.0, 0.0, 0.0], "c": c,
            "direction": direction, "xtol": xtol, "gtol": 1e-15, "zeros": [(c / v0, 1)], "expected": (c / v0, 1), "gscale": v0, "dG": lambda t: v0, "Gf": Gf,
            "flow": lambda t: (v0 * t, v0 + 0.0 * t)}


def gen_scenario(rng, fam, kind=None, direction=None):
    """random oscillator scenario; returns dict or None when the event is not clean enough for an unambiguous reference"""
    force_kind, force_direction = kind, direction
    w = 1.0 if fam == "ham" else rng.choice([0.5, 1.0, 2.0, 3.0])
    A = rng.uniform(0.3, 2.0)
    phi = rng.uniform(-math.pi, math.pi)
    T = rng.uniform(1.0, 9.0) / w
    t0 = rng.choice([0.0, 0.0, rng.uniform(-2, 2)]) if fam == "gen" else 0.0
    h = rng.choice([0.01, 0.02, 0.04]) / w
    kind = rng.choice(["affine", "affine", "quad", "prod", "near", "onsurf"] + (["timedep"] if fam == "gen" else []))
    if force_kind is not None:
        kind = force_kind
    x0, v0 = osc_exact(A, w, phi, t0)
    a = [0.0] * 5
    if kind in ("affine", "near", "onsurf"):
        th = rng.uniform(0, 2 * math.pi)
        a[0], a[1] = math.cos(th), math.sin(th) / w
        R = A
        if kind == "affine":
            c = rng.uniform(-0.8, 0.8) * R
        elif kind == "near":
            c = a[0] * x0 + a[1] * v0 + rng.choice([-1, 1]) * 10 ** rng.uniform(-10, -6)
        else:
            a[0], a[1] = 1.0, 0.0
            c = float(x0)
    elif kind == "quad":
        a[2] = 1.0
        c = (rng.uniform(0.3, 0.8) * A) ** 2
    elif kind == "prod":
        a[3] = 1.0
        c = rng.uniform(-0.6, 0.6) * 0.5 * A * A * w
    elif kind == "clock":
        # purely time-dependent event "stop at time t*": g = t - t*
        a[4] = 1.0
        c = t0 + rng.uniform(0.2, 0.8) * T
    else:
        a[0] = 1.0
        a[4] = rng.uniform(-0.2, 0.2) * A * w
        c = rng.uniform(-0.5, 0.5) * A + a[4] * t0
    if fam == "ham":
        a[2] = 0.0   # no x^2 term in the 4-parameter Hamiltonian event
        if kind == "quad":
            return None
    direction = rng.choice([-1, 0, 1])
    if force_direction is not None:
        direction = force_direction
    xtol = rng.choice([1e-12, 1e-12, 1e-10, 1e-8, 1e-6, 1e-4])
    gtol = rng.choice([1e-12, 1e-12, 1e-15, 1e-9, 1e-6])
    # scale of the event function: separates the roles of xtol (time) and gtol (value)
    kappa = rng.choice([1.0, 1.0, 1e-3, 30.0]) if kind != "near" else 1.0
    a = [kappa * v for v in a]
    c = kappa * c

    def Gf(ts):
        x, v = osc_exact(A, w, phi, ts)
        return a[0] * x + a[1] * v + a[2] * x * x + a[3] * x * v + a[4] * ts - c

    def dG(t, e=1e-6):
        return float((Gf(np.array([t + e])) - Gf(np.array([t - e])))[0] / (2 * e))

    zs = ref_crossings(Gf, t0, t0 + T)
    gscale = max(1e-3, float(np.max(np.abs(np.gradient(Gf(np.linspace(t0, t0 + T, 2001)), T / 2000)))))
    sep_min = 6 * h
    times = [t0] + [z[0] for z in zs] + [t0 + T]
    for i, (tz, s) in enumerate(zs):
        if abs(dG(tz)) < 0.05 * gscale:
            return None
        if i > 0 and tz - zs[i - 1][0] < sep_min:
            return None
        if t0 + T - tz < sep_min:
            return None
        if i == 0 and kind not in ("near",) and tz - t0 < sep_min:
            return None
    # tangencies without sign change would be invisible to the reference: require |G| at its local extrema to be clear of 0
    tt = np.linspace(t0, t0 + T, 4001)
    gg = Gf(tt)
    ext = [k for k in range(1, len(tt) - 1) if (gg[k] - gg[k - 1]) * (gg[k + 1] - gg[k]) <= 0]
    if any(abs(gg[k]) < 0.02 * gscale for k in ext if tt[k] - t0 > 3 * h):
        return None
    adm = [z for z in zs if direction == 0 or z[1] == direction]
    return {"family": fam, "kind": kind, "A": A, "w": w, "phi": phi, "t0": t0, "T": T, "h": h, "a": a, "c": c, "direction": direction,
            "xtol": xtol, "gtol": gtol, "zeros": zs, "expected": adm[0] if adm else None, "gscale": gscale, "dG": dG, "Gf": Gf,
            "flow": lambda t: osc_exact(A, w, phi, t)}


def scenario_state(sc):
    x0, v0 = sc["flow"](sc["t0"])
    a, c = sc["a"], sc["c"]
    if sc["family"] == "gen":
        return np.array([x0, v0, sc["w"], a[0], a[1], a[2], a[3], a[4], c], dtype=float)
    # ham: (q1,q2,q3,p1,p2,p3) with q = x, p = v (w = 1)
    return np.array([x0, a[0], a[1], v0, a[3], c], dtype=float)


def run_scenario(ctx, sc, driver, rng):
    """returns list of (key, what, replay) problems"""
    from hiten.algorithms.types.configs import EventConfig
    from hiten.algorithms.types.options import EventOptions
    fam = sc["family"]
    sysm, gfn = systems()[fam]
    y0 = scenario_state(sc)
    n = max(2, int(round(sc["T"] / sc["h"])))
    tv = sc["t0"] + np.linspace(0.0, sc["T"], n + 1)
    h = sc["T"] / n
    integ, idesc = make_integrator(driver, rng, 4 * h)
    ix, iv = (0, 1) if fam == "gen" else (0, 3)
    A, w = sc["A"], sc["w"]
    scale = A * max(1.0, w)

    def exact(t):
        return np.array(sc["flow"](t), dtype=float)

    sol = integ.integrate(sysm, y0.copy(), tv, event_fn=gfn, event_cfg=EventConfig(direction=sc["direction"], terminal=True),
                          event_options=EventOptions(xtol=sc["xtol"], gtol=sc["gtol"]))
    plain = integ.integrate(sysm, y0.copy(), tv)
    ex = np.array([exact(t) for t in tv])
    err_plain = float(np.max(np.abs(plain.states[:, [ix, iv]] - ex)))
    grid = driver.startswith("fixed") or driver == "symplectic"
    if grid and plain.states.shape[0] == len(tv):
        # the integrator's own trajectory on the grid: the Lean scan decides from its event values in which step the hit must lie
        Gs = [float(gfn(float(tv[i]), np.ascontiguousarray(plain.states[i], dtype=np.float64))) for i in range(len(tv))]
        if all(abs(v) > 1e-13 * (1 + abs(sc["c"])) or v == 0.0 for v in Gs[1:]):
            ctx.extra.setdefault("_grid_checks", []).append((driver, sc["direction"], Gs, float(sol.times[-1]), tv, None))
    dense = (h * w) ** 4 * scale if grid else 100 * idesc["rtol"] * scale
    E = 50 * err_plain + 5 * dense + 1e-11 * scale
    t_end, y_end = float(sol.times[-1]), np.array(sol.states[-1], dtype=float)
    g_end = float(gfn(t_end, y_end))
    exp = sc["expected"]
    rep = {"system": "oscillator x'=v, v'=-w^2 x (%s)" % ("polynomial Hamiltonian H=(q1^2+p1^2)/2" if fam == "ham" else "generic rhs"),
           "driver": driver, "integrator": idesc, "y0": y0.tolist(), "t_vals": "t0 + linspace(0,%r,%d)" % (sc["T"], n + 1), "t0": sc["t0"],
           "event": "g = a0*x + a1*v + a2*x^2 + a3*x*v + a4*t - c", "a": sc["a"], "c": sc["c"], "direction": sc["direction"], "xtol": sc["xtol"],
           "gtol": sc["gtol"], "reference_zeros(t,dir)": [(float(t), int(s)) for t, s in sc["zeros"][:6]],
           "expected_first_admissible": None if exp is None else float(exp[0]), "observed_t": t_end,
           "observed_state": y_end[[ix, iv]].tolist(), "plain_integration_error": err_plain, "state_tolerance": E}
    if ctx.extra.get("_grid_checks") and ctx.extra["_grid_checks"][-1][5] is None and ctx.extra["_grid_checks"][-1][0] == driver:
        ctx.extra["_grid_checks"][-1] = ctx.extra["_grid_checks"][-1][:5] + (rep,)
    probs = []
    tmax = float(tv[-1])
    state_err = float(np.max(np.abs(y_end[[ix, iv]] - exact(t_end))))
    rep["state_error_vs_exact_flow"] = state_err
    marg = ctx.extra.setdefault("numeric_margins(max observed/allowed)", {}).setdefault(driver, {"time": 0.0, "state": 0.0, "g": 0.0})
    marg["state"] = max(marg["state"], state_err / E)
    if exp is None:
        if t_end != tmax:
            other = [z for z in sc["zeros"] if abs(z[0] - t_end) < 1e-4]
            if other:
                probs.append(("%s:direction-filter" % driver, "reports the crossing at t=%.12g although its direction %+d is filtered out (direction=%d)" % (
                    t_end, other[0][1], sc["direction"]), rep))
            else:
                probs.append(("%s:spurious-event" % driver, "reports an event at t=%.12g where the event function does not cross zero" % t_end, rep))
        elif state_err > E:
            probs.append(("%s:end-of-span-state" % driver, "no event: returned state is off the trajectory at the end of the span by %.3g (tolerance %.3g)" % (state_err, E), rep))
        return probs
    t_ref, s_ref = exp
    dg = abs(sc["dG"](t_ref))
    gradn = abs(sc["a"][0]) + abs(sc["a"][1]) + 2 * abs(sc["a"][2]) * A + abs(sc["a"][3]) * A * (1 + w) + 1e-9
    tol_t = 4 * sc["xtol"] + (4 * sc["gtol"] + gradn * E) / dg + 1e-12 * (1 + abs(t_ref))
    rep["time_tolerance"] = tol_t
    marg["time"] = max(marg["time"], abs(t_end - t_ref) / tol_t)
    if abs(t_end - t_ref) > tol_t:
        if t_end == tmax and abs(t_ref - tmax) > tol_t:
            probs.append(("%s:missed-event" % driver, "runs to the end of the span although g crosses zero (direction %+d) at t=%.12g" % (s_ref, t_ref), rep))
        else:
            other = [z for z in sc["zeros"] if abs(z[0] - t_end) < max(1e-4, tol_t) and z[0] != t_ref]
            if other and other[0][0] > t_ref:
                probs.append(("%s:not-first" % driver, "reports the crossing at t=%.12g but an admissible crossing occurs earlier at t=%.12g" % (t_end, t_ref), rep))
            elif other:
                probs.append(("%s:direction-filter" % driver, "reports the crossing at t=%.12g (direction %+d) which is filtered out by direction=%d; first admissible is t=%.12g" % (
                    t_end, other[0][1], sc["direction"], t_ref), rep))
            else:
                probs.append(("%s:time-accuracy" % driver, "event time %.15g differs from the exact first admissible crossing %.15g by %.3g (tolerance %.3g)" % (
                    t_end, t_ref, abs(t_end - t_ref), tol_t), rep))
        return probs
    if state_err > E:
        probs.append(("%s:off-trajectory" % driver, "state reported at the event is off the exact trajectory at the reported time by %.3g (tolerance %.3g, plain integration error %.3g)" % (
            state_err, E, err_plain), rep))
    gb = 4 * max(sc["gtol"], sc["gscale"] * 2 * sc["xtol"]) + 1e-13 * (1 + abs(sc["c"]))
    rep["g_at_event"] = g_end
    marg["g"] = max(marg["g"], abs(g_end) / gb)
    if abs(g_end) > gb:
        probs.append(("%s:g-not-zero" % driver, "|g| at the reported event is %.3g, location tolerances allow %.3g" % (abs(g_end), gb), rep))
    return probs


def cr3bp_checks(ctx, worst):
    """CR3BP against an independent SciPy reference (events of solve_ivp, rtol 1e-13): generic drivers and the
    plane-crossing wrapper `_cross_event_driven` used by orbit correction."""
    import numba
    from scipy.integrate import solve_ivp
    from hiten.algorithms.dynamics.rtbp import rtbp_dynsys, _crtbp_accel
    from hiten.algorithms.integrators.rk import AdaptiveRK, FixedRK
    from hiten.algorithms.types.configs import EventConfig
    from hiten.algorithms.types.options import EventOptions
    from hiten.algorithms.poincare.singlehit.backend import _SingleHitBackend
    from hiten.algorithms.poincare.core.events import _PlaneEvent
    rng = ctx.rng
    mu = 0.0121505856
    sysm = rtbp_dynsys(mu)

    @numba.njit(numba.types.float64(numba.types.float64, numba.types.float64[:]), cache=False)
    def gy(t, y):
        return y[1]

    def f(t, y):
        return _crtbp_accel.py_func(np.asarray(y, dtype=float), mu)

    n_cases = 10 if ctx.thorough() else 1
    done_cases = 0
    for ci in range(10 * n_cases):
        if done_cases >= n_cases:
            break
        # states near the L1 planar Lyapunov family / generic bounded states away from the primaries
        y0 = np.array([0.82 + rng.uniform(-0.01, 0.01), rng.choice([0.0, 0.02, -0.015]), rng.choice([0.0, 0.01]), rng.uniform(-0.01, 0.01),
                       0.12 + rng.uniform(-0.03, 0.03), 0.0])
        T = rng.uniform(2.5, 4.0)
        direction = rng.choice([-1, 0, 1])
        ev = lambda t, y: y[1]
        ev.direction = direction
        ref = solve_ivp(f, (0.0, T), y0, method="DOP853", rtol=1e-13, atol=1e-13, events=ev, dense_output=True)
        tz = [t for t in ref.t_events[0] if t > 1e-9]
        if np.min(np.hypot(ref.y[0] - (1 - mu), np.hypot(ref.y[1], ref.y[2]))) < 0.02 or (len(tz) > 1 and np.min(np.diff(tz)) < 0.2):
            continue
        exp = tz[0] if tz else None
        done_cases += 1
        drv = (("dop853", AdaptiveRK(8, rtol=1e-11, atol=1e-13, max_step=0.02)),)
        if ctx.thorough():
            drv += (("rk45", AdaptiveRK(5, rtol=1e-11, atol=1e-13, max_step=0.02)), ("fixed", FixedRK(8)))
        for driver, integ in drv:
            tv = np.linspace(0.0, T, int(T / 0.002) + 1)
            sol = integ.integrate(sysm, y0.copy(), tv, event_fn=gy, event_cfg=EventConfig(direction=direction, terminal=True),
                                  event_options=EventOptions(xtol=1e-12, gtol=1e-12))
            t_end, y_end = float(sol.times[-1]), np.array(sol.states[-1])
            ctx.case(("cr3bp", driver, ci), kind="numeric:cr3bp:" + driver)
            rep = {"system": "CR3BP mu=%r" % mu, "driver": driver, "y0": y0.tolist(), "span": [0.0, T], "event": "g = y (plane y=0)", "direction": direction,
                   "reference": "scipy solve_ivp DOP853 rtol=atol=1e-13 with events", "expected_first_admissible": exp, "observed_t": t_end}
            if exp is None:
                if t_end != float(tv[-1]):
                    worst.setdefault("%s:spurious-event" % driver, []).append(("CR3BP: event reported at t=%.12g, the reference finds none" % t_end, rep))
                continue
            yref = ref.sol(t_end)
            serr = float(np.max(np.abs(yref - y_end)))
            rep["state_error_vs_reference"] = serr
            if abs(t_end - exp) > 1e-7:
                worst.setdefault("%s:time-accuracy" % driver, []).append(("CR3BP: event time %.12g, reference first admissible crossing %.12g" % (t_end, exp), rep))
            elif serr > 1e-7 or abs(y_end[1]) > 1e-10:
                worst.setdefault("%s:off-trajectory" % driver, []).append(("CR3BP: event state differs from the reference trajectory by %.3g, |g|=%.3g" % (serr, abs(y_end[1])), rep))
        # the plane-crossing wrapper (forward propagation, any direction): first crossing in the window (t0, tmax)
        be = _SingleHitBackend()
        surf = _PlaneEvent(coord="y", value=0.0, direction=None)
        t0w = rng.choice([0.0, 0.3])
        any_ref = [t for t in solve_ivp(f, (0.0, T), y0, method="DOP853", rtol=1e-13, atol=1e-13, events=lambda t, y: y[1]).t_events[0] if t > t0w + 1e-6]
        try:
            setattr(surf, "offset", 0.0)
        except Exception:
            pass
        hit = be._cross_event_driven(y0.copy(), dynsys=sysm, surface=surf, t0=t0w, tmax=T, forward=1)
        ctx.case(("cr3bp", "wrapper", ci), kind="numeric:cr3bp:_cross_event_driven")
        rep = {"system": "CR3BP mu=%r" % mu, "call": "_SingleHitBackend()._cross_event_driven(y0, surface=_PlaneEvent('y',0,None), t0=%r, tmax=%r, forward=1)" % (t0w, T),
               "y0": y0.tolist(), "reference_crossings": any_ref[:4], "observed": None if hit is None else float(hit.time)}
        if any_ref and any_ref[0] < T - 1e-6:
            if hit is None:
                worst.setdefault("wrapper:missed-event", []).append(("_cross_event_driven finds no crossing, reference crosses y=0 at t=%.12g" % any_ref[0], rep))
            elif abs(hit.time - any_ref[0]) > 1e-7 or float(np.max(np.abs(ref.sol(hit.time) - hit.state))) > 1e-7:
                worst.setdefault("wrapper:first-crossing", []).append(("_cross_event_driven returns t=%.12g, reference first crossing after the window start is t=%.12g" % (hit.time, any_ref[0]), rep))
        elif not any_ref and hit is not None:
            worst.setdefault("wrapper:spurious-event", []).append(("_cross_event_driven returns t=%.12g, the reference finds no crossing" % hit.time, rep))
        # backward request: the span is traversed backwards in time; the reported time is the elapsed time
        hitb = be._cross_event_driven(y0.copy(), dynsys=sysm, surface=surf, t0=t0w, tmax=T, forward=-1)
        refb = solve_ivp(f, (0.0, -T), y0, method="DOP853", rtol=1e-13, atol=1e-13, events=lambda t, y: y[1], dense_output=True)
        back = [-t for t in refb.t_events[0] if -t > t0w + 1e-6]
        ctx.case(("cr3bp", "wrapper-backward", ci), kind="numeric:cr3bp:_cross_event_driven(forward=-1)")
        if hitb is not None:
            eb = float(np.max(np.abs(refb.sol(-hitb.time) - hitb.state)))
            ef = float(np.max(np.abs(ref.sol(hitb.time) - hitb.state))) if hitb.time <= T else None
            if eb > 1e-6:
                worst.setdefault("wrapper:forward-ignored", []).append((
                    "_cross_event_driven(forward=-1) returns t=%.12g with a state that is %.3g away from the backward trajectory at that elapsed time "
                    "(distance to the *forward* trajectory at +t: %s); backward reference crossings (elapsed): %s" % (
                        hitb.time, eb, "n/a" if ef is None else "%.3g" % ef, [round(b, 9) for b in back[:3]]),
                    {"system": "CR3BP mu=%r" % mu, "call": "_SingleHitBackend()._cross_event_driven(y0, surface=_PlaneEvent('y',0,None), t0=%r, tmax=%r, forward=-1)" % (t0w, T),
                     "y0": y0.tolist(), "observed_t": float(hitb.time), "observed_state": hitb.state.tolist(), "backward_reference_crossings_elapsed": back[:4],
                     "expected_state": refb.sol(-back[0]).tolist() if back else None}))
        elif back and back[0] < T - 1e-6:
            worst.setdefault("wrapper:forward-ignored", []).append((
                "_cross_event_driven(forward=-1) finds nothing, the backward reference crosses y=0 after elapsed t=%.12g" % back[0],
                {"system": "CR3BP mu=%r" % mu, "y0": y0.tolist(), "t0": t0w, "tmax": T, "backward_reference_crossings_elapsed": back[:4]}))


def backward_checks(ctx, worst):
    """backward spans (negative steps): the grid drivers on a strictly DECREASING time grid, and every driver on a `_DirectedSystem(.., -1)`
    (how `_propagate_dynsys(forward=-1)` and the single-hit backend run them).  Oscillator with exact flow, affine event, all direction
    filters; "first" and "direction" are meant along the integration, i.e. in s = |t - t0|."""
    from hiten.algorithms.dynamics.base import _DirectedSystem
    from hiten.algorithms.types.configs import EventConfig
    from hiten.algorithms.types.options import EventOptions
    rng = ctx.rng
    for fam, drivers in (("gen", DRIVERS_GEN), ("ham", DRIVERS_HAM)):
        sysm, gfn = systems()[fam]
        ix, iv = (0, 1) if fam == "gen" else (0, 3)
        for driver in drivers:
            grid = driver.startswith("fixed") or driver == "symplectic"
            modes = (["descending-grid"] if driver.startswith("fixed") else []) + ["directed-system"]
            for mode in modes:
                for direction in (0, 1, -1):
                    w = 1.0
                    A = rng.uniform(0.5, 1.5)
                    phi = rng.uniform(-math.pi, math.pi)
                    T = rng.uniform(5.0, 8.0)
                    h = 0.02
                    frac = rng.uniform(0.2, 0.7) * rng.choice([-1, 1])
                    c = frac * A
                    Gb = lambda ss: A * np.cos(w * (-np.asarray(ss)) + phi) - c          # event along the backward trajectory, s = -(t - t0)
                    zs = ref_crossings(Gb, 0.0, T)
                    adm = [z for z in zs if direction == 0 or z[1] == direction]
                    if not zs or zs[0][0] < 10 * h or any(b[0] - a[0] < 10 * h for a, b in zip(zs, zs[1:])) or (adm and T - adm[0][0] < 10 * h):
                        continue
                    x0, v0 = osc_exact(A, w, phi, 0.0)
                    y0 = np.array([x0, v0, w, 1.0, 0.0, 0.0, 0.0, 0.0, c]) if fam == "gen" else np.array([x0, 1.0, 0.0, v0, 0.0, c])
                    n = int(round(T / h))
                    integ, idesc = make_integrator(driver, rng, 4 * h)
                    xtol, gtol = 1e-10, 1e-12
                    if mode == "descending-grid":
                        tv, system = -np.linspace(0.0, T, n + 1), sysm
                    else:
                        tv, system = np.linspace(0.0, T, n + 1), _DirectedSystem(sysm, -1)
                    ctx.case(("backward", driver, mode, direction, round(A, 6), round(phi, 6)), kind="numeric:backward:%s:%s" % (driver, mode))
                    rep = {"system": "oscillator (%s)" % fam, "driver": driver, "integrator": idesc, "mode": mode, "y0": y0.tolist(), "T": T, "steps": n,
                           "event": "g = x - c", "c": c, "direction": direction, "xtol": xtol, "gtol": gtol,
                           "reference_zeros(s,dir)": [(float(a), int(b)) for a, b in zs[:6]]}
                    try:
                        sol = integ.integrate(system, y0.copy(), tv, event_fn=gfn, event_cfg=EventConfig(direction=direction, terminal=True),
                                              event_options=EventOptions(xtol=xtol, gtol=gtol))
                    except Exception as ex:
                        worst.setdefault("%s:backward-raises" % driver, []).append(("event integration on a backward span (%s) raised %r" % (mode, ex), rep))
                        continue
                    s_end = abs(float(sol.times[-1]))
                    y_end = np.array(sol.states[-1], dtype=float)
                    ex_state = np.array(osc_exact(A, w, phi, -s_end))
                    state_err = float(np.max(np.abs(y_end[[ix, iv]] - ex_state)))
                    # accuracy the same integrator achieves on the same span without an event (the symplectic scheme is less accurate than
                    # its nominal order, see C16): the event location may not add more than the dense-output error to it
                    plain = integ.integrate(system, y0.copy(), tv)
                    err_plain = float(np.max(np.abs(np.asarray(plain.states)[:, [ix, iv]] - np.array([osc_exact(A, w, phi, -abs(float(t))) for t in plain.times]))))
                    E = 50 * err_plain + 5 * ((h * w) ** 4 if grid else 100 * idesc["rtol"]) * A + 1e-9
                    rep["plain_integration_error"] = err_plain
                    rep.update({"observed_s": s_end, "observed_state": y_end[[ix, iv]].tolist(), "state_error_vs_exact_flow": state_err})
                    if not adm:
                        if abs(s_end - T) > 1e-9:
                            worst.setdefault("%s:backward:spurious-event" % driver, []).append((
                                "backward span (%s): reports an event at s=%.12g although no admissible crossing exists" % (mode, s_end), rep))
                        continue
                    s_ref = adm[0][0]
                    dG = abs(A * w * math.sin(w * (-s_ref) + phi))
                    tol_t = 4 * xtol + (4 * gtol + E) / dG + 1e-11
                    g_end = float(gfn(float(sol.times[-1]), np.ascontiguousarray(y_end)))
                    rep.update({"expected_first_admissible_s": s_ref, "time_tolerance": tol_t, "g_at_event": g_end})
                    if abs(s_end - s_ref) > tol_t:
                        worst.setdefault("%s:backward:time-accuracy" % driver, []).append((
                            "backward span (%s): event reported after |t - t0| = %.12g, the first admissible crossing along the backward trajectory is at %.12g "
                            "(difference %.3g, tolerance %.3g)" % (mode, s_end, s_ref, abs(s_end - s_ref), tol_t), rep))
                    elif state_err > E:
                        worst.setdefault("%s:backward:off-trajectory" % driver, []).append((
                            "backward span (%s): state at the event is off the exact backward trajectory by %.3g (tolerance %.3g)" % (mode, state_err, E), rep))
                    elif abs(g_end) > 4 * max(gtol, A * w * 2 * xtol) + 1e-13:
                        worst.setdefault("%s:backward:g-not-zero" % driver, []).append((
                            "backward span (%s): |g| at the reported event is %.3g" % (mode, abs(g_end)), rep))


def numerics(ctx):
    rng = ctx.rng
    systems()
    n_sc = 250 if ctx.thorough() else 16
    worst = {}
    nprob = 0
    for fam, drivers in (("gen", DRIVERS_GEN), ("ham", DRIVERS_HAM)):
        done = 0
        tries = 0
        forced = [gen_coarse(rng) for _ in range(3)] if fam == "gen" else []
        if fam == "gen":
            # explicitly time-dependent events (the event function must be evaluated at the time of the state it is given)
            for k_ in ("clock", "clock", "timedep"):
                for _ in range(200):
                    sc_ = gen_scenario(rng, fam, kind=k_, direction=rng.choice([0, 1]) if k_ == "clock" else None)
                    if sc_ is not None:
                        forced.append(sc_)
                        break
        # start points exactly ON the surface (g(t0, y0) == 0.0), every direction filter, leaving towards g > 0 and towards g < 0:
        # the start is not a crossing; the first admissible crossing after it must be reported
        for d_ in (-1, 0, 1):
            for leave in (1, -1):
                for _ in range(200):
                    sc_ = gen_scenario(rng, fam, kind="onsurf", direction=d_)
                    if sc_ is not None and np.sign(sc_["flow"](sc_["t0"])[1] * sc_["a"][0]) == leave:
                        forced.append(sc_)
                        break
        while done < n_sc + len(forced) and tries < 40 * n_sc:
            tries += 1
            sc = forced[done] if done < len(forced) else gen_scenario(rng, fam)
            if sc is None:
                continue
            done += 1
            for driver in drivers:
                probs = run_scenario(ctx, sc, driver, rng)
                ctx.case((driver, sc["kind"], sc["direction"], round(sc["A"], 6), round(sc["phi"], 6), sc["xtol"]), kind="numeric:%s:%s" % (driver, "hit" if sc["expected"] else "nohit"),
                         sample={"driver": driver, "kind": sc["kind"], "direction": sc["direction"], "expected": None if sc["expected"] is None else float(sc["expected"][0])} if done <= 1 else None)
                for key, what, rep in probs:
                    nprob += 1
                    worst.setdefault(key, []).append((what, rep))
    cr3bp_checks(ctx, worst)
    backward_checks(ctx, worst)
    # ---- first admissible step on the compiled grid drivers, decided by the Lean scan from their own trajectories
    gc = ctx.extra.pop("_grid_checks", [])
    if gc:
        lines = ["RS %d ; %s" % (d, " ".join(rs(F(v)) for v in Gs)) for (_, d, Gs, _, _, _) in gc]
        out = [l for l in ctx.lean_run("Drivers/C11.lean", "\n".join(lines) + "\n") if l.strip()]
        nok = 0
        for (driver, d, Gs, t_end, tv, rep), ans in zip(gc, out):
            a = ans.split()
            ctx.case(("gridscan", driver, lines[nok][:80]), kind="grid-first-step")
            nok += 1
            if a[0] == "HIT":
                i = int(a[1])
                lo, hi = sorted((float(tv[i]), float(tv[i + 1])))
                if not (lo - 1e-12 <= t_end <= hi + 1e-12):
                    worst.setdefault("%s:first-step" % driver, []).append((
                        "along the integrator's own grid trajectory the first step whose end values satisfy the crossing test is step %d = [%.12g, %.12g] "
                        "but the event is reported at t=%.12g" % (i, lo, hi, t_end), dict(rep or {}, grid_event_values_first=Gs[:i + 2])))
            elif a[0] == "NOHIT":
                if t_end != float(tv[-1]):
                    worst.setdefault("%s:first-step" % driver, []).append((
                        "no step of the integrator's own grid trajectory satisfies the crossing test but an event is reported at t=%.12g" % t_end, rep or {}))
        ctx.extra["grid_first_step_checks"] = len(gc)
    for key, lst in worst.items():
        what, rep = lst[0]
        ctx.violation(key, what + (" (and %d more scenarios with the same key)" % (len(lst) - 1) if len(lst) > 1 else ""), rep)
    ctx.extra["numeric_scenarios_per_family"] = n_sc
    ctx.log("numerics: %d scenarios per family, %d problems" % (n_sc, nprob))


# =====================================================================================================
# T-corr replay: python control flow + compiled kernels on real systems, oracle answers replayed by the Lean model
# =====================================================================================================

class Recorder:
    def __init__(self, gfn):
        self.gfn = gfn
        self.log = []

    def event(self, t, y):
        v = float(self.gfn(float(t), np.ascontiguousarray(y, dtype=np.float64)))
        self.log.append(("g", float(t), v))
        return v

    def step(self, fn, tpos, hpos):
        def wrapped(*a, **k):
            self.log.append(("step", float(a[tpos]), float(a[hpos])))
            return fn(*a, **k)
        return wrapped

    def sympl_step(self, fn):
        def wrapped(q_ext, dt, *a, **k):
            self.log.append(("step", None, float(dt)))
            return fn(q_ext, dt, *a, **k)
        return wrapped

    def dense(self, fn, xpos):
        def wrapped(*a, **k):
            self.log.append(("x", float(a[xpos])))
            return fn(*a, **k)
        return wrapped


def hybrid(fn, rec):
    """python body of `fn` (and of the refine loops / predicates it calls) with every numerical kernel left compiled"""
    from hiten.algorithms.integrators import rk, symplectic as sy, utils as U
    leaf = {
        "rk_embedded_step_jit_kernel": rec.step(rk.rk_embedded_step_jit_kernel, 1, 3),
        "rk_embedded_step_ham_jit_kernel": rec.step(rk.rk_embedded_step_ham_jit_kernel, 0, 2),
        "rk45_step_jit_kernel": rec.step(rk.rk45_step_jit_kernel, 1, 3),
        "rk45_step_ham_jit_kernel": rec.step(rk.rk45_step_ham_jit_kernel, 0, 2),
        "dop853_step_jit_kernel": rec.step(rk.dop853_step_jit_kernel, 1, 3),
        "dop853_step_ham_jit_kernel": rec.step(rk.dop853_step_ham_jit_kernel, 0, 2),
        "_hermite_eval_dense": rec.dense(rk._hermite_eval_dense, 4),
        "_hermite_eval_dense_symplectic": rec.dense(sy._hermite_eval_dense_symplectic, 4),
        "_rk45_build_Q_cache": rk._rk45_build_Q_cache, "_rk45_eval_dense": rec.dense(rk._rk45_eval_dense, 3),
        "_dop853_build_dense_cache": rk._dop853_build_dense_cache, "_dop853_eval_dense": rec.dense(rk._dop853_eval_dense, 3),
        "_hamiltonian_rhs": rk._hamiltonian_rhs,
        "_recursive_update_poly": rec.sympl_step(sy._recursive_update_poly),
        "_eval_hamiltonian_derivative": sy._eval_hamiltonian_derivative, "_get_tao_omega": sy._get_tao_omega,
        "_pi_accept_factor": U._pi_accept_factor, "_pi_reject_factor": U._pi_reject_factor,
        "_select_initial_step": U._select_initial_step, "_error_scale": U._error_scale,
    }
    return T.retarget(fn, leaf, shim=np)


def run_hybrid(driver, integ, sysm, gfn, y0, tv, direction, xtol, gtol):
    """mirror of the `integrate(..)` wrappers: call the low-level event driver `driver` (python body) on real data"""
    from hiten.algorithms.integrators import rk, symplectic as sy
    from hiten.algorithms.integrators.coefficients import dop853 as c8, rk45 as c45
    rec = Recorder(gfn)
    base = driver.replace("_ham", "")
    ham = driver.endswith("_ham")
    if ham or base == "symplectic":
        jac_H, clmo_H, n_dof = sysm.rhs_params
    else:
        f = integ._build_rhs_wrapper(sysm)
    if base == "fixed":
        if ham:
            r = hybrid(rk._FixedStepRK._integrate_fixed_rk_until_event_ham, rec)(
                y0, tv, integ._A, integ._B_HIGH, integ._C, rec.event, direction, 1, xtol, gtol, jac_H, clmo_H, n_dof)
        else:
            r = hybrid(rk._FixedStepRK._integrate_fixed_rk_until_event, rec)(
                f, y0, tv, integ._A, integ._B_HIGH, integ._C, rec.event, direction, 1, xtol, gtol)
        hit, t, y = bool(r[0]), float(r[1]), np.array(r[2], dtype=float)
    elif base == "symplectic":
        r = hybrid(sy._integrate_symplectic_until_event, rec)(
            y0, tv, sysm.jac_H, sysm.clmo_H, integ._order, rec.event, direction, xtol, gtol, integ.c_omega_heuristic)
        hit, t, y = bool(r[0]), float(r[1]), np.array(r[2], dtype=float)
    else:
        common = dict(y0=y0, t0=float(tv[0]), tmax=float(tv[-1]), A=integ._A, B_HIGH=integ._B_HIGH, C=integ._C, rtol=integ._rtol, atol=integ._atol,
                      max_step=integ._max_step, min_step=integ._min_step, order=integ._p, event_fn=rec.event, direction=direction, terminal=1,
                      xtol=xtol, gtol=gtol)
        if base == "rk45":
            if ham:
                r = hybrid(rk._RK45._integrate_rk45_until_event_ham, rec)(E=integ._E, P=c45.P, jac_H=jac_H, clmo_H=clmo_H, n_dof=n_dof, **common)
            else:
                r = hybrid(rk._RK45._integrate_rk45_until_event, rec)(f=f, E=integ._E, P=c45.P, **common)
        else:
            dop = dict(E5=integ._E5, E3=integ._E3, D=c8.D, n_stages_extended=c8.N_STAGES_EXTENDED, interpolator_power=c8.INTERPOLATOR_POWER,
                       A_full=c8.A, C_full=c8.C)
            if ham:
                r = hybrid(rk._DOP853._integrate_dop853_until_event_ham, rec)(jac_H=jac_H, clmo_H=clmo_H, n_dof=n_dof, **dop, **common)
            else:
                r = hybrid(rk._DOP853._integrate_dop853_until_event, rec)(f=f, **dop, **common)
        hit, t, y = bool(r[0]), float(r[1]), np.array(r[2], dtype=float)
    return hit, t, y, rec.log


def parse_log(log, dop):
    """-> (end-of-step event values [g0, g1, ...], accepted steps [(t,h)], refine record or None)"""
    assert log and log[0][0] == "g"
    gs = [log[0][2]]
    steps = []
    i = 1
    cur = None
    refine = None
    tcur = log[0][1]
    while i < len(log):
        e = log[i]
        if e[0] == "step":
            cur = (e[1] if e[1] is not None else tcur, e[2])
            i += 1
        elif e[0] == "g" and cur is not None:
            gs.append(e[2])
            steps.append(cur)
            tcur = e[1]
            cur = None
            i += 1
            if i < len(log) and log[i][0] == "g":      # the refinement starts: g_left (and g_right for DOP853)
                gl0 = log[i][2]
                # g_left, possibly followed by further event evaluations before the first dense evaluation (the DOP853 loops used to
                # evaluate an unused g_right): skip every event record up to the first dense record
                i += 1
                while i < len(log) and log[i][0] == "g":
                    i += 1
                pairs = []
                xs = []
                while i < len(log):
                    if log[i][0] == "x":
                        xs.append(log[i][1])
                        if i + 1 < len(log) and log[i + 1][0] == "g":
                            pairs.append((log[i][1], log[i + 1][2]))
                            i += 2
                        else:
                            i += 1
                    else:
                        raise ValueError("unexpected record inside the refinement: %r" % (log[i],))
                # the hit is the last point at which the dense output was evaluated (a refiner may return the midpoint it already has
                # instead of evaluating the dense output there once more)
                refine = {"gl0": gl0, "pairs": pairs, "x_hit": xs[-1] if xs else None, "n_dense": len(xs)}
        else:
            raise ValueError("unexpected record %r at %d" % (e, i))
    return gs, steps, refine


def corr_replay(ctx):
    from hiten.algorithms.types.configs import EventConfig
    from hiten.algorithms.types.options import EventOptions
    rng = ctx.rng
    systems()
    n_sc = 25 if ctx.thorough() else 3
    lines, checks = [], []
    bad = {}

    def mismatch(name, what, info):
        bad.setdefault(name, []).append((what, info))

    for fam, drivers in (("gen", DRIVERS_GEN), ("ham", DRIVERS_HAM)):
        sysm, gfn = systems()[fam]
        done = 0
        while done < n_sc:
            sc = gen_scenario(rng, fam)
            if sc is None or (done == 0 and sc["expected"] is None):
                continue
            done += 1
            y0 = scenario_state(sc)
            n = max(2, int(round(sc["T"] / sc["h"])))
            tv = sc["t0"] + np.linspace(0.0, sc["T"], n + 1)
            for driver in drivers:
                integ, idesc = make_integrator(driver, rng, 4 * sc["T"] / n)
                info = {"driver": driver, "integrator": idesc, "y0": y0.tolist(), "t0": sc["t0"], "T": sc["T"], "n_grid": n + 1, "a": sc["a"], "c": sc["c"],
                        "direction": sc["direction"], "xtol": sc["xtol"], "gtol": sc["gtol"]}
                try:
                    hit, t, y, log = run_hybrid(driver, integ, sysm, gfn, y0.copy(), tv, sc["direction"], sc["xtol"], sc["gtol"])
                    gs, steps, refine = parse_log(log, driver.startswith("dop853"))
                except Exception as ex:   # the python body no longer has the shape the recorder understands
                    mismatch("replay:" + driver, "could not record the run: %r" % (ex,), info)
                    continue
                sol = integ.integrate(sysm, y0.copy(), tv, event_fn=gfn, event_cfg=EventConfig(direction=sc["direction"], terminal=True),
                                      event_options=EventOptions(xtol=sc["xtol"], gtol=sc["gtol"]))
                tc, yc = float(sol.times[-1]), np.array(sol.states[-1], dtype=float)
                ctx.case(("replay", driver, done, fam), kind="replay:" + ("hit" if hit else "nohit"))
                # compiled driver (public API) vs python control flow over the same compiled kernels
                if driver.startswith("fixed") or driver == "symplectic":
                    tol_c = 1e-12 * (1 + abs(t))       # identical step sequence: only rounding may differ
                else:
                    # python-level and compiled error norms differ in the last bits -> slightly different step sequences
                    dgm = max(abs(sc["dG"](t)), 0.05 * sc["gscale"]) if hit else 1.0
                    tol_c = 4 * sc["xtol"] + 4 * sc["gtol"] / dgm + 1e3 * idesc["rtol"] * (1 + abs(t))
                vmax = sc["A"] * max(1.0, sc["w"]) * max(1.0, sc["w"])
                if not (abs(tc - t) <= tol_c and np.max(np.abs(yc - y)) <= 2 * vmax * tol_c + 1e3 * idesc.get("rtol", 1e-15) * vmax):
                    mismatch("compiled-vs-python:" + driver, "compiled driver returns t=%.15g, python body of the same driver t=%.15g (state diff %.3g)" % (
                        tc, t, float(np.max(np.abs(yc - y)))), info)
                lines.append("RS %d ; %s" % (sc["direction"], " ".join(rs(F(v)) for v in gs)))
                checks.append(("scan", driver, (hit, len(gs) - 1), len(lines) - 1, info))
                if hit:
                    if refine is None or not steps:
                        mismatch("replay:" + driver, "hit without a recorded refinement", info)
                        continue
                    ts_, hs_ = steps[-1]
                    lines.append("RP %d %s %s %s %s %s ; %s" % (sc["direction"], rs(F(ts_)), rs(F(hs_)), rs(F(sc["xtol"])), rs(F(sc["gtol"])), rs(F(refine["gl0"])),
                                                                " ".join("%s %s" % (rs(F(a)), rs(F(b))) for a, b in refine["pairs"])))
                    checks.append(("refine", driver, (refine, t), len(lines) - 1, info))
    out = [l for l in ctx.lean_run("Drivers/C11.lean", "\n".join(lines) + "\n") if l.strip()]
    if len(out) != len(lines):
        ctx.broken.append(("correspondence:replay", "lean driver answered %d lines for %d requests" % (len(out), len(lines))))
        ctx.obligations["correspondence:replay"] = False
        return
    for kind, driver, obs, li, info in checks:
        ans = out[li].split()
        if kind == "scan":
            hit, k = obs
            exp = "HIT %d" % (k - 1) if hit else "NOHIT %d" % k
            if out[li].strip() != exp:
                mismatch("replay:" + driver, "scan over the recorded end-of-step event values: code %s, model %s" % (exp, out[li]), dict(info, request=lines[li][:400]))
        else:
            refine, t = obs
            if ans[0] == "MISSING":
                mismatch("replay:" + driver, "model evaluates the event function at θ=%s which the code never did" % ans[1], dict(info, request=lines[li][:400]))
                continue
            x, tm, iters = pr(ans[0]), pr(ans[1]), int(ans[3])
            ok = (F(refine["x_hit"]) == x and iters == len(refine["pairs"])
                  and abs(float(tm) - t) <= 4e-16 * (1 + abs(t)))
            if not ok:
                mismatch("replay:" + driver, "bisection replay: code (θ=%r, %d evaluations, t=%.17g) model (θ=%s, %d, t=%.17g, exit %s)" % (
                    refine["x_hit"], len(refine["pairs"]), t, x, iters, float(tm), ans[2]), dict(info, request=lines[li][:400]))
    for driver in DRIVERS_GEN + DRIVERS_HAM:
        for pre in ("replay:", "compiled-vs-python:"):
            key = "correspondence:" + pre + driver
            if pre + driver in bad:
                what, info = bad[pre + driver][0]
                ctx.obligations[key] = False
                ctx.broken.append((key, "%d disagreement(s); first: %s" % (len(bad[pre + driver]), what)))
                ctx.extra.setdefault("first_disagreements", {})[pre + driver] = {"what": what, "input": info}
            else:
                ctx.obligations[key] = True
    ctx.corr_cases += len(lines)
    ctx.extra["replay_correspondence"] = {"requests": len(lines), "disagreements": {k: len(v) for k, v in bad.items()}}
    ctx.log("replay correspondence: %d requests, disagreements %s" % (len(lines), {k: len(v) for k, v in bad.items()}))


def run(ctx):
    ctx.guard("regenerate", gen, ctx)
    ok = ctx.lean_build(["HitenModel.Props.C11"])
    if ok:
        ctx.lean_audit(["HitenModel.Props.C11"], ["HitenModel.Props.C11", "HitenModel.Gen.C11", "HitenModel.Core.C11", "HitenModel.Lemmas.C11"])
        if ctx.thorough():
            ctx.leanchecker(["HitenModel.Props.C11"])
    ctx.guard("corr_exact", corr_exact, ctx)
    ctx.guard("corr_replay", corr_replay, ctx)
    numerics(ctx)
    ctx.rule = ("scripted dyadic worlds (piecewise-affine event scripts, step grids / accept-reject-factor scripts, tolerances) per "
                "refine loop and driver + recorded replays + numerical scenarios (system x driver x event x direction x tolerance); "
                "distinct by full request; non-trivial = the request reaches a driver or refine loop (predicate-only lines are counted trivial)")


