"""C05 — a successful differential correction yields a genuinely periodic orbit.

Proof part (solver sentences): Lean model `Core/C05.lean` of `_NewtonBackend.run`, `_ArmijoLineSearch.__call__` and the
plain stepper over an ordered field with oracle residual norm / Newton direction; theorems in `Props/C05.lean`
(never_returns_unconverged, armijo_monotone, armijo_step_capped, armijo_terminates, Newton-level chains, production
corollary for the shipped parameters regenerated into `Gen/C05.lean`).

Tie:  (1) `Gen/C05.lean` is regenerated from the live objects (the `_ArmijoLineSearch` instance that
`make_armijo_stepper()` really builds, every family's default options, the stepper the orbit services install);
(2) exact oracle-replay correspondence: the REAL `_ArmijoLineSearch`, `_CorrectorPlainStep` and `_NewtonBackend` are run on
adversarial residual tables (non-monotone, NaN, exceptions) with dyadic data chosen so that every float operation is
exact; the recorded oracle answers are replayed through `Drivers/C05.lean` (same definitions at K = Rat) and every
output (branch, point, norm, alpha, trial count, outcome, iteration count, iterate history) is compared for equality.
Every real run is additionally checked *directly* against the property (failing-input search with concrete replay).

Numerics (periodicity sentence, partial): real orbits (halo N/S, Lyapunov, vertical; L1/L2; several mass ratios) are
corrected and closed with an independent SciPy DOP853 propagation of the CR3BP field; closure is reported relative to
(1+|M|)·tol (M = monodromy by finite differences of the SciPy flow); the reported residual is recomputed; line-search
monotonicity / step cap are observed on the real correction runs; unconverged cases must raise and leave the orbit
untouched."""
from __future__ import annotations

import dataclasses
import json
import math
from fractions import Fraction

import numpy as np

ODD = [1, 3, 5, 7, 15, 21, 35, 105]
_reported = set()


def viol_once(ctx, key, what, replay):
    if key in _reported:
        return
    _reported.add(key)
    ctx.violation(key, what, replay)


# ----------------------------------------------------------------------------------------------------------
# exact helpers
# ----------------------------------------------------------------------------------------------------------

def fr(x):
    return Fraction(float(x))


def sr(q):
    q = Fraction(q)
    return str(q.numerator) if q.denominator == 1 else "%d/%d" % (q.numerator, q.denominator)


def svec(v):
    return " ".join(sr(fr(a)) for a in v)


def svec0(v):
    """direction vector for the model; a direction with NaN components (only arises from a NaN residual, where the line
    search result does not depend on it) is replaced by zeros"""
    v = np.asarray(v, dtype=float)
    if np.isnan(v).any():
        v = np.zeros_like(v)
    return svec(v)


def pr(s):
    if "/" in s:
        a, b = s.split("/")
        return Fraction(int(a), int(b))
    return Fraction(int(s))


def pvec(ws):
    return [pr(w) for w in ws]


def grid_values():
    """sorted list of the admissible norm values o·2^e (odd part divides 105 so that cap ratios are exact)"""
    vals = set()
    for o in ODD:
        for e in range(-9, 2):
            v = Fraction(o) * Fraction(2) ** e
            if v <= 4:
                vals.add(v)
    return sorted(vals)


GRID = grid_values()


def grid_near(rng, cur, mode):
    """pick a grid value relative to `cur` (a Fraction)"""
    import bisect
    i = bisect.bisect_left(GRID, cur)
    if mode == "big-decrease":
        j = rng.randrange(0, max(1, i // 2 + 1))
    elif mode == "decrease":
        j = max(0, i - rng.randrange(1, 12))
    elif mode == "slight-decrease":
        j = max(0, i - 1)
    elif mode == "equal":
        return cur
    elif mode == "slight-increase":
        j = min(len(GRID) - 1, i + 1)
    else:
        j = min(len(GRID) - 1, i + rng.randrange(1, 30))
    return GRID[j]


class Oracle:
    """lazily random residual/norm oracle on exact points; records every answer"""

    def __init__(self, rng, dim, norm_mode, weights, p_nan=0.06, p_exc=0.06):
        self.rng = rng
        self.dim = dim
        self.norm_mode = norm_mode      # 'first' | 'l2' | 'inf'
        self.weights = weights          # distribution over modes relative to the reference norm
        self.p_nan = p_nan
        self.p_exc = p_exc
        self.table = {}                 # key -> (kind, value Fraction|None, residual vector)
        self.order = []
        self.ref = Fraction(1)          # reference (current) norm for drawing new values
        self.forced = {}                # key -> (kind, value)
        self.in_stepper = False
        self.main_queries = []          # (key, kind, value) for queries outside the stepper
        self.nq = 0

    def key(self, x):
        return tuple(float(a) for a in np.asarray(x, dtype=float).ravel())

    def _draw(self, k):
        if k in self.forced:
            return self.forced[k]
        u = self.rng.random()
        if u < self.p_nan:
            return ("nan", None)
        if u < self.p_nan + self.p_exc:
            return (self.rng.choice(["exc_res", "exc_norm"]), None)
        modes, w = zip(*self.weights.items())
        mode = self.rng.choices(modes, w)[0]
        return ("val", grid_near(self.rng, self.ref, mode))

    def entry(self, x):
        k = self.key(x)
        if k not in self.table:
            kind, v = self._draw(k)
            r = np.zeros(self.dim)

            def other():
                return Fraction(self.rng.choice(ODD)) * Fraction(2) ** self.rng.randrange(-8, 1) * self.rng.choice([1, -1, 0])
            if self.norm_mode in ("first", "inf"):
                # custom norm: component 0 carries the norm (or a marker), the others only shape the Newton direction
                for i in range(1, self.dim):
                    w = other()
                    if self.norm_mode == "inf" and kind == "val":
                        while v > 0 and abs(w) > v:
                            w /= 2
                        if v == 0:
                            w = Fraction(0)
                    r[i] = float(w)
                r[0] = {"val": float(v) if v is not None else 0.0, "nan": -2.0, "exc_norm": -1.0, "exc_res": 0.0}[kind]
            else:
                r[0] = {"val": float(v) if v is not None else 0.0, "nan": float("nan"), "exc_norm": 0.0, "exc_res": 0.0}[kind]
            self.table[k] = (kind, v, r)
            self.order.append(k)
        return k, self.table[k]

    def residual_fn(self, x):
        self.nq += 1
        k, (kind, v, r) = self.entry(x)
        if not self.in_stepper:
            self.main_queries.append((k, "exc" if kind.startswith("exc") else kind, v))
        if kind == "exc_res":
            raise RuntimeError("oracle: residual evaluation failed")
        return r.copy()

    def norm_callable(self):
        if self.norm_mode == "l2":
            return None

        def nf(r):
            if r[0] == -1.0:
                raise FloatingPointError("oracle: norm evaluation failed")
            if r[0] == -2.0:
                return float("nan")
            if self.norm_mode == "first":
                return float(r[0])
            return float(np.linalg.norm(r, ord=np.inf))
        return nf

    def stepper_norm(self):
        nf = self.norm_callable()
        if nf is not None:
            return nf
        return lambda r: float(np.linalg.norm(r))

    def lines(self):
        out = []
        for k in self.order:
            kind, v, _ = self.table[k]
            if any(math.isnan(a) for a in k):
                continue
            if kind == "val":
                out.append("n | %s | val %s" % (svec(k), sr(v)))
            elif kind == "nan":
                out.append("n | %s | nan" % svec(k))
            else:
                out.append("n | %s | exc" % svec(k))
        return out


class L2Oracle(Oracle):
    """variant for the default norm (norm_fn=None -> float(np.linalg.norm(r))): r = [v, 0, ...]; a raising norm cannot be
    expressed, so exc_norm is mapped to exc_res"""

    def _draw(self, k):
        kind, v = super()._draw(k)
        if kind == "exc_norm":
            kind = "exc_res"
        return kind, v


def rand_vec(rng, dim, lo=-6, hi=1, allow_zero=True):
    v = []
    for _ in range(dim):
        s = rng.choice([1, -1] + ([0] if allow_zero else []))
        v.append(float(Fraction(rng.choice(ODD)) * Fraction(2) ** rng.randrange(lo, hi) * s))
    return np.array(v)


def rand_cfg(rng):
    rho = rng.choice([Fraction(1, 2), Fraction(1, 2), Fraction(1, 4), Fraction(3, 4)])
    if rho == Fraction(3, 4):
        min_alpha = rng.choice([Fraction(1, 8), Fraction(1, 16), Fraction(81, 256)])
    else:
        min_alpha = rng.choice([Fraction(1, 16), Fraction(1, 64), fr(1e-4), Fraction(1, 2), Fraction(1)])
    c = rng.choice([Fraction(1, 8), Fraction(1, 16), Fraction(1, 4), fr(0.1), fr(0.1), Fraction(0), Fraction(1, 2)])
    md = rng.choice([None, float("inf"), 105 / 2 ** 10, 105 / 2 ** 8, 105 / 2 ** 12, 105 / 2 ** 6, 105 / 2 ** 14])
    return rho, min_alpha, c, md


def cfg_line(rho, min_alpha, c, md):
    mds = "none" if (md is None or math.isinf(md)) else sr(fr(md))
    return "cfg %s %s %s %s" % (mds, sr(rho), sr(min_alpha), sr(c))


WEIGHTS = [
    {"big-decrease": 3, "decrease": 3, "slight-decrease": 2, "equal": 1, "slight-increase": 1, "increase": 2},
    {"big-decrease": 0, "decrease": 1, "slight-decrease": 3, "equal": 2, "slight-increase": 3, "increase": 4},
    {"big-decrease": 0, "decrease": 0, "slight-decrease": 0, "equal": 2, "slight-increase": 3, "increase": 4},
    {"big-decrease": 4, "decrease": 2, "slight-decrease": 0, "equal": 0, "slight-increase": 0, "increase": 1},
    {"big-decrease": 0, "decrease": 0, "slight-decrease": 3, "equal": 1, "slight-increase": 2, "increase": 1},
]


def threshold_force(rng, orc, x0, delta_capped, rho, c, cur, min_alpha):
    """force some trial points to sit exactly on / just above / just below the Armijo threshold (tests `<=` versus `<`
    and the best-point fallback) whenever the value is exactly representable"""
    if cur is None or c == fr(0.1):
        return
    alpha = Fraction(1)
    j = 0
    p = rng.choice([0.15, 0.3, 0.8])
    while alpha >= min_alpha and j < 40:
        if rng.random() < p:
            thr = (1 - c * alpha) * cur
            v = rng.choice([thr, thr, (thr + cur) / 2, thr - (cur - thr) / 4, thr + (cur - thr) / 1024])
            xt = np.asarray(x0) + float(alpha) * np.asarray(delta_capped)
            if Fraction(float(v)) == v and v >= 0 and Fraction(float(thr)) == thr:
                orc.forced[orc.key(xt)] = ("val", v)
        alpha *= rho
        j += 1


# ----------------------------------------------------------------------------------------------------------
# correspondence: line search alone
# ----------------------------------------------------------------------------------------------------------

def direct_step_checks(ctx, what, cfgd, x0, delta, cur, out, orc, replay):
    """the property itself on one real stepper call (exact arithmetic): capped, monotone, norm is the oracle's norm"""
    x_new, n_new, alpha = out
    md = cfgd["max_delta"]
    step = max(abs(fr(a) - fr(b)) for a, b in zip(x_new, x0)) if len(x0) else Fraction(0)
    if md is not None and not math.isinf(md) and step > fr(md):
        viol_once(ctx, what + ":step-exceeds-cap", "%s returned an update with |x_new-x|inf = %s > max_delta = %r" % (what, float(step), md),
                  dict(replay, step_inf_norm=float(step), max_delta=md))
    k = orc.key(x_new)
    ent = orc.table.get(k)
    if ent is None or ent[0] != "val" and not (ent[0] == "nan" and what == "plain"):
        viol_once(ctx, what + ":returned-unevaluated-point", "%s returned a point whose residual norm was never successfully evaluated" % what,
                  dict(replay, x_new=list(map(float, x_new))))
    elif ent[0] == "val" and fr(n_new) != ent[1]:
        viol_once(ctx, what + ":reported-norm-wrong", "%s reports |R|=%r at the returned point, the residual there has norm %r" % (what, float(n_new), float(ent[1])),
                  dict(replay, reported=float(n_new), actual=float(ent[1])))
    if what == "armijo":
        if cur is None or not (n_new <= cur):
            viol_once(ctx, "armijo:norm-increased", "line search returned |R|=%r from current |R|=%r" % (float(n_new), None if cur is None else float(cur)),
                      dict(replay, returned_norm=float(n_new)))


def run_armijo_cases(ctx, n_cases):
    from hiten.algorithms.corrector.stepping.armijo import _ArmijoLineSearch
    from hiten.algorithms.corrector.stepping import make_armijo_stepper
    rng = ctx.rng
    text = []
    expected = []
    for ci in range(n_cases):
        dim = rng.choice([1, 2, 3, 6])
        rho, min_alpha, c, md = rand_cfg(rng)
        norm_mode = rng.choice(["first", "l2", "inf"])
        weights = rng.choice(WEIGHTS)
        cls = L2Oracle if norm_mode == "l2" else Oracle
        orc = cls(rng, dim, norm_mode, weights, p_nan=rng.choice([0, 0.05, 0.2]), p_exc=rng.choice([0, 0.05, 0.2]))
        x0 = rand_vec(rng, dim, -6, 2)
        delta = rand_vec(rng, dim, -8, 2)
        if rng.random() < 0.5 and dim > 0:
            # make the infinity norm a pure power of two or leave as is (odd part | 105 either way)
            delta[rng.randrange(dim)] = float(Fraction(2) ** rng.randrange(-3, 3)) * rng.choice([1, -1])
        u = rng.random()
        cur = None if u < 0.08 else rng.choice(GRID[20:])
        orc.ref = cur if cur is not None else Fraction(1)
        # capped direction (exact) for threshold forcing
        dn = max(abs(fr(a)) for a in delta)
        dcap = delta
        if md is not None and not math.isinf(md) and dn > fr(md):
            dcap = delta * (md / float(dn))
        threshold_force(rng, orc, x0, dcap, rho, c, cur, min_alpha)
        cur_f = float("nan") if cur is None else float(cur)
        via_factory = rng.random() < 0.5
        if via_factory:
            st = make_armijo_stepper(alpha_reduction=float(rho), min_alpha=float(min_alpha), armijo_c=float(c))(
                orc.residual_fn, orc.stepper_norm(), md)
            call = lambda: st(x0.copy(), delta.copy(), cur_f)
        else:
            ls = _ArmijoLineSearch(residual_fn=orc.residual_fn, norm_fn=orc.stepper_norm(), max_delta=md,
                                   alpha_reduction=float(rho), min_alpha=float(min_alpha), armijo_c=float(c))
            call = lambda: ls(x0=x0.copy(), delta=delta.copy(), current_norm=cur_f)
        orc.in_stepper = True
        replay = {"call": "_ArmijoLineSearch", "x0": x0.tolist(), "delta": delta.tolist(), "current_norm": cur_f,
                  "max_delta": md, "alpha_reduction": float(rho), "min_alpha": float(min_alpha), "armijo_c": float(c)}
        try:
            out = call()
            real = ("ok", [fr(a) for a in out[0]], fr(out[1]), fr(out[2]), orc.nq)
            replay["residual_norm_table"] = [[list(k), orc.table[k][0], None if orc.table[k][1] is None else float(orc.table[k][1])] for k in orc.order]
            direct_step_checks(ctx, "armijo", {"max_delta": md}, x0, delta, cur, out, orc, replay)
        except Exception as ex:
            real = ("raise", type(ex).__name__, orc.nq)
        text.append("reset")
        text.append(cfg_line(rho, min_alpha, c, md))
        text += orc.lines()
        text.append("armijo 64 %s | %s | %s" % ("nan" if cur is None else sr(cur), svec(x0), svec(delta)))
        expected.append((real, replay))
        branchkind = real[0]
        ctx.case("armijo:" + json.dumps([replay[k] for k in ("x0", "delta", "current_norm", "max_delta", "alpha_reduction", "min_alpha", "armijo_c")]), nontrivial=orc.nq >= 2 or real[0] == "raise", kind="armijo:" + branchkind,
                 sample=replay if ci < 2 else None)
    out_lines = [l for l in ctx.lean_run("Drivers/C05.lean", "\n".join(text) + "\n") if l.strip()]
    if len(out_lines) != len(expected):
        ctx.broken.append(("correspondence:armijo", "driver printed %d lines for %d cases: %r" % (len(out_lines), len(expected), out_lines[:3])))
        ctx.obligations["correspondence:armijo"] = False
        return
    bad = 0
    hist = {}
    for line, (real, replay) in zip(out_lines, expected):
        ws = line.split()
        hist[ws[0]] = hist.get(ws[0], 0) + 1
        ok = False
        if ws[0] in ("armijo", "fallback") and real[0] == "ok":
            n, a, t = pr(ws[1]), pr(ws[2]), int(ws[3])
            x = pvec(ws[5:])
            ok = (x == real[1] and n == real[2] and a == real[3] and t == real[4])
        elif ws[0] == "failed" and real[0] == "raise":
            ok = real[1] == "BackendError" and int(ws[1]) == real[2]
        if not ok:
            bad += 1
            if bad <= 3:
                ctx.broken.append(("correspondence:armijo", "model says %r, real _ArmijoLineSearch gave %r on %r" % (line, _short(real), replay)))
    ctx.obligations["correspondence:armijo"] = bad == 0
    ctx.corr_cases += len(expected)
    ctx.extra["armijo_model_branches"] = hist


def _short(real):
    return tuple((list(map(float, a)) if isinstance(a, list) else (float(a) if isinstance(a, Fraction) else a)) for a in real)


def run_plain_cases(ctx, n_cases):
    from hiten.algorithms.corrector.stepping import make_plain_stepper
    rng = ctx.rng
    text, expected = [], []
    for ci in range(n_cases):
        dim = rng.choice([1, 2, 3, 6])
        _, _, _, md = rand_cfg(rng)
        norm_mode = rng.choice(["first", "inf"])
        orc = Oracle(rng, dim, norm_mode, rng.choice(WEIGHTS), p_nan=0.1, p_exc=0.1)
        x0 = rand_vec(rng, dim, -6, 2)
        delta = rand_vec(rng, dim, -8, 2)
        st = make_plain_stepper()(orc.residual_fn, orc.stepper_norm(), md)
        orc.in_stepper = True
        replay = {"call": "_CorrectorPlainStep", "x0": x0.tolist(), "delta": delta.tolist(), "max_delta": md}
        try:
            out = st(x0.copy(), delta.copy(), 1.0)
            real = ("ok", [fr(a) for a in out[0]], None if math.isnan(out[1]) else fr(out[1]), fr(out[2]))
            direct_step_checks(ctx, "plain", {"max_delta": md}, x0, delta, None, out, orc, replay)
        except Exception as ex:
            real = ("raise", type(ex).__name__)
        text.append("reset")
        text.append(cfg_line(Fraction(1, 2), Fraction(1, 16), Fraction(1, 8), md))
        text += orc.lines()
        text.append("plain | %s | %s" % (svec(x0), svec(delta)))
        expected.append((real, replay))
        ctx.case("plain:" + json.dumps([replay[k] for k in ("x0", "delta", "max_delta")]), nontrivial=True, kind="plain:" + real[0])
    out_lines = [l for l in ctx.lean_run("Drivers/C05.lean", "\n".join(text) + "\n") if l.strip()]
    bad = 0
    if len(out_lines) != len(expected):
        bad = 1
        ctx.broken.append(("correspondence:plain", "driver printed %d lines for %d cases" % (len(out_lines), len(expected))))
    else:
        for line, (real, replay) in zip(out_lines, expected):
            ws = line.split()
            ok = False
            if ws[0] == "ok" and real[0] == "ok":
                n = None if ws[1] == "nan" else pr(ws[1])
                ok = n == real[2] and pr(ws[2]) == real[3] and pvec(ws[4:]) == real[1]
            elif ws[0] == "raised" and real[0] == "raise":
                ok = True
            if not ok:
                bad += 1
                if bad <= 3:
                    ctx.broken.append(("correspondence:plain", "model says %r, real plain stepper gave %r on %r" % (line, _short(real), replay)))
    ctx.obligations["correspondence:plain"] = bad == 0
    ctx.corr_cases += len(expected)


# ----------------------------------------------------------------------------------------------------------
# correspondence: the Newton backend with the real steppers
# ----------------------------------------------------------------------------------------------------------

def run_newton_cases(ctx, n_cases):
    from hiten.algorithms.corrector.backends.newton import _NewtonBackend
    from hiten.algorithms.corrector.stepping import make_armijo_stepper, make_plain_stepper
    from hiten.algorithms.corrector.types import CorrectorInput
    from hiten.algorithms.types.exceptions import ConvergenceError
    rng = ctx.rng
    text, expected = [], []
    for ci in range(n_cases):
        dim = rng.choice([1, 2, 2, 3, 6])
        rho, min_alpha, c, md = rand_cfg(rng)
        if min_alpha == Fraction(1) and rng.random() < 0.7:
            min_alpha = Fraction(1, 16)
        kind = rng.choice(["armijo", "armijo", "plain"])
        norm_mode = rng.choice(["first", "first", "inf", "l2"])
        weights = rng.choice([WEIGHTS[0], WEIGHTS[0], WEIGHTS[3], WEIGHTS[1], WEIGHTS[4]])
        if weights is WEIGHTS[4] and kind == "armijo":
            c = Fraction(1, 2)
        cls = L2Oracle if norm_mode == "l2" else Oracle
        p_nan = 0 if (kind == "plain" and norm_mode == "l2") else rng.choice([0, 0.03, 0.1])
        orc = cls(rng, dim, norm_mode, weights, p_nan=p_nan, p_exc=rng.choice([0, 0.03, 0.1]))
        x0 = rand_vec(rng, dim, -6, 2)
        start = rng.choice(GRID[40:])
        orc.forced[orc.key(x0)] = ("val", start) if (rng.random() < 0.93 or p_nan == 0) else rng.choice([("nan", None), ("exc_res", None)])
        orc.ref = start
        tol = rng.choice(GRID[5:60])
        if rng.random() < 0.15:
            tol = start          # r == tol must NOT converge
        max_attempts = rng.choice([0, 1, 1, 2, 3, 5, 8, 12])
        jac_exc_at = rng.randrange(0, 12) if rng.random() < 0.08 else -1
        steps = []
        jcalls = [0]

        def jacobian_fn(x, _orc=orc, _jc=jcalls, _je=jac_exc_at, _dim=dim):
            _jc[0] += 1
            if _jc[0] - 1 == _je:
                raise ArithmeticError("oracle: jacobian evaluation failed")
            # diagonal with entries ±2^a: the real _solve_delta_dense then returns delta_i = -r_i / J_ii exactly
            g = np.random.default_rng(abs(hash(_orc.key(x))) % (2 ** 32))
            d = np.array([float(2.0 ** int(g.integers(-2, 3))) * (1 if g.random() < 0.5 else -1) for _ in range(_dim)])
            return np.diag(d)

        def factory_rec(inner):
            def factory(residual_fn, norm_fn, max_delta):
                st = inner(residual_fn, norm_fn, max_delta)

                def stepper(x, delta, current_norm):
                    ent = {"x": np.array(x, dtype=float), "delta": np.array(delta, dtype=float), "cur": current_norm, "nq0": orc.nq}
                    # later iterates are drawn relative to the current norm
                    if not (isinstance(current_norm, float) and math.isnan(current_norm)):
                        try:
                            orc.ref = fr(current_norm)
                        except Exception:
                            pass
                    orc.in_stepper = True
                    try:
                        out = st(x, delta, current_norm)
                        ent["out"] = (np.array(out[0], dtype=float), out[1], out[2])
                        return out
                    except Exception as ex:
                        ent["exc"] = type(ex).__name__
                        raise
                    finally:
                        orc.in_stepper = False
                        ent["nq1"] = orc.nq
                        steps.append(ent)
                return stepper
            return factory

        inner = (make_armijo_stepper(alpha_reduction=float(rho), min_alpha=float(min_alpha), armijo_c=float(c))
                 if kind == "armijo" else make_plain_stepper())
        if rng.random() < 0.5:
            backend = _NewtonBackend(stepper_factory=factory_rec(inner))
            run_kw = {}
        else:
            backend = _NewtonBackend()
            run_kw = {"stepper_factory": factory_rec(inner)}
        req = CorrectorInput(initial_guess=x0.copy(), residual_fn=orc.residual_fn, jacobian_fn=jacobian_fn,
                             norm_fn=orc.norm_callable(), max_attempts=max_attempts, tol=float(tol), max_delta=md, fd_step=1e-8)
        replay = {"call": "_NewtonBackend.run", "stepper": kind, "x0": x0.tolist(), "tol": float(tol), "max_attempts": max_attempts,
                  "max_delta": md, "alpha_reduction": float(rho), "min_alpha": float(min_alpha), "armijo_c": float(c),
                  "norm": norm_mode}
        try:
            res = backend.run(request=req, **run_kw)
            real = ("ok", int(res.iterations), res.residual_norm, np.array(res.x_corrected, dtype=float))
        except ConvergenceError as ex:
            msg = str(ex)
            if "Step strategy failed" in msg:
                real = ("stepFailed", int(msg.split("at iter")[1].split(":")[0]))
            else:
                real = ("notConverged",)
        except Exception as ex:
            real = ("raised", len(steps), type(ex).__name__)
        replay["residual_norm_table"] = [[list(k), orc.table[k][0], None if orc.table[k][1] is None else float(orc.table[k][1])] for k in orc.order]
        replay["newton_directions"] = [[s["x"].tolist(), s["delta"].tolist()] for s in steps]
        replay["observed"] = [real[0]] + [float(a) if isinstance(a, (int, float)) else (a.tolist() if isinstance(a, np.ndarray) else a) for a in real[1:]]
        direct_newton_checks(ctx, kind, real, orc, steps, tol, max_attempts, md, replay)
        mark = len(text)
        text.append("reset")
        text.append(cfg_line(rho, min_alpha, c, md))
        text += orc.lines()
        seen = set()
        for s in steps:
            k = orc.key(s["x"])
            if k not in seen:
                seen.add(k)
                text.append("d | %s | %s" % (svec(s["x"]), svec0(s["delta"])))
        # a Jacobian failure is a `solve` oracle exception at the iterate where it happened
        if real[0] == "raised" and jcalls[0] - 1 == jac_exc_at and orc.main_queries and orc.main_queries[-1][1] != "exc":
            k = orc.main_queries[-1][0]
            if k in seen:
                # the Jacobian oracle answered differently at a revisited iterate: not a function of x, outside the model
                del text[mark:]
                continue
            text.append("d | %s | exc" % svec(k))
        text.append("newton %s %s %d 64 | %s" % (kind, sr(tol), max_attempts, svec(x0)))
        for s in steps:     # every recorded stepper call is also replayed on its own (alpha, trial count, branch)
            curs = "nan" if (isinstance(s["cur"], float) and math.isnan(s["cur"])) else sr(fr(s["cur"]))
            if kind == "armijo":
                text.append("armijo 64 %s | %s | %s" % (curs, svec(s["x"]), svec0(s["delta"])))
            else:
                text.append("plain | %s | %s" % (svec(s["x"]), svec(s["delta"])))
        expected.append((real, orc, steps, kind, replay))
        ctx.case("newton:" + json.dumps([replay[k] for k in ("stepper", "x0", "tol", "max_attempts", "max_delta", "alpha_reduction", "min_alpha", "armijo_c", "norm")]), nontrivial=len(steps) >= 1, kind="newton-%s:%s" % (kind, real[0]),
                 sample={k: replay[k] for k in ("stepper", "x0", "tol", "max_attempts", "max_delta", "observed")} if ci < 3 else None)
    out_lines = [l for l in ctx.lean_run("Drivers/C05.lean", "\n".join(text) + "\n") if l.strip()]
    bad = 0
    pos = 0
    try:
        for (real, orc, steps, kind, replay) in expected:
            lo, lh = out_lines[pos], out_lines[pos + 1]
            pos += 2
            step_lines = out_lines[pos:pos + len(steps)]
            pos += len(steps)
            why = compare_newton(lo, lh, step_lines, real, orc, steps, kind)
            if why:
                bad += 1
                if bad <= 3:
                    ctx.broken.append(("correspondence:newton", "%s; model: %r / %r; real: %r; case %r" % (
                        why, lo, lh[:300], replay["observed"], {k: v for k, v in replay.items() if k not in ("residual_norm_table", "newton_directions")})))
    except IndexError:
        bad += 1
        ctx.broken.append(("correspondence:newton", "driver output too short (%d lines)" % len(out_lines)))
    ctx.obligations["correspondence:newton"] = bad == 0
    ctx.corr_cases += len(expected)


def compare_newton(lo, lh, step_lines, real, orc, steps, kind):
    ws = lo.split()
    if ws[0] != "outcome":
        return "driver said %r" % lo
    o = ws[1]
    if o != real[0]:
        return "outcome differs"
    if o == "ok":
        k, r = int(ws[2]), pr(ws[3])
        x = pvec(ws[5:])
        if k != real[1] or r != fr(real[2]) or x != [fr(a) for a in real[3]]:
            return "converged result differs"
    elif o == "stepFailed":
        if int(ws[2]) != real[1]:
            return "failing iteration differs"
    elif o == "raised":
        if int(ws[2]) != real[1]:
            return "raising iteration differs"
    # history = main-loop queries that produced a norm
    hl = lh.split(None, 1)
    ents = [] if len(hl) < 2 else [e.strip() for e in hl[1].split(";")]
    mh = []
    for e in ents:
        a, b = e.split("|")
        mh.append((tuple(float(q) for q in pvec(b.split())), None if a.strip() == "nan" else pr(a.strip())))
    rh = [(k, v if kind_ == "val" else None) for (k, kind_, v) in orc.main_queries if kind_ != "exc"]
    if mh != rh:
        return "iterate history differs (model %d entries, real %d)" % (len(mh), len(rh))
    for s, line in zip(steps, step_lines):
        w = line.split()
        if "out" in s:
            xo, no, ao = s["out"]
            if kind == "armijo":
                if w[0] not in ("armijo", "fallback"):
                    return "stepper call: model %r, real returned" % line
                if pr(w[1]) != fr(no) or pr(w[2]) != fr(ao) or int(w[3]) != s["nq1"] - s["nq0"] or pvec(w[5:]) != [fr(a) for a in xo]:
                    return "stepper call result differs: model %r real %r" % (line, (xo.tolist(), no, ao, s["nq1"] - s["nq0"]))
            else:
                if w[0] != "ok":
                    return "plain call: model %r, real returned" % line
                nn = None if (isinstance(no, float) and math.isnan(no)) else fr(no)
                mn = None if w[1] == "nan" else pr(w[1])
                if mn != nn or pr(w[2]) != fr(ao) or pvec(w[4:]) != [fr(a) for a in xo]:
                    return "plain call result differs: model %r" % line
        else:
            if kind == "armijo" and not (w[0] == "failed" and int(w[1]) == s["nq1"] - s["nq0"] and s["exc"] == "BackendError"):
                return "stepper failure differs: model %r real %r" % (line, s.get("exc"))
            if kind == "plain" and w[0] != "raised":
                return "plain failure differs: model %r" % line
    return None


def direct_newton_checks(ctx, kind, real, orc, steps, tol, max_attempts, md, replay):
    """the property itself on one real backend run"""
    if real[0] == "ok":
        k, r, x = real[1], real[2], real[3]
        ent = orc.table.get(orc.key(x))
        if isinstance(r, float) and math.isnan(r) or not (r < float(tol)):
            viol_once(ctx, "newton:returned-unconverged", "_NewtonBackend.run returned residual_norm=%r with tol=%r" % (r, float(tol)), replay)
        elif ent is None or ent[0] != "val" or ent[1] != fr(r):
            viol_once(ctx, "newton:returned-norm-not-of-returned-state",
                      "_NewtonBackend.run returned x whose residual norm is %r but reported %r" % (None if ent is None else ent[:2], r), replay)
        elif ent[1] >= tol:
            viol_once(ctx, "newton:returned-unconverged", "returned state has |R|=%r >= tol=%r" % (float(ent[1]), float(tol)), replay)
        if k > max_attempts:
            viol_once(ctx, "newton:iterations-exceed-cap", "reported %d iterations with max_attempts=%d" % (k, max_attempts), replay)
    if kind == "armijo":
        norms = []
        lastk = None
        for (kx, kd, v) in orc.main_queries:
            if kd != "exc" and kx != lastk:      # the same iterate evaluated twice is not a step
                norms.append(v)
                lastk = kx
        for a, b in zip(norms, norms[1:]):
            if a is None or b is None or b > a:
                viol_once(ctx, "newton:residual-norm-increased", "with line search the residual norm went from %r to %r between iterates" % (
                    None if a is None else float(a), None if b is None else float(b)), replay)
                break
    if md is not None and not math.isinf(md):
        for s in steps:
            if "out" in s:
                step = max(abs(fr(a) - fr(b)) for a, b in zip(s["out"][0], s["x"]))
                if step > fr(md):
                    viol_once(ctx, "newton:update-exceeds-cap", "update |dx|inf=%r exceeds max_delta=%r (%s stepper)" % (float(step), md, kind), replay)
                    break


# ----------------------------------------------------------------------------------------------------------
# Gen: shipped parameters from the live objects
# ----------------------------------------------------------------------------------------------------------

FAMILIES = [("halo", {"amplitude_z": 0.05, "zenith": "northern"}), ("lyapunov", {"amplitude_x": 0.01}),
            ("vertical", {"amplitude_z": 0.05})]


def rat(q):
    q = Fraction(q)
    if q.denominator == 1:
        return "(%d : Rat)" % q.numerator
    return "((%d : Rat) / %d)" % (q.numerator, q.denominator)


FIELD = {}


def trace_field(ctx):
    """T-trace of the CR3BP vector field the correctors integrate (through the `_RTBPRHS` closure), for the reversing
    symmetries behind `period = 2 * half_period` (variables 0..5 = x y z vx vy vz, 6 = mu)."""
    import lean_emit as E
    import tracer as T
    from hiten.algorithms.dynamics import rtbp
    T.reset()
    vals = [0.82, 0.05, 0.1, 0.02, 0.15, 0.07]
    names = ["x", "y", "z", "vx", "vy", "vz"]
    st = T.symarray([T.Sym.var(n, v) for n, v in zip(names, vals)])
    mu = T.Sym.var("mu", 0.0121505856)
    o = object.__new__(rtbp._RTBPRHS)
    o._mu_val = mu
    acc = list(T.retarget(o._build_rhs_impl())(T.Sym.var("t", 0.0), st))
    varidx = {n: i for i, n in enumerate(names)}
    varidx["mu"] = 6
    named, defs = T.canonical_sqrt_names(acc, "sq")
    txt = "\nopen HitenModel RE\n/-- traced from rtbp._RTBPRHS (the field every corrector propagation integrates) -/\n"
    for name, rep in defs:
        txt += E.re_def(name, rep, varidx, None)
    txt += "def sqrtArgs : List RE := [%s]\n" % ", ".join(n for n, _ in defs)
    txt += E.re_fun("accel", acc, varidx, named)
    FIELD["accel"] = acc
    FIELD["T"] = T
    return txt


def validate_field(ctx):
    """translation validation of the traced field against the compiled kernel and the public dynsys object"""
    from hiten.algorithms.dynamics import rtbp
    T = FIELD["T"]
    worst = 0.0
    for k in range(60):
        mu = 10 ** ctx.rng.uniform(-7, math.log10(0.5))
        s = [ctx.rng.uniform(-1.5, 1.5), ctx.rng.uniform(-1, 1), ctx.rng.uniform(-0.7, 0.7)] + [ctx.rng.uniform(-1, 1) for _ in range(3)]
        if math.dist(s[:3], [-mu, 0, 0]) < 0.05 or math.dist(s[:3], [1 - mu, 0, 0]) < 0.02:
            continue
        env = dict(zip(["x", "y", "z", "vx", "vy", "vz"], s))
        env["mu"] = mu
        cache = {}
        a_m = np.array([T.evalf(e, env, cache) for e in FIELD["accel"]])
        a_c = np.asarray(rtbp.rtbp_dynsys(mu).rhs(0.0, np.array(s)) if k % 6 == 0 else rtbp._crtbp_accel(np.array(s), mu))
        err = float(np.max(np.abs(a_m - a_c) / (1 + np.abs(a_c))))
        worst = max(worst, err)
        ctx.traces_validated += 1
        if not err <= 1e-10:
            ctx.broken.append(("trace-validation:accel", "traced field and compiled kernel differ by %g at mu=%r state=%r" % (err, mu, s)))
            ctx.obligations["trace-validation:accel"] = False
            return
    ctx.obligations["trace-validation:accel"] = True
    ctx.extra["trace_validation_worst_rel_err"] = worst


def gen(ctx):
    from hiten.algorithms.corrector.stepping import make_armijo_stepper
    from hiten.system import System
    st = make_armijo_stepper()(lambda x: x, lambda r: 0.0, 1e-2)
    searcher = None
    for cell in (st.__closure__ or ()):
        v = cell.cell_contents
        if type(v).__name__ == "_ArmijoLineSearch":
            searcher = v
    if searcher is None:
        ctx.broken.append(("gen:armijo-defaults", "make_armijo_stepper() no longer builds an _ArmijoLineSearch"))
        ctx.obligations["gen:armijo-defaults"] = False
        rho, ma, c = Fraction(1, 2), fr(1e-4), fr(0.1)
    else:
        rho, ma, c = fr(searcher.alpha_reduction), fr(searcher.min_alpha), fr(searcher.armijo_c)
    # smallest n with rho^n < min_alpha (Lean re-checks both inequalities)
    n = 0
    if 0 <= rho < 1 and ma > 0:
        while rho ** n >= ma and n < 5000:
            n += 1
    sysm = System.from_bodies("earth", "moon")
    L1 = sysm.get_libration_point(1)
    fams = []
    steppers = {}
    for fam, kw in FAMILIES:
        orb = L1.create_orbit(fam, **kw)
        o = orb.correction_options.base.convergence
        fams.append((fam, fr(o.tol), fr(o.max_delta), int(o.max_attempts)))
        be = orb._correction.corrector._backend
        probe = be._stepper_factory(lambda x: x, lambda r: 0.0, o.max_delta)
        ls = [cc.cell_contents for cc in (probe.__closure__ or ()) if type(cc.cell_contents).__name__ == "_ArmijoLineSearch"]
        steppers[fam] = "armijo" if ls else probe.__name__
        if ls and (fr(ls[0].alpha_reduction), fr(ls[0].min_alpha), fr(ls[0].armijo_c)) != (rho, ma, c):
            steppers[fam] = "armijo-nondefault"
    txt = "-- GENERATED by /verif/harness/props/c05.py from /repo's live objects on every run. DO NOT EDIT.\n"
    txt += "import HitenModel.Core.C05\nimport HitenModel.Core.RE\nnamespace HitenModel.Gen.C05\nopen HitenModel.C05\n\n"
    txt += "/-- parameters of the `_ArmijoLineSearch` that `make_armijo_stepper()` builds (exact values of the floats) -/\n"
    txt += "def armijoDefault : ArmijoCfg Rat := { maxDelta := none, rho := %s, minAlpha := %s, c := %s }\n" % (rat(rho), rat(ma), rat(c))
    txt += "def defaultMaxTrials : Nat := %d\n" % n
    txt += "/-- (family, tol, max_delta, max_attempts) of every orbit family's default correction options -/\n"
    txt += "def familyDefaults : List (String × Rat × Rat × Nat) := [%s]\n" % ", ".join(
        '("%s", %s, %s, %d)' % (f, rat(t), rat(m), a) for f, t, m, a in fams)
    txt += "/-- stepper installed by each family's correction service -/\n"
    txt += "def familyStepper : List (String × String) := [%s]\n" % ", ".join('("%s", "%s")' % (f, steppers[f]) for f, _ in FAMILIES)
    txt += trace_field(ctx)
    txt += "end HitenModel.Gen.C05\n"
    ctx.write_gen("HitenModel.Gen.C05", txt)
    ctx.extra["shipped"] = {"rho": float(rho), "min_alpha": float(ma), "armijo_c": float(c), "max_trials": n,
                            "families": [(f, float(t), float(m), a) for f, t, m, a in fams], "steppers": steppers}


# ----------------------------------------------------------------------------------------------------------
# glue between solver and orbit (operators.py / interfaces.py), exact integer data, stub propagation
# ----------------------------------------------------------------------------------------------------------

def operator_checks(ctx, n_cases):
    """residual = x_event[residual_indices] - target, Jacobian = Phi[ix_(res,ctrl)] - extra, full state = template with the
    parameters written at the control indices (template untouched) — compared exactly with an independent evaluation"""
    from types import SimpleNamespace
    from hiten.algorithms.corrector.interfaces import _OrbitCorrectionInterface
    from hiten.algorithms.corrector.operators import _SingleShootingOrbitOperators
    rng = ctx.rng
    bad = 0
    for ci_ in range(n_cases):
        k = rng.choice([1, 2, 2, 3])
        ctrl = tuple(rng.sample(range(6), k))
        res = tuple(rng.sample(range(6), k))
        template = np.array([float(rng.randrange(-50, 50)) for _ in range(6)])
        target = tuple(float(rng.randrange(-5, 5)) for _ in range(k))
        A = np.array([[float(rng.randrange(-4, 5)) for _ in range(6)] for _ in range(6)])
        Phi = np.array([[float(rng.randrange(-9, 10)) for _ in range(6)] for _ in range(6)])
        extra = np.array([[float(rng.randrange(-3, 4)) for _ in range(k)] for _ in range(k)]) if rng.random() < 0.5 else None
        params = np.array([float(rng.randrange(-50, 50)) for _ in range(k)])
        seen = {}

        def event(*, dynsys, x0, forward=1, _A=A, _seen=seen):
            _seen["x0"] = np.array(x0, dtype=float)
            return 7.0, _A @ np.asarray(x0, dtype=float)
        dom = SimpleNamespace(initial_state=template.copy(), dynamics=SimpleNamespace(dynsys=None, var_dynsys=None))
        ops = _SingleShootingOrbitOperators(domain_obj=dom, control_indices=ctrl, residual_indices=res, target=target,
                                            extra_jacobian=(None if extra is None else (lambda xe, P, _e=extra: _e.copy())),
                                            event_func=event, forward=1, method="adaptive", order=8, steps=10)
        ops.compute_stm_to_event = lambda x0, t, _P=Phi: _P.copy()
        full = template.copy()
        for i, v in zip(ctrl, params):
            full[i] = v
        r = np.asarray(ops.build_residual_fn()(params.copy()), dtype=float)
        J = np.asarray(ops.build_jacobian_fn()(params.copy()), dtype=float)
        xe = A @ full
        r_exp = np.array([xe[i] for i in res]) - np.array(target)
        J_exp = np.array([[Phi[i, j] for j in ctrl] for i in res]) - (0.0 if extra is None else extra)
        rec = _OrbitCorrectionInterface._reconstruct_full_state(template, ctrl, params)
        ok = (np.array_equal(seen.get("x0"), full) and np.array_equal(r, r_exp) and np.array_equal(J, J_exp)
              and np.array_equal(rec, full) and np.array_equal(dom.initial_state, template) and np.array_equal(ops._base_state, template))
        ctx.case("ops:" + json.dumps([ctrl, res, target, params.tolist()]), nontrivial=k >= 2, kind="operators")
        if not ok:
            bad += 1
            if bad <= 2:
                ctx.broken.append(("correspondence:operators", "single-shooting glue differs from x_event[res]-target / Phi[res,ctrl]-extra / template[ctrl]=params: "
                                   "ctrl=%r res=%r target=%r params=%r residual=%r expected=%r" % (ctrl, res, target, params.tolist(), r.tolist(), r_exp.tolist())))
    ctx.obligations["correspondence:operators"] = bad == 0


# ----------------------------------------------------------------------------------------------------------
# numerics: real orbits
# ----------------------------------------------------------------------------------------------------------

def scipy_flow(x0, T, mu, tol=1e-13):
    from scipy.integrate import solve_ivp
    from hiten.algorithms.dynamics.rtbp import _crtbp_accel
    sol = solve_ivp(lambda t, y: _crtbp_accel(y, mu), (0.0, T), np.asarray(x0, dtype=float), method="DOP853", rtol=tol, atol=tol)
    return sol.y[:, -1]


def fd_monodromy(x0, T, mu):
    h = 1e-7
    M = np.zeros((6, 6))
    for j in range(6):
        e = np.zeros(6)
        e[j] = h
        M[:, j] = (scipy_flow(x0 + e, T, mu, 1e-12) - scipy_flow(x0 - e, T, mu, 1e-12)) / (2 * h)
    return M


def orbit_cases(ctx):
    cases = []
    em = ("earth", "moon")
    se = ("sun", "earth")
    sj = ("sun", "jupiter")
    for L in (1, 2):
        cases += [(em, L, "halo", {"amplitude_z": 0.05, "zenith": "northern"}),
                  (em, L, "halo", {"amplitude_z": 0.2, "zenith": "southern"}),
                  (em, L, "lyapunov", {"amplitude_x": 0.01}),
                  (em, L, "vertical", {"amplitude_z": 0.05}),
                  (se, L, "halo", {"amplitude_z": 0.001, "zenith": "southern"}),
                  (se, L, "lyapunov", {"amplitude_x": 0.0005})]
    # the same correction problem with the control variables listed in the opposite order (the unknowns of a Newton problem may be
    # listed in any order; families without an extra Jacobian term): every clause below applies unchanged
    cases += [(em, 1, "lyapunov", {"amplitude_x": 0.01, "_reverse_controls": True}),
              (em, 2, "vertical", {"amplitude_z": 0.05, "_reverse_controls": True})]
    # seed-dependent amplitudes inside the range where the analytic seed is valid
    r = ctx.rng
    cases += [(em, r.choice([1, 2]), "halo", {"amplitude_z": round(r.uniform(0.01, 0.3), 4), "zenith": r.choice(["northern", "southern"])}),
              (em, r.choice([1, 2]), "lyapunov", {"amplitude_x": round(r.uniform(0.002, 0.05), 4)}),
              (se, r.choice([1, 2]), "vertical", {"amplitude_z": round(r.uniform(0.0005, 0.003), 5)})]
    if ctx.thorough():
        for L in (1, 2):
            cases += [(sj, L, "halo", {"amplitude_z": 0.01, "zenith": "northern"}),
                      (sj, L, "lyapunov", {"amplitude_x": 0.003}),
                      (sj, L, "vertical", {"amplitude_z": 0.01}),
                      (se, L, "halo", {"amplitude_z": 0.003, "zenith": "northern"}),
                      (se, L, "vertical", {"amplitude_z": 0.001})]
            for a in (0.01, 0.1, 0.3):
                cases.append((em, L, "halo", {"amplitude_z": a, "zenith": "northern"}))
            for a in (0.002, 0.03, 0.06):
                cases.append((em, L, "lyapunov", {"amplitude_x": a}))
            for a in (0.01, 0.1):
                cases.append((em, L, "vertical", {"amplitude_z": a}))
        for _ in range(6):
            cases.append((em, r.choice([1, 2]), "halo", {"amplitude_z": round(r.uniform(0.01, 0.35), 4), "zenith": r.choice(["northern", "southern"])}))
            cases.append((se, r.choice([1, 2]), "lyapunov", {"amplitude_x": round(r.uniform(0.0001, 0.001), 6)}))
    return cases


def record_backend(orb, log):
    """wrap the stepper factory of the orbit's real backend so that every stepper call is recorded"""
    be = orb._correction.corrector._backend
    inner = be._stepper_factory

    def factory(residual_fn, norm_fn, max_delta):
        st = inner(residual_fn, norm_fn, max_delta)

        def stepper(x, delta, current_norm):
            out = st(x, delta, current_norm)
            log.append({"x": np.array(x, dtype=float), "delta": np.array(delta, dtype=float), "cur": float(current_norm),
                        "x_new": np.array(out[0], dtype=float), "norm_new": float(out[1]), "alpha": float(out[2]), "max_delta": max_delta})
            return out
        return stepper
    be._stepper_factory = factory
    return be


def history_checks(ctx):
    """(1) an orbit that already carries a period close to (but different from) the corrected one: after `correct()` the orbit's period is the
    corrected one (state and period define the periodic solution together); (2) ONE Newton backend / Armijo stepper factory used for two
    different residual maps in sequence: the line search of the second solve works on the second problem's residual."""
    from hiten.system import System
    from hiten.algorithms.corrector.backends.newton import _NewtonBackend
    from hiten.algorithms.corrector.stepping import make_armijo_stepper
    from hiten.algorithms.corrector.types import CorrectorInput
    # ---- (1) ----------------------------------------------------------------------------------------------
    sysm = System.from_bodies("earth", "moon")
    mu = float(sysm.mu)
    orb = sysm.get_libration_point(1).create_orbit("halo", amplitude_z=0.12, zenith="northern")
    try:
        orb.correct()
        T1 = float(orb.period)
        # a FRESH orbit of the same family that is given a nearby period before its first correction (e.g. typed in with six significant
        # digits, or inherited from a neighbouring family member)
        orb = sysm.get_libration_point(1).create_orbit("halo", amplitude_z=0.12, zenith="northern")
        orb.period = T1 * (1.0 + 3e-6)
        res = orb.correct()
        T2 = float(orb.period)
        x0 = np.array(orb.initial_state, dtype=float)
        ctx.case(("history", "period-close"), nontrivial=True, kind="history:period")
        clos = float(np.abs(scipy_flow(x0, T2, mu) - x0).max())
        if not (abs(T2 - 2.0 * float(res.half_period)) <= 1e-12 * T2 and clos <= 1e-7):
            viol_once(ctx, "orbit:halo:stale-period-after-correction",
                      "correct() on an orbit that carried the nearby period %.12g leaves period=%.12g although the correction found 2*half_period=%.12g "
                      "(closure over the orbit's period %.3g)" % (T1 * (1.0 + 3e-6), T2, 2.0 * float(res.half_period), clos),
                      {"system": "earth-moon", "L": 1, "family": "halo", "history": ["fresh orbit", "period := T*(1+3e-6)", "correct()"],
                       "period_after": T2, "two_half_period": 2.0 * float(res.half_period), "initial_state": x0.tolist(), "closure": clos})
    except Exception as ex:
        ctx.notes.append("history_checks(period): %r" % (ex,))
    # ---- (2) ----------------------------------------------------------------------------------------------
    factory = make_armijo_stepper()
    backend = _NewtonBackend(stepper_factory=factory)
    probs = [("arctan", lambda x: np.array([math.atan(x[0])]), lambda x: np.array([[1.0 / (1.0 + x[0] * x[0])]]), np.array([2.0])),
             ("quadratic-2d", lambda x: np.array([x[0] * x[0] + x[1] - 1.1, x[0] - x[1] * x[1] + 0.3]),
              lambda x: np.array([[2 * x[0], 1.0], [1.0, -2 * x[1]]]), np.array([1.5, 1.2])),
             ("arctan-again", lambda x: np.array([math.atan(x[0]) - 0.2]), lambda x: np.array([[1.0 / (1.0 + x[0] * x[0])]]), np.array([-1.5]))]
    for name, f, J, x0 in probs:
        seen = []

        def rf(x, _f=f, _s=seen):
            r = _f(np.asarray(x, dtype=float))
            _s.append(float(np.linalg.norm(r)))
            return r
        ctx.case(("history", "backend-reuse", name), nontrivial=True, kind="history:backend-reuse")
        try:
            out = backend.run(request=CorrectorInput(initial_guess=x0.copy(), residual_fn=rf, jacobian_fn=J, norm_fn=None, max_attempts=40,
                                                     tol=1e-12, max_delta=None, fd_step=1e-8))
            xc = np.asarray(out.x_corrected, dtype=float)
            rn = float(np.linalg.norm(f(xc)))
            ok = rn < 1e-12
            what = "returned a point with residual %.3g of ITS problem" % rn
        except Exception as ex:
            ok, what = False, "raised %s" % type(ex).__name__
        if not ok:
            viol_once(ctx, "newton:backend-reuse",
                      "one _NewtonBackend / make_armijo_stepper() factory used for several residual maps in sequence: the solve of %r %s (smooth, well-conditioned, "
                      "solved from the same start by a fresh backend)" % (name, what),
                      {"history": [p[0] for p in probs[:[p[0] for p in probs].index(name) + 1]], "problem": name, "x0": x0.tolist(),
                       "residual_norms_seen": seen[:30]})
            break


def numerics(ctx, cases=None):
    from hiten.system import System
    systems = {}
    worst = {"closure_ratio": 0.0, "half_ratio": 0.0}
    table = []
    n_raised = 0
    all_cases = orbit_cases(ctx) if cases is None else cases
    for bodies, L, fam, kw in all_cases:
        if bodies not in systems:
            systems[bodies] = System.from_bodies(*bodies)
        sysm = systems[bodies]
        mu = float(sysm.mu)
        lp = sysm.get_libration_point(L)
        ident = {"system": "-".join(bodies), "mu": mu, "L": L, "family": fam, "params": kw}
        try:
            kw = dict(kw)
            reverse_controls = kw.pop("_reverse_controls", False)
            orb = lp.create_orbit(fam, **kw)
            if reverse_controls:
                import dataclasses
                c0 = orb.correction_config
                orb.correction_config = dataclasses.replace(c0, control_indices=tuple(reversed(tuple(c0.control_indices))))
                ident = dict(ident, correction_config="default with control_indices=%r" % (tuple(int(i) for i in orb.correction_config.control_indices),))
            guess = np.array(orb.initial_state, dtype=float)
            opts = orb.correction_options
            tol = float(opts.base.convergence.tol)
            md = float(opts.base.convergence.max_delta)
            log = []
            record_backend(orb, log)
            res = orb.correct()
        except Exception as ex:
            # a failure to converge from the analytic seed is an error, which the property allows; the orbit must be untouched
            ctx.case(("orbit", ident["system"], L, fam, str(kw)), nontrivial=False, kind="orbit:raised")
            table.append(dict(ident, raised=type(ex).__name__))
            n_raised += 1
            try:
                after = np.array(orb.initial_state, dtype=float)
                if not np.array_equal(after, guess) or orb.period is not None:
                    viol_once(ctx, "orbit:%s:state-modified-by-failed-correction" % fam, "correction raised %s but the orbit's state/period were modified" % type(ex).__name__,
                              dict(ident, before=guess.tolist(), after=after.tolist(), period=orb.period))
            except Exception:
                pass
            continue
        x0 = np.array(orb.initial_state, dtype=float)
        T = float(orb.period)
        ctx.case(("orbit", ident["system"], L, fam, str(kw)), nontrivial=True, kind="orbit:" + fam,
                 sample=dict(ident, period=T, x0=x0.tolist()) if len(table) < 2 else None)
        rep = dict(ident, initial_state=x0.tolist(), period=T, tol=tol, residual_norm=float(res.residual_norm), iterations=int(res.iterations))
        # (a) reported success => reported residual below tol, and it is the residual of the returned state
        if not (res.converged and res.residual_norm < tol):
            viol_once(ctx, "orbit:%s:reported-residual-not-below-tol" % fam, "correct() returned with residual_norm=%r, tol=%r" % (res.residual_norm, tol), rep)
        if not np.array_equal(np.asarray(res.x_corrected, dtype=float), x0):
            viol_once(ctx, "orbit:%s:state-not-the-corrected-one" % fam, "orbit.initial_state/period differ from the correction result", rep)
        try:
            cfgc = orb.correction_config
            from hiten.algorithms.corrector.operators import _SingleShootingOrbitOperators
            ops = _SingleShootingOrbitOperators(domain_obj=orb, control_indices=cfgc.control_indices, residual_indices=cfgc.residual_indices,
                                                target=cfgc.target, extra_jacobian=cfgc.extra_jacobian, event_func=cfgc.event_func,
                                                forward=opts.forward, method=cfgc.integration.method, order=opts.base.integration.order,
                                                steps=opts.base.integration.steps)
            rr = ops.build_residual_fn()(x0[list(cfgc.control_indices)])
            rn = float(np.linalg.norm(rr, ord=np.inf))
            rep["recomputed_residual_norm"] = rn
            if not rn < tol:
                viol_once(ctx, "orbit:%s:residual-of-returned-state-not-below-tol" % fam,
                          "the constraint residual recomputed at the returned state is %r >= tol %r" % (rn, tol), rep)
            # independent evaluation of the constraint: SciPy-propagate to the event time and read the residual components
            t_ev, x_ev = ops.propagate_to_event(x0)
            xs = scipy_flow(x0, float(t_ev), mu)
            ri = list(cfgc.residual_indices)
            indep = float(np.max(np.abs(xs[ri] - np.asarray(cfgc.target, dtype=float))))
            evdiff = float(np.max(np.abs(xs - np.asarray(x_ev, dtype=float))))
            rep.update(event_time=float(t_ev), independent_residual=indep, event_state_vs_scipy=evdiff)
            half_info = (indep, evdiff)
        except Exception as ex:
            half_info = None
            ctx.notes.append("residual recomputation unavailable for %s: %r" % (fam, ex))
        # (b) line search on the real run: monotone norms, capped updates, reported norm = next current norm
        for a, b in zip(log, log[1:]):
            if not b["cur"] == a["norm_new"]:
                viol_once(ctx, "orbit:%s:stepper-norm-not-reproduced" % fam, "norm reported by the line search (%r) is not the residual norm of the next iterate (%r)" % (a["norm_new"], b["cur"]), rep)
        for s in log:
            if not s["norm_new"] <= s["cur"]:
                viol_once(ctx, "orbit:%s:residual-norm-increased" % fam, "residual norm increased %r -> %r during correction" % (s["cur"], s["norm_new"]),
                          dict(rep, x=s["x"].tolist(), delta=s["delta"].tolist()))
            stepn = float(np.abs(s["x_new"] - s["x"]).max())
            if s["max_delta"] is not None and not stepn <= s["max_delta"] * (1 + 1e-12):
                viol_once(ctx, "orbit:%s:update-exceeds-cap" % fam, "update |dx|inf=%r exceeds max_delta=%r" % (stepn, s["max_delta"]),
                          dict(rep, x=s["x"].tolist(), delta=s["delta"].tolist()))
        # (c) independent closure
        xe = scipy_flow(x0, T, mu)
        clos = float(np.abs(xe - x0).max())
        M = fd_monodromy(x0, T, mu)
        nM = float(np.linalg.norm(M, np.inf))
        ratio = clos / ((1.0 + nM) * tol)
        rep.update(closure=clos, monodromy_inf_norm=nM, closure_over_amplified_tol=ratio, closure_over_tol=clos / tol,
                   state_after_one_period=xe.tolist())
        table.append({k: rep[k] for k in ("system", "L", "family", "params", "period", "iterations", "residual_norm", "closure", "monodromy_inf_norm",
                                            "closure_over_amplified_tol", "closure_over_tol")})
        worst["closure_ratio"] = max(worst["closure_ratio"], ratio if fam != "vertical" else 0.0)
        if half_info is not None:
            # errors over the (shorter) arc to the event grow at most like sqrt(|M|) (M ~ symplectic: half the period, half the exponent)
            amp = (1.0 + math.sqrt(nM)) * tol
            rep["independent_residual_over_amplified_tol"] = half_info[0] / amp
            worst["half_ratio"] = max(worst["half_ratio"], half_info[0] / amp)
            table[-1]["independent_residual"] = half_info[0]
            table[-1]["independent_residual_over_amplified_tol"] = half_info[0] / amp
            if not half_info[0] <= 100.0 * amp:
                viol_once(ctx, "orbit:%s:independent-residual-above-tol" % fam,
                          "%s orbit (%s L%d %r): the constraint residual evaluated with an independent DOP853 propagation to the event time is %.3g = %.3g x (1+sqrt|M|) tol" % (
                              fam, ident["system"], L, kw, half_info[0], half_info[0] / amp), rep)
        # a residual of size tol at the event is amplified by at most ~|M| over the return; 200x margin on top
        # (observed <= 0.31 for halo/Lyapunov, <= 1.1 for the repaired vertical family; defects give >= 1e6).
        if not ratio <= 200.0:
            viol_once(ctx, "closure:%s" % fam,
                      "%s orbit (%s L%d %r): after one reported period the independent DOP853 propagation misses the start by %.3g = %.3g x (1+|M|) tol" % (
                          fam, ident["system"], L, kw, clos, ratio), rep)
    ctx.extra["orbits"] = table
    if 3 * n_raised > len(all_cases):
        # nothing to close: the periodicity sentence cannot be exercised (the baseline list converges on a healthy tree)
        ctx.broken.append(("numerics:orbit-corrections-run", "%d of %d baseline corrections raised" % (n_raised, len(all_cases))))
        ctx.obligations["numerics:orbit-corrections-run"] = False
    else:
        ctx.obligations["numerics:orbit-corrections-run"] = True
    ctx.extra["worst_closure_over_amplified_tol"] = worst["closure_ratio"]
    ctx.extra["worst_independent_residual_over_amplified_tol"] = worst["half_ratio"]
    if cases is None:
        unconverged_raise(ctx, systems)


def unconverged_raise(ctx, systems):
    """an iteration cap that cannot be met must raise and leave the orbit untouched"""
    from hiten.system import System
    bodies = ("earth", "moon")
    sysm = systems.get(bodies) or System.from_bodies(*bodies)
    for L, fam, kw, cap in [(1, "halo", {"amplitude_z": 0.2, "zenith": "northern"}, 1), (2, "lyapunov", {"amplitude_x": 0.02}, 2),
                            (1, "vertical", {"amplitude_z": 0.05}, 1)]:
        orb = sysm.get_libration_point(L).create_orbit(fam, **kw)
        before = np.array(orb.initial_state, dtype=float)
        opts = orb.correction_options
        conv = dataclasses.replace(opts.base.convergence, max_attempts=cap)
        opts2 = dataclasses.replace(opts, base=dataclasses.replace(opts.base, convergence=conv))
        rep = {"system": "earth-moon", "L": L, "family": fam, "params": kw, "max_attempts": cap, "tol": float(conv.tol)}
        ctx.case(("unconverged", L, fam), kind="orbit:unconverged")
        try:
            res = orb.correct(opts2)
        except Exception:
            after = np.array(orb.initial_state, dtype=float)
            if not np.array_equal(before, after) or orb.period is not None:
                viol_once(ctx, "orbit:%s:state-modified-by-failed-correction" % fam,
                          "correction raised but the orbit's state/period were modified", dict(rep, before=before.tolist(), after=after.tolist(), period=orb.period))
            continue
        if not (res.residual_norm < float(conv.tol)):
            viol_once(ctx, "orbit:%s:unconverged-returned" % fam,
                      "correct() with max_attempts=%d returned residual_norm=%r >= tol" % (cap, res.residual_norm), dict(rep, residual_norm=float(res.residual_norm)))


# ----------------------------------------------------------------------------------------------------------

def run(ctx):
    import logging
    prev = logging.root.manager.disable
    logging.disable(logging.WARNING)     # the line search logs every capped step / failure
    try:
        _run(ctx)
    finally:
        logging.disable(prev)


def _run(ctx):
    _reported.clear()
    ctx.guard("regenerate", gen, ctx)
    mods = ["HitenModel.Props.C05"]
    ok = ctx.lean_build(mods)
    if ok:
        ctx.lean_audit(mods, ["HitenModel.Props.C05", "HitenModel.Lemmas.C05", "HitenModel.Lemmas.Mirror", "HitenModel.Core.C05", "HitenModel.Gen.C05",
                                   "HitenModel.Lemmas.REReal", "HitenModel.Core.RE"])
        if ctx.thorough():
            ctx.leanchecker(mods)
    ctx.guard("validate_field", validate_field, ctx)
    big = ctx.thorough()
    ctx.guard("armijo_cases", run_armijo_cases, ctx, 6000 if big else 300)
    ctx.guard("plain_cases", run_plain_cases, ctx, 1200 if big else 80)
    ctx.guard("newton_cases", run_newton_cases, ctx, 5000 if big else 250)
    ctx.guard("operator_checks", operator_checks, ctx, 2000 if big else 100)
    ctx.extra["correspondence_cases"] = ctx.corr_cases
    numerics(ctx)
    history_checks(ctx)
    if ctx.broken:
        concrete = [v for v in ctx.violations if v["found_input"]]
        solver = [v for v in concrete if v["key"].split(":")[0] in ("newton", "armijo", "plain", "orbit")]
        if (concrete or ctx.known) and not solver:
            # the framework only prints its own `no-failing-input-found` line when there is no other finding at all; make
            # sure a model/code divergence is never hidden behind an unrelated (e.g. known) finding
            ctx.violation("broken-obligation:solver-model",
                          "a theorem or the model/code correspondence no longer checks; the failing-input search on the real solver found no property violation",
                          {"broken": [{"theorem_or_correspondence": n, "message": m[:600]} for n, m in ctx.broken]}, found_input=False)
    ctx.rule = ("solver: random configuration (rho in {1/2,1/4,3/4}, min_alpha, c incl. the shipped 0.1, cap none/inf/105*2^-k) x dimension {1,2,3,6} x "
                "norm kind (custom first-component, default L2, interface inf-norm) x lazily random residual-norm oracle (big/slight decrease, equality, "
                "exact Armijo threshold, increase, NaN, raising residual, raising norm) x start point / tolerance (incl. r == tol) / iteration cap 0..12; "
                "non-trivial = at least two oracle queries or an error outcome (line search), at least one stepper call (Newton); "
                "orbits: family x L1/L2 x system x amplitude (fixed list + seed-dependent amplitudes)")
    ctx.assumptions += [
        "floating-point overflow to inf and NaN components inside x/delta are not modelled (NaN/exception of the residual norm are)",
        "mirror theorem (perpendicular crossing of a reversing symmetry plane at t_half => period 2 t_half) is background; periodicity of real orbits is measured, not proved",
    ]


# ----------------------------------------------------------------------------------------------------------
# replay of a recorded violation:  ./check C05 --replay replays/C05-<hash>.json
# ----------------------------------------------------------------------------------------------------------

def _replay_oracle(rp, dim):
    import random
    orc = Oracle(random.Random(0), dim, "first", WEIGHTS[0], p_nan=0.0, p_exc=1.0)   # unknown points raise
    for k, kind, v in rp.get("residual_norm_table", []):
        orc.forced[tuple(float(a) for a in k)] = (kind, None if v is None else fr(v))
    return orc


def replay(ctx, rec):
    import logging
    prev = logging.root.manager.disable
    logging.disable(logging.WARNING)
    try:
        _reported.clear()
        key = rec.get("key", "")
        rp = rec.get("replay", {}) or {}
        ctx.log("replaying", key)
        if "family" in rp and "max_attempts" in rp:
            unconverged_raise(ctx, {})
        elif "family" in rp:
            numerics(ctx, cases=[(tuple(rp["system"].split("-")), int(rp["L"]), rp["family"], rp["params"])])
        elif rp.get("call") == "_NewtonBackend.run":
            _replay_newton(ctx, rp)
        elif rp.get("call") in ("_ArmijoLineSearch", "_CorrectorPlainStep"):
            _replay_step(ctx, rp)
        else:
            _run(ctx)
        ctx.log("replay reproduced the violation" if ctx.violations or ctx.known else "replay did NOT reproduce the violation on this tree")
    finally:
        logging.disable(prev)


def _replay_step(ctx, rp):
    from hiten.algorithms.corrector.stepping import make_armijo_stepper, make_plain_stepper
    x0 = np.array(rp["x0"], dtype=float)
    delta = np.array(rp["delta"], dtype=float)
    orc = _replay_oracle(rp, len(x0))
    orc.in_stepper = True
    md = rp["max_delta"]
    if rp["call"] == "_ArmijoLineSearch":
        st = make_armijo_stepper(alpha_reduction=rp["alpha_reduction"], min_alpha=rp["min_alpha"], armijo_c=rp["armijo_c"])(
            orc.residual_fn, orc.stepper_norm(), md)
        cur = rp["current_norm"]
        out = st(x0.copy(), delta.copy(), cur)
        ctx.log("line search returned", out)
        direct_step_checks(ctx, "armijo", {"max_delta": md}, x0, delta, None if (cur is None or math.isnan(cur)) else fr(cur), out, orc, rp)
    else:
        st = make_plain_stepper()(orc.residual_fn, orc.stepper_norm(), md)
        out = st(x0.copy(), delta.copy(), 1.0)
        ctx.log("plain stepper returned", out)
        direct_step_checks(ctx, "plain", {"max_delta": md}, x0, delta, None, out, orc, rp)


def _replay_newton(ctx, rp):
    from hiten.algorithms.corrector.backends.newton import _NewtonBackend
    from hiten.algorithms.corrector.stepping import make_armijo_stepper, make_plain_stepper
    from hiten.algorithms.corrector.types import CorrectorInput
    x0 = np.array(rp["x0"], dtype=float)
    orc = _replay_oracle(rp, len(x0))
    dirs = {tuple(float(a) for a in x): np.array(d, dtype=float) for x, d in rp.get("newton_directions", [])}
    steps = []
    cur_x = [None]

    def jacobian_fn(x):
        cur_x[0] = orc.key(x)
        return np.eye(len(x))
    inner = (make_armijo_stepper(alpha_reduction=rp["alpha_reduction"], min_alpha=rp["min_alpha"], armijo_c=rp["armijo_c"])
             if rp["stepper"] == "armijo" else make_plain_stepper())

    def factory(residual_fn, norm_fn, max_delta):
        st = inner(residual_fn, norm_fn, max_delta)

        def stepper(x, delta, current_norm):
            ent = {"x": np.array(x, dtype=float), "delta": np.array(delta, dtype=float)}
            orc.in_stepper = True
            try:
                out = st(x, delta, current_norm)
                ent["out"] = (np.array(out[0], dtype=float), out[1], out[2])
                return out
            finally:
                orc.in_stepper = False
                steps.append(ent)
        return stepper
    be = _NewtonBackend(stepper_factory=factory)
    def solve(J, r, cond_threshold=1e8):      # replay the recorded linear-solve oracle
        if cur_x[0] not in dirs:
            raise LookupError("no Newton direction recorded at %r: on this tree the run leaves the recorded one" % (cur_x[0],))
        return dirs[cur_x[0]].copy()
    be._solve_delta_dense = solve
    req = CorrectorInput(initial_guess=x0.copy(), residual_fn=orc.residual_fn, jacobian_fn=jacobian_fn, norm_fn=orc.norm_callable(),
                         max_attempts=int(rp["max_attempts"]), tol=float(rp["tol"]), max_delta=rp["max_delta"], fd_step=1e-8)
    try:
        res = be.run(request=req)
        real = ("ok", int(res.iterations), res.residual_norm, np.array(res.x_corrected, dtype=float))
        ctx.log("backend returned x=%r iterations=%d residual_norm=%r (tol=%r)" % (real[3].tolist(), real[1], real[2], rp["tol"]))
    except Exception as ex:
        real = ("raised", type(ex).__name__)
        ctx.log("backend raised", repr(ex)[:200])
    direct_newton_checks(ctx, rp["stepper"], real, orc, steps, fr(rp["tol"]), int(rp["max_attempts"]), rp["max_delta"], rp)
