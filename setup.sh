#!/bin/bash
# Offline build of the framework: build the Lean library from files on disk.  The generated modules (lean/HitenModel/Gen/*.lean)
# are committed as generated from the unchanged tree and are regenerated from /repo's current working tree by every check
# (`lake` then rebuilds only what changed).  A property module that fails to build here is not a setup failure: its check reports it.
cd "$(dirname "$0")/lean"
lake build HitenModel.Lemmas.REReal HitenModel.Lemmas.Trees HitenModel.Lemmas.Symplectic 2>&1 | tail -3 || exit 1
lake build 2>&1 | grep -v "^warning\|unused\|Hint\|apply\]\|Note:\|^\s*$" | tail -15
exit 0
