import HitenModel.Lemmas.C06
namespace HitenModel.C06
end HitenModel.C06
