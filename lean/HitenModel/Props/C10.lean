/-
  Props/C10.lean — property C10: backward propagation and time grids mean what they say.

  Model: Core/C10.lean (hand-written, tied to the source by the exact correspondence of harness/props/c10.py through
  Drivers/C10.lean).  `Gen.C10.cfg` and `Gen.C10.dirTrace` are regenerated from /repo on every run by executing the
  current Python objects.  Flow-level facts (Mathlib ODE uniqueness) are in Lemmas/C10.lean.

  Each clause of the property is a `def … : Prop` parameterised by the extracted switches, with
    * a characterisation `…_iff` valid for EVERY value of the switches (what exactly the code must do),
    * the clause itself, at full strength, for the switches of the current tree (`…_current`, re-decided against the regenerated
      `Gen.C10.cfg` on every run: a regression of one of the three repairs flips a switch and the theorem stops compiling),
    * theorems about the model with the switch values of the tree BEFORE the repairs de81dee / 5667fce / c3c4fba (`oldCfg`, `…_old_*`,
      `…_unguarded`): the witnesses that show why each switch value is forced.
-/
import HitenModel.Gen.C10
import HitenModel.Lemmas.C10
import HitenModel.Lemmas.C10Model
import Mathlib.Tactic.Ring
import Mathlib.Tactic.Linarith
import Mathlib.Tactic.NormNum

namespace HitenModel.Props.C10
open HitenModel.C10 HitenModel.Gen.C10

/-! ## A. the direction wrapper `_DirectedSystem` -/


/-- forward direction: the wrapper is the base field -/
theorem directed_forward {τ β : Type} [Neg β] (ta : τ → τ) (base : τ → List β → List β) (fwd : Int) (h : fwd ≠ -1)
    (flip : Option (List Nat)) (t : τ) (y : List β) : directedRhs ta base fwd flip t y = base t y := by
  simp [directedRhs, h]


/-- backward, no selective flipping: every component of the base field (evaluated at the wrapper's time argument) is negated -/
theorem directed_backward_none {τ β : Type} [Neg β] (ta : τ → τ) (base : τ → List β → List β) (t : τ) (y : List β) :
    directedRhs ta base (-1) none t y = (base (ta t) y).map (fun v => -v) := by
  simp [directedRhs]


/-- backward with `flip_indices`: exactly the listed components are negated -/
theorem directed_backward_flip {τ β : Type} [Neg β] (ta : τ → τ) (base : τ → List β → List β) (idx : List Nat) (t : τ)
    (y : List β) (i : Nat) :
    (directedRhs ta base (-1) (some idx) t y)[i]? =
      ((base (ta t) y)[i]?).map (fun v => if idx.contains i then -v else v) := by
  simp [directedRhs, negateAt_getElem?]


/-- sign pattern the model predicts for a constructor call `_DirectedSystem(base, fwd, flip)` in dimension `dim` -/
def modelSigns (fwd : Int) (flip : Option (List Nat)) (dim : Nat) : List Int :=
  directedRhs (τ := Int) (β := Int) id (fun _ _ => List.replicate dim 1) (normFwd fwd) flip 0 []


/-- coefficient of `t` in the time handed to the base field -/
def modelTimeCoef (fwd : Int) : Int :=
  if normFwd fwd = -1 then
    match directedRhs (τ := Int) (β := Int) (fun t => cfg.dirTimeCoef * t) (fun t _ => [t]) (-1) none 1 [] with
    | [v] => -v
    | _ => 0
  else 1


/-- the sign table traced from the current `_rhs_impl` (30 constructor calls: fwd ∈ {1,-1,0,-3,2} × six flip patterns)
    is what the model computes -/
theorem directed_trace_matches_model :
    dirTrace.all (fun r => decide (modelSigns r.1 r.2.1 r.2.2.1 = r.2.2.2.2) && decide (modelTimeCoef r.1 = r.2.2.2.1)) = true := by
  decide


/-- **Clause 1 (flow level).** "Propagating with direction -1 for a duration s yields the state the flow had at time -s":
    the backward system is `z' = -f(c·s, z)` where `c` is the time coefficient used by the wrapper. -/
def BackwardIsFlowAtNegTime (c : ℝ) : Prop :=
  ∀ (E : Type) [NormedAddCommGroup E] [NormedSpace ℝ E] (f : ℝ → E → E) (U : Set E) (K : NNReal),
    (∀ t, LipschitzOnWith K (f t) U) → ∀ x y : ℝ → E,
      (∀ t, HasDerivAt x (f t (x t)) t) → (∀ t, x t ∈ U) →
      (∀ s, HasDerivAt y (-(f (c * s) (y s))) s) → (∀ s, y s ∈ U) → y 0 = x 0 → ∀ s, y s = x (-s)


/-- the clause holds for all fields, time-dependent ones included, exactly when the wrapper reverses the time argument -/
theorem backwardIsFlow_iff (c : ℝ) : BackwardIsFlowAtNegTime c ↔ c = -1 := by
  constructor
  · intro h
    obtain ⟨hx, hy⟩ := Flow.counterexample_solutions c
    have key := h ℝ (fun t _ => t) Set.univ 0 (fun t => by
        intro a _ b _; simp) (fun t => t ^ 2 / 2) (fun s => -(c * s ^ 2 / 2)) hx (fun _ => trivial)
      (fun s => by simpa using hy s) (fun _ => trivial) (by simp) 1
    have key' : -(c * (1:ℝ) ^ 2 / 2) = (-1 : ℝ) ^ 2 / 2 := key
    norm_num at key'
    linarith
  · rintro rfl E _ _ f U K hL x y hx hxU hy hyU h0 s
    exact Flow.backward_eq_flow_neg hL hx hxU (fun s => by simpa using hy s) hyU h0 s


/-- the switches of the tree before the repairs (kept to document, in the model, why each repaired value is forced) -/
def oldCfg : Cfg where
  dirTimeCoef := 1
  symGridSign := -1
  symTimesSign := -1
  guard45 := false
  guard853 := false
  guardEvent45 := false
  guardEvent853 := false

/-- **Clause 1, current tree, full strength**: the wrapper evaluates the base field at `_fwd * t` (`Gen.cfg.dirTimeCoef = -1`, traced),
    so backward propagation for a duration `s` is the flow at `-s` for EVERY field, time-dependent ones included. -/
theorem backwardIsFlow_current : BackwardIsFlowAtNegTime (cfg.dirTimeCoef : ℝ) := by
  rw [backwardIsFlow_iff]; norm_num [cfg]

/-- before c3c4fba the wrapper passed `t` unchanged: the clause failed … -/
theorem backwardIsFlow_old_false : ¬ BackwardIsFlowAtNegTime (oldCfg.dirTimeCoef : ℝ) := by
  rw [backwardIsFlow_iff]
  norm_num [oldCfg]

/-- … with this witness: field `f(t,u) = t`, start 0.  Flow: `x(t) = t²/2`, so the state at time −1 is `+1/2`;
    the backward system with the unreversed time argument (`z' = -f(c s, z)`, `c = 1`) has the solution `-s²/2`, i.e. `-1/2` at `s = 1`. -/
theorem directed_nonautonomous_counterexample :
    let c : ℝ := (oldCfg.dirTimeCoef : ℝ)
    let x : ℝ → ℝ := fun t => t ^ 2 / 2
    let y : ℝ → ℝ := fun s => -(c * s ^ 2 / 2)
    (∀ t, HasDerivAt x t t) ∧ (∀ s, HasDerivAt y (-(c * s)) s) ∧ y 0 = x 0 ∧ y 1 = -1 / 2 ∧ x (-1) = 1 / 2 := by
  obtain ⟨hx, hy⟩ := Flow.counterexample_solutions (oldCfg.dirTimeCoef : ℝ)
  refine ⟨hx, hy, by simp, ?_, ?_⟩ <;> norm_num [oldCfg]


/-- for AUTONOMOUS fields (CR3BP, variational equations, polynomial Hamiltonians — everything the library itself propagates)
    the clause holds whatever time coefficient the wrapper uses (which is why the old defect was invisible to the library's own systems) -/
theorem backwardIsFlow_autonomous (c : ℝ) (E : Type) [NormedAddCommGroup E] [NormedSpace ℝ E] (g : E → E) (U : Set E)
    (K : NNReal) (hL : LipschitzOnWith K g U) (x y : ℝ → E) (hx : ∀ t, HasDerivAt x (g (x t)) t) (hxU : ∀ t, x t ∈ U)
    (hy : ∀ s, HasDerivAt y (-((fun (_ : ℝ) u => g u) (c * s) (y s))) s) (hyU : ∀ s, y s ∈ U) (h0 : y 0 = x 0) (s : ℝ) :
    y s = x (-s) :=
  Flow.backward_eq_flow_neg_autonomous hL hx hxU hy hyU h0 s


/-- **Clause 1 (round trip)**: forward for `T`, then backward for `T` from the end state, returns to the start
    (autonomous fields; exact flows — "within integration tolerance" is measured by the harness). -/
theorem forward_backward_roundtrip (E : Type) [NormedAddCommGroup E] [NormedSpace ℝ E] (g : E → E) (U : Set E) (K : NNReal)
    (hL : LipschitzOnWith K g U) (x y : ℝ → E) (hx : ∀ t, HasDerivAt x (g (x t)) t) (hxU : ∀ t, x t ∈ U)
    (hy : ∀ s, HasDerivAt y (-(g (y s))) s) (hyU : ∀ s, y s ∈ U) (T : ℝ) (h0 : y 0 = x T) : y T = x 0 :=
  Flow.roundtrip_autonomous hL hx hxU hy hyU T h0


/-- non-vacuity: `g = id` on ℝ, `x = exp`, `y = exp(T - ·)` -/
example : ∃ (g : ℝ → ℝ) (x y : ℝ → ℝ), LipschitzOnWith 1 g Set.univ ∧ (∀ t, HasDerivAt x (g (x t)) t) ∧
    (∀ s, HasDerivAt y (-(g (y s))) s) ∧ y 0 = x 1 ∧ x 0 ≠ x 1 := by
  refine ⟨fun _ => 1, fun t => t, fun s => 1 - s, ?_, ?_, ?_, ?_, ?_⟩
  · intro a _ b _; simp
  · intro t; simpa using hasDerivAt_id' t
  · intro s; simpa using (hasDerivAt_id' s).const_sub 1
  · norm_num
  · norm_num


/-! ## B. grids and `validate_inputs` -/


/-- `validate_inputs` accepts every strictly decreasing grid with at least two samples … -/
theorem validate_descending (ts : List Int) (hl : 2 ≤ ts.length) (h : Desc ts) : validateGrid ts = .ok .descending := by
  match ts, hl, h with
  | a :: b :: rest, _, h =>
    have hneg := (diffs_all_neg_iff (a :: b :: rest)).2 h
    have hba : b < a := h.1
    have h0 : (diffs (a :: b :: rest)).all (fun x => x == 0) = false := by
      simp only [diffs, List.all_cons, Bool.and_eq_false_iff]; left; simp; omega
    have hp : (diffs (a :: b :: rest)).all (fun x => decide (0 < x)) = false := by
      simp only [diffs, List.all_cons, Bool.and_eq_false_iff]; left; simp; omega
    simp [validateGrid, h0, hp, hneg]


/-- … and every strictly increasing one -/
theorem validate_ascending (ts : List Int) (hl : 2 ≤ ts.length) (h : Asc ts) : validateGrid ts = .ok .ascending := by
  match ts, hl, h with
  | a :: b :: rest, _, h =>
    have hpos := (diffs_all_pos_iff (a :: b :: rest)).2 h
    have hab : a < b := h.1
    have h0 : (diffs (a :: b :: rest)).all (fun x => x == 0) = false := by
      simp only [diffs, List.all_cons, Bool.and_eq_false_iff]; left; simp; omega
    simp [validateGrid, h0, hpos]


/-- … and nothing else except zero-span grids: whatever is accepted is constant, strictly increasing or strictly decreasing -/
theorem validate_ok_cases (ts : List Int) (k : GridKind) (h : validateGrid ts = .ok k) :
    2 ≤ ts.length ∧ ((k = .zeroSpan ∧ ∀ d ∈ diffs ts, d = 0) ∨ (k = .ascending ∧ Asc ts) ∨ (k = .descending ∧ Desc ts)) := by
  unfold validateGrid at h
  split at h
  · cases h
  · rename_i hlen
    refine ⟨by omega, ?_⟩
    simp only at h
    split at h
    · rename_i h0
      cases h; left; refine ⟨rfl, ?_⟩
      intro d hd
      have := List.all_eq_true.1 h0 d hd
      simpa using this
    · split at h
      · rename_i hp; cases h; right; left; exact ⟨rfl, (diffs_all_pos_iff ts).1 hp⟩
      · split at h
        · rename_i hn; cases h; right; right; exact ⟨rfl, (diffs_all_neg_iff ts).1 hn⟩
        · cases h


/-! ## C. fixed-step integrators: signed steps, so ascending and descending grids are both integrated faithfully -/


/-- what the fixed-step driver returns for ANY accepted grid and ANY step function: the requested times themselves,
    one state per time, the first one being the initial state, every further one obtained by ONE step with the signed
    increment `h = t_{i+1} - t_i` from the previous one. -/
theorem fixed_structure {S : Type} (close : Int → Int → Bool) (step : Int → Int → S → S) (y0 : S) (ts : List Int) (s : Sol S)
    (h : integrateFixed close step y0 ts = .sol s) :
    s.times = ts ∧ s.states.length = ts.length ∧ s.states.head? = some y0 ∧
      (close (ts.headD 0) (ts.getLastD 0) = false → s.states = fixedStates step y0 ts) := by
  unfold integrateFixed at h
  split at h
  · cases h
  · rename_i k hv
    have hl := (validate_ok_cases ts k hv).1
    have hlen : ∀ (y : S) (l : List Int), (fixedStates step y l).length = l.length := by
      intro y l
      induction l generalizing y with
      | nil => simp [fixedStates]
      | cons a rest ih => cases rest with
        | nil => simp [fixedStates]
        | cons b rest => simp [fixedStates, ih]
    split at h
    · rename_i hc
      cases h
      refine ⟨rfl, by simp, ?_, fun hf => by rw [hc] at hf; cases hf⟩
      match ts, hl with
      | a :: b :: rest, _ => simp [List.replicate_succ]
    · cases h
      refine ⟨rfl, hlen _ _, ?_, fun _ => rfl⟩
      match ts, hl with
      | a :: b :: rest, _ => simp [fixedStates]


/-- **Clause 3/4 for the fixed-step family**: on every strictly monotone grid — ascending or DESCENDING — with an exact step
    the returned trajectory is faithful: stamps are the requested times, sample i is the flow at `t_i - t_0` (negative
    durations on a descending grid), the first sample is the initial state. -/
theorem fixed_monotone_faithful {S : Type} (φ : Int → S → S) (hφ : IsFlow φ) (close : Int → Int → Bool) (y0 : S) (ts : List Int)
    (hl : 2 ≤ ts.length) (hm : Asc ts ∨ Desc ts) (hc : close (ts.headD 0) (ts.getLastD 0) = false) :
    ∃ s, integrateFixed close (fun _ h y => φ h y) y0 ts = .sol s ∧ s.times = ts ∧ Faithful φ y0 s ∧ s.states.head? = some y0 := by
  have hv : ∃ k, validateGrid ts = .ok k := by
    rcases hm with h | h
    · exact ⟨_, validate_ascending ts hl h⟩
    · exact ⟨_, validate_descending ts hl h⟩
  obtain ⟨k, hv⟩ := hv
  match ts, hl with
  | a :: b :: rest, _ =>
    refine ⟨⟨a :: b :: rest, fixedStates (fun _ h y => φ h y) y0 (a :: b :: rest)⟩, ?_, rfl, ?_, ?_⟩
    · simp only [integrateFixed, hv]
      rw [if_neg (by rw [hc]; decide)]
    · simp only [Faithful, List.headD_cons]
      exact fixedStates_exact φ hφ y0 a (b :: rest)
    · simp [fixedStates]


/-- non-vacuity + concrete descending example: translation flow on ℤ, grid `[0,-2,-5]` -/
example : IsFlow (fun (τ : Int) (y : Int) => y + τ) ∧ Desc [0, -2, -5] ∧
    integrateFixed (fun _ _ => false) (fun _ h y => y + h) (10 : Int) [0, -2, -5] = .sol ⟨[0, -2, -5], [10, 8, 5]⟩ := by
  refine ⟨⟨by intro y; simp, by intro a b y; omega⟩, by simp [Desc], by decide⟩


/-! ## D. adaptive integrators on strictly decreasing grids -/


/-- what `integrate` of an adaptive class does with a strictly decreasing grid (not within np.isclose of zero span) -/
theorem integrateAdaptive_descending (cfg : Cfg) (k : Kind) (close : Int → Int → Bool) (c : Ctl) (orc : List (Bool × Int))
    (ts : List Int) (hl : 2 ≤ ts.length) (hd : Desc ts) (hc : close (ts.headD 0) (ts.getLastD 0) = false) :
    integrateAdaptive cfg k close c orc ts =
      if guardOf cfg k then AOutcome.error .descendingRejected
      else (match k with
       | .rk45 => AOutcome.error .zeroDivision
       | .dop853 => AOutcome.ok [ts.headD 0] (ts.map fun _ => Sample.left 0)) := by
  unfold integrateAdaptive adaptiveEntry
  rw [validate_descending ts hl hd]
  by_cases hg : guardOf cfg k = true
  · simp [hg]
  · simp only [hg, hc, Bool.false_and, Bool.and_false, if_false, Bool.false_eq_true]
    exact adaptiveDriver_descending k c orc ts hl hd


/-- **Clause 3** ("given a strictly decreasing grid, integrate it correctly or reject it, never return a silently wrong
    trajectory") for the adaptive class `k`, against every exact flow `φ`; the node-state oracle only has to be right about the
    start node.  Zero-span grids (np.isclose) are excluded: their constant short cut is documented behaviour. -/
def DescendingCorrectOrRejected (cfg : Cfg) (k : Kind) : Prop :=
  ∀ (S : Type) (φ : Int → S → S), IsFlow φ →
    ∀ (close : Int → Int → Bool) (c : Ctl) (orc : List (Bool × Int)) (y0 : S) (nodeState : Nat → S)
      (dense : Nat → Int → Int → S) (ts : List Int),
      2 ≤ ts.length → Desc ts → close (ts.headD 0) (ts.getLastD 0) = false → nodeState 0 = y0 →
      ∀ o, toOutcome y0 nodeState dense ts (integrateAdaptive cfg k close c orc ts) = some o →
        (∃ e, o = .error e) ∨ (∃ s, o = .sol s ∧ Faithful φ y0 s)


/-- RK45 satisfies the clause whatever the switch: without a guard the dense-output division `(t_q - t0) / 0` raises
    ZeroDivisionError (an ungraceful rejection, but a rejection) -/
theorem rk45_descending_rejected (cfg : Cfg) : DescendingCorrectOrRejected cfg .rk45 := by
  intro S φ _ close c orc y0 ns dense ts hl hd hc _ o ho
  rw [integrateAdaptive_descending cfg .rk45 close c orc ts hl hd hc] at ho
  left
  by_cases hg : guardOf cfg .rk45 = true
  · simp only [hg, if_true, toOutcome, Option.some.injEq] at ho; exact ⟨_, ho.symm⟩
  · simp only [hg, toOutcome, Option.some.injEq, Bool.false_eq_true, if_false] at ho; exact ⟨_, ho.symm⟩


/-- DOP853 satisfies it exactly when `integrate` guards against decreasing grids -/
theorem dop853_descending_iff (cfg : Cfg) : DescendingCorrectOrRejected cfg .dop853 ↔ cfg.guard853 = true := by
  constructor
  · intro h
    by_contra hg
    have hg' : guardOf cfg .dop853 = false := by simpa [guardOf] using hg
    have key := h Int (fun τ y => y + τ) ⟨by intro y; simp, by intro a b y; omega⟩ (fun _ _ => false) ⟨1, 1, 1⟩ [] 0
      (fun _ => 0) (fun _ _ _ => 0) [0, -1] (by simp) (by simp [Desc]) rfl rfl
    rw [integrateAdaptive_descending cfg .dop853 _ _ _ _ (by simp) (by simp [Desc]) rfl, hg'] at key
    have := key (.sol ⟨[0, -1], [0, 0]⟩) (by simp [toOutcome, sampleState])
    rcases this with ⟨e, he⟩ | ⟨s, hs, hf⟩
    · cases he
    · cases hs
      simp [Faithful] at hf
  · intro hg S φ _ close c orc y0 ns dense ts hl hd hc _ o ho
    rw [integrateAdaptive_descending cfg .dop853 close c orc ts hl hd hc] at ho
    have hg' : guardOf cfg .dop853 = true := by simpa [guardOf] using hg
    simp only [hg', if_true, toOutcome, Option.some.injEq] at ho
    exact Or.inl ⟨_, ho.symm⟩


/-- **Clause 3, current tree, full strength**: `_DOP853.integrate` guards (`Gen.cfg.guard853 = true`, observed on the real entry code),
    so on every strictly decreasing grid it rejects; together with `rk45_descending_rejected`, `fixed_monotone_faithful` and
    `symplectic_monotone_faithful` every low-level integrator integrates a decreasing grid correctly or rejects it. -/
theorem dop853_descending_current : DescendingCorrectOrRejected cfg .dop853 := by
  rw [dop853_descending_iff]; decide

/-- the adaptive classes of the current tree reject decreasing grids with the graceful `ValueError` (not the ZeroDivisionError) -/
theorem adaptive_descending_current_rejected (k : Kind) (close : Int → Int → Bool) (c : Ctl) (orc : List (Bool × Int)) (ts : List Int)
    (hl : 2 ≤ ts.length) (hd : Desc ts) (hc : close (ts.headD 0) (ts.getLastD 0) = false) :
    integrateAdaptive cfg k close c orc ts = .error .descendingRejected := by
  rw [integrateAdaptive_descending cfg k close c orc ts hl hd hc]
  cases k <;> simp [guardOf, cfg]

/-- why the guard is needed: WITHOUT it (any configuration with `guard853 = false`, e.g. the tree before de81dee), for EVERY strictly
    decreasing grid, every controller and every vector field the step loop is skipped and every requested time gets the initial
    state (`y_out[idx] = ys_arr[-1]`), with no error. -/
theorem dop853_descending_unguarded_returns_constant {S : Type} (cfg : Cfg) (hg : cfg.guard853 = false) (close : Int → Int → Bool) (c : Ctl)
    (orc : List (Bool × Int)) (y0 : S) (nodeState : Nat → S) (dense : Nat → Int → Int → S) (ts : List Int) (hl : 2 ≤ ts.length)
    (hd : Desc ts) (hc : close (ts.headD 0) (ts.getLastD 0) = false) (h0 : nodeState 0 = y0) :
    toOutcome y0 nodeState dense ts (integrateAdaptive cfg .dop853 close c orc ts) =
      some (.sol ⟨ts, List.replicate ts.length y0⟩) := by
  rw [integrateAdaptive_descending cfg .dop853 close c orc ts hl hd hc]
  have : guardOf cfg .dop853 = false := by simpa [guardOf] using hg
  simp only [this, toOutcome, Bool.false_eq_true, if_false, List.map_map, Option.some.injEq, Outcome.sol.injEq, Sol.mk.injEq, true_and]
  rw [List.eq_replicate_iff]
  constructor
  · simp
  · intro b hb
    simp only [List.mem_map, Function.comp] at hb
    obtain ⟨_, _, rfl⟩ := hb
    simpa [sampleState] using h0

theorem dop853_descending_old_false : ¬ DescendingCorrectOrRejected oldCfg .dop853 := by
  rw [dop853_descending_iff]; decide

/-- concrete witness for the old switches (the probe of DESIGN §6 row 9 in ticks): flow `y ↦ y + τ`, grid `[0,-1,-2]` -/
theorem dop853_descending_old_witness :
    toOutcome (0 : Int) (fun _ => 0) (fun _ _ _ => 0) [0, -1, -2]
      (integrateAdaptive oldCfg .dop853 (fun _ _ => false) ⟨1000, 1, 1⟩ [] [0, -1, -2]) = some (.sol ⟨[0, -1, -2], [0, 0, 0]⟩) ∧
    ¬ Faithful (fun (τ : Int) (y : Int) => y + τ) 0 ⟨[0, -1, -2], [0, 0, 0]⟩ := by
  constructor
  · decide
  · simp [Faithful]


/-! ### event-enabled adaptive drivers with `tmax < t0` -/


def eventSol {S : Type} (y0 : S) (nodeState : Nat → S) : EOutcome → Option (Outcome S)
  | .error e => some (.error e)
  | .const n => some (.sol ⟨List.replicate n 0, List.replicate n y0⟩)   -- (not used below: zero-span is excluded)
  | .nonterm => none
  | .noHit t0 tmax j => some (.sol ⟨[t0, tmax], [y0, nodeState j]⟩)


def EventDescendingCorrectOrRejected (cfg : Cfg) (k : Kind) : Prop :=
  ∀ (S : Type) (φ : Int → S → S), IsFlow φ →
    ∀ (close : Int → Int → Bool) (c : Ctl) (orc : List (Bool × Int)) (y0 : S) (nodeState : Nat → S) (ts : List Int),
      2 ≤ ts.length → Desc ts → close (ts.headD 0) (ts.getLastD 0) = false → nodeState 0 = y0 →
      ∀ o, eventSol y0 nodeState (integrateAdaptiveEventNoHit cfg k close c orc ts) = some o →
        (∃ e, o = .error e) ∨ (∃ s, o = .sol s ∧ Faithful φ y0 s)


theorem event_descending (cfg : Cfg) (k : Kind) (close : Int → Int → Bool) (c : Ctl) (orc : List (Bool × Int))
    (ts : List Int) (hl : 2 ≤ ts.length) (hd : Desc ts) (hc : close (ts.headD 0) (ts.getLastD 0) = false) :
    integrateAdaptiveEventNoHit cfg k close c orc ts =
      if guardEventOf cfg k then EOutcome.error .descendingRejected
      else EOutcome.noHit (ts.headD 0) (ts.getLastD 0) 0 := by
  unfold integrateAdaptiveEventNoHit adaptiveEntry
  rw [validate_descending ts hl hd]
  by_cases hg : guardEventOf cfg k = true
  · simp [hg]
  · simp only [hg, hc, Bool.false_and, Bool.and_false, if_false, Bool.false_eq_true]
    match ts, hl, hd with
    | a :: b :: rest, _, hd =>
      have hlt := desc_last_lt_head a b rest hd
      have hloop : loop c ((a :: b :: rest).getLastD 0) orc ((a :: b :: rest).headD 0) c.h0 = some [] :=
        loop_not_entered c _ orc _ _ (by simp only [List.headD_cons]; omega)
      unfold eventDriverNoHit
      rw [hloop]
      simp


/-- both event drivers satisfy the clause exactly when they guard against `tmax < t0` -/
theorem event_descending_iff (cfg : Cfg) (k : Kind) : EventDescendingCorrectOrRejected cfg k ↔ guardEventOf cfg k = true := by
  constructor
  · intro h
    by_contra hg
    have hg' : guardEventOf cfg k = false := by simpa using hg
    have key := h Int (fun τ y => y + τ) ⟨by intro y; simp, by intro a b y; omega⟩ (fun _ _ => false) ⟨1, 1, 1⟩ [] 0
      (fun _ => 0) [0, -1] (by simp) (by simp [Desc]) rfl rfl
    rw [event_descending cfg k _ _ _ _ (by simp) (by simp [Desc]) rfl, hg'] at key
    have := key (.sol ⟨[0, -1], [0, 0]⟩) (by simp [eventSol])
    rcases this with ⟨e, he⟩ | ⟨s, hs, hf⟩
    · cases he
    · cases hs
      simp [Faithful] at hf
  · intro hg S φ _ close c orc y0 ns ts hl hd hc _ o ho
    rw [event_descending cfg k close c orc ts hl hd hc] at ho
    simp only [hg, if_true, eventSol, Option.some.injEq] at ho
    exact Or.inl ⟨_, ho.symm⟩


/-- **Clause 3 for the event-enabled paths, current tree, full strength**: both event drivers are guarded (`tmax < t0` is rejected) -/
theorem event_descending_current :
    EventDescendingCorrectOrRejected cfg .rk45 ∧ EventDescendingCorrectOrRejected cfg .dop853 := by
  constructor <;> (rw [event_descending_iff]; decide)

/-- before de81dee neither event driver guarded; both returned `([t0, tmax], [y0, y0])` ("end state" = initial state) -/
theorem event_descending_old_false :
    ¬ EventDescendingCorrectOrRejected oldCfg .rk45 ∧ ¬ EventDescendingCorrectOrRejected oldCfg .dop853 := by
  constructor <;> (rw [event_descending_iff]; decide)


theorem event_descending_old_witness (k : Kind) :
    integrateAdaptiveEventNoHit oldCfg k (fun _ _ => false) ⟨1000, 1, 1⟩ [] [0, -2] = .noHit 0 (-2) 0 := by
  cases k <;> decide


/-! ## E. symplectic integrator: direction is realised through the grid, not through the field -/


/-- called directly (`_fwd` absent or +1) on ANY accepted grid, ascending or descending, the symplectic driver steps by the
    signed increments: faithful trajectory, requested stamps, first sample = initial state (clauses 3 and 4) -/
theorem symplectic_monotone_faithful {S : Type} (cfg : Cfg) (φ : Int → S → S) (hφ : IsFlow φ) (y0 : S) (ts : List Int)
    (hl : 2 ≤ ts.length) (hm : Asc ts ∨ Desc ts) :
    ∃ s, integrateSymplectic cfg (fun dt y => φ dt y) 1 y0 ts = .sol s ∧ s.times = ts ∧ Faithful φ y0 s ∧
      s.states.head? = some y0 := by
  have hv : ∃ k, validateGrid ts = .ok k := by
    rcases hm with h | h
    · exact ⟨_, validate_ascending ts hl h⟩
    · exact ⟨_, validate_descending ts hl h⟩
  obtain ⟨k, hv⟩ := hv
  match ts, hl with
  | a :: b :: rest, _ =>
    refine ⟨⟨a :: b :: rest, symStates (fun dt y => φ dt y) y0 (diffs (a :: b :: rest))⟩, ?_, rfl, ?_, ?_⟩
    · simp [integrateSymplectic, hv, symTimes, symGrid]
    · simp only [Faithful, List.headD_cons]
      exact symStates_exact φ hφ y0 a (b :: rest)
    · simp [diffs, symStates]


/-- **Clause 1 for the symplectic method**: with `_fwd = -1` the grid is negated (`cfg.symGridSign = -1`, traced), so sample i
    is the flow at MINUS the requested duration: `φ (-(t_i - t_0)) y0`. -/
theorem symplectic_backward_states {S : Type} (cfg : Cfg) (hσ : cfg.symGridSign = -1) (φ : Int → S → S) (hφ : IsFlow φ) (y0 : S)
    (ts : List Int) (k : GridKind) (hv : validateGrid ts = .ok k) :
    ∃ s, integrateSymplectic cfg (fun dt y => φ dt y) (-1) y0 ts = .sol s ∧
      s.states = ts.map (fun t => φ (-(t - ts.headD 0)) y0) ∧ s.times = ts.map (fun t => cfg.symTimesSign * t) := by
  have hl := (validate_ok_cases ts k hv).1
  match ts, hl with
  | a :: b :: rest, _ =>
    refine ⟨_, by simp only [integrateSymplectic, hv]; rfl, ?_, by simp [symTimes]⟩
    simp only [symGrid, hσ, show ((-1 : Int) = 1) = False by decide, if_false, List.map_cons]
    have := symStates_exact φ hφ y0 (-1 * a) ((b :: rest).map fun t => -1 * t)
    simp only [List.map_cons] at this
    rw [this]
    simp only [List.map_cons, List.map_map, List.headD_cons, List.cons.injEq]
    refine ⟨by congr 1; omega, by congr 1; omega, ?_⟩
    apply List.map_congr_left
    intro u _
    simp only [Function.comp]
    congr 1; omega


/-- traced from the current `_ExtendedSymplectic.integrate`: a backward-directed system is integrated on the NEGATED grid … -/
theorem symplectic_grid_reversed : cfg.symGridSign = -1 := by decide


/-- … hence, for the current tree, `method="symplectic"` with direction -1 returns the flow at minus the requested durations -/
theorem symplectic_backward_current {S : Type} (φ : Int → S → S) (hφ : IsFlow φ) (y0 : S) (ts : List Int) (k : GridKind)
    (hv : validateGrid ts = .ok k) :
    ∃ s, integrateSymplectic cfg (fun dt y => φ dt y) (-1) y0 ts = .sol s ∧
      s.states = ts.map (fun t => φ (-(t - ts.headD 0)) y0) :=
  let ⟨s, h1, h2, _⟩ := symplectic_backward_states cfg symplectic_grid_reversed φ hφ y0 ts k hv
  ⟨s, h1, h2⟩


/-- **Clause 4 ("samples are returned exactly at the requested times") for the symplectic integrator called with a
    backward-directed system**: holds iff the returned times are not re-signed. -/
def SymplecticTimesAsRequested (cfg : Cfg) : Prop :=
  ∀ (S : Type) (step : Int → S → S) (fwd : Int) (y0 : S) (ts : List Int) (s : Sol S),
    integrateSymplectic cfg step fwd y0 ts = .sol s → s.times = ts


theorem symplecticTimes_iff (cfg : Cfg) : SymplecticTimesAsRequested cfg ↔ cfg.symTimesSign = 1 := by
  constructor
  · intro h
    have := h Unit (fun _ y => y) (-1) () [1, 2] ⟨[cfg.symTimesSign * 1, cfg.symTimesSign * 2], [(), ()]⟩
      (by simp [integrateSymplectic, validateGrid, diffs, symTimes, symGrid, symStates])
    simp at this
    omega
  · intro h S step fwd y0 ts s hs
    unfold integrateSymplectic at hs
    split at hs
    · cases hs
    · cases hs
      simp only [symTimes, h]
      split
      · rfl
      · simp


/-- **Clause 4 for the symplectic integrator, current tree, full strength** (`times_out = t_vals.copy()`) -/
theorem symplecticTimes_current : SymplecticTimesAsRequested cfg := by
  rw [symplecticTimes_iff]; decide

/-- before 5667fce: `times_out = t_vals * fwd` — with a backward-directed system the returned times were `-t_vals` -/
theorem symplecticTimes_old_false : ¬ SymplecticTimesAsRequested oldCfg := by
  rw [symplecticTimes_iff]; decide


/-! ## F. `_propagate_dynsys`: the returned stamps -/


/-- the outcomes the library's integrators can produce for a call made by `_propagate_dynsys` -/
inductive LibInteg {S : Type} (cfg : Cfg) (close : Int → Int → Bool) (y0 : S) : Method → Call → Outcome S → Prop
  | fixed (step : Int → Int → S → S) (call : Call) : LibInteg cfg close y0 .fixed call (integrateFixed close step y0 call.grid)
  | symplectic (step : Int → S → S) (call : Call) :
      LibInteg cfg close y0 .symplectic call (integrateSymplectic cfg step call.fwd y0 call.grid)
  | adaptive (k : Kind) (c : Ctl) (orc : List (Bool × Int)) (nodeState : Nat → S) (dense : Nat → Int → Int → S) (call : Call)
      (o : Outcome S) (h : toOutcome y0 nodeState dense call.grid (integrateAdaptive cfg k close c orc call.grid) = some o) :
      LibInteg cfg close y0 .adaptive call o


/-- **Clause 2**: for direction ±1 the stamps returned by `_propagate_dynsys` are `forward · linspace(t0, tf, steps)`, for every method -/
def StampsConsistent (cfg : Cfg) : Prop :=
  ∀ (S : Type) (close : Int → Int → Bool) (integ : Method → Call → Outcome S) (m : Method) (forward : Int)
    (flip : Option (List Nat)) (y0 : S) (t0 d : Int) (n : Nat) (s : Sol S),
    (forward = 1 ∨ forward = -1) → (∀ call, LibInteg cfg close y0 m call (integ m call)) →
    propagate close integ m forward flip y0 t0 d n = .sol s → s.times = (linspace t0 d n).map (fun t => forward * t)


/-- fixed-step and adaptive methods: always; symplectic: when the integrator does not re-sign its times (used by `stampsConsistent_iff`) -/
theorem stamps_consistent_of (cfg : Cfg) {S : Type} (close : Int → Int → Bool) (integ : Method → Call → Outcome S) (m : Method)
    (hm : m ≠ .symplectic ∨ cfg.symTimesSign = 1) (forward : Int) (flip : Option (List Nat)) (y0 : S) (t0 d : Int) (n : Nat) (s : Sol S)
    (hI : ∀ call, LibInteg cfg close y0 m call (integ m call))
    (h : propagate close integ m forward flip y0 t0 d n = .sol s) : s.times = (linspace t0 d n).map (fun t => forward * t) := by
  unfold propagate at h
  simp only at h
  split at h
  · cases h; rfl
  · generalize hcall : (⟨normFwd forward, flip, linspace t0 d n⟩ : Call) = call at h
    have hg : call.grid = linspace t0 d n := by rw [← hcall]
    have hI := hI call
    generalize integ m call = o at h hI
    cases hI with
    | fixed step _ =>
      cases hs : integrateFixed close step y0 call.grid with
      | error e => rw [hs] at h; cases h
      | sol s' => rw [hs] at h; cases h; simp only; rw [(fixed_structure close step y0 _ s' hs).1, hg]
    | symplectic step _ =>
      rcases hm with hm | hm
      · exact absurd rfl hm
      · cases hs : integrateSymplectic cfg step call.fwd y0 call.grid with
        | error e => rw [hs] at h; cases h
        | sol s' =>
          rw [hs] at h; cases h; simp only
          rw [(symplecticTimes_iff cfg).2 hm S step call.fwd y0 call.grid s' hs, hg]
    | adaptive k c orc ns dense _ o ho =>
      cases o with
      | error e => cases h
      | sol s' => cases h; simp only; rw [toOutcome_times y0 ns dense _ _ s' ho, hg]


/-- all three methods, iff the symplectic integrator does not sign its times a second time -/
theorem stampsConsistent_iff (cfg : Cfg) : StampsConsistent cfg ↔ cfg.symTimesSign = 1 := by
  constructor
  · intro h
    have key := h Unit (fun _ _ => false)
      (fun _ call => integrateSymplectic cfg (fun _ y => y) call.fwd () call.grid) .symplectic (-1) none () 1 1 2
      ⟨[-1 * (cfg.symTimesSign * 1), -1 * (cfg.symTimesSign * 2)], [(), ()]⟩ (Or.inr rfl)
      (fun call => LibInteg.symplectic _ call)
      (by simp [propagate, linspace, normFwd, integrateSymplectic, validateGrid, diffs, symTimes, symGrid, symStates, List.range_succ])
    simp [linspace, List.range_succ] at key
    omega
  · intro hσ S close integ m forward flip y0 t0 d n s _ hI h
    exact stamps_consistent_of cfg close integ m (Or.inr hσ) forward flip y0 t0 d n s hI h


/-- **Clause 2, current tree, full strength**: for direction ±1 and ALL THREE methods the stamps returned by `_propagate_dynsys` are
    `forward · linspace(t0, tf, steps)` — hence non-positive and strictly decreasing for `forward = -1` (next theorem). -/
theorem stampsConsistent_current : StampsConsistent cfg := by
  rw [stampsConsistent_iff]; decide

/-- before 5667fce `_ExtendedSymplectic.integrate` returned `t_vals * fwd` and `_propagate_dynsys` multiplied by `forward` again -/
theorem stampsConsistent_old_false : ¬ StampsConsistent oldCfg := by
  rw [stampsConsistent_iff]; decide

/-- the old witness: `method="symplectic"`, `forward=-1`, `t0=0`, three samples one tick apart: stamps `0, +1, +2`
    (for the flow at `0, -1, -2`, see `symplectic_backward_states`) … -/
theorem stamps_symplectic_old_witness :
    propagate (S := Unit) (fun _ _ => false) (fun _ call => integrateSymplectic oldCfg (fun _ y => y) call.fwd () call.grid)
      .symplectic (-1) none () 0 1 3 = .sol ⟨[0, 1, 2], [(), (), ()]⟩ := by
  decide

/-- … and the same call on the current tree: stamps `0, -1, -2` -/
theorem stamps_symplectic_current_example :
    propagate (S := Unit) (fun _ _ => false) (fun _ call => integrateSymplectic cfg (fun _ y => y) call.fwd () call.grid)
      .symplectic (-1) none () 0 1 3 = .sol ⟨[0, -1, -2], [(), (), ()]⟩ := by
  decide


/-- what "signed consistently" buys: backward stamps are non-positive and strictly decreasing (for `t0 ≥ 0`, `tf > t0`) -/
theorem backward_stamps_nonpositive_decreasing (t0 d : Int) (n : Nat) (h0 : 0 ≤ t0) (hd : 0 < d) :
    (∀ t ∈ (linspace t0 d n).map (fun t => -1 * t), t ≤ 0) ∧ Desc ((linspace t0 d n).map (fun t => -1 * t)) := by
  constructor
  · intro t ht
    simp only [linspace, List.map_map, List.mem_map, List.mem_range, Function.comp] at ht
    obtain ⟨i, _, rfl⟩ := ht
    have : 0 ≤ d * (i : Int) := Int.mul_nonneg (le_of_lt hd) (Int.natCast_nonneg i)
    omega
  · have gen : ∀ (k m : Nat), Desc (((List.range' k m).map fun (i : Nat) => t0 + d * (i : Int)).map (fun t => -1 * t)) := by
      intro k m
      induction m generalizing k with
      | zero => simp [Desc]
      | succ m ih =>
        cases m with
        | zero => simp [List.range', Desc]
        | succ m =>
          have := ih (k + 1)
          simp only [List.range', List.map_cons, Desc] at this ⊢
          refine ⟨?_, this⟩
          have : d * (k : Int) < d * ((k + 1 : Nat) : Int) := by
            apply Int.mul_lt_mul_of_pos_left _ hd
            omega
          omega
    simpa [linspace, List.range_eq_range'] using gen 0 n


/-! ## G. adaptive integrators on strictly increasing grids: nodes bracket every requested time, samples are dense
       evaluations inside the bracketing step, the first sample is the initial state -/


theorem adaptive_ascending (k : Kind) (c : Ctl) (hmin : 0 < c.minS) (orc : List (Bool × Int)) (ts : List Int)
    (hl : 2 ≤ ts.length) (ha : Asc ts) (acc : List Int)
    (hloop : loop c (ts.getLastD 0) orc (ts.headD 0) c.h0 = some acc) :
    adaptiveDriver k c orc ts = .ok (ts.headD 0 :: acc) (ts.map (query k (ts.headD 0 :: acc))) ∧
    Asc (ts.headD 0 :: acc) ∧ (ts.headD 0 :: acc).getLastD 0 = ts.getLastD 0 ∧
    (∀ q ∈ ts, ∃ j, j + 1 < (ts.headD 0 :: acc).length ∧
        (ts.headD 0 :: acc).getD j 0 < (ts.headD 0 :: acc).getD (j + 1) 0 ∧
        (ts.headD 0 :: acc).getD j 0 ≤ q ∧ q ≤ (ts.headD 0 :: acc).getD (j + 1) 0 ∧
        query k (ts.headD 0 :: acc) q =
          .dense j (q - (ts.headD 0 :: acc).getD j 0) ((ts.headD 0 :: acc).getD (j + 1) 0 - (ts.headD 0 :: acc).getD j 0)) ∧
    (∃ den, 0 < den ∧ (ts.map (query k (ts.headD 0 :: acc))).head? = some (.dense 0 0 den)) := by
  have hlt := asc_head_lt_last_of_length ts hl ha
  obtain ⟨hasc, hlast⟩ := loop_nodes c hmin _ orc _ _ (le_of_lt hlt) acc hloop
  have hne : ts ≠ [] := by intro h; rw [h] at hl; simp at hl
  have hmem : ts.headD 0 ∈ ts := by cases ts with
    | nil => exact absurd rfl hne
    | cons a rest => simp
  generalize hnodes : ts.headD 0 :: acc = nodes at hasc hlast ⊢
  have hhd : nodes.headD 0 = ts.headD 0 := by rw [← hnodes]; rfl
  have hnl : 2 ≤ nodes.length := by
    cases acc with
    | nil => rw [← hnodes] at hlast; simp only [List.getLastD_cons, List.getLastD_nil] at hlast; omega
    | cons _ _ => rw [← hnodes]; simp
  have hq : ∀ q ∈ ts, ∃ j, j + 1 < nodes.length ∧ nodes.getD j 0 < nodes.getD (j + 1) 0 ∧ nodes.getD j 0 ≤ q ∧
      q ≤ nodes.getD (j + 1) 0 ∧ query k nodes q = .dense j (q - nodes.getD j 0) (nodes.getD (j + 1) 0 - nodes.getD j 0) ∧
      (q = ts.headD 0 → j = 0) := by
    intro q hq
    have hb := asc_bounds _ ha q hq
    obtain ⟨j, h1, h2, h3, h4, h5, h6⟩ := query_ascending k nodes q hnl hasc (by rw [hhd]; exact hb.1) (by rw [hlast]; exact hb.2)
    exact ⟨j, h1, h4, h2, h3, h5, by rw [hhd] at h6; exact h6⟩
  refine ⟨?_, hasc, hlast, ?_, ?_⟩
  · unfold adaptiveDriver
    rw [hloop]
    simp only [hnodes]
    rw [if_neg]
    intro hcon
    simp only [List.contains_iff_mem, List.mem_map] at hcon
    obtain ⟨q, hqm, hqe⟩ := hcon
    obtain ⟨j, _, _, _, _, h5, _⟩ := hq q hqm
    rw [h5] at hqe
    cases hqe
  · intro q hqm
    obtain ⟨j, h1, h2, h3, h4, h5, _⟩ := hq q hqm
    exact ⟨j, h1, h2, h3, h4, h5⟩
  · obtain ⟨j, h1, h2, h3, h4, h5, h6⟩ := hq (ts.headD 0) hmem
    have hj := h6 rfl
    subst hj
    refine ⟨nodes.getD 1 0 - nodes.getD 0 0, by simpa using h2, ?_⟩
    rw [map_head?_of_ne_nil _ 0 ts hne, h5]
    have h0 : nodes.getD 0 0 = ts.headD 0 := by rw [← hnodes]; rfl
    rw [h0]
    simp only [Int.sub_self, Nat.zero_add]


/-- consequently, with exact oracles the returned trajectory is faithful, the stamps are the requested grid and the first
    sample is the initial state (needs only: the interpolant at `x = 0` returns the left node state — checked on the real
    dense evaluators by the harness — and `nodeState 0 = y0`). -/
theorem adaptive_ascending_faithful {S : Type} (φ : Int → S → S) (cfg : Cfg) (k : Kind) (close : Int → Int → Bool)
    (c : Ctl) (hmin : 0 < c.minS) (orc : List (Bool × Int)) (y0 : S) (ts : List Int) (hl : 2 ≤ ts.length) (ha : Asc ts)
    (hc : close (ts.headD 0) (ts.getLastD 0) = false) (acc : List Int)
    (hloop : loop c (ts.getLastD 0) orc (ts.headD 0) c.h0 = some acc)
    (nodeState : Nat → S) (dense : Nat → Int → Int → S)
    (hns : ∀ j, nodeState j = φ ((ts.headD 0 :: acc).getD j 0 - ts.headD 0) y0)
    (hdense : ∀ j num den, dense j num den = φ num (nodeState j)) (hφ : IsFlow φ) :
    ∃ s, toOutcome y0 nodeState dense ts (integrateAdaptive cfg k close c orc ts) = some (.sol s) ∧ s.times = ts ∧
      Faithful φ y0 s ∧ s.states.head? = some y0 := by
  obtain ⟨hdrv, _, _, hq, den, _, hfirst⟩ := adaptive_ascending k c hmin orc ts hl ha acc hloop
  have hentry : integrateAdaptive cfg k close c orc ts = adaptiveDriver k c orc ts := by
    unfold integrateAdaptive adaptiveEntry
    rw [validate_ascending ts hl ha]
    have hb : (GridKind.ascending == GridKind.descending) = false := by decide
    simp only [hb, hc, Bool.and_false, Bool.false_eq_true, if_false]
  refine ⟨⟨ts, (ts.map (query k (ts.headD 0 :: acc))).map (sampleState nodeState dense)⟩, ?_, rfl, ?_, ?_⟩
  · rw [hentry, hdrv]; rfl
  · simp only [Faithful, List.map_map]
    apply List.map_congr_left
    intro q hqm
    obtain ⟨j, _, _, _, _, h5⟩ := hq q hqm
    simp only [Function.comp, h5, sampleState, hdense, hns]
    rw [← hφ.add]; congr 1; omega
  · have hne : ts ≠ [] := by intro h; rw [h] at hl; simp at hl
    rw [map_head?_of_ne_nil _ (Sample.left 0) _ (by simpa using hne)]
    have : (ts.map (query k (ts.headD 0 :: acc))).headD (Sample.left 0) = .dense 0 0 den := by
      cases hm : ts.map (query k (ts.headD 0 :: acc)) with
      | nil => rw [hm] at hfirst; cases hfirst
      | cons x xs => rw [hm] at hfirst; simpa using hfirst
    rw [this]
    simp [sampleState, hdense, hns, hφ.zero]


/-- non-vacuity of the hypotheses: grid `[0,3,10]`, controller oracle accepting steps of 4, 4 and the clipped rest -/
example : loop ⟨100, 1, 4⟩ 10 [(true, 4), (false, 2), (true, 8), (true, 8)] 0 4 = some [4, 6, 10] ∧
    adaptiveDriver .rk45 ⟨100, 1, 4⟩ [(true, 4), (false, 2), (true, 8), (true, 8)] [0, 3, 10] =
      .ok [0, 4, 6, 10] [.dense 0 0 4, .dense 0 3 4, .dense 2 4 4] := by
  constructor <;> decide



end HitenModel.Props.C10
