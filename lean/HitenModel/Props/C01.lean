/-
  Props/C01.lean — property C01: equations of motion, Jacobian, variational system and energy are
  mutually consistent.  Every definition in `Gen.C01` is regenerated from /repo on each run by tracing the
  *current* Python kernels; the theorems below are re-checked against them.
  RE variables: 0..5 = x y z vx vy vz, 6 = mu   (variational trace: 0..35 = Phi row-major, 36..41 = state, 42 = mu)
-/
import HitenModel.Gen.C01
import HitenModel.Lemmas.REReal
import Mathlib.Tactic.FieldSimp
import Mathlib.Tactic.Ring
import Mathlib.Tactic.IntervalCases
import Mathlib.Tactic.NormNum

namespace HitenModel.Props.C01
open HitenModel RE Gen.C01

/-- the two sqrt arguments the kernels use are the squared distances to the primaries -/
theorem sq0_is_r1_sq (ρ : ℕ → ℝ) : eval ρ sq0 = (ρ 0 + ρ 6) ^ 2 + ρ 1 ^ 2 + ρ 2 ^ 2 := by
  simp only [sq0, eval] <;> ring
theorem sq1_is_r2_sq (ρ : ℕ → ℝ) : eval ρ sq1 = (ρ 0 - 1 + ρ 6) ^ 2 + ρ 1 ^ 2 + ρ 2 ^ 2 := by
  simp only [sq1, eval] <;> ring
theorem sqrtArgs_complete : sqrtArgs = [sq0, sq1] := rfl

/-- the vector field exposed through the `_RTBPRHS` closure is the kernel with `mu` passed unchanged -/
theorem closure_passes_mu (i : ℕ) (hi : i < 6) : accel i = accelKernel i := by
  interval_cases i <;> rfl

macro "re_unfold" : tactic =>
  `(tactic| simp only [accel, jac, energy, energyKP, jacobiInner, D, DT, eval,
      if_true, if_false, Nat.succ_ne_zero, Nat.reduceEqDiff, OfNat.ofNat_ne_zero, reduceIte, Nat.reduceSub,
      Nat.reduceMul, Nat.reduceAdd])

/-- **jac_is_derivative (algebraic core)**: entry (i,j) of the traced Jacobian is the symbolic partial
derivative of component i of the traced vector field with respect to variable j. -/
theorem jac_eq_D (ρ : ℕ → ℝ) (h0 : 0 < eval ρ sq0) (h1 : 0 < eval ρ sq1) (i j : ℕ) (hi : i < 6) (hj : j < 6) :
    eval ρ (D j (accel i)) = eval ρ (jac (6 * i + j)) := by
  have hr0 : Real.sqrt (eval ρ sq0) ≠ 0 := (Real.sqrt_pos.mpr h0).ne'
  have hr1 : Real.sqrt (eval ρ sq1) ≠ 0 := (Real.sqrt_pos.mpr h1).ne'
  interval_cases i <;> interval_cases j <;> re_unfold <;>
    (generalize Real.sqrt (eval ρ sq0) = r0 at *
     generalize Real.sqrt (eval ρ sq1) = r1 at *
     simp only [sq0, sq1, D, eval, if_true, if_false, reduceIte, Nat.reduceEqDiff, Nat.reduceSub]
     try field_simp
     try ring)


/-- the traced vector field is well defined (no zero denominators, positive sqrt arguments) away from the primaries -/
theorem accel_WD (ρ : ℕ → ℝ) (h0 : 0 < eval ρ sq0) (h1 : 0 < eval ρ sq1) (i : ℕ) (hi : i < 6) : WD ρ (accel i) := by
  -- by the verified syntactic checker (`wdOK_sound`): whatever shape the traced term has, every denominator is a product / power /
  -- quotient of square roots of the two squared distances and every sqrt argument is one of them
  have hpos : ∀ e ∈ [sq0, sq1], 0 < eval ρ e := by
    intro e he
    rcases List.mem_cons.mp he with rfl | he
    · exact h0
    · rcases List.mem_cons.mp he with rfl | he
      · exact h1
      · cases he
  refine wdOK_sound ρ [sq0, sq1] hpos (accel i) ?_
  interval_cases i <;> decide +kernel

/-- **jac_is_derivative**: for every mass parameter and every state away from the primaries the exposed
Jacobian entry (i,j) is the partial derivative of component i of the vector field with respect to state
variable j (all other variables — including `mu` — held fixed). -/
theorem jac_is_derivative (ρ : ℕ → ℝ) (h0 : 0 < eval ρ sq0) (h1 : 0 < eval ρ sq1) (i j : ℕ) (hi : i < 6) (hj : j < 6) :
    HasDerivAt (fun t => eval (Function.update ρ j t) (accel i)) (eval ρ (jac (6 * i + j))) (ρ j) := by
  rw [← jac_eq_D ρ h0 h1 i j hi hj]
  exact D_sound j ρ (accel i) (accel_WD ρ h0 h1 i hi)

/-! ### variational system -/

/-- environment that reads the 6-D state and `mu` out of the 43 variables of the variational trace -/
def stateOf (ρ : ℕ → ℝ) : ℕ → ℝ := fun k => if k < 6 then ρ (36 + k) else ρ 42

theorem vsq0_is_sq0 (ρ : ℕ → ℝ) : eval ρ vq0 = eval (stateOf ρ) sq0 := by
  simp [vq0, sq0, eval, stateOf] <;> ring
theorem vsq1_is_sq1 (ρ : ℕ → ℝ) : eval ρ vq1 = eval (stateOf ρ) sq1 := by
  simp [vq1, sq1, eval, stateOf] <;> ring
theorem vSqrtArgs_complete : vSqrtArgs = [vq0, vq1] := rfl

/-- **vareq_state_block**: components 36..41 of the variational right-hand side are the vector field of the
embedded state (the inline re-implementation agrees with `_crtbp_accel`). -/
theorem vareq_state_block (ρ : ℕ → ℝ) (h0 : 0 < eval ρ vq0) (h1 : 0 < eval ρ vq1) (a : ℕ) (ha : a < 6) :
    eval ρ (vareq (36 + a)) = eval (stateOf ρ) (accel a) := by
  have e0 := vsq0_is_sq0 ρ
  have e1 := vsq1_is_sq1 ρ
  have hr0 : Real.sqrt (eval ρ vq0) ≠ 0 := (Real.sqrt_pos.mpr h0).ne'
  have hr1 : Real.sqrt (eval ρ vq1) ≠ 0 := (Real.sqrt_pos.mpr h1).ne'
  interval_cases a <;> simp only [vareq, accel, eval, Nat.reduceAdd, ← e0, ← e1] <;>
    (generalize Real.sqrt (eval ρ vq0) = r0 at *
     generalize Real.sqrt (eval ρ vq1) = r1 at *
     simp [stateOf]
     try field_simp
     try ring)

set_option maxHeartbeats 1000000 in
/-- **vareq_stm_block**: component 6a+b of the variational right-hand side is `Σ_k jac[a,k] · Φ[k,b]`
(row-major storage, Jacobian applied from the left) with the *same* Jacobian as `jac_is_derivative`. -/
theorem vareq_stm_block (ρ : ℕ → ℝ) (h0 : 0 < eval ρ vq0) (h1 : 0 < eval ρ vq1) (a b : ℕ) (ha : a < 6) (hb : b < 6) :
    eval ρ (vareq (6 * a + b)) =
      eval (stateOf ρ) (jac (6 * a + 0)) * ρ (6 * 0 + b) + eval (stateOf ρ) (jac (6 * a + 1)) * ρ (6 * 1 + b) +
      eval (stateOf ρ) (jac (6 * a + 2)) * ρ (6 * 2 + b) + eval (stateOf ρ) (jac (6 * a + 3)) * ρ (6 * 3 + b) +
      eval (stateOf ρ) (jac (6 * a + 4)) * ρ (6 * 4 + b) + eval (stateOf ρ) (jac (6 * a + 5)) * ρ (6 * 5 + b) := by
  have e0 := vsq0_is_sq0 ρ
  have e1 := vsq1_is_sq1 ρ
  have hr0 : Real.sqrt (eval ρ vq0) ≠ 0 := (Real.sqrt_pos.mpr h0).ne'
  have hr1 : Real.sqrt (eval ρ vq1) ≠ 0 := (Real.sqrt_pos.mpr h1).ne'
  interval_cases a <;> interval_cases b <;>
    simp only [vareq, jac, eval, Nat.reduceAdd, Nat.reduceMul, ← e0, ← e1] <;>
    (generalize Real.sqrt (eval ρ vq0) = r0 at *
     generalize Real.sqrt (eval ρ vq1) = r1 at *
     simp [stateOf]
     try field_simp
     try ring)

/-! ### energy integral -/

/-- the velocity of the state along the flow: component j of the traced field, `mu` constant -/
noncomputable def fieldDir (ρ : ℕ → ℝ) : ℕ → ℝ := fun j => eval ρ (accel j)   -- `accel j = 0` for j ≥ 6 (mu is constant)

macro "lie_zero" ρ:term : tactic =>
  `(tactic| (
     have hr0 : Real.sqrt (eval $ρ sq0) ≠ 0 := (Real.sqrt_pos.mpr ‹0 < eval $ρ sq0›).ne'
     have hr1 : Real.sqrt (eval $ρ sq1) ≠ 0 := (Real.sqrt_pos.mpr ‹0 < eval $ρ sq1›).ne'
     simp only [energy, energyKP, jacobiInner, DT, eval, fieldDir, accel, if_true, if_false, reduceIte,
       Nat.reduceSub]
     generalize Real.sqrt (eval $ρ sq0) = r0 at *
     generalize Real.sqrt (eval $ρ sq1) = r1 at *
     simp only [sq0, sq1, DT, eval, fieldDir, accel, if_true, if_false, reduceIte, Nat.reduceSub]
     field_simp
     ring))

/-- **energy_first_integral**: the Lie derivative of the reported energy along the traced vector field vanishes
identically — for every `mu` and every state away from the primaries, spatial ones (z, vz ≠ 0) included. -/
theorem energy_first_integral (ρ : ℕ → ℝ) (h0 : 0 < eval ρ sq0) (h1 : 0 < eval ρ sq1) :
    DT ρ (fieldDir ρ) energy = 0 := by
  lie_zero ρ

/-- the same for `kinetic_energy + effective_potential` -/
theorem energyKP_first_integral (ρ : ℕ → ℝ) (h0 : 0 < eval ρ sq0) (h1 : 0 < eval ρ sq1) :
    DT ρ (fieldDir ρ) energyKP = 0 := by
  lie_zero ρ

/-- and for the separate Jacobi formula inside `_max_rel_energy_error` (used by the manifold energy filter) -/
theorem jacobiInner_first_integral (ρ : ℕ → ℝ) (h0 : 0 < eval ρ sq0) (h1 : 0 < eval ρ sq1) :
    DT ρ (fieldDir ρ) jacobiInner = 0 := by
  lie_zero ρ

/-- `energy_to_jacobi` is `E ↦ -2E`, so the Jacobi constant is a first integral as well -/
theorem jacobi_is_minus_two_energy (ρ : ℕ → ℝ) : eval ρ energyToJacobi = -2 * ρ 0 := by
  simp only [energyToJacobi, eval] <;> norm_num

/-- **two_jacobi_formulas_agree**: the inner formula equals `-2·energy - mu(1-mu)` identically, so the
manifold energy filter and the reported Jacobi constant measure the same integral. -/
theorem two_jacobi_formulas_agree (ρ : ℕ → ℝ) (h0 : 0 < eval ρ sq0) (h1 : 0 < eval ρ sq1) :
    eval ρ jacobiInner = -2 * eval ρ energy - ρ 6 * (1 - ρ 6) := by
  have hr0 : Real.sqrt (eval ρ sq0) ≠ 0 := (Real.sqrt_pos.mpr h0).ne'
  have hr1 : Real.sqrt (eval ρ sq1) ≠ 0 := (Real.sqrt_pos.mpr h1).ne'
  simp only [jacobiInner, energy, eval]
  generalize Real.sqrt (eval ρ sq0) = r0 at *
  generalize Real.sqrt (eval ρ sq1) = r1 at *
  field_simp
  ring

theorem energy_WD (ρ : ℕ → ℝ) (h0 : 0 < eval ρ sq0) (h1 : 0 < eval ρ sq1) : WD ρ energy := by
  have hpos : ∀ e ∈ [sq0, sq1], 0 < eval ρ e := by
    intro e he
    rcases List.mem_cons.mp he with rfl | he
    · exact h0
    · rcases List.mem_cons.mp he with rfl | he
      · exact h1
      · cases he
  exact wdOK_sound ρ [sq0, sq1] hpos energy (by decide +kernel)

/-- **energy_constant_along_solutions**: along every differentiable curve that solves the traced equations
of motion (with constant `mu`) and stays away from the primaries, the reported energy is constant — planar
or spatial. -/
theorem energy_constant_along_solutions (γ : ℝ → ℕ → ℝ)
    (hsol : ∀ t j, HasDerivAt (fun s => γ s j) (fieldDir (γ t) j) t)
    (h0 : ∀ t, 0 < eval (γ t) sq0) (h1 : ∀ t, 0 < eval (γ t) sq1) (a b : ℝ) :
    eval (γ a) energy = eval (γ b) energy :=
  const_along_curve γ (fun t => fieldDir (γ t)) energy hsol (fun t => energy_WD _ (h0 t) (h1 t))
    (fun t => energy_first_integral _ (h0 t) (h1 t)) a b

/-- non-vacuity: a spatial Earth–Moon state satisfies the hypotheses -/
example : let ρ : ℕ → ℝ := fun k => [0.82, 0.05, 0.1, 0.02, 0.15, 0.07, 0.0121505856].getD k 0
    0 < eval ρ sq0 ∧ 0 < eval ρ sq1 := by
  intro ρ
  rw [sq0_is_r1_sq, sq1_is_r2_sq]
  simp only [ρ, List.getD_cons_zero, List.getD_cons_succ]
  constructor <;> norm_num

end HitenModel.Props.C01
