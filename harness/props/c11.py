"""C11 — event detection returns the first admissible crossing, on the trajectory.

Model: lean/HitenModel/Core/C11.lean (predicates, one generic refine loop, generic scan / grid / adaptive drivers with
step oracles), theorems in lean/HitenModel/Props/C11.lean.  Ties, all re-checked on every run:

* T-trace/T-table (`gen`): the four predicates of integrators/utils.py are *executed* on symbolic values (concolic
  tracer); the recorded path conditions show that they inspect nothing but signs, so their complete decision tables
  over sign classes are exported to Gen/C11.lean (plus the traced comparison of `_bracket_converged`, the selection
  pattern of `_bisection_update`, the live EventOptions/EventConfig validation and defaults) and Props/C11.lean proves
  that the model's predicates coincide with them for all inputs.
* T-corr exact (`corr_exact`): the python bodies (`.py_func`) of all five refine loops and all eight scan drivers are
  run with the numerics replaced by scripted oracles of a dyadic world (state u' = 1, piecewise-affine event scripts,
  scripted accept/reject/factor sequences), the same scripts are run by Drivers/C11.lean on the Lean model at
  α = Rat, and hit step, θ_hit, t_hit, state, number of event evaluations, end state are compared for equality.
  The stubs check the wiring (which step data reach the dense evaluator / event function).
* T-corr replay (`corr_replay`): the same python control flow with the *compiled* kernels on real systems; every event
  value is recorded and the Lean model replays the recorded oracle answers (scan index, bisection path, θ_hit exact;
  t_hit to rounding); the run is also compared with the fully compiled driver reached through the public API.
* numerics / failing-input search (`numerics`): all eight drivers through `integrate(..)` on systems with exact flows
  (rotation generic + harmonic polynomial Hamiltonian) and a nonlinear reference problem: first admissible crossing,
  on-trajectory, |g| small, direction filter, end-of-span state.
"""
from __future__ import annotations

import math
from fractions import Fraction

import numpy as np

import lean_emit as E
import tracer as T

F = Fraction


# =====================================================================================================
# small exact helpers
# =====================================================================================================

class Inexact(Exception):
    pass


def fx(q):
    """float of an exact rational, raising when it is not representable (the scripted world must stay exact)."""
    q = F(q)
    f = float(q)
    if F(f) != q:
        raise Inexact(str(q))
    return f


def rs(q):
    q = F(q)
    return str(q.numerator) if q.denominator == 1 else "%d/%d" % (q.numerator, q.denominator)


def pr(s):
    return F(s)


class Script:
    """piecewise-affine scalar event script G(u): pieces (lo, c0, c1); the piece with the largest lo <= u applies
    (the first below the second lo): G(u) = c0 + c1*(u-lo)"""

    def __init__(self, pieces):
        self.p = [(F(a), F(b), F(c)) for a, b, c in pieces]

    def __call__(self, u):
        u = F(u)
        cur = self.p[0]
        for q in self.p[1:]:
            if q[0] <= u:
                cur = q
        return cur[1] + cur[2] * (u - cur[0])

    def toks(self):
        return " ".join("%s %s %s" % (rs(a), rs(b), rs(c)) for a, b, c in self.p)


class Wiring(Exception):
    pass


# =====================================================================================================
# Gen: trace the predicates (T-trace) and export live configuration facts (T-table)
# =====================================================================================================

SIGNS = (-1, 0, 1)


def _sign_only(path, names):
    """every recorded path condition compares one input variable with the constant 0"""
    for op, a, b, out in path:
        ok = (a.op == "var" and a.args[0] in names and b.is_const(0)) or (b.op == "var" and b.args[0] in names and a.is_const(0))
        if not ok:
            return False, "%s(%s, %s)" % (op, T.show(a, 60), T.show(b, 60))
    return True, ""


def trace_sign_table(fn, names):
    """Run the python body of a predicate on symbolic inputs of every sign class; returns (table, problem)."""
    tab = []
    for sa in SIGNS:
        for sb in SIGNS:
            for sd in SIGNS:
                T.reset()
                a = T.Sym.var(names[0], 1.5 * sa)
                b = T.Sym.var(names[1], 0.75 * sb)
                d = T.Sym.var(names[2], float(sd))
                out = T.retarget(fn)(a, b, d)
                ok, why = _sign_only(T.CTX.path, names)
                if not ok:
                    return None, "inspects more than signs: " + why
                if not isinstance(out, (bool, np.bool_)):
                    return None, "does not return a bool (%r)" % (type(out),)
                tab.append((sa, sb, sd, bool(out)))
    return tab, ""


def gen(ctx):
    from hiten.algorithms.integrators import utils as U
    from hiten.algorithms.types.configs import EventConfig
    from hiten.algorithms.types.options import EventOptions
    txt = E.header("C11", imports=("HitenModel.Core.RE",), note="decision tables / traced comparison of integrators/utils.py predicates, live event options")
    info = {}
    for lname, fn, names in (("eventCrossedTab", U._event_crossed, ("g_prev", "g_new", "direction")),
                             ("crossedDirectionTab", U._crossed_direction, ("g_left", "g_mid", "direction"))):
        tab, why = trace_sign_table(fn, names)
        if tab is None:
            ctx.broken.append(("trace:" + fn.py_func.__name__, why))
            ctx.obligations["trace:" + fn.py_func.__name__] = False
            tab = []
        # concrete validation of the table against the compiled function on several magnitudes (incl. tiny/huge)
        for (sa, sb, sd, out) in tab:
            for ma in (5e-324, 1e-13, 1.0, 1e300):
                for mb in (5e-324, 3e-9, 2.0, 1e300):
                    for md in ((1, 3) if sd else (1,)):
                        got = bool(fn(sa * ma, sb * mb, int(sd * md)))
                        ctx.traces_validated += 1
                        if got != out:
                            ctx.broken.append(("trace-validation:" + lname, "compiled %s(%g,%g,%d)=%s, table says %s" % (
                                fn.py_func.__name__, sa * ma, sb * mb, sd * md, got, out)))
                            ctx.obligations["trace-validation:" + lname] = False
        txt += "/-- (sign g_a, sign g_b, sign direction, result) for every sign class; the traced path conditions compare inputs with 0 only -/\n"
        txt += "def %s : List (Int × Int × Int × Bool) := [\n  %s]\n" % (
            lname, ",\n  ".join("(%d, %d, %d, %s)" % (a, b, d, "true" if o else "false") for a, b, d, o in tab))
        info[lname] = len(tab)
    # ---- _bisection_update: which input each output is ---------------------------------------------
    names = ["a", "b", "g_left", "mid", "g_mid"]
    rows = []
    for crossed in (True, False):
        T.reset()
        syms = [T.Sym.var(n, 0.1 + 0.2 * i) for i, n in enumerate(names)]
        out = T.retarget(U._bisection_update)(*syms, crossed)
        idx = []
        for o in out:
            hit = [i for i, s in enumerate(syms) if o is s]
            idx.append(hit[0] if hit else 99)
        if T.CTX.path:
            idx = [98, 98, 98]
        rows.append((crossed, idx))
    txt += "/-- `_bisection_update`: for crossed = true/false, the index (0 a, 1 b, 2 g_left, 3 mid, 4 g_mid) of the input returned as (a, b, g_left) -/\n"
    txt += "def bisectionTab : List (Bool × Nat × Nat × Nat) := [%s]\n" % ", ".join(
        "(%s, %d, %d, %d)" % ("true" if c else "false", i[0], i[1], i[2]) for c, i in rows)
    # ---- _bracket_converged: the traced comparison -----------------------------------------------
    vidx = {"a": 0, "b": 1, "h": 2, "xtol": 3}
    for tag, hv in (("Pos", 0.25), ("Neg", -0.25)):
        T.reset()
        sv = {n: T.Sym.var(n, v) for n, v in (("a", 0.25), ("b", 0.5), ("h", hv), ("xtol", 0.01))}
        out = T.retarget(U._bracket_converged)(sv["a"], sv["b"], sv["h"], sv["xtol"])
        path = list(T.CTX.path)
        # expected shape: [abs(h) decided by 'h < 0'] then the returned comparison
        cmp_ = path[-1] if path else None
        absok = all(p[1] is sv["h"] and p[2].is_const(0) for p in path[:-1])
        if cmp_ is None or not absok or not isinstance(out, (bool, np.bool_)) or bool(out) != cmp_[3]:
            ctx.broken.append(("trace:_bracket_converged", "unexpected shape of the traced predicate"))
            ctx.obligations["trace:_bracket_converged"] = False
            txt += "def conv%sOp : String := \"?\"\ndef conv%sLhs : RE := .const 0 1\ndef conv%sRhs : RE := .const 0 1\n" % (tag, tag, tag)
            continue
        txt += "def conv%sOp : String := \"%s\"\n" % (tag, cmp_[0])
        txt += E.re_def("conv%sLhs" % tag, cmp_[1], vidx)
        txt += E.re_def("conv%sRhs" % tag, cmp_[2], vidx)
    for a, b, h, x in ((0.0, 1.0, 0.5, 0.5), (0.0, 1.0, -0.5, 0.5), (0.25, 0.5, 2.0, 0.25), (0.25, 0.5, -2.0, 0.5 - 2 ** -40), (0.0, 2.0 ** -128, 1.0, 1e-40)):
        ctx.traces_validated += 1
        if bool(U._bracket_converged(a, b, h, x)) != ((b - a) * abs(h) <= x):
            ctx.broken.append(("trace-validation:_bracket_converged", "compiled value differs at %r" % ((a, b, h, x),)))
            ctx.obligations["trace-validation:_bracket_converged"] = False
    # ---- live options / configuration --------------------------------------------------------------
    def rejects(mk):
        try:
            mk()
            return False
        except Exception:
            return True
    d = EventOptions()
    txt += "/-- exact values of the default tolerances `EventOptions().xtol/.gtol` (numerator, denominator) -/\n"
    txt += "def defaultXtol : Int × Nat := (%d, %d)\n" % (F(float(d.xtol)).numerator, F(float(d.xtol)).denominator)
    txt += "def defaultGtol : Int × Nat := (%d, %d)\n" % (F(float(d.gtol)).numerator, F(float(d.gtol)).denominator)
    rej = all(rejects(lambda k=k, v=v: EventOptions(**{k: v})) for k in ("xtol", "gtol") for v in (0.0, -1e-12, -1.0))
    txt += "/-- EventOptions refuses xtol <= 0 and gtol <= 0 (probed on the live class) -/\n"
    txt += "def optionsRejectNonPositive : Bool := %s\n" % ("true" if rej else "false")
    dirs = [k for k in (-2, -1, 0, 1, 2) if not rejects(lambda k=k: EventConfig(direction=k))]
    txt += "/-- directions accepted by the live EventConfig among -2..2, and its default -/\n"
    txt += "def acceptedDirections : List Int := [%s]\n" % ", ".join(str(k) for k in dirs)
    txt += "def defaultDirection : Int := %d\n" % int(EventConfig().direction)
    txt += E.footer("C11")
    ctx.write_gen("HitenModel.Gen.C11", txt)
    ctx.extra["gen"] = info
    ctx.obligations.setdefault("trace-validation", True)


# =====================================================================================================
# T-corr exact: scripted dyadic world
# =====================================================================================================

U0_TAG = 7.0


class World:
    """u' = 1 world.  State y = [u, 7.0] (dim 6 for the symplectic driver: [u,0,0,7,0,0]); f(t,y) = [1, u]."""

    def __init__(self, script, t0, u0, dim=2, attempts=None, h0=None):
        self.G = script
        self.t0 = F(t0)
        self.u0 = F(u0)
        self.dim = dim
        self.attempts = list(attempts or [])
        self.k = 0                  # attempt counter
        self.h0 = h0
        self.n_event = 0
        self.n_dense = 0
        self.last_x = None
        self.n_steps = 0            # step-kernel calls
        self.accepted = 0
        self.cur = None             # (t, u, h) of the last attempted step
        self.prev_acc = None        # (t, u, h) of the last accepted step
        self.mids = []

    # ---- state helpers
    def state(self, u):
        y = np.zeros(self.dim)
        y[0] = fx(u)
        y[self.dim // 2 if self.dim == 6 else 1] = U0_TAG
        return y

    def check_state(self, y, what):
        tagpos = 3 if self.dim == 6 else 1
        if len(y) != self.dim or y[tagpos] != U0_TAG:
            raise Wiring("%s: not a state of this world: %r" % (what, list(y)))

    def check_tu(self, t, u, what):
        exp = self.t0 + (F(float(u)) - self.u0)
        if abs(F(float(t)) - exp) > F(1, 10 ** 9) * (1 + abs(exp)):
            raise Wiring("%s: time %r does not belong to state u=%r (expected t=%r)" % (what, float(t), float(u), float(exp)))

    # ---- oracles
    def f(self, t, y):
        self.check_state(y, "rhs")
        out = np.zeros(self.dim)
        out[0] = 1.0
        out[1] = y[0]
        return out

    def ham_rhs(self, y, jac_H, clmo_H, n_dof):
        # also called at the extra dense-output stages of `_dop853_refine_in_step_ham` (not states of the world)
        out = np.zeros(self.dim)
        out[0] = 1.0
        out[1] = y[0]
        return out

    def event(self, t, y):
        self.check_state(y, "event_fn")
        self.check_tu(t, y[0], "event_fn")
        self.n_event += 1
        return fx(self.G(F(float(y[0]))))

    def att(self):
        a = self.attempts[self.k] if self.k < len(self.attempts) else (True, F(1))
        return a

    def begin_step(self, t, y, h, what):
        self.check_state(y, what)
        self.check_tu(t, y[0], what)
        self.n_steps += 1
        self.cur = (F(float(t)), F(float(y[0])), F(float(h)))
        return self.state(F(float(y[0])) + F(float(h)))

    # generic fixed step
    def fixed_step(self, f, t, y, h, A, B_HIGH, B_LOW, C, has_b_low):
        return self.begin_step(t, y, h, "rk_embedded_step"), None, None

    def fixed_step_ham(self, t, y, h, A, B_HIGH, B_LOW, C, has_b_low, jac_H, clmo_H, n_dof):
        return self.begin_step(t, y, h, "rk_embedded_step_ham"), None, None

    def _adaptive(self, t, y, h, what, dop):
        yn = self.begin_step(t, y, h, what)
        acc, _ = self.att()
        err = np.zeros(self.dim) if acc else np.full(self.dim, 1.0e3)
        K = np.zeros((12 if dop else 7, self.dim))
        K[0, 0] = float(h)
        K[1, 0] = float(y[0])
        if dop:
            return yn, yn.copy(), err, err.copy(), err.copy(), K
        return yn, yn.copy(), err, K

    def rk45_step(self, f, t, y, h, A, B_HIGH, C, E_):
        return self._adaptive(t, y, h, "rk45_step", False)

    def rk45_step_ham(self, t, y, h, A, B_HIGH, C, E_, jac_H, clmo_H, n_dof):
        return self._adaptive(t, y, h, "rk45_step_ham", False)

    def dop_step(self, f, t, y, h, A, B_HIGH, C, E5, E3):
        return self._adaptive(t, y, h, "dop853_step", True)

    def dop_step_ham(self, t, y, h, A, B_HIGH, C, E5, E3, jac_H, clmo_H, n_dof):
        return self._adaptive(t, y, h, "dop853_step_ham", True)

    def accept_factor(self, err_norm, err_prev, order):
        acc, fac = self.att()
        if not acc or not err_norm <= 1.0:
            raise Wiring("_pi_accept_factor called for a step scripted as rejected (err_norm=%r)" % (err_norm,))
        self.k += 1
        return fx(fac)

    def reject_factor(self, err_norm, order):
        acc, fac = self.att()
        if acc or err_norm <= 1.0:
            raise Wiring("_pi_reject_factor called for a step scripted as accepted (err_norm=%r)" % (err_norm,))
        self.k += 1
        return fx(fac)

    def initial_step(self, d0, d1, min_step, max_step):
        return fx(self.h0)

    # symplectic
    def sympl_update(self, q_ext, dt, order, omega, jac_H, clmo_H):
        self.n_steps += 1
        self.cur = (None, F(float(q_ext[0])), F(float(dt)))
        q_ext[0] = fx(F(float(q_ext[0])) + F(float(dt)))

    def sympl_deriv(self, Q, P, jac_H, clmo_H):
        out = np.zeros(6)
        out[0] = 1.0
        out[1] = Q[0]
        return out

    # dense evaluators -------------------------------------------------------------------------------
    def _dense(self, u0, du, x, what):
        self.n_dense += 1
        self.last_x = F(float(x))
        self.mids.append(self.last_x)
        if self.cur is not None:
            _, cu, ch = self.cur
            if F(float(u0)) != cu or F(float(du)) != ch:
                raise Wiring("%s: dense output built from (u0=%r, h=%r) but the current step is (u0=%r, h=%r)" % (
                    what, float(u0), float(du), float(cu), float(ch)))
        return self.state(F(float(u0)) + self.last_x * F(float(du)))

    def hermite(self, y0, f0, y1, f1, x, h):
        self.check_state(y0, "hermite y0")
        self.check_state(y1, "hermite y1")
        if f0[1] != y0[0] or f1[1] != y1[0] or f0[0] != 1.0 or f1[0] != 1.0:
            raise Wiring("hermite dense output: derivatives do not belong to the step end points (f0 tag %r vs y0 %r, f1 tag %r vs y1 %r)" % (
                f0[1], y0[0], f1[1], y1[0]))
        if F(float(y1[0])) - F(float(y0[0])) != F(float(h)):
            raise Wiring("hermite dense output: h=%r but y1-y0=%r" % (h, y1[0] - y0[0]))
        return self._dense(y0[0], h, x, "hermite")

    def rk45_Q(self, Kseg, P, dim):
        return Kseg

    def rk45_dense(self, y_old, Q_cache, P, x, hseg):
        self.check_state(y_old, "rk45 dense y_old")
        if Q_cache[0, 0] != hseg or Q_cache[1, 0] != y_old[0]:
            raise Wiring("rk45 dense output: stage data of another step (K tag h=%r,u=%r; called with h=%r,u=%r)" % (
                Q_cache[0, 0], Q_cache[1, 0], hseg, y_old[0]))
        return self._dense(y_old[0], hseg, x, "rk45 dense")

    def dop_cache(self, f, t_old, y_old, f_old, y_new, f_new, hseg, Kseg, A_full, C_full, D, n_stages_extended, interpolator_power):
        self.check_state(y_old, "dop853 cache y_old")
        self.check_state(y_new, "dop853 cache y_new")
        self.check_tu(t_old, y_old[0], "dop853 cache")
        if f_old[1] != y_old[0] or f_new[1] != y_new[0]:
            raise Wiring("dop853 dense cache: derivatives do not belong to the step end points")
        if Kseg[0, 0] != hseg or Kseg[1, 0] != y_old[0] or F(float(y_new[0])) - F(float(y_old[0])) != F(float(hseg)):
            raise Wiring("dop853 dense cache: stage data / step length of another step")
        Fc = np.zeros((interpolator_power, self.dim))
        Fc[0, 0] = y_new[0] - y_old[0]
        return Fc

    def dop_dense(self, y_old, F_cache, interpolator_power, x):
        self.check_state(y_old, "dop853 dense y_old")
        return self._dense(y_old[0], F_cache[0, 0], x, "dop853 dense")


def _stubs(w):
    return {
        "_hermite_eval_dense": w.hermite, "_hermite_eval_dense_symplectic": w.hermite,
        "_rk45_build_Q_cache": w.rk45_Q, "_rk45_eval_dense": w.rk45_dense,
        "_dop853_build_dense_cache": w.dop_cache, "_dop853_eval_dense": w.dop_dense,
        "_hamiltonian_rhs": w.ham_rhs,
        "rk_embedded_step_jit_kernel": w.fixed_step, "rk_embedded_step_ham_jit_kernel": w.fixed_step_ham,
        "rk45_step_jit_kernel": w.rk45_step, "rk45_step_ham_jit_kernel": w.rk45_step_ham,
        "dop853_step_jit_kernel": w.dop_step, "dop853_step_ham_jit_kernel": w.dop_step_ham,
        "_pi_accept_factor": w.accept_factor, "_pi_reject_factor": w.reject_factor, "_select_initial_step": w.initial_step,
        "_recursive_update_poly": w.sympl_update, "_eval_hamiltonian_derivative": w.sympl_deriv,
        "_get_tao_omega": lambda dt, order, c: 1.0,
    }


def py(fn, w):
    """python body of a numba function with numpy = numpy and the numerics replaced by the world's oracles"""
    return T.retarget(fn, _stubs(w), shim=np)


REFINERS = ("hermite", "hermite_sympl", "rk45", "dop853", "dop853_ham")
GRID_DRIVERS = ("fixed", "fixed_ham", "symplectic")
ADAPTIVE_DRIVERS = ("rk45", "rk45_ham", "dop853", "dop853_ham")


def _dop_consts():
    from hiten.algorithms.integrators.coefficients import dop853 as c8
    return c8.A, c8.C, c8.D, c8.N_STAGES_EXTENDED, c8.INTERPOLATOR_POWER


def run_refiner(kind, w, t0, h, direction, xtol, gtol):
    """call the real refine loop `kind` on the world's step starting at (t0, u0) of length h"""
    from hiten.algorithms.integrators import rk, symplectic as sy
    y0 = w.state(w.u0)
    y1 = w.state(w.u0 + F(h))
    f0 = w.f(t0, y0)
    f1 = w.f(t0 + h, y1)
    w.cur = (F(t0), w.u0, F(h))
    t0f, hf, t1f = fx(t0), fx(h), fx(F(t0) + F(h))
    if kind == "hermite":
        return py(rk._hermite_refine_in_step, w)(w.event, t0f, y0, f0, t1f, y1, f1, hf, direction, xtol, gtol)
    if kind == "hermite_sympl":
        return py(sy._hermite_refine_event_symplectic, w)(w.event, t0f, y0, f0, t1f, y1, f1, hf, direction, xtol, gtol)
    K = np.zeros((12, w.dim))
    K[0, 0] = hf
    K[1, 0] = y0[0]
    if kind == "rk45":
        return py(rk._rk45_refine_in_step, w)(w.event, t0f, y0, t1f, y1, hf, K, None, direction, xtol, gtol)
    A, C, D, nse, ip = _dop_consts()
    if kind == "dop853":
        return py(rk._dop853_refine_in_step, w)(w.f, w.event, t0f, y0, f0, t1f, y1, f1, hf, K, A, C, D, nse, ip, direction, xtol, gtol)
    if kind == "dop853_ham":
        return py(rk._dop853_refine_in_step_ham, w)(w.event, t0f, y0, f0, t1f, y1, f1, hf, K, A, C, D, nse, ip, direction, xtol, gtol, None, None, 1)
    raise ValueError(kind)


def run_grid_driver(kind, w, tvals, direction, xtol, gtol):
    from hiten.algorithms.integrators import rk, symplectic as sy
    tv = np.array([fx(t) for t in tvals])
    y0 = w.state(w.u0)
    if kind == "fixed":
        hit, t, y, states = py(rk._FixedStepRK._integrate_fixed_rk_until_event, w)(w.f, y0, tv, None, None, None, w.event, direction, 1, xtol, gtol)
    elif kind == "fixed_ham":
        hit, t, y, states = py(rk._FixedStepRK._integrate_fixed_rk_until_event_ham, w)(y0, tv, None, None, None, w.event, direction, 1, xtol, gtol, None, None, 1)
    elif kind == "symplectic":
        hit, t, y, states = py(sy._integrate_symplectic_until_event, w)(y0, tv, None, None, 4, w.event, direction, xtol, gtol)
    else:
        raise ValueError(kind)
    return bool(hit), float(t), np.array(y, dtype=float), None


def run_adaptive_driver(kind, w, t0, tmax, maxS, minS, direction, xtol, gtol):
    from hiten.algorithms.integrators import rk
    y0 = w.state(w.u0)
    common = dict(y0=y0, t0=fx(t0), tmax=fx(tmax), A=None, B_HIGH=None, C=None, rtol=1e-6, atol=1e-6, max_step=fx(maxS), min_step=fx(minS),
                  event_fn=w.event, direction=direction, terminal=1, xtol=xtol, gtol=gtol)
    A, C, D, nse, ip = _dop_consts()
    dop = dict(E5=None, E3=None, D=D, n_stages_extended=nse, interpolator_power=ip, A_full=A, C_full=C, order=8)
    if kind == "rk45":
        r = py(rk._RK45._integrate_rk45_until_event, w)(f=w.f, E=None, P=None, order=5, **common)
    elif kind == "rk45_ham":
        r = py(rk._RK45._integrate_rk45_until_event_ham, w)(E=None, P=None, order=5, jac_H=None, clmo_H=None, n_dof=1, **common)
    elif kind == "dop853":
        r = py(rk._DOP853._integrate_dop853_until_event, w)(f=w.f, **dop, **common)
    elif kind == "dop853_ham":
        r = py(rk._DOP853._integrate_dop853_until_event_ham, w)(jac_H=None, clmo_H=None, n_dof=1, **dop, **common)
    else:
        raise ValueError(kind)
    hit, t, y, ynew = r
    return bool(hit), float(t), np.array(y, dtype=float), np.array(ynew, dtype=float)


# ---- script generators ------------------------------------------------------------------------------

def dy(rng, bits, lo, hi):
    """random dyadic k/2^bits in [lo,hi]"""
    n = 1 << bits
    return F(rng.randint(int(lo * n), int(hi * n)), n)


def gen_script(rng, ulo, uhi):
    """random piecewise-affine script over [ulo,uhi]: constant sign pieces, exact zeros, linear pieces through zero with
    power-of-two slopes; break points are dyadic (<= 6 bits) so that hits at step ends / midpoints occur"""
    n = rng.choice([1, 1, 2, 2, 3, 4, 5])
    span = uhi - ulo
    cuts = sorted({ulo + dy(rng, rng.choice([1, 2, 3, 4, 6]), 0, 1) * span for _ in range(n)})
    pieces = [(ulo - 100, F(rng.choice([-1, -1, 1, 1, 0, -3, 2])), 0)]
    for c in cuts:
        kind = rng.random()
        if kind < 0.45:
            pieces.append((c, F(rng.choice([-1, 1, -2, 3, 0, F(1, 4), F(-1, 8)])), 0))
        else:
            pieces.append((c, 0, F(rng.choice([-1, 1])) * F(2) ** rng.randint(-3, 3)))
    return Script(pieces)


def gen_tols(rng, hmag):
    """xtol = hmag * 2^-m so that the bracket test stops the bisection after m halvings (m <= 36 keeps floats exact)"""
    m = rng.choice([1, 2, 3, 5, 8, 12, 20, 30, 36])
    xtol = hmag * F(1, 2 ** m)
    if rng.random() < 0.15:
        xtol = xtol * F(3, 4)
    gtol = rng.choice([F(0), F(0), F(1, 2 ** 10), F(1, 2 ** 30), F(1e-12), F(1, 8), F(1, 2 ** 45)])
    return xtol, gtol


def corr_exact(ctx):
    rng = ctx.rng
    lines = []      # lean requests
    checks = []     # (kind, name, python observation, request index)
    inexact = 0
    wiring = []
    n_ref = 60 if ctx.thorough() else 14
    n_grid = 60 if ctx.thorough() else 14
    n_ad = 50 if ctx.thorough() else 12

    # ---- predicates: exhaustive sign patterns x magnitudes on python body and compiled function -----
    from hiten.algorithms.integrators import utils as U
    mags = [F(1), F(1, 2 ** 40), F(3, 8), F(10 ** 6)]
    for d in (-1, 0, 1, 2, -3):
        for sa in SIGNS:
            for sb in SIGNS:
                ma, mb = rng.choice(mags), rng.choice(mags)
                a, b = sa * ma, sb * mb
                for nm, fn, tag in (("EC", U._event_crossed, "_event_crossed"), ("CD", U._crossed_direction, "_crossed_direction")):
                    o1 = bool(fn(fx(a), fx(b), d))
                    o2 = bool(fn.py_func(fx(a), fx(b), d))
                    lines.append("%s %s %s %d" % (nm, rs(a), rs(b), d))
                    checks.append(("pred", tag, ("1" if o1 else "0", "1" if o2 else "0"), len(lines) - 1, (float(a), float(b), d)))
    for _ in range(30):
        a, b = dy(rng, 8, 0, 1), dy(rng, 8, 0, 1)
        gl, gm, mid = dy(rng, 4, -2, 2), dy(rng, 4, -2, 2), dy(rng, 9, 0, 1)
        c = rng.random() < 0.5
        o = U._bisection_update(fx(a), fx(b), fx(gl), fx(mid), fx(gm), c)
        lines.append("BU %s %s %s %s %s %d" % (rs(a), rs(b), rs(gl), rs(mid), rs(gm), 1 if c else 0))
        checks.append(("tuple", "_bisection_update", tuple(F(float(v)) for v in o), len(lines) - 1, None))
        h = rng.choice([-1, 1]) * F(2) ** rng.randint(-4, 3) * rng.choice([1, 3])
        xt = abs(b - a) * abs(h) + rng.choice([0, 0, F(1, 2 ** 30), -F(1, 2 ** 30)])
        o = U._bracket_converged(fx(a), fx(b), fx(h), fx(xt))
        lines.append("BC %s %s %s %s" % (rs(a), rs(b), rs(h), rs(xt)))
        checks.append(("pred1", "_bracket_converged", "1" if o else "0", len(lines) - 1, (float(a), float(b), float(h), float(xt))))
        hh, mx, mn = dy(rng, 5, 0, 2), dy(rng, 5, 0, 2), dy(rng, 5, 0, 1)
        lines.append("CL %s %s %s" % (rs(hh), rs(mx), rs(mn)))
        checks.append(("num", "_clamp_step", F(float(U._clamp_step(fx(hh), fx(mx), fx(mn)))), len(lines) - 1, None))
        t, te = dy(rng, 5, -2, 2), dy(rng, 5, -2, 2)
        lines.append("AJ %s %s %s" % (rs(t), rs(hh), rs(te)))
        checks.append(("num", "_adjust_step_to_endpoint", F(float(U._adjust_step_to_endpoint(fx(t), fx(hh), fx(te)))), len(lines) - 1, None))

    def observe(w, hit, t, y, ynew):
        return {"hit": hit, "t": F(t), "u": F(float(y[0])), "ynew": None if ynew is None else F(float(ynew[0])),
                "n_event": w.n_event, "n_dense": w.n_dense, "x": w.last_x, "steps": w.n_steps}

    # ---- the five refine loops ------------------------------------------------------------------------
    special = []
    # max_iter: root at 0+, tolerances unreachable -> 128 iterations, x = 2^-128
    special.append((Script([(-100, -1, 0), (F(0), -1, 0), (F(1, 2 ** 140), 1, 0)]), F(0), F(0), F(1), 1, F(1, 2 ** 300), F(0)))
    special.append((Script([(-100, 1, 0), (F(0), 1, 0), (F(1, 2 ** 140), -1, 0)]), F(0), F(0), F(1, 2), 0, F(1, 2 ** 300), F(1, 2 ** 20)))
    # xtol = 2^-128 |h| exactly: converges at iteration 128 by the bracket test
    special.append((Script([(-100, -1, 0), (F(1, 2 ** 140), 2, 0)]), F(0), F(0), F(2), 1, F(2, 2 ** 128), F(0)))
    # endpoint zero with same-sign start (no sign change): walks to b = 1
    special.append((Script([(-100, 1, 0), (F(1), 0, 0)]), F(0), F(0), F(1), 1, F(1, 2 ** 20), F(0)))
    special.append((Script([(-100, 1, 0), (F(1), 0, 0)]), F(1, 2), F(0), F(1), -1, F(1, 2 ** 20), F(1, 2 ** 40)))
    # hit exactly at the first midpoint
    special.append((Script([(-100, -1, 0), (F(1, 2), 0, 1)]), F(3), F(0), F(1), 0, F(1, 2 ** 30), F(0)))
    for kind in REFINERS:
        cases = list(special)
        for _ in range(n_ref):
            h = rng.choice([-1, 1, 1]) * F(2) ** rng.randint(-5, 2) * rng.choice([1, 1, 3])
            t0 = dy(rng, 4, -4, 4)
            u0 = dy(rng, 4, -2, 2)
            ulo, uhi = min(u0, u0 + h), max(u0, u0 + h)
            sc = gen_script(rng, ulo, uhi)
            xtol, gtol = gen_tols(rng, abs(h))
            cases.append((sc, t0, u0, h, rng.choice([-1, 0, 1]), xtol, gtol))
        for (sc, t0, u0, h, d, xtol, gtol) in cases:
            w = World(sc, t0, u0)
            try:
                t, y = run_refiner(kind, w, t0, h, d, fx(xtol), fx(gtol))
            except Inexact:
                inexact += 1
                continue
            except Wiring as ex:
                wiring.append(("refine:" + kind, str(ex), {"script": sc.toks(), "t0": rs(t0), "u0": rs(u0), "h": rs(h), "direction": d}))
                continue
            lines.append("RF %d %s %s %s %s %s %s ; %s" % (d, rs(t0), rs(h), rs(u0), rs(h), rs(xtol), rs(gtol), sc.toks()))
            checks.append(("refine", kind, observe(w, True, t, y, None), len(lines) - 1,
                           {"script": sc.toks(), "t0": rs(t0), "u0": rs(u0), "h": rs(h), "direction": d, "xtol": rs(xtol), "gtol": rs(gtol)}))

    # ---- grid drivers ---------------------------------------------------------------------------------
    for kind in GRID_DRIVERS:
        for ci in range(n_grid):
            n = rng.randint(1, 7)
            sgn = rng.choice([1, 1, -1])
            t0 = dy(rng, 3, -2, 2)
            ts = [t0]
            for _ in range(n):
                ts.append(ts[-1] + sgn * F(2) ** rng.randint(-4, 0) * rng.choice([1, 1, 3]))
            u0 = dy(rng, 3, -1, 1)
            span = ts[-1] - ts[0]
            ulo, uhi = min(u0, u0 + span), max(u0, u0 + span)
            if ci % 5 == 4:     # exhaustive-ish sign pattern scripts: constant sign per step interval, zeros at step ends
                pieces = [(ulo - 100, F(rng.choice([-1, 0, 1])), 0)]
                us = sorted(u0 + (t - t0) for t in ts)
                for uu in us:
                    pieces.append((uu, F(rng.choice([-1, 0, 1, 1, -1])), 0))
                sc = Script(pieces)
            else:
                sc = gen_script(rng, ulo, uhi)
            xtol, gtol = gen_tols(rng, F(1, 16))
            d = rng.choice([-1, 0, 1])
            w = World(sc, t0, u0, dim=6 if kind == "symplectic" else 2)
            try:
                hit, t, y, ynew = run_grid_driver(kind, w, ts, d, fx(xtol), fx(gtol))
            except Inexact:
                inexact += 1
                continue
            except Wiring as ex:
                wiring.append(("driver:" + kind, str(ex), {"script": sc.toks(), "t_vals": [rs(t) for t in ts], "u0": rs(u0), "direction": d}))
                continue
            lines.append("SG %d %s %s %s ; %s ; %s" % (d, rs(xtol), rs(gtol), rs(u0), " ".join(rs(t) for t in ts), sc.toks()))
            checks.append(("scan", kind, observe(w, hit, t, y, ynew), len(lines) - 1,
                           {"script": sc.toks(), "t_vals": [rs(t) for t in ts], "u0": rs(u0), "direction": d, "xtol": rs(xtol), "gtol": rs(gtol)}))

    # ---- adaptive drivers -----------------------------------------------------------------------------
    for kind in ADAPTIVE_DRIVERS:
        for ci in range(n_ad):
            t0 = dy(rng, 3, -2, 2)
            tmax = t0 + dy(rng, 4, 0, 3) if rng.random() < 0.9 else t0 - dy(rng, 3, 0, 1)
            u0 = dy(rng, 3, -1, 1)
            minS = F(2) ** rng.randint(-8, -4)
            maxS = F(2) ** rng.randint(-2, 1)
            h0 = F(2) ** rng.randint(-6, 0)
            atts = []
            for _ in range(rng.randint(0, 30)):
                if rng.random() < 0.75:
                    atts.append((True, F(2) ** rng.randint(-2, 3)))
                else:
                    atts.append((False, F(2) ** rng.randint(-2, -1)))
            span = abs(tmax - t0) + 1
            sc = gen_script(rng, u0 - F(1, 8), u0 + span)
            xtol, gtol = gen_tols(rng, minS)
            d = rng.choice([-1, 0, 1])
            w = World(sc, t0, u0, attempts=atts, h0=h0)
            try:
                hit, t, y, ynew = run_adaptive_driver(kind, w, t0, tmax, maxS, minS, d, fx(xtol), fx(gtol))
            except Inexact:
                inexact += 1
                continue
            except Wiring as ex:
                wiring.append(("driver:" + kind, str(ex), {"script": sc.toks(), "t0": rs(t0), "tmax": rs(tmax), "u0": rs(u0), "direction": d,
                                                          "attempts": [(a, rs(f_)) for a, f_ in atts]}))
                continue
            lines.append("SA %d %s %s %s %s %s %s %s %s 100000 ; %s ; %s" % (
                d, rs(xtol), rs(gtol), rs(u0), rs(t0), rs(tmax), rs(maxS), rs(minS), rs(h0),
                " ".join("%d %s" % (1 if a else 0, rs(f_)) for a, f_ in atts), sc.toks()))
            checks.append(("scan", kind, observe(w, hit, t, y, ynew), len(lines) - 1,
                           {"script": sc.toks(), "t0": rs(t0), "tmax": rs(tmax), "u0": rs(u0), "direction": d, "xtol": rs(xtol), "gtol": rs(gtol),
                            "max_step": rs(maxS), "min_step": rs(minS), "h0": rs(h0), "attempts": [(a, rs(f_)) for a, f_ in atts]}))

    out = [l for l in ctx.lean_run("Drivers/C11.lean", "\n".join(lines) + "\n") if l.strip()]
    if len(out) != len(lines):
        ctx.broken.append(("correspondence:driver", "lean driver answered %d lines for %d requests" % (len(out), len(lines))))
        ctx.obligations["correspondence:driver"] = False
        return
    bad = {}

    def mismatch(name, what, req, info):
        bad.setdefault(name, []).append((what, req, info))

    stats = {"hit": 0, "nohit": 0, "gtol": 0, "xtol": 0, "maxiter": 0}
    for kind, name, obs, li, info in checks:
        ans = out[li].split()
        if ans and ans[0] == "ERR":
            mismatch(name, "driver error " + out[li], lines[li], info)
            continue
        if kind == "pred":
            ctx.case(("pred", name, lines[li]), kind="predicate")
            if obs[0] != ans[0] or obs[1] != ans[0]:
                mismatch(name, "compiled=%s python=%s model=%s" % (obs[0], obs[1], ans[0]), lines[li], info)
        elif kind == "pred1":
            ctx.case(("pred", name, lines[li]), kind="predicate")
            if obs != ans[0]:
                mismatch(name, "code=%s model=%s" % (obs, ans[0]), lines[li], info)
        elif kind == "tuple":
            ctx.case(("pred", name, lines[li]), kind="predicate")
            if tuple(pr(a) for a in ans) != obs:
                mismatch(name, "code=%s model=%s" % (obs, ans), lines[li], info)
        elif kind == "num":
            ctx.case(("pred", name, lines[li]), kind="predicate")
            if pr(ans[0]) != obs:
                mismatch(name, "code=%s model=%s" % (obs, ans[0]), lines[li], info)
        elif kind == "refine":
            x, t, y, ex, iters = pr(ans[0]), pr(ans[1]), pr(ans[2]), ans[3], int(ans[4])
            stats[ex] += 1
            ctx.case(("refine", name, lines[li]), kind="refine:" + ex, sample={"refiner": name, "request": lines[li], "answer": out[li]} if li % 97 == 0 else None)
            exp_dense = iters + 1
            extra_ev = 1 if name.startswith("dop853") else 0      # the DOP853 loops also evaluate an (unused) g_right
            if not (obs["x"] == x and obs["u"] == y and obs["t"] == F(float(t)) and obs["n_dense"] == exp_dense and obs["n_event"] == iters + 1 + extra_ev):
                mismatch("refine:" + name, "code (x=%s,t=%s,u=%s,event calls=%d,dense calls=%d) model (x=%s,t=%s,u=%s,exit=%s,iters=%d)" % (
                    obs["x"], obs["t"], obs["u"], obs["n_event"], obs["n_dense"], x, t, y, ex, iters), lines[li], info)
        elif kind == "scan":
            if ans[0] == "HIT":
                idx, x, t, y, ex, iters, ynew = int(ans[1]), pr(ans[2]), pr(ans[3]), pr(ans[4]), ans[5], int(ans[6]), pr(ans[10])
                stats["hit"] += 1
                stats[ex] += 1
                ctx.case(("scan", name, lines[li]), kind="driver:hit", sample={"driver": name, "request": lines[li], "answer": out[li]} if li % 61 == 0 else None)
                ok = (obs["hit"] and obs["x"] == x and obs["u"] == y and obs["t"] == F(float(t)) and obs["n_dense"] == iters + 1
                      and (obs["ynew"] is None or obs["ynew"] == ynew))
                # event evaluations: start + one per accepted step up to the hit step + g_left + midpoints
                ok = ok and obs["n_event"] == 1 + (idx + 1) + 1 + iters + (1 if name.startswith("dop853") else 0)
                if not ok:
                    mismatch("driver:" + name, "code (hit=%s,x=%s,t=%s,u=%s,ynew=%s,event calls=%d,dense=%d) model %s" % (
                        obs["hit"], obs["x"], obs["t"], obs["u"], obs["ynew"], obs["n_event"], obs["n_dense"], out[li]), lines[li], info)
            elif ans[0] == "NOHIT":
                t, y = pr(ans[1]), pr(ans[2])
                stats["nohit"] += 1
                ctx.case(("scan", name, lines[li]), kind="driver:nohit")
                if not ((not obs["hit"]) and obs["t"] == F(float(t)) and obs["u"] == y and obs["n_dense"] == 0):
                    mismatch("driver:" + name, "code (hit=%s,t=%s,u=%s) model %s" % (obs["hit"], obs["t"], obs["u"], out[li]), lines[li], info)
            else:
                mismatch("driver:" + name, "model answered " + out[li], lines[li], info)
    for nm, why, info in wiring:
        bad.setdefault(nm, []).append(("wiring: " + why, "", info))
    names = {("refine:" + k) for k in REFINERS} | {("driver:" + k) for k in GRID_DRIVERS + ADAPTIVE_DRIVERS} | {
        "_event_crossed", "_crossed_direction", "_bisection_update", "_bracket_converged", "_clamp_step", "_adjust_step_to_endpoint"}
    for nm in sorted(names):
        key = "correspondence:" + nm
        if nm in bad:
            what, req, info = bad[nm][0]
            ctx.obligations[key] = False
            ctx.broken.append((key, "%d disagreement(s); first: %s | request: %s" % (len(bad[nm]), what, req)))
            ctx.extra.setdefault("first_disagreements", {})[nm] = {"what": what, "request": req, "input": info}
        else:
            ctx.obligations[key] = True
    ctx.corr_cases += len(lines)
    ctx.extra["exact_correspondence"] = {"requests": len(lines), "skipped_inexact": inexact, "outcomes": stats, "wiring_errors": len(wiring)}
    ctx.log("exact correspondence: %d requests, outcomes %s, inexact skipped %d, disagreements %s" % (
        len(lines), stats, inexact, {k: len(v) for k, v in bad.items()}))
    return bad


def run(ctx):
    gen(ctx)
    ok = ctx.lean_build(["HitenModel.Props.C11"])
    if ok:
        ctx.lean_audit(["HitenModel.Props.C11"], ["HitenModel.Props.C11", "HitenModel.Gen.C11", "HitenModel.Core.C11", "HitenModel.Lemmas.C11"])
        if ctx.thorough():
            ctx.leanchecker(["HitenModel.Props.C11"])
    corr_exact(ctx)
    ctx.rule = ("scripted dyadic worlds (piecewise-affine event scripts, step grids / accept-reject-factor scripts, tolerances) per "
                "refine loop and driver + recorded replays + numerical scenarios (system x driver x event x direction x tolerance); "
                "distinct by full request; non-trivial = the request reaches a driver or refine loop (predicate-only lines are counted trivial)")
