/-
  Lemmas/C15.lean — helper lemmas for the synodic detection model (Core/C15.lean).
-/
import HitenModel.Core.C15
import Mathlib.Data.List.Sort
import Mathlib.Algebra.Order.Field.Rat
import Mathlib.Tactic.Linarith
import Mathlib.Tactic.FieldSimp
import Mathlib.Tactic.Positivity
import Mathlib.Tactic.Ring
import Mathlib.Tactic.LinearCombination

namespace HitenModel.C15

/-! ### arithmetic -/

theorem absQ_eq (x : ℚ) : absQ x = |x| := by
  unfold absQ
  split
  · rw [abs_of_neg ‹_›]
  · rw [abs_of_nonneg (not_lt.mp ‹_›)]

theorem clamp_mem {lo hi x : ℚ} (h : lo ≤ hi) : lo ≤ clamp lo hi x ∧ clamp lo hi x ≤ hi := by
  unfold clamp
  split
  · exact ⟨le_refl _, h⟩
  · split
    · exact ⟨h, le_refl _⟩
    · exact ⟨not_lt.mp ‹_›, not_lt.mp ‹_›⟩

theorem clamp_of_mem {lo hi x : ℚ} (h0 : lo ≤ x) (h1 : x ≤ hi) : clamp lo hi x = x := by
  unfold clamp
  rw [if_neg (not_lt.mpr h0), if_neg (not_lt.mpr h1)]

/-- a sign change compatible with direction `d` brackets the zero of the linear interpolant -/
theorem crossRaw_spec {d : Dir} {g0 g1 : ℚ} (h : crossRaw d g0 g1 = true) :
    g0 ≠ g1 ∧ g0 * g1 ≤ 0 ∧ (d = .pos → g0 < 0 ∧ 0 ≤ g1) ∧ (d = .neg → 0 < g0 ∧ g1 ≤ 0) := by
  cases d <;> simp only [crossRaw, Bool.and_eq_true, decide_eq_true_eq] at h
  · exact ⟨h.2, h.1, by simp, by simp⟩
  · refine ⟨by intro e; rw [e] at h; linarith [h.1, h.2], ?_, fun _ => h, by simp⟩
    nlinarith [h.1, h.2]
  · refine ⟨by intro e; rw [e] at h; linarith [h.1, h.2], ?_, by simp, fun _ => h⟩
    nlinarith [h.1, h.2]

theorem alpha_bracket {g0 g1 : ℚ} (hne : g0 ≠ g1) (hs : g0 * g1 ≤ 0) :
    0 ≤ g0 / (g0 - g1) ∧ g0 / (g0 - g1) ≤ 1 ∧ g0 + g0 / (g0 - g1) * (g1 - g0) = 0 := by
  have hd : g0 - g1 ≠ 0 := sub_ne_zero.mpr hne
  have hd2 : 0 < (g0 - g1) ^ 2 := by positivity
  have e : g0 / (g0 - g1) = g0 * (g0 - g1) / (g0 - g1) ^ 2 := by field_simp
  refine ⟨?_, ?_, ?_⟩
  · rw [e]; exact div_nonneg (by nlinarith [sq_nonneg g0]) hd2.le
  · rw [e, div_le_one hd2]; nlinarith [sq_nonneg g1]
  · field_simp; ring

theorem alphaOf_cross {d : Dir} {g0 g1 : ℚ} (h : crossRaw d g0 g1 = true) :
    alphaOf g0 g1 = g0 / (g0 - g1) ∧ 0 ≤ alphaOf g0 g1 ∧ alphaOf g0 g1 ≤ 1 ∧
      g0 + alphaOf g0 g1 * (g1 - g0) = 0 := by
  obtain ⟨hne, hs, -, -⟩ := crossRaw_spec h
  obtain ⟨a0, a1, az⟩ := alpha_bracket hne hs
  have : alphaOf g0 g1 = g0 / (g0 - g1) := clamp_of_mem a0 a1
  rw [this]; exact ⟨rfl, a0, a1, az⟩

/-! ### affine section function along an interpolated state -/

theorem dot_lerp : ∀ (x0 x1 n : Vec) (a : ℚ), x0.length = x1.length →
    dot (lerp x0 x1 a) n = dot x0 n + a * (dot x1 n - dot x0 n)
  | [], [], n, a, _ => by cases n <;> simp [lerp, dot]
  | u :: x0, v :: x1, [], a, _ => by simp [lerp, dot]
  | u :: x0, v :: x1, w :: n, a, h => by
    have ih := dot_lerp x0 x1 n a (by simpa using h)
    simp only [lerp, List.zipWith_cons_cons, dot] at ih ⊢
    rw [ih]; ring
  | [], _ :: _, _, _, h => by simp at h
  | _ :: _, [], _, _, h => by simp at h

theorem gval_lerp (n : Vec) (c : ℚ) (x0 x1 : Vec) (a : ℚ) (h : x0.length = x1.length) :
    gval n c (lerp x0 x1 a) = gval n c x0 + a * (gval n c x1 - gval n c x0) := by
  simp only [gval, dot_lerp x0 x1 n a h]; ring

theorem timeAt_mem (s : Seg) {a : ℚ} (h0 : 0 ≤ a) (h1 : a ≤ 1) (ht : s.a.t ≤ s.b.t) :
    s.a.t ≤ timeAt s a ∧ timeAt s a ≤ s.b.t := by
  unfold timeAt
  constructor <;> nlinarith

/-! ### Newton loop stays in the bracket, whatever the functions -/

theorem newton_mem (f f' : ℚ → ℚ) {lo hi : ℚ} (hlh : lo ≤ hi) :
    ∀ (n : ℕ) (s : ℚ), lo ≤ s → s ≤ hi → lo ≤ newton f f' lo hi n s ∧ newton f f' lo hi n s ≤ hi
  | 0, s, h0, h1 => by simpa [newton] using ⟨h0, h1⟩
  | n + 1, s, h0, h1 => by
    simp only [newton]
    split
    · exact ⟨h0, h1⟩
    · split
      · exact ⟨le_refl _, hlh⟩
      · split
        · exact ⟨hlh, le_refl _⟩
        · exact newton_mem f f' hlh n _ (not_lt.mp ‹_›) (not_lt.mp ‹_›)

/-! ### segments -/

theorem segsFrom_k_ge : ∀ (l : List Sample) (k : ℕ) (p : Option Sample) (s : Seg), s ∈ segsFrom k p l → k ≤ s.k
  | [], _, _, s, h => by simp [segsFrom] at h
  | [_], _, _, s, h => by simp [segsFrom] at h
  | a :: b :: rest, k, p, s, h => by
    simp only [segsFrom, List.mem_cons] at h
    rcases h with rfl | h
    · exact le_refl _
    · exact Nat.le_of_succ_le (segsFrom_k_ge (b :: rest) (k + 1) (some a) s h)

theorem segsFrom_pairwise_k : ∀ (l : List Sample) (k : ℕ) (p : Option Sample),
    (segsFrom k p l).Pairwise (fun a b => a.k < b.k)
  | [], _, _ => by simp [segsFrom]
  | [_], _, _ => by simp [segsFrom]
  | a :: b :: rest, k, p => by
    simp only [segsFrom, List.pairwise_cons]
    exact ⟨fun s hs => segsFrom_k_ge _ _ _ s hs, segsFrom_pairwise_k (b :: rest) (k + 1) (some a)⟩

theorem segsFrom_length : ∀ (l : List Sample) (k : ℕ) (p : Option Sample), (segsFrom k p l).length = l.length - 1
  | [], _, _ => by simp [segsFrom]
  | [_], _, _ => by simp [segsFrom]
  | a :: b :: rest, k, p => by
    simp only [segsFrom, List.length_cons, segsFrom_length (b :: rest) (k + 1) (some a)]
    omega

/-- segment `i` of the model is built from samples `i-1, i, i+1, i+2` of the trajectory -/
theorem segsFrom_get : ∀ (l : List Sample) (k : ℕ) (p : Option Sample) (i : ℕ) (h : i + 1 < l.length),
    (segsFrom k p l)[i]? =
      some ⟨k + i, if i = 0 then p else l[i - 1]?, l[i]'(by omega), l[i + 1]'h, l[i + 2]?⟩
  | [], _, _, _, h => by simp at h
  | [_], _, _, _, h => by simp at h
  | a :: b :: rest, k, p, 0, h => by
    cases rest <;> simp [segsFrom]
  | a :: b :: rest, k, p, i + 1, h => by
    have ih := segsFrom_get (b :: rest) (k + 1) (some a) i (by simpa using h)
    simp only [segsFrom, List.getElem?_cons_succ, ih]
    cases i with
    | zero => simp
    | succ j => simp; omega

/-- every time inside the tail of a time-sorted trajectory is ≥ the head time, so segments are time-ordered -/
theorem segsFrom_times : ∀ (l : List Sample) (k : ℕ) (p : Option Sample),
    l.Pairwise (fun a b => a.t ≤ b.t) →
    (∀ s ∈ segsFrom k p l, s.a.t ≤ s.b.t ∧ s.a ∈ l) ∧
    (segsFrom k p l).Pairwise (fun a b => a.b.t ≤ b.a.t)
  | [], _, _, _ => by simp [segsFrom]
  | [_], _, _, _ => by simp [segsFrom]
  | a :: b :: rest, k, p, h => by
    have h' : (b :: rest).Pairwise (fun a b => a.t ≤ b.t) := (List.pairwise_cons.mp h).2
    obtain ⟨ih1, ih2⟩ := segsFrom_times (b :: rest) (k + 1) (some a) h'
    have hab : a.t ≤ b.t := (List.pairwise_cons.mp h).1 b (by simp)
    refine ⟨?_, ?_⟩
    · intro s hs
      simp only [segsFrom, List.mem_cons] at hs
      rcases hs with rfl | hs
      · exact ⟨hab, by simp⟩
      · exact ⟨(ih1 s hs).1, List.mem_cons_of_mem _ (ih1 s hs).2⟩
    · simp only [segsFrom, List.pairwise_cons]
      refine ⟨fun s hs => ?_, ih2⟩
      have hm := (ih1 s hs).2
      rcases List.mem_cons.mp hm with e | hm'
      · rw [e]
      · exact (List.pairwise_cons.mp h').1 _ hm'

/-! ### stable sort by segment -/

theorem insertBySeg_perm (h : Hit) : ∀ l : List Hit, (insertBySeg h l).Perm (h :: l)
  | [] => by simp [insertBySeg]
  | b :: l => by
    simp only [insertBySeg]
    split
    · exact List.Perm.refl _
    · exact ((insertBySeg_perm h l).cons b).trans (List.Perm.swap h b l)

theorem sortBySeg_perm : ∀ l : List Hit, (sortBySeg l).Perm l
  | [] => by simp [sortBySeg]
  | b :: l => by
    simp only [sortBySeg]
    exact (insertBySeg_perm b _).trans ((sortBySeg_perm l).cons b)

theorem insertBySeg_sorted (h : Hit) : ∀ l : List Hit, l.Pairwise (fun a b => a.seg ≤ b.seg) →
    (insertBySeg h l).Pairwise (fun a b => a.seg ≤ b.seg)
  | [], _ => by simp [insertBySeg]
  | b :: l, hl => by
    simp only [insertBySeg]
    split
    · rename_i hb
      refine List.pairwise_cons.mpr ⟨fun x hx => ?_, hl⟩
      rcases List.mem_cons.mp hx with rfl | hx
      · exact hb
      · exact le_trans hb ((List.pairwise_cons.mp hl).1 x hx)
    · rename_i hb
      refine List.pairwise_cons.mpr ⟨fun x hx => ?_, insertBySeg_sorted h l (List.pairwise_cons.mp hl).2⟩
      rcases List.mem_cons.mp ((insertBySeg_perm h l).subset hx) with rfl | hx
      · exact Nat.le_of_lt (Nat.lt_of_not_le hb)
      · exact (List.pairwise_cons.mp hl).1 x hx

theorem sortBySeg_sorted : ∀ l : List Hit, (sortBySeg l).Pairwise (fun a b => a.seg ≤ b.seg)
  | [] => by simp [sortBySeg]
  | b :: l => by simp only [sortBySeg]; exact insertBySeg_sorted b _ (sortBySeg_sorted l)

theorem insertBySeg_of_le (h : Hit) : ∀ l : List Hit, (∀ x ∈ l, h.seg ≤ x.seg) → insertBySeg h l = h :: l
  | [], _ => rfl
  | b :: l, hl => by simp [insertBySeg, hl b (by simp)]

/-- sorting an already sorted list changes nothing (the refine path builds its candidates in segment order) -/
theorem sortBySeg_of_sorted : ∀ l : List Hit, l.Pairwise (fun a b => a.seg ≤ b.seg) → sortBySeg l = l
  | [], _ => rfl
  | b :: l, hl => by
    simp only [sortBySeg, sortBySeg_of_sorted l (List.pairwise_cons.mp hl).2]
    exact insertBySeg_of_le b l (List.pairwise_cons.mp hl).1

/-- a list sorted by a key that is a permutation of a list *strictly* sorted by the key is that list -/
theorem eq_of_perm_sorted_strict : ∀ (l₂ l₁ : List Hit), l₁.Perm l₂ → l₁.Pairwise (fun a b => a.seg ≤ b.seg) →
    l₂.Pairwise (fun a b => a.seg < b.seg) → l₁ = l₂
  | [], l₁, hp, _, _ => List.Perm.eq_nil hp
  | b :: l₂, [], hp, _, _ => by simpa using hp.length_eq
  | b :: l₂, a :: l₁, hp, h1, h2 => by
    have hab : a = b := by
      by_contra hne
      have ha : a ∈ l₂ := by
        rcases List.mem_cons.mp (hp.subset (List.mem_cons_self)) with e | e
        · exact absurd e hne
        · exact e
      have hb : b ∈ l₁ := by
        rcases List.mem_cons.mp (hp.symm.subset (List.mem_cons_self)) with e | e
        · exact absurd e.symm hne
        · exact e
      have := (List.pairwise_cons.mp h2).1 a ha
      have := (List.pairwise_cons.mp h1).1 b hb
      omega
    subst hab
    rw [eq_of_perm_sorted_strict l₂ l₁ (List.Perm.cons_inv hp) (List.pairwise_cons.mp h1).2
      (List.pairwise_cons.mp h2).2]

/-! ### de-duplication -/

theorem dedupGo_sublist (cfg : Cfg) : ∀ (l : List Hit) (prev : Option Hit) (cnt : ℕ),
    (dedupGo cfg prev cnt l).Sublist l
  | [], _, _ => by simp [dedupGo]
  | h :: rest, prev, cnt => by
    simp only [dedupGo]
    split
    · exact (dedupGo_sublist cfg rest prev cnt).cons _
    · split
      · exact List.Sublist.cons_cons _ (List.nil_sublist _)
      · exact List.Sublist.cons_cons _ (dedupGo_sublist cfg rest (some h) (cnt + 1))

/-- no candidate is a duplicate (in the sense of the code's rule) of its predecessor -/
def NoDupFrom (cfg : Cfg) : Option Hit → List Hit → Prop
  | _, [] => True
  | prev, h :: rest => dupOfPrev cfg prev h = false ∧ NoDupFrom cfg (some h) rest

def noDupB (cfg : Cfg) : Option Hit → List Hit → Bool
  | _, [] => true
  | prev, h :: rest => !dupOfPrev cfg prev h && noDupB cfg (some h) rest

theorem noDupB_iff (cfg : Cfg) : ∀ (l : List Hit) (prev : Option Hit), noDupB cfg prev l = true ↔ NoDupFrom cfg prev l
  | [], _ => by simp [noDupB, NoDupFrom]
  | h :: rest, prev => by simp [noDupB, NoDupFrom, noDupB_iff cfg rest (some h)]

instance NoDupFrom.dec (cfg : Cfg) (prev : Option Hit) (l : List Hit) : Decidable (NoDupFrom cfg prev l) :=
  decidable_of_iff _ (noDupB_iff cfg l prev)

theorem dedupGo_eq_self (cfg : Cfg) (hm : cfg.maxHits = none) : ∀ (l : List Hit) (prev : Option Hit) (cnt : ℕ),
    NoDupFrom cfg prev l → dedupGo cfg prev cnt l = l
  | [], _, _, _ => by simp [dedupGo]
  | h :: rest, prev, cnt, hn => by
    simp only [dedupGo, hn.1, maxReached, hm]
    simp [dedupGo_eq_self cfg hm rest (some h) (cnt + 1) hn.2]

/-- what the loop may drop: only duplicates of the last kept hit, or everything after the `max_hits`-th kept hit -/
theorem dedupGo_dropped (cfg : Cfg) : ∀ (l : List Hit) (prev : Option Hit) (cnt : ℕ) (h : Hit), h ∈ l →
    h ∈ dedupGo cfg prev cnt l ∨
    (∃ p, (prev = some p ∨ p ∈ dedupGo cfg prev cnt l) ∧ isDup cfg p h = true) ∨
    (∃ m, cfg.maxHits = some m ∧ m ≤ cnt + (dedupGo cfg prev cnt l).length)
  | [], _, _, h, hm => by simp at hm
  | x :: rest, prev, cnt, h, hm => by
    simp only [dedupGo]
    by_cases hd : dupOfPrev cfg prev x = true
    · simp only [hd, if_true]
      rcases List.mem_cons.mp hm with rfl | hm
      · right; left
        cases prev with
        | none => simp [dupOfPrev] at hd
        | some p => exact ⟨p, Or.inl rfl, by simpa [dupOfPrev] using hd⟩
      · exact dedupGo_dropped cfg rest prev cnt h hm
    · simp only [hd]
      rcases List.mem_cons.mp hm with rfl | hm
      · left; simp
      · by_cases hx : maxReached cfg (cnt + 1) = true
        · right; right
          simp only [hx, if_true]
          unfold maxReached at hx
          cases hmx : cfg.maxHits with
          | none => simp [hmx] at hx
          | some m => exact ⟨m, rfl, by simpa [hmx] using hx⟩
        · simp only [hx]
          rcases dedupGo_dropped cfg rest (some x) (cnt + 1) h hm with h1 | ⟨p, hp, hdup⟩ | ⟨m, hm1, hm2⟩
          · left; exact List.mem_cons_of_mem _ h1
          · right; left
            refine ⟨p, ?_, hdup⟩
            rcases hp with hp | hp
            · right; simp only [Option.some.injEq] at hp; subst hp; simp
            · right; exact List.mem_cons_of_mem _ hp
          · right; right
            exact ⟨m, hm1, by simp only [Bool.false_eq_true, if_false, List.length_cons]; omega⟩

theorem dedupGo_noDup (cfg : Cfg) : ∀ (l : List Hit) (prev : Option Hit) (cnt : ℕ),
    NoDupFrom cfg prev (dedupGo cfg prev cnt l)
  | [], _, _ => by simp [dedupGo, NoDupFrom]
  | x :: rest, prev, cnt => by
    simp only [dedupGo]
    by_cases hd : dupOfPrev cfg prev x = true
    · simp only [hd, if_true]; exact dedupGo_noDup cfg rest prev cnt
    · simp only [hd]
      refine ⟨by simpa using hd, ?_⟩
      split
      · trivial
      · exact dedupGo_noDup cfg rest (some x) (cnt + 1)

/-! ### specification-level view of the candidates -/

/-- the candidate a segment contributes on the plain path: the on-surface left sample if it is accepted, otherwise
the interpolated crossing if the segment has a sign change compatible with the direction, otherwise nothing -/
def segCand (cfg : Cfg) (hm : Herm) (md : Mode) (s : Seg) : Option Hit :=
  if onAccept cfg s then some (onHit s)
  else if crossRaw cfg.dir (s.g0 cfg) (s.g1 cfg) then some (crossHit cfg hm md s) else none

/-- `h` is located in segment `s`: it carries the segment index, a fraction in `[0,1]` and the matching time -/
def InSeg (s : Seg) (h : Hit) : Prop := h.seg = s.k ∧ 0 ≤ h.s ∧ h.s ≤ 1 ∧ h.time = timeAt s h.s

theorem candidates_perm_scan (cfg : Cfg) (hm : Herm) (md : Mode) : ∀ S : List Seg,
    (candidates cfg hm md S).Perm (S.filterMap (segCand cfg hm md))
  | [] => by simp [candidates]
  | s :: S => by
    have ih := candidates_perm_scan cfg hm md S
    unfold candidates at ih ⊢
    by_cases ho : onAccept cfg s = true
    · have hc : isCross cfg s = false := by simp [isCross, ho]
      simp only [List.filter_cons, ho, hc, if_true, List.map_cons, List.cons_append, List.filterMap_cons, segCand]
      simpa using ih.cons (onHit s)
    · have ho' : onAccept cfg s = false := by simpa using ho
      by_cases hc : crossRaw cfg.dir (s.g0 cfg) (s.g1 cfg) = true
      · have hc' : isCross cfg s = true := by simp [isCross, ho', hc]
        simp only [List.filter_cons, ho', hc', hc, if_true, List.map_cons, List.filterMap_cons, segCand]
        exact List.perm_middle.trans (by simpa using ih.cons (crossHit cfg hm md s))
      · have hc' : isCross cfg s = false := by simp [isCross, hc]
        simp only [List.filter_cons, ho', hc', hc, List.filterMap_cons, segCand]
        simpa using ih

theorem segCand_seg {cfg : Cfg} {hm : Herm} {md : Mode} {s : Seg} {h : Hit} (e : segCand cfg hm md s = some h) :
    h.seg = s.k := by
  unfold segCand at e
  split at e
  · cases e; rfl
  · split at e
    · cases e; unfold crossHit; split <;> rfl
    · cases e

theorem filter_scan_eq (f : Seg → Option Hit) (hf : ∀ s h, f s = some h → h.seg = s.k) :
    ∀ (S : List Seg), S.Pairwise (fun a b => a.k < b.k) → ∀ s ∈ S,
      (S.filterMap f).filter (fun h => h.seg = s.k) = (f s).toList
  | [], _, s, hs => by simp at hs
  | x :: S, hp, s, hs => by
    have hx := (List.pairwise_cons.mp hp).1
    have hnone : ∀ (k : ℕ), (∀ y ∈ S, k < y.k) → (S.filterMap f).filter (fun h => h.seg = k) = [] := by
      intro k hk
      rw [List.filter_eq_nil_iff]
      intro h hh
      obtain ⟨y, hy, e⟩ := List.mem_filterMap.mp hh
      have := hf y h e
      have := hk y hy
      simp; omega
    rcases List.mem_cons.mp hs with rfl | hs'
    · simp only [List.filterMap_cons]
      cases e : f s with
      | none => simpa using hnone s.k hx
      | some h =>
        simp only [List.filter_cons, hf s h e, decide_true, if_true, Option.toList_some]
        rw [hnone s.k hx]
    · have ih := filter_scan_eq f hf S (List.pairwise_cons.mp hp).2 s hs'
      simp only [List.filterMap_cons]
      cases e : f x with
      | none => simpa using ih
      | some h =>
        have : h.seg ≠ s.k := by rw [hf x h e]; exact Nat.ne_of_lt (hx s hs')
        simp only [List.filter_cons, this, decide_false, ih]
        simp

/-! ### every candidate is located in its segment -/

theorem timeAt_mono (s : Seg) {u u' : ℚ} (ht : s.a.t ≤ s.b.t) (h : u ≤ u') : timeAt s u ≤ timeAt s u' := by
  unfold timeAt; nlinarith

theorem onHit_inSeg (s : Seg) : InSeg s (onHit s) := by
  refine ⟨rfl, le_refl _, zero_le_one, ?_⟩
  simp [onHit, timeAt]

theorem alphaOf_mem (g0 g1 : ℚ) : 0 ≤ alphaOf g0 g1 ∧ alphaOf g0 g1 ≤ 1 := clamp_mem zero_le_one

theorem linHit_inSeg (cfg : Cfg) (s : Seg) : InSeg s (linHit cfg s) :=
  ⟨rfl, (alphaOf_mem _ _).1, (alphaOf_mem _ _).2, rfl⟩

theorem cubHit_inSeg (cfg : Cfg) (hm : Herm) (n : ℕ) (s : Seg) : InSeg s (cubHit cfg hm n s) := by
  have ha := alphaOf_mem (s.g0 cfg) (s.g1 cfg)
  refine ⟨rfl, ?_, ?_, rfl⟩ <;> simp only [cubHit] <;> split
  · exact (newton_mem _ _ zero_le_one n _ ha.1 ha.2).1
  · exact ha.1
  · exact (newton_mem _ _ zero_le_one n _ ha.1 ha.2).2
  · exact ha.2

theorem crossHit_inSeg (cfg : Cfg) (hm : Herm) (md : Mode) (s : Seg) : InSeg s (crossHit cfg hm md s) := by
  unfold crossHit; split
  · exact cubHit_inSeg cfg hm _ s
  · exact linHit_inSeg cfg s

theorem segCand_inSeg {cfg : Cfg} {hm : Herm} {md : Mode} {s : Seg} {h : Hit} (e : segCand cfg hm md s = some h) :
    InSeg s h := by
  unfold segCand at e
  split at e
  · cases e; exact onHit_inSeg s
  · split at e
    · cases e; exact crossHit_inSeg cfg hm md s
    · cases e

/-! ### sub-intervals of the refine path -/

theorem sub_step_pos (r : ℕ) : (0 : ℚ) < 1 / ((r : ℚ) + 1) := by positivity

theorem subLo_nonneg (r m : ℕ) : 0 ≤ subLo r m := by unfold subLo; positivity

theorem subLo_le_subHi (r m : ℕ) : subLo r m ≤ subHi r m := by
  unfold subLo subHi; nlinarith [sub_step_pos r]

theorem subHi_le_one {r m : ℕ} (h : m ≤ r) : subHi r m ≤ 1 := by
  unfold subHi
  have : ((m : ℚ) + 1) ≤ (r : ℚ) + 1 := by exact_mod_cast Nat.succ_le_succ h
  rw [mul_one_div, div_le_one (by positivity)]
  exact this

theorem subHi_le_subLo {r m m' : ℕ} (h : m < m') : subHi r m ≤ subLo r m' := by
  unfold subHi subLo
  have : ((m : ℚ) + 1) ≤ (m' : ℚ) := by exact_mod_cast h
  exact mul_le_mul_of_nonneg_right this (sub_step_pos r).le

theorem subStart_mem (glo ghi : ℚ) {lo hi : ℚ} (h : lo ≤ hi) :
    lo ≤ subStart glo ghi lo hi ∧ subStart glo ghi lo hi ≤ hi := by
  unfold subStart
  split
  · constructor <;> linarith
  · obtain ⟨c0, c1⟩ := clamp_mem (x := glo / (glo - ghi)) (zero_le_one (α := ℚ))
    constructor <;> nlinarith

theorem subU_mem (cfg : Cfg) (hm : Herm) (md : Mode) (s : Seg) (m : ℕ) :
    subLo md.refine m ≤ subU cfg hm md s m ∧ subU cfg hm md s m ≤ subHi md.refine m := by
  have hl := subLo_le_subHi md.refine m
  have h0 := subStart_mem (gAt cfg hm md s (subLo md.refine m)) (gAt cfg hm md s (subHi md.refine m)) hl
  simp only [subU]
  split
  · exact newton_mem _ _ hl _ _ h0.1 h0.2
  · exact h0

theorem subHit_spec {cfg : Cfg} {hm : Herm} {md : Mode} {s : Seg} {m : ℕ} {h : Hit}
    (e : subHit cfg hm md s m = some h) :
    crossRaw cfg.dir (gAt cfg hm md s (subLo md.refine m)) (gAt cfg hm md s (subHi md.refine m)) = true ∧
    h.seg = s.k ∧ h.onSurf = false ∧ h.s = subU cfg hm md s m ∧ h.time = timeAt s h.s ∧
    h.state = (if useCub md s then cubicState hm s h.s else lerp s.a.x s.b.x h.s) := by
  unfold subHit at e
  split at e
  · cases e; exact ⟨‹_›, rfl, rfl, rfl, rfl, rfl⟩
  · cases e

theorem subHit_inSeg {cfg : Cfg} {hm : Herm} {md : Mode} {s : Seg} {m : ℕ} {h : Hit} (hm' : m ≤ md.refine)
    (e : subHit cfg hm md s m = some h) : InSeg s h := by
  obtain ⟨-, h1, -, h3, h4, -⟩ := subHit_spec e
  have hu := subU_mem cfg hm md s m
  refine ⟨h1, ?_, ?_, h4⟩
  · rw [h3]; exact le_trans (subLo_nonneg _ _) hu.1
  · rw [h3]; exact le_trans hu.2 (subHi_le_one hm')

/-- on the linear refine path the reported state lies exactly on the plane -/
theorem subHit_linear_on_plane {cfg : Cfg} {hm : Herm} {md : Mode} {s : Seg} {m : ℕ} {h : Hit}
    (hc : md.cubic = false) (hl : s.a.x.length = s.b.x.length) (e : subHit cfg hm md s m = some h) :
    gval cfg.n cfg.c h.state = 0 := by
  obtain ⟨hx, -, -, h3, -, h5⟩ := subHit_spec e
  have hu : useCub md s = false := by simp [useCub, hc]
  rw [h5, h3]
  simp only [hu, Bool.false_eq_true, if_false, gAt, subU] at hx ⊢
  rw [gval_lerp _ _ _ _ _ hl]
  obtain ⟨hne, hs, -, -⟩ := crossRaw_spec hx
  obtain ⟨a0, a1, az⟩ := alpha_bracket hne hs
  simp only [subStart, if_neg hne, clamp_of_mem a0 a1]
  simp only [Seg.g0, Seg.g1] at az ⊢
  linear_combination az

theorem subHits_spec (cfg : Cfg) (hm : Herm) (md : Mode) (s : Seg) (skip0 : Bool) :
    (∀ h ∈ subHits cfg hm md s skip0, InSeg s h ∧ h.onSurf = false) ∧
    (subHits cfg hm md s skip0).Pairwise (fun a b => a.s ≤ b.s) := by
  constructor
  · intro h hh
    obtain ⟨m, hm1, hm2⟩ := List.mem_filterMap.mp hh
    split at hm2
    · cases hm2
    · exact ⟨subHit_inSeg (Nat.lt_succ_iff.mp (List.mem_range.mp hm1)) hm2, (subHit_spec hm2).2.2.1⟩
  · refine List.Pairwise.filterMap _ ?_ (List.pairwise_lt_range)
    intro m m' hmm h e h' e'
    split at e
    · cases e
    · split at e'
      · cases e'
      · rw [(subHit_spec e).2.2.2.1, (subHit_spec e').2.2.2.1]
        exact le_trans (subU_mem cfg hm md s m).2 (le_trans (subHi_le_subLo hmm) (subU_mem cfg hm md s m').1)

theorem refineSeg_spec (cfg : Cfg) (hm : Herm) (md : Mode) (s : Seg) :
    (∀ h ∈ refineSeg cfg hm md s, InSeg s h) ∧ (refineSeg cfg hm md s).Pairwise (fun a b => a.s ≤ b.s) := by
  unfold refineSeg
  split
  · obtain ⟨h1, h2⟩ := subHits_spec cfg hm md s true
    refine ⟨?_, List.pairwise_cons.mpr ⟨fun x hx => (h1 x hx).1.2.1, h2⟩⟩
    intro h hh
    rcases List.mem_cons.mp hh with rfl | hh
    · exact onHit_inSeg s
    · exact (h1 h hh).1
  · obtain ⟨h1, h2⟩ := subHits_spec cfg hm md s false
    exact ⟨fun h hh => (h1 h hh).1, h2⟩

/-! ### time order of candidates generated segment by segment -/

/-- the order the property asks for: by segment, and by time -/
def Before (a b : Hit) : Prop := a.seg ≤ b.seg ∧ a.time ≤ b.time

theorem flatMap_ordered (f : Seg → List Hit) (l : List Sample) (ht : l.Pairwise (fun a b => a.t ≤ b.t))
    (hf : ∀ s, (∀ h ∈ f s, InSeg s h) ∧ (f s).Pairwise (fun a b => a.s ≤ b.s)) :
    ((segs l).flatMap f).Pairwise Before := by
  obtain ⟨t1, t2⟩ := segsFrom_times l 0 none ht
  have hk := segsFrom_pairwise_k l 0 none
  rw [List.pairwise_flatMap]
  constructor
  · intro s hs
    refine List.Pairwise.imp_of_mem ?_ (hf s).2
    intro a b ha hb hab
    obtain ⟨a1, -, -, a4⟩ := (hf s).1 a ha
    obtain ⟨b1, -, -, b4⟩ := (hf s).1 b hb
    exact ⟨by rw [a1, b1], by rw [a4, b4]; exact timeAt_mono s (t1 s hs).1 hab⟩
  · refine List.Pairwise.imp_of_mem ?_ (hk.and t2)
    intro s s' hs hs' hss x hx y hy
    obtain ⟨a1, a2, a3, a4⟩ := (hf s).1 x hx
    obtain ⟨b1, b2, b3, b4⟩ := (hf s').1 y hy
    refine ⟨by rw [a1, b1]; exact Nat.le_of_lt hss.1, ?_⟩
    rw [a4, b4]
    exact le_trans (timeAt_mem s a2 a3 (t1 s hs).1).2 (le_trans hss.2 (timeAt_mem s' b2 b3 (t1 s' hs').1).1)

theorem filterMap_eq_flatMap (f : Seg → Option Hit) : ∀ S : List Seg,
    S.filterMap f = S.flatMap (fun s => (f s).toList)
  | [] => rfl
  | s :: S => by
    simp only [List.filterMap_cons, List.flatMap_cons, filterMap_eq_flatMap f S]
    cases f s <;> simp

/-! ### trajectories sampled BACKWARD in time (non-increasing stamps): the mirrored order lemmas -/

theorem timeAt_mem_desc (s : Seg) {a : ℚ} (h0 : 0 ≤ a) (h1 : a ≤ 1) (ht : s.b.t ≤ s.a.t) :
    s.b.t ≤ timeAt s a ∧ timeAt s a ≤ s.a.t := by
  unfold timeAt
  constructor <;> nlinarith

theorem timeAt_anti (s : Seg) {u u' : ℚ} (ht : s.b.t ≤ s.a.t) (h : u ≤ u') : timeAt s u' ≤ timeAt s u := by
  unfold timeAt; nlinarith

theorem segsFrom_times_desc : ∀ (l : List Sample) (k : ℕ) (p : Option Sample),
    l.Pairwise (fun a b => b.t ≤ a.t) →
    (∀ s ∈ segsFrom k p l, s.b.t ≤ s.a.t ∧ s.a ∈ l) ∧
    (segsFrom k p l).Pairwise (fun a b => b.a.t ≤ a.b.t)
  | [], _, _, _ => by simp [segsFrom]
  | [_], _, _, _ => by simp [segsFrom]
  | a :: b :: rest, k, p, h => by
    have h' : (b :: rest).Pairwise (fun a b => b.t ≤ a.t) := (List.pairwise_cons.mp h).2
    obtain ⟨ih1, ih2⟩ := segsFrom_times_desc (b :: rest) (k + 1) (some a) h'
    have hab : b.t ≤ a.t := (List.pairwise_cons.mp h).1 b (by simp)
    refine ⟨?_, ?_⟩
    · intro s hs
      simp only [segsFrom, List.mem_cons] at hs
      rcases hs with rfl | hs
      · exact ⟨hab, by simp⟩
      · exact ⟨(ih1 s hs).1, List.mem_cons_of_mem _ (ih1 s hs).2⟩
    · simp only [segsFrom, List.pairwise_cons]
      refine ⟨fun s hs => ?_, ih2⟩
      have hm := (ih1 s hs).2
      rcases List.mem_cons.mp hm with e | hm'
      · rw [e]
      · exact (List.pairwise_cons.mp h').1 _ hm'

/-- order along a backward-sampled trajectory: by segment, and by DEcreasing time -/
def BeforeDesc (a b : Hit) : Prop := a.seg ≤ b.seg ∧ b.time ≤ a.time

theorem flatMap_ordered_desc (f : Seg → List Hit) (l : List Sample) (ht : l.Pairwise (fun a b => b.t ≤ a.t))
    (hf : ∀ s, (∀ h ∈ f s, InSeg s h) ∧ (f s).Pairwise (fun a b => a.s ≤ b.s)) :
    ((segs l).flatMap f).Pairwise BeforeDesc := by
  obtain ⟨t1, t2⟩ := segsFrom_times_desc l 0 none ht
  have hk := segsFrom_pairwise_k l 0 none
  rw [List.pairwise_flatMap]
  constructor
  · intro s hs
    refine List.Pairwise.imp_of_mem ?_ (hf s).2
    intro a b ha hb hab
    obtain ⟨a1, -, -, a4⟩ := (hf s).1 a ha
    obtain ⟨b1, -, -, b4⟩ := (hf s).1 b hb
    exact ⟨by rw [a1, b1], by rw [a4, b4]; exact timeAt_anti s (t1 s hs).1 hab⟩
  · refine List.Pairwise.imp_of_mem ?_ (hk.and t2)
    intro s s' hs hs' hss x hx y hy
    obtain ⟨a1, a2, a3, a4⟩ := (hf s).1 x hx
    obtain ⟨b1, b2, b3, b4⟩ := (hf s').1 y hy
    refine ⟨by rw [a1, b1]; exact Nat.le_of_lt hss.1, ?_⟩
    rw [a4, b4]
    exact le_trans (timeAt_mem_desc s' b2 b3 (t1 s' hs').1).2 (le_trans hss.2 (timeAt_mem_desc s a2 a3 (t1 s hs).1).1)

end HitenModel.C15
