"""CLI of the checks.  ./check Cxx --tier quick|thorough [--replay file]"""
import argparse
import importlib
import json
import os
import sys
import traceback

HERE = os.path.dirname(os.path.abspath(__file__))
sys.path.insert(0, HERE)
sys.path.insert(0, os.path.join(os.path.dirname(HERE), "translator"))

import common  # noqa: E402


def main():
    ap = argparse.ArgumentParser()
    ap.add_argument("prop")
    ap.add_argument("--tier", default=os.environ.get("VERIF_TIER", "quick"), choices=["quick", "thorough"])
    ap.add_argument("--replay", default=None)
    a = ap.parse_args()
    seed = int(os.environ.get("VERIF_SEED", "20260925"))
    # never run from inside the repo tree (its corrector/types.py shadows the stdlib)
    os.chdir(common.VERIF)
    ctx = common.Ctx(a.prop, a.tier, seed)
    mod = importlib.import_module("props." + a.prop.lower())
    try:
        if a.replay:
            rec = json.load(open(a.replay))
            if hasattr(mod, "replay"):
                mod.replay(ctx, rec)
            else:
                mod.run(ctx)
        else:
            mod.run(ctx)
    except Exception:
        tb = traceback.format_exc()
        ctx.log("HARNESS EXCEPTION\n" + tb)
        ctx.broken.append(("harness", tb[-1500:]))
        ctx.obligations["harness-completed"] = False
    rc = ctx.finish()
    sys.stdout.flush()
    os._exit(rc)


if __name__ == "__main__":
    main()
