"""C09 — centre-manifold points map to synodic states consistently in position and energy.

Tie 1 (regenerated, T-table by execution): every routing table of the conversions is *observed by executing the current
objects with recording stubs* and written to Gen/C09.lean: the slot placement of `_cm_point_to_synodic_4d`, the slots
read by `synodic_to_cm`, `var_indices` of `solve_missing_coord` (state handed to `_polynomial_evaluate`), `_CM_SECTION_TABLE`,
`_STATE_INDEX`, the constraint dict / solved variable / result routing of `lift_plane_point`, `build_state`, the 6-vector
that the public `CenterManifold.to_synodic(pt2, energy, section_coord)` feeds into the Lie chain, the complexification
matrices `_M`, `_M_inv` (entry codes), and `_local2synodic_collinear` / `_synodic2local_collinear` traced to `RE` terms.
Props/C09.lean proves the property theorems about the hand model Core/C09.lean and proves that the hand model's tables
are the regenerated ones.
Tie 2 (correspondence, T-corr, exact): Drivers/C09.lean runs the hand model over Q; the real `solve_missing_coord`,
`lift_plane_point`, `build_state`, `enforce_section_coordinate`, `plane_points_from_states`, `_to_real_4d_cm` run in-process
on scripted dyadic polynomial Hamiltonians (real `_polynomial_evaluate`) and on oracle-replayed residual tables (root finder
= recorded oracle); queries, residual values, bracket, result and routing are compared exactly.
Numerics / failing-input search: real EM L1/L2 centre manifolds (+ one seeded mu): round trip CM -> synodic -> CM and
energy discrepancy (E-E_L)/gamma^2 - H_cm fitted against the amplitude (exponent >= N+1-0.5), section conversion on the
energy level and on the section, link-by-link inverse checks."""
from __future__ import annotations

import inspect
import math
import time
import warnings
from fractions import Fraction

import numpy as np

F = Fraction
NAMES = ["q1", "q2", "q3", "p1", "p2", "p3"]
SECS = ["q2", "p2", "q3", "p3"]
PROP_MODULES = ["HitenModel.Props.C09"]
SRC_MODULES = ["HitenModel.Props.C09", "HitenModel.Lemmas.C09", "HitenModel.Core.C09", "HitenModel.Gen.C09"]

_H = {}


def hiten():
    """lazily imported real modules"""
    if not _H:
        import logging
        logging.disable(logging.CRITICAL)
        warnings.simplefilter("ignore")
        from hiten.algorithms.poincare.centermanifold import interfaces as I
        from hiten.algorithms.types.services import center as SC
        from hiten.algorithms.hamiltonian import transforms as TR
        from hiten.algorithms.common.energy import crtbp_energy
        from hiten.system import System
        from hiten.system.center import CenterManifold
        _H.update(I=I, SC=SC, TR=TR, crtbp_energy=crtbp_energy, System=System, CenterManifold=CenterManifold)
    return _H


_CMS = {}


def get_cm(sysname, lk, deg):
    """real CenterManifold objects, cached within the run; sysname = 'EM' or ('mu', value)"""
    h = hiten()
    key = (sysname, lk, deg)
    if key not in _CMS:
        skey = ("sys", sysname)
        if skey not in _CMS:
            _CMS[skey] = h["System"].from_bodies("earth", "moon") if sysname == "EM" else h["System"].from_mu(float(sysname[1]))
        system = _CMS[skey]
        point = system.get_libration_point(lk)
        cm = h["CenterManifold"](point, deg)
        cm.compute()
        _CMS[key] = (system, point, cm)
    return _CMS[key]


class _Stop(Exception):
    pass


def viol(ctx, key, what, replay):
    """report the first failing input of every key (input class); further ones are only counted"""
    seen = getattr(ctx, "_c09_seen", None)
    if seen is None:
        seen = ctx._c09_seen = {}
    seen[key] = seen.get(key, 0) + 1
    ctx.extra["failing_inputs_per_key"] = dict(seen)
    if seen[key] == 1:
        ctx.violation(key, what, replay)


class patched:
    """temporarily replace attributes of live modules / classes (always restored)"""

    def __init__(self, *triples):
        self.triples = triples
        self.saved = []

    def __enter__(self):
        for obj, name, val in self.triples:
            self.saved.append((obj, name, obj.__dict__.get(name, _Stop) if isinstance(obj, type) else getattr(obj, name)))
            setattr(obj, name, val)
        return self

    def __exit__(self, *a):
        for obj, name, old in reversed(self.saved):
            if old is _Stop:
                delattr(obj, name)
            else:
                setattr(obj, name, old)


# ---------------------------------------------------------------------------------------------------------
# Tie 1: observe the routing tables by executing the current code
# ---------------------------------------------------------------------------------------------------------

def _decode(v, markers):
    """marker value -> code (int); anything else -> 99"""
    v = complex(v)
    for code, m in markers.items():
        if v == m:
            return code
    return 99


def observe_tables(cm=None):
    h = hiten()
    I, SC, TR = h["I"], h["SC"], h["TR"]
    iface = I._CenterManifoldInterface()
    T = {}
    # --- var_indices: the state that residual() hands to _polynomial_evaluate
    cap = []

    def rec_eval(Hb, state, clmo):
        cap.append(np.array(state))
        return complex(1.0)      # residual(0) > 0 -> solve_missing_coord returns None after one evaluation

    rows = []
    with patched((I, "_polynomial_evaluate", rec_eval)):
        for nm in NAMES:
            cap.clear()
            fixed = {n: float(10 + i) for i, n in enumerate(NAMES)}
            r = iface.solve_missing_coord(nm, fixed, h0=0.0, H_blocks=None, clmo_table=None)
            assert r is None and len(cap) == 1 and cap[0].shape == (6,)
            st = cap[0]
            row = []
            for i, n in enumerate(NAMES):
                want = 0.0 if n == nm else float(10 + i)      # the solved slot holds x = 0.0, the others their marker
                hits = [k for k in range(6) if st[k] == want]
                row.append(hits[0] if len(hits) == 1 else 99)
            rows.append(row)
        try:
            iface.solve_missing_coord("zz", {}, h0=0.0, H_blocks=None, clmo_table=None)
            T["unknown_raises"] = False
        except I.BackendError:
            T["unknown_raises"] = True
    # a name must occupy the same slot whether it is fixed or solved for, in all six runs
    var_index = rows[0] if all(r == rows[0] for r in rows) else [99] * 6
    T["var_index"] = var_index
    # --- section tables (live objects)
    T["state_index"] = [int(I._STATE_INDEX[s]) for s in SECS]
    T["plane_coords"] = [tuple(SECS.index(c) for c in I._CM_SECTION_TABLE[s]["plane_coords"]) for s in SECS]
    T["plane_labels"] = [tuple(SECS.index(c) for c in iface.plane_labels(s)) for s in SECS]
    # --- build_state, lift_plane_point
    mk = {0: 0.0, 1: 1.0, 2: 2.0, 3: 3.0, 4: 4.0, 5: 5.0}
    T["build_state"] = [[_decode(v, mk) for v in I._CenterManifoldSectionInterface.build_state(s, (1.0, 2.0), (3.0, 4.0))] for s in SECS]
    T["missing"], T["constraints"], T["lift"], T["lift_none"], T["lift_kw"] = [], [], [], [], []
    for s in SECS:
        calls = []

        def stub(varname, fixed_vals, **kw):
            calls.append((varname, list(fixed_vals.items()), kw))
            return 5.0

        iface.solve_missing_coord = stub
        try:
            out = iface.lift_plane_point((1.0, 2.0), section_coord=s, h0=0.25, H_blocks="HB", clmo_table="CL")
            iface.solve_missing_coord = lambda *a, **k: None
            out_none = iface.lift_plane_point((1.0, 2.0), section_coord=s, h0=0.25, H_blocks="HB", clmo_table="CL")
        finally:
            del iface.solve_missing_coord
        assert len(calls) == 1
        varname, items, kw = calls[0]
        T["missing"].append(NAMES.index(varname) if varname in NAMES else 99)
        T["constraints"].append([(NAMES.index(n) if n in NAMES else 99, _decode(v, mk)) for n, v in items])
        T["lift"].append([_decode(v, mk) for v in out])
        T["lift_none"].append(out_none is None)
        ok_kw = kw.get("h0") == 0.25 and kw.get("H_blocks") == "HB" and kw.get("clmo_table") == "CL"
        T["lift_kw"].append(bool(ok_kw))
    sig = inspect.signature(I._CenterManifoldInterface.solve_missing_coord).parameters
    T["defaults"] = {k: sig[k].default for k in ("initial_guess", "expand_factor", "max_expand", "symmetric", "xtol")}
    sigl = inspect.signature(I._CenterManifoldInterface.lift_plane_point).parameters
    T["lift_defaults_same"] = all(sigl[k].default == sig[k].default for k in T["defaults"])
    # --- the public API: what goes into the Lie chain / what comes out of it
    if cm is None:
        cm = get_cm("EM", 1, 4)[2]

    def cap_sc(z, **kw):
        raise _Stop(np.array(z))

    def stub2(self, varname, fixed_vals, **kw):
        T.setdefault("public_solve", []).append((varname, kw.get("h0")))
        return 5.0

    with patched((SC, "_solve_complex", cap_sc)):
        try:
            cm.to_synodic(np.array([1.0, 2.0, 3.0, 4.0]))
            place = None
        except _Stop as e:
            place = e.args[0]
        T["place_vec"] = [_decode(v, mk) for v in place] if place is not None and place.shape == (6,) else [99] * 6
        T["section_to6"], T["section_var"] = [], []
        with patched((I._CenterManifoldInterface, "solve_missing_coord", stub2)):
            for s in SECS:
                try:
                    cm.to_synodic(np.array([1.0, 2.0]), energy=0.25, section_coord=s)
                    T["section_to6"].append([99] * 6)
                except _Stop as e:
                    T["section_to6"].append([_decode(v, mk) for v in e.args[0]])
                vn, h0 = T["public_solve"][-1]
                T["section_var"].append(NAMES.index(vn) if vn in NAMES and h0 == 0.25 else 99)
    T["place_slots"] = [T["place_vec"].index(c) if c in T["place_vec"] else 99 for c in (1, 2, 3, 4)]
    mk2 = {10 + i: complex(10 + i) for i in range(6)}
    with patched((SC, "_solve_real", lambda z, **kw: np.array([10, 11, 12, 13, 14, 15], dtype=np.complex128))):
        back = cm.to_cm(np.array([0.83, 0.0, 0.0, 0.0, 0.0, 0.0]))
    T["read_slots"] = [(_decode(v, mk2) - 10) if _decode(v, mk2) != 99 else 99 for v in back]
    # --- complexification matrices actually used by the service
    mix = tuple(cm.dynamics._mix_pairs)
    T["mix_pairs"] = list(mix)
    half = 1.0 / np.sqrt(2.0)
    mcode = {0: 0.0, 1: 1.0, 2: half, 3: 1j * half, 4: -1j * half}
    T["M"] = [[_decode(v, mcode) for v in row] for row in TR._M(mix)]
    T["Minv"] = [[_decode(v, mcode) for v in row] for row in TR._M_inv(mix)]
    return T


def _lean_list(xs):
    return "[" + ", ".join(str(x) for x in xs) + "]"


def _lean_rat(x):
    q = Fraction(float(x))
    return "(%d, %d)" % (q.numerator, q.denominator)


def gen(ctx):
    T = observe_tables()
    tr = trace_local_synodic()
    txt = ("-- GENERATED by /verif/harness/props/c09.py from /repo's current source on every run. DO NOT EDIT.\n"
           "-- Tables observed by *executing* the current objects with recording stubs (markers: 0 = 0.0, 1/2 = plane point,\n"
           "-- 3/4 = other pair, 5 = value returned by the energy solve); RE terms traced from transforms.py.\n"
           "import HitenModel.Core.RE\nnamespace HitenModel.Gen.C09\nopen HitenModel\n\n")
    txt += "/-- slot of q1,q2,q3,p1,p2,p3 in the state evaluated by `solve_missing_coord.residual` -/\n"
    txt += "def varIndex : List Nat := %s\n" % _lean_list(T["var_index"])
    txt += "def unknownVarRaises : Bool := %s\n" % str(T["unknown_raises"]).lower()
    txt += "/-- slot of the 6-vector fed to `_solve_complex` that receives cm_point[0..3] (public `to_synodic(pt4)`) -/\n"
    txt += "def placeSlots : List Nat := %s\n" % _lean_list(T["place_slots"])
    txt += "def placeVec : List Int := %s\n" % _lean_list(T["place_vec"])
    txt += "/-- slot of the `_solve_real` output returned as component 0..3 by the public `to_cm` -/\n"
    txt += "def readSlots : List Nat := %s\n" % _lean_list(T["read_slots"])
    txt += "/-- `_STATE_INDEX` of q2,p2,q3,p3 -/\ndef stateIndex : List Nat := %s\n" % _lean_list(T["state_index"])
    txt += "/-- `_CM_SECTION_TABLE` plane coordinates of the sections q2,p2,q3,p3 (as positions in [q2,p2,q3,p3]) -/\n"
    txt += "def planeCoords : List (Nat × Nat) := %s\n" % _lean_list("(%d, %d)" % p for p in T["plane_coords"])
    txt += "def planeLabels : List (Nat × Nat) := %s\n" % _lean_list("(%d, %d)" % p for p in T["plane_labels"])
    txt += "/-- variable handed to `solve_missing_coord` by `lift_plane_point` (index in [q1,q2,q3,p1,p2,p3]) -/\n"
    txt += "def missing : List Nat := %s\n" % _lean_list(T["missing"])
    txt += "/-- the constraint dict handed to `solve_missing_coord`, in insertion order -/\n"
    txt += "def constraintsTbl : List (List (Nat × Int)) := %s\n" % _lean_list(
        _lean_list("(%d, %d)" % p for p in row) for row in T["constraints"])
    txt += "def buildStateTbl : List (List Int) := %s\n" % _lean_list(_lean_list(r) for r in T["build_state"])
    txt += "def liftTbl : List (List Int) := %s\n" % _lean_list(_lean_list(r) for r in T["lift"])
    txt += "def liftNoneOnNone : List Bool := %s\n" % _lean_list(str(b).lower() for b in T["lift_none"])
    txt += "def liftPassesArgs : List Bool := %s\n" % _lean_list(str(b).lower() for b in T["lift_kw"])
    txt += "/-- 6-vector fed to `_solve_complex` by the public `to_synodic(pt2, energy, section_coord)` -/\n"
    txt += "def sectionTo6Tbl : List (List Int) := %s\n" % _lean_list(_lean_list(r) for r in T["section_to6"])
    txt += "def sectionSolveVar : List Nat := %s\n" % _lean_list(T["section_var"])
    d = T["defaults"]
    txt += "/-- defaults of `solve_missing_coord` as exact rationals (numerator, denominator) of the float64 values -/\n"
    txt += "def defaultGuess : Int × Nat := %s\n" % _lean_rat(d["initial_guess"])
    txt += "def defaultFactor : Int × Nat := %s\n" % _lean_rat(d["expand_factor"])
    txt += "def defaultMaxExpand : Nat := %d\n" % int(d["max_expand"])
    txt += "def defaultSymmetric : Bool := %s\n" % str(bool(d["symmetric"])).lower()
    txt += "def liftDefaultsSame : Bool := %s\n" % str(T["lift_defaults_same"]).lower()
    txt += "/-- `_M(mix_pairs)`, `_M_inv(mix_pairs)` of the service; entry codes 0 ↦ 0, 1 ↦ 1, 2 ↦ h, 3 ↦ i·h, 4 ↦ −i·h (h = 1/√2) -/\n"
    txt += "def mixPairs : List Nat := %s\n" % _lean_list(T["mix_pairs"])
    txt += "def mCodes : List (List Nat) := %s\n" % _lean_list(_lean_list(r) for r in T["M"])
    txt += "def mInvCodes : List (List Nat) := %s\n" % _lean_list(_lean_list(r) for r in T["Minv"])
    txt += tr["lean"]
    txt += "\nend HitenModel.Gen.C09\n"
    ctx.write_gen("HitenModel.Gen.C09", txt)
    return T, tr


# ---------------------------------------------------------------------------------------------------------
# T-trace: _local2synodic_collinear / _synodic2local_collinear
# ---------------------------------------------------------------------------------------------------------

LS_VARS = ["c0", "c1", "c2", "c3", "c4", "c5", "gamma", "mu", "sgn", "a"]


def trace_local_synodic():
    """Run the current `_local2synodic_collinear`, `_synodic2local_collinear` on symbolic coordinates and a symbolic
    point (gamma, mu, sign, a); returns the Sym outputs and the Lean text."""
    import lean_emit as E
    import tracer as T
    h = hiten()
    TR = h["TR"]

    class _Arr(np.ndarray):
        @property
        def real(self):
            return self

        @property
        def imag(self):
            z = np.empty(self.shape, dtype=object)
            z.fill(T.Sym.const(0))
            return z.view(_Arr)

        def astype(self, *a, **k):
            return self.copy()

    class Shim(T.ShimNP):
        def asarray(self, x, dtype=None):
            r = super().asarray(x, None if dtype in (np.complex128, np.float64) else dtype)
            return r.view(_Arr) if isinstance(r, np.ndarray) and r.dtype == object else r

        def imag(self, x):
            return x.imag if isinstance(x, _Arr) else np.imag(x)

        def abs(self, x):
            if isinstance(x, np.ndarray) and x.dtype == object:
                return np.array([abs(float(T.Sym.lift(v).val)) for v in x.ravel()]).reshape(x.shape)
            return super().abs(x)

        def empty(self, shape, dtype=None):
            return super().empty(shape, None).view(_Arr)

    T.reset()
    vals = dict(c0=0.11, c1=-0.07, c2=0.05, c3=0.02, c4=-0.13, c5=0.03, gamma=0.15, mu=0.0121, sgn=-1.0, a=-0.85)
    sv = {n: T.Sym.var(n, vals[n]) for n in LS_VARS}

    class Dyn:
        gamma, sign, a = sv["gamma"], sv["sgn"], sv["a"]

    class Pt:
        mu = sv["mu"]
        dynamics = Dyn()

    coords = T.symarray([sv["c%d" % i] for i in range(6)]).view(_Arr)
    shim = Shim()
    f = T.retarget(TR._local2synodic_collinear, shim=shim)
    g = T.retarget(TR._synodic2local_collinear, shim=shim)
    syn = [T.Sym.lift(v) for v in f(Pt(), coords, 1e-14)]
    loc = [T.Sym.lift(v) for v in g(Pt(), coords, 1e-14)]
    idx = {n: i for i, n in enumerate(LS_VARS)}
    lean = "\n-- variables of l2s*/s2l*: 0..5 the six input coordinates, 6 gamma, 7 mu, 8 sign, 9 a\n"
    for i, s in enumerate(syn):
        lean += E.re_def("l2s%d" % i, s, idx)
    for i, s in enumerate(loc):
        lean += E.re_def("s2l%d" % i, s, idx)
    return {"syn": syn, "loc": loc, "vals": vals, "lean": lean}


def validate_traces(ctx, tr):
    """translation validation: the traced terms against the real functions on seeded random inputs"""
    import tracer as T
    h = hiten()
    TR = h["TR"]
    rng = ctx.rng
    n = 400 if ctx.thorough() else 200
    worst = 0.0

    class Dyn:
        pass

    class Pt:
        pass

    for _ in range(n):
        env = {"c%d" % i: rng.uniform(-0.5, 0.5) for i in range(6)}
        env.update(gamma=rng.uniform(0.01, 0.3), mu=rng.uniform(1e-6, 0.5), sgn=rng.choice([-1.0, 1.0]), a=rng.uniform(-1.3, 1.3))
        d = Dyn()
        d.gamma, d.sign, d.a = env["gamma"], env["sgn"], env["a"]
        p = Pt()
        p.mu, p.dynamics = env["mu"], d
        c = np.array([env["c%d" % i] for i in range(6)])
        real_syn = TR._local2synodic_collinear(p, c)
        real_loc = TR._synodic2local_collinear(p, c)
        cache = {}
        tsyn = np.array([T.evalf(s, env, cache) for s in tr["syn"]])
        tloc = np.array([T.evalf(s, env, cache) for s in tr["loc"]])
        e = max(float(np.max(np.abs(tsyn - real_syn) / (1 + np.abs(real_syn)))), float(np.max(np.abs(tloc - real_loc) / (1 + np.abs(real_loc)))))
        worst = max(worst, e)
        ctx.traces_validated += 2
    ctx.extra["trace_validation_worst_rel"] = worst
    if worst > 1e-12:
        ctx.broken.append(("trace-validation:local2synodic", "traced terms differ from the real functions by %.3e" % worst))
        ctx.obligations["trace-validation:local2synodic"] = False
    else:
        ctx.obligations["trace-validation:local2synodic"] = True


# ---------------------------------------------------------------------------------------------------------
# Tie 2: correspondence with the Lean model (exact)
# ---------------------------------------------------------------------------------------------------------

def fstr(q):
    q = Fraction(q)
    return str(q.numerator) if q.denominator == 1 else "%d/%d" % (q.numerator, q.denominator)


def vstr(v):
    return " ".join(fstr(Fraction(float(x))) for x in v)


class Recorder:
    """records what `solve_missing_coord` does on the real code: residual evaluations made by the routine itself
    (state handed to `_polynomial_evaluate`, value) and the call of the root finder (bracket, answer)"""

    def __init__(self):
        h = hiten()
        self.I = h["I"]
        self.orig_eval = self.I._polynomial_evaluate
        self.orig_brent = self.I.solve_bracketed_brent
        self.reset()

    def reset(self):
        self.evals, self.inner, self.brent, self.depth = [], [], [], 0

    def _eval(self, Hb, state, clmo):
        v = self.orig_eval(Hb, state, clmo)
        (self.inner if self.depth else self.evals).append((np.array(state), complex(v)))
        return v

    def _brent(self, f, a, b, **kw):
        self.depth += 1
        try:
            r = self.orig_brent(f, a, b, **kw)
        finally:
            self.depth -= 1
        self.brent.append((float(a), float(b), None if r is None else float(r), dict(kw)))
        return r

    def patch(self):
        return patched((self.I, "_polynomial_evaluate", self._eval), (self.I, "solve_bracketed_brent", self._brent))


def poly_exact(d, state):
    """exact value of the dict polynomial at a float state"""
    z = [Fraction(float(np.real(v))) for v in state]
    s = Fraction(0)
    for k, c in d.items():
        t = Fraction(c)
        for zi, ki in zip(z, k):
            t *= zi ** ki
        s += t
    return s


def rand_poly(rng, solve_idx, kind):
    """scripted Hamiltonian {(k0..k5): dyadic coeff}; `kind` steers which branch of the solve is reached"""
    d = {}

    def add(k, c):
        if c != 0:
            d[tuple(k)] = d.get(tuple(k), Fraction(0)) + Fraction(c)

    e = [0] * 6
    # terms in the other variables
    for _ in range(rng.randint(1, 4)):
        k = [0] * 6
        for _ in range(rng.randint(1, 3)):
            j = rng.randrange(6)
            if j != solve_idx:
                k[j] += 1
        if sum(k):
            add(k, Fraction(rng.randint(-8, 8), 8))
    kx = list(e)
    if kind in ("up", "brentnone"):
        kx[solve_idx] = 2
        add(kx, Fraction(rng.choice([1, 2, 4, 3]), rng.choice([1, 2, 4])))
        if rng.random() < 0.5:
            k4 = list(e)
            k4[solve_idx] = rng.choice([3, 4])
            add(k4, Fraction(rng.choice([1, 2, 3]), 8))
        if rng.random() < 0.5:   # mixed term
            km = list(e)
            km[solve_idx] = 1
            km[(solve_idx + rng.randint(1, 5)) % 6] += 1
            add(km, Fraction(rng.randint(-4, 4), 4))
    elif kind == "down":          # positive only for negative x
        kx[solve_idx] = 1
        add(kx, -Fraction(rng.choice([1, 2, 4]), rng.choice([1, 2])))
    elif kind == "nosign":        # never positive in x
        if rng.random() < 0.5:
            kx[solve_idx] = 2
            add(kx, -Fraction(rng.choice([1, 2]), rng.choice([1, 2, 4])))
    elif kind == "pos0":
        kx[solve_idx] = 2
        add(kx, Fraction(1, 2))
    return d


def real_blocks(d, max_deg=4):
    import polyutil
    psi, clmo, enc = polyutil.tables(max_deg)
    return polyutil.poly_from_dict({k: complex(float(c)) for k, c in d.items()}, max_deg), clmo


def corr_solve_cases(ctx):
    rng = ctx.rng
    n = 260 if ctx.thorough() else 90
    cases = []
    kinds = ["up", "up", "up", "down", "nosign", "pos0", "brentnone"]
    for i in range(n):
        kind = kinds[i % len(kinds)]
        unknown = rng.random() < 0.06
        var = rng.choice(["zz", "Q2", "q4", ""]) if unknown else rng.choice(NAMES)
        sidx = NAMES.index(var) if var in NAMES else 1
        d = rand_poly(rng, sidx, kind)
        fixed = []
        for nm in rng.sample(NAMES, rng.randint(0, 5)):
            fixed.append((nm, Fraction(rng.randint(-8, 8), 4)))
        if rng.random() < 0.15:
            fixed.append(("foo", Fraction(3)))          # a key outside var_indices is ignored by the code
        if rng.random() < 0.2 and var in NAMES:
            fixed.append((var, Fraction(5, 4)))         # overwritten by the trial value
        rng.shuffle(fixed)
        guess = rng.choice([Fraction(1, 1024), Fraction(1, 8), Fraction(1), Fraction(3, 4), Fraction(1, 64)])
        factor, maxe = rng.choice([(Fraction(2), 16), (Fraction(2), 3), (Fraction(2), 0), (Fraction(4), 6), (Fraction(1), 40),
                                   (Fraction(1, 2), 3), (Fraction(3, 2), 3), (Fraction(2), 12), (Fraction(2), 1)])
        while guess * factor ** maxe > 64:
            maxe -= 1
        sym = rng.random() < (0.8 if kind in ("down", "nosign") else 0.3)
        base = poly_exact(d, [float(v) if NAMES[j] != var else 0.0 for j, v in enumerate(_state_of(fixed, var))])
        if kind == "pos0":
            h0 = base - Fraction(rng.randint(1, 8), 8)
        else:
            h0 = base + Fraction(rng.randint(0, 24), 8) * rng.choice([1, 1, Fraction(1, 16)])
        cases.append(dict(kind=kind, var=var, poly=d, fixed=fixed, h0=h0, guess=guess, factor=factor, maxe=maxe, sym=sym,
                          brent_none=(kind == "brentnone")))
    return cases


def _state_of(fixed, var):
    st = [Fraction(0)] * 6
    for nm, v in fixed:
        if nm in NAMES:
            st[NAMES.index(nm)] = v
    return st


def poly_line(d, h0):
    toks = ["poly", fstr(h0)]
    for k, c in d.items():
        toks.append(fstr(c))
        toks += [str(x) for x in k]
    return " ".join(toks)


def corr_solve(ctx, iface):
    """solve_missing_coord on scripted dyadic Hamiltonians: result, bracket, query points, residual values — exact"""
    h = hiten()
    I = h["I"]
    rec = Recorder()
    cases = corr_solve_cases(ctx)
    lines, expect, owners = [], [], []
    skipped = 0
    for c in cases:
        Hb, clmo = real_blocks(c["poly"])
        rec.reset()
        fixed = {nm: float(v) for nm, v in c["fixed"]}
        orig_brent = rec.orig_brent
        if c["brent_none"]:
            rec.orig_brent = lambda f, a, b, **kw: None      # the root finder gives up (oracle answer `None`)
        try:
            with rec.patch():
                try:
                    out = iface.solve_missing_coord(c["var"], fixed, h0=float(c["h0"]), H_blocks=Hb, clmo_table=clmo,
                                                    initial_guess=float(c["guess"]), expand_factor=float(c["factor"]),
                                                    max_expand=c["maxe"], symmetric=c["sym"], xtol=1e-12)
                    res = "none" if out is None else fstr(Fraction(float(out)))
                except I.BackendError:
                    res = "error"
        finally:
            rec.orig_brent = orig_brent
        # float exactness of the polynomial evaluations that steer the control flow (a-posteriori filter)
        exact = all(Fraction(v.real) == poly_exact(c["poly"], st) and v.imag == 0 for st, v in rec.evals)
        kindkey = "solve:%s:%s%s" % (c["kind"], res if res in ("none", "error") else "root", ":sym" if c["sym"] else "")
        ctx.case(("solve", c["kind"], c["var"], res in ("none", "error"), c["sym"], str(c["factor"]), c["maxe"], len(rec.evals)),
                 nontrivial=len(rec.evals) >= 2, kind=kindkey,
                 sample={"call": "solve_missing_coord", "var": c["var"], "h0": str(c["h0"]), "result": res,
                         "evaluations": len(rec.evals)} if len(ctx.samples) < 3 else None)
        if not exact:
            skipped += 1
            continue
        si = NAMES.index(c["var"]) if c["var"] in NAMES else None
        q = [] if si is None else [Fraction(float(st[si].real)) for st, _ in rec.evals]
        r = [Fraction(v.real) - c["h0"] for _, v in rec.evals]
        br = rec.brent[0] if rec.brent else None
        # oracle contract of the root finder on the real run (hypothesis hB of solve_root_bracketed)
        if br and br[2] is not None and not (min(br[0], br[1]) <= br[2] <= max(br[0], br[1])):
            viol(ctx, "brent-outside-bracket", "solve_bracketed_brent returned a point outside its bracket",
                          {"kind": "brent", "bracket": br[:2], "root": br[2]})
        lines.append(poly_line(c["poly"], c["h0"]))
        lines.append("params %s %s %d %d" % (fstr(c["guess"]), fstr(c["factor"]), c["maxe"], 1 if c["sym"] else 0))
        lines.append("brent " + ("none" if (br is None or br[2] is None) else fstr(Fraction(br[2]))))
        lines.append("solve %s %s" % (c["var"] if c["var"] else "_", " ".join("%s=%s" % (nm, fstr(v)) for nm, v in c["fixed"] if nm in NAMES)))
        expect.append(["res " + res,
                       "bracket " + ("none" if br is None else "%s %s" % (fstr(Fraction(br[0])), fstr(Fraction(br[1])))),
                       ("queries " + " ".join(fstr(x) for x in q)),
                       ("resid " + " ".join(fstr(x) for x in r))])
        owners.append(c)
    ctx.hist["solve:skipped-inexact-float"] = skipped
    return lines, expect, owners


def corr_lift(ctx, iface):
    """lift_plane_point / build_state / _to_real_4d_cm (fake service object, real function body) on scripted Hamiltonians"""
    h = hiten()
    from hiten.algorithms.types.services import maps as MP
    import types as _types
    rng = ctx.rng
    rec = Recorder()
    n = 120 if ctx.thorough() else 48
    lines, expect, owners = [], [], []
    skipped = 0
    for i in range(n):
        sc = SECS[i % 4]
        miss = {"q3": "p3", "p3": "q3", "q2": "p2", "p2": "q2"}[sc]
        kind = ["up", "up", "up", "pos0", "nosign", "brentnone"][(i // 4) % 6]
        d = rand_poly(rng, NAMES.index(miss), kind)
        # make the Hamiltonian depend on the section coordinate as well: a correct lift never sees a non-zero value there
        ks = [0] * 6
        ks[NAMES.index(sc)] = 1
        d[tuple(ks)] = d.get(tuple(ks), Fraction(0)) + Fraction(rng.choice([1, 2, -3]), 2)
        plane = (Fraction(rng.randint(-6, 6), 8), Fraction(rng.randint(-6, 6), 8))
        guess = rng.choice([Fraction(1, 1024), Fraction(1, 8), Fraction(1, 64)])
        factor, maxe = rng.choice([(Fraction(2), 14), (Fraction(4), 5), (Fraction(2), 2)])
        sym = rng.random() < 0.25
        st0 = [Fraction(0)] * 6
        pc = ("q2", "p2") if sc in ("q3", "p3") else ("q3", "p3")
        st0[NAMES.index(pc[0])], st0[NAMES.index(pc[1])] = plane
        base = poly_exact(d, [float(v) for v in st0])
        h0 = base - Fraction(1, 4) if kind == "pos0" else base + Fraction(rng.randint(0, 20), 8) * rng.choice([1, Fraction(1, 16)])
        Hb, clmo = real_blocks(d)
        rec.reset()
        orig_brent = rec.orig_brent
        if kind == "brentnone":
            rec.orig_brent = lambda f, a, b, **kw: None
        try:
            with rec.patch():
                out = iface.lift_plane_point((float(plane[0]), float(plane[1])), section_coord=sc, h0=float(h0), H_blocks=Hb,
                                             clmo_table=clmo, initial_guess=float(guess), expand_factor=float(factor),
                                             max_expand=maxe, symmetric=sym, xtol=1e-12)
        finally:
            rec.orig_brent = orig_brent
        exact = all(Fraction(v.real) == poly_exact(d, st) and v.imag == 0 for st, v in rec.evals)
        ctx.case(("lift", sc, kind, out is None, sym, len(rec.evals)), nontrivial=out is not None,
                 kind="lift:%s:%s" % (sc, "none" if out is None else "state"))
        if not exact:
            skipped += 1
            continue
        # direct clause checks on the real output (failing-input search, model-independent)
        if out is not None:
            direct_lift_checks(ctx, d, h0, sc, plane, out, rec, "lift_plane_point")
        si = NAMES.index(miss)
        q = [Fraction(float(st[si].real)) for st, _ in rec.evals]
        r = [Fraction(v.real) - h0 for _, v in rec.evals]
        br = rec.brent[0] if rec.brent else None
        lines.append(poly_line(d, h0))
        lines.append("params %s %s %d %d" % (fstr(guess), fstr(factor), maxe, 1 if sym else 0))
        lines.append("brent " + ("none" if (br is None or br[2] is None) else fstr(Fraction(br[2]))))
        lines.append("lift %s %s %s" % (sc, fstr(plane[0]), fstr(plane[1])))
        ls = "none" if out is None else vstr(out)
        expect.append(["lift " + ls, "real4d " + ("error" if out is None else ls), None,
                       "bracket " + ("none" if br is None else "%s %s" % (fstr(Fraction(br[0])), fstr(Fraction(br[1])))),
                       "queries " + " ".join(fstr(x) for x in q), "resid " + " ".join(fstr(x) for x in r)])
        owners.append(dict(call="lift_plane_point", sc=sc, plane=[str(p) for p in plane], h0=str(h0), poly={str(k): str(v) for k, v in d.items()}))
    ctx.hist["lift:skipped-inexact-float"] = skipped
    return lines, expect, owners


def direct_lift_checks(ctx, d, h0, sc, plane, out, rec, where):
    """property clauses on a real lifted point: section coordinate exactly 0, plane coordinates kept, the solved
    coordinate inside the bracket, |H - h0| explained by the root-finder tolerance"""
    out = [float(v) for v in out]
    si = SECS.index(sc)
    pc = (2, 3) if sc in ("q2", "p2") else (0, 1)
    rp = {"kind": "lift", "where": where, "section_coord": sc, "plane": [str(p) for p in plane], "h0": str(h0),
          "poly": {str(k): str(v) for k, v in d.items()}, "observed": out}
    if out[si] != 0.0:
        viol(ctx, "lift:section-coordinate-nonzero:%s" % sc, "lifted point is not on the section (coordinate %s = %r)" % (sc, out[si]), rp)
    if (Fraction(out[pc[0]]), Fraction(out[pc[1]])) != tuple(plane):
        viol(ctx, "lift:plane-coordinates-changed:%s" % sc, "lifted point does not keep the plane coordinates", rp)
    six = [0.0, out[0], out[2], 0.0, out[1], out[3]]
    err = poly_exact(d, six) - h0
    br = rec.brent[0] if rec.brent else None
    if br is not None and br[2] is not None:
        # |H - h0| at the returned point must be what the root finder left: compare with its own last residual scale
        lo, hi = min(br[0], br[1]), max(br[0], br[1])
        miss = {"q3": 3, "p3": 2, "q2": 1, "p2": 0}[sc]
        if not (lo <= out[miss] <= hi):
            viol(ctx, "lift:solved-outside-bracket:%s" % sc, "solved coordinate outside the sign-change bracket", rp)
        # slope bound on the bracket from exact evaluations at the bracket ends
        xt = br[3].get("xtol", 1e-12)
        gl = abs(float(err))
        # Lipschitz constant of the residual on the bracket (crude, exact polynomial): max |dH/dx| <= sum |c| k |x|^(k-1) ...
        L = 0.0
        mi = NAMES.index({"q3": "p3", "p3": "q3", "q2": "p2", "p2": "q2"}[sc])
        xm = max(abs(lo), abs(hi), 1e-300)
        for k, c in d.items():
            if k[mi] == 0:
                continue
            t = abs(float(c)) * k[mi] * xm ** (k[mi] - 1)
            for j, kj in enumerate(k):
                if j != mi and kj:
                    t *= abs(six[j]) ** kj
            L += t
        if gl > 4 * (xt + 4e-16 * xm) * L + 1e-13 * (1 + abs(float(h0))):
            viol(ctx, "lift:off-energy-level:%s" % sc, "lifted point misses the energy level: |H-h0| = %.3e" % gl, dict(rp, H_minus_h0=gl))


def corr_routing(ctx, iface):
    """build_state, enforce_section_coordinate, plane_points_from_states, slot placement / read-back (public API)"""
    h = hiten()
    I, SC = h["I"], h["SC"]
    rng = ctx.rng
    cm = get_cm("EM", 1, 4)[2]
    lines, expect, owners = [], [], []
    n = 40 if ctx.thorough() else 16

    def dy():
        return Fraction(rng.randint(-40, 40), rng.choice([1, 2, 8, 64]))

    for i in range(n):
        sc = SECS[i % 4]
        v = [dy() for _ in range(6)]
        out = I._CenterManifoldSectionInterface.build_state(sc, (float(v[0]), float(v[1])), (float(v[2]), float(v[3])))
        lines.append("build %s %s" % (sc, " ".join(fstr(x) for x in v[:4])))
        expect.append(["state " + vstr(out)])
        owners.append(dict(call="build_state", sc=sc, v=[str(x) for x in v[:4]]))
        rows = np.array([[float(x) for x in v[:4]], [float(x) for x in v[2:6]]])
        enf = iface.enforce_section_coordinate(rows, section_coord=sc)
        pts = iface.plane_points_from_states(rows, section_coord=sc)
        for r in range(2):
            lines.append("enforce %s %s" % (sc, vstr(rows[r])))
            expect.append(["row " + vstr(enf[r])])
            owners.append(dict(call="enforce_section_coordinate", sc=sc, row=rows[r].tolist()))
            lines.append("plane %s %s" % (sc, vstr(rows[r])))
            expect.append(["pt " + vstr(pts[r])])
            owners.append(dict(call="plane_points_from_states", sc=sc, row=rows[r].tolist()))
            if enf[r][SECS.index(sc)] != 0.0:
                viol(ctx, "enforce:section-coordinate-nonzero:%s" % sc, "enforce_section_coordinate leaves a non-zero section coordinate",
                              {"kind": "enforce", "section_coord": sc, "row": rows[r].tolist(), "observed": enf[r].tolist()})
        ctx.case(("routing", sc, i), nontrivial=True, kind="routing:" + sc)

        def cap(z, **kw):
            raise _Stop(np.array(z))

        with patched((SC, "_solve_complex", cap)):
            try:
                cm.to_synodic(np.array([float(x) for x in v[:4]]))
                six = None
            except _Stop as e:
                six = e.args[0]
        lines.append("place " + " ".join(fstr(x) for x in v[:4]))
        expect.append(["six " + ("<no call>" if six is None else vstr(np.real(six)))])
        owners.append(dict(call="to_synodic(pt4) -> _solve_complex input", v=[str(x) for x in v[:4]]))
        z = np.array([complex(float(x)) for x in v])
        with patched((SC, "_solve_real", lambda zz, **kw: z)):
            back = cm.to_cm(np.array([0.83, 0.01, 0.0, 0.0, 0.02, 0.0]))
        lines.append("read " + " ".join(fstr(x) for x in v))
        expect.append(["four " + vstr(back)])
        owners.append(dict(call="to_cm <- _solve_real output", v=[str(x) for x in v]))
    return lines, expect, owners


def corr_public_section(ctx):
    """the public `to_synodic(pt2, energy, section_coord)` / `_to_real_4d_cm` on real centre manifolds: the energy
    solve is replayed through the model with the residual values recorded from the real run (oracle table)"""
    h = hiten()
    SC = h["SC"]
    rng = ctx.rng
    rec = Recorder()
    lines, expect, owners = [], [], []
    cfgs = [("EM", 1, 4), ("EM", 2, 5)] + ([("EM", 1, 6)] if ctx.thorough() else [])
    per = 12 if ctx.thorough() else 8
    for cfg in cfgs:
        system, point, cm = get_cm(*cfg)
        ham = cm.hamiltonian(cfg[2])
        for i in range(per):
            sc = SECS[i % 4]
            h0 = rng.uniform(0.02, 0.12) if i % 5 else rng.uniform(-0.05, -0.001)   # negative level: residual(0) > 0
            rad = rng.uniform(0.0, 0.12)
            th = rng.uniform(0, 2 * math.pi)
            pt = (rad * math.cos(th), rad * math.sin(th))
            if i % 7 == 6:
                pt = (0.45, 0.3)        # far outside the level set: residual(0) > 0 -> None -> RuntimeError
            mp = cm.poincare_map(h0)
            rec.reset()
            with rec.patch():
                try:
                    p4 = mp.dynamics._to_real_4d_cm(np.array(pt), sc)
                    p4s = vstr(p4)
                except RuntimeError:
                    p4 = None
                    p4s = "error"

            def cap(z, **kw):
                raise _Stop(np.array(z))

            with patched((SC, "_solve_complex", cap)):
                try:
                    cm.to_synodic(np.array(pt), energy=h0, section_coord=sc)
                    six = "<no call>"
                except _Stop as e:
                    six = vstr(np.real(e.args[0]))
                except RuntimeError:
                    six = "error"
            mi = {"q3": "p3", "p3": "q3", "q2": "p2", "p2": "q2"}[sc]
            si = NAMES.index(mi)
            table = []
            for st, v in rec.evals:
                table += [fstr(Fraction(float(st[si].real))), fstr(Fraction(v.real) - Fraction(h0))]
            br = rec.brent[0] if rec.brent else None
            d = hiten()["I"]
            defaults = inspect.signature(d._CenterManifoldInterface.lift_plane_point).parameters
            lines.append("table " + " ".join(table))
            lines.append("params %s %s %d %d" % (fstr(Fraction(defaults["initial_guess"].default)), fstr(Fraction(defaults["expand_factor"].default)),
                                                 defaults["max_expand"].default, 1 if defaults["symmetric"].default else 0))
            lines.append("brent " + ("none" if (br is None or br[2] is None) else fstr(Fraction(br[2]))))
            lines.append("tlift %s %s %s" % (sc, fstr(Fraction(pt[0])), fstr(Fraction(pt[1]))))
            expect.append([None, "real4d " + p4s, "six " + six,
                           "bracket " + ("none" if br is None else "%s %s" % (fstr(Fraction(br[0])), fstr(Fraction(br[1])))),
                           "queries " + " ".join(table[0::2]), "resid " + " ".join(table[1::2])])
            owners.append(dict(call="_to_real_4d_cm / to_synodic(pt2)", system=cfg[0], point="L%d" % cfg[1], degree=cfg[2], sc=sc,
                               plane=list(pt), energy=h0))
            ctx.case(("public-section", cfg, sc, p4 is None, len(rec.evals)), nontrivial=p4 is not None,
                     kind="public-section:%s:%s" % (sc, "error" if p4 is None else "state"),
                     sample={"call": "to_synodic(pt2, energy, section_coord)", "section_coord": sc, "energy": h0, "plane": list(pt),
                             "cm_point": None if p4 is None else list(map(float, p4))} if len(ctx.samples) < 6 else None)
    return lines, expect, owners


def correspondence(ctx):
    h = hiten()
    iface = h["I"]._CenterManifoldInterface()
    groups = [("solve_missing_coord", corr_solve, 4), ("lift_plane_point", corr_lift, 6), ("routing", corr_routing, 1)]
    all_lines, plan = [], []
    for name, fn, per in groups:
        lines, expect, owners = fn(ctx, iface)
        all_lines += lines
        plan.append((name, expect, owners))
    lines, expect, owners = corr_public_section(ctx)
    all_lines += lines
    plan.append(("public-section", expect, owners))
    out = [l for l in ctx.lean_run("Drivers/C09.lean", "\n".join(all_lines) + "\n") if l.strip() != "" or True]
    # keep empty-payload lines such as "queries " (strip only the trailing newline artefacts)
    out = [l.rstrip() for l in out]
    while out and out[-1] == "":
        out.pop()
    pos = 0
    for name, expect, owners in plan:
        bad = None
        n_ok = 0
        for exp, owner in zip(expect, owners):
            block = out[pos:pos + len(exp)]
            pos += len(exp)
            for e, m in zip(exp, block + ["<missing>"] * (len(exp) - len(block))):
                if e is None:
                    continue
                if e.rstrip() != m.rstrip():
                    if bad is None:
                        bad = (owner, e, m)
                    break
            else:
                n_ok += 1
        ctx.corr_cases += len(expect)
        key = "correspondence:" + name
        if bad is None:
            ctx.obligations[key] = True
            ctx.log("%s: %d cases agree exactly" % (key, n_ok))
        else:
            ctx.obligations[key] = False
            owner, e, m = bad
            ctx.broken.append((key, "model and code disagree (%d of %d agree); first: real %r vs model %r on %s" % (
                n_ok, len(expect), e[:300], m[:300], json_safe(owner))))
            ctx.log("%s: DISAGREE real=%r model=%r" % (key, e[:200], m[:200]))
    if pos != len(out):
        ctx.log("driver produced %d lines, consumed %d" % (len(out), pos))


def json_safe(o):
    import json
    try:
        return json.dumps(o, default=str)[:500]
    except Exception:
        return str(o)[:500]


# ---------------------------------------------------------------------------------------------------------
# numerics on the real pipeline (validation of the chain links + failing-input search)
# ---------------------------------------------------------------------------------------------------------

def place(p):
    z = np.zeros(6, dtype=np.complex128)
    z[1], z[4], z[2], z[5] = p
    return z


def memo_expansions(cm):
    """memoise the (pure, expensive) `pipeline.get_lie_expansions` of this object for the many-point sweeps; the first
    point of every sweep is converted without the memo and compared bit for bit"""
    pl = cm.dynamics.pipeline
    if getattr(pl, "_c09_memo", None) is not None:
        return
    orig = pl.get_lie_expansions
    memo = {}

    def get(inverse=False, tol=1e-16):
        k = (bool(inverse), float(tol))
        if k not in memo:
            memo[k] = orig(inverse=inverse, tol=tol)
        return memo[k]

    pl._c09_memo = (orig, memo)
    pl.get_lie_expansions = get


def unmemo(cm):
    pl = cm.dynamics.pipeline
    if getattr(pl, "_c09_memo", None) is not None:
        del pl.get_lie_expansions
        pl._c09_memo = None


def measure_point(cm, ham, point, mu, EL, p):
    """(round-trip error, energy discrepancy, synodic state) of one centre-manifold point on the real code"""
    h = hiten()
    gamma = point.dynamics.gamma
    s = cm.to_synodic(np.array(p, dtype=float))
    b = cm.to_cm(s)
    rt = float(np.max(np.abs(np.asarray(b) - np.asarray(p))))
    Hcm = complex(ham(place(p))).real
    E = float(h["crtbp_energy"](s, mu))
    en = abs((E - EL) / gamma ** 2 - Hcm)
    return rt, en, s


def fit_slope(rs, es):
    x = np.log(np.asarray(rs))
    y = np.log(np.asarray(es))
    A = np.vstack([x, np.ones_like(x)]).T
    sl, ic = np.linalg.lstsq(A, y, rcond=None)[0]
    return float(sl), float(ic)


R0 = 0.4
EPS = 2.220446049250313e-16


def floors(point, EL):
    """scale-aware rounding floors (100 x the rounding noise) of the two discrepancies: the synodic state carries ~eps
    absolute error which `_synodic2local` divides by gamma; the energy difference E - E_L carries ~eps*|E_L| which is divided
    by gamma^2.  (EM L1: 1.5e-13, 1.5e-12.)"""
    g = float(point.dynamics.gamma)
    return 100 * EPS * max(1.0, 1.0 / g), 100 * EPS * max(1.0, abs(EL)) / g ** 2


def radii(N):
    ratio = 2 ** -0.5 if N <= 6 else 2 ** -0.25
    return [R0 * ratio ** j for j in range(16 if N <= 6 else 20)]


def ray_errors(ctx, cfg, u):
    """round-trip error and energy discrepancy on the real code along the ray r*u (r decreasing until both are below the
    rounding floor)"""
    h = hiten()
    system, point, cm = get_cm(*cfg)
    N = cfg[2]
    mu = system.mu
    EL = float(h["crtbp_energy"](np.r_[point.position, 0.0, 0.0, 0.0], mu))
    ham = cm.hamiltonian(N)
    RT_FLOOR, EN_FLOOR = floors(point, EL)
    rts, ens = [], []
    for j, r in enumerate(radii(N)):
        p = [r * x for x in u]
        if j == 0:
            unmemo(cm)
            first = measure_point(cm, ham, point, mu, EL, p)
            memo_expansions(cm)
        rt, en, s = measure_point(cm, ham, point, mu, EL, p)
        if j == 0 and not (first[0] == rt and first[1] == en and np.array_equal(first[2], s)):
            viol(ctx, "to_synodic-not-reproducible", "two identical conversions differ", {"kind": "scaling", "cfg": list(cfg), "dirs": [list(u)], "r": r})
        rts.append(rt)
        ens.append(en)
        if rt < RT_FLOOR and en < EN_FLOOR and j >= 2:
            break
    return rts, ens


def envelope_fit(N, rs, es, floor):
    """asymptotic exponent of the envelope e(r) = max over directions: least squares over the three smallest radii whose
    error is still above the rounding floor (err / r^(N+1) tends to its limit from below or above as r -> 0, and along a
    single direction it may even change sign at moderate r, hence the envelope and the smallest measurable radii)"""
    sel = [(a, b) for a, b in zip(rs, es) if b >= floor]
    if len(sel) < 3:
        sel = list(zip(rs, es))[:3]
    tail = sel[-3:]
    sl = fit_slope([a for a, _ in tail], [max(b, 1e-300) for _, b in tail])[0]
    return {"exponent": sl, "exponent_all": fit_slope([a for a, _ in sel], [max(b, 1e-300) for _, b in sel])[0],
            "const": max(b / a ** (N + 1) for a, b in sel), "points": len(sel), "tail_radii": [a for a, _ in tail]}


def scaling_cfg(ctx, cfg, dirs):
    N = cfg[2]
    rs = radii(N)
    per = [ray_errors(ctx, cfg, u) for u in dirs]
    n = max(len(p[0]) for p in per)
    env = {"round_trip": [max((p[0][j] if j < len(p[0]) else 0.0) for p in per) for j in range(n)],
           "energy": [max((p[1][j] if j < len(p[1]) else 0.0) for p in per) for j in range(n)]}
    res = {"cfg": list(cfg), "dirs": [list(u) for u in dirs], "r": rs[:n], "round_trip": env["round_trip"], "energy": env["energy"]}
    system, point, cm = get_cm(*cfg)
    EL = float(hiten()["crtbp_energy"](np.r_[point.position, 0.0, 0.0, 0.0], system.mu))
    RT_FLOOR, EN_FLOOR = floors(point, EL)
    res["floors"] = [RT_FLOOR, EN_FLOOR]
    res["fit"] = {"round_trip": envelope_fit(N, rs[:n], env["round_trip"], RT_FLOOR), "energy": envelope_fit(N, rs[:n], env["energy"], EN_FLOOR)}
    return res


def margin(N):
    """admissible deficit of the fitted exponent.  err / r^(N+1) = a (1 - r/r* + ...) approaches its limit slowly (r* ~ 0.2..0.5
    on these manifolds), and the error reaches the rounding floor at r ~ 0.01 (N=4), 0.035 (N=6), 0.15 (N=8): the smaller N,
    the deeper into the asymptotic regime the three smallest measurable radii lie.  Observed worst deficits on the unchanged
    tree: 0.04 (N<=5), 0.4 (N=6), 0.2 (N=7..10, pre-asymptotic but the envelope happens to be regular).  Margins 0.5 / 1.0 / 1.5
    leave >= 2.5x headroom; a wrong link gives exponents 0..3, a series truncated one degree early gives N (caught at N = 4, 5)."""
    return 0.5 if N <= 5 else (1.0 if N == 6 else 1.5)


def judge_scaling(ctx, res):
    cfg = tuple(res["cfg"])
    N = cfg[2]
    for name in ("round_trip", "energy"):
        f = res["fit"][name]
        ctx.case(("scaling", str(cfg), name), nontrivial=f["points"] >= 3, kind="scaling:%s:N%d" % (name, N),
                 sample={"call": "to_synodic/to_cm", "system": str(cfg[0]), "point": "L%d" % cfg[1], "degree": N, "directions": len(res["dirs"]),
                         "radii": res["r"], name: res[name], "fitted_exponent": f["exponent"]} if len(ctx.samples) < 10 else None)
        if not f["exponent"] >= N + 1 - margin(N):
            viol(ctx, "scaling:%s:L%d" % (name, cfg[1]),
                          "%s discrepancy does not vanish like r^(N+1): fitted exponent %.2f < %g (N=%d, %s L%d)" % (
                              name, f["exponent"], N + 1 - margin(N), N, cfg[0], cfg[1]),
                          {"kind": "scaling", "cfg": list(cfg), "dirs": res["dirs"], "radii": res["r"], "observed": res[name],
                           "fitted_exponent": f["exponent"], "expected": "exponent >= %g" % (N + 1 - margin(N))})


def scaling(ctx):
    rng = ctx.rng
    if ctx.thorough():
        cfgs = [("EM", lk, N) for lk in (1, 2) for N in (4, 5, 6, 7, 8)] + [("EM", 1, 10)]
        mus = [10 ** rng.uniform(-3.2, -1.0), 10 ** rng.uniform(-5.5, -3.2)]
        cfgs += [(("mu", mus[0]), 1, 6), (("mu", mus[0]), 2, 5), (("mu", mus[1]), 2, 6), (("mu", mus[1]), 1, 4)]
        ndir = 6
    else:
        # quick: one degree per collinear point (which point gets which degree depends on the seed) + one seeded mass parameter;
        # every conversion costs ~1-2 s on the real pipeline, degree 6 and the full point x degree grid are in the thorough tier
        lk = 1 + ctx.seed % 2
        cfgs = [("EM", lk, 4), ("EM", 3 - lk, 5)]
        mu = 10 ** rng.uniform(-3.2, -1.0)
        cfgs += [(("mu", mu), rng.choice([1, 2]), 4)]
        ndir = 3
    consts = {}
    table = []
    for cfg in cfgs:
        t = time.time()
        dirs = []
        for k in range(ndir):
            if k % 2 == 0:
                u = [rng.gauss(0, 1) for _ in range(4)]
            else:   # axis-dominated directions: planar / vertical families
                u = [rng.gauss(0, 0.15) for _ in range(4)]
                u[rng.randrange(4)] += 1.0
            nu = math.sqrt(sum(x * x for x in u))
            dirs.append([x / nu for x in u])
        try:
            res = scaling_cfg(ctx, cfg, dirs)
        except Exception as e:   # a conversion that raises on a point inside the domain is a failing input
            viol(ctx, "conversion-raises:%s" % type(e).__name__, "to_synodic/to_cm raised %r" % (e,),
                          {"kind": "scaling", "cfg": list(cfg), "dirs": dirs})
            continue
        judge_scaling(ctx, res)
        consts[cfg] = {"round_trip": res["fit"]["round_trip"]["const"], "energy": res["fit"]["energy"]["const"]}
        table.append({"cfg": str(cfg), "rt_exp": round(res["fit"]["round_trip"]["exponent"], 2), "en_exp": round(res["fit"]["energy"]["exponent"], 2),
                      "rt_exp_all_radii": round(res["fit"]["round_trip"]["exponent_all"], 2), "en_exp_all_radii": round(res["fit"]["energy"]["exponent_all"], 2),
                      "rt_max": max(res["round_trip"]), "en_max": max(res["energy"]), "points": [res["fit"]["round_trip"]["points"], res["fit"]["energy"]["points"]],
                      "radii": res["r"], "round_trip_envelope": res["round_trip"], "energy_envelope": res["energy"], "floors": res["floors"],
                      "directions": res["dirs"]})
        ctx.log("scaling %s: round trip %.2f, energy %.2f (expected %d; %d directions, %.1fs)" % (
            str(cfg), table[-1]["rt_exp"], table[-1]["en_exp"], cfg[2] + 1, ndir, time.time() - t))
    ctx.extra["scaling_fits"] = table
    return consts


def section_numerics(ctx, consts):
    """Converting a section point at a prescribed energy: on the energy level, on the section (real pipeline)."""
    h = hiten()
    rng = ctx.rng
    cfgs = [c for c in consts if c[0] == "EM" and c[2] in ((5, 6, 8) if ctx.thorough() else (5, 6))]
    per = 3 if ctx.thorough() else 2
    worst = {"energy_level_ratio": 0.0, "H_minus_h0": 0.0}
    for cfg in cfgs:
        system, point, cm = get_cm(*cfg)
        N = cfg[2]
        mu = system.mu
        gamma = point.dynamics.gamma
        EL = float(h["crtbp_energy"](np.r_[point.position, 0.0, 0.0, 0.0], mu))
        ham = cm.hamiltonian(N)
        memo_expansions(cm)
        for sc in SECS:
            for _ in range(per):
                h0 = rng.uniform(0.01, 0.09)
                pc = (0, 1) if sc in ("q3", "p3") else (2, 3)
                th = rng.uniform(0, 2 * math.pi)
                rad = 0.2
                while True:   # a plane point strictly inside the level set (admissible energy)
                    p = [0.0] * 4
                    p[pc[0]], p[pc[1]] = rad * math.cos(th), rad * math.sin(th)
                    if complex(ham(place(p))).real < 0.7 * h0 or rad < 1e-4:
                        break
                    rad *= 0.8
                pt = np.array([p[pc[0]], p[pc[1]]])
                section_check(ctx, cfg, cm, ham, point, mu, gamma, EL, consts[cfg], sc, h0, pt, worst)
    ctx.extra["section_worst"] = worst
    ctx.log("section conversion: worst |H_cm-h0| = %.2e, worst synodic-energy discrepancy / bound = %.3f" % (worst["H_minus_h0"], worst["energy_level_ratio"]))


def section_check(ctx, cfg, cm, ham, point, mu, gamma, EL, const, sc, h0, pt, worst=None):
    h = hiten()
    N = cfg[2]
    si = SECS.index(sc)
    pc = (0, 1) if sc in ("q3", "p3") else (2, 3)
    RT_FLOOR, EN_FLOOR = floors(point, EL)
    rp = {"kind": "section", "cfg": list(cfg), "section_coord": sc, "energy": h0, "plane_point": [float(pt[0]), float(pt[1])]}
    try:
        s = cm.to_synodic(pt, energy=h0, section_coord=sc)
        p4 = cm.poincare_map(h0).dynamics._to_real_4d_cm(pt, sc)
    except Exception as e:
        viol(ctx, "section:raises:%s" % sc, "section conversion raised %r for an admissible energy" % (e,), rp)
        return
    ctx.case(("section", str(cfg), sc, round(h0, 4)), nontrivial=True, kind="section:%s:N%d" % (sc, N))
    rp["cm_point"] = [float(x) for x in p4]
    rp["synodic"] = [float(x) for x in s]
    if p4[si] != 0.0:
        viol(ctx, "section:coordinate-nonzero:%s" % sc, "centre-manifold point of the section conversion has %s = %r, not 0" % (sc, p4[si]), rp)
    if p4[pc[0]] != pt[0] or p4[pc[1]] != pt[1]:
        viol(ctx, "section:plane-coordinates-changed:%s" % sc, "plane coordinates are not kept", rp)
    s4 = cm.to_synodic(np.array(p4))
    if not np.array_equal(s4, s):
        viol(ctx, "section:differs-from-4d-conversion:%s" % sc, "to_synodic(pt2, energy) differs from to_synodic of its own centre-manifold point", rp)
    # on the energy level of the centre-manifold Hamiltonian: |H - h0| <= root-finder tolerance * |dH/dx|
    mi = {"q3": 3, "p3": 2, "q2": 1, "p2": 0}[sc]
    Hc = complex(ham(place(p4))).real
    dx = 1e-6
    pp, pm = list(p4), list(p4)
    pp[mi] += dx
    pm[mi] -= dx
    dH = abs(complex(ham(place(pp))).real - complex(ham(place(pm))).real) / (2 * dx)
    tolH = 4 * 1e-12 * max(dH, 1e-3) + 64 * 2.2e-16 * (1 + abs(h0))
    if worst is not None:
        worst["H_minus_h0"] = max(worst["H_minus_h0"], abs(Hc - h0))
    if abs(Hc - h0) > tolH:
        viol(ctx, "section:off-energy-level:%s" % sc, "|H_cm - h0| = %.3e exceeds the root-finder tolerance %.1e" % (abs(Hc - h0), tolH),
                      dict(rp, H_cm=Hc, tolerance=tolH))
    # CR3BP energy of the synodic state (relative to the libration point, local scale) = h0 up to the series remainder
    r = float(np.linalg.norm(p4))
    E = float(h["crtbp_energy"](s, mu))
    disc = abs((E - EL) / gamma ** 2 - h0)
    bound = 100 * const["energy"] * r ** (N + 1) + tolH + 3 * EN_FLOOR
    if worst is not None:
        worst["energy_level_ratio"] = max(worst["energy_level_ratio"], disc / bound)
    if disc > bound:
        viol(ctx, "section:synodic-energy:%s" % sc,
                      "synodic state misses the prescribed energy: |(E-E_L)/gamma^2 - h0| = %.3e > %.3e (100 x fitted remainder at r=%.3f)" % (disc, bound, r),
                      dict(rp, discrepancy=disc, bound=bound))
    back = cm.to_cm(s)
    bsec = 100 * const["round_trip"] * r ** (N + 1) + 3 * RT_FLOOR
    if abs(back[si]) > bsec or float(np.max(np.abs(np.asarray(back) - np.asarray(p4)))) > bsec:
        viol(ctx, "section:synodic-state-off-section:%s" % sc,
                      "mapping the synodic state back gives %s = %.3e (bound %.1e)" % (sc, back[si], bsec), dict(rp, back=[float(x) for x in back], bound=bsec))


def history_check(ctx):
    """the conversions of ONE CenterManifold object do not depend on which other Hamiltonian representations the object was asked for in
    between (the pipeline caches generating functions and expansions per form): convert, request other forms, convert again -- bitwise."""
    h = hiten()
    rng = ctx.rng
    lk = 1 + (ctx.seed + 1) % 2
    system = get_cm("EM", lk, 4)[0]
    point = system.get_libration_point(lk)
    cm = h["CenterManifold"](point, 4)
    cm.compute()
    u = [rng.gauss(0, 1) for _ in range(4)]
    nu = math.sqrt(sum(x * x for x in u))
    p = np.array([0.06 * x / nu for x in u])
    forms = ["real_full_normal", "complex_partial_normal", "complex_full_normal", "real_partial_normal", "center_manifold_complex", "physical"]
    rng.shuffle(forms)
    s0 = np.asarray(cm.to_synodic(p), dtype=float)
    b0 = np.asarray(cm.to_cm(s0), dtype=float)
    done = []
    for form in forms[:4]:
        try:
            cm.compute(form)
        except Exception as e:   # a form the object does not offer is not part of the history
            ctx.notes.append("history_check: compute(%r) raised %s" % (form, type(e).__name__))
            continue
        done.append(form)
        s1 = np.asarray(cm.to_synodic(p), dtype=float)
        b1 = np.asarray(cm.to_cm(s0), dtype=float)
        ctx.case(("history", lk, tuple(done)), nontrivial=True, kind="history")
        if not (np.array_equal(s0, s1) and np.array_equal(b0, b1)):
            viol(ctx, "history:conversion-depends-on-requested-forms",
                 "to_synodic / to_cm of the same point change after compute(%r) on the same CenterManifold (max change %.3g / %.3g)" % (
                     form, float(np.max(np.abs(s1 - s0))), float(np.max(np.abs(b1 - b0)))),
                 {"kind": "history", "point": "EM L%d" % lk, "degree": 4, "cm_point": p.tolist(), "history": ["compute()"] + ["compute(%r)" % f for f in done],
                  "to_synodic_before": s0.tolist(), "to_synodic_after": s1.tolist(), "to_cm_before": b0.tolist(), "to_cm_after": b1.tolist()})
            return


def link_checks(ctx, T):
    """the hypotheses of `chain_inverse_structure` measured on the real links (EM L1/L2)"""
    h = hiten()
    TR, SC = h["TR"], h["SC"]
    rng = ctx.rng
    worst = {}
    for lk in (1, 2):
        system, point, cm = get_cm("EM", lk, 4)
        mix = tuple(cm.dynamics._mix_pairs)
        C, Cinv = point.normal_form_transform
        worst["C*Cinv-I:L%d" % lk] = float(np.max(np.abs(C @ Cinv - np.eye(6))))
        half = 1.0 / math.sqrt(2.0)
        dec = {0: 0.0, 1: 1.0, 2: half, 3: 1j * half, 4: -1j * half}
        M = np.array([[dec.get(c, np.nan) for c in row] for row in T["M"]])
        Mi = np.array([[dec.get(c, np.nan) for c in row] for row in T["Minv"]])
        for _ in range(20):
            z = np.array([complex(rng.uniform(-1, 1), rng.uniform(-1, 1)) for _ in range(6)])
            a = TR._solve_complex(z, tol=1e-30, mix_pairs=mix)
            b = TR._solve_real(a, tol=1e-30, mix_pairs=mix)
            worst["solve_real∘solve_complex-id"] = max(worst.get("solve_real∘solve_complex-id", 0.0), float(np.max(np.abs(b - z))))
            worst["solve_complex-vs-table"] = max(worst.get("solve_complex-vs-table", 0.0), float(np.max(np.abs(a - Mi @ z))))
            worst["solve_real-vs-table"] = max(worst.get("solve_real-vs-table", 0.0), float(np.max(np.abs(TR._solve_real(z, tol=1e-30, mix_pairs=mix) - M @ z))))
            c = np.array([rng.uniform(-0.5, 0.5) for _ in range(6)])
            s = cm.dynamics._local2synodic(point, c, 1e-14)
            c2 = cm.dynamics._synodic2local(point, s, 1e-14)
            worst["syn2local∘local2syn-id"] = max(worst.get("syn2local∘local2syn-id", 0.0), float(np.max(np.abs(c2 - c))))
            ctx.case(("links", lk), nontrivial=True, kind="links")
        o = cm.dynamics._local2synodic(point, np.zeros(6), 1e-14)
        worst["origin->libration-point:L%d" % lk] = float(np.max(np.abs(o - np.r_[point.position, 0.0, 0.0, 0.0])))
    ctx.extra["link_residuals"] = worst
    ctx.log("chain links: " + ", ".join("%s %.1e" % kv for kv in worst.items()))
    for k, v in worst.items():
        tol = 1e-9 if k.startswith("C*Cinv") else 1e-12
        if not (v <= tol):
            viol(ctx, "link:" + k, "a link of the conversion chain is not the inverse / the table it is modelled as: %s = %.3e" % (k, v),
                          {"kind": "link", "which": k, "residual": v, "tolerance": tol})


# ---------------------------------------------------------------------------------------------------------

def run(ctx):
    g = ctx.guard("regenerate", gen, ctx)
    T, tr = g if g is not None else (None, None)
    ok = ctx.lean_build(PROP_MODULES)
    if ok:
        ctx.lean_audit(PROP_MODULES, SRC_MODULES)
        if ctx.thorough():
            ctx.leanchecker(PROP_MODULES)
    if g is not None:
        ctx.guard("validate_traces", validate_traces, ctx, tr)
    ctx.guard("correspondence", correspondence, ctx)
    if g is not None:
        ctx.guard("link_checks", link_checks, ctx, T)
    history_check(ctx)
    consts = scaling(ctx)
    section_numerics(ctx, consts)
    if g is not None:
        ctx.extra["tables_observed"] = {k: v for k, v in T.items() if k not in ("fixed_slots",)}
    ctx.rule = ("exact correspondence: scripted dyadic polynomial Hamiltonians (degree <= 4, six variables) x solved variable (all six + unknown names) "
                "x fixed-value dicts (incl. ignored and overwritten keys) x guesses/factors/max_expand/symmetric x branches {root up, root down, "
                "no sign change, residual(0)>0, root finder gives up}; all four section coordinates for lift/build/enforce/plane; public "
                "to_synodic(pt2, energy, section) on real centre manifolds with the residuals replayed as an oracle table. Numerics: real EM L1/L2 "
                "(+ seeded mu), degrees 4..5 (thorough 4..8, 10), random and axis-dominated directions, radii 0.4*2^(-j/2); a case is non-trivial when "
                "the call evaluates the residual at least twice / returns a state / has >= 3 radii above the rounding floor")
    ctx.assumptions += [
        "model arithmetic is exact; NaN residuals are not modelled; `float()`/dtype casts are identities",
        "`solve_bracketed_brent` is an oracle: theorems assume only that it answers inside its bracket (checked on every real call); its convergence is measured",
        "`_clean_coordinates` / `_restrict_to_center_manifold` chops (|x| < 1e-14 / 1e-30 -> 0) are modelled as identities in the chain",
        "r^(N+1) laws (Lie-series remainders, C07/C08) are measured (fitted exponents), not proved; `chain_inverse_structure` reduces them to `lieInv ∘ lieFwd - id`",
        "routing tables are tied by marker execution (one marker set per run) plus the randomized exact correspondence",
    ]


def replay(ctx, rec):
    rp = rec.get("replay", rec)
    kind = rp.get("kind")
    if kind == "scaling" and "cfg" in rp and "dirs" in rp:
        cfg = tuple(tuple(c) if isinstance(c, list) else c for c in rp["cfg"])
        judge_scaling(ctx, scaling_cfg(ctx, cfg, rp["dirs"]))
        ctx.obligations["replay-executed"] = True
    elif kind == "section" and "cfg" in rp:
        h = hiten()
        cfg = tuple(tuple(c) if isinstance(c, list) else c for c in rp["cfg"])
        system, point, cm = get_cm(*cfg)
        mu = system.mu
        EL = float(h["crtbp_energy"](np.r_[point.position, 0.0, 0.0, 0.0], mu))
        res = scaling_cfg(ctx, cfg, [[0.5, 0.5, 0.5, 0.5], [0.9, 0.1, 0.4, 0.1], [0.1, 0.3, 0.2, 0.9]])
        const = {"energy": res["fit"]["energy"]["const"], "round_trip": res["fit"]["round_trip"]["const"]}
        section_check(ctx, cfg, cm, cm.hamiltonian(cfg[2]), point, mu, point.dynamics.gamma, EL, const, rp["section_coord"], rp["energy"],
                      np.array(rp["plane_point"]))
        ctx.obligations["replay-executed"] = True
    else:
        run(ctx)
