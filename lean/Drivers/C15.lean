/-
  Drivers/C15.lean — line protocol for the C15 correspondence.
  input line :  dir tol tTol pTol maxHits pi pj cubic refine iters  n0..n5 c  N  (t x0..x5)*N      (rationals `p/q` or `p`)
                 dir ∈ {0 (None), 1, -1}; maxHits = -1 for None
  output line:  H <k> then k hits  seg:onSurf:s:time:x0,...,x5
  The Hermite pair of the model is instantiated with the terms traced from the current source (Gen/C15.lean).
-/
import HitenModel.Lemmas.C15Gen
open HitenModel HitenModel.C15

def parseRat (s : String) : Rat :=
  match s.splitOn "/" with
  | [a] => (a.toInt?.getD 0 : Int)
  | [a, b] => Rat.divInt (a.toInt?.getD 0) (b.toInt?.getD 1)
  | _ => 0

def showRat (r : Rat) : String := if r.den == 1 then toString r.num else toString r.num ++ "/" ++ toString r.den

def takeSamples : Nat → List Rat → List Sample
  | 0, _ => []
  | n + 1, t :: a :: b :: c :: d :: e :: f :: rest => ⟨t, [a, b, c, d, e, f]⟩ :: takeSamples n rest
  | _, _ => []

def showHit (h : Hit) : String :=
  toString h.seg ++ ":" ++ (if h.onSurf then "1" else "0") ++ ":" ++ showRat h.s ++ ":" ++ showRat h.time ++ ":" ++
    ",".intercalate (h.state.map showRat)

def handle (line : String) : String :=
  let toks := (line.splitOn " ").filter (· ≠ "")
  match toks with
  | dir :: tol :: tTol :: pTol :: mh :: pi :: pj :: cubic :: refine :: iters :: rest =>
    let nums := rest.map parseRat
    let n := nums.take 6
    let c := nums.getD 6 0
    let N := (rest.getD 7 "0").toNat?.getD 0
    let samples := takeSamples N (nums.drop 8)
    let d : Dir := if dir == "1" then .pos else if dir == "-1" then .neg else .any
    let mhI := mh.toInt?.getD (-1)
    let cfg : Cfg := { n := n, c := c, dir := d, tol := parseRat tol, tTol := parseRat tTol, pTol := parseRat pTol,
                       maxHits := if mhI < 0 then none else some mhI.toNat,
                       pi := pi.toNat?.getD 0, pj := pj.toNat?.getD 0 }
    let md : Mode := { cubic := cubic == "1", refine := refine.toNat?.getD 0, iters := iters.toNat?.getD 0 }
    let hits := detect cfg genHerm md samples
    "H " ++ toString hits.length ++ " " ++ " ".intercalate (hits.map showHit)
  | _ => "E bad line"

partial def loop (h : IO.FS.Stream) : IO Unit := do
  let line ← h.getLine
  if line.isEmpty then return ()
  let l := (line.splitOn "\n").headD ""
  if l.isEmpty then loop h else
    IO.println (handle l)
    loop h

def main : IO Unit := do
  let stdin ← IO.getStdin
  loop stdin
