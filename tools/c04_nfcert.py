import sympy as sp
lam,om,c2=sp.symbols('lam om c2')
Ch=sp.zeros(6,6)
Ch[:,0]=sp.Matrix([2*lam, lam**2-2*c2-1, 0, lam**2+2*c2+1, lam**3+(1-2*c2)*lam, 0])
Ch[:,1]=sp.Matrix([0, -om**2-2*c2-1, 0, -om**2+2*c2+1, 0, 0])
Ch[:,2]=sp.Matrix([0,0,1,0,0,0])
Ch[:,3]=sp.Matrix([-2*lam, lam**2-2*c2-1, 0, lam**2+2*c2+1, -lam**3-(1-2*c2)*lam, 0])
Ch[:,4]=sp.Matrix([2*om, 0,0,0, -om**3+(1-2*c2)*om, 0])
Ch[:,5]=sp.Matrix([0,0,0,0,0,1])
J=sp.Matrix(sp.BlockMatrix([[sp.zeros(3,3),sp.eye(3)],[-sp.eye(3),sp.zeros(3,3)]]))
S=sp.zeros(6,6)
S[3,3]=S[4,4]=S[5,5]=1; S[1,3]=S[3,1]=1; S[0,4]=S[4,0]=-1; S[0,0]=-2*c2; S[1,1]=c2; S[2,2]=c2
E1=2*lam*((4+3*c2)*lam**2+4+5*c2-6*c2**2)
E2=om*((4+3*c2)*om**2-4-5*c2+6*c2**2)
V1=lam**2-om**2-(c2-2)
V2=lam**2*om**2-(2*c2**2-c2-1)
A=(Ch.T*J*Ch).applyfunc(sp.expand)
B=(Ch.T*S*Ch).applyfunc(sp.expand)
expJ={(0,3):E1,(1,4):E2,(2,5):1}
expS={(0,3):lam*E1,(1,1):om*E2,(4,4):om*E2,(2,2):c2,(5,5):1}
V2s=sp.expand(V2.subs(c2,lam**2-om**2+2))
def cert(N):
    N=sp.expand(N)
    # N = q1*V1 + r(c2-free)
    q1,r=sp.div(sp.Poly(N,c2),sp.Poly(V1,c2))
    # careful: V1 = -c2 + (...) 
    r=sp.expand(r.as_expr()); q1=sp.expand(q1.as_expr())
    assert c2 not in r.free_symbols
    q2,r2=sp.div(sp.Poly(r,lam,om),sp.Poly(V2s,lam,om))
    assert r2.as_expr()==0, r2
    q2=q2.as_expr()
    # r = q2*V2s ; V2s = V2 with c2 := lam^2-om^2+2 ; V2 - V2s = multiple of V1: V2(c2) - V2(c2s) 
    # V2 = V2s + k*V1 where k = (V2 - V2s)/V1
    k,rem=sp.div(sp.Poly(sp.expand(V2-V2s),c2),sp.Poly(V1,c2)); assert rem.as_expr()==0
    k=k.as_expr()
    # N = q1*V1 + q2*(V2 - k*V1) = (q1 - q2*k)*V1 + q2*V2
    a1=sp.expand(q1-q2*k); a2=sp.expand(q2)
    assert sp.expand(N-a1*V1-a2*V2)==0
    return a1,a2
def lean(e):
    s=sp.sstr(sp.expand(e)).replace('**','^')
    return s
out=[]
for name,M,exp in (("J",A,expJ),("S",B,expS)):
    for i in range(6):
        for j in range(i if name=="S" else i+1,6):
            N=M[i,j]-exp.get((i,j),0)
            a1,a2=cert(N)
            out.append((name,i,j,lean(a1),lean(a2)))
            print(name,i,j,"|",lean(a1)[:80],"|",lean(a2)[:80])
import json; json.dump(out,open('/root/scratch/nfcert.json','w'))
