/-
  Core/Dy.lean — exact dyadic rationals `m · 2^(-e)` (the values float64 tables really hold) and
  plane rooted trees with the Runge–Kutta elementary weights computed in exact arithmetic.
  Import-free and structurally recursive so that `decide +kernel` can evaluate everything.
-/
namespace HitenModel

structure Dy where
  m : Int
  e : Nat
deriving Repr, DecidableEq, Inhabited

namespace Dy
def add (a b : Dy) : Dy :=
  if a.e ≤ b.e then ⟨a.m * (2:Int)^(b.e - a.e) + b.m, b.e⟩ else ⟨a.m + b.m * (2:Int)^(a.e - b.e), a.e⟩
def neg (a : Dy) : Dy := ⟨-a.m, a.e⟩
def sub (a b : Dy) : Dy := add a (neg b)
def mul (a b : Dy) : Dy := ⟨a.m * b.m, a.e + b.e⟩
def zero : Dy := ⟨0, 0⟩
def one : Dy := ⟨1, 0⟩
/-- `|a · g − 1| ≤ 2^(-k)` -/
def closeToInv (a : Dy) (g : Nat) (k : Nat) : Bool :=
  (a.m * g - (2:Int)^a.e).natAbs * 2^k ≤ 2^a.e
/-- `|a − n/d| ≤ 2^(-k)`  (d > 0) -/
def closeToRat (a : Dy) (n : Int) (d : Nat) (k : Nat) : Bool :=
  (a.m * d - n * (2:Int)^a.e).natAbs * 2^k ≤ d * 2^a.e
/-- `|a| ≤ 2^(-k)` -/
def small (a : Dy) (k : Nat) : Bool := a.m.natAbs * 2^k ≤ 2^a.e
/-- `|a| > 2^(-k)` -/
def notSmall (a : Dy) (k : Nat) : Bool := !(small a k)
def eqv (a b : Dy) : Bool := (sub a b).m == 0
end Dy

def dot : List Dy → List Dy → Dy
  | a :: as, b :: bs => Dy.add (Dy.mul a b) (dot as bs)
  | _, _ => Dy.zero
def hadamard : List Dy → List Dy → List Dy
  | a :: as, b :: bs => Dy.mul a b :: hadamard as bs
  | _, _ => []
def matVec (A : List (List Dy)) (v : List Dy) : List Dy := A.map fun row => dot row v
def vecSub : List Dy → List Dy → List Dy
  | a :: as, b :: bs => Dy.sub a b :: vecSub as bs
  | _, _ => []
def sumDy : List Dy → Dy
  | [] => Dy.zero
  | a :: as => Dy.add a (sumDy as)
def column (M : List (List Dy)) (c : Nat) : List Dy := M.map fun row => row.getD c Dy.zero

inductive PTree where
  | node : List PTree → PTree
deriving Repr, Inhabited

namespace PTree
mutual
def order : PTree → Nat
  | node cs => 1 + orderL cs
def orderL : List PTree → Nat
  | [] => 0
  | c :: cs => order c + orderL cs
end
mutual
/-- tree factorial γ(t) -/
def gamma : PTree → Nat
  | node cs => (1 + orderL cs) * gammaL cs
def gammaL : List PTree → Nat
  | [] => 1
  | c :: cs => gamma c * gammaL cs
end
end PTree

mutual
/-- vector of stage elementary weights Φ_i(t) = Π_children (A Φ(child))_i -/
def phiVec (A : List (List Dy)) (ones : List Dy) : PTree → List Dy
  | .node cs => phiList A ones cs
def phiList (A : List (List Dy)) (ones : List Dy) : List PTree → List Dy
  | [] => ones
  | c :: cs => hadamard (matVec A (phiVec A ones c)) (phiList A ones cs)
end
/-- elementary weight Σ b_i Φ_i(t) -/
def weight (A : List (List Dy)) (B : List Dy) (t : PTree) : Dy :=
  dot B (phiVec A (A.map fun _ => Dy.one) t)

/-- all forests (ordered lists of plane trees) with `n` nodes in total; `fuel ≥ n` -/
def forests : Nat → Nat → List (List PTree)
  | _, 0 => [[]]
  | 0, _ => []
  | fuel+1, n+1 =>
      (List.range (n+1)).flatMap fun k =>
        ((forests fuel k).map PTree.node).flatMap fun t =>
          (forests fuel (n - k)).map fun r => t :: r
/-- all plane rooted trees with exactly `n` nodes -/
def treesOfOrder (n : Nat) : List PTree :=
  match n with
  | 0 => []
  | m+1 => (forests (m+1) m).map PTree.node

/-- every rooted-tree order condition up to order `p`: `|γ(t)·Φ(t) − 1| ≤ 2^(-k)` -/
def orderConditions (A : List (List Dy)) (B : List Dy) (p k : Nat) : Bool :=
  (List.range p).all fun o => (treesOfOrder (o+1)).all fun t => (weight A B t).closeToInv t.gamma k
/-- some condition of order exactly `p` fails by more than `2^(-k)` -/
def failsAtOrder (A : List (List Dy)) (B : List Dy) (p k : Nat) : Bool :=
  (treesOfOrder p).any fun t => !((weight A B t).closeToInv t.gamma k)
/-- row-sum (consistency) condition `Σ_j a_ij = c_i`, needed for time-dependent fields -/
def rowSums (A : List (List Dy)) (C : List Dy) (k : Nat) : Bool :=
  (List.zip A C).all fun (row, c) => (Dy.sub (sumDy row) c).small k
/-- strictly lower triangular (explicit method) -/
def explicitTableau (A : List (List Dy)) : Bool :=
  (List.zip (List.range A.length) A).all fun (i, row) =>
    (List.zip (List.range row.length) row).all fun (j, a) => j < i || a.m == 0

/-- continuous (dense-output) order conditions: for the interpolant `b_i(θ) = Σ_c P[i][c] θ^(c+1)`,
for every tree `t` of order ≤ q and every power `c+1`:  `Σ_i P[i][c] Φ_i(t) = [c+1 = |t|] / γ(t)`. -/
def denseConditions (A : List (List Dy)) (P : List (List Dy)) (ncols q k : Nat) : Bool :=
  (List.range q).all fun o => (treesOfOrder (o+1)).all fun t =>
    (List.range ncols).all fun c =>
      let w := weight A (column P c) t
      if c + 1 = t.order then w.closeToInv t.gamma k else w.small k
/-- `b(1) = B`: the interpolant ends at the step result -/
def denseEndsAt (P : List (List Dy)) (B : List Dy) (k : Nat) : Bool :=
  (List.zip P B).all fun (row, b) => (Dy.sub (sumDy row) b).small k

def listEqv : List Dy → List Dy → Bool
  | [], [] => true
  | a :: as, b :: bs => Dy.eqv a b && listEqv as bs
  | _, _ => false
def matEqv : List (List Dy) → List (List Dy) → Bool
  | [], [] => true
  | a :: as, b :: bs => listEqv a b && matEqv as bs
  | _, _ => false

end HitenModel
