/-
  Lemmas/Symplectic.lean — linear-algebra and calculus facts about variational equations:
  a fundamental matrix of `Φ' = F Φ` with `F` infinitesimally symplectic for `Ω` preserves `Ω`;
  consequences (determinant, reciprocal spectrum); time reversal of autonomous solutions; Floquet transport.
-/
import Mathlib.Analysis.Calculus.Deriv.Add
import Mathlib.Analysis.Calculus.Deriv.Mul
import Mathlib.Analysis.Calculus.Deriv.Comp
import Mathlib.Analysis.Calculus.Deriv.Pow
import Mathlib.Analysis.Calculus.MeanValue
import Mathlib.LinearAlgebra.Matrix.Charpoly.Basic
import Mathlib.LinearAlgebra.Matrix.NonsingularInverse

namespace HitenModel
open Matrix

variable {n : Type} [Fintype n] [DecidableEq n]

/-- algebraic core: the time derivative of `ΦᵀΩΦ` along `Φ' = FΦ` is `Φᵀ(FᵀΩ + ΩF)Φ` -/
theorem symplectic_derivative_zero (F Φ Ω : Matrix n n ℝ) (h : Fᵀ * Ω + Ω * F = 0) :
    (F * Φ)ᵀ * Ω * Φ + Φᵀ * Ω * (F * Φ) = 0 := by
  have e : (F * Φ)ᵀ * Ω * Φ + Φᵀ * Ω * (F * Φ) = Φᵀ * (Fᵀ * Ω + Ω * F) * Φ := by
    simp only [transpose_mul, Matrix.mul_add, Matrix.add_mul, Matrix.mul_assoc]
  rw [e, h]; simp

/-- **symplectic_form_preserved**: if `Φ' = F(t)Φ` entrywise and every `F(t)` is infinitesimally symplectic for `Ω`,
then `ΦᵀΩΦ` is constant in time. -/
theorem symplectic_form_preserved (Φ F : ℝ → Matrix n n ℝ) (Ω : Matrix n n ℝ)
    (hΦ : ∀ t i j, HasDerivAt (fun s => Φ s i j) ((F t * Φ t) i j) t)
    (hF : ∀ t, (F t)ᵀ * Ω + Ω * F t = 0) (a b : ℝ) :
    (Φ a)ᵀ * Ω * Φ a = (Φ b)ᵀ * Ω * Φ b := by
  ext i j
  have hd : ∀ t, HasDerivAt (fun s => ((Φ s)ᵀ * Ω * Φ s) i j) 0 t := by
    intro t
    have key := congrFun (congrFun (symplectic_derivative_zero (F t) (Φ t) Ω (hF t)) i) j
    have hder : HasDerivAt (fun s => ((Φ s)ᵀ * Ω * Φ s) i j)
        (((F t * Φ t)ᵀ * Ω * Φ t + (Φ t)ᵀ * Ω * (F t * Φ t)) i j) t := by
      simp only [Matrix.mul_apply, Matrix.transpose_apply, Matrix.add_apply]
      rw [← Finset.sum_add_distrib]
      refine HasDerivAt.fun_sum fun l _ => ?_
      have hin : HasDerivAt (fun s => ∑ k, Φ s k i * Ω k l) (∑ k, (∑ x, F t k x * Φ t x i) * Ω k l) t :=
        HasDerivAt.fun_sum fun k _ => by
          have := (hΦ t k i).mul_const (Ω k l)
          simpa [Matrix.mul_apply] using this
      have h2 := hΦ t l j
      simp only [Matrix.mul_apply] at h2
      exact hin.fun_mul h2
    rw [key] at hder
    simpa using hder
  exact is_const_of_deriv_eq_zero (fun t => (hd t).differentiableAt) (fun t => (hd t).deriv) a b

/-- `ΦᵀΩΦ = Ω` with `Ω` invertible gives `det Φ ^ 2 = 1` -/
theorem det_sq_eq_one_of_symplectic (Φ Ω : Matrix n n ℝ) (hΩ : IsUnit Ω.det) (h : Φᵀ * Ω * Φ = Ω) :
    Φ.det ^ 2 = 1 := by
  have := congrArg Matrix.det h
  rw [det_mul, det_mul, det_transpose] at this
  have h2 : Ω.det * (Φ.det ^ 2 - 1) = 0 := by linear_combination this
  rcases mul_eq_zero.mp h2 with h0 | h0
  · exact absurd h0 hΩ.ne_zero
  · linarith

/-- reciprocal spectrum: `Φ⁻¹` is conjugate to `Φᵀ`, so `Φ` and `Φ⁻¹` have the same characteristic polynomial
(eigenvalues come in reciprocal pairs) -/
theorem charpoly_inv_eq_of_symplectic (Φ Ω : Matrix n n ℝ) (hΩ : IsUnit Ω.det) (h : Φᵀ * Ω * Φ = Ω) :
    ∃ Ψ : Matrix n n ℝ, Ψ * Φ = 1 ∧ Ψ.charpoly = Φ.charpoly := by
  refine ⟨Ω⁻¹ * Φᵀ * Ω, ?_, ?_⟩
  · rw [Matrix.mul_assoc, Matrix.mul_assoc, ← Matrix.mul_assoc Φᵀ, h]
    exact Matrix.nonsing_inv_mul Ω hΩ
  · calc (Ω⁻¹ * Φᵀ * Ω).charpoly = (Φᵀ).charpoly := charpoly_units_conj' (Matrix.nonsingInvUnit Ω hΩ) Φᵀ
      _ = Φ.charpoly := charpoly_transpose Φ

/-- **variational_solution_transport** (no ODE-uniqueness theorem needed): let `Φ' = F(t)Φ`, `Φ(0) = I`, with every `F(t)`
infinitesimally symplectic for an invertible `Ω`, and let `v` be ANY solution of the same linear system `v' = F(t) v`.
Then `v(t) = Φ(t) v(0)` for all `t`.  (`ΦᵀΩ v` has derivative `Φᵀ(FᵀΩ + ΩF)v = 0`, and `ΦᵀΩ` is invertible because
`ΦᵀΩΦ = Ω`.) -/
theorem variational_solution_transport (Φ F : ℝ → Matrix n n ℝ) (Ω : Matrix n n ℝ) (hΩ : IsUnit Ω.det)
    (hΦ : ∀ t i j, HasDerivAt (fun s => Φ s i j) ((F t * Φ t) i j) t)
    (hF : ∀ t, (F t)ᵀ * Ω + Ω * F t = 0) (hI : Φ 0 = 1)
    (v : ℝ → n → ℝ) (hv : ∀ t i, HasDerivAt (fun s => v s i) ((F t).mulVec (v t) i) t) (t : ℝ) :
    v t = (Φ t).mulVec (v 0) := by
  -- w(s) = Φ(s)ᵀ Ω v(s) is constant
  have hd : ∀ i t, HasDerivAt (fun s => (((Φ s)ᵀ * Ω).mulVec (v s)) i) 0 t := by
    intro i t
    have key : (((F t * Φ t)ᵀ * Ω).mulVec (v t) + ((Φ t)ᵀ * Ω).mulVec ((F t).mulVec (v t))) i = 0 := by
      have e : ((F t * Φ t)ᵀ * Ω).mulVec (v t) + ((Φ t)ᵀ * Ω).mulVec ((F t).mulVec (v t))
          = ((Φ t)ᵀ * ((F t)ᵀ * Ω + Ω * F t)).mulVec (v t) := by
        rw [Matrix.mulVec_mulVec, ← Matrix.add_mulVec]
        simp only [transpose_mul, Matrix.mul_add, Matrix.mul_assoc]
      rw [e, hF t]; simp
    have hder : HasDerivAt (fun s => (((Φ s)ᵀ * Ω).mulVec (v s)) i)
        ((((F t * Φ t)ᵀ * Ω).mulVec (v t) + ((Φ t)ᵀ * Ω).mulVec ((F t).mulVec (v t))) i) t := by
      simp only [Matrix.mulVec, dotProduct, Matrix.mul_apply, Matrix.transpose_apply, Pi.add_apply]
      rw [← Finset.sum_add_distrib]
      refine HasDerivAt.fun_sum fun k _ => ?_
      have hin : HasDerivAt (fun s => ∑ l, Φ s l i * Ω l k) (∑ l, (∑ x, F t l x * Φ t x i) * Ω l k) t :=
        HasDerivAt.fun_sum fun l _ => by
          have := (hΦ t l i).mul_const (Ω l k)
          simpa [Matrix.mul_apply] using this
      have h2 := hv t k
      simp only [Matrix.mulVec, dotProduct] at h2
      exact hin.fun_mul h2
    rw [key] at hder
    exact hder
  have hconst : ((Φ t)ᵀ * Ω).mulVec (v t) = ((Φ 0)ᵀ * Ω).mulVec (v 0) := by
    ext i
    exact is_const_of_deriv_eq_zero (fun s => (hd i s).differentiableAt) (fun s => (hd i s).deriv) t 0
  have hs : (Φ t)ᵀ * Ω * Φ t = Ω := by
    have := symplectic_form_preserved Φ F Ω hΦ hF t 0
    rw [this, hI]; simp
  -- ΦᵀΩ is invertible
  have hdet : IsUnit ((Φ t)ᵀ * Ω).det := by
    have hsq := det_sq_eq_one_of_symplectic (Φ t) Ω hΩ hs
    rw [det_mul, det_transpose]
    refine IsUnit.mul ?_ hΩ
    refine isUnit_iff_ne_zero.mpr fun h0 => ?_
    rw [h0] at hsq; norm_num at hsq
  have h1 : ((Φ t)ᵀ * Ω).mulVec (v t) = ((Φ t)ᵀ * Ω).mulVec ((Φ t).mulVec (v 0)) := by
    rw [hconst, hI, Matrix.mulVec_mulVec, hs]; simp
  have := congrArg (((Φ t)ᵀ * Ω)⁻¹).mulVec h1
  rw [Matrix.mulVec_mulVec, Matrix.mulVec_mulVec, Matrix.nonsing_inv_mul _ hdet, Matrix.one_mulVec, Matrix.one_mulVec] at this
  exact this

/-- time reversal of an autonomous solution: if `y' = −g(y)` then `t ↦ y(−t)` solves `z' = g(z)` -/
theorem reversed_solution {E : Type} [NormedAddCommGroup E] [NormedSpace ℝ E] (g : E → E) (y : ℝ → E)
    (hy : ∀ s, HasDerivAt y (-(g (y s))) s) (t : ℝ) :
    HasDerivAt (fun t => y (-t)) (g (y (-t))) t := by
  have h1 : HasDerivAt (fun t : ℝ => -t) (-1) t := hasDerivAt_neg' t
  have := (hy (-t)).scomp t h1
  simpa [Function.comp_def] using this

/-- **floquet_transport**: transporting an eigenvector of the monodromy matrix with the (invertible) true STM gives an
eigenvector, with the same multiplier, of the monodromy matrix based at the later point `Φ M Φ⁻¹`. -/
theorem floquet_transport (M Φt Φinv : Matrix n n ℝ) (v : n → ℝ) (lam : ℝ)
    (hv : M.mulVec v = lam • v) (hinv : Φinv * Φt = 1) :
    (Φt * M * Φinv).mulVec (Φt.mulVec v) = lam • Φt.mulVec v := by
  rw [Matrix.mulVec_mulVec, Matrix.mul_assoc, Matrix.mul_assoc, hinv, Matrix.mul_one, ← Matrix.mulVec_mulVec, hv,
    Matrix.mulVec_smul]

end HitenModel
