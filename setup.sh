#!/bin/bash
# Offline build of the framework: regenerate the Gen/ modules from /repo's current tree, then build the Lean library.
# A property module that fails to build here is not a setup failure: its check reports it.
cd "$(dirname "$0")"
export HITEN_VERIF=1 PYTHONDONTWRITEBYTECODE=1
/venv/bin/python harness/gen_all.py 2>&1 | grep -v "conda\|WARNING: overwriting"
cd lean
lake build HitenModel.Lemmas.REReal 2>&1 | tail -3 || exit 1
lake build 2>&1 | grep -v "^warning\|unused\|Hint\|apply\]\|Note:\|^\s*$" | tail -15
exit 0
