/-
  Props/C14.lean — property C14: centre-manifold Poincaré maps stay on the section and on the energy level under any
  parallelism.

  Part A is about `Gen.C14` — terms and tables regenerated on every run by *executing* the current `_detect_crossing`
  (all syntactic paths), `_hermite_scalar`, `_CenterManifoldBackend.run` → `_poincare_map` → `_poincare_step` (integrator
  and vector field as recorded oracles), `enforce_section_coordinate`, `plane_points_from_states`, `lift_plane_point`,
  `solve_missing_coord`, `get_points_with_4d_states`, `_STATE_INDEX`, `_CM_SECTION_TABLE`.
  Part B is about the executable model `Core/C14.lean` of the return step and of the engine (all seeds, all oracles, all
  worker counts, all completion orders), which the harness compares with the real code on every run.
-/
import HitenModel.Gen.C14
import HitenModel.Lemmas.C14
import HitenModel.Lemmas.REReal
import Mathlib.Tactic.FieldSimp
import Mathlib.Tactic.Ring
import Mathlib.Tactic.NormNum
import Mathlib.Tactic.Linarith
import Mathlib.Tactic.Positivity

set_option linter.unusedSimpArgs false
set_option linter.unusedVariables false

namespace HitenModel.Props.C14
open HitenModel RE Gen.C14 HitenModel.C14 List

/-! ## Part A — the traced source -/

/-! ### `_detect_crossing` -/

macro "detect_unfold" : tactic =>
  `(tactic| simp only [detectPaths, runPaths, Path.ok, condsOk, List.all_cons, List.all_nil, Cmp.holds, evalQ, env18, detectPair,
      detect, dirVal, Sec.idx6, Bool.and_true, Nat.reduceLT, Nat.reduceSub, if_true, if_false, reduceIte,
      Int.cast_zero, Nat.cast_one, div_one, Int.cast_ofNat, ge_iff_le, gt_iff_lt])

/-- **detect_traced_eq_model**: for every section and all rational `state_old`, `state_new`, `rhs_new`, the path table
executed from the current `_detect_crossing` computes what the hand model `detect` (sign change of the section coordinate,
*documented* direction, linear fraction) computes; in particular the table is complete (some path always applies). -/
theorem detect_traced_eq_model (sec : Sec) (so sn rn : Vec) :
    runPaths (env18 so sn rn) (detectPaths sec) = some (detectPair sec so sn rn) := by
  cases sec <;> detect_unfold <;>
    (split_ifs <;> simp_all <;> linarith)

/-- **crossing_sound**: a reported crossing has a strict sign change of the section coordinate between the two integrator
states, the documented direction (`p₃ > 0` for `q₃`, `p₂ > 0` for `q₂`, `ṗ₃ > 0` for `p₃`, `ṗ₂ > 0` for `p₂`, all at the
new state), and its fraction `α = f_old / (f_old − f_new)` lies strictly inside `(0, 1)` and is the zero of the linear
interpolant of the section coordinate. -/
theorem crossing_sound (sec : Sec) (so sn rn : Vec) (a : Rat) (h : detect sec so sn rn = some a) :
    let fo := so.getD sec.idx6 0
    let fn := sn.getD sec.idx6 0
    fo * fn < 0 ∧ 0 < dirVal sec sn rn ∧ a = fo / (fo - fn) ∧ 0 < a ∧ a < 1 ∧ (1 - a) * fo + a * fn = 0 := by
  intro fo fn
  simp only [detect] at h
  split_ifs at h with h1 h2
  simp only [Option.some.injEq] at h
  have hneg : fo * fn < 0 := lt_of_not_ge h1
  have hne : fo - fn ≠ 0 := by
    intro e
    have : fo = fn := by linarith
    rw [this] at hneg
    nlinarith [mul_self_nonneg fn]
  have ha : a = fo / (fo - fn) := h.symm
  refine ⟨hneg, h2, ha, ?_, ?_, ?_⟩
  · rw [ha]
    rcases lt_or_gt_of_ne hne with hd | hd
    · have hfo : fo < 0 := by
        by_contra hc
        have hfo' : 0 ≤ fo := le_of_not_gt hc
        have hfn : 0 < fn := by linarith
        nlinarith [mul_nonneg hfo' hfn.le]
      exact div_pos_of_neg_of_neg hfo hd
    · have hfo : 0 < fo := by
        by_contra hc
        have hfo' : fo ≤ 0 := le_of_not_gt hc
        have hfn : fn < 0 := by linarith
        nlinarith [mul_nonneg_of_nonpos_of_nonpos hfo' hfn.le]
      exact div_pos hfo hd
  · rw [ha]
    rcases lt_or_gt_of_ne hne with hd | hd
    · have hfn : 0 < fn := by
        by_contra hc
        have hfn' : fn ≤ 0 := le_of_not_gt hc
        have hfo : fo < 0 := by linarith
        nlinarith [mul_nonneg_of_nonpos_of_nonpos hfo.le hfn']
      rw [div_lt_one_of_neg hd]; linarith
    · have hfn : fn < 0 := by
        by_contra hc
        have hfn' : 0 ≤ fn := le_of_not_gt hc
        have hfo : 0 < fo := by linarith
        nlinarith [mul_nonneg hfo.le hfn']
      rw [div_lt_one hd]; linarith
  · rw [ha]; field_simp; ring

/-- **crossing_complete**: every strict sign change in the documented direction is reported -/
theorem crossing_complete (sec : Sec) (so sn rn : Vec)
    (h1 : so.getD sec.idx6 0 * sn.getD sec.idx6 0 < 0) (h2 : 0 < dirVal sec sn rn) :
    detect sec so sn rn = some (so.getD sec.idx6 0 / (so.getD sec.idx6 0 - sn.getD sec.idx6 0)) := by
  simp only [detect]
  rw [if_neg (not_le.mpr h1), if_pos h2]

/-- the same soundness statement directly for the traced source -/
theorem crossing_sound_traced (sec : Sec) (so sn rn : Vec) (a : Rat)
    (h : runPaths (env18 so sn rn) (detectPaths sec) = some (true, a)) :
    so.getD sec.idx6 0 * sn.getD sec.idx6 0 < 0 ∧ 0 < dirVal sec sn rn ∧ 0 < a ∧ a < 1 ∧
      (1 - a) * so.getD sec.idx6 0 + a * sn.getD sec.idx6 0 = 0 := by
  rw [detect_traced_eq_model] at h
  simp only [detectPair, Option.some.injEq] at h
  cases hd : detect sec so sn rn with
  | none => rw [hd] at h; simp at h
  | some b =>
    rw [hd] at h
    simp only [Prod.mk.injEq, true_and] at h
    subst h
    obtain ⟨h1, h2, _, h4, h5, h6⟩ := crossing_sound sec so sn rn b hd
    exact ⟨h1, h2, h4, h5, h6⟩

example : detect .p3 [0, 0, 0, 0, 0, -1] [0, 0, 0, 0, 0, 3] [0, 0, 0, 0, 0, 2] = some (1 / 4) := by decide +kernel
example : detect .p3 [0, 0, 0, 0, 0, -1] [0, 0, 0, 0, 0, 3] [0, 0, 5, 0, 0, -2] = none := by decide +kernel
example : detect .q2 [0, 3, 0, 0, 0, 0] [0, -1, 0, 0, 1, 0] [] = some (3 / 4) := by decide +kernel

/-! ### `_hermite_scalar` (variables 0 s, 1 y0, 2 y1, 3 dy0, 4 dy1, 5 dt) -/

/-- the traced interpolant as a function over ℚ (what the model's `StepCfg.herm` is instantiated with) -/
def genHerm (s y0 y1 d0 d1 dt : Rat) : Rat := evalQ (env6 s y0 y1 d0 d1 dt) hermite

macro "h_unfold" : tactic =>
  `(tactic| simp only [genHerm, hermite, evalQ, env6, envL, List.getD_cons_zero, List.getD_cons_succ])

/-- **hermite_interpolates** (values): the refined point lies on a curve through the two integrator states -/
theorem hermite_interpolates (y0 y1 d0 d1 dt : Rat) :
    genHerm 0 y0 y1 d0 d1 dt = y0 ∧ genHerm 1 y0 y1 d0 d1 dt = y1 := by
  constructor <;> h_unfold <;> push_cast <;> ring

/-- the interpolant is the cubic with the four Hermite data: `H(s) = y0 + (dy0·dt) s + c₂ s² + c₃ s³` -/
theorem hermite_cubic_form (s y0 y1 d0 d1 dt : Rat) :
    genHerm s y0 y1 d0 d1 dt =
      y0 + (d0 * dt) * s + (3 * (y1 - y0) - (2 * d0 + d1) * dt) * s ^ 2 + (-2 * (y1 - y0) + (d0 + d1) * dt) * s ^ 3 := by
  h_unfold; push_cast; ring

theorem hermite_WD (ρ : ℕ → ℝ) : WD ρ hermite := by simp [hermite, WD]

/-- **hermite_interpolates** (slopes): `H'(0) = dt·ẏ₀`, `H'(1) = dt·ẏ₁` as derivatives over ℝ -/
theorem hermite_slopes (ρ : ℕ → ℝ) :
    (ρ 0 = 0 → HasDerivAt (fun s => eval (Function.update ρ 0 s) hermite) (ρ 3 * ρ 5) 0) ∧
    (ρ 0 = 1 → HasDerivAt (fun s => eval (Function.update ρ 0 s) hermite) (ρ 4 * ρ 5) 1) := by
  have key := D_sound 0 ρ hermite (hermite_WD ρ)
  constructor
  · intro h0
    have e : eval ρ (D 0 hermite) = ρ 3 * ρ 5 := by
      simp only [hermite, D, eval, if_true, if_false, reduceIte, Nat.reduceEqDiff, Nat.reduceSub, OfNat.ofNat_ne_zero,
        Nat.succ_ne_zero, h0]
      push_cast; ring
    rw [e, h0] at key; exact key
  · intro h1
    have e : eval ρ (D 0 hermite) = ρ 4 * ρ 5 := by
      simp only [hermite, D, eval, if_true, if_false, reduceIte, Nat.reduceEqDiff, Nat.reduceSub, OfNat.ofNat_ne_zero,
        Nat.succ_ne_zero, h1]
      push_cast; ring
    rw [e, h1] at key; exact key

/-- with exact end slopes the interpolant reproduces every cubic polynomial (local error `O(dt⁴)`) -/
theorem hermite_reproduces_cubics (a b c d t0 h s : Rat) :
    let p := fun t : Rat => a + b * t + c * t ^ 2 + d * t ^ 3
    let p' := fun t : Rat => b + 2 * c * t + 3 * d * t ^ 2
    genHerm s (p t0) (p (t0 + h)) (p' t0) (p' (t0 + h)) h = p (t0 + s * h) := by
  intro p p'
  simp only [p, p']
  h_unfold; push_cast; ring

/-- **refined_section_coordinate**: at the linear crossing fraction `α` (where `(1−α) y0 + α y1 = 0`) the Hermite value
of the section coordinate is `α(1−α)[(1−α)(ẏ₀dt − Δ) − α(ẏ₁dt − Δ)]`, `Δ = y1 − y0` — second-order small, in general not
zero: this is the amount `enforce_section_coordinate` removes. -/
theorem refined_section_coordinate (a y0 y1 d0 d1 dt : Rat) (hz : (1 - a) * y0 + a * y1 = 0) :
    genHerm a y0 y1 d0 d1 dt =
      a * (1 - a) * ((1 - a) * (d0 * dt - (y1 - y0)) - a * (d1 * dt - (y1 - y0))) := by
  have e : genHerm a y0 y1 d0 d1 dt = ((1 - a) * y0 + a * y1) +
      a * (1 - a) * ((1 - a) * (d0 * dt - (y1 - y0)) - a * (d1 * dt - (y1 - y0))) := by
    h_unfold; push_cast; ring
  rw [e, hz, zero_add]

/-! ### tables and row functions of the interface -/

/-- the row layout `(q2, p2, q3, p3)` is the same in `_STATE_INDEX`, in `get_points_with_4d_states`, and in the model -/
theorem state_index_is_layout (sec : Sec) : stateIndex sec = sec.col ∧ state4dColumn sec = sec.col := by
  cases sec <;> exact ⟨rfl, rfl⟩

/-- **section_coordinate_zero** (traced `enforce_section_coordinate`): in every row the column of the section coordinate
becomes exactly `0` and the other three columns are unchanged, for all four sections. -/
theorem section_coordinate_zero (sec : Sec) (ρ : ℕ → Rat) (r : ℕ) (hr : r < 3) :
    ((enforceRows sec).getD r []).map (evalQ ρ) = zeroAt sec.col [ρ (4 * r), ρ (4 * r + 1), ρ (4 * r + 2), ρ (4 * r + 3)] ∧
    (zeroAt sec.col [ρ (4 * r), ρ (4 * r + 1), ρ (4 * r + 2), ρ (4 * r + 3)])[sec.col]? = some 0 := by
  have hr' : r = 0 ∨ r = 1 ∨ r = 2 := by omega
  rcases hr' with rfl | rfl | rfl <;> cases sec <;>
    simp [enforceRows, evalQ, zeroAt, Sec.col]

/-- **points_are_plane_coordinates** (traced `plane_points_from_states` + tables): for all four sections the two columns
of a point are the columns of the state named by `plane_coords`; these are the labels of the result; they are the
conjugate pair that does not contain the section coordinate. -/
theorem points_are_plane_coordinates (sec : Sec) (ρ : ℕ → Rat) (r : ℕ) (hr : r < 3) :
    ((planeRows sec).getD r []).map (evalQ ρ) =
        planeOf (planeCoords sec).1.col (planeCoords sec).2.col [ρ (4 * r), ρ (4 * r + 1), ρ (4 * r + 2), ρ (4 * r + 3)] ∧
      planeLabels sec = planeCoords sec ∧
      (planeCoords sec).2 = (planeCoords sec).1.conj ∧ (planeCoords sec).1.isQ = true ∧
      (planeCoords sec).1 ≠ sec ∧ (planeCoords sec).2 ≠ sec ∧
      (planeCoords sec).1 ≠ sec.conj ∧ (planeCoords sec).2 ≠ sec.conj := by
  have hr' : r = 0 ∨ r = 1 ∨ r = 2 := by omega
  rcases hr' with rfl | rfl | rfl <;> cases sec <;>
    simp [planeRows, planeCoords, planeLabels, evalQ, planeOf, Sec.col, Sec.conj, Sec.isQ]

/-- **seed_on_section** (traced `lift_plane_point`, `build_constraint_dict`, `build_state`, residual of
`solve_missing_coord`): the lifted seed has section coordinate exactly `0`, carries the plane point in the plane columns
and the root in the column of the conjugate of the section coordinate; the root finder is asked for that conjugate with
exactly the other three coordinates of the returned row fixed; and the Hamiltonian is evaluated at the 6-vector with the
same layout `[·, q2, q3, ·, p2, p3]` the integrator uses — so the seed satisfies `H(seed) = h0` iff the root is exact. -/
theorem seed_on_section (sec : Sec) (a b m : Rat) :
    let row := (liftRow sec).map (evalQ (envL [a, b, m]))
    row.length = 4 ∧ row[sec.col]? = some 0 ∧
      row[(planeCoords sec).1.col]? = some a ∧ row[(planeCoords sec).2.col]? = some b ∧
      liftSolvedFor sec = sec.conj ∧ row[sec.conj.col]? = some m ∧
      (∀ c v, (c, v) ∈ liftFixed sec → c ≠ liftSolvedFor sec ∧ row[c.col]? = some (evalQ (envL [a, b, m]) v)) ∧
      (liftFixed sec).map (·.1) ~ Sec.all.filter (· ≠ liftSolvedFor sec) ∧
      (∀ c : Sec, energyIdx6 c = c.idx6) := by
  intro row
  refine ⟨?_, ?_, ?_, ?_, ?_, ?_, ?_, ?_, ?_⟩
  · cases sec <;> simp [row, liftRow]
  · cases sec <;> simp [row, liftRow, evalQ, envL, Sec.col]
  · cases sec <;> simp [row, liftRow, evalQ, envL, Sec.col, planeCoords]
  · cases sec <;> simp [row, liftRow, evalQ, envL, Sec.col, planeCoords]
  · cases sec <;> rfl
  · cases sec <;> simp [row, liftRow, evalQ, envL, Sec.col, Sec.conj]
  · intro c v hcv
    cases sec <;> simp only [liftFixed, List.mem_cons, Prod.mk.injEq, List.mem_nil_iff, or_false] at hcv <;>
      rcases hcv with ⟨rfl, rfl⟩ | ⟨rfl, rfl⟩ | ⟨rfl, rfl⟩ <;>
      simp [row, liftRow, liftSolvedFor, evalQ, envL, Sec.col]
  · cases sec <;> decide
  · intro c; cases c <;> rfl

/-! ### the whole of `_CenterManifoldBackend.run` → `_poincare_map` → `_poincare_step`, integrator and vector field as oracles -/

theorem embed_getD (s : Vec) :
    (embed s).getD 1 0 = s.getD 0 0 ∧ (embed s).getD 4 0 = s.getD 1 0 ∧
    (embed s).getD 2 0 = s.getD 2 0 ∧ (embed s).getD 5 0 = s.getD 3 0 ∧
    (embed s).getD 0 0 = 0 ∧ (embed s).getD 3 0 = 0 := by
  simp [embed]

/-- **step_embed_traced**: the first integrator input is `[0, q2, q3, 0, p2, p3]` built from the seed row
`(q2, p2, q3, p3)`; every integrator call covers exactly `[0, dt]`. -/
theorem step_embed_traced (sec : Sec) (ρ : ℕ → Rat) :
    (stepX0 sec).map (evalQ ρ) = embed [ρ 0, ρ 1, ρ 2, ρ 3] ∧
    (stepTvals sec).length = 3 ∧ ∀ tv ∈ stepTvals sec, tv.map (evalQ ρ) = [0, ρ 4] := by
  cases sec <;> simp [stepX0, stepTvals, evalQ, embed]

macro "backend_case" hp:ident hm:ident hf0:ident hf1:ident hf2:ident hr2:ident hr3:ident hsec:ident hh:ident hdt:ident :
    tactic =>
  `(tactic| (
    simp only [stepPath, condsOk, List.all_cons, List.all_nil, Cmp.holds, evalQ, envB, Bool.and_true, Nat.reduceLT,
      Nat.reduceSub, if_true, if_false, reduceIte, Nat.reduceEqDiff, Int.cast_zero, Nat.cast_one, div_one,
      Bool.and_eq_true, beq_iff_eq, decide_eq_true_eq, decide_eq_false_iff_not, not_le, not_lt] at $hp:ident
    obtain ⟨h0, h1, h2, h3⟩ := $hp
    simp only [poincareStep, $hm:ident, stepLoop, $hf0:ident, $hf1:ident, $hf2:ident, $hr3:ident, $hsec:ident, detect,
      Sec.idx6, dirVal, (embed_getD _).1, (embed_getD _).2.1, (embed_getD _).2.2.1, (embed_getD _).2.2.2.1,
      ge_iff_le, h0, h1, if_true, not_le.mpr h2, if_false, gt_iff_lt, h3]
    simp only [Option.some.injEq, Hit.mk.injEq, refine, $hr2:ident, $hr3:ident, $hh:ident, $hdt:ident, genHerm, hermite,
      stepOut, List.take_succ_cons, List.take_zero, List.map_cons, List.map_nil, List.getD_cons_succ,
      List.getD_cons_zero, evalQ, envB, env6, envL, Nat.reduceLT, Nat.reduceSub, if_true, if_false, Nat.reduceEqDiff,
      List.cons.injEq, and_true] <;>
    (constructorm* _ ∧ _) <;> (first | (push_cast; ring) | (push_cast; done) | ring)))

/-- **backend_traced_eq_model**: the symbolic execution of the current `_CenterManifoldBackend.run` (through
`_poincare_map`, `_poincare_step`, `_detect_crossing`, `_hermite_scalar`) on a seed row, with integrator outputs
`X₁, X₂, X₃` and vector-field values `R₂, R₃` as free variables and the crossing found in the third step, returns exactly
what the model `poincareStep` returns for every oracle pair that produces these values: the Hermite point of
`(X₂, X₃, R₂, R₃)` at the linear fraction of the section coordinate, and the time `dt + dt + α·dt`. -/
theorem backend_traced_eq_model (sec : Sec) (seed x1 x2 x3 r0 r1 r2 r3 : Vec) (dt : Rat) (c : StepCfg)
    (hsec : c.sec = sec) (hdt : c.dt = dt) (hm : c.maxSteps = 3) (hh : c.herm = genHerm)
    (hf0 : c.flow (embed seed) = x1) (hf1 : c.flow x1 = x2) (hf2 : c.flow x2 = x3)
    (hr2 : c.rhs x2 = r2) (hr3 : c.rhs x3 = r3)
    (hp : condsOk (envB seed dt x1 x2 x3 r0 r1 r2 r3) (stepPath sec) = true) :
    poincareStep c seed = some ⟨((stepOut sec).take 4).map (evalQ (envB seed dt x1 x2 x3 r0 r1 r2 r3)),
       evalQ (envB seed dt x1 x2 x3 r0 r1 r2 r3) ((stepOut sec).getD 4 (.const 0 1))⟩ := by
  cases sec
  · backend_case hp hm hf0 hf1 hf2 hr2 hr3 hsec hh hdt
  · backend_case hp hm hf0 hf1 hf2 hr2 hr3 hsec hh hdt
  · backend_case hp hm hf0 hf1 hf2 hr2 hr3 hsec hh hdt
  · backend_case hp hm hf0 hf1 hf2 hr2 hr3 hsec hh hdt

/-- when no step of a `max_steps = 2` run sees a sign change, the backend returns no row and the model returns `none` -/
theorem backend_none_traced (sec : Sec) (seed x1 x2 x3 r0 r1 r2 r3 : Vec) (dt : Rat) (c : StepCfg)
    (hsec : c.sec = sec) (hm : c.maxSteps = 2)
    (hf0 : c.flow (embed seed) = x1) (hf1 : c.flow x1 = x2)
    (hp : condsOk (envB seed dt x1 x2 x3 r0 r1 r2 r3) (stepNonePath sec) = true) :
    poincareStep c seed = none ∧ stepNoneRows sec = 0 := by
  cases sec <;> (
    simp only [stepNonePath, condsOk, List.all_cons, List.all_nil, Cmp.holds, evalQ, envB, Bool.and_true, Nat.reduceLT,
      Nat.reduceSub, if_true, if_false, reduceIte, Nat.reduceEqDiff, Int.cast_zero, Nat.cast_one, div_one,
      Bool.and_eq_true, beq_iff_eq, decide_eq_true_eq, decide_eq_false_iff_not, not_le, not_lt] at hp
    obtain ⟨h0, h1⟩ := hp
    simp only [poincareStep, hm, stepLoop, hf0, hf1, hsec, detect, Sec.idx6, (embed_getD _).1, (embed_getD _).2.1,
      (embed_getD _).2.2.1, (embed_getD _).2.2.2.1, ge_iff_le, h0, h1, if_true, stepNoneRows, and_self])

/-! ## Part B — the model of the return step and of the engine -/

/-- **return_is_first_crossing**: a point returned by the step loop comes from the *first* pair of consecutive integrator
states `(X_k, X_{k+1})`, `k < max_steps`, whose section coordinate changes sign strictly in the documented direction; it is
the Hermite point of that pair at the linear fraction `α ∈ (0,1)`; its time is `k·dt + α·dt`, strictly inside the `k`-th
step for `dt > 0`. -/
theorem return_is_first_crossing (c : StepCfg) (seed : Vec) (h : Hit) (hs : poincareStep c seed = some h) :
    ∃ k a, k < c.maxSteps ∧
      (let old := iter c.flow k (embed seed)
       let new := iter c.flow (k + 1) (embed seed)
       detect c.sec old new (c.rhs new) = some a ∧
       old.getD c.sec.idx6 0 * new.getD c.sec.idx6 0 < 0 ∧ 0 < dirVal c.sec new (c.rhs new) ∧
       0 < a ∧ a < 1 ∧ (1 - a) * old.getD c.sec.idx6 0 + a * new.getD c.sec.idx6 0 = 0 ∧
       h.state = refine c a old new) ∧
      (∀ j, j < k → detect c.sec (iter c.flow j (embed seed)) (iter c.flow (j + 1) (embed seed))
          (c.rhs (iter c.flow (j + 1) (embed seed))) = none) ∧
      h.time = k * c.dt + a * c.dt ∧
      (0 < c.dt → k * c.dt < h.time ∧ h.time < (k + 1) * c.dt) := by
  obtain ⟨k, a, hk, hd, hnone, hst, ht⟩ := stepLoop_some c c.maxSteps (embed seed) 0 h hs
  obtain ⟨h1, h2, _, h4, h5, h6⟩ := crossing_sound _ _ _ _ a hd
  have ht' : h.time = k * c.dt + a * c.dt := by rw [ht]; ring
  refine ⟨k, a, hk, ⟨hd, h1, h2, h4, h5, h6, hst⟩, hnone, ht', ?_⟩
  intro hdt
  rw [ht']
  constructor <;> nlinarith

/-- **no_return_means_no_crossing**: a seed is dropped only if none of the `max_steps` integrator steps saw a strict sign
change in the documented direction -/
theorem no_return_means_no_crossing (c : StepCfg) (seed : Vec) (hs : poincareStep c seed = none) (j : ℕ)
    (hj : j < c.maxSteps) :
    let old := iter c.flow j (embed seed)
    let new := iter c.flow (j + 1) (embed seed)
    ¬ (old.getD c.sec.idx6 0 * new.getD c.sec.idx6 0 < 0 ∧ 0 < dirVal c.sec new (c.rhs new)) := by
  intro old new hcon
  have := stepLoop_none c c.maxSteps (embed seed) 0 hs j hj
  rw [crossing_complete c.sec _ _ _ hcon.1 hcon.2] at this
  simp at this

/-- the refined section coordinate of a returned point is the second-order Hermite residual, for the traced interpolant -/
theorem returned_section_coordinate (c : StepCfg) (hh : c.herm = genHerm) (a : Rat) (old new : Vec)
    (hz : (1 - a) * old.getD c.sec.idx6 0 + a * new.getD c.sec.idx6 0 = 0) :
    (refine c a old new).getD c.sec.col 0 =
      a * (1 - a) * ((1 - a) * ((c.rhs old).getD c.sec.idx6 0 * c.dt - (new.getD c.sec.idx6 0 - old.getD c.sec.idx6 0))
        - a * ((c.rhs new).getD c.sec.idx6 0 * c.dt - (new.getD c.sec.idx6 0 - old.getD c.sec.idx6 0))) := by
  cases hs : c.sec <;> simp only [hs, Sec.idx6, Sec.col] at hz ⊢ <;>
    simp only [refine, hh, List.getD_cons_zero, List.getD_cons_succ] <;>
    exact refined_section_coordinate _ _ _ _ _ _ hz

/-! ### the engine: chunks, workers, completion order -/

/-- **engine_schedule_independent**: for every return step (oracle), every number of workers, every number of iterations
and every completion order of the futures (`done` is any permutation of the workers' results), the rows the engine returns
are a permutation of the concatenation, over the seeds, of the sequential chains of successive returns — the multiset of
(state, time) rows does not depend on the partition into chunks nor on the order in which the thread pool finishes. -/
theorem engine_schedule_independent (step : Vec → Option Hit) (enf : Vec → Vec) (hidem : ∀ v, enf (enf v) = enf v)
    (nIter nWorkers : ℕ) (seeds : List Vec) (done : List (List Hit))
    (hdone : done ~ workerResults step enf nIter nWorkers seeds) :
    solveWith enf done ~ seeds.flatMap (chain step enf nIter) := by
  unfold solveWith
  rw [flatten_filter_not_isEmpty]
  have h1 : done.flatten ~ (workerResults step enf nIter nWorkers seeds).flatten := hdone.flatten
  unfold workerResults at h1
  have h2 := flatten_map_worker_perm step enf nIter
    ((arraySplit seeds (max 1 nWorkers)).filter (fun c => !c.isEmpty))
  rw [flatten_filter_not_isEmpty, arraySplit_flatten seeds (max 1 nWorkers) (by omega)] at h2
  have h3 := (h1.trans h2).map (enfHit enf)
  refine h3.trans (Perm.of_eq ?_)
  rw [List.map_flatMap]
  congr 1
  funext s
  exact map_enfHit_flatMap_chain step enf hidem nIter s

/-- two runs with different worker counts and completion orders return the same multiset of rows -/
theorem engine_worker_count_irrelevant (step : Vec → Option Hit) (enf : Vec → Vec) (hidem : ∀ v, enf (enf v) = enf v)
    (nIter w₁ w₂ : ℕ) (seeds : List Vec) (d₁ d₂ : List (List Hit))
    (h₁ : d₁ ~ workerResults step enf nIter w₁ seeds) (h₂ : d₂ ~ workerResults step enf nIter w₂ seeds) :
    solveWith enf d₁ ~ solveWith enf d₂ :=
  (engine_schedule_independent step enf hidem nIter w₁ seeds d₁ h₁).trans
    (engine_schedule_independent step enf hidem nIter w₂ seeds d₂ h₂).symm

theorem zeroAt_idem (i : ℕ) (v : Vec) : zeroAt i (zeroAt i v) = zeroAt i v := by
  simp [zeroAt]

theorem filterMap_range_getElem? {α : Type} (l : List α) : (List.range l.length).filterMap (l[·]?) = l := by
  induction l using List.reverseRecOn with
  | nil => rfl
  | append_singleton l a ih =>
    rw [List.length_append, List.length_singleton, List.range_succ, List.filterMap_append]
    have : (List.range l.length).filterMap ((l ++ [a])[·]?) = (List.range l.length).filterMap (l[·]?) := by
      apply List.filterMap_congr
      intro i hi
      rw [List.mem_range] at hi
      exact List.getElem?_append_left hi
    rw [this, ih]
    simp

/-- a completion order that is a permutation of the future indices delivers a permutation of the results -/
theorem pick_perm {α : Type} (l : List α) (order : List ℕ) (h : order ~ List.range l.length) : pick l order ~ l := by
  unfold pick
  have h1 : order.filterMap (l[·]?) ~ (List.range l.length).filterMap (l[·]?) := h.filterMap _
  rw [filterMap_range_getElem?] at h1
  exact h1

/-- **solve_schedule_independent**: the model of `_CenterManifoldEngine.solve` — seeds lifted from the plane points (points
outside the Hill region dropped), `np.array_split` into `max(1, n_workers)` chunks, one worker per non-empty chunk,
results gathered in the completion order `order`, section coordinate enforced — returns, for every worker count and every
completion order, a permutation of the sequential per-seed chains; the points are the plane coordinates of the states, row
by row; the `EngineError` branch is taken exactly when no plane point can be lifted. -/
theorem solve_schedule_independent (c : EngineCfg) (planePts : List Vec) (order : List ℕ)
    (horder : order ~ List.range
      (workerResults c.step (zeroAt c.zeroCol) c.nIter c.nWorkers (planePts.filterMap c.lift)).length) :
    (planePts.filterMap c.lift = [] → solve c planePts order = .error) ∧
    (planePts.filterMap c.lift ≠ [] →
      ∃ hits, solve c planePts order = .ok hits (hits.map fun h => planeOf c.planeI c.planeJ h.state) ∧
        hits ~ (planePts.filterMap c.lift).flatMap (chain c.step (zeroAt c.zeroCol) c.nIter)) := by
  constructor
  · intro h
    simp [solve, h]
  · intro h
    refine ⟨_, ?_, engine_schedule_independent c.step (zeroAt c.zeroCol) (zeroAt_idem _) c.nIter c.nWorkers _ _
      (pick_perm _ order horder)⟩
    simp only [solve]
    rw [if_neg (by simpa using h)]

/-- **section_coordinate_zero_engine**: every row returned by the engine has the enforced column exactly `0`
(for rows long enough to have that column) -/
theorem section_coordinate_zero_engine (enf : Vec → Vec) (i : ℕ) (henf : enf = zeroAt i) (done : List (List Hit))
    (h : Hit) (hm : h ∈ solveWith enf done) (hl : i < h.state.length) : h.state[i]? = some 0 := by
  unfold solveWith at hm
  obtain ⟨h0, _, rfl⟩ := List.mem_map.mp hm
  subst henf
  simp only [enfHit, zeroAt] at hl ⊢
  rw [List.getElem?_set]
  simp only [List.length_set] at hl
  simp [hl]

/-- the enforcement changes no other column -/
theorem enforce_keeps_other_columns (i j : ℕ) (hij : i ≠ j) (v : Vec) : (zeroAt i v)[j]? = v[j]? := by
  simp [zeroAt, List.getElem?_set, hij]

/-- **every_point_is_a_return**: every returned row is the (section-enforced) return of a state that is either a lifted
seed or the state of another returned row — its predecessor under the return step. -/
theorem every_point_is_a_return (step : Vec → Option Hit) (enf : Vec → Vec) (hidem : ∀ v, enf (enf v) = enf v)
    (nIter nWorkers : ℕ) (seeds : List Vec) (done : List (List Hit))
    (hdone : done ~ workerResults step enf nIter nWorkers seeds) (h : Hit) (hm : h ∈ solveWith enf done) :
    ∃ pred raw, (pred ∈ seeds ∨ ∃ h' ∈ solveWith enf done, h'.state = pred) ∧ step pred = some raw ∧
      h = enfHit enf raw := by
  have hp := engine_schedule_independent step enf hidem nIter nWorkers seeds done hdone
  have hm' := hp.mem_iff.mp hm
  obtain ⟨s, hs, hc⟩ := List.mem_flatMap.mp hm'
  obtain ⟨pred, raw, hpred, hst, he⟩ := mem_chain step enf nIter s h hc
  refine ⟨pred, raw, ?_, hst, he⟩
  rcases hpred with rfl | ⟨h', hh', rfl⟩
  · exact Or.inl hs
  · exact Or.inr ⟨h', hp.mem_iff.mpr (List.mem_flatMap.mpr ⟨s, hs, hh'⟩), rfl⟩

/-- at most `n_iter` rows per seed -/
theorem result_count_le (step : Vec → Option Hit) (enf : Vec → Vec) (hidem : ∀ v, enf (enf v) = enf v)
    (nIter nWorkers : ℕ) (seeds : List Vec) (done : List (List Hit))
    (hdone : done ~ workerResults step enf nIter nWorkers seeds) :
    (solveWith enf done).length ≤ seeds.length * nIter := by
  rw [(engine_schedule_independent step enf hidem nIter nWorkers seeds done hdone).length_eq]
  clear hdone
  induction seeds with
  | nil => simp
  | cons s rest ih =>
    simp only [List.flatMap_cons, List.length_append, List.length_cons, Nat.add_mul, Nat.one_mul]
    have := chain_length_le step enf nIter s
    omega

/-- the engine's enforcement column, the plane columns and the labels are those of the traced interface functions -/
def engineCfgOf (sec : Sec) (step : Vec → Option Hit) (lift : Vec → Option Vec) (nIter nWorkers : ℕ) : EngineCfg :=
  { step := step, lift := lift, zeroCol := stateIndex sec, planeI := stateIndex (planeCoords sec).1,
    planeJ := stateIndex (planeCoords sec).2, nIter := nIter, nWorkers := nWorkers }

/-- **map_points_on_section**: with the columns taken from the live tables, every 4-column row of the map has its section
coordinate exactly `0`, and its point is `(state[plane_coords[0]], state[plane_coords[1]])` — never the section coordinate
or its conjugate. -/
theorem map_points_on_section (sec : Sec) (step : Vec → Option Hit) (lift : Vec → Option Vec) (nIter nWorkers : ℕ)
    (planePts : List Vec) (order : List ℕ) (hits : List Hit) (pts : List Vec)
    (hs : solve (engineCfgOf sec step lift nIter nWorkers) planePts order = .ok hits pts) :
    pts = hits.map (fun h => [h.state.getD (planeCoords sec).1.col 0, h.state.getD (planeCoords sec).2.col 0]) ∧
    (∀ h ∈ hits, h.state.length = 4 → h.state[sec.col]? = some 0) := by
  unfold solve at hs
  dsimp only [engineCfgOf] at hs
  split at hs
  · exact absurd hs (by simp)
  injection hs with h1 h2
  constructor
  · rw [← h2, ← h1]
    simp only [planeOf, (state_index_is_layout _).1]
  · intro h hm hl
    rw [← h1] at hm
    have := section_coordinate_zero_engine (zeroAt (stateIndex sec)) (stateIndex sec) rfl _ h hm
    rw [(state_index_is_layout sec).1] at this
    exact this (by rw [hl]; cases sec <;> simp [Sec.col])

example : (solve (engineCfgOf .p2 (fun v => if v.getD 0 0 < 2 then some ⟨v.map (· + 1), 7⟩ else none)
      (fun p => if p.getD 0 0 < 0 then none else some [p.getD 0 0, 9, p.getD 1 0, 5]) 3 2)
      [[0, 1], [-1, 0], [1, 4]] [1, 0]) =
    .ok [⟨[2, 0, 5, 6], 7⟩, ⟨[1, 0, 2, 6], 7⟩, ⟨[2, 0, 3, 7], 7⟩] [[5, 6], [2, 6], [3, 7]] := by
  decide +kernel

/-! ### non-vacuity -/

/-- a concrete oracle pair: the integrator adds `(1, 0, 2, 0, 0, 1/2)` per step, the vector field is constant -/
def exCfg (sec : Sec) (n : ℕ) : StepCfg :=
  { sec := sec, dt := 1 / 4, maxSteps := n,
    flow := fun x => [x.getD 0 0 + 1, x.getD 1 0, x.getD 2 0 + 2, x.getD 3 0, x.getD 4 0, x.getD 5 0 + 1 / 2],
    rhs := fun _ => [0, 1, 8, 0, 0, 2], herm := genHerm }

-- non-vacuity of `return_is_first_crossing` / `backend_traced_eq_model`: q3 goes -5, -3, -1, 1 (crossing in the third step, p3 > 0)
example : poincareStep (exCfg .q3 3) [1, 2, -5, 1] = some ⟨[1, 2, 0, 9 / 4], 5 / 8⟩ := by decide +kernel
example : condsOk (envB [1, 2, -5, 1] (1 / 4) [1, 1, -3, 0, 2, 3 / 2] [2, 1, -1, 0, 2, 2] [3, 1, 1, 0, 2, 5 / 2]
    [] [] [0, 1, 8, 0, 0, 2] [0, 1, 8, 0, 0, 2]) (stepPath .q3) = true := by decide +kernel
-- `no_return_means_no_crossing`: two steps are not enough
example : poincareStep (exCfg .q3 2) [1, 2, -5, 1] = none := by decide +kernel
-- `engine_schedule_independent`: 5 seeds, 2 iterations, 1 worker versus 3 workers finishing in the order 2,0,1
example :
    let step : Vec → Option Hit := fun v => if v.getD 0 0 < 3 then some ⟨v.map (· + 1), v.getD 0 0⟩ else none
    let seeds : List Vec := [[0, 0, 5, 0], [1, 0, 6, 0], [2, 0, 7, 0], [3, 0, 8, 0], [0, 0, 9, 0]]
    let r1 := workerResults step (zeroAt 1) 2 1 seeds
    let r3 := workerResults step (zeroAt 1) 2 3 seeds
    r3.length = 3 ∧ solveWith (zeroAt 1) r1 ≠ solveWith (zeroAt 1) (pick r3 [2, 0, 1]) ∧
      solveWith (zeroAt 1) r1 ~ solveWith (zeroAt 1) (pick r3 [2, 0, 1]) := by
  decide +kernel

end HitenModel.Props.C14
