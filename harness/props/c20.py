"""C20 — cached and reloaded objects always reflect their current logical state.

Model (lean/HitenModel/Core/C20.lean): `_make_hashable` / `make_key` on Python values, key shapes per `make_key` call
site, the `_cache` dict, and state machines for a periodic orbit + a manifold built on it and for a centre manifold;
next to each machine the *fresh twin* (spec) that recomputes every answer from the logical state.  Heavy numerics are
oracle symbols.  Theorems: Props/C20.lean (generic: make_hashable_injective, no_stale_read, the exact characterisation
`sound_iff_no_stale` with the shortest stale histories, reset_clears_dependents, centre-manifold twins) and
Props/C20_Tree.lean (their instances for the regenerated data: keys_separate, tree_orbit_cfg_sound, …).

Tie (every run):
  * regenerated `Gen/C20.lean`: (a) `keepValues`, probed on the live `make_key`; (b) the behaviour switches `orbitCfg`,
    `cmCfg`, each probed on the REAL objects (numerics stubbed by monkey-patching) with the discriminating history that
    Lean proves characteristic for it (`witness_discriminates`); (c) `services`: the key shape of every `make_key`
    call site of every service class, from a census over the live classes (literal tags = constants of the live code
    object, argument classes from live calls);
  * correspondence: bounded-exhaustive + seeded random operation histories are executed on the REAL objects (stubbed
    numerics that encode their actual inputs), on a REAL fresh twin rebuilt from the public getters before every
    operation, and on the Lean model / Lean spec through Drivers/C20.lean; all four output streams are compared;
    `make_key` itself is compared on random nested values; every key recorded while the histories run must match the
    regenerated shape of its call site;
  * un-stubbed: System / libration point queries against fresh twins, save/load round trips of cheap objects, and an
    un-stubbed reconfirmation of each stale-read finding.
"""
from __future__ import annotations

import itertools
import math
import os
import sys
import tempfile
import time
import types

import numpy as np

P = 1000003
METHODS = ["fixed", "adaptive", "symplectic"]
FORMS = ["center_manifold_real", "center_manifold_complex", "physical", "real_normal"]

ORBIT_FLAGS = ["propHitRefreshesTraj", "corrKeyHasState", "corrApplyOnHit", "corrCfgSetterResets",
               "applyClearsShadows", "manKeyHasOrbitState", "manHitRefreshesResult", "manResultChecksOrbit",
               "saveOverridesStale"]
# same list (and order) as `witnesses` in Props/C20.lean: (start state, history)
ORBIT_WITNESSES = [
    (1, "SP 5;PR 50 1 8;PR 80 1 8;PR 50 1 8;TR"),
    (2, "CO 0;CO 0"),
    (1, "CO 0;SP 9;CO 0;GP"),
    (1, "CO 0;SC 5;CO 0"),
    (2, "SP 20;PR 50 1 8;CO 0;TR"),
    (1, "SP 5;MC 0;SP 6;MC 0"),
    (1, "SP 5;MC 0;MC 1;MC 0;MR"),
    (1, "SP 5;MC 0;SP 6;MR"),
    (1, "SP 5;SL;SP -;SL;GP"),
]
ORBIT_KEYS = [
    ("orbit:propagate-cache-hit-keeps-old-trajectory",
     "propagate(a); propagate(b); propagate(a); trajectory returns the trajectory of b (cache hit does not re-point _trajectory)"),
    ("orbit:correct-cache-ignores-state",
     "correct(); correct() returns the cached tuple of the first call although the orbit's state changed (correction cache keyed by options only)"),
    ("orbit:correct-cache-hit-not-applied",
     "correct(); period := T'; correct() returns the cached tuple and leaves the orbit at T' (cached correction is not applied)"),
    ("orbit:correction-config-setter-keeps-cache",
     "correct(); correction_config := c'; correct() returns the result computed with the old configuration"),
    ("orbit:apply-correction-keeps-trajectory-when-period-unchanged",
     "propagate(); correct() that moves the state but returns the same period; trajectory / eigenvalues still belong to the old state"),
    ("manifold:cache-ignores-orbit-state",
     "manifold.compute(c); orbit.period := T'; manifold.compute(c) returns the manifold of the old period (key has only id(orbit))"),
    ("manifold:compute-cache-hit-keeps-old-result",
     "compute(a); compute(b); compute(a); manifold.result is the result of b"),
    ("manifold:result-survives-orbit-change",
     "compute(a); orbit.period := T'; manifold.result still shows the result for the old period"),
    ("saveload:stale-attribute-resurrected",
     "save; load; period := None (or anything that resets _trajectory/_stability_info to None); save; load brings the old period / trajectory back (__getstate__ skips None and keeps the copy an earlier load left in __dict__)"),
]


def mix(M, seed, tag, args):
    p = 31
    acc = tag * 7919 + seed
    for a in args:
        acc = (acc + (a + 1) * p) % P
        p = p * 31 % P
    return acc % M


class MixOracle:
    """the hash family of Drivers/C20.lean (`mkOracle M seed`)"""

    def __init__(self, M, seed):
        self.M, self.seed = M, seed

    def prop(self, x, T, s, m, r): return mix(P, self.seed, 1, [x, T, s, m, r])
    def mono(self, x, T): return mix(P, self.seed, 2, [x, T])
    def stab(self, x, T): return mix(P, self.seed, 3, [x, T])
    def energy(self, x): return mix(P, self.seed, 4, [x])
    def corr(self, x, c, o): return (mix(self.M, self.seed, 5, [x, c, o]), mix(self.M, self.seed, 6, [x, c, o]))
    def man(self, x, T, c): return mix(P, self.seed, 7, [x, T, c])
    # centre manifold
    def pipe(self, n): return mix(P, self.seed, 11, [n])
    def ham(self, p, f): return mix(P, self.seed, 12, [p, f])
    def hsys(self, p): return mix(P, self.seed, 13, [p])
    def cmap(self, n, e): return mix(P, self.seed, 14, [n, e])
    # stability pipeline
    def eigcls(self, c, o): return mix(P, self.seed, 21, [c, o])


class O0(MixOracle):
    """the oracle `O0` of Props/C20.lean (used for the witness histories)"""

    def __init__(self):
        super().__init__(P, 0)

    def prop(self, x, T, s, m, r): return 1 + x + 10 * T + 1000 * s + 100000 * m + 1000000 * r
    def mono(self, x, T): return 2 + x + 10 * T
    def stab(self, x, T): return 3 + x + 10 * T
    def energy(self, x): return 4 + x
    def corr(self, x, c, o): return (1 if x == 1 else x + 1, 20 + c + o)
    def man(self, x, T, c): return 5 + x + 10 * T + 1000 * c
    def pipe(self, n): return 100 + n
    def ham(self, p, f): return 7 * p + f
    def hsys(self, p): return 3 * p + 1
    def cmap(self, n, e): return 1000 * n + e
    def eigcls(self, c, o): return 10 * c + o + 1   # `R0` of Props/C20.lean


# ----------------------------------------------------------------------------------------------------------------
# the real package with stubbed numerics
# ----------------------------------------------------------------------------------------------------------------
H = types.SimpleNamespace()   # lazily imported hiten modules / shared real objects


def load_hiten():
    if getattr(H, "ready", False):
        return
    import logging
    logging.disable(logging.CRITICAL)
    import hiten.algorithms.types.services.orbits as SO
    import hiten.algorithms.types.services.manifold as SM
    import hiten.algorithms.types.services.center as SC
    import hiten.algorithms.types.services.system as SS
    import hiten.algorithms.types.services.libration as SLb
    import hiten.algorithms.types.services.base as SB
    from hiten.algorithms.corrector.base import CorrectorPipeline
    from hiten.algorithms.integrators.types import _Solution
    from hiten.algorithms.linalg.base import StabilityPipeline
    from hiten.algorithms.linalg.config import EigenDecompositionConfig
    from hiten.algorithms.linalg.options import EigenDecompositionOptions
    from hiten.algorithms.linalg.types import _ProblemType, _SystemType
    H.StabilityPipeline, H.EigCfg, H.EigOpt, H._ProblemType, H._SystemType = StabilityPipeline, EigenDecompositionConfig, EigenDecompositionOptions, _ProblemType, _SystemType
    from hiten.system import System
    from hiten.system.center import CenterManifold
    from hiten.system.manifold import Manifold
    from hiten.system.orbits.base import GenericOrbit
    from hiten.system.orbits.lyapunov import LyapunovOrbit
    H.SO, H.SM, H.SC, H.SS, H.SLb, H.SB = SO, SM, SC, SS, SLb, SB
    H.CorrectorPipeline, H._Solution = CorrectorPipeline, _Solution
    H.System, H.CenterManifold, H.Manifold, H.GenericOrbit, H.LyapunovOrbit = System, CenterManifold, Manifold, GenericOrbit, LyapunovOrbit
    H.system = System.from_bodies("earth", "moon")
    H.l1 = H.system.get_libration_point(1)
    H.l1.position  # warm the libration-point cache (real numerics, cheap)
    H.tmp = tempfile.mkdtemp(prefix="c20_")
    H.ready = True


class FakeResult:
    pass


class FakeHamsys:
    def __init__(self, tok): self.tok = tok


class FakeHam:
    def __init__(self, tok, hs): self.tok, self.hamsys = tok, FakeHamsys(hs)


class FakePipeline:
    def __init__(self, orc, degree):
        self.orc, self.degree, self.tok = orc, degree, orc.pipe(degree)

    def get_hamiltonian(self, form):
        return FakeHam(self.orc.ham(self.tok, FORMS.index(form)), self.orc.hsys(self.tok))


class FakePipelineService:
    def __init__(self, orc): self.orc = orc
    def get(self, point, degree): return FakePipeline(self.orc, int(degree))


class FakeMap:
    def __init__(self, cm, energy):
        self.tok = STUBS.orc.cmap(int(cm.degree), int(round(energy)))


class FakeLinalg:
    def stability_indices(self, Phi):
        v = np.array([Phi[0, 0]])
        return v, v.copy(), v.copy()


def xt(vec):
    return int(round(float(np.asarray(vec)[0])))


def Tt(period):
    return int(round(float(period))) - 1


class Stubs:
    """monkey-patches the heavy numerics by functions that encode their *actual inputs* through an oracle"""

    def __init__(self):
        self.orc = None
        self.saved = []
        self.opt_cache = {}

    def patch(self, obj, name, val):
        self.saved.append((obj, name, getattr(obj, name)))
        setattr(obj, name, val)

    def install(self):
        load_hiten()
        st = self

        def fake_prop(dynsys, state0, t0, tf, forward=1, steps=1000, method="adaptive", order=8, **kw):
            if tf is None:
                raise ValueError("Period must be set (stub)")
            v = st.orc.prop(xt(state0), Tt(tf), int(steps), METHODS.index(method), int(order))
            states = np.zeros((2, 6))
            states[0, 0] = v
            return H._Solution(np.array([0.0, float(tf)]), states)

        def fake_mono(dynsys, x0, period, **kw):
            M = np.eye(6)
            M[0, 0] = st.orc.mono(xt(x0), Tt(period))
            return M

        def fake_stm(dynsys, x0, tf, steps=2000, forward=1, **kw):
            if tf is None:
                raise ValueError("Period must be set (stub)")
            M = np.eye(6)
            M[0, 0] = st.orc.stab(xt(x0), Tt(tf))
            return None, None, M, None

        def fake_energy(state, mu):
            return float(st.orc.energy(xt(state)))

        def fake_correct(pipe, domain_obj, options=None, **kw):
            c = int(round(pipe._config.target[0]))
            o = int(round(-math.log2(options.base.convergence.tol))) - 10
            x2, T2 = st.orc.corr(xt(domain_obj.initial_state), c, o)
            r = FakeResult()
            r.x_corrected = np.array([float(x2), 0, 0, 0, 0, 0])
            r.half_period = (T2 + 1.0) / 2.0
            r.iterations = 1
            r.residual_norm = 0.0
            return r

        def fake_run_compute(svc, *, step, integration_fraction, NN, displacement, method, order, dt, energy_tol,
                             safe_distance, show_progress):
            orbit = svc.orbit
            if orbit.period is None:
                raise ValueError("Period must be set (stub)")
            c = (int(round(displacement * 1e6)) - 1) + 2 * (int(round(0.5 / step)) - 1)
            v = st.orc.man(xt(orbit.initial_state), Tt(orbit.period), c)
            return ([], [], [np.array([[float(v), 0, 0, 0, 0, 0]])], [np.array([0.0])], 1, 1)

        def fake_eig_compute(pipe, domain_obj=None, options=None):
            c = 1 if pipe._config.system_type == H._SystemType.CONTINUOUS else 0
            o = int(round(-math.log2(options.delta))) - 10
            v = np.array([float(st.orc.eigcls(c, o))])
            pipe._results = types.SimpleNamespace(stable=v, unstable=v.copy(), center=v.copy(), Ws=v.copy(), Wu=v.copy(), Wc=v.copy())
            return pipe._results

        self.stab_stub = fake_eig_compute
        self.patch(H.SO, "_propagate_dynsys", fake_prop)
        self.patch(H.SS, "_propagate_dynsys", fake_prop)
        self.patch(H.SO, "_compute_monodromy", fake_mono)
        self.patch(H.SO, "_compute_stm", fake_stm)
        self.patch(H.SO, "_LinalgBackend", FakeLinalg)
        self.patch(H.SO, "crtbp_energy", fake_energy)
        self.patch(H.CorrectorPipeline, "correct", fake_correct)
        self.patch(H.SM._ManifoldDynamicsService, "_run_compute", fake_run_compute)
        self.patch(H.SC, "get_hamiltonian_services",
                   lambda: types.SimpleNamespace(conversion=None, pipeline=FakePipelineService(st.orc)))
        self.patch(H.SC, "CenterManifoldMap", FakeMap)

    def stub_stability(self):
        """additionally stub the eigen-classification and the manifold's STM (used by the stability histories only)"""
        self.patch(H.StabilityPipeline, "compute", self.stab_stub)
        self.patch(H.SM, "_compute_stm", lambda *a, **k: (None, None, np.eye(6), None))

    def restore(self):
        for obj, name, val in reversed(self.saved):
            setattr(obj, name, val)
        self.saved = []

    def options(self, orbit, o):
        if o not in self.opt_cache:
            d = orbit.correction_options
            self.opt_cache[o] = d.merge(base=d.base.merge(convergence=d.base.convergence.merge(tol=2.0 ** -(10 + o))))
        return self.opt_cache[o]


STUBS = Stubs()


def classify_exc(e):
    msg = str(e)
    if isinstance(e, ValueError) and "Period must be set" in msg:
        return "e1"
    if isinstance(e, ValueError) and "Trajectory not computed" in msg:
        return "e2"
    if isinstance(e, TypeError):
        return "e3"
    if isinstance(e, ValueError) and "positive" in msg:
        return "e4"
    return "e?%s:%s" % (type(e).__name__, msg[:60].replace(" ", "_"))


def new_orbit(x, T):
    o = H.LyapunovOrbit(H.l1, initial_state=[float(x), 0, 0, 0, 0, 0])
    if T is not None:
        o.period = T + 1.0
    return o


class RealOrbit:
    """executes the operation alphabet on a real LyapunovOrbit (+ Manifold) and canonicalises the outputs"""

    def __init__(self, x, T, orbit=None):
        self.o = orbit if orbit is not None else new_orbit(x, T)
        self.m = H.Manifold(self.o)

    def obs(self):
        p = self.o.period
        return xt(self.o.initial_state), (None if p is None else Tt(p))

    def do(self, op):
        a = op.split()
        try:
            return self._do(a)
        except Exception as e:  # noqa: BLE001 — error outputs are part of the alphabet
            return classify_exc(e)

    def _do(self, a):
        o = self.o
        k = a[0]
        if k == "SP":
            o.period = None if a[1] == "-" else int(a[1]) + 1.0
            return "u"
        if k == "SPB":
            o.period = -1.0
            return "u"
        if k == "SC":
            o.correction_config = o.correction_config.merge(target=(float(a[1]), 0.0))
            return "u"
        if k == "PR":
            tr = o.propagate(steps=int(a[1]), method=METHODS[int(a[2])], order=int(a[3]))
            return "t%d" % int(round(tr.states[0, 0]))
        if k == "TR":
            return "t%d" % int(round(o.trajectory.states[0, 0]))
        if k == "MO":
            return "t%d" % int(round(o.monodromy[0, 0]))
        if k == "CS":
            return "t%d" % int(round(np.real(o.dynamics.compute_stability()[1][0])))
        if k == "EV":
            return "t%d" % int(round(np.real(o.eigenvalues[0])))
        if k == "EN":
            return "t%d" % int(round(o.energy))
        if k == "GP":
            p = o.period
            return "o-" if p is None else "o%d" % Tt(p)
        if k == "GS":
            return "t%d" % xt(o.initial_state)
        if k == "MC":
            c = int(a[1])
            r = self.m.compute(displacement=(c % 2 + 1) * 1e-6, step=0.5 / (c // 2 + 1), show_progress=False)
            return "t%d" % int(round(r[2][0][0, 0]))
        if k == "MR":
            r = self.m.result
            return "o-" if r is None else "o%d" % int(round(r[2][0][0, 0]))
        if k == "SL":
            path = os.path.join(H.tmp, "orbit.pkl")
            o.save(path)
            self.o = H.LyapunovOrbit.load(path)
            self.m = H.Manifold(self.o)
            return "u"
        raise RuntimeError("unknown op " + k)


def _do_correct(ro, otok):
    """`correct(options)`: canonical output is the pair (state, period) of the returned CorrectionResult"""
    res = ro.o.correct(STUBS.options(ro.o, otok))
    return "p%d,%d" % (xt(res.x_corrected), Tt(2.0 * res.half_period))


def real_do(ro, op):
    """canonical output of the operation, augmented with the public state after it: `<out>@<state>,<period>`"""
    if op.startswith("CO"):
        try:
            out = _do_correct(ro, int(op.split()[1]))
        except Exception as e:  # noqa: BLE001
            out = classify_exc(e)
    else:
        out = ro.do(op)
    x, T = ro.obs()
    return "%s@%d,%s" % (out, x, "-" if T is None else T)


class TwinTracker:
    """rebuilds a REAL fresh twin from the public getters of the object before every operation; the only history it
    keeps is what has no getter: the settings of the last propagate / manifold compute (dropped as the spec says)"""

    def __init__(self):
        self.last = None
        self.mlast = None

    def twin_output(self, ro, op):
        x, T = ro.obs()
        tw = RealOrbit(x, T)
        tw.o.correction_config = ro.o.correction_config
        k = op.split()[0]
        if k == "TR" and self.last is not None:
            real_do(tw, self.last)
        if k == "MR":
            if self.mlast is not None and self.mlast[1] == (x, T):
                real_do(tw, self.mlast[0])
        if k == "SL":
            return "u@%d,%s" % (x, "-" if T is None else T)
        return real_do(tw, op)

    def after(self, ro, op, before, out):
        now = ro.obs()
        k = op.split()[0]
        if now != before:
            self.last = None
        if k == "PR" and out.startswith("t"):
            self.last = op
        if k == "MC" and out.startswith("t"):
            self.mlast = (op, now)
        if k == "SL":
            self.mlast = None


def run_orbit_history(x, T, ops, twin="all"):
    """-> (real outputs, twin outputs or None per op)"""
    ro = RealOrbit(x, T)
    tt = TwinTracker()
    outs, touts = [], []
    for i, op in enumerate(ops):
        before = ro.obs()
        want = twin == "all" or (twin == "last" and i == len(ops) - 1)
        touts.append(tt.twin_output(ro, op) if want else None)
        out = real_do(ro, op)
        outs.append(out)
        tt.after(ro, op, before, out)
    return outs, touts


# ---------------------------------------------------------------- centre manifold
class RealCM:
    def __init__(self, d, cm=None):
        self.cm = cm if cm is not None else H.CenterManifold(H.l1, d)

    def do(self, op):
        a = op.split()
        try:
            out = self._do(a)
        except Exception as e:  # noqa: BLE001
            if isinstance(e, ValueError) and "positive integer" in str(e):
                out = "e4"
            else:
                out = "e?%s:%s" % (type(e).__name__, str(e)[:60].replace(" ", "_"))
        return "%s@%d" % (out, self.cm.degree)

    def _do(self, a):
        cm = self.cm
        k = a[0]
        if k == "SD":
            cm.degree = int(a[1])
            return "u"
        if k == "SDB":
            cm.degree = 0
            return "u"
        if k == "GD":
            return "t%d" % cm.degree
        if k == "HA":
            return "t%d" % cm.hamiltonian(int(a[1])).tok
        if k == "CP":
            return "t%d" % cm.compute(FORMS[int(a[1])]).tok
        if k == "HS":
            return "t%d" % cm.dynamics.hamsys.tok
        if k == "MP":
            return "t%d" % cm.poincare_map(float(a[1])).tok
        if k == "SL":
            path = os.path.join(H.tmp, "cm.pkl")
            cm.save(path)
            self.cm = H.CenterManifold.load(path)
            return "u"
        raise RuntimeError("unknown op " + k)


def run_cm_history(d, ops, twin="all"):
    rc = RealCM(d)
    outs, touts = [], []
    for i, op in enumerate(ops):
        want = twin == "all" or (twin == "last" and i == len(ops) - 1)
        if want:
            touts.append("u@%d" % rc.cm.degree if op == "SL" else RealCM(rc.cm.degree).do(op))
        else:
            touts.append(None)
        outs.append(rc.do(op))
    return outs, touts


# ---------------------------------------------------------------- stability pipeline cache
STAB_ALPHABET = ["ST 0", "ST 1", "ST 2", "EG", "SO 0", "SO 1", "SG 0", "SG 1"]
STAB_KEYS = [
    ("stability:pipeline-shared-across-options",
     "compute_stability(A); compute_stability(B); compute_stability(A) (or eigenvalues with default options A) returns the classification computed with B: every options key caches the same StabilityPipeline object"),
    ("stability:config-setter-keeps-cache",
     "compute_stability(A); eigendecomposition_config := c'; compute_stability(A) returns the classification of the old configuration"),
]


def eig_opts(o):
    return H.EigOpt(delta=2.0 ** -(10 + o), tol=1e-6)


def eig_cfg(c):
    return H.EigCfg(problem_type=H._ProblemType.EIGENVALUE_DECOMPOSITION,
                    system_type=H._SystemType.CONTINUOUS if c == 1 else H._SystemType.DISCRETE)


class RealStab:
    """the `compute_stability(options)` cache of a real Manifold ('man') or LibrationPoint ('lib') dynamics service;
    the eigen-classification (`StabilityPipeline.compute`) is stubbed, the STM of the manifold too"""

    def __init__(self, kind, c, o):
        self.kind = kind
        if kind == "man":
            self.obj = H.Manifold(new_orbit(1, 0))
        else:
            self.obj = H.System.from_mu(0.01).get_libration_point(1)
        self.dyn = self.obj.dynamics
        self.dyn.eigendecomposition_config = eig_cfg(c)
        self.dyn.eigendecomposition_options = eig_opts(o)
        self.c, self.o = c, o

    def do(self, op):
        a = op.split()
        try:
            if a[0] == "ST":
                return "t%d" % int(round(float(self.dyn.compute_stability(eig_opts(int(a[1]))).eigenvalues[0][0])))
            if a[0] == "EG":
                return "t%d" % int(round(float(self.dyn.eigenvalues[0][0])))
            if a[0] == "SO":
                self.dyn.eigendecomposition_options = eig_opts(int(a[1]))
                self.o = int(a[1])
                return "u"
            if a[0] == "SG":
                self.dyn.eigendecomposition_config = eig_cfg(int(a[1]))
                self.c = int(a[1])
                return "u"
        except Exception as e:  # noqa: BLE001
            return "e?%s:%s" % (type(e).__name__, str(e)[:60].replace(" ", "_"))
        raise RuntimeError("unknown op " + op)


def run_stab_history(kind, c, o, ops, twin="all"):
    rs = RealStab(kind, c, o)
    outs, touts = [], []
    for i, op in enumerate(ops):
        want = twin == "all" or (twin == "last" and i == len(ops) - 1)
        # the fresh twin is rebuilt from the public getters (configuration, default options)
        if want:
            cfg = rs.dyn.eigendecomposition_config
            cc = 1 if cfg.system_type == H._SystemType.CONTINUOUS else 0
            oo = int(round(-math.log2(rs.dyn.eigendecomposition_options.delta))) - 10
            touts.append(RealStab(kind, cc, oo).do(op))
        else:
            touts.append(None)
        outs.append(rs.do(op))
    return outs, touts


def probe_stab_flags(kind):
    STUBS.orc = O0()
    res, detail = [], []
    for hist in (["ST 0", "ST 1", "ST 0"], ["ST 0", "SG 1", "ST 0"]):
        outs, touts = run_stab_history(kind, 0, 0, hist, twin="all")
        res.append(outs == touts)
        detail.append({"history": hist, "observed": outs, "fresh_twin": touts})
    return res, detail


def correspond_stab(ctx, G):
    n_model_bad = n_spec_bad = n_stale = 0
    ex = []
    for kind in ("man", "lib"):
        flags = G["sflags"][kind]
        hs = []
        nmax = 4 if ctx.thorough() else 3
        for n in range(1, nmax + 1):
            for ops in itertools.product(STAB_ALPHABET, repeat=n):
                hs.append(("stab-exh%d" % n, list(ops), "last"))
        for _ in range(40 if ctx.thorough() else 10):
            hs.append(("stab-walk", [ctx.rng.choice(STAB_ALPHABET) for _ in range(30)], "all"))
        lines, real = [], []
        for (hk, ops, twin) in hs:
            seed = ctx.rng.randrange(1000)
            c, o = ctx.rng.choice([0, 1]), ctx.rng.choice([0, 1])
            STUBS.orc = MixOracle(P, seed)
            outs, touts = run_stab_history(kind, c, o, ops, twin=twin)
            real.append((outs, touts, seed, c, o))
            lines.append("S %d %d %d %d %d ; %s" % (flags[0], flags[1], seed, c, o, " ; ".join(ops)))
        out = ctx.lean_run("Drivers/C20.lean", "\n".join(lines) + "\n")
        for (hk, ops, twin), (outs, touts, seed, c, o), ln in zip(hs, real, out):
            m_out, s_out = [p.split() for p in ln.split("|")]
            ctx.case((kind, hk, tuple(ops)) if hk != "stab-walk" else (kind, hk, seed), nontrivial=len(set(outs)) > 2, kind=kind + "-" + hk)
            ctx.corr_cases += 1
            if outs != m_out:
                n_model_bad += 1
                i = first_diff(outs, m_out)
                if len(ex) < 3:
                    ex.append({"object": kind, "start": [c, o], "ops": ops[:i + 1], "real": outs[:i + 1], "model": m_out[:i + 1]})
            j = spec_twin_mismatch(outs, touts, s_out)
            if j is not None:
                n_spec_bad += 1
                if n_spec_bad <= 3:
                    ctx.broken.append(("correspondence:stability-spec-vs-real-twin", "%s history %s: Lean twin %s, real twin %s" % (kind, ops[:j + 1], s_out[j], touts[j])))
            k = first_diff(outs, touts)
            if k is not None:
                n_stale += 1
                if (outs[:k + 1] != m_out[:k + 1] or all(flags)) and len([v for v in ctx.violations if v["key"].startswith("stability:history:")]) < 3:
                    ctx.violation("stability:history:%s:%s" % (kind, ";".join(ops[:k + 1])),
                                  "stale eigen-classification on the real %s (classification stubbed): %s, fresh twin %s" % ({"man": "Manifold", "lib": "LibrationPoint"}[kind], outs[k], touts[k]),
                                  {"object": kind, "start_config_options": [c, o], "history": ops[:k + 1], "observed": outs[:k + 1], "fresh_twin_last": touts[k],
                                   "legend": "ST=compute_stability(options k).eigenvalues, EG=eigenvalues (default options), SO=eigendecomposition_options:=k, SG=eigendecomposition_config:=k (0 discrete, 1 continuous)"})
    ctx.extra["stability_stale_reads_on_real_objects"] = n_stale
    if n_model_bad:
        ctx.broken.append(("correspondence:stability-histories", "%d histories: real compute_stability cache and Lean model differ, e.g. %r" % (n_model_bad, ex[:2])))
    ctx.obligations["correspondence:stability-histories"] = (n_model_bad == 0)
    ctx.obligations["correspondence:stability-spec-vs-real-twin"] = (n_spec_bad == 0)


# ----------------------------------------------------------------------------------------------------------------
# probing the behaviour switches, census of the key sites
# ----------------------------------------------------------------------------------------------------------------
def probe_orbit_flags():
    STUBS.orc = O0()
    flags, detail = [], []
    for (x, hist) in ORBIT_WITNESSES:
        ops = hist.split(";")
        outs, touts = run_orbit_history(x, None, ops, twin="all")
        flags.append(outs == touts)
        detail.append({"start_state": x, "history": ops, "observed": outs, "fresh_twin": touts})
    return flags, detail


def probe_cm_flags():
    STUBS.orc = O0()
    o1, _ = run_cm_history(6, ["HA 4", "GD"], twin=None)
    o2, _ = run_cm_history(6, ["HA 4", "SD 6", "HA 4", "GD"], twin=None)
    if o1[1].startswith("t6"):
        hamdeg = 0
    elif o2[3].startswith("t4"):
        hamdeg = 2
    else:
        hamdeg = 1
    o3, t3 = run_cm_history(6, ["HS", "SD 4", "HS"], twin="all")
    o4, t4 = run_cm_history(6, ["HS", "SL", "SD 4", "SL", "HS"], twin="all")
    # the save/load history is only characteristic when the setter clears `_hamsys` (otherwise it is stale anyway)
    return hamdeg, (o3 == t3), (o4 == t4) or (o3 != t3), {"ham4;GD": o1, "ham4;SD6;ham4;GD": o2, "HS;SD4;HS": [o3, t3], "HS;SL;SD4;SL;HS": [o4, t4]}


def canon(v, self_obj=None):
    """Python value -> driver syntax; atoms modulo Python == (bool/int/float with integral value -> i<n>)"""
    if v is None:
        return "n"
    if self_obj is not None and v is self_obj:
        return "sself"
    if isinstance(v, (bool, np.bool_)):
        return "i%d" % int(v)
    if isinstance(v, (int, np.integer)):
        return "i%d" % int(v) if v >= 0 else "i%d" % (2 ** 65 - int(v))
    if isinstance(v, (float, np.floating)):
        if float(v).is_integer():
            return canon(int(v))
        import struct
        return "i%d" % (2 ** 66 + struct.unpack(">Q", struct.pack(">d", float(v)))[0])
    if isinstance(v, str):
        return "s" + (v.replace(" ", "_") or "_empty")
    if isinstance(v, tuple):
        return " ".join(["t%d" % len(v)] + [canon(x, self_obj) for x in v])
    if isinstance(v, (list, np.ndarray)):
        return " ".join(["l%d" % len(v)] + [canon(x, self_obj) for x in v])
    if isinstance(v, dict):
        return " ".join(["d%d" % len(v)] + [canon(x, self_obj) for kv in v.items() for x in kv])
    try:
        hash(v)
        return "sobj_%s_%d" % (type(v).__name__, id(v))
    except TypeError:
        return "s" + str(v).replace(" ", "_")


def slot_of(values, consts):
    """key-component observations at one call site -> Lean `Slot`"""
    vs = list(values)
    if all(isinstance(v, str) for v in vs) and len(set(vs)) == 1 and vs[0] in consts:
        return '.lit (.str "%s")' % vs[0]
    n = any(v is None for v in vs)
    num = any(isinstance(v, (bool, int, float, np.integer, np.floating, np.bool_)) for v in vs)
    s = any(isinstance(v, str) for v in vs)
    t = any(isinstance(v, tuple) for v in vs)
    other = [v for v in vs if not (v is None or isinstance(v, (bool, int, float, np.integer, np.floating, np.bool_, str, tuple)))]
    if other:
        s = True   # hashable objects: canonicalised as opaque strings
    b = lambda z: "true" if z else "false"
    return ".cls %s %s %s %s" % (b(n), b(num), b(s), b(t))


def _variants(name, ann, default, i):
    import inspect
    a = str(ann)
    if name in ("form",):
        return FORMS[i % 2]
    if name in ("method",):
        return METHODS[i % 2]
    if name in ("section_coord",):
        return ["q3", "p3"][i % 2]
    if name == "extra_kwargs":
        return [None, {"a": 1}, None][i]
    if "Sequence" in a or "ndarray" in a:
        return [0.5 + i, 0.0, 0.0, 0.0, 0.1, 0.0]
    if "int" in a:
        return 3 + i
    if "float" in a:
        return 0.5 + i
    if "str" in a:
        return "s%d" % i
    if default is not inspect._empty:
        return default
    return None


def census():
    """every `make_key` call site of every service class: [(service, [(site, [slot…])])], keys recorded"""
    import inspect
    load_hiten()
    from hiten.algorithms.types.services.base import _DynamicsServiceBase
    recorded = []

    class Skip(Exception):
        pass

    def rec_get_or_create(self, key, factory):
        recorded.append(key)
        raise Skip()

    orbit = new_orbit(3, 4)
    man = H.Manifold(orbit)
    cm = H.CenterManifold(H.l1, 4)
    insts = [("orbit.dynamics", orbit.dynamics), ("orbit.correction", orbit._correction),
             ("orbit.continuation", orbit._continuation), ("system.dynamics", H.system.dynamics),
             ("libration.dynamics", H.l1.dynamics), ("manifold.dynamics", man.dynamics), ("center.dynamics", cm.dynamics)]
    saved = _DynamicsServiceBase.get_or_create
    _DynamicsServiceBase.get_or_create = rec_get_or_create
    table = []
    all_keys = []
    try:
        for label, svc in insts:
            cls = type(svc)
            sites = []
            for name in sorted(dir(cls)):
                if name.startswith("__"):
                    continue
                fn = None
                for k in cls.__mro__:
                    if name in k.__dict__:
                        fn = k.__dict__[name]
                        break
                is_prop = isinstance(fn, property)
                f = fn.fget if is_prop else fn
                if not inspect.isfunction(f) or "make_key" not in f.__code__.co_names or name == "make_key":
                    continue
                consts = {c for c in f.__code__.co_consts if isinstance(c, str)}
                obs = []
                for i in range(3):
                    recorded.clear()
                    try:
                        if is_prop:
                            getattr(svc, name)
                        else:
                            sig = inspect.signature(f)
                            kwargs, args = {}, []
                            for pn, pp in list(sig.parameters.items())[1:]:
                                if pn == "options":
                                    val = None
                                    if i == 1 and hasattr(svc, "correction_options"):
                                        val = STUBS.options(orbit, 1)
                                else:
                                    val = _variants(pn, pp.annotation, pp.default, i)
                                if pp.kind == pp.KEYWORD_ONLY:
                                    kwargs[pn] = val
                                elif pp.kind in (pp.POSITIONAL_ONLY, pp.POSITIONAL_OR_KEYWORD):
                                    args.append(val)
                            f(svc, *args, **kwargs)
                    except Skip:
                        pass
                    except Exception:  # noqa: BLE001 — validation before the key is built; try the next variant
                        pass
                    if recorded:
                        obs.append(recorded[0])
                if not obs:
                    sites.append((name, None, consts))
                    continue
                L = {len(k) for k in obs}
                if len(L) != 1:
                    sites.append((name, "varying-length", consts))
                    continue
                slots = []
                for j in range(len(obs[0])):
                    col = [k[j] for k in obs]
                    if j == 0:
                        slots.append(slot_of(col, {"make_key"}))
                    elif all(c is svc.domain_obj for c in col):
                        slots.append('.lit (.str "self")')
                    else:
                        slots.append(slot_of(col, consts))
                sites.append((name, slots, consts))
                all_keys += [(cls.__name__, name, k, svc.domain_obj) for k in obs]
            table.append((cls.__name__, sites))
    finally:
        _DynamicsServiceBase.get_or_create = saved
    return table, all_keys


def probe_keep_values():
    svc = H.l1.dynamics
    k1 = svc.make_key("x", {"tol": 1e-6, "n": {"a": 1}})
    k2 = svc.make_key("x", {"tol": 1e-12, "n": {"a": 1}})
    k3 = svc.make_key("x", {"tol": 1e-6, "n": {"a": 2}})
    return k1 != k2 and k1 != k3


def lean_bool(b):
    return "true" if b else "false"


def gen(ctx):
    load_hiten()
    STUBS.install()
    try:
        keep = probe_keep_values()
        oflags, odetail = probe_orbit_flags()
        hamdeg, clr, csave, cdetail = probe_cm_flags()
        table, keys = census()
        STUBS.stub_stability()
        sflags, sdetail = {}, {}
        for kind in ("man", "lib"):
            sflags[kind], sdetail[kind] = probe_stab_flags(kind)
    finally:
        STUBS.restore()
    ctx.extra["probed_orbit_flags"] = dict(zip(ORBIT_FLAGS, oflags))
    ctx.extra["probed_stability_flags"] = {k: dict(zip(["pipelinePerKey", "keyHasConfig"], v)) for k, v in sflags.items()}
    ctx.extra["probed_cm_flags"] = {"hamDeg": ["never", "onMiss", "always"][hamdeg], "setterClearsHamsys": clr, "saveOverridesStale": csave}
    missing = [(svc, name, why) for svc, sites in table for (name, why, _) in sites if not isinstance(why, list)]
    ctx.extra["key_sites"] = sum(len(s) for _, s in table)
    ctx.extra["key_sites_not_reached"] = ["%s.%s" % (a, b) for a, b, _ in missing]
    lines = ["-- GENERATED by harness/props/c20.py from the live objects of the repository; do not edit",
             "import HitenModel.Core.C20", "namespace HitenModel.Gen.C20", "open HitenModel.C20", "",
             "/-- does `_make_hashable` keep the values of a mapping (probed on the live `make_key`) -/",
             "def keepValues : Bool := %s" % lean_bool(keep), "",
             "/-- behaviour switches probed on the real LyapunovOrbit / Manifold with the discriminating histories -/",
             "def orbitCfg : Cfg := { " + ", ".join("%s := %s" % (n, lean_bool(v)) for n, v in zip(ORBIT_FLAGS, oflags)) + " }",
             "", "/-- probed on the real CenterManifold -/",
             "def cmCfg : CCfg := { hamDeg := .%s, setterClearsHamsys := %s, saveOverridesStale := %s }" % (["never", "onMiss", "always"][hamdeg], lean_bool(clr), lean_bool(csave)),
             "", "/-- `compute_stability(options)` cache, probed on the real Manifold / LibrationPoint dynamics services -/",
             "def stabCfgManifold : SCfg := { pipelinePerKey := %s, keyHasConfig := %s }" % tuple(lean_bool(x) for x in sflags["man"]),
             "def stabCfgLibration : SCfg := { pipelinePerKey := %s, keyHasConfig := %s }" % tuple(lean_bool(x) for x in sflags["lib"]),
             "", "/-- key shape of every `make_key` call site, per service class (census over the live classes) -/",
             "def services : List (String × List (String × List Slot)) := ["]
    svc_lines = []
    for svc, sites in table:
        ss = ['    ("%s", [%s])' % (name, ", ".join(sl)) for (name, sl, _) in sites if isinstance(sl, list)]
        svc_lines.append('  ("%s", [\n%s])' % (svc, ",\n".join(ss)))
    lines.append(",\n".join(svc_lines) + "]")
    lines += ["", "end HitenModel.Gen.C20", ""]
    ctx.write_gen("HitenModel.Gen.C20", "\n".join(lines))
    return {"keep": keep, "oflags": oflags, "odetail": odetail, "hamdeg": hamdeg, "clr": clr, "csave": csave, "cdetail": cdetail,
            "table": table, "keys": keys, "missing": missing, "sflags": sflags, "sdetail": sdetail}


# ----------------------------------------------------------------------------------------------------------------
# histories
# ----------------------------------------------------------------------------------------------------------------
ORBIT_ALPHABET = ["SP 0", "SP 1", "SP -", "SPB", "SC 0", "SC 1", "CO 0", "CO 1", "PR 50 1 8", "PR 80 1 8", "PR 50 0 8",
                  "PR 50 1 4", "TR", "MO", "CS", "EV", "EN", "GP", "GS", "MC 0", "MC 1", "MC 2", "MR", "SL"]
ORBIT_CORE = ["SP 0", "SP 1", "CO 0", "PR 50 1 8", "PR 80 1 8", "TR", "EV", "GP", "MC 0", "MR", "SL"]
CM_ALPHABET = ["SD 3", "SD 4", "SDB", "GD", "HA 3", "HA 4", "CP 0", "CP 1", "HS", "MP 1", "MP 2", "SL"]


def orbit_histories(ctx):
    hs = []
    n3 = 3 if ctx.thorough() else 2
    for n in range(1, n3 + 1):
        for ops in itertools.product(ORBIT_ALPHABET, repeat=n):
            hs.append(("exh%d" % n, ctx.rng.choice([0, 1]), ctx.rng.choice([None, 0]), list(ops), "last"))
    core_n = [3, 4] if ctx.thorough() else [3]
    for n in core_n:
        for ops in itertools.product(ORBIT_CORE, repeat=n):
            hs.append(("core%d" % n, 1, 0, list(ops), "last"))
    nw = 120 if ctx.thorough() else 30
    for _ in range(nw):
        L = 50
        ops = [ctx.rng.choice(ORBIT_ALPHABET) for _ in range(L)]
        hs.append(("walk", ctx.rng.choice([0, 1, 2]), ctx.rng.choice([None, 0, 1]), ops, "all"))
    return hs


def cm_histories(ctx):
    hs = []
    nmax = 4 if ctx.thorough() else 3
    for n in range(1, nmax + 1):
        for ops in itertools.product(CM_ALPHABET, repeat=n):
            hs.append(("cm-exh%d" % n, ctx.rng.choice([3, 4, 5]), list(ops), "last"))
    for _ in range(60 if ctx.thorough() else 20):
        hs.append(("cm-walk", ctx.rng.choice([3, 4, 5]), [ctx.rng.choice(CM_ALPHABET) for _ in range(40)], "all"))
    return hs


def first_diff(a, b):
    for i, (x, y) in enumerate(zip(a, b)):
        if y is not None and x != y:
            return i
    return None


def spec_twin_mismatch(outs, touts, s_out):
    """first index where the Lean fresh twin and the REAL fresh twin disagree, looking only at operations before which
    the real object still agreed with the spec (afterwards the real twin is rebuilt from an already diverged state)"""
    for j, t in enumerate(touts):
        if outs[:j] != s_out[:j]:
            return None
        if t is not None and s_out[j] != t:
            return j
    return None


def shrink_orbit(x, T, ops, M, seed):
    """greedy deletion keeping 'real output of the last op != fresh twin output of the last op'"""
    def bad(o):
        STUBS.orc = MixOracle(M, seed)
        outs, touts = run_orbit_history(x, T, o, twin="last")
        return outs[-1] != touts[-1]
    cur = list(ops)
    changed = True
    while changed and len(cur) > 1:
        changed = False
        for i in range(len(cur) - 1):
            cand = cur[:i] + cur[i + 1:]
            try:
                if bad(cand):
                    cur, changed = cand, True
                    break
            except Exception:  # noqa: BLE001
                pass
    return cur


def correspond_orbit(ctx, G):
    cfgbits = " ".join("1" if f else "0" for f in G["oflags"])
    hs = orbit_histories(ctx)
    lines, real = [], []
    t0 = time.time()
    for (kind, x, T, ops, twin) in hs:
        # small period range: corrections often return the period the orbit already has
        M = ctx.rng.choice([2, 3, 1000])
        seed = ctx.rng.randrange(1000)
        STUBS.orc = MixOracle(M, seed)
        outs, touts = run_orbit_history(x, T, ops, twin=twin)
        real.append((outs, touts, M, seed))
        lines.append("O %s %d %d %d %s ; %s" % (cfgbits, M, seed, x, "-" if T is None else T, " ; ".join(ops)))
    ctx.log("orbit: %d histories on the real objects in %.1fs" % (len(hs), time.time() - t0))
    t0 = time.time()
    out = ctx.lean_run("Drivers/C20.lean", "\n".join(lines) + "\n")
    ctx.log("orbit: Lean model/spec replay in %.1fs" % (time.time() - t0))
    n_model_bad = n_spec_bad = n_stale = 0
    unexplained = []
    for (kind, x, T, ops, twin), (outs, touts, M, seed), ln in zip(hs, real, out):
        if "|" not in ln:
            ctx.broken.append(("correspondence:orbit-histories", "driver answered %r" % ln))
            ctx.obligations["correspondence:orbit-histories"] = False
            return
        m_out, s_out = [p.split() for p in ln.split("|")]
        nontriv = len(set(outs)) > 2
        ctx.case((kind, tuple(ops)) if kind != "walk" else (kind, seed, tuple(ops[:6])), nontrivial=nontriv, kind=kind,
                 sample={"start": [x, T], "ops": ops[:8], "real": outs[:8], "model": m_out[:8]} if kind == "walk" else None)
        ctx.corr_cases += 1
        if outs != m_out:
            n_model_bad += 1
            i = first_diff(outs, m_out)
            if len(unexplained) < 5:
                unexplained.append({"start": [x, T], "ops": ops[:i + 1], "real": outs[:i + 1], "model": m_out[:i + 1],
                                    "oracle": {"M": M, "seed": seed}})
        j = spec_twin_mismatch(outs, touts, s_out)
        if j is not None:
            n_spec_bad += 1
            if n_spec_bad <= 3:
                ctx.broken.append(("correspondence:orbit-spec-vs-real-twin",
                                   "history %s (start %s): Lean fresh twin %s, real fresh twin %s" % (ops[:j + 1], (x, T), s_out[j], touts[j])))
        k = first_diff(outs, touts)
        if k is not None:
            n_stale += 1
            # a stale read on the real objects.  Explained (and keyed) by a probed switch iff the model reproduces it.
            if outs[:k + 1] != m_out[:k + 1] or all(G["oflags"]):
                small = shrink_orbit(x, T, ops[:k + 1], M, seed)
                STUBS.orc = MixOracle(M, seed)
                so, st_ = run_orbit_history(x, T, small, twin="last")
                ctx.violation("orbit:history:" + ";".join(small),
                              "stale read on the real orbit/manifold objects (numerics stubbed): last operation returns %s, a fresh twin in the same logical state returns %s" % (so[-1], st_[-1]),
                              {"object": "LyapunovOrbit(L1 earth-moon) + Manifold", "start_state_token": x, "start_period_token": T,
                               "history": small, "observed": so, "fresh_twin_last": st_[-1], "oracle": {"family": "mix", "M": M, "seed": seed},
                               "legend": "SP=set period, CO=correct(options k), PR=propagate(steps,method,order), TR=trajectory, MC=manifold.compute, MR=manifold.result, SL=save+load"})
                if len([v for v in ctx.violations if v["key"].startswith("orbit:history:")]) >= 3:
                    break
    ctx.extra["orbit_histories"] = len(hs)
    ctx.extra["orbit_stale_reads_on_real_objects"] = n_stale
    if n_model_bad:
        ctx.broken.append(("correspondence:orbit-histories", "%d histories: real objects and Lean model(orbitCfg) differ, e.g. %r" % (n_model_bad, unexplained[:2])))
        ctx.obligations["correspondence:orbit-histories"] = False
    else:
        ctx.obligations["correspondence:orbit-histories"] = True
    ctx.obligations["correspondence:orbit-spec-vs-real-twin"] = (n_spec_bad == 0)


def correspond_cm(ctx, G):
    hs = cm_histories(ctx)
    lines, real = [], []
    t0 = time.time()
    for (kind, d, ops, twin) in hs:
        seed = ctx.rng.randrange(1000)
        STUBS.orc = MixOracle(P, seed)
        outs, touts = run_cm_history(d, ops, twin=twin)
        real.append((outs, touts, seed))
        lines.append("C %d %d %d %d %d ; %s" % (G["hamdeg"], 1 if G["clr"] else 0, 1 if G["csave"] else 0, seed, d, " ; ".join(ops)))
    ctx.log("centre manifold: %d histories on the real objects in %.1fs" % (len(hs), time.time() - t0))
    out = ctx.lean_run("Drivers/C20.lean", "\n".join(lines) + "\n")
    n_model_bad = n_spec_bad = n_stale = 0
    ex = []
    for (kind, d, ops, twin), (outs, touts, seed), ln in zip(hs, real, out):
        m_out, s_out = [p.split() for p in ln.split("|")]
        ctx.case((kind, d, tuple(ops)) if kind != "cm-walk" else (kind, seed), nontrivial=len(set(outs)) > 2, kind=kind)
        ctx.corr_cases += 1
        if outs != m_out:
            n_model_bad += 1
            i = first_diff(outs, m_out)
            if len(ex) < 3:
                ex.append({"degree": d, "ops": ops[:i + 1], "real": outs[:i + 1], "model": m_out[:i + 1]})
        j = spec_twin_mismatch(outs, touts, s_out)
        if j is not None:
            n_spec_bad += 1
            if n_spec_bad <= 3:
                ctx.broken.append(("correspondence:cm-spec-vs-real-twin", "history %s from degree %d: Lean twin %s, real twin %s" % (ops[:j + 1], d, s_out[j], touts[j])))
        k = first_diff(outs, touts)
        if k is not None:
            n_stale += 1
            if (outs[:k + 1] != m_out[:k + 1] or (G["hamdeg"] != 1 and G["clr"] and G["csave"])) and \
                    len([v for v in ctx.violations if v["key"].startswith("cm:history:")]) < 3:
                ctx.violation("cm:history:" + ";".join(ops[:k + 1]),
                              "stale read on the real CenterManifold (pipeline stubbed): %s, fresh twin %s" % (outs[k], touts[k]),
                              {"object": "CenterManifold(L1 earth-moon, degree %d)" % d, "history": ops[:k + 1], "observed": outs[:k + 1],
                               "fresh_twin_last": touts[k], "legend": "SD=degree:=n, GD=degree, HA=hamiltonian(n), CP=compute(form), HS=dynamics.hamsys, MP=poincare_map(E), SL=save+load"})
    ctx.extra["cm_histories"] = len(hs)
    ctx.extra["cm_stale_reads_on_real_objects"] = n_stale
    if n_model_bad:
        ctx.broken.append(("correspondence:cm-histories", "%d histories: real CenterManifold and Lean model(cmCfg) differ, e.g. %r" % (n_model_bad, ex[:2])))
    ctx.obligations["correspondence:cm-histories"] = (n_model_bad == 0)
    ctx.obligations["correspondence:cm-spec-vs-real-twin"] = (n_spec_bad == 0)


# ---------------------------------------------------------------- make_key on random values, key shapes
def rand_val(rng, depth):
    r = rng.random()
    if depth == 0 or r < 0.35:
        return rng.choice([None, 0, 1, 2, 1.0, True, 2.5, "a", "b", "tol", np.float64(2.0)])
    n = rng.randrange(0, 3)
    if r < 0.55:
        return tuple(rand_val(rng, depth - 1) for _ in range(n))
    if r < 0.72:
        return [rand_val(rng, depth - 1) for _ in range(n)]
    if r < 0.8:
        return np.array([float(rng.randrange(3)) for _ in range(n)])
    return {rng.choice(["a", "b", "tol", 1, 2]): rand_val(rng, depth - 1) for _ in range(n)}


def mutate_val(rng, v):
    """same container kinds, possibly different leaves / lengths"""
    if isinstance(v, dict):
        return {k: (mutate_val(rng, x) if rng.random() < 0.5 else x) for k, x in v.items()}
    if isinstance(v, tuple):
        return tuple(mutate_val(rng, x) if rng.random() < 0.5 else x for x in v)
    if isinstance(v, list):
        return [mutate_val(rng, x) if rng.random() < 0.5 else x for x in v]
    if isinstance(v, np.ndarray):
        return np.array([float(rng.randrange(3)) for _ in v])
    return rng.choice([v, v, 0, 1, "a", 2.5])


def py_eq(a, b):
    """are the two keys the same dict key (hash and ==)?  (`==` alone is fooled by numpy broadcasting:
    `(True,) == np.float64(1.0)` is truthy, but the hashes differ)"""
    try:
        return b in {a: 1}
    except Exception:  # noqa: BLE001
        return False


def correspond_make_key(ctx, G):
    svc = H.l1.dynamics
    n = 1500 if ctx.thorough() else 400
    keep = "1" if G["keep"] else "0"
    lines, expect = [], []
    for i in range(n):
        v = rand_val(ctx.rng, 3)
        w = mutate_val(ctx.rng, v) if ctx.rng.random() < 0.7 else rand_val(ctx.rng, 3)
        kv = svc.make_key(v)
        kw = svc.make_key(w)
        lines.append("H %s %s" % (keep, canon(v)))
        expect.append(("H", canon(kv[2]), v))
        lines.append("EQ %s %s | %s" % (keep, canon(v), canon(w)))
        expect.append(("EQ", "1" if py_eq(kv, kw) else "0", (v, w)))
        ctx.case(("mk", canon(v)), nontrivial=isinstance(v, (tuple, list, dict)), kind="make_key",
                 sample={"value": repr(v), "key": repr(kv[2:])} if i < 2 else None)
    out = ctx.lean_run("Drivers/C20.lean", "\n".join(lines) + "\n")
    bad = []
    inj_bad = []
    for (kind, exp, val), ln in zip(expect, out):
        if kind == "H":
            if ln.strip() != exp:
                bad.append((repr(val), exp, ln))
        else:
            eq, same = ln.split()
            if eq != exp:
                bad.append((repr(val), exp, ln))
            v, w = val
            if exp == "1" and same == "1" and canon(v) != canon(w):
                inj_bad.append(val)
    ctx.corr_cases += len(expect)
    if bad:
        ctx.broken.append(("correspondence:make_key", "%d values: live make_key and Lean mkHashable differ, e.g. %r" % (len(bad), bad[:2])))
    ctx.obligations["correspondence:make_key"] = not bad
    for (v, w) in inj_bad[:2]:
        ctx.violation("make_key:collision", "two different argument values of the same container kinds give the same cache key",
                      {"call": "service.make_key(v) == service.make_key(w)", "v": repr(v), "w": repr(w), "key": repr(svc.make_key(v))})
    if not G["keep"]:
        a, b = {"tol": 1e-6}, {"tol": 1e-12}
        ctx.violation("make_key:mapping-values-dropped", "_make_hashable reduces a mapping to its keys: option dictionaries that differ only in a value share a cache entry",
                      {"call": "make_key('correct', opts)", "v": repr(a), "w": repr(b), "key_v": repr(svc.make_key(a)), "key_w": repr(svc.make_key(b))})


def check_key_shapes(ctx, G, recorded):
    """every key built while the histories ran must match the regenerated shape of its call site"""
    lines, meta = [], []
    seen = set()
    known = {(svc, name) for svc, sites in G["table"] for (name, sl, _) in sites if isinstance(sl, list)}
    for (svc, site, key, dom) in recorded:
        if (svc, site) not in known:
            site = "*"   # e.g. the degree setter building the pipeline keys it resets: must be some site's shape
        c = " ".join(canon(x, dom) for x in key)
        if (svc, site, c) in seen:
            continue
        seen.add((svc, site, c))
        lines.append("K %s %s %s" % (svc, site, c))
        meta.append((svc, site, key))
    if not lines:
        return
    out = ctx.lean_run("Drivers/C20.lean", "\n".join(lines) + "\n")
    bad = [(m[0], m[1], repr(m[2][2:]), ln) for m, ln in zip(meta, out) if ln.strip() != "1"]
    ctx.extra["keys_checked_against_site_shapes"] = len(lines)
    if bad:
        ctx.broken.append(("correspondence:key-shapes", "%d keys do not match the shape recorded for their call site, e.g. %r" % (len(bad), bad[:3])))
    ctx.obligations["correspondence:key-shapes"] = not bad


class KeyRecorder:
    """wraps `_DynamicsServiceBase.make_key` while the histories run"""

    def __init__(self):
        self.keys = []

    def __enter__(self):
        from hiten.algorithms.types.services.base import _DynamicsServiceBase
        self.cls = _DynamicsServiceBase
        self.saved = _DynamicsServiceBase.make_key
        rec = self

        def make_key(svc, *args):
            key = rec.saved(svc, *args)
            if len(rec.keys) < 200000:
                rec.keys.append((type(svc).__name__, sys._getframe(1).f_code.co_name, key, svc.domain_obj))
            return key
        _DynamicsServiceBase.make_key = make_key
        return self

    def __exit__(self, *a):
        self.cls.make_key = self.saved


# ---------------------------------------------------------------- un-stubbed checks
def arr_eq(a, b):
    if isinstance(a, (tuple, list)) and isinstance(b, (tuple, list)):
        return len(a) == len(b) and all(arr_eq(x, y) for x, y in zip(a, b))
    try:
        return bool(np.array_equal(np.asarray(a), np.asarray(b), equal_nan=True))
    except Exception:  # noqa: BLE001
        return a == b


def unstubbed(ctx, G):
    """real numerics: immutable-input services against fresh twins, save/load round trips, reconfirmation of findings"""
    Sys = H.System
    mu = H.system.mu
    # --- system / libration point: any query order gives what a fresh object gives (memo_pure)
    queries = [("mu", lambda s: s.mu), ("distance", lambda s: s.distance), ("dynsys.name", lambda s: s.dynsys.name),
               ("L1.position", lambda s: s.get_libration_point(1).position), ("L2.position", lambda s: s.get_libration_point(2).position),
               ("L1.energy", lambda s: s.get_libration_point(1).energy), ("L1.jacobi", lambda s: s.get_libration_point(1).jacobi),
               ("L1.linear_modes", lambda s: s.get_libration_point(1).linear_modes), ("L4.position", lambda s: s.get_libration_point(4).position),
               ("L2.gamma", lambda s: s.get_libration_point(2).dynamics.gamma), ("L1.cn3", lambda s: s.get_libration_point(1).dynamics.cn(3)),
               ("L1.cn2", lambda s: s.get_libration_point(1).dynamics.cn(2)), ("L1.is_stable", lambda s: s.get_libration_point(1).is_stable),
               ("propagate-a", lambda s: s.propagate([0.8, 0, 0, 0, 0.1, 0], tf=0.3, steps=7).states),
               ("propagate-b", lambda s: s.propagate([0.8, 0, 0, 0, 0.1, 0], tf=0.3, steps=9).states),
               ("propagate-c", lambda s: s.propagate(np.array([0.8, 0, 0, 0, 0.2, 0]), tf=0.3, steps=7, method="fixed", order=4).states),
               ("propagate-d", lambda s: s.propagate([0.8, 0, 0, 0, 0.1, 0], tf=0.4, steps=7).states),
               ("propagate-e", lambda s: s.propagate([0.8, 0, 0, 0, 0.1, 0], tf=0.3, steps=7, forward=-1).states),
               ("propagate-f", lambda s: s.propagate([0.8, 0, 0, 0, 0.1, 0], tf=0.3, steps=7, method="fixed", order=4).states),
               ("propagate-g", lambda s: s.propagate([0.8, 0, 0, 0, 0.1, 0], tf=0.3, steps=7, method="fixed", order=6).states)]
    fresh = {}
    for name, q in queries:
        fresh[name] = q(Sys.from_mu(mu))
    for rep in range(6 if ctx.thorough() else 3):
        s = Sys.from_mu(mu)
        order = [ctx.rng.choice(queries) for _ in range(30)]
        for name, q in order:
            got = q(s)
            ctx.case(("sys", name), kind="system/libration-query")
            if not arr_eq(got, fresh[name]):
                ctx.violation("system:query:" + name, "a System / LibrationPoint query after other queries differs from the same query on a fresh object",
                              {"system": "System.from_mu(%r)" % mu, "queries_before": [n for n, _ in order], "query": name,
                               "observed": repr(got)[:300], "fresh": repr(fresh[name])[:300]})
                return
    # --- two systems in one session: caches shared between objects must separate them.  `System.from_mu` gives every system the same
    # body names, so anything keyed on names collides; the second system is compared with an independent integration of the CR3BP
    # equations at ITS mass parameter (SciPy DOP853), and the first system is queried again afterwards.
    from scipy.integrate import solve_ivp

    def cr3bp(mu_):
        def f(t, y):
            x, yy, z, vx, vy, vz = y
            r1 = ((x + mu_) ** 2 + yy ** 2 + z ** 2) ** 1.5
            r2 = ((x - 1 + mu_) ** 2 + yy ** 2 + z ** 2) ** 1.5
            return [vx, vy, vz,
                    2 * vy + x - (1 - mu_) * (x + mu_) / r1 - mu_ * (x - 1 + mu_) / r2,
                    -2 * vx + yy - (1 - mu_) * yy / r1 - mu_ * yy / r2,
                    -(1 - mu_) * z / r1 - mu_ * z / r2]
        return f
    sa = Sys.from_mu(mu)
    sa.propagate([0.8, 0, 0, 0, 0.1, 0], tf=0.3, steps=7)
    sa.propagate([0.8, 0, 0, 0, 0.1, 0], tf=0.3, steps=7, forward=-1)
    y0 = [0.8, 0.0, 0.05, 0.0, 0.1, 0.02]
    for mu_b in (0.05, 0.3):
        sb = Sys.from_mu(mu_b)
        for fwd in (1, -1):
            got = np.asarray(sb.propagate(y0, tf=0.6, steps=7, forward=fwd).states)[-1]
            ref = solve_ivp(cr3bp(mu_b), (0.0, 0.6 * fwd), y0, method="DOP853", rtol=1e-12, atol=1e-13).y[:, -1]
            other = solve_ivp(cr3bp(mu), (0.0, 0.6 * fwd), y0, method="DOP853", rtol=1e-12, atol=1e-13).y[:, -1]
            dev = float(np.abs(got - ref).max())
            sep = float(np.abs(ref - other).max())
            ctx.case(("two-systems", mu_b, fwd), kind="two-systems-one-session", nontrivial=sep > 1e-3)
            # which flow was followed is the question here, not the integrator's accuracy (C02): the two candidate flows are `sep` apart
            if not dev <= 0.02 * sep:
                ctx.violation("system:two-systems-share-state",
                              "System.from_mu(%r).propagate(forward=%d) after a System.from_mu(%r) was used in the same session ends %.3g away from the "
                              "CR3BP flow at its own mass parameter (and %.3g away from the flow at the other system's mass parameter)"
                              % (mu_b, fwd, mu, dev, float(np.abs(got - other).max())),
                              {"history": ["A = System.from_mu(%r)" % mu, "A.propagate(...)", "B = System.from_mu(%r)" % mu_b,
                                           "B.propagate(%r, tf=0.6, steps=7, forward=%d)" % (y0, fwd)],
                               "observed_final": got.tolist(), "reference_final_at_mu_B": ref.tolist(), "reference_final_at_mu_A": other.tolist()})
                return
    for name in ("propagate-a", "propagate-e"):
        got = dict(queries)[name](sa)
        ctx.case(("two-systems", "first-again", name), kind="two-systems-one-session")
        if not arr_eq(got, fresh[name]):
            ctx.violation("system:two-systems-share-state", "a System query after ANOTHER system (other mass parameter) was used differs from the same query on a fresh object",
                          {"history": ["A = System.from_mu(%r)" % mu, "B = System.from_mu(0.05), System.from_mu(0.3) propagated", "A." + name],
                           "observed": repr(got)[:300], "fresh": repr(fresh[name])[:300]})
            return
    # --- save / load round trips (real pickles, real numerics)
    p = os.path.join(H.tmp, "sys.pkl")
    s = Sys.from_mu(mu)
    s.get_libration_point(1).position
    s.save(p)
    s2 = Sys.load(p)
    obs = lambda z: (z.mu, z.distance, z.primary.name, z.secondary.name, z.primary.mass, z.secondary.mass,
                     z.get_libration_point(1).position.tolist(), z.get_libration_point(2).energy)
    ctx.case(("saveload", "system"), kind="save/load")
    if obs(s) != obs(s2):
        ctx.violation("saveload:system", "System.save/load changes observable state", {"before": repr(obs(s)), "after": repr(obs(s2))})
    x0 = H.l1.position + np.array([0.01, 0, 0])
    g = H.GenericOrbit(H.l1, initial_state=[x0[0], 0, 0, 0, 0.05, 0])
    g.period = 0.7
    g.propagate(steps=11, method="fixed", order=4)
    def orbit_obs(o):
        def safe(f):
            try:
                return f()
            except Exception as e:  # noqa: BLE001 — an exception is an observable too
                return "%s: %s" % (type(e).__name__, str(e)[:60])
        return (safe(lambda: o.initial_state.tolist()), safe(lambda: o.period), safe(lambda: o.trajectory.times.tolist()),
                safe(lambda: o.trajectory.states.tolist()), safe(lambda: o.energy), safe(lambda: o.family),
                safe(lambda: o.monodromy.tolist()))
    before = orbit_obs(g)
    p = os.path.join(H.tmp, "gen.pkl")
    g.save(p)
    g2 = H.GenericOrbit.load(p)
    after = orbit_obs(g2)
    ctx.case(("saveload", "orbit"), kind="save/load")
    if before != after:
        d = [i for i, (a, b) in enumerate(zip(before, after)) if a != b]
        ctx.violation("saveload:orbit", "PeriodicOrbit.save/load changes observable state (fields %s of state,period,times,states,energy,family,monodromy)" % d,
                      {"orbit": "GenericOrbit(L1, x=L1+0.01, vy=0.05), period 0.7, propagate(11,'fixed',4); save; load", "changed_fields": d,
                       "before": [repr(before[i])[:120] for i in d], "after": [repr(after[i])[:120] for i in d]})
    # the loaded orbit must keep behaving like a fresh one: change the period, re-propagate
    g2.period = 0.9
    t2 = g2.propagate(steps=11, method="fixed", order=4)
    gf = H.GenericOrbit(H.l1, initial_state=g.initial_state.tolist())
    gf.period = 0.9
    tf = gf.propagate(steps=11, method="fixed", order=4)
    ctx.case(("saveload", "orbit-after"), kind="save/load")
    if not (arr_eq(t2.states, tf.states) and arr_eq(g2.monodromy, gf.monodromy)):
        ctx.violation("saveload:orbit-then-mutate", "a reloaded orbit returns stale values after its period is changed",
                      {"history": "save; load; period:=0.9; propagate(11,'fixed',4); monodromy"})
    m = H.Manifold(g)
    p = os.path.join(H.tmp, "man.pkl")
    m.save(p)
    m2 = H.Manifold.load(p)
    ctx.case(("saveload", "manifold"), kind="save/load")
    if (m.stable, m.direction, m.generating_orbit.period) != (m2.stable, m2.direction, m2.generating_orbit.period) or \
            not arr_eq(m.generating_orbit.initial_state, m2.generating_orbit.initial_state):
        ctx.violation("saveload:manifold", "Manifold.save/load changes observable state", {})
    # a COMPUTED manifold: result / trajectories survive the round trip (real numerics, small: two branches)
    try:
        res = m.compute(step=0.5, integration_fraction=0.1, show_progress=False)
        ntr = len(m.trajectories)
    except Exception as ex:   # the generic seed orbit admits no manifold on this tree: nothing to round-trip
        res, ntr = None, 0
        ctx.notes.append("saveload:manifold-computed skipped: compute raised %s" % type(ex).__name__)
    if res is not None:
        p = os.path.join(H.tmp, "man2.pkl")
        m.save(p)
        m3 = H.Manifold.load(p)
        ctx.case(("saveload", "manifold-computed"), kind="save/load")
        r3 = m3.result
        t3 = m3.trajectories
        same = r3 is not None and t3 is not None and len(t3) == ntr and all(
            arr_eq(np.asarray(a.states), np.asarray(b.states)) and arr_eq(np.asarray(a.times), np.asarray(b.times)) for a, b in zip(m.trajectories, t3))
        if not same:
            ctx.violation("saveload:manifold-computed", "a computed Manifold loses its result / trajectories in a save/load round trip "
                          "(loaded.result is None: %s, trajectories: %s, expected %d)" % (r3 is None, None if t3 is None else len(t3), ntr),
                          {"history": "Manifold(orbit).compute(step=0.5, integration_fraction=0.1); save; load; result; trajectories",
                           "orbit": "GenericOrbit(L1 earth-moon), period 0.7", "trajectories_before": ntr,
                           "loaded_result_is_None": r3 is None, "loaded_trajectories": None if t3 is None else len(t3)})
    # --- un-stubbed reconfirmation of the stale-read findings (cheap real numerics)
    if not G["oflags"][0]:
        g = H.GenericOrbit(H.l1, initial_state=[x0[0], 0, 0, 0, 0.05, 0])
        g.period = 0.7
        g.propagate(steps=50, method="fixed", order=4)
        g.propagate(steps=80, method="fixed", order=4)
        g.propagate(steps=50, method="fixed", order=4)
        ctx.extra["unstubbed_propagate_50_80_50_trajectory_len"] = len(g.trajectory.times)
    if not G["oflags"][5]:
        g = H.GenericOrbit(H.l1, initial_state=[x0[0], 0, 0, 0, 0.05, 0])
        g.period = 0.7
        mm = H.Manifold(g)
        a = mm.dynamics.compute_stm(steps=20)
        g.period = 0.9
        b = mm.dynamics.compute_stm(steps=20)
        fresh_b = H.Manifold(g).dynamics.compute_stm(steps=20)
        ctx.extra["unstubbed_manifold_stm_stale_after_period_change"] = (b is a) and not arr_eq(b[1], fresh_b[1])
    # --- compute_stability(options): un-stubbed on a libration point whose classification depends on delta (L4 just
    # above Routh's mass ratio: Re(lambda) = +-0.0157), and on a manifold with the real classification of a fixed matrix
    A, B = H.EigOpt(delta=1e-6, tol=1e-8), H.EigOpt(delta=0.5, tol=1e-8)
    cnt = lambda pipe: [len(x) for x in pipe.eigenvalues]
    l4 = Sys.from_mu(0.0386).get_libration_point(4)
    hist = [cnt(l4.dynamics.compute_stability(A)), cnt(l4.dynamics.compute_stability(B)), cnt(l4.dynamics.compute_stability(A))]
    stale_stable = l4.dynamics.compute_stability(A).is_stable
    fresh = Sys.from_mu(0.0386).get_libration_point(4).dynamics.compute_stability(A)
    ctx.case(("stability", "L4-routh"), kind="stability-unstubbed")
    if hist[2] != cnt(fresh) or stale_stable != fresh.is_stable:
        ctx.violation("stability:pipeline-shared-across-options:libration",
                      "un-stubbed: L4 of System.from_mu(0.0386): compute_stability(delta=1e-6); compute_stability(delta=0.5); compute_stability(delta=1e-6) reports the delta=0.5 classification (is_stable %s, fresh object %s)" % (stale_stable, fresh.is_stable),
                      {"system": "System.from_mu(0.0386).get_libration_point(4)", "history": ["compute_stability(delta=1e-6)", "compute_stability(delta=0.5)", "compute_stability(delta=1e-6)"],
                       "observed_counts_stable_unstable_center": hist, "fresh_counts": cnt(fresh), "is_stable_observed": bool(stale_stable), "is_stable_fresh": bool(fresh.is_stable)})
    Phi = np.diag([1.005, 1 / 1.005, 1.0, 1.0, 2.0, 0.5])
    saved_stm = H.SM._compute_stm
    H.SM._compute_stm = lambda *a, **k: (None, None, Phi, None)
    try:
        A2, B2 = H.EigOpt(delta=1e-6, tol=1e-6), H.EigOpt(delta=1e-2, tol=1e-6)
        gm = H.GenericOrbit(H.l1, initial_state=[x0[0], 0, 0, 0, 0.05, 0])
        gm.period = 0.7
        mm = H.Manifold(gm)
        hist = [cnt(mm.dynamics.compute_stability(A2)), cnt(mm.dynamics.compute_stability(B2)), cnt(mm.dynamics.compute_stability(A2))]
        fresh = cnt(H.Manifold(gm).dynamics.compute_stability(A2))
        ctx.case(("stability", "manifold-matrix"), kind="stability-unstubbed")
        if hist[2] != fresh:
            ctx.violation("stability:pipeline-shared-across-options:manifold",
                          "real eigen-classification of the monodromy diag(1.005, 1/1.005, 1, 1, 2, 0.5) (only the STM is stubbed): compute_stability(delta=1e-6); compute_stability(delta=1e-2); compute_stability(delta=1e-6) reports the weakly unstable pair as centre",
                          {"history": ["compute_stability(delta=1e-6)", "compute_stability(delta=1e-2)", "compute_stability(delta=1e-6)"],
                           "observed_counts_stable_unstable_center": hist, "fresh_counts": fresh})
    finally:
        H.SM._compute_stm = saved_stm
    if ctx.thorough() and not (G["oflags"][1] and G["oflags"][2]):
        orb = H.l1.create_orbit("lyapunov", amplitude_x=0.02)
        orb.correct()
        Tc = orb.period
        orb.period = Tc * 1.5
        orb.correct()
        ctx.extra["unstubbed_correct_period_correct_leaves_wrong_period"] = bool(abs(orb.period - Tc) > 1e-9)
    if ctx.thorough():
        cm = H.CenterManifold(H.l1, 4)
        h4 = cm.compute()
        p = os.path.join(H.tmp, "cm_real.pkl")
        cm.save(p)
        cm2 = H.CenterManifold.load(p)
        ctx.case(("saveload", "cm"), kind="save/load")
        same = cm2.degree == cm.degree and all(arr_eq(a, b) for a, b in zip(cm2.compute().poly_H, h4.poly_H))
        if not same:
            ctx.violation("saveload:center-manifold", "CenterManifold.save/load changes degree or Hamiltonian coefficients", {"degree": 4})


# ----------------------------------------------------------------------------------------------------------------
def run(ctx):
    ctx.rule = ("operation histories over the public alphabet of orbit(+manifold) and centre manifold: all sequences up to the "
                "tier's length over the full alphabet, all sequences of a core alphabet one step longer, seeded random walks "
                "of length 50/40; a case is non-trivial when the history produces more than two distinct outputs; plus random "
                "nested values for make_key (non-trivial: a container) and un-stubbed System/libration queries + save/load")
    G = gen(ctx)
    # generic theorems (do not import the regenerated module) and their instances for the current tree are built
    # separately, so that a failing instance (a lost behaviour) does not hide the audit of the generic ones
    ok1 = ctx.lean_build(["HitenModel.Props.C20"])
    ok2 = ctx.lean_build(["HitenModel.Props.C20_Tree"])
    srcs = ["HitenModel.Core.C20", "HitenModel.Lemmas.C20", "HitenModel.Props.C20", "HitenModel.Props.C20_Tree", "HitenModel.Gen.C20"]
    if ok1:
        ctx.lean_audit(["HitenModel.Props.C20"] + (["HitenModel.Props.C20_Tree"] if ok2 else []), srcs)
    if ctx.thorough() and ok1:
        ctx.leanchecker(["HitenModel.Props.C20"] + (["HitenModel.Props.C20_Tree"] if ok2 else []))
    ctx.extra["lean_build_ok"] = [ok1, ok2]
    ctx.log("probed switches: orbit %s, centre manifold %s" % (ctx.extra["probed_orbit_flags"], ctx.extra["probed_cm_flags"]))
    # ---- findings pinned by the probed switches: each is a concrete failing history on the real objects
    for i, f in enumerate(G["oflags"]):
        if not f:
            key, what = ORBIT_KEYS[i]
            d = G["odetail"][i]
            ctx.violation(key, what, {"object": "LyapunovOrbit(L1 earth-moon) + Manifold; numerics stubbed by the oracle O0 of Props/C20.lean",
                                      "start_state_token": d["start_state"], "history": d["history"], "observed": d["observed"],
                                      "fresh_twin": d["fresh_twin"], "switch": ORBIT_FLAGS[i],
                                      "legend": "SP=set period, SC=set correction_config, CO=correct(options k), PR=propagate(steps,method,order), TR=trajectory, GP=period, MC=manifold.compute, MR=manifold.result"})
    if G["hamdeg"] == 1:
        ctx.violation("cm:hamiltonian-moves-degree-only-on-cache-miss",
                      "cm.hamiltonian(4); cm.degree = 6; cm.hamiltonian(4); cm.degree is 6, a fresh degree-6 object ends at 4 (pipeline_for_degree runs only inside the cached factory)",
                      {"object": "CenterManifold(L1, 6), pipeline stubbed", "probes": G["cdetail"]})
    if not G["csave"]:
        ctx.violation("saveload:stale-attribute-resurrected",
                      "CenterManifold: hamsys; save; load; degree := 4; save; load; hamsys returns the compiled system of the old degree (same __getstate__ defect as for the orbit)",
                      {"object": "CenterManifold(L1, 6), pipeline stubbed", "probes": G["cdetail"]})
    if not G["clr"]:
        ctx.violation("cm:degree-setter-keeps-hamsys", "hamsys; degree := 4; hamsys returns the system of the old degree",
                      {"object": "CenterManifold(L1, 6), pipeline stubbed", "probes": G["cdetail"]})
    for kind, name in (("man", "manifold"), ("lib", "libration")):
        for i, f in enumerate(G["sflags"][kind]):
            if not f:
                key, what = STAB_KEYS[i]
                d = G["sdetail"][kind][i]
                ctx.violation("%s:%s" % (key, name), what,
                              {"object": "%s dynamics service; eigen-classification stubbed by R0 of Props/C20.lean" % {"man": "Manifold", "lib": "LibrationPoint"}[kind],
                               "history": d["history"], "observed": d["observed"], "fresh_twin": d["fresh_twin"],
                               "legend": "ST=compute_stability(options k).eigenvalues, SG=eigendecomposition_config:=k"})
    # sites the census could not reach weaken keys_separate: say so (not a violation)
    if G["missing"]:
        ctx.notes.append("make_key sites not reached by the census (not covered by keys_separate): %s" % ctx.extra["key_sites_not_reached"])
    # ---- correspondence on the real objects
    STUBS.install()
    try:
        with KeyRecorder() as kr:
            correspond_orbit(ctx, G)
            correspond_cm(ctx, G)
            STUBS.stub_stability()
            t0 = time.time()
            correspond_stab(ctx, G)
            ctx.log("stability pipeline cache: histories on the real Manifold / LibrationPoint services in %.1fs" % (time.time() - t0))
        t0 = time.time()
        correspond_make_key(ctx, G)
        check_key_shapes(ctx, G, kr.keys + G["keys"])
        ctx.log("make_key values + key shapes in %.1fs" % (time.time() - t0))
    finally:
        STUBS.restore()
    ctx.search_ran = True
    t0 = time.time()
    unstubbed(ctx, G)
    ctx.log("un-stubbed queries and save/load round trips in %.1fs" % (time.time() - t0))
    ctx.extra["correspondence_cases"] = ctx.corr_cases
    ctx.traces_validated = ctx.corr_cases   # histories / values on which the model was compared with the real objects
    ctx.assumptions += [
        "token abstraction: states / periods / options / settings are natural-number tokens; the stubs encode the inputs they actually receive",
        "keys_separate covers the make_key sites reached by the census (listed in coverage.key_sites_not_reached otherwise)",
        "save/load of the orbit model resets the correction configuration to the default (the configuration lives on a service that is rebuilt on load) — stated in the spec, see notes/C20.md",
    ]


def replay(ctx, rec):
    """re-run one recorded failing history on the real objects"""
    load_hiten()
    r = rec.get("replay", {})
    STUBS.install()
    try:
        if "history" in r and "start_state_token" in r:
            orc = r.get("oracle")
            STUBS.orc = MixOracle(orc["M"], orc["seed"]) if isinstance(orc, dict) and "M" in orc else O0()
            outs, touts = run_orbit_history(r["start_state_token"], r.get("start_period_token"), r["history"], twin="all")
            ctx.log("history", r["history"])
            ctx.log("observed  ", outs)
            ctx.log("fresh twin", touts)
            if outs != touts:
                ctx.violation(rec["key"], rec["what"], dict(r, observed_now=outs, fresh_twin_now=touts))
        elif "history" in r:
            STUBS.orc = O0()
            d = int(r["object"].split("degree")[1].strip(" )")) if "degree" in r.get("object", "") else 6
            outs, touts = run_cm_history(d, r["history"], twin="all")
            ctx.log("observed  ", outs)
            ctx.log("fresh twin", touts)
            if outs != touts:
                ctx.violation(rec["key"], rec["what"], dict(r, observed_now=outs, fresh_twin_now=touts))
        else:
            STUBS.restore()
            run(ctx)
    finally:
        STUBS.restore()
