/-
  Core/RE.lean — deep-embedded real expressions (import-free, executable part).

  `RE` is the target language of the concolic tracer (translator/tracer.py).  Constants are
  exact rationals `n / d` of the float literals the Python code uses.  The Float evaluator
  `evalF` is what the line-protocol driver uses for translation validation; the real-valued
  semantics and the verified symbolic derivative live in `Lemmas/REReal.lean`.
-/
namespace HitenModel

inductive RE where
  | var : Nat → RE
  | const : Int → Nat → RE          -- numerator / denominator (denominator > 0 by construction)
  | add : RE → RE → RE
  | sub : RE → RE → RE
  | mul : RE → RE → RE
  | div : RE → RE → RE
  | neg : RE → RE
  | pow : RE → Nat → RE
  | sqrt : RE → RE
deriving Repr, DecidableEq, Inhabited

namespace RE

def evalF (ρ : Nat → Float) : RE → Float
  | var i => ρ i
  | const n d => Float.ofInt n / Float.ofNat d
  | add a b => evalF ρ a + evalF ρ b
  | sub a b => evalF ρ a - evalF ρ b
  | mul a b => evalF ρ a * evalF ρ b
  | div a b => evalF ρ a / evalF ρ b
  | neg a => - evalF ρ a
  | pow a n => Id.run do
      let x := evalF ρ a
      let mut r : Float := 1.0
      for _ in [0:n] do r := r * x
      return r
  | sqrt a => Float.sqrt (evalF ρ a)

/-- symbolic partial derivative with respect to variable `i` -/
def D (i : Nat) : RE → RE
  | var j => if i = j then const 1 1 else const 0 1
  | const _ _ => const 0 1
  | add a b => add (D i a) (D i b)
  | sub a b => sub (D i a) (D i b)
  | mul a b => add (mul (D i a) b) (mul a (D i b))
  | div a b => div (sub (mul (D i a) b) (mul a (D i b))) (pow b 2)
  | neg a => neg (D i a)
  | pow a n => mul (mul (const n 1) (pow a (n - 1))) (D i a)
  | sqrt a => div (D i a) (mul (const 2 1) (sqrt a))

/-- number of nodes (for evidence) -/
def size : RE → Nat
  | var _ => 1
  | const _ _ => 1
  | add a b => 1 + size a + size b
  | sub a b => 1 + size a + size b
  | mul a b => 1 + size a + size b
  | div a b => 1 + size a + size b
  | neg a => 1 + size a
  | pow a _ => 1 + size a
  | sqrt a => 1 + size a

end RE

/-! ### a verified syntactic checker for well-definedness (robust to the shape of the traced term) -/

/-- sufficient syntactic condition for `0 < eval ρ e`, given a list `pos` of terms known to be positive -/
def posOK (pos : List RE) : RE → Bool
  | e@(.sqrt a) => pos.contains e || posOK pos a
  | e@(.mul a b) => pos.contains e || (posOK pos a && posOK pos b)
  | e@(.div a b) => pos.contains e || (posOK pos a && posOK pos b)
  | e@(.add a b) => pos.contains e || (posOK pos a && posOK pos b)
  | e@(.pow a _) => pos.contains e || posOK pos a
  | e@(.const n d) => pos.contains e || (decide (0 < n) && decide (0 < d))
  | e => pos.contains e

/-- sufficient syntactic condition for `eval ρ e ≠ 0` -/
def nzOK (pos : List RE) : RE → Bool
  | e@(.mul a b) => posOK pos e || (nzOK pos a && nzOK pos b)
  | e@(.div a b) => posOK pos e || (nzOK pos a && nzOK pos b)
  | e@(.pow a _) => posOK pos e || nzOK pos a
  | e@(.neg a) => posOK pos e || nzOK pos a
  | e@(.const n d) => posOK pos e || (decide (n ≠ 0) && decide (d ≠ 0))
  | e => posOK pos e

/-- sufficient syntactic condition for `WD ρ e` -/
def wdOK (pos : List RE) : RE → Bool
  | .var _ => true
  | .const _ _ => true
  | .add a b => wdOK pos a && wdOK pos b
  | .sub a b => wdOK pos a && wdOK pos b
  | .mul a b => wdOK pos a && wdOK pos b
  | .div a b => wdOK pos a && wdOK pos b && nzOK pos b
  | .neg a => wdOK pos a
  | .pow a _ => wdOK pos a
  | .sqrt a => wdOK pos a && posOK pos a

end HitenModel
