/-
  Core/C02Ctl.lean — executable model of the step-size controller helpers of `integrators/utils.py`
  (`_pi_accept_factor`, `_pi_reject_factor`, `_clamp_step`, `_adjust_step_to_endpoint`, `_select_initial_step`).
  The floating-point power `err ** x` is an oracle value (`Pw`): `nan` or a number.  Import-free.
-/
namespace HitenModel.C02Ctl

inductive Pw where
  | nan
  | val (u : Rat)
deriving Repr, Inhabited

structure Ctl where
  safety : Rat
  minF : Rat
  maxF : Rat
deriving Repr, Inhabited

/-- the two clamps at the end of both factor functions (a NaN has already been replaced) -/
def atLeast (lo f : Rat) : Rat := if f < lo then lo else f
def atMost (hi f : Rat) : Rat := if f > hi then hi else f
def clampF (c : Ctl) (f : Rat) : Rat := atMost c.maxF (atLeast c.minF f)

/-- `_pi_accept_factor`: `errZero` = (err_norm == 0.0); `p` = the power product the code multiplies SAFETY with -/
def acceptFactor (c : Ctl) (errZero : Bool) (p : Pw) : Rat :=
  if errZero then clampF c c.maxF
  else match p with
    | .nan => clampF c c.maxF          -- NaN is replaced by MAX_FACTOR, the clamps leave it there
    | .val u => clampF c (c.safety * u)

/-- `_pi_reject_factor`: `errNonPos` = (err_norm <= 0.0) -/
def rejectFactor (c : Ctl) (errNonPos : Bool) (p : Pw) : Rat :=
  if errNonPos then clampF c c.minF
  else match p with
    | .nan => clampF c c.minF
    | .val u => clampF c (c.safety * u)

/-- `_clamp_step(h, max_step, min_step)` -/
def clampStep (h maxS minS : Rat) : Rat := atLeast minS (atMost maxS h)

/-- `_adjust_step_to_endpoint(t, h, t_end)` -/
def adjustToEndpoint (t h tEnd : Rat) : Rat :=
  if t + h > tEnd then (if tEnd - t < 0 then -(tEnd - t) else tEnd - t) else h

/-- `_select_initial_step(d0, d1, min_step, max_step)`; `small` = (d0 < 1e-5 or d1 < 1e-5), `tiny` = 1e-6, `q` = 0.01*d0/d1 -/
def selectInitialStep (small : Bool) (tiny q minS maxS : Rat) : Rat :=
  atLeast minS (atMost maxS (if small then tiny else q))

end HitenModel.C02Ctl
