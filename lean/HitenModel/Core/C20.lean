/-
  Core/C20.lean — import-free executable model for property C20 (caches and reload).

  1. `PyVal`, `mkHashable`, `makeKey`      : services/base.py `_CacheServiceBase.make_key/_make_hashable`
  2. `Slot`, `separable`, `pairwiseSep`     : shapes of the keys built at each `make_key` call site
  3. `lookup`, `getOrCreate`, `resetKey`    : the `_cache` dict (`get_or_create`, `reset`)
  4. orbit (+ its manifold) state machine   : services/orbits.py, services/manifold.py, system/orbits/base.py
     `stepO` (code: caches + attribute shadows) vs. `stepL` (spec: the fresh twin, no memory but the logical state)
  5. centre-manifold state machine          : services/center.py
  Heavy numerics are fields of `Oracle` / `COracle`; theorems quantify over all oracles.
  Behaviour switches (`Cfg`, `CCfg`) are *probed from the real objects on every run* (Gen/C20.lean); the
  correspondence (Drivers/C20.lean) replays whole operation histories against the real objects.
-/
namespace HitenModel.C20

/-! ## 1. values that reach `make_key` -/

/-- hashable leaves modulo Python `==` (so `1`, `1.0`, `True` are the same `num 1`) -/
inductive Atom where
  | none
  | num (n : Nat)
  | str (s : String)
deriving DecidableEq, Repr, Inhabited

mutual
inductive PyVal where
  | atom (a : Atom)
  | tup (xs : PyList)          -- tuple
  | lst (xs : PyList)          -- list / ndarray / any other unhashable iterable
  | dict (kvs : PyDict)        -- mapping, in iteration order
inductive PyList where
  | nil
  | cons (x : PyVal) (xs : PyList)
inductive PyDict where
  | nil
  | cons (k v : PyVal) (rest : PyDict)
end

mutual
def PyVal.beq : PyVal → PyVal → Bool
  | .atom a, .atom b => a == b
  | .tup xs, .tup ys => PyList.beq xs ys
  | .lst xs, .lst ys => PyList.beq xs ys
  | .dict xs, .dict ys => PyDict.beq xs ys
  | _, _ => false
def PyList.beq : PyList → PyList → Bool
  | .nil, .nil => true
  | .cons x xs, .cons y ys => PyVal.beq x y && PyList.beq xs ys
  | _, _ => false
def PyDict.beq : PyDict → PyDict → Bool
  | .nil, .nil => true
  | .cons k v r, .cons k' v' r' => PyVal.beq k k' && PyVal.beq v v' && PyDict.beq r r'
  | _, _ => false
end

/- `_make_hashable`.  A hashable object is returned unchanged; a hashable tuple has only hashable members, on
which the function is the identity, so `tup ↦ tup (map …)` covers both the hashable and the unhashable tuple.
`keepValues = false` is the behaviour before /repo commit 79842fa (a mapping reduced to the tuple of its keys). -/
mutual
def mkHashable (keepValues : Bool) : PyVal → PyVal
  | .atom a => .atom a
  | .tup xs => .tup (mkHashableL keepValues xs)
  | .lst xs => .tup (mkHashableL keepValues xs)
  | .dict kvs => .tup (mkHashableD keepValues kvs)
def mkHashableL (keepValues : Bool) : PyList → PyList
  | .nil => .nil
  | .cons x xs => .cons (mkHashable keepValues x) (mkHashableL keepValues xs)
def mkHashableD (keepValues : Bool) : PyDict → PyList
  | .nil => .nil
  | .cons k v r =>
      .cons (if keepValues then .tup (.cons (mkHashable keepValues k) (.cons (mkHashable keepValues v) .nil))
             else mkHashable keepValues k)
            (mkHashableD keepValues r)
end

/- two values use the same container kind wherever both have a container (leaves are unconstrained) -/
mutual
def sameKind : PyVal → PyVal → Bool
  | .atom _, _ => true
  | _, .atom _ => true
  | .tup xs, .tup ys => sameKindL xs ys
  | .lst xs, .lst ys => sameKindL xs ys
  | .dict xs, .dict ys => sameKindD xs ys
  | _, _ => false
def sameKindL : PyList → PyList → Bool
  | .cons x xs, .cons y ys => sameKind x y && sameKindL xs ys
  | _, _ => true
def sameKindD : PyDict → PyDict → Bool
  | .cons k v r, .cons k' v' r' => sameKind k k' && sameKind v v' && sameKindD r r'
  | _, _ => true
end

/-- `make_key(*args)`: the frame tag (always the literal "make_key": the caller of `_CacheServiceBase.make_key`
is `_DynamicsServiceBase.make_key`), the domain object, then the hashable conversions of the arguments. -/
def makeKey (keepValues : Bool) (self : PyVal) (args : List PyVal) : List PyVal :=
  .atom (.str "make_key") :: self :: args.map (mkHashable keepValues)

/-! ## 2. shapes of keys per call site -/

/-- what a key component written at a call site can be -/
inductive Slot where
  | lit (a : Atom)                               -- a literal tag from the source (`"monodromy"`, `"pipeline"` …)
  | cls (none num str tup : Bool)                -- an argument: the set of value classes it may take
deriving DecidableEq, Repr

def Slot.matches : Slot → PyVal → Bool
  | .lit a, .atom b => a == b
  | .lit _, _ => false
  | .cls n _ _ _, .atom .none => n
  | .cls _ n _ _, .atom (.num _) => n
  | .cls _ _ s _, .atom (.str _) => s
  | .cls _ _ _ t, .tup _ => t
  | .cls _ _ _ _, _ => false

/-- may some value match both slots? (exact) -/
def Slot.clash : Slot → Slot → Bool
  | .lit a, .lit b => a == b
  | .lit .none, .cls n _ _ _ => n
  | .lit (.num _), .cls _ n _ _ => n
  | .lit (.str _), .cls _ _ s _ => s
  | .cls n _ _ _, .lit .none => n
  | .cls _ n _ _, .lit (.num _) => n
  | .cls _ _ s _, .lit (.str _) => s
  | .cls a b c d, .cls a' b' c' d' => (a && a') || (b && b') || (c && c') || (d && d')

def matchesKey : List Slot → List PyVal → Bool
  | [], [] => true
  | s :: ss, v :: vs => s.matches v && matchesKey ss vs
  | _, _ => false

/-- the two patterns can never produce the same key -/
def separable : List Slot → List Slot → Bool
  | [], [] => false
  | s :: ss, t :: ts => !(s.clash t) || separable ss ts
  | _, _ => true

def pairwiseSep : List (String × List Slot) → Bool
  | [] => true
  | p :: rest => rest.all (fun q => separable p.2 q.2) && pairwiseSep rest

/-! ## 3. the `_cache` dict -/

def lookup {κ ν : Type} [DecidableEq κ] (k : κ) : List (κ × ν) → Option ν
  | [] => none
  | (k', v) :: r => if k' = k then some v else lookup k r

/-- `get_or_create(key, factory)` -/
def getOrCreate {κ ν : Type} [DecidableEq κ] (c : List (κ × ν)) (k : κ) (factory : Unit → ν) : ν × List (κ × ν) :=
  match lookup k c with
  | some v => (v, c)
  | none => let v := factory (); (v, (k, v) :: c)

/-- `reset(key)` -/
def resetKey {κ ν : Type} [DecidableEq κ] (k : κ) (c : List (κ × ν)) : List (κ × ν) :=
  c.filter (fun e => !(decide (e.1 = k)))

/-- a service whose factories only read immutable data: a run of queries -/
def memoRun {κ ν : Type} [DecidableEq κ] (f : κ → ν) : List (κ × ν) → List κ → List ν
  | _, [] => []
  | c, q :: qs => let r := getOrCreate c q (fun _ => f q); r.1 :: memoRun f r.2 qs

/-! ## 4. periodic orbit (and a manifold built on it) -/

abbrev Tok := Nat

/-- outputs of public operations -/
inductive Out where
  | unit
  | tok (t : Tok)
  | pair (a b : Tok)
  | opt (o : Option Tok)
  | err (code : Nat)      -- 1: period not set (ValueError)  2: trajectory not computed (ValueError)
                          -- 3: `_stability_info` is None when indexed (TypeError)  4: bad argument (ValueError)
deriving DecidableEq, Repr

/-- unknown numerics -/
structure Oracle where
  prop : Tok → Tok → Nat → Nat → Nat → Tok     -- state, period, steps, method, order ↦ trajectory
  mono : Tok → Tok → Tok                        -- state, period ↦ monodromy
  stab : Tok → Tok → Tok                        -- state, period ↦ (indices, eigenvalues, eigenvectors)
  energy : Tok → Tok
  corr : Tok → Tok → Tok → Tok × Tok            -- state, correction config, options ↦ corrected state, period
  man : Tok → Tok → Tok → Tok                   -- orbit state, orbit period, manifold settings ↦ manifold result

/-- behaviour switches of the code, probed from the real objects on every run (Gen/C20.lean) -/
structure Cfg where
  /-- `propagate` with a cached key also re-points `_trajectory` to the cached trajectory -/
  propHitRefreshesTraj : Bool
  /-- the key of the correction cache contains the orbit's current initial state -/
  corrKeyHasState : Bool
  /-- a cached correction result is applied to the orbit (state, period) like a fresh one -/
  corrApplyOnHit : Bool
  /-- assigning `correction_config` empties the correction cache -/
  corrCfgSetterResets : Bool
  /-- `apply_correction` drops `_trajectory/_stability_info` when the state changes (not only when the period does) -/
  applyClearsShadows : Bool
  /-- the manifold cache key contains the generating orbit's state and period -/
  manKeyHasOrbitState : Bool
  /-- `Manifold.compute` with a cached key also re-points `_manifold_result` -/
  manHitRefreshesResult : Bool
  /-- `Manifold.result` is withheld when the generating orbit changed since it was computed -/
  manResultChecksOrbit : Bool
  /-- `__getstate__` saves the live value of a computed attribute even when it is None (instead of the copy that an
  earlier `load` left in the domain object's `__dict__`) -/
  saveOverridesStale : Bool
deriving DecidableEq, Repr

def Cfg.sound (c : Cfg) : Bool :=
  c.propHitRefreshesTraj && c.corrKeyHasState && c.corrApplyOnHit && c.corrCfgSetterResets &&
  c.applyClearsShadows && c.manKeyHasOrbitState && c.manHitRefreshesResult && c.manResultChecksOrbit &&
  c.saveOverridesStale

inductive OOp where
  | setPeriod (T : Option Tok)
  | setPeriodBad                       -- non-positive value
  | setCorrCfg (c : Tok)
  | correct (o : Tok)
  | propagate (s m r : Nat)
  | trajectory
  | monodromy
  | computeStability
  | eigenvalues                        -- `stability_indices / eigenvalues / eigenvectors` (read `_stability_info`)
  | energy
  | getPeriod
  | getState
  | manCompute (c : Tok)
  | manResult
  | saveLoad                           -- `save(p); load(p)`, continue with the loaded object (and a new manifold)
deriving DecidableEq, Repr

inductive DKey where
  | mono
  | stab
  | prop (s m r : Nat)
deriving DecidableEq, Repr

def evalD (O : Oracle) (x T : Tok) : DKey → Tok
  | .mono => O.mono x T
  | .stab => O.stab x T
  | .prop s m r => O.prop x T s m r

/-- the code's state: attributes and caches of the dynamics / correction services and of the manifold -/
structure OState where
  x : Tok
  T : Option Tok
  ccfg : Tok
  traj : Option Tok                                        -- `_trajectory`
  stabInfo : Option Tok                                    -- `_stability_info`
  dcache : List (DKey × Tok)                               -- dynamics service cache
  ccache : List ((Option Tok × Tok) × (Tok × Tok))         -- correction service cache
  mres : Option (Tok × Tok × Tok)                          -- `_manifold_result` (+ ghost: orbit state, period it was computed for)
  mcache : List ((Option (Tok × Option Tok) × Tok) × Tok)  -- manifold service cache
  domT : Option Tok                                        -- copies of `_period/_trajectory/_stability_info` that the
  domTraj : Option Tok                                     -- last `load` left in the domain object's `__dict__`
  domStab : Option Tok
deriving Repr

def freshO (x : Tok) (T : Option Tok) : OState :=
  { x := x, T := T, ccfg := 0, traj := none, stabInfo := none, dcache := [], ccache := [], mres := none, mcache := [],
    domT := none, domTraj := none, domStab := none }

/-- what `__getstate__` writes for a computed attribute: the live value, or — unless `saveOverridesStale` — the stale
copy in `__dict__` when the live value is None -/
def savedAttr (cfg : Cfg) (live stale : Option Tok) : Option Tok :=
  if cfg.saveOverridesStale then live else (match live with | some v => some v | none => stale)

/-- `period.setter` (valid value) -/
def setPeriodO (s : OState) (T' : Option Tok) : OState :=
  if T' = s.T then s else { s with T := T', traj := none, stabInfo := none, dcache := [] }

/-- `apply_correction` -/
def applyCorr (cfg : Cfg) (s : OState) (x' T' : Tok) : OState :=
  let s1 : OState :=
    if cfg.applyClearsShadows && !(decide (x' = s.x)) then { s with traj := none, stabInfo := none } else s
  setPeriodO { s1 with dcache := [], x := x' } (some T')

def corrKey (cfg : Cfg) (s : OState) (o : Tok) : Option Tok × Tok :=
  (if cfg.corrKeyHasState then some s.x else none, o)

def manKey (cfg : Cfg) (s : OState) (c : Tok) : Option (Tok × Option Tok) × Tok :=
  (if cfg.manKeyHasOrbitState then some (s.x, s.T) else none, c)

def stepO (cfg : Cfg) (O : Oracle) (s : OState) : OOp → OState × Out
  | .setPeriod T' => (setPeriodO s T', .unit)
  | .setPeriodBad => (s, .err 4)
  | .setCorrCfg c =>
      ({ s with ccfg := c, ccache := if cfg.corrCfgSetterResets then [] else s.ccache }, .unit)
  | .correct o =>
      match lookup (corrKey cfg s o) s.ccache with
      | some r => (if cfg.corrApplyOnHit then applyCorr cfg s r.1 r.2 else s, .pair r.1 r.2)
      | none =>
          let r := O.corr s.x s.ccfg o
          (applyCorr cfg { s with ccache := (corrKey cfg s o, r) :: s.ccache } r.1 r.2, .pair r.1 r.2)
  | .propagate st m r =>
      match s.T with
      | none => (s, .err 1)
      | some T =>
          match lookup (.prop st m r) s.dcache with
          | some v => (if cfg.propHitRefreshesTraj then { s with traj := some v } else s, .tok v)
          | none =>
              let v := O.prop s.x T st m r
              ({ s with dcache := (.prop st m r, v) :: s.dcache, traj := some v }, .tok v)
  | .trajectory =>
      match s.traj with
      | none => (s, .err 2)
      | some v => (s, .tok v)
  | .monodromy =>
      match s.T with
      | none => (s, .err 1)
      | some T =>
          match lookup .mono s.dcache with
          | some v => (s, .tok v)
          | none => let v := O.mono s.x T; ({ s with dcache := (.mono, v) :: s.dcache }, .tok v)
  | .computeStability =>
      match s.T with
      | none => (s, .err 1)
      | some T =>
          match lookup .stab s.dcache with
          | some v => (s, .tok v)
          | none =>
              let v := O.stab s.x T
              ({ s with dcache := (.stab, v) :: s.dcache, stabInfo := some v }, .tok v)
  | .eigenvalues =>
      match s.stabInfo with
      | some v => (s, .tok v)
      | none =>
          match s.T with
          | none => (s, .err 1)
          | some T =>
              match lookup .stab s.dcache with
              | some _ => (s, .err 3)       -- cached key, factory not run, `_stability_info` still None
              | none =>
                  let v := O.stab s.x T
                  ({ s with dcache := (.stab, v) :: s.dcache, stabInfo := some v }, .tok v)
  | .energy => (s, .tok (O.energy s.x))
  | .getPeriod => (s, .opt s.T)
  | .getState => (s, .tok s.x)
  | .manCompute c =>
      match lookup (manKey cfg s c) s.mcache with
      | some v =>
          (if cfg.manHitRefreshesResult then
             match s.T with
             | some T => { s with mres := some (v, s.x, T) }
             | none => s
           else s, .tok v)
      | none =>
          match s.T with
          | none => (s, .err 1)
          | some T =>
              let v := O.man s.x T c
              ({ s with mcache := (manKey cfg s c, v) :: s.mcache, mres := some (v, s.x, T) }, .tok v)
  | .manResult =>
      match s.mres with
      | none => (s, .opt none)
      | some (v, x0, T0) =>
          if cfg.manResultChecksOrbit && !(decide (x0 = s.x ∧ some T0 = s.T)) then (s, .opt none)
          else (s, .opt (some v))
  | .saveLoad =>
      let T' := savedAttr cfg s.T s.domT
      let tr' := savedAttr cfg s.traj s.domTraj
      let sb' := savedAttr cfg s.stabInfo s.domStab
      ({ s with T := T', traj := tr', stabInfo := sb', domT := T', domTraj := tr', domStab := sb',
                ccfg := 0, dcache := [], ccache := [], mres := none, mcache := [] }, .unit)

def runO (cfg : Cfg) (O : Oracle) : OState → List OOp → List Out
  | _, [] => []
  | s, op :: ops => let r := stepO cfg O s op; r.2 :: runO cfg O r.1 ops

/-- the logical state: what a freshly constructed twin is built from -/
structure OLog where
  x : Tok
  T : Option Tok
  ccfg : Tok
  last : Option (Nat × Nat × Nat)          -- settings of the last `propagate` since state/period last changed
  mlast : Option (Tok × Tok × Tok)         -- settings, orbit state, orbit period of the last `Manifold.compute`
deriving Repr

def freshL (x : Tok) (T : Option Tok) : OLog := { x := x, T := T, ccfg := 0, last := none, mlast := none }

def setPeriodL (l : OLog) (T' : Option Tok) : OLog :=
  if T' = l.T then l else { l with T := T', last := none }

/-- a correction moves the orbit to the corrected state and period; a trajectory stays valid only if neither changed -/
def applyCorrL (l : OLog) (x' T' : Tok) : OLog :=
  let l1 : OLog := if x' = l.x then l else { l with last := none }
  setPeriodL { l1 with x := x' } (some T')

/-- the fresh twin: every answer is recomputed from the logical state -/
def stepL (O : Oracle) (l : OLog) : OOp → OLog × Out
  | .setPeriod T' => (setPeriodL l T', .unit)
  | .setPeriodBad => (l, .err 4)
  | .setCorrCfg c => ({ l with ccfg := c }, .unit)
  | .correct o =>
      let r := O.corr l.x l.ccfg o
      (applyCorrL l r.1 r.2, .pair r.1 r.2)
  | .propagate s m r =>
      match l.T with
      | none => (l, .err 1)
      | some T => ({ l with last := some (s, m, r) }, .tok (O.prop l.x T s m r))
  | .trajectory =>
      match l.last, l.T with
      | some (s, m, r), some T => (l, .tok (O.prop l.x T s m r))
      | _, _ => (l, .err 2)
  | .monodromy =>
      match l.T with
      | none => (l, .err 1)
      | some T => (l, .tok (O.mono l.x T))
  | .computeStability =>
      match l.T with
      | none => (l, .err 1)
      | some T => (l, .tok (O.stab l.x T))
  | .eigenvalues =>
      match l.T with
      | none => (l, .err 1)
      | some T => (l, .tok (O.stab l.x T))
  | .energy => (l, .tok (O.energy l.x))
  | .getPeriod => (l, .opt l.T)
  | .getState => (l, .tok l.x)
  | .manCompute c =>
      match l.T with
      | none => (l, .err 1)
      | some T => ({ l with mlast := some (c, l.x, T) }, .tok (O.man l.x T c))
  | .manResult =>
      match l.mlast with
      | none => (l, .opt none)
      | some (c, x0, T0) =>
          if x0 = l.x ∧ some T0 = l.T then (l, .opt (some (O.man x0 T0 c))) else (l, .opt none)
  | .saveLoad => ({ l with ccfg := 0, mlast := none }, .unit)

def runL (O : Oracle) : OLog → List OOp → List Out
  | _, [] => []
  | l, op :: ops => let r := stepL O l op; r.2 :: runL O r.1 ops

/-! ## 5. centre manifold -/

/-- does `CenterManifold.hamiltonian(n)` move the object's degree to `n`? (`pipeline_for_degree` inside the
cached factory: only when the key is new = `onMiss`) -/
inductive HamDeg where
  | never | onMiss | always
deriving DecidableEq, Repr

structure CCfg where
  hamDeg : HamDeg
  /-- the degree setter drops the `_hamsys` attribute -/
  setterClearsHamsys : Bool
  /-- as `Cfg.saveOverridesStale` (the same `_HitenBase.__getstate__`) -/
  saveOverridesStale : Bool
deriving DecidableEq, Repr

def CCfg.sound (c : CCfg) : Bool := (c.hamDeg != .onMiss) && c.setterClearsHamsys && c.saveOverridesStale

structure COracle where
  pipe : Nat → Tok               -- shared Hamiltonian pipeline service: (point, degree) ↦ pipeline
  ham : Tok → Tok → Tok          -- pipeline, form ↦ Hamiltonian
  hsys : Tok → Tok               -- pipeline ↦ compiled Hamiltonian system
  map : Nat → Tok → Tok          -- degree, energy ↦ Poincaré map object

inductive COp where
  | setDegree (n : Nat)          -- n > 0
  | setDegreeBad
  | getDegree
  | hamiltonian (n : Nat)        -- `cm.hamiltonian(n)`  (form "center_manifold_real" = form token 0)
  | compute (form : Tok)         -- `cm.compute(form)` at the current degree
  | hamsys
  | map (e : Tok)
  | saveLoad
deriving DecidableEq, Repr

inductive CKey where
  | pipe (n : Nat)
  | ham (n : Nat)
  | map (n : Nat) (e : Tok)
deriving DecidableEq, Repr

structure CState where
  d : Nat
  hamsys : Option Tok
  cache : List (CKey × Tok)
  domHamsys : Option Tok          -- copy of `_hamsys` left in the domain object's `__dict__` by the last load
deriving Repr

def freshC (d : Nat) : CState := { d := d, hamsys := none, cache := [], domHamsys := none }

def setDegreeC (cfg : CCfg) (s : CState) (n : Nat) : CState :=
  if n = s.d then s
  else { s with d := n, hamsys := if cfg.setterClearsHamsys then none else s.hamsys,
                cache := resetKey (.pipe n) (resetKey (.pipe s.d) s.cache) }

/-- the `pipeline` property -/
def pipelineC (O : COracle) (s : CState) : CState × Tok :=
  match lookup (.pipe s.d) s.cache with
  | some p => (s, p)
  | none => let p := O.pipe s.d; ({ s with cache := (.pipe s.d, p) :: s.cache }, p)

def stepC (cfg : CCfg) (O : COracle) (s : CState) : COp → CState × Out
  | .setDegree n => (setDegreeC cfg s n, .unit)
  | .setDegreeBad => (s, .err 4)
  | .getDegree => (s, .tok s.d)
  | .hamiltonian n =>
      match lookup (.ham n) s.cache with
      | some v => (if cfg.hamDeg = .always then setDegreeC cfg s n else s, .tok v)
      | none =>
          match cfg.hamDeg with
          | .never =>
              let v := O.ham (O.pipe n) 0
              ({ s with cache := (.ham n, v) :: s.cache }, .tok v)
          | _ =>
              let r := pipelineC O (setDegreeC cfg s n)
              let v := O.ham r.2 0
              ({ r.1 with cache := (.ham n, v) :: r.1.cache }, .tok v)
  | .compute form => let r := pipelineC O s; (r.1, .tok (O.ham r.2 form))
  | .hamsys =>
      match s.hamsys with
      | some h => (s, .tok h)
      | none => let r := pipelineC O s; ({ r.1 with hamsys := some (O.hsys r.2) }, .tok (O.hsys r.2))
  | .map e =>
      match lookup (.map s.d e) s.cache with
      | some v => (s, .tok v)
      | none => let v := O.map s.d e; ({ s with cache := (.map s.d e, v) :: s.cache }, .tok v)
  | .saveLoad =>
      -- `_hamsys` is written by `__getstate__` and restored by `_setup_services`; the cache is rebuilt
      let h' := if cfg.saveOverridesStale then s.hamsys else (match s.hamsys with | some v => some v | none => s.domHamsys)
      ({ s with hamsys := h', domHamsys := h', cache := [] }, .unit)

def runC (cfg : CCfg) (O : COracle) : CState → List COp → List Out
  | _, [] => []
  | s, op :: ops => let r := stepC cfg O s op; r.2 :: runC cfg O r.1 ops

/-- fresh twin of a centre manifold: the logical state is the degree -/
def stepCL (cfg : CCfg) (O : COracle) (d : Nat) : COp → Nat × Out
  | .setDegree n => (n, .unit)
  | .setDegreeBad => (d, .err 4)
  | .getDegree => (d, .tok d)
  | .hamiltonian n => (if cfg.hamDeg = .never then d else n, .tok (O.ham (O.pipe n) 0))
  | .compute form => (d, .tok (O.ham (O.pipe d) form))
  | .hamsys => (d, .tok (O.hsys (O.pipe d)))
  | .map e => (d, .tok (O.map d e))
  | .saveLoad => (d, .unit)

def runCL (cfg : CCfg) (O : COracle) : Nat → List COp → List Out
  | _, [] => []
  | d, op :: ops => let r := stepCL cfg O d op; r.2 :: runCL cfg O r.1 ops

/-! ## 6. stability pipeline cache (`compute_stability(options)` of the manifold and libration-point services) -/

/-- the service keeps ONE `StabilityPipeline` object (`self.generator`, dropped by the config setter) and caches a
*reference* to it under every options key; a pipeline holds the results of its last `compute` only -/
structure SCfg where
  /-- every cache entry owns its own pipeline object (so a later computation cannot overwrite its results) -/
  pipelinePerKey : Bool
  /-- the cache key contains the eigendecomposition configuration (or its setter empties the cache) -/
  keyHasConfig : Bool
deriving DecidableEq, Repr

def SCfg.sound (c : SCfg) : Bool := c.pipelinePerKey && c.keyHasConfig

inductive SOp where
  | stab (o : Tok)          -- `compute_stability(options o).eigenvalues`
  | eig                     -- `eigenvalues / is_stable / sn / un …` (default options)
  | setOpts (o : Tok)       -- `eigendecomposition_options := o`
  | setCfg (c : Tok)        -- `eigendecomposition_config := c`
deriving DecidableEq, Repr

structure SState where
  cfg : Tok
  defOpt : Tok
  cur : Option Nat                           -- identity of `self._generator`
  next : Nat                                 -- next fresh object identity
  held : List (Nat × Tok)                    -- results currently held by each pipeline object (first match wins)
  cache : List ((Option Tok × Tok) × Nat)    -- key ↦ identity of the cached pipeline object
deriving Repr

def freshS (c o : Tok) : SState := { cfg := c, defOpt := o, cur := none, next := 0, held := [], cache := [] }

/-- `compute_stability(options o)` followed by reading the returned pipeline; `R cfg opts` = the eigen-classification -/
def stabS (sc : SCfg) (R : Tok → Tok → Tok) (s : SState) (o : Tok) : SState × Out :=
  let key : Option Tok × Tok := (if sc.keyHasConfig then some s.cfg else none, o)
  match lookup key s.cache with
  | some i =>
      match lookup i s.held with
      | some r => (s, .tok r)
      | none => (s, .err 5)
  | none =>
      let r := R s.cfg o
      if sc.pipelinePerKey then
        ({ s with next := s.next + 1, held := (s.next, r) :: s.held, cache := (key, s.next) :: s.cache }, .tok r)
      else
        match s.cur with
        | some g => ({ s with held := (g, r) :: s.held, cache := (key, g) :: s.cache }, .tok r)
        | none =>
            ({ s with cur := some s.next, next := s.next + 1, held := (s.next, r) :: s.held,
                      cache := (key, s.next) :: s.cache }, .tok r)

def stepS (sc : SCfg) (R : Tok → Tok → Tok) (s : SState) : SOp → SState × Out
  | .stab o => stabS sc R s o
  | .eig => stabS sc R s s.defOpt
  | .setOpts o => ({ s with defOpt := o }, .unit)
  | .setCfg c => ({ s with cfg := c, cur := none }, .unit)

def runS (sc : SCfg) (R : Tok → Tok → Tok) : SState → List SOp → List Out
  | _, [] => []
  | s, op :: ops => let r := stepS sc R s op; r.2 :: runS sc R r.1 ops

/-- fresh twin: logical state = (configuration, default options) -/
def stepSL (R : Tok → Tok → Tok) (l : Tok × Tok) : SOp → (Tok × Tok) × Out
  | .stab o => (l, .tok (R l.1 o))
  | .eig => (l, .tok (R l.1 l.2))
  | .setOpts o => ((l.1, o), .unit)
  | .setCfg c => ((c, l.2), .unit)

def runSL (R : Tok → Tok → Tok) : Tok × Tok → List SOp → List Out
  | _, [] => []
  | l, op :: ops => let r := stepSL R l op; r.2 :: runSL R r.1 ops

end HitenModel.C20
