/-
  Core/C15.lean — executable model over ℚ of hiten's synodic section detection
  (`algorithms/poincare/synodic/backend.py`): `_compute_event_values` (affine plane), `_on_surface_indices`,
  `_crossing_indices_and_alpha`, `_refine_hits_linear`, `_refine_hits_cubic` (Newton on a Hermite pair that is a
  *parameter* — the driver instantiates it with the terms traced from the current source, `Gen/C15.lean`),
  `_detect_with_segment_refine`, `_order_and_dedup_hits`, `detect_on_trajectory`.

  No Mathlib.  Everything is total and structurally recursive.  Rational arithmetic is exact, so on dyadic inputs whose
  quotients are dyadic the float code and the model must agree *exactly*.
-/
import HitenModel.Core.RE

namespace HitenModel.C15

abbrev Vec := List Rat

/-- `states @ n` for one row (truncates to the shorter list) -/
def dot : Vec → Vec → Rat
  | a :: as, b :: bs => a * b + dot as bs
  | _, _ => 0

/-- `_AffinePlaneEvent.value` / the vectorised `states @ n - c` of `_compute_event_values` -/
def gval (n : Vec) (c : Rat) (x : Vec) : Rat := dot x n - c

def absQ (x : Rat) : Rat := if x < 0 then -x else x

/-- `np.minimum(hi, np.maximum(lo, x))` -/
def clamp (lo hi x : Rat) : Rat := if x < lo then lo else if hi < x then hi else x

/-- requested crossing direction: `None`, `+1`, `-1` -/
inductive Dir where
  | any | pos | neg
deriving DecidableEq, Repr, Inhabited

structure Sample where
  t : Rat
  x : Vec
deriving Repr, Inhabited

/-- segment `k` = samples `k, k+1` together with the neighbours `k-1`, `k+2` when they exist -/
structure Seg where
  k : Nat
  prev : Option Sample
  a : Sample
  b : Sample
  next : Option Sample
deriving Repr, Inhabited

def segsFrom : Nat → Option Sample → List Sample → List Seg
  | k, p, a :: b :: rest => ⟨k, p, a, b, rest.head?⟩ :: segsFrom (k + 1) (some a) (b :: rest)
  | _, _, _ => []

def segs (l : List Sample) : List Seg := segsFrom 0 none l

structure Cfg where
  n : Vec               -- plane normal
  c : Rat               -- plane offset
  dir : Dir
  tol : Rat             -- tol_on_surface
  tTol : Rat            -- dedup_time_tol
  pTol : Rat            -- dedup_point_tol
  maxHits : Option Nat  -- max_hits_per_traj
  pi : Nat              -- indices of plane_coords
  pj : Nat
deriving Inhabited

/-- the Hermite pair used by the cubic paths: `H s y0 y1 dy0 dy1 dt`, its `s`-derivative, and the (inlined) state
interpolant.  A parameter of the model: the theorems hold for every `Herm`; the driver plugs in the traced source. -/
structure Herm where
  H : Rat → Rat → Rat → Rat → Rat → Rat → Rat
  H' : Rat → Rat → Rat → Rat → Rat → Rat → Rat
  /-- inlined state interpolant of `_refine_hits_cubic`: `Hs s t₀ t₁ t₂ t₃ x₀ x₁ x₂ x₃` for the samples
  `k-1, k, k+1, k+2` (one coordinate) -/
  Hs : Rat → Rat → Rat → Rat → Rat → Rat → Rat → Rat → Rat → Rat

structure Mode where
  cubic : Bool          -- interp_kind == "cubic"
  refine : Nat          -- segment_refine
  iters : Nat           -- newton_max_iter
deriving Inhabited

/-- one reported section hit; `s` is the fraction inside the base segment `seg` -/
structure Hit where
  seg : Nat
  onSurf : Bool
  s : Rat
  time : Rat
  state : Vec
deriving Repr, Inhabited, DecidableEq

section perSegment
variable (cfg : Cfg)

def Seg.g0 (s : Seg) : Rat := gval cfg.n cfg.c s.a.x
def Seg.g1 (s : Seg) : Rat := gval cfg.n cfg.c s.b.x
def Seg.gprev (s : Seg) : Option Rat := s.prev.map fun p => gval cfg.n cfg.c p.x
def Seg.gnext (s : Seg) : Option Rat := s.next.map fun p => gval cfg.n cfg.c p.x

/-- direction filter of an on-surface left sample (`cond_next or cond_prev`) -/
def dirOn (d : Dir) (gp : Option Rat) (g1 : Rat) : Bool :=
  match d with
  | .any => true
  | .pos => decide (0 ≤ g1) || (match gp with | some p => decide (p ≤ 0) | none => false)
  | .neg => decide (g1 ≤ 0) || (match gp with | some p => decide (0 ≤ p) | none => false)

/-- `k ∈ _on_surface_indices(g_all, tol, direction)` (also `accept_left` of the refine path) -/
def onAccept (s : Seg) : Bool :=
  decide (absQ (s.g0 cfg) < cfg.tol) && dirOn cfg.dir (s.gprev cfg) (s.g1 cfg)

/-- `cross_mask` before `&= ~on_mask` (also `crosses` of the refine path) -/
def crossRaw (d : Dir) (g0 g1 : Rat) : Bool :=
  match d with
  | .any => decide (g0 * g1 ≤ 0) && decide (g0 ≠ g1)
  | .pos => decide (g0 < 0) && decide (0 ≤ g1)
  | .neg => decide (0 < g0) && decide (g1 ≤ 0)

def isCross (s : Seg) : Bool := crossRaw cfg.dir (s.g0 cfg) (s.g1 cfg) && !onAccept cfg s

/-- `alpha = clip(g0 / (g0 - g1), 0, 1)` -/
def alphaOf (g0 g1 : Rat) : Rat := clamp 0 1 (g0 / (g0 - g1))

def lerp (x0 x1 : Vec) (a : Rat) : Vec := List.zipWith (fun u v => u + a * (v - u)) x0 x1

def timeAt (s : Seg) (a : Rat) : Rat := (1 - a) * s.a.t + a * s.b.t

def onHit (s : Seg) : Hit := ⟨s.k, true, 0, s.a.t, s.a.x⟩

/-- `_refine_hits_linear` -/
def linHit (s : Seg) : Hit :=
  let a := alphaOf (s.g0 cfg) (s.g1 cfg)
  ⟨s.k, false, a, timeAt s a, lerp s.a.x s.b.x a⟩

/-- slope estimates `d0, d1` of the section function: central differences where a neighbour exists, secant otherwise -/
def slopes (s : Seg) : Rat × Rat :=
  let sec := (s.g1 cfg - s.g0 cfg) / (s.b.t - s.a.t)
  (match s.prev with
    | some p => (s.g1 cfg - gval cfg.n cfg.c p.x) / (s.b.t - p.t)
    | none => sec,
   match s.next with
    | some q => (gval cfg.n cfg.c q.x - s.g0 cfg) / (q.t - s.a.t)
    | none => sec)

/-- the Newton loop of both cubic paths: at most `n` updates `s ← s - f/f'`, stop when `f' = 0`, clamp to `[lo,hi]`
and stop when the iterate leaves the interval -/
def newton (f f' : Rat → Rat) (lo hi : Rat) : Nat → Rat → Rat
  | 0, s => s
  | n + 1, s =>
    let df := f' s
    if df = 0 then s
    else
      let s' := s - f s / df
      if s' < lo then lo else if hi < s' then hi else newton f f' lo hi n s'

def gH (hm : Herm) (s : Seg) (u : Rat) : Rat :=
  hm.H u (s.g0 cfg) (s.g1 cfg) (slopes cfg s).1 (slopes cfg s).2 (s.b.t - s.a.t)
def gH' (hm : Herm) (s : Seg) (u : Rat) : Rat :=
  hm.H' u (s.g0 cfg) (s.g1 cfg) (slopes cfg s).1 (slopes cfg s).2 (s.b.t - s.a.t)

def herm4 (f : Rat → Rat → Rat → Rat → Rat) : Vec → Vec → Vec → Vec → Vec
  | p :: ps, a :: as, b :: bs, q :: qs => f p a b q :: herm4 f ps as bs qs
  | _, _, _, _ => []

/-- hit state of the cubic paths at fraction `u`: componentwise Hermite when both neighbours exist and `dt > 0`,
linear interpolation otherwise -/
def cubicState (hm : Herm) (s : Seg) (u : Rat) : Vec :=
  let dt := s.b.t - s.a.t
  match s.prev, s.next with
  | some p, some q =>
    if 0 < dt then
      herm4 (fun xp xa xb xq => hm.Hs u p.t s.a.t s.b.t q.t xp xa xb xq) p.x s.a.x s.b.x q.x
    else lerp s.a.x s.b.x u
  | _, _ => lerp s.a.x s.b.x u

/-- `_refine_hits_cubic` for one crossing segment -/
def cubHit (hm : Herm) (iters : Nat) (s : Seg) : Hit :=
  let a := alphaOf (s.g0 cfg) (s.g1 cfg)
  let u := if 0 < s.b.t - s.a.t then newton (gH cfg hm s) (gH' cfg hm s) 0 1 iters a else a
  ⟨s.k, false, u, timeAt s u, cubicState hm s u⟩

def crossHit (hm : Herm) (md : Mode) (s : Seg) : Hit :=
  if md.cubic then cubHit cfg hm md.iters s else linHit cfg s

/-- candidate list of the plain path, in the order the code builds it: on-surface samples, then crossings -/
def candidates (hm : Herm) (md : Mode) (S : List Seg) : List Hit :=
  (S.filter (onAccept cfg)).map onHit ++ (S.filter (isCross cfg)).map (crossHit cfg hm md)

/-! ### segment refinement path (`_detect_with_segment_refine`) -/

def subLo (r m : Nat) : Rat := (m : Rat) * (1 / ((r : Rat) + 1))
def subHi (r m : Nat) : Rat := ((m : Rat) + 1) * (1 / ((r : Rat) + 1))

/-- `use_cubic and dt > 0.0` -/
def useCub (md : Mode) (s : Seg) : Bool := md.cubic && decide (0 < s.b.t - s.a.t)

/-- the model of `g` along the segment used by the refine path: Hermite or linear -/
def gAt (hm : Herm) (md : Mode) (s : Seg) (u : Rat) : Rat :=
  if useCub md s then gH cfg hm s u else (1 - u) * s.g0 cfg + u * s.g1 cfg

/-- linear root estimate inside the sub-interval `[lo,hi]` -/
def subStart (glo ghi lo hi : Rat) : Rat :=
  if glo = ghi then (lo + hi) / 2 else lo + clamp 0 1 (glo / (glo - ghi)) * (hi - lo)

def subU (hm : Herm) (md : Mode) (s : Seg) (m : Nat) : Rat :=
  let lo := subLo md.refine m
  let hi := subHi md.refine m
  let u0 := subStart (gAt cfg hm md s lo) (gAt cfg hm md s hi) lo hi
  if useCub md s then newton (gH cfg hm s) (gH' cfg hm s) lo hi md.iters u0 else u0

/-- sub-interval `m` of `r+1` equal parts of segment `s`; returns the candidate if the (linear or Hermite) model of
`g` changes sign compatibly on it -/
def subHit (hm : Herm) (md : Mode) (s : Seg) (m : Nat) : Option Hit :=
  if crossRaw cfg.dir (gAt cfg hm md s (subLo md.refine m)) (gAt cfg hm md s (subHi md.refine m)) then
    some ⟨s.k, false, subU cfg hm md s m, timeAt s (subU cfg hm md s m),
      if useCub md s then cubicState hm s (subU cfg hm md s m) else lerp s.a.x s.b.x (subU cfg hm md s m)⟩
  else none

def subHits (hm : Herm) (md : Mode) (s : Seg) (skip0 : Bool) : List Hit :=
  (List.range (md.refine + 1)).filterMap fun m => if skip0 && m == 0 then none else subHit cfg hm md s m

def refineSeg (hm : Herm) (md : Mode) (s : Seg) : List Hit :=
  if onAccept cfg s then onHit s :: subHits cfg hm md s true else subHits cfg hm md s false

def refineCandidates (hm : Herm) (md : Mode) (S : List Seg) : List Hit :=
  S.flatMap (refineSeg cfg hm md)

/-! ### ordering and de-duplication (`_order_and_dedup_hits`) -/

def insertBySeg (h : Hit) : List Hit → List Hit
  | [] => [h]
  | b :: l => if h.seg ≤ b.seg then h :: b :: l else b :: insertBySeg h l

/-- stable sort by segment index (`np.argsort(seg_order, kind="stable")`) -/
def sortBySeg : List Hit → List Hit
  | [] => []
  | b :: l => insertBySeg b (sortBySeg l)

def isDup (p h : Hit) : Bool :=
  decide (absQ (h.time - p.time) ≤ cfg.tTol) ||
    (let du := h.state.getD cfg.pi 0 - p.state.getD cfg.pi 0
     let dv := h.state.getD cfg.pj 0 - p.state.getD cfg.pj 0
     decide (du * du + dv * dv ≤ cfg.pTol * cfg.pTol))

def dupOfPrev (prev : Option Hit) (h : Hit) : Bool :=
  match prev with
  | some p => isDup cfg p h
  | none => false

def maxReached (cnt : Nat) : Bool :=
  match cfg.maxHits with
  | some m => decide (m ≤ cnt)
  | none => false

/-- the de-duplication loop: `prev` = last kept hit, `cnt` = number of kept hits so far -/
def dedupGo : Option Hit → Nat → List Hit → List Hit
  | _, _, [] => []
  | prev, cnt, h :: rest =>
    if dupOfPrev cfg prev h then dedupGo prev cnt rest
    else h :: (if maxReached cfg (cnt + 1) then [] else dedupGo (some h) (cnt + 1) rest)

def dedup (l : List Hit) : List Hit := dedupGo cfg none 0 l

/-- `_SynodicDetectionBackend.detect_on_trajectory` -/
def detect (hm : Herm) (md : Mode) (samples : List Sample) : List Hit :=
  if samples.length < 2 then []
  else if md.refine = 0 then dedup cfg (sortBySeg (candidates cfg hm md (segs samples)))
  else dedup cfg (sortBySeg (refineCandidates cfg hm md (segs samples)))

end perSegment

/-! ### rational evaluation of traced `RE` terms (used by the driver to plug the traced Hermite pair into the model) -/

def evalQ (ρ : Nat → Rat) : RE → Rat
  | .var i => ρ i
  | .const n d => (n : Rat) / (d : Rat)
  | .add a b => evalQ ρ a + evalQ ρ b
  | .sub a b => evalQ ρ a - evalQ ρ b
  | .mul a b => evalQ ρ a * evalQ ρ b
  | .div a b => evalQ ρ a / evalQ ρ b
  | .neg a => - evalQ ρ a
  | .pow a n => evalQ ρ a ^ n
  | .sqrt _ => 0

def sqrtFree : RE → Bool
  | .var _ => true
  | .const _ _ => true
  | .add a b => sqrtFree a && sqrtFree b
  | .sub a b => sqrtFree a && sqrtFree b
  | .mul a b => sqrtFree a && sqrtFree b
  | .div a b => sqrtFree a && sqrtFree b
  | .neg a => sqrtFree a
  | .pow a _ => sqrtFree a
  | .sqrt _ => false

def env6 (s y0 y1 d0 d1 dt : Rat) : Nat → Rat := fun i => [s, y0, y1, d0, d1, dt].getD i 0

/-- variables of the `_refine_hits_cubic` traces: 0 s, 1..4 t₀..t₃, 5..8 g₀..g₃, 9..12 x₀..x₃ -/
def env13 (s t0 t1 t2 t3 g0 g1 g2 g3 x0 x1 x2 x3 : Rat) : Nat → Rat :=
  fun i => [s, t0, t1, t2, t3, g0, g1, g2, g3, x0, x1, x2, x3].getD i 0

end HitenModel.C15
