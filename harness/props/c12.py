"""C12 — invariant-manifold seeds lie on the true stable/unstable Floquet directions of the orbit.

Regenerated model (Gen/C12.lean): the branch table of `_ManifoldDynamicsService.__init__` (stable?, direction -> signs, integration
direction), the arguments `compute_stm` / `_run_compute` pass to `_compute_stm` / `_propagate_dynsys` (recorders), the traced formula of
`_compute_manifold_section`, and probes of the retention filter and the eigenvalue classifier on dyadic data.
Props/C12.lean: Floquet transport (linear algebra), the seed displacement formula, forward STM for both branches, stable backward /
unstable forward, retention implies the energy bound, classification implies inside/outside the unit circle.
Numerics: real manifolds of a corrected halo orbit against an independent SciPy monodromy/STM."""
from __future__ import annotations

import math
import types
from fractions import Fraction

import numpy as np

import lean_emit as E
import tracer as T


def _fake_orbit():
    return types.SimpleNamespace(initial_state=np.array([0.8, 0.0, 0.1, 0.0, 0.2, 0.0]), period=2.5, mu=0.0121505856)


def _make_service(stable, direction):
    from hiten.algorithms.types.services import manifold as mf
    dom = types.SimpleNamespace(_stable=stable, _direction=direction, generating_orbit=_fake_orbit())
    svc = mf._ManifoldDynamicsService.__new__(mf._ManifoldDynamicsService)
    mf._ManifoldDynamicsService.__init__(svc, dom)
    return svc, mf


class _ShimLA(T.ShimNP):
    class _LA:
        @staticmethod
        def norm(v):
            s = T.Sym.const(0)
            for x in np.asarray(v, dtype=object).ravel():
                s = s + T.Sym.lift(x) ** 2
            return s.sqrt()

    linalg = _LA()


def gen(ctx):
    txt = E.header("C12", imports=("HitenModel.Core.RE",), note="traced from types/services/manifold.py and linalg/backend.py")
    txt += "open RE\n"
    rows = []
    stm_fw = []
    prop_rec = []
    section = None
    try:
        for stable in (True, False):
            for direction in ("positive", "negative"):
                svc, mf = _make_service(stable, direction)
                rows.append((stable, direction == "positive", int(svc._stable), int(svc._forward), int(svc._direction)))
        txt += "-- (stable?, positive?, stable sign, integration direction `forward`, displacement sign `direction`)\n"
        txt += "def branchTable : List (Bool × Bool × Int × Int × Int) := [%s]\n" % ", ".join(
            "(%s, %s, %d, %d, %d)" % (str(a).lower(), str(b).lower(), c, d, e) for a, b, c, d, e in rows)
    except Exception as ex:
        ctx.broken.append(("trace:branch-table", repr(ex)))
        ctx.obligations["trace:branch-table"] = False
    # --- what compute_stm hands to _compute_stm -------------------------------------------------------------
    try:
        for stable in (True, False):
            svc, mf = _make_service(stable, "positive")
            rec = {}

            def fake_stm(dynsys, x0, tf, **kw):
                rec.update(kw)
                rec["dynsys"], rec["x0"], rec["tf"] = dynsys, np.asarray(x0), tf
                return ("xx", "tt", "phiT", "PHI")
            orb = _fake_orbit()
            old = mf._compute_stm
            mf._compute_stm = fake_stm
            try:
                cls = type(svc)
                # properties read by compute_stm
                svc2 = svc
                object.__setattr__(svc2, "_cache", svc._cache)
                props = {"orbit": orb, "period": orb.period, "var_dynsys": "VAR"}
                sub = type("Probe", (cls,), {k: property(lambda self, v=v: v) for k, v in props.items()})
                svc2.__class__ = sub
                out = svc2.compute_stm(steps=17)
            finally:
                mf._compute_stm = old
            okargs = (rec.get("dynsys") == "VAR" and np.array_equal(rec.get("x0"), orb.initial_state) and rec.get("tf") == orb.period
                      and rec.get("steps") == 17 and out == ("xx", "tt", "phiT", "PHI"))
            stm_fw.append((stable, int(rec.get("forward", 0)), okargs))
        txt += "-- direction passed to _compute_stm by compute_stm for (stable, unstable) manifolds; other arguments passed unchanged?\n"
        txt += "def stmForward : List (Bool × Int × Bool) := [%s]\n" % ", ".join("(%s, %d, %s)" % (str(a).lower(), b, str(c).lower()) for a, b, c in stm_fw)
    except Exception as ex:
        ctx.broken.append(("trace:compute_stm-wiring", repr(ex)))
        ctx.obligations["trace:compute_stm-wiring"] = False
    # --- the seed formula -------------------------------------------------------------------------------------
    try:
        svc, mf = _make_service(True, "positive")
        T.reset()
        nT = 5
        tt = np.linspace(0.0, 2.0, nT)
        k = 2                                  # fraction 0.5 of period 2.0 -> index 2
        PHI = np.empty((nT, 42), dtype=object)
        xx = np.empty((nT, 6), dtype=object)
        for r in range(nT):
            for c in range(42):
                PHI[r, c] = T.Sym.var("phi%d" % c, 0.1 * math.sin(c + 1.0) + (1.0 if c % 7 == 0 and c < 36 else 0.0)) if r == k else T.Sym.const(0)
            for c in range(6):
                xx[r, c] = T.Sym.var("x%d" % c, 0.3 + 0.1 * c) if r == k else T.Sym.const(0)
        v = T.symarray([T.Sym.var("v%d" % i, 0.2 + 0.15 * i) for i in range(6)])
        disp = T.Sym.var("disp", 1e-3)
        dirn = T.Sym.var("dir", 1.0)
        sub = type("ProbeS", (type(svc),), {"direction": property(lambda self: dirn)})
        svc.__class__ = sub
        f = T.retarget(type(svc)._compute_manifold_section, shim=_ShimLA())
        x0W = f(svc, period=2.0, fraction=0.5, displacement=disp, xx=xx, tt=tt, PHI=PHI, eigvec=v)
        names = ["phi%d" % c for c in range(36)] + ["x%d" % c for c in range(6)] + ["v%d" % c for c in range(6)] + ["disp", "dir"]
        vidx = {n: i for i, n in enumerate(names)}
        seeds = [T.Sym.lift(s) for s in x0W]
        named, defs = T.canonical_sqrt_names(seeds, "nq")
        for name, rep in defs:
            txt += E.re_def(name, rep, vidx)
        txt += "def seedSqrtArgs : List RE := [%s]\n" % ", ".join(n for n, _ in defs)
        txt += E.re_fun("seed", seeds, vidx, named)
        txt += "def seedPathConditions : List String := [%s]\n" % ", ".join('"%s %s"' % (op, o) for op, a, b, o in T.CTX.path)
        section = (seeds, vidx)
    except Exception as ex:
        ctx.broken.append(("trace:manifold-section", repr(ex)))
        ctx.obligations["trace:manifold-section"] = False
    # --- how branch trajectories are propagated, and the retention filter -----------------------------------
    try:
        table = []
        retain_rows = []
        for stable in (True, False):
            svc, mf = _make_service(stable, "positive")
            recs = []
            # scripted trajectories: (min r1, min r2, relative jacobi error) encoded through the states returned
            scripts = [(1.0, 1.0, 0.0), (1.0, 1.0, 2.0 ** -30), (1.0, 1.0, 2.0 ** -10), (2.0 ** -12, 1.0, 0.0), (1.0, 2.0 ** -14, 0.0)]
            it = iter(scripts * 4)
            cur = {}

            def fake_prop(**kw):
                recs.append(kw)
                r1, r2, err = next(it)
                cur["s"] = (r1, r2, err)
                return types.SimpleNamespace(times=np.array([0.0, 1.0]) * kw["forward"], states=np.array([[r1, r2, err, 0, 0, 0.0], [r1, r2, err, 0, 0, 0]]))

            def fake_err(states, mu):
                return float(states[0, 2])
            old = (mf._propagate_dynsys, mf._max_rel_energy_error)
            mf._propagate_dynsys, mf._max_rel_energy_error = fake_prop, fake_err
            try:
                orb = _fake_orbit()
                props = {"orbit": orb, "period": orb.period, "var_dynsys": "VAR", "dynsys": "DYN", "mu": 0.0,
                         "system": types.SimpleNamespace(distance=1.0, primary=types.SimpleNamespace(radius=1000.0 * 2.0 ** -10),
                                                         secondary=types.SimpleNamespace(radius=1000.0 * 2.0 ** -12)),
                         "eigenvalues": (np.array([0.5]), np.array([2.0]), np.array([])),
                         "eigenvectors": (np.eye(6)[:, :1], np.eye(6)[:, 1:2], np.zeros((6, 0))),
                         "stability": types.SimpleNamespace(get_real_eigenvectors=lambda W, lam: (lam, np.asarray(W, dtype=float)),
                                                            eigenvalues=(np.array([0.5]), np.array([2.0]), np.array([])),
                                                            eigenvectors=(np.eye(6)[:, :1], np.eye(6)[:, 1:2], np.zeros((6, 0))))}
                sub = type("ProbeR", (type(svc),), {k: property(lambda self, v=v: v) for k, v in props.items()})
                svc.__class__ = sub
                nT = 9
                PHIc = np.zeros((nT, 42))
                PHIc[:, :36] = np.eye(6).ravel()
                xxc = np.tile(np.array([2.0, 0, 0, 0, 0, 0.0]), (nT, 1))
                svc.compute_stm = lambda steps: (xxc, np.linspace(0, orb.period, nT), None, PHIc)
                svc._compute_manifold_section = lambda **kw: np.array([1.0, 1.0, 0.0, 0, 0, 0])
                # the sections below make x = r1 - mu ... we bypass geometry: states columns are read as x,y,z -> r1,r2 computed from them;
                # so instead encode r through positions: x = r1 (mu = 0 => r1 = |x|...). Use direct geometry:
                res = svc._run_compute(step=0.2, integration_fraction=0.1, NN=1, displacement=1e-6, dt=1e-2, method="adaptive", order=8,
                                       energy_tol=2.0 ** -20, safe_distance=1.0, show_progress=False) if hasattr(svc, "_run_compute") else None
            finally:
                mf._propagate_dynsys, mf._max_rel_energy_error = old
            fw = sorted({int(r["forward"]) for r in recs})
            flips = sorted({repr(r.get("flip_indices")) for r in recs})
            table.append((stable, fw, flips, recs[0].get("dynsys") == "DYN", float(recs[0].get("t0", -1)) == 0.0))
        txt += "-- (stable?, directions passed to _propagate_dynsys, flip_indices, dynsys is the 6-D CR3BP system, t0 = 0)\n"
        txt += "def branchPropagation : List (Bool × List Int × List String × Bool × Bool) := [%s]\n" % ", ".join(
            "(%s, %s, [%s], %s, %s)" % (str(a).lower(), b, ", ".join('"%s"' % x for x in c), str(d).lower(), str(e).lower()) for a, b, c, d, e in table)
    except Exception as ex:
        ctx.broken.append(("trace:branch-propagation", repr(ex)))
        ctx.obligations["trace:branch-propagation"] = False
    # --- eigenvalue classifier (discrete-time) on dyadic magnitudes ------------------------------------------
    try:
        from hiten.algorithms.linalg import backend as lb
        be = lb._LinalgBackend(lb._SystemType.DISCRETE)
        delta = 2.0 ** -10
        mags = [0.0, 0.5, 1 - 2.0 ** -9, 1 - 2.0 ** -10, 1 - 2.0 ** -11, 1.0, 1 + 2.0 ** -11, 1 + 2.0 ** -10, 1 + 2.0 ** -9, 2.0, 1024.0]
        cls_rows = []
        for mval in mags:
            for sgn in (1, -1):
                r = be._classify_eigenvalue(complex(sgn * mval, 0.0), np.ones(6), delta)
                name = getattr(r, "name", None) or getattr(r[0], "name", str(r))
                q = Fraction(mval)
                cls_rows.append((q.numerator, q.denominator, sgn, str(name).lower()))
        txt += "-- discrete classifier probed at delta = 2^-10: (|lambda| num, den, sign, class)\n"
        txt += "def classifierDelta : Int × Nat := (1, 1024)\n"
        txt += "def classifierProbe : List (Int × Nat × Int × String) := [%s]\n" % ", ".join('(%d, %d, %d, "%s")' % r for r in cls_rows)
    except Exception as ex:
        ctx.broken.append(("trace:classifier", repr(ex)))
        ctx.obligations["trace:classifier"] = False
    txt += E.footer("C12")
    ctx.write_gen("HitenModel.Gen.C12", txt)
    return section


def run(ctx):
    section = ctx.guard("regenerate", gen, ctx)
    ok = ctx.lean_build(["HitenModel.Props.C12"])
    if ok:
        ctx.lean_audit(["HitenModel.Props.C12"], ["HitenModel.Props.C12", "HitenModel.Gen.C12"])
        if ctx.thorough():
            ctx.leanchecker(["HitenModel.Props.C12"])
    if section is not None:
        ctx.guard("validate_section", validate_section, ctx, section)
    ctx.guard("retention_filter", retention_filter, ctx)
    numerics(ctx)
    ctx.rule = ("(orbit, stable/unstable, positive/negative, phase fraction, displacement, method) on real corrected orbits; distinct by that "
                "tuple; non-trivial = every case (a real manifold seed compared with an independent Floquet direction)")


def retention_filter(ctx):
    """The retention filter of `_run_compute` with scripted branch trajectories (real `_max_rel_energy_error`, real safety test):
    a trajectory is retained iff it stays outside the safety spheres and its Jacobi constant changes by at most energy_tol (either sign)."""
    from hiten.algorithms.common.energy import crtbp_energy
    mu = 0.0121505856
    tol = 1e-6
    base = np.array([0.9, 0.3, 0.1, 0.1, -0.2, 0.05])
    C0 = -2 * crtbp_energy(base, mu)

    def with_jacobi_shift(rel):
        # change the speed so that the Jacobi constant changes by rel*|C0| (C = ... - v^2)
        v2 = float(base[3:] @ base[3:])
        new_v2 = v2 - rel * abs(C0)
        out = base.copy()
        out[3:] *= math.sqrt(new_v2 / v2)
        return out

    scripts = [("same", base.copy(), True), ("up-small", with_jacobi_shift(+1e-8), True), ("down-small", with_jacobi_shift(-1e-8), True),
               ("up-large", with_jacobi_shift(+1e-3), False), ("down-large", with_jacobi_shift(-1e-3), False),
               ("down-huge", with_jacobi_shift(-0.5), False)]
    close1 = base.copy()
    close1[:3] = [-mu + 1e-4, 0.0, 0.0]
    scripts.append(("inside-primary", close1, False))
    for stable in (True, False):
        svc, mf = _make_service(stable, "positive")
        it = iter(scripts)
        cur = {}

        def fake_prop(**kw):
            name, end, keep = next(it)
            cur["name"] = name
            return types.SimpleNamespace(times=np.array([0.0, 1.0]) * kw["forward"], states=np.vstack([base, end]))
        old = mf._propagate_dynsys
        mf._propagate_dynsys = fake_prop
        try:
            orb = _fake_orbit()
            props = {"orbit": orb, "period": orb.period, "var_dynsys": "VAR", "dynsys": "DYN", "mu": mu,
                     "system": types.SimpleNamespace(distance=384400.0, primary=types.SimpleNamespace(radius=6378.0),
                                                     secondary=types.SimpleNamespace(radius=1737.0)),
                     "eigenvalues": (np.array([0.5]), np.array([2.0]), np.array([])),
                     "eigenvectors": (np.eye(6)[:, :1], np.eye(6)[:, 1:2], np.zeros((6, 0))),
                     "stability": types.SimpleNamespace(get_real_eigenvectors=lambda W, lam: (lam, np.asarray(W, dtype=float)),
                                                            eigenvalues=(np.array([0.5]), np.array([2.0]), np.array([])),
                                                            eigenvectors=(np.eye(6)[:, :1], np.eye(6)[:, 1:2], np.zeros((6, 0))))}
            sub = type("ProbeF", (type(svc),), {k: property(lambda self, v=v: v) for k, v in props.items()})
            svc.__class__ = sub
            nT = 9
            PHIc = np.zeros((nT, 42))
            PHIc[:, :36] = np.eye(6).ravel()
            xxc = np.tile(base, (nT, 1))
            svc.compute_stm = lambda steps: (xxc, np.linspace(0, orb.period, nT), None, PHIc)
            svc._compute_manifold_section = lambda **kw: base.copy()
            res = svc._run_compute(step=1.0 / len(scripts), integration_fraction=0.1, NN=1, displacement=1e-6, dt=1e-2, method="adaptive",
                                   order=8, energy_tol=tol, safe_distance=2.0, show_progress=False)
            # the same question through the CACHING entry point, as a history on one service object: every argument is part of what is
            # asked for -- a call that differs only in energy_tol (or only in safe_distance) must be answered for ITS value
            hist = []
            for etol, sd in ((1e-1, 2.0), (1e-6, 2.0), (1e-1, 2.0), (1e-6, 1e-9)):
                it = iter(scripts)
                try:
                    r = svc.compute_manifold(step=1.0 / len(scripts), integration_fraction=0.1, NN=1, displacement=1e-6, dt=1e-2, method="adaptive",
                                             order=8, energy_tol=etol, safe_distance=sd, show_progress=False)
                except StopIteration:
                    r = None
                hist.append((etol, sd, None if r is None else [any(np.array_equal(st[-1], end) for st in r[2]) for name, end, keep in scripts]))
        finally:
            mf._propagate_dynsys = old
        for etol, sd, kept_h in hist:
            ctx.case(("retention-history", stable, etol, sd), nontrivial=True, kind="retention-history")
            if kept_h is None:
                continue
            for (name, end, keep), k in zip(scripts, kept_h):
                C1 = -2 * crtbp_energy(end, mu)
                rel = abs((C1 - C0) / abs(C0))
                inside = name == "inside-primary" and sd > 1e-6
                want = (rel <= etol) and not inside
                if name == "inside-primary" and sd <= 1e-6:
                    continue      # with a tiny safety sphere the outcome depends on the scripted state only through the energy test
                if k != want:
                    ctx.violation("retention-history:%s" % name,
                                  "compute_manifold(energy_tol=%g, safe_distance=%g) after calls with other tolerances on the same object: a branch whose Jacobi "
                                  "constant changes by %.3g (relative) is %s" % (etol, sd, rel, "retained" if k else "discarded"),
                                  {"stable": stable, "history": [{"energy_tol": a, "safe_distance": b} for a, b, _ in hist], "case": name,
                                   "relative_jacobi_change": rel, "energy_tol": etol, "retained": bool(k)})
                    return
        states_list = res[2]
        kept = []
        for name, end, keep in scripts:
            kept.append(any(np.array_equal(st[-1], end) for st in states_list))
        for (name, end, keep), k in zip(scripts, kept):
            ctx.case(("retention", stable, name), nontrivial=True, kind="retention-filter")
            if k != keep:
                C1 = -2 * crtbp_energy(end, mu)
                ctx.violation("retention-filter:%s" % name,
                              "a branch trajectory whose Jacobi constant changes by %.3g (relative) is %s although energy_tol = %g" % ((C1 - C0) / abs(C0), "retained" if k else "discarded", tol),
                              {"stable": stable, "case": name, "first_state": base.tolist(), "last_state": end.tolist(), "relative_jacobi_change": float((C1 - C0) / abs(C0)), "energy_tol": tol, "retained": bool(k)})
                return


def validate_section(ctx, section):
    """translation validation of the traced seed formula against the real method on random concrete data"""
    seeds, vidx = section
    rng = ctx.rng
    svc, mf = _make_service(True, "negative")
    worst = 0.0
    for _ in range(600 if ctx.thorough() else 20):
        nT = 7
        k = rng.randrange(nT)
        tt = np.linspace(0, 3.0, nT) * rng.choice([1, -1])
        PHI = np.array([[rng.uniform(-1, 1) for _ in range(42)] for _ in range(nT)])
        xx = np.array([[rng.uniform(-1, 1) for _ in range(6)] for _ in range(nT)])
        v = np.array([rng.uniform(-1, 1) for _ in range(6)])
        disp = 10 ** rng.uniform(-7, -3)
        frac = k / (nT - 1)
        got = svc._compute_manifold_section(period=3.0, fraction=frac, displacement=disp, xx=xx, tt=tt, PHI=PHI, eigvec=v)
        env = {"phi%d" % c: PHI[k, c] for c in range(36)}
        env.update({"x%d" % c: xx[k, c] for c in range(6)})
        env.update({"v%d" % c: v[c] for c in range(6)})
        env.update({"disp": disp, "dir": float(svc.direction)})
        mod = np.array([T.evalf(s, env) for s in seeds])
        err = float(np.abs(mod - np.asarray(got, dtype=float)).max() / (1 + np.abs(mod).max()))
        worst = max(worst, err)
        ctx.traces_validated += 1
        if not err <= 1e-12:
            ctx.broken.append(("trace-validation:manifold-section", "traced seed formula and _compute_manifold_section differ by %g" % err))
            ctx.obligations["trace-validation:manifold-section"] = False
            return
    ctx.obligations["trace-validation:manifold-section"] = True
    ctx.extra["trace_validation_worst_rel_err"] = worst


_ORB = {}


def _orbit(kind):
    from hiten import System
    if kind in _ORB:
        return _ORB[kind]
    sysm = System.from_bodies("earth", "moon")
    if kind == "halo-L1":
        orb = sysm.get_libration_point(1).create_orbit("halo", amplitude_z=0.2, zenith="southern")
    elif kind == "lyapunov-L2":
        # (amplitude 0.02 and larger: the library's corrector loses the y=0 event from its own initial guess and raises -- on the pinned
        # commit too; not this property's concern)
        orb = sysm.get_libration_point(2).create_orbit("lyapunov", amplitude_x=0.01)
    else:
        raise ValueError(kind)
    orb.correct()
    _ORB[kind] = (sysm, orb)
    return _ORB[kind]


def numerics(ctx):
    from scipy.integrate import solve_ivp
    from hiten.algorithms.dynamics import rtbp
    kinds = ["halo-L1"] + (["lyapunov-L2"] if ctx.thorough() else [])
    for kind in kinds:
        sysm, orb = _orbit(kind)
        mu = sysm.mu
        x0 = np.asarray(orb.initial_state, dtype=float)
        Tp = float(orb.period)

        def vf(t, Y):
            x = Y[36:]
            F = rtbp._jacobian_crtbp(x[0], x[1], x[2], mu)
            return np.concatenate([(F @ Y[:36].reshape(6, 6)).ravel(), rtbp._crtbp_accel(x, mu)])

        Y0 = np.concatenate([np.eye(6).ravel(), x0])
        step = 0.25
        fracs = np.arange(0.0, 1.0, step)
        # the service takes the orbit sample of its 2000-point STM grid nearest to fraction*T
        grid = np.linspace(0.0, Tp, 2000)
        tsamp = np.array([grid[int(np.argmin(np.abs(f * Tp - grid)))] for f in fracs])
        ref = solve_ivp(vf, (0, Tp), Y0, method="DOP853", rtol=1e-12, atol=1e-12, t_eval=np.append(tsamp, Tp))
        M = ref.y[:36, -1].reshape(6, 6)
        ev, V = np.linalg.eig(M)
        i_s, i_u = int(np.argmin(np.abs(ev))), int(np.argmax(np.abs(ev)))
        vs, vu = V[:, i_s].real, V[:, i_u].real
        disp = 1e-6
        sides = {}
        combos = [(st_, dr_, "adaptive", 8) for st_ in (True, False) for dr_ in ("positive", "negative")]
        # the non-default fixed-step method as well (stable branch: integrated backward through the direction wrapper)
        combos += [(True, "negative", "fixed", 8)] + ([(False, "positive", "fixed", 4), (True, "positive", "fixed", 6)] if ctx.thorough() else [])
        for stable, direction, method, order in combos:
            if True:
                man = orb.manifold(stable=stable, direction=direction)
                res = man.compute(step=step, integration_fraction=0.05, displacement=disp, method=method, order=order)
                trajs = man.trajectories
                if trajs is None or len(trajs) == 0:
                    ctx.notes.append("no trajectory retained for %s %s %s" % (kind, stable, direction))
                    continue
                matched = 0
                for tr in trajs:
                    states = np.asarray(tr.states, dtype=float)
                    times = np.asarray(tr.times, dtype=float)
                    seed = states[0]
                    # which phase fraction? the seed is within displacement of exactly one orbit sample
                    d = [np.linalg.norm(seed[:3] - ref.y[36:39, j]) for j in range(len(fracs))]
                    j = int(np.argmin(d))
                    xo = ref.y[36:, j]
                    Phi = ref.y[:36, j].reshape(6, 6)
                    true_dir = Phi @ (vs if stable else vu)
                    delta = seed - xo
                    key = (kind, stable, direction, round(float(fracs[j]), 3), method, order)
                    if method == "adaptive":
                        sides[(stable, j, direction)] = delta
                    ctx.case(key, nontrivial=True, kind="%s:%s:%s%s" % (kind, "S" if stable else "U", direction[:3], "" if method == "adaptive" else ":fixed"),
                             sample={"orbit": kind, "stable": stable, "direction": direction, "fraction": float(fracs[j]),
                                     "displacement_norm": float(np.linalg.norm(delta[:3]))} if matched == 0 else None)
                    matched += 1
                    # (a) displaced by the configured distance (position norm)
                    ctx.extra['worst_distance_rel_dev'] = max(ctx.extra.get('worst_distance_rel_dev', 0.0), abs(float(np.linalg.norm(delta[:3])) - disp) / disp)
                    if not abs(np.linalg.norm(delta[:3]) - disp) <= 2e-3 * disp:
                        ctx.violation("seed-distance", "seed is displaced by %g (position norm), configured %g" % (np.linalg.norm(delta[:3]), disp),
                                      {"orbit": kind, "stable": stable, "direction": direction, "fraction": float(fracs[j]), "seed": seed.tolist(), "orbit_point": xo.tolist()})
                        return
                    # (b) along the true Floquet direction
                    cosang = abs(float(delta @ true_dir) / (np.linalg.norm(delta) * np.linalg.norm(true_dir)))
                    ang = math.degrees(math.acos(min(1.0, cosang)))
                    ctx.extra.setdefault("angles_deg", {})["%s:%s:%s:%.2f" % (kind, "S" if stable else "U", direction[:3], fracs[j])] = round(ang, 5)
                    if not ang <= 0.5:
                        ctx.violation("seed-direction:%s" % ("stable" if stable else "unstable"),
                                      "seed displacement is %.3f degrees off the true %s Floquet direction" % (ang, "stable" if stable else "unstable"),
                                      {"orbit": kind, "initial_state": x0.tolist(), "period": Tp, "stable": stable, "direction": direction,
                                       "fraction": float(fracs[j]), "seed": seed.tolist(), "orbit_point": xo.tolist(), "true_direction": true_dir.tolist(), "angle_deg": ang})
                        return
                    # (c) integration direction: stable backward, unstable forward
                    sgn = -1 if stable else 1
                    if not (times[0] == 0 and np.all(np.diff(times) * sgn > 0)):
                        ctx.violation("branch-time-direction", "%s branch is not integrated %s in time" % ("stable" if stable else "unstable", "backward" if stable else "forward"),
                                      {"orbit": kind, "stable": stable, "times_head": times[:4].tolist()})
                        return
                    # and it really follows the flow in that direction
                    chk = solve_ivp(lambda t, y: rtbp._crtbp_accel(y, mu), (0, times[-1]), seed, method="DOP853", rtol=1e-11, atol=1e-11)
                    if not np.linalg.norm(chk.y[:, -1] - states[-1]) <= 1e-6:
                        ctx.violation("branch-not-flow", "branch trajectory is not the flow of its seed at the signed times (end-state error %g)" % np.linalg.norm(chk.y[:, -1] - states[-1]),
                                      {"orbit": kind, "stable": stable, "direction": direction, "method": method, "order": order, "seed": seed.tolist(), "t_end": float(times[-1])})
                        return
                    # (d) Jacobi constant of the seed kept within the energy tolerance
                    C = np.array([-2 * __import__("hiten").algorithms.common.energy.crtbp_energy(s, mu) for s in states[:: max(1, len(states) // 50)]])
                    rel = float(np.abs(C - C[0]).max() / abs(C[0]))
                    if not rel <= 1e-6:
                        ctx.violation("branch-jacobi", "retained trajectory changes its Jacobi constant by %g (relative), tolerance 1e-6" % rel,
                                      {"orbit": kind, "stable": stable, "direction": direction, "seed": seed.tolist(), "rel_change": rel})
                        return
                    # (e) side: positive/negative directions are opposite
                ctx.extra.setdefault("retained", {})["%s:%s:%s" % (kind, stable, direction)] = matched
                if (stable, direction, method) == (False, "positive", "adaptive"):
                    # history on the SAME manifold object: a second compute with another displacement is answered for that displacement
                    disp2 = 3e-6
                    man.compute(step=step, integration_fraction=0.05, displacement=disp2, method=method, order=order)
                    for tr in (man.trajectories or []):
                        seed = np.asarray(tr.states, dtype=float)[0]
                        dmin = min(np.linalg.norm(seed[:3] - ref.y[36:39, j]) for j in range(len(fracs)))
                        ctx.case((kind, "second-compute", round(float(dmin), 12)), nontrivial=True, kind="%s:second-compute" % kind)
                        if not abs(dmin - disp2) <= 2e-3 * disp2:
                            ctx.violation("seed-distance:second-compute",
                                          "second compute() on the same Manifold with displacement %g: seed is displaced by %g" % (disp2, dmin),
                                          {"orbit": kind, "stable": stable, "direction": direction, "history": ["compute(displacement=1e-6)", "compute(displacement=3e-6)"],
                                           "seed": seed.tolist(), "distance_to_orbit_sample": float(dmin)})
                            return
        # (e) side: at every phase fraction the "positive" and the "negative" seed lie on opposite sides of the orbit point, and the positive
        # side is the same side (relative to the transported eigenvector) at every fraction
        for (stable, j, direction), dpos in sorted(sides.items(), key=lambda kv: (kv[0][0], kv[0][1], kv[0][2])):
            if direction != "positive" or (stable, j, "negative") not in sides:
                continue
            dneg = sides[(stable, j, "negative")]
            c = float(dpos @ dneg) / (np.linalg.norm(dpos) * np.linalg.norm(dneg))
            ctx.case((kind, "side", stable, j), nontrivial=True, kind="%s:side" % kind)
            if not c <= -0.999:
                ctx.violation("seed-side", "the positive and the negative seed at phase fraction %.3f are not on opposite sides of the orbit (cosine %.4f)" % (fracs[j], c),
                              {"orbit": kind, "stable": stable, "fraction": float(fracs[j]), "positive_offset": dpos.tolist(), "negative_offset": dneg.tolist(), "cosine": c})
                return
        for stable in (True, False):
            sg = []
            for j in range(len(fracs)):
                if (stable, j, "positive") in sides:
                    Phi = ref.y[:36, j].reshape(6, 6)
                    sg.append((j, float(np.sign(sides[(stable, j, "positive")] @ (Phi @ (vs if stable else vu))))))
            if len({v for _, v in sg}) > 1:
                ctx.violation("seed-side", "the positive side flips along the orbit relative to the transported eigenvector: %r" % (sg,),
                              {"orbit": kind, "stable": stable, "signs_by_fraction_index": sg})
                return
