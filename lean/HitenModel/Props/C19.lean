/-
  Props/C19.lean — property C19: reported connections are geometrically and kinematically what they claim.

  Model: `Core/C19.lean` (hand model of connections/backends.py, polymorphic in the scalar field) with the closest-point
  routine `Gen.C19.closestGen`, which is regenerated on every run by symbolically executing *all* paths of the current
  `_closest_points_on_segments_2d`.  `K` is an arbitrary linearly ordered field (ℚ, ℝ, …): the theorems are about exact
  arithmetic; float64 rounding is measured by the harness.  `cl` below is the traced routine plugged into the pipeline.
  Squared quantities replace norms: `dv2 = |v_u − v_s|²`, `leTol dv2 tol ⇔ √dv2 ≤ tol` (`leTol_iff_sqrt`).
-/
import HitenModel.Lemmas.C19
import HitenModel.Lemmas.C19Pairs
import Mathlib.Analysis.Real.Sqrt

namespace HitenModel.Props.C19
open HitenModel HitenModel.C19 HitenModel.Gen.C19

variable {K : Type} [Field K] [LinearOrder K] [IsStrictOrderedRing K]

/-- the closest-point routine of the current source -/
abbrev cl : ClosestFn K := closestGen

/-! ### closest points of two segments -/

/-- close one leaf of the traced decision tree: evaluate the hand model under the path conditions; when the source was
refactored so that conditions no longer match syntactically, fall back to case analysis + linear arithmetic + `ring` -/
syntax "c19_leaf" : tactic
macro_rules
  | `(tactic| c19_leaf) => `(tactic| first
      | (simp only [closestST, firstStage, midStage, finalStage, clamp01, gt_iff_lt, *, ↓reduceIte, zero_mul, one_mul,
           add_zero]; done)
      | (simp only [closestST, firstStage, midStage, finalStage, clamp01, gt_iff_lt, *, ↓reduceIte, zero_mul, one_mul,
           add_zero]
         ring_nf at *
         split_ifs <;> first
           | rfl
           | (exfalso; linarith)
           | (simp only [Prod.mk.injEq]; (repeat' constructor) <;> ring)))

syntax "c19_tree_split" : tactic
macro_rules
  | `(tactic| c19_tree_split) => `(tactic| first
      | (refine ite_eq_iff'.mpr ⟨fun h => ?_, fun h => ?_⟩ <;> (try simp only [gt_iff_lt] at h) <;>
          first | contradiction | c19_tree_split)
      | (subst_vars; c19_leaf))

set_option maxHeartbeats 2000000 in
/-- **tie of the hand model to the source**: on every one of its syntactic paths the traced routine computes exactly
what the hand model `closestCore` computes (all inputs, any ordered field) -/
theorem closestGen_eq_closestCore (a0x a0y a1x a1y b0x b0y b1x b1y : K) :
    closestGen a0x a0y a1x a1y b0x b0y b1x b1y = closestCore a0x a0y a1x a1y b0x b0y b1x b1y := by
  have h10 : ¬ (1 : K) < 0 := not_lt.mpr zero_le_one
  have h00 : ¬ (0 : K) < 0 := lt_irrefl _
  have h11 : ¬ (1 : K) < 1 := lt_irrefl _
  simp only [closestGen, closestCore]
  generalize a1x - a0x = ux
  generalize a1y - a0y = uy
  generalize b1x - b0x = vx
  generalize b1y - b0y = vy
  generalize a0x - b0x = wx
  generalize a0y - b0y = wy
  generalize ux * ux + uy * uy = A
  generalize ux * vx + uy * vy = B
  generalize vx * vx + vy * vy = C
  generalize ux * wx + uy * wy = D
  generalize vx * wx + vy * wy = E
  generalize hX : closestST A B C D E = X
  c19_tree_split

/-- the returned `(s,t)` satisfies the KKT conditions of the convex quadratic `|a₀ + s u − b₀ − t v|²` on `[0,1]²`
(`A = u·u, B = u·v, C = v·v, D = u·w, E = v·w, w = a₀ − b₀`) — for all segment pairs, including `den = 0` -/
theorem closest_points_kkt (a0x a0y a1x a1y b0x b0y b1x b1y : K) :
    KKT ((a1x - a0x) * (a1x - a0x) + (a1y - a0y) * (a1y - a0y))
        ((a1x - a0x) * (b1x - b0x) + (a1y - a0y) * (b1y - b0y))
        ((b1x - b0x) * (b1x - b0x) + (b1y - b0y) * (b1y - b0y))
        ((a1x - a0x) * (a0x - b0x) + (a1y - a0y) * (a0y - b0y))
        ((b1x - b0x) * (a0x - b0x) + (b1y - b0y) * (a0y - b0y))
        ((closestGen a0x a0y a1x a1y b0x b0y b1x b1y).1, (closestGen a0x a0y a1x a1y b0x b0y b1x b1y).2.1) := by
  rw [closestGen_eq_closestCore]
  exact closestCore_kkt a0x a0y a1x a1y b0x b0y b1x b1y

/-- one-line convexity argument: a KKT point of `A s² − 2B s t + C t² + 2D s − 2E t` (positive semidefinite quadratic
part) is a global minimiser over the unit square -/
theorem kkt_implies_global_min {A B C D E : K}
    (hQ : ∀ x y : K, 0 ≤ A * x * x - (B + B) * x * y + C * y * y) {st : K × K} (h : KKT A B C D E st)
    {s' t' : K} (hs0 : 0 ≤ s') (hs1 : s' ≤ 1) (ht0 : 0 ≤ t') (ht1 : t' ≤ 1) :
    A * st.1 * st.1 - (B + B) * st.1 * st.2 + C * st.2 * st.2 + (D + D) * st.1 - (E + E) * st.2
      ≤ A * s' * s' - (B + B) * s' * t' + C * t' * t' + (D + D) * s' - (E + E) * t' :=
  kkt_min hQ h hs0 hs1 ht0 ht1

/-- **closest_points_optimal** (full strength, every pair of segments): the routine returns parameters in `[0,1]`,
the points `P = a₀ + s(a₁−a₀)`, `Q = b₀ + t(b₁−b₀)` they denote, and no pair of points of the two closed segments is
closer than `P, Q` -/
theorem closest_points_optimal (a0x a0y a1x a1y b0x b0y b1x b1y : K) :
    (0 ≤ (closestGen a0x a0y a1x a1y b0x b0y b1x b1y).1 ∧ (closestGen a0x a0y a1x a1y b0x b0y b1x b1y).1 ≤ 1 ∧
      0 ≤ (closestGen a0x a0y a1x a1y b0x b0y b1x b1y).2.1 ∧ (closestGen a0x a0y a1x a1y b0x b0y b1x b1y).2.1 ≤ 1) ∧
    ((closestGen a0x a0y a1x a1y b0x b0y b1x b1y).2.2.1, (closestGen a0x a0y a1x a1y b0x b0y b1x b1y).2.2.2.1)
      = segPt (a0x, a0y) (a1x, a1y) (closestGen a0x a0y a1x a1y b0x b0y b1x b1y).1 ∧
    ((closestGen a0x a0y a1x a1y b0x b0y b1x b1y).2.2.2.2.1, (closestGen a0x a0y a1x a1y b0x b0y b1x b1y).2.2.2.2.2)
      = segPt (b0x, b0y) (b1x, b1y) (closestGen a0x a0y a1x a1y b0x b0y b1x b1y).2.1 ∧
    ∀ s' t' : K, 0 ≤ s' → s' ≤ 1 → 0 ≤ t' → t' ≤ 1 →
      d2 (segPt (a0x, a0y) (a1x, a1y) (closestGen a0x a0y a1x a1y b0x b0y b1x b1y).1)
         (segPt (b0x, b0y) (b1x, b1y) (closestGen a0x a0y a1x a1y b0x b0y b1x b1y).2.1)
        ≤ d2 (segPt (a0x, a0y) (a1x, a1y) s') (segPt (b0x, b0y) (b1x, b1y) t') := by
  rw [closestGen_eq_closestCore]
  exact closestCore_spec a0x a0y a1x a1y b0x b0y b1x b1y

/-- non-vacuity / regression of the repaired `den = 0` branch: the parallel segments of DESIGN §6 row 18,
`(0,0)-(1,0)` and `(5,1)-(1/2,1)`, now give distance² 1 (it was 26 before commit 6f518cc) -/
example : (closestGen (0 : ℚ) 0 1 0 5 1 (1/2) 1) = (1/2, 1, 1/2, 0, 1/2, 1) := by
  rw [closestGen_eq_closestCore]
  norm_num [closestCore, closestST, firstStage, midStage, finalStage, clamp01]

/-! ### results: velocity mismatch, limits, labels, order -/

/-- the reported mismatch is the (squared) norm of the velocity difference of the two *reported* states -/
theorem delta_v_is_velocity_mismatch (maxLen : K) (inp : Input K) :
    ∀ c ∈ run cl maxLen inp, c.dv2 = sqDiff (vel c.stateU) (vel c.stateS) := by
  intro c hc
  obtain ⟨ij, _, hm⟩ := mem_run hc
  exact (mkConn_some hm).2.2.2.2.1

/-- `sqDiff ∘ vel` is the squared Euclidean norm of the velocity difference of two 6-D states -/
theorem sqDiff_vel (x0 x1 x2 x3 x4 x5 y0 y1 y2 y3 y4 y5 : K) :
    sqDiff (vel [x0, x1, x2, x3, x4, x5]) (vel [y0, y1, y2, y3, y4, y5])
      = (x3 - y3) ^ 2 + (x4 - y4) ^ 2 + (x5 - y5) ^ 2 := by
  simp [sqDiff, vel]
  ring

/-- every reported mismatch is within the requested limit, and the label is `ballistic` exactly when the mismatch is
within the ballistic tolerance (`leTol x tol ⇔ 0 ≤ tol ∧ x ≤ tol²`) -/
theorem within_limit_and_labelled (maxLen : K) (inp : Input K) :
    ∀ c ∈ run cl maxLen inp,
      (0 ≤ inp.dvTol ∧ c.dv2 ≤ inp.dvTol * inp.dvTol) ∧
      (c.ballistic = true ↔ (0 ≤ inp.balTol ∧ c.dv2 ≤ inp.balTol * inp.balTol)) := by
  intro c hc
  obtain ⟨ij, _, hm⟩ := mem_run hc
  have h := mkConn_some hm
  refine ⟨(leTol_iff _ _).mp h.2.2.2.2.2.1, ?_⟩
  rw [h.2.2.2.2.2.2.1]
  exact leTol_iff _ _

/-- over the reals the squared comparison is the comparison of the norm with the tolerance -/
theorem leTol_iff_sqrt (x tol : ℝ) : leTol x tol = true ↔ Real.sqrt x ≤ tol := by
  rw [leTol_iff, Real.sqrt_le_iff, pow_two]

/-- over the reals: `|Δv| ≤ dv_tol`, and ballistic ⇔ `|Δv| ≤ bal_tol` -/
theorem within_limit_and_labelled_real (maxLen : ℝ) (inp : Input ℝ) :
    ∀ c ∈ run cl maxLen inp,
      Real.sqrt c.dv2 ≤ inp.dvTol ∧ (c.ballistic = true ↔ Real.sqrt c.dv2 ≤ inp.balTol) := by
  intro c hc
  obtain ⟨h1, h2⟩ := within_limit_and_labelled maxLen inp c hc
  rw [Real.sqrt_le_iff, Real.sqrt_le_iff, pow_two, pow_two]
  exact ⟨h1, h2⟩

/-- the result list is sorted by mismatch and is a permutation of the accepted connections (sorting loses nothing) -/
theorem results_sorted (maxLen : K) (inp : Input K) :
    (run cl maxLen inp).Pairwise (fun a b => a.dv2 ≤ b.dv2) ∧
    (¬ (inp.pu.isEmpty ∨ inp.ps.isEmpty) → (run cl maxLen inp).Perm (unsorted cl maxLen inp)) := by
  unfold run
  split_ifs with h
  · exact ⟨List.Pairwise.nil, fun h' => absurd h h'⟩
  · exact ⟨sortConns_sorted _, fun _ => sortConns_perm _⟩

/-! ### radius pairing: counts, prefix sums, fill -/

/-- **prefix_sum_layout**: `_pair_counts`, `_exclusive_prefix_sum` and the fill loop of `_radpair2d` fit exactly: the
pairs array (allocated uninitialised with `offs[-1]` rows) is written in every slot exactly once — no slot is left
unwritten (`none`), none is overwritten or written out of bounds — and it is the row-major list of all in-radius pairs -/
theorem prefix_sum_layout (query ref : List (Pt K)) (radius : K) :
    radpair query ref radius = (allPairs (radius * radius) query ref).map some :=
  radpair_eq query ref radius

/-- the radius pairs the backend works with are exactly the index pairs at squared distance `≤ eps²` -/
theorem radius_pairs_exact (inp : Input K) (i j : Nat) :
    (i, j) ∈ pairsArr inp ↔
      i < inp.pu.length ∧ j < inp.ps.length ∧ d2 (ptAt inp.pu i) (ptAt inp.ps j) ≤ inp.eps * inp.eps :=
  mem_pairsArr inp i j

/-! ### reported pairs -/

/-- **reported_pairs_mutual_nearest_within_radius**: every reported connection pairs an unstable section point with a
stable section point that lie within the search radius and are nearest neighbours of each other among *all* points of
the other cloud -/
theorem reported_pairs_mutual_nearest_within_radius (maxLen : K) (inp : Input K) :
    ∀ c ∈ run cl maxLen inp,
      c.iu < inp.pu.length ∧ c.is < inp.ps.length ∧
      d2 (ptAt inp.pu c.iu) (ptAt inp.ps c.is) ≤ inp.eps * inp.eps ∧
      (∀ j', j' < inp.ps.length → d2 (ptAt inp.pu c.iu) (ptAt inp.ps c.is) ≤ d2 (ptAt inp.pu c.iu) (ptAt inp.ps j')) ∧
      (∀ i', i' < inp.pu.length → d2 (ptAt inp.pu c.iu) (ptAt inp.ps c.is) ≤ d2 (ptAt inp.pu i') (ptAt inp.ps c.is)) := by
  intro c hc
  obtain ⟨⟨i, j⟩, hij, hm⟩ := mem_run hc
  obtain ⟨hiu, his, _⟩ := mkConn_some hm
  simp only at hiu his
  rw [hiu, his]
  obtain ⟨hmem, hminj, hmini⟩ := mutualPairs_spec inp.pu inp.ps (pairsArr inp) i j hij
  obtain ⟨hi, hj, hr⟩ := (mem_pairsArr inp i j).mp hmem
  refine ⟨hi, hj, hr, ?_, ?_⟩
  · intro j' hj'
    by_cases hin : d2 (ptAt inp.pu i) (ptAt inp.ps j') ≤ inp.eps * inp.eps
    · exact hminj j' ((mem_pairsArr inp i j').mpr ⟨hi, hj', hin⟩)
    · exact hr.trans (not_le.mp hin).le
  · intro i' hi'
    by_cases hin : d2 (ptAt inp.pu i') (ptAt inp.ps j) ≤ inp.eps * inp.eps
    · exact hmini i' ((mem_pairsArr inp i' j).mpr ⟨hi', hj, hin⟩)
    · exact hr.trans (not_le.mp hin).le

/-- "pairs one … with one …": no unstable index and no stable index is reported twice -/
theorem reported_pairs_one_to_one (maxLen : K) (inp : Input K) :
    ((run cl maxLen inp).map (·.iu)).Nodup ∧ ((run cl maxLen inp).map (·.is)).Nodup := by
  unfold run
  split_ifs with h
  · simp
  · have hp := sortConns_perm (unsorted cl maxLen inp)
    rw [(hp.map _).nodup_iff, (hp.map _).nodup_iff]
    obtain ⟨h1, h2⟩ := mutualPairs_nodup inp.pu inp.ps (pairsArr inp)
    unfold unsorted
    simp only []
    constructor
    · refine (filterMap_map_sublist (h := Prod.fst) ?_ _).nodup h1
      intro ij c hm
      exact (mkConn_some hm).1
    · refine (filterMap_map_sublist (h := Prod.snd) ?_ _).nodup h2
      intro ij c hm
      exact (mkConn_some hm).2.1

/-- the local segment partner used by the refinement is the (first) nearest other point of the same cloud -/
theorem nearest_neighbor_spec (pts : List (Pt K)) (i : Nat) (hi : i < pts.length) :
    match (nnAll pts).getD i none with
    | none => pts.length ≤ 1
    | some j => j ≠ i ∧ j < pts.length ∧
        ∀ k, k < pts.length → k ≠ i → d2 (ptAt pts i) (ptAt pts j) ≤ d2 (ptAt pts i) (ptAt pts k) :=
  nnAll_spec pts i hi

/-- **refined meeting point and reported states.**  A connection is reported either *unrefined* (`seg = none`: a cloud
has a single point, so no local segment exists, or the segment is longer than `maxLen`): then the point is the unstable
section point and the states are the two section states; or *refined* (`seg = some (u1, s1, s, t)`): then `u1`, `s1`
are the nearest neighbours of the paired points inside their own clouds, `s, t ∈ [0,1]`, the reported point is the
midpoint of `P = pu[iu] + s (pu[u1] − pu[iu])` and `Q = ps[is] + t (ps[s1] − ps[is])`, no two points of the two closed
local segments are closer than `P` and `Q`, and the reported states are the section states interpolated at the same
`s` and `t` -/
theorem refined_point_is_midpoint_of_closest_points (maxLen : K) (inp : Input K) :
    ∀ c ∈ run cl maxLen inp,
      match c.seg with
      | none => c.point = ptAt inp.pu c.iu ∧ c.stateU = stAt inp.Xu c.iu ∧ c.stateS = stAt inp.Xs c.is
      | some (u1, s1, s, t) =>
          (nnAll inp.pu).getD c.iu none = some u1 ∧ (nnAll inp.ps).getD c.is none = some s1 ∧
          0 ≤ s ∧ s ≤ 1 ∧ 0 ≤ t ∧ t ≤ 1 ∧
          c.point = (((segPt (ptAt inp.pu c.iu) (ptAt inp.pu u1) s).1 + (segPt (ptAt inp.ps c.is) (ptAt inp.ps s1) t).1) / 2,
                     ((segPt (ptAt inp.pu c.iu) (ptAt inp.pu u1) s).2 + (segPt (ptAt inp.ps c.is) (ptAt inp.ps s1) t).2) / 2) ∧
          (∀ s' t' : K, 0 ≤ s' → s' ≤ 1 → 0 ≤ t' → t' ≤ 1 →
            d2 (segPt (ptAt inp.pu c.iu) (ptAt inp.pu u1) s) (segPt (ptAt inp.ps c.is) (ptAt inp.ps s1) t)
              ≤ d2 (segPt (ptAt inp.pu c.iu) (ptAt inp.pu u1) s') (segPt (ptAt inp.ps c.is) (ptAt inp.ps s1) t')) ∧
          c.stateU = lerp s (stAt inp.Xu c.iu) (stAt inp.Xu u1) ∧ c.stateS = lerp t (stAt inp.Xs c.is) (stAt inp.Xs s1) := by
  intro c hc
  obtain ⟨⟨i, j⟩, hij, hm⟩ := mem_run hc
  obtain ⟨hiu, his, _, _, _, _, _, hcase⟩ := mkConn_some hm
  simp only at hiu his
  rcases hcase with ⟨hv, _, _, hseg, hpt, hsu, hss⟩ | ⟨_, hseg, hpt, hsu, hss⟩
  · obtain ⟨iu, js, hnu, hns, hr⟩ := refineOne_valid hv
    rw [hr] at hseg hpt hsu hss
    simp only at hseg hpt hsu hss hnu hns
    rw [hseg, hiu, his]
    have hopt := closest_points_optimal (ptAt inp.pu i).1 (ptAt inp.pu i).2 (ptAt inp.pu iu).1 (ptAt inp.pu iu).2
      (ptAt inp.ps j).1 (ptAt inp.ps j).2 (ptAt inp.ps js).1 (ptAt inp.ps js).2
    obtain ⟨⟨b1, b2, b3, b4⟩, hP, hQ, hmin⟩ := hopt
    simp only [Prod.mk.eta] at hP hQ hmin
    refine ⟨hnu, hns, b1, b2, b3, b4, ?_, hmin, hsu, hss⟩
    rw [hpt, ← hP, ← hQ]
    simp only [half_mul]
  · rw [hseg, hiu, his]
    exact ⟨hpt, hsu, hss⟩

/-! ### non-vacuity: concrete clouds on which the pipeline reports refined, unrefined, ballistic and impulsive connections -/

/-- three unstable and three stable lattice points, radius 3/2 -/
def exInput : Input ℚ :=
  { pu := [(0, 0), (1, 0), (2, 2)], ps := [(0, 1), (1, 1), (3, 3)],
    Xu := [[0, 0, 0, 1, 0, 0], [1, 0, 0, 2, 0, 0], [2, 2, 0, 0, 1, 0]],
    Xs := [[0, 1, 0, 1, 1, 0], [1, 1, 0, 2, 0, 3], [3, 3, 0, 0, 0, 0]],
    tu := none, ts := some [4, 5, 6], eps := 3 / 2, dvTol := 5, balTol := 1 }

example : (run cl 1000000000 exInput).map (fun c => (c.iu, c.is, c.seg.isSome, c.ballistic)) =
    [(0, 0, true, true), (1, 1, true, false)] := by decide +kernel
example : (run cl 1000000000 exInput).map (fun c => (c.dv2, c.point, c.ts)) =
    [(1, (0, 1 / 2), 4), (9, (1, 1 / 2), 5)] := by decide +kernel
/-- a single stable point: no local segment, the connection is reported unrefined -/
example : (run cl 1000000000 { exInput with ps := [(0, 1)], Xs := [[0, 1, 0, 1, 1, 0]] }).map
    (fun c => (c.iu, c.is, c.seg.isSome, c.point)) = [(0, 0, false, (0, 0))] := by decide +kernel
/-- the fill of `_radpair2d` on the example: offsets 0,2,4,6 and six written slots -/
example : radpair exInput.pu exInput.ps exInput.eps =
    [some (0, 0), some (0, 1), some (1, 0), some (1, 1), some (2, 1), some (2, 2)] := by decide +kernel

end HitenModel.Props.C19
