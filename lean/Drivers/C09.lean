/- Drivers/C09.lean — line-protocol driver of the C09 model over `Rat` (see harness/props/c09.py).

   poly <h0> c k0 k1 k2 k3 k4 k5  c k0 ... k5 ...     scripted Hamiltonian (sparse, 6 variables) and energy level
   table x r x r ...                                  residual given as a lookup table (oracle replay)
   params <guess> <factor> <maxExpand> <symmetric 0|1>
   brent none | <x>                                   recorded answer of solve_bracketed_brent
   solve <varname> name=val ...                       solve_missing_coord with the scripted Hamiltonian
   solvecore                                          solve_missing_coord's loop with the lookup-table residual
   lift <sc> p0 p1                                    lift_plane_point, _to_real_4d_cm and the 6-vector of the chain
   build <sc> p0 p1 o0 o1 | place a b c d | read z0..z5 | enforce <sc> a b c d | plane <sc> a b c d
-/
import HitenModel.Core.C09
import HitenModel.Core.Drv
open HitenModel.C09 Drv

structure Sess where
  terms : List (Rat × List Nat) := []
  h0 : Rat := 0
  table : List (Rat × Rat) := []
  missed : Bool := false
  P : Params Rat := ⟨1, 2, 40, false⟩
  brent : Option Rat := none

def parseTerms : List String → Option (List (Rat × List Nat))
  | [] => some []
  | c :: k0 :: k1 :: k2 :: k3 :: k4 :: k5 :: rest => do
      let cq ← parseRat? c
      let ks ← parseNats [k0, k1, k2, k3, k4, k5]
      let r ← parseTerms rest
      return (cq, ks) :: r
  | _ => none

def parsePairs : List String → Option (List (Rat × Rat))
  | [] => some []
  | x :: r :: rest => do
      let xq ← parseRat? x
      let rq ← parseRat? r
      let t ← parsePairs rest
      return (xq, rq) :: t
  | _ => none

def parseFixed (ws : List String) : Option (List (Name × Rat)) :=
  ws.mapM fun w => match w.splitOn "=" with
    | [n, v] => do
        let nm ← Name.ofString? n
        let q ← parseRat? v
        return (nm, q)
    | _ => none

/-- lookup-table residual; a query outside the table is answered with the sentinel `-424242` -/
def lookup (t : List (Rat × Rat)) (x : Rat) : Rat :=
  match t.find? (fun p => p.1 == x) with
  | some p => p.2
  | none => -424242

def showRes (r : Res Rat) : String :=
  match r with
  | .error => "error" | .none => "none" | .ok x => showRat x

def showResSt (r : Res (St Rat)) : String :=
  match r with
  | .error => "error" | .none => "none" | .ok s => showVec s.toList

def showResVec (r : Res (List Rat)) : String :=
  match r with
  | .error => "error" | .none => "none" | .ok s => showVec s

def showBracket (b : Option (Rat × Rat)) : String :=
  match b with
  | none => "none" | some (a, b) => s!"{showRat a} {showRat b}"

def report (res : Rat → Rat) (s : Sess) : IO Unit := do
  let br : Rat → Rat → Option Rat := fun _ _ => s.brent
  IO.println s!"res {showRes (solveCore res br s.P)}"
  IO.println s!"bracket {showBracket (solveBracket res s.P)}"
  let qs := solveQueries res s.P
  IO.println s!"queries {showVec qs}"
  IO.println s!"resid {showVec (qs.map res)}"

def handle (s : Sess) (line : String) : IO Sess := do
  match words line with
  | "poly" :: h :: ws =>
      match parseRat? h, parseTerms ws with
      | some hq, some t => return { s with terms := t, h0 := hq }
      | _, _ => IO.println "bad-op"; return s
  | "table" :: ws =>
      match parsePairs ws with
      | some t => return { s with table := t }
      | none => IO.println "bad-op"; return s
  | ["params", g, f, m, sy] =>
      match parseRat? g, parseRat? f, m.toNat? with
      | some gq, some fq, some mn => return { s with P := ⟨gq, fq, mn, sy == "1"⟩ }
      | _, _, _ => IO.println "bad-op"; return s
  | ["brent", "none"] => return { s with brent := none }
  | ["brent", x] =>
      match parseRat? x with
      | some q => return { s with brent := some q }
      | none => IO.println "bad-op"; return s
  | "solve" :: v :: ws =>
      match parseFixed ws with
      | some fixed =>
          let H := evalPoly s.terms
          let br : Rat → Rat → Option Rat := fun _ _ => s.brent
          match Name.ofString? v with
          | none =>
              IO.println s!"res {showRes (solveMissing H s.h0 br s.P none fixed)}"
              IO.println "bracket none"
              IO.println "queries "
              IO.println "resid "
          | some nm =>
              -- `solveMissing` with a resolved name is `solveCore` of this residual (by definition)
              let res := residual H s.h0 fixed nm
              IO.println s!"res {showRes (solveMissing H s.h0 br s.P (some nm) fixed)}"
              IO.println s!"bracket {showBracket (solveBracket res s.P)}"
              let qs := solveQueries res s.P
              IO.println s!"queries {showVec qs}"
              IO.println s!"resid {showVec (qs.map res)}"
          return s
      | none => IO.println "bad-op"; return s
  | ["solvecore"] =>
      report (lookup s.table) s
      return s
  | ["lift", sc, p0, p1] =>
      match Sec.ofString? sc, parseRat? p0, parseRat? p1 with
      | some c, some a, some b =>
          let H := evalPoly s.terms
          let br : Rat → Rat → Option Rat := fun _ _ => s.brent
          IO.println s!"lift {showResSt (liftPlanePoint H s.h0 br s.P c (a, b))}"
          IO.println s!"real4d {showResSt (toReal4dCm H s.h0 br s.P c (a, b))}"
          IO.println s!"six {showResVec (sectionTo6 H s.h0 br s.P c (a, b))}"
          let res := residual H s.h0 (constraints c (a, b)) c.missing.name
          IO.println s!"bracket {showBracket (solveBracket res s.P)}"
          let qs := solveQueries res s.P
          IO.println s!"queries {showVec qs}"
          IO.println s!"resid {showVec (qs.map res)}"
          return s
      | _, _, _ => IO.println "bad-op"; return s
  | ["tlift", sc, p0, p1] =>
      -- lift with the residual given as a lookup table in the solved coordinate (oracle replay of a real Hamiltonian)
      match Sec.ofString? sc, parseRat? p0, parseRat? p1 with
      | some c, some a, some b =>
          let H : List Rat → Rat := fun z => lookup s.table (z.getD c.missing.name.idx 0)
          let br : Rat → Rat → Option Rat := fun _ _ => s.brent
          IO.println s!"lift {showResSt (liftPlanePoint H 0 br s.P c (a, b))}"
          IO.println s!"real4d {showResSt (toReal4dCm H 0 br s.P c (a, b))}"
          IO.println s!"six {showResVec (sectionTo6 H 0 br s.P c (a, b))}"
          let res := residual H 0 (constraints c (a, b)) c.missing.name
          IO.println s!"bracket {showBracket (solveBracket res s.P)}"
          let qs := solveQueries res s.P
          IO.println s!"queries {showVec qs}"
          IO.println s!"resid {showVec (qs.map res)}"
          return s
      | _, _, _ => IO.println "bad-op"; return s
  | ["build", sc, p0, p1, o0, o1] =>
      match Sec.ofString? sc, parseRats [p0, p1, o0, o1] with
      | some c, some [a, b, x, y] => IO.println s!"state {showVec (buildState c (a, b) (x, y)).toList}"; return s
      | _, _ => IO.println "bad-op"; return s
  | "place" :: ws =>
      match parseRats ws with
      | some v => IO.println s!"six {showVec (place6 (St.ofList v))}"; return s
      | none => IO.println "bad-op"; return s
  | "read" :: ws =>
      match parseRats ws with
      | some z => IO.println s!"four {showVec (read6 z).toList}"; return s
      | none => IO.println "bad-op"; return s
  | "enforce" :: sc :: ws =>
      match Sec.ofString? sc, parseRats ws with
      | some c, some row => IO.println s!"row {showVec (enforceRow c row)}"; return s
      | _, _ => IO.println "bad-op"; return s
  | "plane" :: sc :: ws =>
      match Sec.ofString? sc, parseRats ws with
      | some c, some row => let p := planePoint c row; IO.println s!"pt {showVec [p.1, p.2]}"; return s
      | _, _ => IO.println "bad-op"; return s
  | [] => return s
  | _ => IO.println "bad-op"; return s

def main : IO Unit := do
  let _ ← forLines (← IO.getStdin) Sess {} handle
  return ()
