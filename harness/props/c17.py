"""C17 — Hamiltonian fast paths agree with the generic integration path.

T-trace / T-table (Gen/C17.lean, regenerated on every run): the live index maps `Q_POLY_INDICES`/`P_POLY_INDICES`, the
wiring of `_hamiltonian_rhs`, `_eval_dH_dQ`, `_eval_dH_dP`, `_construct_6d_eval_point`, `_eval_hamiltonian_derivative`
(which Jacobian entry is evaluated at which point and lands in which output component with which sign — obtained by
*executing* the current function objects on symbolic data with `_polynomial_evaluate` rebound to a recorder), and the
canonical traces (polynomial normal forms over a recording vector field) of every straight-line twin pair of
`integrators/rk.py`: the three stepping kernels for every tableau, the fixed-grid drivers, the DOP853 dense-cache builders.
Props/C17.lean proves, for every polynomial over every commutative ring and every state, that the traced right-hand side is
(dH/dP, -dH/dQ) with Mathlib's formal partial derivative, that the separate evaluators agree with it, the real-part lemma
for complex coefficients, the oracle-program congruence theorem and (decide) that the twin traces coincide.
T-corr: Core/C17.lean (monomial-list polynomials over Q, packed layout, traced wiring) against the real
`_polynomial_jacobian`, `_polynomial_evaluate`, `_hamiltonian_rhs`, `_eval_dH_dQ/_eval_dH_dP`, `_eval_hamiltonian_derivative`,
`hamsys.dH_dQ/dH_dP` — exact on integer-coefficient polynomials at dyadic states; the fixed-grid oracle-program model against
`_integrate_fixed_rk(_ham)` to 1e-12.
Twins that are loops with data-dependent control (adaptive drivers, event drivers, refinement) are tied by (a) oracle
transcripts: both twins' current bodies are executed with the same recording vector field / event function and must issue
the same queries and return the same values bit for bit, and (b) bit-for-bit differential execution of the compiled public
`integrate` on a polynomial Hamiltonian system vs the same Hamilton equations supplied as a generic vector field, for every
integrator family, order, tolerance, event configuration and direction.
Failing-input search: the same differential executions (a concrete H, state, grid on which the two paths differ), an
independent gradient of the polynomial for the rhs, and the evaluability of `hamsys.rhs` / `_propagate_dynsys`."""
from __future__ import annotations

import math
import time
import types as _types
from fractions import Fraction

import numpy as np

import lean_emit as E
import tracer as T

F = Fraction
PROPS = ["HitenModel.Props.C17"]
SRC = ["HitenModel.Props.C17", "HitenModel.Gen.C17", "HitenModel.Core.C17", "HitenModel.Lemmas.C17"]
DIM = 2          # dimension of the recording vector field in the twin traces
MODEL = {}


class ExtractError(Exception):
    pass


def broken(ctx, name, msg):
    ctx.broken.append((name, msg))
    ctx.obligations[name] = False


# =====================================================================================================
# 1. tracing the wiring of the right-hand side and of the separate evaluators
# =====================================================================================================

class _SymArr(np.ndarray):
    """object ndarray whose `.astype(np.complex128)` keeps the symbols"""

    def astype(self, *a, **k):
        return self.copy().view(_SymArr)


def _symarr(vals):
    a = np.empty(len(vals), dtype=object)
    for i, v in enumerate(vals):
        a[i] = v
    return a.view(_SymArr)


class _Val:
    """value returned by the recorded `_polynomial_evaluate`: `.real` is the recorded symbol, `.imag` must not be used"""

    def __init__(self, s):
        self.real = s

    @property
    def imag(self):
        raise ExtractError("imaginary part of a polynomial value is used")


class _Jac:
    """stand-in for the Jacobian list: indexing yields a tagged entry"""

    def __init__(self, n):
        self.n = n

    def __len__(self):
        return self.n

    def __getitem__(self, i):
        i = int(i)
        if not 0 <= i < self.n:
            raise ExtractError("Jacobian index %d out of range" % i)
        return ("jac", i)


def _var_name(s):
    s = T.Sym.lift(s)
    if s.op == "var":
        return s.args[0]
    if s.is_const():
        return "const:%s" % (s.args[0],)
    raise ExtractError("evaluation point coordinate is not a plain input coordinate: %s" % T.show(s, 80))


class _EvalRec:
    """recorder bound to the name `_polynomial_evaluate`"""

    def __init__(self):
        self.calls = []

    def __call__(self, poly, point, clmo):
        if not (isinstance(poly, tuple) and poly[0] == "jac"):
            raise ExtractError("_polynomial_evaluate called on something that is not a Jacobian entry")
        if clmo != "CLMO":
            raise ExtractError("_polynomial_evaluate called with a different index table")
        names = [_var_name(x) for x in np.asarray(point, dtype=object).ravel()]
        j = len(self.calls)
        self.calls.append((poly[1], names))
        return _Val(T.Sym.var("v%d" % j, 0.37 + 0.11 * j))


def _signed_calls(vec, ncalls):
    """each output component must be +v_c or -v_c; returns [(negated, call index)]"""
    out = []
    for s in vec:
        nf = T.polynf(T.Sym.lift(s))
        if nf is None or len(nf) != 1:
            raise ExtractError("output component is not a single signed polynomial value")
        (mono, c), = nf.items()
        md = dict(mono)
        if len(md) != 1 or list(md.values()) != [1] or abs(c) != 1 or not list(md)[0].startswith("v"):
            raise ExtractError("output component is not a single signed polynomial value: %r" % (nf,))
        k = int(list(md)[0][1:])
        if not 0 <= k < ncalls:
            raise ExtractError("unknown call")
        out.append((c < 0, k))
    return out


def trace_rhs():
    """-> (wiring [(neg, jac idx)] per output component, src [state coordinate read by point coordinate j])"""
    from hiten.algorithms.dynamics import hamiltonian as hm
    T.reset()
    rec = _EvalRec()
    z = _symarr([T.Sym.var("z%d" % i, 0.1 * (i + 1)) for i in range(6)])
    f = T.retarget(hm._hamiltonian_rhs, {"_polynomial_evaluate": rec})
    out = f(z, _Jac(6), "CLMO", 3)
    if len(out) != 6:
        raise ExtractError("rhs has %d components" % len(out))
    sc = _signed_calls(out, len(rec.calls))
    pts = {tuple(names) for _, names in rec.calls}
    if len(pts) != 1:
        raise ExtractError("the Jacobian entries are evaluated at different points: %r" % (pts,))
    src = []
    for nm in list(pts)[0]:
        if not nm.startswith("z"):
            raise ExtractError("evaluation point coordinate %r" % nm)
        src.append(int(nm[1:]))
    return [(neg, rec.calls[k][0]) for neg, k in sc], src


def _point_wiring(names):
    w = []
    for nm in names:
        if nm[0] not in "QP" or not nm[1:].isdigit():
            raise ExtractError("evaluation point coordinate %r is not an entry of Q or P" % nm)
        w.append(("QP".index(nm[0]), int(nm[1:])))
    return w


def trace_grad(fn_name):
    """-> (jac indices per output component, point wiring [(block, i)])"""
    from hiten.algorithms.integrators import symplectic as sy
    T.reset()
    rec = _EvalRec()
    Q = _symarr([T.Sym.var("Q%d" % i, 0.1 * (i + 1)) for i in range(3)])
    P = _symarr([T.Sym.var("P%d" % i, -0.2 * (i + 1)) for i in range(3)])
    f = T.retarget(getattr(sy, fn_name), {"_polynomial_evaluate": rec})
    out = f(Q, P, _Jac(6), "CLMO")
    sc = _signed_calls(out, len(rec.calls))
    if any(neg for neg, _ in sc):
        raise ExtractError("%s negates a component" % fn_name)
    pts = {tuple(names) for _, names in rec.calls}
    if len(pts) != 1:
        raise ExtractError("evaluated at different points")
    return [rec.calls[k][0] for _, k in sc], _point_wiring(list(pts)[0])


def trace_hder():
    from hiten.algorithms.integrators import symplectic as sy
    T.reset()
    rec = _EvalRec()
    Q = _symarr([T.Sym.var("Q%d" % i, 0.1 * (i + 1)) for i in range(3)])
    P = _symarr([T.Sym.var("P%d" % i, -0.2 * (i + 1)) for i in range(3)])
    f = T.retarget(sy._eval_hamiltonian_derivative, {"_polynomial_evaluate": rec})
    out = f(Q, P, _Jac(6), "CLMO")
    sc = _signed_calls(out, len(rec.calls))
    pts = {tuple(names) for _, names in rec.calls}
    if len(pts) != 1:
        raise ExtractError("evaluated at different points")
    return [(neg, rec.calls[k][0]) for neg, k in sc], _point_wiring(list(pts)[0])


# =====================================================================================================
# 2. canonical traces of the straight-line twin pairs
# =====================================================================================================

class RecF:
    """recording vector field: a fresh vector of atoms k{j}_{d} per distinct argument vector"""

    def __init__(self, dim=DIM):
        self.calls = []
        self.memo = {}
        self.dim = dim

    def __call__(self, *args):
        y = args[-1] if len(args) <= 2 else args[1]
        ys = [T.Sym.lift(v) for v in np.asarray(y, dtype=object).ravel()]
        key = tuple(id(v) for v in ys)
        if key in self.memo:
            j = self.memo[key]
        else:
            j = len(self.calls)
            self.memo[key] = j
            self.calls.append(ys)
        return T.symarray([T.Sym.var("k%d_%d" % (j, d), math.sin(1.0 + 3 * j + d)) for d in range(self.dim)])


class Atoms:
    """shared atom numbering of a twin pair"""

    def __init__(self):
        self.ids = {}

    def __call__(self, name):
        if name not in self.ids:
            self.ids[name] = len(self.ids)
        return self.ids[name]


def nf_of(s, atoms):
    nf = T.polynf(T.Sym.lift(s))
    if nf is None:
        raise ExtractError("traced value is not polynomial in its atoms: %s" % T.show(T.Sym.lift(s), 120))
    terms = []
    for mono, c in nf.items():
        terms.append((tuple(sorted((atoms(v), e) for v, e in mono)), c.numerator, c.denominator))
    terms.sort()
    return terms


def trace_of(rec, outputs, atoms):
    """[normal form of every argument component of every distinct query, in call order] + outputs"""
    tr = []
    for ys in rec.calls:
        for s in ys:
            tr.append(nf_of(s, atoms))
    for vec in outputs:
        for s in np.asarray(vec, dtype=object).ravel():
            tr.append(nf_of(s, atoms))
    return tr


def _inputs(dim=DIM):
    t = T.Sym.var("t", 0.3)
    h = T.Sym.var("h", 0.125)
    y = T.symarray([T.Sym.var("y%d" % d, 0.7 + 0.2 * d) for d in range(dim)])
    return t, y, h


def _ham(rec):
    return {"_hamiltonian_rhs": lambda yy, jac, clmo, ndof: rec(yy)}


def twin_traces():
    """-> {name: (generic trace, hamiltonian trace, #distinct queries)} ; raises nothing, failures are reported per pair"""
    from hiten.algorithms.integrators import rk
    from hiten.algorithms.integrators.coefficients import dop853 as c8
    out, errs = {}, {}

    def pair(name, run_gen, run_ham):
        try:
            atoms = Atoms()
            T.reset()
            rg = RecF()
            og = run_gen(rg)
            tg = trace_of(rg, og, atoms)
            T.reset()
            rh = RecF()
            oh = run_ham(rh)
            th = trace_of(rh, oh, atoms)
            out[name] = (tg, th, len(rg.calls), len(rh.calls))
        except Exception as ex:  # noqa: BLE001 - any failure to trace is a broken obligation, never silently skipped
            errs[name] = "%s: %s" % (type(ex).__name__, ex)

    e0 = np.empty(0)
    for p in sorted(rk.FixedRK._map):
        integ = rk.FixedRK(p)
        A, B, C = integ._A, integ._B_HIGH, integ._C

        def g_step(rec, A=A, B=B, C=C):
            t, y, h = _inputs()
            return T.retarget(rk.rk_embedded_step_jit_kernel)(rec, t, y, h, A, B, e0, C, False)

        def h_step(rec, A=A, B=B, C=C):
            t, y, h = _inputs()
            return T.retarget(rk.rk_embedded_step_ham_jit_kernel, _ham(rec))(t, y, h, A, B, e0, C, False, None, None, 1)

        pair("step_fixed%d" % p, g_step, h_step)

        def grid():
            return T.symarray([T.Sym.var("t%d" % i, 0.1 + 0.13 * i * (i + 1)) for i in range(3)])

        def g_drv(rec, A=A, B=B, C=C):
            _, y, _ = _inputs()
            f = type(integ)._integrate_fixed_rk
            return T.retarget(f)(rec, y, grid(), A, B, e0, C, False)

        def h_drv(rec, A=A, B=B, C=C):
            _, y, _ = _inputs()
            f = type(integ)._integrate_fixed_rk_ham
            return T.retarget(f, _ham(rec))(y, grid(), A, B, e0, C, False, None, None, 1)

        pair("driver_fixed%d" % p, g_drv, h_drv)

    i45 = rk.AdaptiveRK(5)
    pair("step_rk45",
         lambda rec: T.retarget(rk.rk45_step_jit_kernel)(rec, *_inputs(), i45._A, i45._B_HIGH, i45._C, i45._E)[:3],
         lambda rec: T.retarget(rk.rk45_step_ham_jit_kernel, _ham(rec))(*_inputs(), i45._A, i45._B_HIGH, i45._C, i45._E, None, None, 1)[:3])
    i8 = rk.AdaptiveRK(8)

    def pick8(res):
        yh, yl, errv, e5, e3, k = res
        return [yh, e5, e3]     # err_vec / y_low contain |.| and hypot: compared through e5, e3 that determine them

    pair("step_dop853",
         lambda rec: pick8(T.retarget(rk.dop853_step_jit_kernel)(rec, *_inputs(), i8._A, i8._B_HIGH, i8._C, i8._E5, i8._E3)),
         lambda rec: pick8(T.retarget(rk.dop853_step_ham_jit_kernel, _ham(rec))(*_inputs(), i8._A, i8._B_HIGH, i8._C, i8._E5, i8._E3, None, None, 1)))

    def dense_args():
        t, y, h = _inputs()
        ns = c8.N_STAGES + 1
        K = np.empty((ns, DIM), dtype=object)
        for j in range(ns):
            for d in range(DIM):
                K[j, d] = T.Sym.var("K%d_%d" % (j, d), math.cos(0.3 + j + 2 * d))
        f0 = T.symarray([T.Sym.var("f0_%d" % d, 0.2 + d) for d in range(DIM)])
        y1 = T.symarray([T.Sym.var("y1_%d" % d, 0.4 - d) for d in range(DIM)])
        f1 = T.symarray([T.Sym.var("f1_%d" % d, -0.3 + d) for d in range(DIM)])
        return t, y, f0, y1, f1, h, K

    def g_dense(rec):
        t, y, f0, y1, f1, h, K = dense_args()
        return [T.retarget(rk._dop853_build_dense_cache)(rec, t, y, f0, y1, f1, h, K, c8.A, c8.C, c8.D,
                                                          c8.N_STAGES_EXTENDED, c8.INTERPOLATOR_POWER)]

    def h_dense(rec):
        t, y, f0, y1, f1, h, K = dense_args()
        return [T.retarget(rk._dop853_build_dense_cache_ham, _ham(rec))(t, y, f0, y1, f1, h, K, c8.A, c8.C, c8.D,
                                                                         c8.N_STAGES_EXTENDED, c8.INTERPOLATOR_POWER, None, None, 1)]

    pair("dense_dop853", g_dense, h_dense)

    # ---- event drivers of the fixed-step family (event function and the shared Hermite refinement recorded) ---------
    class RecE:
        """recording event function: atoms g{j}; the shadow values steer the control flow (crossing in the 2nd step)"""

        def __init__(self, shadows):
            self.calls = []
            self.shadows = shadows

        def __call__(self, t, y):
            j = len(self.calls)
            self.calls.append([T.Sym.lift(t)] + [T.Sym.lift(v) for v in np.asarray(y, dtype=object).ravel()])
            return T.Sym.var("g%d" % j, self.shadows[min(j, len(self.shadows) - 1)])

    def flat(calls):
        return [x for c in calls for x in c]

    for p in sorted(rk.FixedRK._map):
        integ = rk.FixedRK(p)
        A, B, C = integ._A, integ._B_HIGH, integ._C

        def run_ev(rec, ham, A=A, B=B, C=C, integ=integ):
            _, y, _ = _inputs()
            tv = T.symarray([T.Sym.var("t%d" % i, 0.1 + 0.13 * i * (i + 1)) for i in range(4)])
            ev = RecE([-1.0, -0.5, 0.5])
            refined = []

            def refine(event_fn, t0, y0, f0, t1, y1, f1, h, direction, xtol, gtol):
                if event_fn is not ev:
                    raise ExtractError("refinement called with another event function")
                refined.append([T.Sym.lift(t0)] + list(y0) + list(f0) + [T.Sym.lift(t1)] + list(y1) + list(f1) + [T.Sym.lift(h)]
                               + [T.Sym.const(int(direction)), T.Sym.lift(xtol), T.Sym.lift(gtol)])
                return T.Sym.var("thit", 0.2), T.symarray([T.Sym.var("yhit%d" % d, 0.1) for d in range(DIM)])

            extra = {"_hermite_refine_in_step": refine}
            if ham:
                extra.update(_ham(rec))
                f = T.retarget(type(integ)._integrate_fixed_rk_until_event_ham, extra)
                hit, th, yh, st = f(y, tv, A, B, C, ev, 1, 1, 1e-9, 1e-10, None, None, 1)
            else:
                f = T.retarget(type(integ)._integrate_fixed_rk_until_event, extra)
                hit, th, yh, st = f(rec, y, tv, A, B, C, ev, 1, 1, 1e-9, 1e-10)
            if not hit or len(refined) != 1:
                raise ExtractError("traced event run did not refine exactly one crossing")
            return [flat(ev.calls), flat(refined), [th], yh, st[:2]]

        pair("event_fixed%d" % p, lambda rec, r=run_ev: r(rec, False), lambda rec, r=run_ev: r(rec, True))

    # ---- DOP853 in-step refinement (the Hamiltonian copy inlines the dense-cache construction) ----------------------
    def run_refine(rec, ham):
        t, y, f0, y1, f1, h, K = dense_args()
        evc = []

        def ev(tt, yy):
            tt = T.Sym.lift(tt)
            evc.append([tt] + [T.Sym.lift(v) for v in np.asarray(yy, dtype=object).ravel()])
            x = (tt.val - t.val) / h.val
            return T.Sym.var("g%d" % (len(evc) - 1), x - 0.3)

        t1 = t + h
        if ham:
            f = T.retarget(rk._dop853_refine_in_step_ham, _ham(rec))
            th, yh = f(ev, t, y, f0, t1, y1, f1, h, K, c8.A, c8.C, c8.D, c8.N_STAGES_EXTENDED, c8.INTERPOLATOR_POWER, 1, 1e-3, 1e-12, None, None, 1)
        else:
            f = T.retarget(rk._dop853_refine_in_step)
            th, yh = f(rec, ev, t, y, f0, t1, y1, f1, h, K, c8.A, c8.C, c8.D, c8.N_STAGES_EXTENDED, c8.INTERPOLATOR_POWER, 1, 1e-3, 1e-12)
        if len(evc) < 4:
            raise ExtractError("bisection did not iterate")
        return [flat(evc), [th], yh]

    pair("refine_dop853", lambda rec: run_refine(rec, False), lambda rec: run_refine(rec, True))
    return out, errs


def _lean_nf(nf):
    return "[" + ", ".join("NF.t [%s] (%d) %d" % (", ".join("NF.a %d %d" % ve for ve in m), n, d) for m, n, d in nf) + "]"


def _lean_trace(name, tr):
    return "def %s : Trace := [\n  %s]\n" % (name, ",\n  ".join(_lean_nf(nf) for nf in tr))


def gen(ctx):
    from hiten.algorithms.integrators import symplectic as sy
    txt = E.header("C17", imports=("HitenModel.Core.C17",),
                   note="index maps, rhs / evaluator wiring and twin traces of dynamics/hamiltonian.py, integrators/symplectic.py, integrators/rk.py")
    txt += "open HitenModel.C17\n\n"
    txt += "def nVars : Nat := %d\n" % int(sy.N_VARS_POLY)
    txt += "def nDof : Nat := %d\n" % int(sy.N_SYMPLECTIC_DOF)
    txt += "def qIdx : List Nat := %s\n" % [int(x) for x in sy.Q_POLY_INDICES]
    txt += "def pIdx : List Nat := %s\n" % [int(x) for x in sy.P_POLY_INDICES]
    info = {}

    def wires(ws):
        return "[" + ", ".join("(%s, %d)" % ("true" if n else "false", j) for n, j in ws) + "]"

    def pairs(ws):
        return "[" + ", ".join("(%d, %d)" % w for w in ws) + "]"

    try:
        w, src = trace_rhs()
        MODEL["rhs"] = (w, src)
        txt += "-- _hamiltonian_rhs: output component r = (negated?, Jacobian index); evaluation point coordinate j = state coordinate\n"
        txt += "def rhsWiring : List Wire := %s\n" % wires(w)
        txt += "def rhsSrc : List Nat := %s\n" % src
        info["rhsWiring"] = [[bool(n), j] for n, j in w]
    except Exception as ex:  # noqa: BLE001
        broken(ctx, "trace:_hamiltonian_rhs", "%s: %s" % (type(ex).__name__, ex))
        txt += "-- extraction failed: %s\n" % ex
    for nm, fn in (("dQ", "_eval_dH_dQ"), ("dP", "_eval_dH_dP")):
        try:
            idx, pw = trace_grad(fn)
            MODEL[nm] = (idx, pw)
            txt += "-- %s: Jacobian index per output component; point coordinate j = (block 0=Q/1=P, entry)\n" % fn
            txt += "def %sIdx : List Nat := %s\n" % (nm, idx)
            txt += "def %sPoint : List (Nat × Nat) := %s\n" % (nm, pairs(pw))
        except Exception as ex:  # noqa: BLE001
            broken(ctx, "trace:" + fn, "%s: %s" % (type(ex).__name__, ex))
            txt += "-- extraction failed: %s\n" % ex
    try:
        w, pw = trace_hder()
        MODEL["hder"] = (w, pw)
        txt += "-- _eval_hamiltonian_derivative (symplectic event path)\n"
        txt += "def hderWiring : List Wire := %s\n" % wires(w)
        txt += "def hderPoint : List (Nat × Nat) := %s\n" % pairs(pw)
    except Exception as ex:  # noqa: BLE001
        broken(ctx, "trace:_eval_hamiltonian_derivative", "%s: %s" % (type(ex).__name__, ex))
        txt += "-- extraction failed: %s\n" % ex
    traces, errs = twin_traces()
    MODEL["twins"] = traces
    for name, msg in errs.items():
        broken(ctx, "trace:twin:" + name, msg)
        txt += "-- twin %s: extraction failed: %s\n" % (name, msg.replace("\n", " ")[:300])
    txt += "\n-- canonical traces of the twin pairs (queries of the recording vector field in call order, then outputs)\n"
    for name in sorted(traces):
        tg, th, ng, nh = traces[name]
        txt += "def %s_queries : Nat × Nat := (%d, %d)\n" % (name, ng, nh)
        txt += _lean_trace(name + "_gen", tg)
        txt += _lean_trace(name + "_ham", th)
        info[name] = {"queries": [ng, nh], "values": [len(tg), len(th)], "equal": tg == th}
    txt += E.footer("C17")
    ctx.write_gen("HitenModel.Gen.C17", txt)
    ctx.extra["traces"] = info
    return info


# =====================================================================================================
# 3. polynomial problems
# =====================================================================================================

def fr(x):
    q = Fraction(x)
    return str(q.numerator) if q.denominator == 1 else "%d/%d" % (q.numerator, q.denominator)


def rand_exps(rng, deg):
    e = [0] * 6
    for _ in range(deg):
        e[rng.randrange(6)] += 1
    return tuple(e)


def rand_int_poly(rng, max_deg, nterms, cplx=False):
    """integer (or Gaussian-integer) coefficients, every degree 0..max_deg possible, always a top-degree term"""
    d = {}
    degs = [max_deg] + [rng.randint(0, max_deg) for _ in range(nterms - 1)]
    for dg in degs:
        c = rng.randint(-9, 9) or 3
        if cplx:
            c = complex(c, rng.randint(-9, 9))
        d[rand_exps(rng, dg)] = c
    return d


def rand_ham(rng, max_deg, nterms=10, amp=0.4):
    """oscillator part + random higher-order terms with float coefficients (bounded motion near the origin)"""
    d = {}
    for i in range(3):
        w = rng.uniform(0.5, 1.5)
        q = [0] * 6
        q[i] = 2
        p = [0] * 6
        p[3 + i] = 2
        d[tuple(q)] = 0.5 * w
        d[tuple(p)] = 0.5 * rng.uniform(0.5, 1.5)
    degs = [max_deg] + [rng.randint(3, max_deg) for _ in range(nterms - 1)]
    for dg in degs:
        d[rand_exps(rng, dg)] = d.get(rand_exps(rng, dg), 0.0) + rng.uniform(-amp, amp)
    return d


def hd_json(d):
    return {",".join(map(str, k)): (v if not isinstance(v, complex) else [v.real, v.imag]) for k, v in d.items()}


def hd_unjson(j):
    return {tuple(int(x) for x in k.split(",")): (complex(*v) if isinstance(v, list) else v) for k, v in j.items()}


def decode_poly(blocks, clmo):
    """real packed polynomial -> {exps: complex}"""
    from hiten.algorithms.polynomial.base import _decode_multiindex
    out = {}
    for deg, arr in enumerate(blocks):
        a = np.asarray(arr)
        for pos in np.nonzero(a)[0]:
            k = tuple(int(v) for v in _decode_multiindex(int(pos), deg, clmo))
            out[k] = out.get(k, 0) + complex(a[pos])
    return out


def parse_poly(txt):
    """'c e0..e5 ; c e0..e5' -> {exps: Fraction} (terms with equal exponents merged, zeros dropped)"""
    out = {}
    for part in txt.split(";"):
        w = part.split()
        if not w:
            continue
        k = tuple(int(x) for x in w[1:])
        out[k] = out.get(k, 0) + Fraction(w[0])
    return {k: v for k, v in out.items() if v != 0}


# =====================================================================================================
# 4. exact correspondence of the polynomial model with the real kernels
# =====================================================================================================

def corr_poly(ctx):
    import polyutil as PU
    from hiten.algorithms.dynamics.hamiltonian import _hamiltonian_rhs
    from hiten.algorithms.integrators import symplectic as sy
    from hiten.algorithms.polynomial.base import _decode_multiindex
    from hiten.algorithms.polynomial.operations import _polynomial_evaluate, _polynomial_jacobian
    rng = ctx.rng
    name = "correspondence:polynomial-rhs-model"
    bad = []
    max_deg_all = 8 if ctx.thorough() else 6
    # ---- packed layout -----------------------------------------------------------------------------------
    psi, clmo, enc = PU.tables(max_deg_all)
    lines = ["enum 6 %d" % d for d in range(max_deg_all + 1)]
    out = [l for l in ctx.lean_run("Drivers/C17.lean", "\n".join(lines) + "\n") if l.startswith("enum")]
    for d, l in enumerate(out):
        model = [tuple(int(x) for x in part.split()) for part in l[4:].split(";")]
        real = [tuple(int(v) for v in _decode_multiindex(pos, d, clmo)) for pos in range(int(psi[6, d]))]
        ctx.case(("enum", d), kind="layout", nontrivial=d > 0)
        if model != real:
            bad.append("packed layout of degree %d differs from the model enumeration" % d)
    if len(out) != max_deg_all + 1:
        bad.append("driver returned %d enumerations" % len(out))
    # ---- jacobian / evaluate / rhs / evaluators -----------------------------------------------------------
    ncases = 40 if ctx.thorough() else 14
    cases = []
    for c in range(ncases):
        deg = rng.choice([2, 3, 4, 5, 6] + ([7, 8] if ctx.thorough() else [6]))
        cplx = (c % 4 == 3)
        d = rand_int_poly(rng, deg, rng.randint(3, 9), cplx)
        pts = [[Fraction(rng.randint(-8, 8), 4) for _ in range(6)] for _ in range(3)]
        if c == 0:
            pts[0] = [Fraction(0)] * 6
        cases.append((deg, d, pts, cplx))
    text, plan = [], []
    for deg, d, pts, cplx in cases:
        parts = [("re", {k: int(complex(v).real) for k, v in d.items()})]
        if cplx:
            parts.append(("im", {k: int(complex(v).imag) for k, v in d.items()}))
        for tag, dd in parts:
            text.append("poly")
            for k, v in dd.items():
                text.append("m %d %s" % (v, " ".join(map(str, k))))
            text.append("jac")
            for z in pts:
                text.append("at " + " ".join(fr(x) for x in z))
            # the same polynomial through the packed blocks of the real builder
            if tag == "re":
                H = PU.poly_from_dict(dd, deg)
                text.append("poly")
                for blk in H:
                    text.append("blk " + " ".join(str(int(x.real)) for x in blk))
                text.append("unpack")
            plan.append((tag, deg, d, pts))
    out = [l for l in ctx.lean_run("Drivers/C17.lean", "\n".join(text) + "\n") if l.strip()]
    if any(l.startswith("bad-op") for l in out):
        bad.append("driver rejected an operation")
    it = iter(out)

    def nxt(prefix):
        l = next(it)
        if not l.startswith(prefix):
            raise RuntimeError("driver protocol: expected %r, got %r" % (prefix, l[:80]))
        return l[len(prefix):]

    model = {}
    for tag, deg, d, pts in plan:
        jm = []
        for i in range(6):
            jm.append(parse_poly(nxt("jac %d :" % i)))
        ats = []
        for z in pts:
            ats.append({"H": Fraction(nxt("H ")), "rhs": [Fraction(x) for x in nxt("rhs ").split()],
                        "dq": [Fraction(x) for x in nxt("dq ").split()], "dp": [Fraction(x) for x in nxt("dp ").split()],
                        "hder": [Fraction(x) for x in nxt("hder ").split()]})
        up = parse_poly(nxt("unpacked")) if tag == "re" else None
        model[(id(d), tag)] = (jm, ats, up)
    nexact = 0
    for deg, d, pts, cplx in cases:
        sysm, H = PU.ham_system(d, deg)
        psi, clmo, enc = PU.tables(deg)
        jac_direct = _polynomial_jacobian(H, deg, psi, clmo, enc)
        jm_re, ats, up = model[(id(d), "re")]
        jm_im = model[(id(d), "im")][0] if cplx else [{}] * 6
        tagc = "deg%d%s" % (deg, "c" if cplx else "")
        dre = {k: Fraction(int(complex(v).real)) for k, v in d.items() if complex(v).real != 0}
        if up != dre:
            bad.append("%s: unpacking the real coefficient blocks in the model's layout gives a different polynomial" % tagc)
        for nm, jac in (("hamsys.jac_H", sysm.jac_H), ("_polynomial_jacobian", jac_direct)):
            if len(jac) != 6:
                bad.append("%s: %s has %d entries" % (tagc, nm, len(jac)))
                continue
            for i in range(6):
                real = decode_poly(jac[i], clmo)
                rre = {k: Fraction(v.real) for k, v in real.items() if v.real != 0}
                rim = {k: Fraction(v.imag) for k, v in real.items() if v.imag != 0}
                ctx.case((tagc, nm, i, len(d)), kind="jacobian", nontrivial=bool(rre),
                         sample={"H": hd_json(d), "var": i, "dH": {",".join(map(str, k)): float(v) for k, v in rre.items()}} if i == 3 and nm[0] == "h" else None)
                if rre != jm_re[i] or rim != jm_im[i]:
                    bad.append("%s: %s[%d] = %r but the model derivative is %r (H = %r)" % (tagc, nm, i, real, jm_re[i], d))
        jac_H, clmo_H, ndof = sysm.rhs_params
        for z, m in zip(pts, ats):
            zf = np.array([float(x) for x in z])
            Q, P = zf[:3].copy(), zf[3:].copy()
            got = {
                "H": [complex(_polynomial_evaluate(H, zf.astype(np.complex128), clmo_H)).real],
                "rhs": list(_hamiltonian_rhs(zf, jac_H, clmo_H, ndof)),
                "dq": list(sy._eval_dH_dQ(Q, P, jac_H, clmo_H)),
                "dp": list(sy._eval_dH_dP(Q, P, jac_H, clmo_H)),
                "hder": list(sy._eval_hamiltonian_derivative(Q, P, jac_H, clmo_H)),
                "sys.dq": list(sysm.dH_dQ(Q, P)),
                "sys.dp": list(sysm.dH_dP(Q, P)),
            }
            want = {"H": [m["H"]], "rhs": m["rhs"], "dq": m["dq"], "dp": m["dp"], "hder": m["hder"], "sys.dq": m["dq"], "sys.dp": m["dp"]}
            ctx.case((tagc, tuple(z)), kind="evaluation", nontrivial=any(v != 0 for v in m["rhs"]))
            for k in got:
                g = [Fraction(float(v)) for v in got[k]]
                nexact += len(g)
                if g != want[k]:
                    bad.append("%s: %s at %s = %r, model %r (H = %r)" % (tagc, k, [float(x) for x in z], [float(v) for v in got[k]],
                                                                      [float(v) for v in want[k]], d))
    ctx.corr_cases += len(cases)
    ctx.extra["poly_correspondence"] = {"cases": len(cases), "max_degree": max_deg_all, "values_compared_exactly": nexact}
    if bad:
        broken(ctx, name, "; ".join(bad[:4]))
        MODEL["poly_bad"] = bad
    else:
        ctx.obligations[name] = True
    return not bad


def corr_fixed_model(ctx):
    """the oracle-program model `fixedDriver` over Q against the real fixed-grid drivers (1e-12: float rounding)"""
    import polyutil as PU
    from hiten.algorithms.integrators import rk
    rng = ctx.rng
    name = "correspondence:fixed-driver-model"
    bad = []
    worst = 0.0
    for p, nsteps, deg in ((4, 2, 3), (6, 1, 3), (8, 1, 2)):
        integ = rk.FixedRK(p)
        A, B, C = integ._A, integ._B_HIGH, integ._C
        d = rand_int_poly(rng, deg, 5)
        d = {k: v for k, v in d.items() if sum(k) >= 1}
        d[(1, 0, 0, 1, 0, 0)] = 1
        sysm, H = PU.ham_system(d, deg)
        jac_H, clmo_H, ndof = sysm.rhs_params
        y0 = np.array([rng.randint(-4, 4) / 4.0 for _ in range(6)])
        hs = [Fraction(1, 8)] * nsteps
        tv = np.array([0.0] + list(np.cumsum([float(h) for h in hs])))
        text = ["poly"] + ["m %d %s" % (v, " ".join(map(str, k))) for k, v in d.items()] + ["tab"]
        s = len(B)
        for i in range(s):
            text.append("rowA " + " ".join(fr(float(A[i, j])) for j in range(i)))
        text.append("rowB " + " ".join(fr(float(b)) for b in B))
        text.append("grid " + " ".join(fr(h) for h in hs))
        text.append("fixed " + " ".join(fr(float(v)) for v in y0))
        out = [l for l in ctx.lean_run("Drivers/C17.lean", "\n".join(text) + "\n") if l.strip()]
        nodes = [l for l in out if l.startswith("node")]
        queries = [[float(Fraction(x)) for x in l.split()[1:]] for l in out if l.startswith("query")]
        ms, md = [], []
        for l in nodes:
            a, b = l[5:].split("|")
            ms.append([float(Fraction(x)) for x in a.split()])
            md.append([float(Fraction(x)) for x in b.split()])
        st, dv = type(integ)._integrate_fixed_rk_ham(y0, tv, A, B, np.empty(0), C, False, jac_H, clmo_H, ndof)
        tr = py_transcript_fixed(integ, sysm, y0, tv)
        ctx.case(("fixed-model", p), kind="driver-model", sample={"order": p, "steps": nsteps, "H": hd_json(d)})
        if len(ms) != len(st):
            bad.append("order %d: model returns %d nodes, code %d" % (p, len(ms), len(st)))
            continue
        e = max(rel_diff(ms, st), rel_diff(md, dv))
        worst = max(worst, e)
        if not e <= 1e-12:
            bad.append("order %d: model and code differ by %g (states/derivatives)" % (p, e))
        if tr is not None:
            if len(tr) != len(queries):
                bad.append("order %d: the code issues %d vector-field queries, the model %d" % (p, len(tr), len(queries)))
            else:
                e = rel_diff(queries, tr)
                worst = max(worst, e)
                if not e <= 1e-12:
                    bad.append("order %d: query sequences differ by %g" % (p, e))
    ctx.extra["fixed_model_worst_rel"] = worst
    if bad:
        broken(ctx, name, "; ".join(bad[:3]))
    else:
        ctx.obligations[name] = True


def rel_diff(a, b):
    a = np.asarray(a, dtype=float)
    b = np.asarray(b, dtype=float)
    if a.shape != b.shape:
        return float("inf")
    if a.size == 0:
        return 0.0
    with np.errstate(all="ignore"):
        d = np.abs(a - b) / (1.0 + np.maximum(np.abs(a), np.abs(b)))
    d = np.where(np.isnan(a) & np.isnan(b), 0.0, d)
    return float(np.nanmax(d)) if not np.all(np.isnan(d)) else float("inf")


# =====================================================================================================
# 5. python-mode clones of the kernels (oracle transcripts)
# =====================================================================================================

def pyclone(fn, extra, _memo=None):
    """plain-Python copy of a numba function whose numba callees are cloned too; `extra` rebinds global names
    (the recording vector field, `List` -> list)."""
    if _memo is None:
        _memo = {}
    f = getattr(fn, "py_func", fn)
    if id(f) in _memo:
        return _memo[id(f)]
    g = dict(f.__globals__)
    new = _types.FunctionType(f.__code__, g, f.__name__, f.__defaults__, f.__closure__)
    new.__kwdefaults__ = f.__kwdefaults__
    _memo[id(f)] = new
    for nm in set(f.__code__.co_names):
        if nm in extra:
            continue
        obj = f.__globals__.get(nm)
        if obj is not None and hasattr(obj, "py_func") and callable(obj):
            g[nm] = pyclone(obj, extra, _memo)
    g.update(extra)
    g.setdefault("prange", range)
    return new


DRIVER_ATTRS = {
    "_FixedStepRK": ["_integrate_fixed_rk", "_integrate_fixed_rk_ham", "_integrate_fixed_rk_until_event", "_integrate_fixed_rk_until_event_ham"],
    "_RK45": ["_integrate_rk45", "_integrate_rk45_ham", "_integrate_rk45_until_event", "_integrate_rk45_until_event_ham"],
    "_DOP853": ["_integrate_dop853", "_integrate_dop853_ham", "_integrate_dop853_until_event", "_integrate_dop853_until_event_ham"],
}


class PyMode:
    """context manager: the numba drivers of rk.py run as Python (their current bodies), the vector field and the event
    function are recorded.  Class attributes are restored on exit."""

    def __init__(self):
        self.rhs_log = []
        self.ev_log = []
        self.saved = []

    def rec_rhs(self, y, jac, clmo, ndof):
        from hiten.algorithms.dynamics.hamiltonian import _hamiltonian_rhs
        yy = np.ascontiguousarray(y, dtype=np.float64)
        self.rhs_log.append(yy.tobytes())
        return _hamiltonian_rhs(yy, jac, clmo, ndof)

    def __enter__(self):
        from hiten.algorithms.integrators import rk
        extra = {"_hamiltonian_rhs": self.rec_rhs, "List": list}
        memo = {}
        for cls, names in DRIVER_ATTRS.items():
            c = getattr(rk, cls)
            for nm in names:
                if nm not in c.__dict__:
                    continue
                self.saved.append((c, nm, c.__dict__[nm]))
                setattr(c, nm, staticmethod(pyclone(getattr(c, nm), extra, memo)))
        return self

    def __exit__(self, *a):
        for c, nm, old in self.saved:
            setattr(c, nm, old)
        return False


class _GenSys:
    """duck-typed generic dynamical system whose rhs is a Python recorder (python-mode only)"""

    def __init__(self, pm, sysm):
        jac, clmo, ndof = sysm.rhs_params
        self.dim = 6
        self.rhs = lambda t, y: pm.rec_rhs(y, jac, clmo, ndof)

    def _build_rhs_impl(self):
        return self.rhs


def _py_event(pm, ev):
    def g(t, y):
        pm.ev_log.append((float(t), np.ascontiguousarray(y, dtype=np.float64).tobytes()))
        return ev(float(t), y)
    return g


def distinct(seq):
    seen, out = set(), []
    for x in seq:
        if x not in seen:
            seen.add(x)
            out.append(x)
    return out


def py_run(integ, sysm, y0, tv, generic, ev=None, direction=0, ev_options=None):
    """run the real `integrate` with python-mode kernels; -> (solution, distinct rhs queries, event queries)"""
    from hiten.algorithms.types.configs import EventConfig
    with PyMode() as pm:
        system = _GenSys(pm, sysm) if generic else sysm
        kw = {}
        old = integ.__dict__.get("_compile_event_function")
        if ev is not None:
            integ._compile_event_function = lambda f: f
            kw = {"event_fn": _py_event(pm, ev), "event_cfg": EventConfig(direction=direction, terminal=True)}
            if ev_options is not None:
                kw["event_options"] = ev_options
        try:
            with np.errstate(all="ignore"):
                sol = integ.integrate(system, y0.copy(), tv.copy(), **kw)
        finally:
            if ev is not None:
                if old is None:
                    del integ.__dict__["_compile_event_function"]
                else:
                    integ._compile_event_function = old
        return sol, distinct(pm.rhs_log), list(pm.ev_log)


def py_transcript_fixed(integ, sysm, y0, tv):
    """all rhs queries (with repeats, in order) of the Hamiltonian fixed-grid driver"""
    try:
        with PyMode() as pm:
            integ.integrate(sysm, y0.copy(), tv.copy())
            return [np.frombuffer(b, dtype=np.float64).tolist() for b in pm.rhs_log]
    except Exception:  # noqa: BLE001
        return None


def sol_arrays(sol):
    d = getattr(sol, "derivatives", None)
    return [np.asarray(sol.times, dtype=float), np.asarray(sol.states, dtype=float)] + ([np.asarray(d, dtype=float)] if d is not None else [])


def same_bits(a, b):
    return len(a) == len(b) and all(x.shape == y.shape and x.tobytes() == y.tobytes() for x, y in zip(a, b))


def worst_rel(a, b):
    if len(a) != len(b):
        return float("inf")
    return max([rel_diff(x, y) for x, y in zip(a, b)] + [0.0])


# events (plain functions; compiled by the integrators themselves in compiled mode)
def ev_q1(t, y):
    return y[0] - 0.02


def ev_p2(t, y):
    return y[4] + 0.01


def ev_none(t, y):
    return y[0] * y[0] + 40.0


def ev_clock(t, y):
    # positive at the start, crosses DOWN near t = 0.3 and UP near t = 0.94: with direction = +1 the admissible crossing is not the
    # first sign change (the drivers must carry the previous event value from step to step)
    return math.cos(5.0 * t) + 0.1 * y[0]


EVENTS = {"q1": ev_q1, "p2": ev_p2, "never": ev_none, "clock": ev_clock}


def event_of(name):
    """event function of a configuration name; a suffix selects non-default location tolerances (xtol != gtol):
    `@x` = loose in time / tight in value, `@g` = tight in time / loose in value"""
    return EVENTS[name.split("@")[0]]


def event_options_of(name):
    from hiten.algorithms.types.options import EventOptions
    if "@x" in name:
        return EventOptions(xtol=1e-4, gtol=1e-14)
    if "@g" in name:
        return EventOptions(xtol=1e-14, gtol=1e-4)
    return None
ROUND = 1e-9     # two executions of the same algorithm that differ only by re-association of float operations


def configs(ctx):
    """(family, order, integrator kwargs, grid kind, event name, direction)"""
    out = []
    tols = [1e-6, 1e-9, 1e-12] if ctx.thorough() else [1e-6, 1e-10]
    for p in (4, 6, 8):
        out.append(("fixed", p, {}, "asc", None, 0))
        out.append(("fixed", p, {}, "desc", None, 0))
        for ev, dr in (("q1", 0), ("q1", 1), ("p2", -1), ("never", 0)):
            out.append(("fixed", p, {}, "asc", ev, dr))
        out.append(("fixed", p, {}, "desc", "q1", 0))
        # non-uniform grids (the step is a property of each interval) and a crossing that is not the first sign change
        out.append(("fixed", p, {}, "uneven", None, 0))
        out.append(("fixed", p, {}, "uneven", "q1", 0))
        out.append(("fixed", p, {}, "asc", "clock", 1))
        out.append(("fixed", p, {}, "asc", "q1@x", 0))
        out.append(("fixed", p, {}, "asc", "q1@g", 0))
    for p in (5, 8):
        for tol in tols:
            kw = {"rtol": tol, "atol": tol}
            out.append(("adaptive", p, kw, "asc", None, 0))
            out.append(("adaptive", p, kw, "uneven", None, 0))
            for ev, dr in (("q1", 0), ("p2", -1), ("q1", -1), ("never", 0), ("clock", 1)):
                out.append(("adaptive", p, kw, "asc", ev, dr))
        out.append(("adaptive", p, {"rtol": 1e-8, "atol": 1e-10, "max_step": 0.05}, "asc", None, 0))
        # a step cap that binds all along (loose tolerance, small cap): the twins must take the same capped steps
        out.append(("adaptive", p, {"rtol": 1e-3, "atol": 1e-3, "max_step": 0.02}, "asc", None, 0))
        # options that must not be mixed up when they are handed to the twin (rtol/atol far apart, no step cap)
        out.append(("adaptive", p, {"rtol": 1e-6, "atol": 1e-11}, "asc", None, 0))
        out.append(("adaptive", p, {"rtol": 1e-6, "atol": 1e-11}, "asc", "q1", 0))
        out.append(("adaptive", p, {"rtol": 1e-9, "atol": 1e-9}, "asc", "q1@x", 0))
        out.append(("adaptive", p, {"rtol": 1e-9, "atol": 1e-9}, "asc", "q1@g", 0))
        out.append(("adaptive", p, {"rtol": 1e-11, "atol": 1e-6}, "uneven", None, 0))
        out.append(("adaptive", p, {"rtol": 1e-7, "atol": 1e-7, "min_step": 1e-3}, "asc", None, 0))
    return out


def make_grid(kind, T_end=1.5):
    if kind == "asc":
        return np.linspace(0.0, T_end, 16)
    if kind == "desc":
        return np.linspace(0.0, -T_end, 16)
    return np.array([0.0, 0.003, 0.25, 0.2500001, 0.9, 1.31, T_end])


def make_integ(family, order, kw):
    from hiten.algorithms.integrators import rk
    return rk.FixedRK(order) if family == "fixed" else rk.AdaptiveRK(order, **kw)


def cfg_key(cfg):
    family, order, kw, grid, ev, dr = cfg
    return "%s%d:%s:%s" % (family, order, "event" if ev else "grid", grid)


def cfg_json(cfg):
    family, order, kw, grid, ev, dr = cfg
    return {"family": family, "order": order, "options": kw, "grid": grid, "event": ev, "direction": dr}


def transcripts(ctx):
    """oracle transcripts of the twin drivers (python-mode bodies, real `integrate` dispatch)"""
    import polyutil as PU
    rng = ctx.rng
    name = "correspondence:twin-transcripts"
    bad = []
    nham = 3 if ctx.thorough() else 1
    stats = {"pairs": 0, "rhs_queries": 0, "event_queries": 0, "py_vs_compiled_worst": 0.0}
    for hi in range(nham):
        deg = rng.choice([4, 6])
        hd = rand_ham(rng, deg)
        sysm, H = PU.ham_system(hd, deg)
        y0 = np.array([rng.uniform(-0.25, 0.25) for _ in range(6)])
        y0[0] = -0.1
        cfgs = configs(ctx)
        if not ctx.thorough():
            cfgs = [c for i, c in enumerate(cfgs) if c[0] == "fixed" and c[1] == 4 or c[0] == "adaptive" and c[2].get("rtol") in (1e-6, 1e-8)]
        for cfg in cfgs:
            family, order, kw, grid, evn, dr = cfg
            tv = make_grid(grid)
            ev = event_of(evn) if evn else None
            try:
                eo = event_options_of(evn) if evn else None
                sg, qg, eg = py_run(make_integ(family, order, kw), sysm, y0, tv, True, ev, dr, eo)
                sh, qh, eh = py_run(make_integ(family, order, kw), sysm, y0, tv, False, ev, dr, eo)
            except Exception as ex:  # noqa: BLE001
                bad.append("%s: python-mode execution failed: %s: %s" % (cfg_key(cfg), type(ex).__name__, str(ex)[:200]))
                continue
            stats["pairs"] += 1
            stats["rhs_queries"] += len(qh)
            stats["event_queries"] += len(eh)
            ag, ah = sol_arrays(sg), sol_arrays(sh)
            ctx.case(("transcript", hi, json_key(cfg)), kind="transcript:" + family, nontrivial=len(qh) > 2)
            msg = None
            if len(qg) != len(qh):
                msg = "the Hamiltonian twin queries the vector field at %d distinct states, the generic driver at %d" % (len(qh), len(qg))
            elif qg != qh:
                i = next(i for i, (a, b) in enumerate(zip(qg, qh)) if a != b)
                e = rel_diff(np.frombuffer(qg[i]), np.frombuffer(qh[i]))
                if e > ROUND:
                    msg = "vector-field query #%d differs between the twins (rel %g)" % (i, e)
            if msg is None and len(eg) != len(eh):
                msg = "the twins evaluate the event function %d vs %d times" % (len(eh), len(eg))
            if msg is None and eg != eh:
                e = max(max(abs(a[0] - b[0]), rel_diff(np.frombuffer(a[1]), np.frombuffer(b[1]))) for a, b in zip(eg, eh))
                if e > ROUND:
                    msg = "event-function queries differ between the twins (rel %g)" % e
            if msg is None and not same_bits(ag, ah):
                e = worst_rel(ag, ah)
                if e > ROUND:
                    msg = "results differ between the twins (rel %g)" % e
            if msg:
                bad.append("%s (H#%d): %s" % (cfg_key(cfg), hi, msg))
                MODEL.setdefault("transcript_bad", []).append((cfg, hd, y0.tolist(), msg))
            # python-mode body vs compiled function (translation validation of the python-mode execution)
            if hi == 0:
                try:
                    from hiten.algorithms.types.configs import EventConfig
                    kwc = {"event_fn": ev, "event_cfg": EventConfig(direction=dr, terminal=True)} if ev else {}
                    if ev and eo is not None:
                        kwc["event_options"] = eo
                    sc = make_integ(family, order, kw).integrate(sysm, y0.copy(), tv.copy(), **kwc)
                    e = worst_rel(sol_arrays(sc), ah)
                    stats["py_vs_compiled_worst"] = max(stats["py_vs_compiled_worst"], e)
                    ctx.traces_validated += 1
                    tol = 1e-9 if family == "fixed" else 1e3 * kw.get("rtol", 1e-9) + 1e-9
                    if not e <= tol:
                        bad.append("%s: python-mode body and compiled function differ by %g" % (cfg_key(cfg), e))
                except Exception as ex:  # noqa: BLE001
                    bad.append("%s: compiled execution failed: %s" % (cfg_key(cfg), ex))
    ctx.extra["transcripts"] = stats
    if bad:
        broken(ctx, name, "; ".join(bad[:4]))
    else:
        ctx.obligations[name] = True
    return not bad


def json_key(cfg):
    family, order, kw, grid, ev, dr = cfg
    return "%s|%d|%s|%s|%s|%d" % (family, order, sorted(kw.items()), grid, ev, dr)


# =====================================================================================================
# 6. compiled differential execution: Hamiltonian system vs the same Hamilton equations as a generic vector field
# =====================================================================================================

_CUR = {}


def _cur_rhs(y):
    from hiten.algorithms.dynamics.hamiltonian import _hamiltonian_rhs
    return _hamiltonian_rhs(y, _CUR["jac"], _CUR["clmo"], _CUR["ndof"])


_G_OBJ = None
_EV_C = {}


def generic_swappable():
    """one compiled generic vector field `g(t, y)` for the whole run: it calls back into Python, which evaluates the
    library's own compiled `_hamiltonian_rhs` on the *current* system's data (so the float operations are identical and the
    integrator kernels are compiled once for this field)"""
    global _G_OBJ
    if _G_OBJ is None:
        import numba

        @numba.njit(cache=False)
        def g(t, y):
            with numba.objmode(out="float64[::1]"):
                out = _cur_rhs(y)
            return out
        _G_OBJ = g
    return _G_OBJ


def generic_closure(sysm):
    """pure nopython generic field: `_hamiltonian_rhs` over immutable copies (tuples of arrays) of the system's data"""
    import numba
    from hiten.algorithms.dynamics.hamiltonian import _hamiltonian_rhs
    jac, clmo, ndof = sysm.rhs_params
    jt = tuple(tuple(np.ascontiguousarray(a) for a in p) for p in jac)
    ct = tuple(np.ascontiguousarray(a) for a in clmo)

    @numba.njit(cache=False)
    def g(t, y):
        return _hamiltonian_rhs(y, jt, ct, ndof)
    return g


def compiled_event(name):
    import numba
    from numba import types
    if name not in _EV_C:
        _EV_C[name] = numba.njit(types.float64(types.float64, types.float64[:]), cache=False)(event_of(name))
    return _EV_C[name]


def use_system(sysm):
    _CUR["jac"], _CUR["clmo"], _CUR["ndof"] = sysm.rhs_params


def run_cfg(cfg, system, y0):
    from hiten.algorithms.types.configs import EventConfig
    family, order, kw, grid, evn, dr = cfg
    tv = make_grid(grid)
    kwc = {"event_fn": compiled_event(evn), "event_cfg": EventConfig(direction=dr, terminal=True)} if evn else {}
    if evn and event_options_of(evn) is not None:
        kwc["event_options"] = event_options_of(evn)
    with np.errstate(all="ignore"):
        return make_integ(family, order, kw).integrate(system, y0.copy(), tv.copy(), **kwc)


def report_twin(ctx, cfg, hd, deg, y0, gname, ah, ag, e):
    family, order, kw, grid, evn, dr = cfg
    key = "twin:%s%d:%s" % (family, order, "event" if evn else "grid")
    what = ("%s order %d (%s, grid %s%s): integrating the polynomial Hamiltonian system and integrating the same Hamilton equations as a "
            "generic vector field give different results (max relative difference %.3g)" % (
                family, order, kw or "default options", grid, ", event %s direction %d" % (evn, dr) if evn else "", e))
    names = ["times", "states", "derivatives"]
    ctx.violation(key, what, {
        "kind": "twin", "config": cfg_json(cfg), "hamiltonian": hd_json(hd), "degree": deg, "y0": [float(v) for v in y0],
        "t_vals": make_grid(grid).tolist(), "generic_field": gname,
        "hamiltonian_path": {n: a.tolist() for n, a in zip(names, ah)}, "generic_path": {n: a.tolist() for n, a in zip(names, ag)},
        "expected": "identical outputs", "call": "integrator.integrate(create_hamiltonian_system(...), y0, t_vals, ...) vs "
        "integrator.integrate(create_rhs_system(<(dH/dP,-dH/dQ)>), y0, t_vals, ...)"})


def differential(ctx):
    import polyutil as PU
    from hiten.algorithms.dynamics.rhs import create_rhs_system
    rng = ctx.rng
    g_obj = create_rhs_system(generic_swappable(), 6, name="verif-generic")
    nham = 6 if ctx.thorough() else 2
    stats = {"runs": 0, "bitwise_equal": 0, "rounding_level": 0, "worst_rel": 0.0, "event_hits": 0, "closure_runs": 0, "sysrhs_runs": 0}
    found = set()
    for hi in range(nham):
        deg = [4, 6, 8, 5, 7, 8][hi] if ctx.thorough() else [4, 7][hi]
        hd = rand_ham(rng, deg, nterms=8 if deg >= 7 else 10)
        sysm, H = PU.ham_system(hd, deg)
        use_system(sysm)
        y0 = np.array([rng.uniform(-0.25, 0.25) for _ in range(6)])
        y0[0] = -0.1 - 0.1 * rng.random()
        gens = [("swappable", g_obj)]
        if hi == 0:
            gens.append(("closure", create_rhs_system(generic_closure(sysm), 6, name="verif-generic-closure")))
            if MODEL.get("rhs_evaluable"):
                gens.append(("hamsys.rhs", create_rhs_system(sysm.rhs, 6, name="verif-generic-own")))
        for cfg in configs(ctx):
            family, order, kw, grid, evn, dr = cfg
            try:
                sh = run_cfg(cfg, sysm, y0)
            except Exception as ex:  # noqa: BLE001
                broken(ctx, "differential:" + cfg_key(cfg), "Hamiltonian path raised %s: %s" % (type(ex).__name__, str(ex)[:300]))
                continue
            ah = sol_arrays(sh)
            if evn and evn != "never" and len(sh.times) == 2 and sh.times[-1] != make_grid(grid)[-1]:
                stats["event_hits"] += 1
            for gname, gsys in gens:
                if gname != "swappable" and (family == "adaptive" and kw.get("rtol") not in (1e-6, 1e-8)):
                    continue
                try:
                    sg = run_cfg(cfg, gsys, y0)
                except Exception as ex:  # noqa: BLE001
                    broken(ctx, "differential:" + cfg_key(cfg), "generic path (%s) raised %s: %s" % (gname, type(ex).__name__, str(ex)[:300]))
                    continue
                ag = sol_arrays(sg)
                stats["runs"] += 1
                stats[{"closure": "closure_runs", "hamsys.rhs": "sysrhs_runs"}.get(gname, "runs")] += (gname != "swappable")
                ctx.case(("diff", hi, gname, json_key(cfg)), kind="differential:%s%d:%s" % (family, order, "event" if evn else grid),
                         nontrivial=True, sample={"config": cfg_json(cfg), "degree": deg, "final_state": ah[1][-1].tolist()} if hi == 0 and gname == "swappable" else None)
                if same_bits(ah, ag):
                    stats["bitwise_equal"] += 1
                    continue
                e = worst_rel(ah, ag)
                stats["worst_rel"] = max(stats["worst_rel"], e if e != float("inf") else 1e300)
                if e <= ROUND:
                    stats["rounding_level"] += 1
                    continue
                k = (family, order, bool(evn))
                if k not in found:
                    found.add(k)
                    report_twin(ctx, cfg, hd, deg, y0, gname, ah, ag, e)
    ctx.extra["differential"] = stats
    ctx.obligations["correspondence:compiled-twins-bitwise"] = not found
    if found:
        ctx.broken.append(("correspondence:compiled-twins-bitwise", "paths differ for %s" % sorted(found)))


# =====================================================================================================
# 7. evaluability of the exposed right-hand side and of the generic path for Hamiltonian systems
# =====================================================================================================

def evaluability(ctx):
    import polyutil as PU
    from hiten.algorithms.dynamics.base import _propagate_dynsys
    from hiten.algorithms.dynamics.hamiltonian import _hamiltonian_rhs
    from hiten.algorithms.integrators import rk
    hd = {(2, 0, 0, 0, 0, 0): 0.5, (0, 0, 0, 2, 0, 0): 0.5, (0, 2, 0, 0, 0, 0): 0.4, (0, 0, 0, 0, 2, 0): 0.6, (0, 0, 2, 0, 0, 0): 0.8,
          (0, 0, 0, 0, 0, 2): 0.5, (1, 0, 0, 1, 1, 0): 0.3, (0, 1, 1, 0, 0, 1): -0.2, (1, 1, 0, 1, 1, 0): 0.25}
    sysm, H = PU.ham_system(hd, 4)
    jac, clmo, ndof = sysm.rhs_params
    y = np.array([0.1, 0.2, -0.1, 0.05, 0.02, 0.3])
    want = _hamiltonian_rhs(y, jac, clmo, ndof)
    base = {"hamiltonian": hd_json(hd), "degree": 4, "state": y.tolist()}
    ctx.case(("evaluable", "rhs"), kind="evaluability")
    try:
        got = np.asarray(sysm.rhs(0.0, y))
        MODEL["rhs_evaluable"] = True
        if got.tobytes() != np.asarray(want).tobytes():
            ctx.violation("rhs-differs", "hamsys.rhs(t, y) differs from _hamiltonian_rhs on the system's own data",
                          dict(base, kind="rhs", call="hamsys.rhs(0.0, state)", observed=got.tolist(), expected=want.tolist()))
    except Exception as ex:  # noqa: BLE001
        MODEL["rhs_evaluable"] = False
        ctx.violation("rhs-not-evaluable",
                      "create_hamiltonian_system(...).rhs(t, y) cannot be evaluated: %s (the closure built by _HamiltonianSystem._build_rhs_impl "
                      "captures numba typed lists, which cannot be lowered as free variables)" % type(ex).__name__,
                      dict(base, kind="rhs", call="hamsys.rhs(0.0, state)", observed="%s: %s" % (type(ex).__name__, str(ex)[:400]),
                           expected=want.tolist()))
    # the generic path (_DirectedSystem wrapper -> compiled rhs) for Hamiltonian systems
    T_end, steps = 1.0, 11
    failed = []
    for method, order, fwd in (("fixed", 4, 1), ("adaptive", 8, 1), ("fixed", 4, -1), ("adaptive", 5, -1)):
        ctx.case(("evaluable", method, order, fwd), kind="evaluability")
        call = "_propagate_dynsys(hamsys, state, 0.0, %g, forward=%d, steps=%d, method=%r, order=%d)" % (T_end, fwd, steps, method, order)
        try:
            sol = _propagate_dynsys(sysm, y, 0.0, T_end, forward=fwd, steps=steps, method=method, order=order)
        except Exception as ex:  # noqa: BLE001
            failed.append({"call": call, "observed": "%s: %s" % (type(ex).__name__, str(ex)[:300])})
            if MODEL.get("rhs_evaluable") is False and len(failed) >= 2:
                break       # same root cause; every further attempt costs a failed compilation
            continue
        # evaluable: must agree with the fast path (forward) / with the fast path on the mirrored grid (backward, fixed step)
        tv = np.linspace(0.0, T_end, steps)
        if method == "fixed":
            fast = rk.RungeKutta(order).integrate(sysm, y.copy(), tv * fwd)
        elif fwd == 1:
            fast = rk.AdaptiveRK(order, rtol=1e-12, atol=1e-12, max_step=1e4).integrate(sysm, y.copy(), tv)
        else:
            fast = rk.FixedRK(8).integrate(sysm, y.copy(), np.linspace(0.0, -T_end, 401))
        a, b = np.asarray(sol.states[-1]), np.asarray(fast.states[-1])
        e = rel_diff(a, b)
        tol = ROUND if (method == "fixed" or fwd == 1) else 1e-8
        if not e <= tol:
            ctx.violation("propagate-generic-differs:%s" % method,
                          "%s differs from the Hamiltonian fast path by %g" % (call, e),
                          dict(base, kind="propagate", call=call, observed=a.tolist(), expected=b.tolist()))
        if not np.allclose(np.asarray(sol.times), fwd * tv):
            ctx.violation("propagate-times:%s" % method, "%s returns times %r" % (call, np.asarray(sol.times)[:3].tolist()),
                          dict(base, kind="propagate", call=call, observed=np.asarray(sol.times).tolist(), expected=(fwd * tv).tolist()))
    if failed:
        ctx.violation("propagate-rk-not-evaluable",
                      "_propagate_dynsys(hamsys, method='fixed'|'adaptive') raises: the _DirectedSystem wrapper is not recognised as a Hamiltonian "
                      "system, takes the generic path, and that path's right-hand side (hamsys.rhs) cannot be compiled",
                      dict(base, kind="propagate", calls=failed, expected="the trajectory the Hamiltonian fast path produces"))


# =====================================================================================================
# 8. numerical search: the rhs against an independent gradient; the evaluators against the rhs
# =====================================================================================================

def rhs_numerics(ctx):
    import polyutil as PU
    from hiten.algorithms.dynamics.hamiltonian import _hamiltonian_rhs
    from hiten.algorithms.integrators import symplectic as sy
    rng = ctx.rng
    n = 24 if ctx.thorough() else 8
    worst = 0.0
    for c in range(n):
        deg = rng.choice([3, 4, 5, 6, 7, 8]) if ctx.thorough() else rng.choice([3, 4, 6, 8])
        hd = rand_ham(rng, deg, nterms=12, amp=1.0)
        sysm, H = PU.ham_system(hd, deg)
        jac, clmo, ndof = sysm.rhs_params
        for _ in range(4):
            z = np.array([rng.uniform(-1.2, 1.2) for _ in range(6)])
            g = PU.grad_poly_dict(hd, list(z))
            scale = 1.0 + sum(abs(c_) * sum(k) * max(1.0, float(np.max(np.abs(z)))) ** sum(k) for k, c_ in hd.items())
            want = np.array([g[3], g[4], g[5], -g[0], -g[1], -g[2]])
            got = _hamiltonian_rhs(z, jac, clmo, ndof)
            e = float(np.max(np.abs(got - want))) / scale
            worst = max(worst, e)
            ctx.case(("rhs", deg, c), kind="rhs-vs-independent-gradient", nontrivial=True)
            if not e <= 1e-13:
                ctx.violation("rhs-not-hamilton", "_hamiltonian_rhs is not (dH/dP, -dH/dQ) of the polynomial (error %g relative to the term scale)" % e,
                              {"kind": "rhs-value", "hamiltonian": hd_json(hd), "degree": deg, "state": z.tolist(), "observed": got.tolist(),
                               "expected": want.tolist(), "call": "_hamiltonian_rhs(state, *hamsys.rhs_params)"})
                return
            Q, P = z[:3].copy(), z[3:].copy()
            dq, dp = sy._eval_dH_dQ(Q, P, jac, clmo), sy._eval_dH_dP(Q, P, jac, clmo)
            hder = sy._eval_hamiltonian_derivative(Q, P, jac, clmo)
            via = np.concatenate([dp, -dq])
            for nm, v in (("(_eval_dH_dP, -_eval_dH_dQ)", via), ("_eval_hamiltonian_derivative", hder),
                          ("(hamsys.dH_dP, -hamsys.dH_dQ)", np.concatenate([sysm.dH_dP(Q, P), -sysm.dH_dQ(Q, P)]))):
                if np.asarray(v).tobytes() != np.asarray(got).tobytes() and rel_diff(v, got) > 1e-13:
                    ctx.violation("evaluators-differ", "%s differs from the right-hand side of the same system" % nm,
                                  {"kind": "evaluators", "hamiltonian": hd_json(hd), "degree": deg, "state": z.tolist(), "observed": np.asarray(v).tolist(),
                                   "expected": got.tolist(), "call": nm})
                    return
    ctx.extra["rhs_vs_independent_gradient_worst"] = worst


def symplectic_pieces(ctx):
    """the symplectic scheme driven by the *right-hand side* (its P-block for dH/dP, minus its Q-block for dH/dQ) must
    reproduce the scheme driven by the separate evaluators bit for bit (python-mode bodies), and the compiled scheme to rounding"""
    import polyutil as PU
    from hiten.algorithms.dynamics.hamiltonian import _hamiltonian_rhs
    from hiten.algorithms.integrators import symplectic as sy
    rng = ctx.rng
    name = "correspondence:symplectic-evaluators-vs-rhs"
    bad = []

    def from_rhs_q(Q, P, jac, clmo):
        return -_hamiltonian_rhs(np.concatenate([Q, P]), jac, clmo, 3)[3:]

    def from_rhs_p(Q, P, jac, clmo):
        return _hamiltonian_rhs(np.concatenate([Q, P]), jac, clmo, 3)[:3].copy()

    def from_rhs_d(Q, P, jac, clmo):
        return _hamiltonian_rhs(np.concatenate([Q, P]), jac, clmo, 3)

    over = {"_eval_dH_dQ": from_rhs_q, "_eval_dH_dP": from_rhs_p, "_eval_hamiltonian_derivative": from_rhs_d}
    for order in ((2, 4, 6, 8) if ctx.thorough() else (2, 4, 6)):
        deg = rng.choice([4, 6])
        hd = rand_ham(rng, deg)
        sysm, H = PU.ham_system(hd, deg)
        jac, clmo, ndof = sysm.rhs_params
        y0 = np.array([rng.uniform(-0.2, 0.2) for _ in range(6)])
        y0[0] = -0.1
        tv = np.linspace(0.0, 1.0, 9)
        a = pyclone(sy._integrate_symplectic, {})(y0.copy(), tv, jac, clmo, order, 20.0)
        b = pyclone(sy._integrate_symplectic, dict(over))(y0.copy(), tv, jac, clmo, order, 20.0)
        c = sy._integrate_symplectic(y0.copy(), tv, jac, clmo, order, 20.0)
        ctx.case(("symplectic", order, "grid"), kind="symplectic-pieces")
        if a.tobytes() != b.tobytes() and rel_diff(a, b) > ROUND:
            bad.append(("symplectic%d:grid" % order, hd, deg, y0, a, b))
        if rel_diff(a, c) > 1e-10:
            bad.append(("symplectic%d:python-vs-compiled" % order, hd, deg, y0, a, c))
        for evn, dr in (("q1", 0), ("p2", -1)):
            ev = event_of(evn)
            ra = pyclone(sy._integrate_symplectic_until_event, {})(y0.copy(), tv, jac, clmo, order, ev, dr, 1e-12, 1e-12, 20.0)
            rb = pyclone(sy._integrate_symplectic_until_event, dict(over))(y0.copy(), tv, jac, clmo, order, ev, dr, 1e-12, 1e-12, 20.0)
            rc = sy._integrate_symplectic_until_event(y0.copy(), tv, jac, clmo, order, compiled_event(evn), dr, 1e-12, 1e-12, 20.0)
            fa, fb, fc = ([np.array([float(r[0]), float(r[1])]), np.asarray(r[2], dtype=float)] for r in (ra, rb, rc))
            ctx.case(("symplectic", order, evn, dr), kind="symplectic-pieces", nontrivial=bool(ra[0]))
            if not same_bits(fa, fb) and worst_rel(fa, fb) > ROUND:
                bad.append(("symplectic%d:event" % order, hd, deg, y0, np.concatenate(fa), np.concatenate(fb)))
            if worst_rel(fa, fc) > 1e-9:
                bad.append(("symplectic%d:event:python-vs-compiled" % order, hd, deg, y0, np.concatenate(fa), np.concatenate(fc)))
    if bad:
        tag, hd, deg, y0, a, b = bad[0]
        broken(ctx, name, "%s: scheme driven by the evaluators and scheme driven by the rhs differ by %g" % (tag, rel_diff(a, b)))
        ctx.violation("symplectic-evaluators:" + tag.split(":")[1],
                      "%s: the symplectic scheme gives different results when its gradient evaluators are replaced by the blocks of the "
                      "system's right-hand side (rel %g)" % (tag, rel_diff(a, b)),
                      {"kind": "symplectic", "tag": tag, "hamiltonian": hd_json(hd), "degree": deg, "y0": y0.tolist(), "t_vals": np.linspace(0.0, 1.0, 9).tolist(),
                       "observed": np.asarray(a).tolist(), "expected": np.asarray(b).tolist()})
    else:
        ctx.obligations[name] = True


# =====================================================================================================

def run(ctx):
    ctx.guard("regenerate", gen, ctx)
    ok = ctx.lean_build(PROPS)
    if ok:
        ctx.lean_audit(PROPS, SRC)
        if ctx.thorough():
            ctx.leanchecker(PROPS)
    for name, (tg, th, ng, nh) in MODEL.get("twins", {}).items():
        if tg != th:
            ctx.log("twin trace differs:", name)
    for phase in (corr_poly, corr_fixed_model, rhs_numerics, evaluability, transcripts, differential, symplectic_pieces):
        t0 = time.time()
        ctx.guard(phase.__name__, phase, ctx)
        ctx.log("%s done in %.1fs" % (phase.__name__, time.time() - t0))
    ctx.search_ran = True
    ctx.rule = ("exact: integer/Gaussian-integer polynomials of degree <= 8 x dyadic states (distinct by polynomial, variable, state); "
                "differential: random polynomial Hamiltonians (oscillator part + random terms up to degree 8) x initial states x "
                "(integrator family, order, tolerance, grid ascending/descending/uneven, event function, direction) x generic field "
                "(swappable callback / nopython closure / the system's own rhs when evaluable); distinct by that tuple; non-trivial = "
                "non-zero derivative / more than two vector-field queries")
    ctx.assumptions += [
        "IEEE rounding is not modelled: the Lean polynomial model is exact; the compiled twins are compared bit for bit (identical "
        "float operations), re-association-level differences (<= 1e-9 relative) are tolerated and counted",
        "the packed layout (_init_index_tables / _encode_multiindex) is tied by exact comparison up to degree 8, not proved (C06)",
        "adaptive / event drivers are tied by oracle transcripts and differential execution, not by a Lean model (C02, C10, C11 model them)",
    ]


def replay(ctx, rec):
    """re-run one recorded failing call on the real code"""
    import polyutil as PU
    r = rec.get("replay") or {}
    kind = r.get("kind")
    if kind == "twin":
        from hiten.algorithms.dynamics.rhs import create_rhs_system
        hd = hd_unjson(r["hamiltonian"])
        sysm, H = PU.ham_system(hd, r["degree"])
        use_system(sysm)
        c = r["config"]
        cfg = (c["family"], c["order"], c["options"], c["grid"], c["event"], c["direction"])
        y0 = np.array(r["y0"])
        gsys = create_rhs_system(generic_swappable(), 6)
        ah, ag = sol_arrays(run_cfg(cfg, sysm, y0)), sol_arrays(run_cfg(cfg, gsys, y0))
        e = worst_rel(ah, ag)
        ctx.log("replayed: bitwise equal =", same_bits(ah, ag), "max relative difference =", e)
        ctx.case(("replay", json_key(cfg)), kind="replay")
        if not same_bits(ah, ag) and e > ROUND:
            report_twin(ctx, cfg, hd, r["degree"], y0, "swappable", ah, ag, e)
        ctx.obligations["replay-executed"] = True
        return
    if kind in ("rhs", "propagate"):
        evaluability(ctx)
        ctx.obligations["replay-executed"] = True
        return
    return run(ctx)
