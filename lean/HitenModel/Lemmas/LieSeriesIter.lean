/-
  Lemmas/LieSeriesIter.lean — the one-generator theorem of `Lemmas/LieSeriesModel.lean` lifted to a whole sequence of generators (the loop
  of `_lie_transform`, the loop of `_lie_expansion`): the iterated truncated Lie series is the composition with the composed coordinate
  map, modulo terms of degree `> N`.

  Conventions.  A *generator list* is `gs : List (ℕ × Poly K)`: pairs (bracket count, generator), applied from the head of the list.
    `iterSeries tiny N gs H0` = `gs.foldl (fun H kg => lieSeries tiny N kg.1 kg.2 H) H0`          (the model's loop on a polynomial)
    `coordMap tiny N Kc g j`  = `toMv (lieSeries tiny N Kc g x_j)`                                (the coordinate map of ONE generator)
    `compMap tiny N gs`       : `Ψ_[] i = x_i`, `Ψ_(gs ++ [g]) i = (Ψ_gs i) ∘ Φ_g = aeval Φ_g (Ψ_gs i)` (the composed coordinate map)
  With `(H ∘ Φ) := aeval Φ H`: one step gives `H₁ ≡ aeval Φ₁ H₀`, two steps `H₂ ≡ aeval Φ₂ (aeval Φ₁ H₀) = aeval (fun i => aeval Φ₂ (Φ₁ i)) H₀`;
  as point maps `Ψ_[g1,…,gk] = Φ_{g1} ∘ … ∘ Φ_{gk}` (the first generator applied is the outermost map).

  Contents.
    1. `Ord.aeval`, `Cong.aeval` (substituting maps without constant term respects the filtration / the congruence), `coordMap_ord`;
       `iterated_lie_series_is_composition(_gen/_coeff)`: `toMv (iterSeries gs H0) ≡ aeval (compMap gs) (toMv H0)` modulo degree `> N`.
    2. `iterCoords`, `iterated_coords_cong`: the same loop on `x_i` gives `compMap gs i`; `expansionGens`, `lieExpansion_eq_iterCoords`,
       `lieExpansion_cong`, `lieExpansion_is_psiFn`: `_lie_expansion` (unrestricted) is that loop, for its generators `sign · block n Gtot`.
    3. `stepGen`, `loopGens`, `lieLoop_trans_G`, `loopGens_spec`, `lieLoop_is_composition`: the loop of `_lie_transform` is `iterSeries`
       over its generators, `G` is their concatenation.
    4. `normal_form_maps_agree`, `lieTransform_is_composition_with_expansion`: the map `_lie_expansion` (forward, sign `+1`) rebuilds from
       the returned `G` is the composed map of the loop, so `H_out ≡ H_in ∘ (expansion of G_out)`.
  Not here: canonicity (symplecticity) of `Ψ`, `inverse ∘ forward = id`, `restrict = True` (see `zero_q1p1_on_cm`), float rounding.
-/
import HitenModel.Lemmas.LieSeriesModel
import Mathlib.Data.List.Induction

set_option linter.unusedSectionVars false

namespace HitenModel.LieSeries
open MvPolynomial Finset HitenModel.C08

variable {K : Type} [Field K] [DecidableEq K]

/-! ### the order filtration under products, powers and substitution -/

theorem ord_one : Ord 0 (1 : MvPolynomial (Fin 6) K) := ord_zero _

theorem Ord.pow {k : ℕ} {f : MvPolynomial (Fin 6) K} (hf : Ord k f) (n : ℕ) : Ord (n * k) (f ^ n) := by
  induction n with
  | zero => simpa using ord_zero (1 : MvPolynomial (Fin 6) K)
  | succ n ih =>
    rw [pow_succ, Nat.succ_mul]
    exact ih.mul hf

theorem Ord.prod {ι : Type} (s : Finset ι) (d : ι → ℕ) (F : ι → MvPolynomial (Fin 6) K) (h : ∀ i ∈ s, Ord (d i) (F i)) :
    Ord (∑ i ∈ s, d i) (∏ i ∈ s, F i) := by
  classical
  induction s using Finset.induction_on with
  | empty => simpa using ord_zero (1 : MvPolynomial (Fin 6) K)
  | insert a s ha ih =>
    rw [Finset.sum_insert ha, Finset.prod_insert ha]
    exact (h a (Finset.mem_insert_self a s)).mul (ih fun i hi => h i (Finset.mem_insert_of_mem hi))

/-- a monomial of degree `d` composed with maps without constant term has order `≥ d` -/
theorem ord_aeval_monomial {Φ : Fin 6 → MvPolynomial (Fin 6) K} (hΦ : ∀ j, Ord 1 (Φ j)) (s : Fin 6 →₀ ℕ) (c : K) :
    Ord s.degree (MvPolynomial.aeval Φ (monomial s c)) := by
  rw [MvPolynomial.aeval_monomial, Finsupp.prod, Finsupp.degree_apply]
  have h1 : Ord (∑ i ∈ s.support, s i) (∏ i ∈ s.support, Φ i ^ s i) := by
    refine Ord.prod _ _ _ fun i _ => ?_
    have := (hΦ i).pow (s i)
    rwa [Nat.mul_one] at this
  have := (ord_zero (algebraMap K (MvPolynomial (Fin 6) K) c)).mul h1
  rwa [Nat.zero_add] at this

/-- **substitution of maps without constant term does not lower the order** -/
theorem Ord.aeval {Φ : Fin 6 → MvPolynomial (Fin 6) K} (hΦ : ∀ j, Ord 1 (Φ j)) {k : ℕ} {A : MvPolynomial (Fin 6) K}
    (hA : Ord k A) : Ord k (MvPolynomial.aeval Φ A) := by
  have e : MvPolynomial.aeval Φ A = ∑ v ∈ A.support, MvPolynomial.aeval Φ (monomial v (MvPolynomial.coeff v A)) := by
    conv_lhs => rw [A.as_sum]
    rw [map_sum]
  rw [e]
  exact Ord.sum _ _ fun v hv => (ord_aeval_monomial hΦ v _).mono (hA v hv)

/-- **the congruence modulo degree `> N` is preserved by composition with maps without constant term** (in the polynomial argument;
`aeval_cong` is the statement for the map argument) -/
theorem Cong.aeval {Φ : Fin 6 → MvPolynomial (Fin 6) K} (hΦ : ∀ j, Ord 1 (Φ j)) {N : ℕ} {A B : MvPolynomial (Fin 6) K}
    (h : Cong N A B) : Cong N (MvPolynomial.aeval Φ A) (MvPolynomial.aeval Φ B) := by
  unfold Cong at *
  have := Ord.aeval hΦ h
  rwa [map_sub] at this

/-- a polynomial congruent to one of order `≥ k` (`k ≤ N + 1`) has order `≥ k` -/
theorem Ord.of_cong {N k : ℕ} {A B : MvPolynomial (Fin 6) K} (h : Cong N A B) (hB : Ord k B) (hk : k ≤ N + 1) : Ord k A := by
  have := (Ord.mono h hk).add hB
  rwa [sub_add_cancel] at this

variable [CharZero K]

theorem ord_X (i : Fin 6) : Ord 1 (X i : MvPolynomial (Fin 6) K) := by
  have : (X i : MvPolynomial (Fin 6) K) = monomial (Finsupp.single i 1) 1 := rfl
  rw [this]
  exact ord_monomial _ _ _ (by rw [Finsupp.degree_single])

/-- the Lie series of a generator of order `≥ 3` does not lower the order -/
theorem Ord.lieSum {k : ℕ} {G f : MvPolynomial (Fin 6) K} (hG : Ord 3 G) (hf : Ord k f) (Kc : ℕ) : Ord k (lieSum Kc G f) := by
  unfold LieSeries.lieSum
  exact Ord.sum _ _ fun n _ => ((Ord.of_ad_iterate hG hf n).smul _).mono (Nat.le_add_right k n)

/-! ### the coordinate map of one generator -/

/-- `Φ_g j = lieSeries(x_j)`: the image of the `j`-th coordinate under the model's truncated Lie series of `g` (`Kc` brackets) -/
noncomputable def coordMap (tiny : K → Bool) (N Kc : ℕ) (g : Poly K) : Fin 6 → MvPolynomial (Fin 6) K :=
  fun j => toMv (lieSeries tiny N Kc g (coordPoly j))

/-- **the transformed coordinates have no constant term**: `Φ_g j = x_j + (order ≥ 2)`, in particular order `≥ 1` -/
theorem coordMap_ord {tiny : K → Bool} (htiny : ∀ c, tiny c = true → c = 0) (N Kc : ℕ) (g : Poly K)
    (hG : ∀ v ∈ g, 3 ≤ v.1.deg) (j : Fin 6) : Ord 1 (coordMap tiny N Kc g j) := by
  have h := toMv_lieSeries_cong htiny N Kc g (coordPoly j) hG
  rw [toMv_coordPoly] at h
  exact Ord.of_cong h (Ord.lieSum (ord_toMv 3 g hG) (ord_X j) Kc) (by omega)

/-! ### the iterated transform and the composed coordinate map -/

/-- the loop on a polynomial: apply the truncated Lie series of the generators in list order (head first) -/
def iterSeries (tiny : K → Bool) (N : ℕ) (gs : List (ℕ × Poly K)) (H0 : Poly K) : Poly K :=
  gs.foldl (fun H kg => lieSeries tiny N kg.1 kg.2 H) H0

/-- the composed coordinate map: `Ψ_[] i = x_i`, `Ψ_(gs ++ [g]) i = aeval Φ_g (Ψ_gs i)` -/
noncomputable def compMap (tiny : K → Bool) (N : ℕ) (gs : List (ℕ × Poly K)) : Fin 6 → MvPolynomial (Fin 6) K :=
  gs.foldl (fun Ψ kg => fun i => MvPolynomial.aeval (coordMap tiny N kg.1 kg.2) (Ψ i)) X

@[simp] theorem iterSeries_nil (tiny : K → Bool) (N : ℕ) (H0 : Poly K) : iterSeries tiny N [] H0 = H0 := rfl

theorem iterSeries_snoc (tiny : K → Bool) (N : ℕ) (gs : List (ℕ × Poly K)) (kg : ℕ × Poly K) (H0 : Poly K) :
    iterSeries tiny N (gs ++ [kg]) H0 = lieSeries tiny N kg.1 kg.2 (iterSeries tiny N gs H0) := by
  simp [iterSeries, List.foldl_append]

theorem iterSeries_cons (tiny : K → Bool) (N : ℕ) (gs : List (ℕ × Poly K)) (kg : ℕ × Poly K) (H0 : Poly K) :
    iterSeries tiny N (kg :: gs) H0 = iterSeries tiny N gs (lieSeries tiny N kg.1 kg.2 H0) := rfl

theorem iterSeries_append (tiny : K → Bool) (N : ℕ) (gs hs : List (ℕ × Poly K)) (H0 : Poly K) :
    iterSeries tiny N (gs ++ hs) H0 = iterSeries tiny N hs (iterSeries tiny N gs H0) := by
  simp [iterSeries, List.foldl_append]

@[simp] theorem compMap_nil (tiny : K → Bool) (N : ℕ) : compMap tiny N [] = (X : Fin 6 → MvPolynomial (Fin 6) K) := rfl

theorem compMap_snoc (tiny : K → Bool) (N : ℕ) (gs : List (ℕ × Poly K)) (kg : ℕ × Poly K) (i : Fin 6) :
    compMap tiny N (gs ++ [kg]) i = MvPolynomial.aeval (coordMap tiny N kg.1 kg.2) (compMap tiny N gs i) := by
  simp [compMap, List.foldl_append]

/-- the composed map has no constant term either -/
theorem compMap_ord {tiny : K → Bool} (htiny : ∀ c, tiny c = true → c = 0) (N : ℕ) (gs : List (ℕ × Poly K))
    (hG : ∀ kg ∈ gs, ∀ v ∈ kg.2, 3 ≤ v.1.deg) (i : Fin 6) : Ord 1 (compMap tiny N gs i) := by
  induction gs using List.reverseRecOn with
  | nil => exact ord_X i
  | append_singleton gs kg ih =>
    rw [compMap_snoc]
    exact Ord.aeval (coordMap_ord htiny N kg.1 kg.2 (hG kg (by simp))) (ih fun kg' h => hG kg' (by simp [h]))

/-- the bracket with the zero generator vanishes -/
theorem ad_zero_gen (f : MvPolynomial (Fin 6) K) : ad (0 : MvPolynomial (Fin 6) K) f = 0 := by
  rw [ad_apply]; simp [HitenModel.C08.PB]

/-- the Lie series of the zero generator is the identity, for every bracket count -/
theorem lieSum_zero_gen (Kc : ℕ) (f : MvPolynomial (Fin 6) K) : lieSum Kc 0 f = f := by
  unfold LieSeries.lieSum
  rw [Finset.sum_range_succ']
  have : ∀ n, (ad (0 : MvPolynomial (Fin 6) K))^[n + 1] f = 0 := by
    intro n
    rw [Function.iterate_succ_apply, ad_zero_gen]
    induction n with
    | zero => rfl
    | succ n ih => rw [Function.iterate_succ_apply', ih, map_zero]
  simp [this]

/-- one step, in the form used for the iteration: at least `N` brackets, OR a generator that denotes the zero polynomial (then every
bracket count gives the identity modulo cleaning) -/
theorem step_is_composition {tiny : K → Bool} (htiny : ∀ c, tiny c = true → c = 0) (N Kc : ℕ) (G H : Poly K)
    (hG : ∀ v ∈ G, 3 ≤ v.1.deg) (hK : N ≤ Kc ∨ toMv G = 0) :
    Cong N (toMv (lieSeries tiny N Kc G H)) (MvPolynomial.aeval (coordMap tiny N Kc G) (toMv H)) := by
  rcases hK with hK | h0
  · exact model_lie_series_is_composition htiny N Kc hK G H hG
  · have h1 := toMv_lieSeries_cong htiny N Kc G H hG
    rw [h0, lieSum_zero_gen] at h1
    have h3 : ∀ j, Cong N (coordMap tiny N Kc G j) (X j) := by
      intro j
      have := toMv_lieSeries_cong htiny N Kc G (coordPoly j) hG
      rwa [toMv_coordPoly, h0, lieSum_zero_gen] at this
    have h4 := aeval_cong h3 (toMv H)
    rw [MvPolynomial.aeval_X_left_apply] at h4
    exact h1.trans h4.symm

/-- **iterated_lie_series_is_composition** (general form): for any list of generators without terms of degree `< 3`, each applied with at
least `N` brackets (or denoting zero), exact cleaning: the result of the whole loop agrees modulo degree `> N` with the ORIGINAL
polynomial composed with the composed coordinate map, `H_s ≡ H_0 ∘ Ψ_gs`. -/
theorem iterated_lie_series_is_composition_gen {tiny : K → Bool} (htiny : ∀ c, tiny c = true → c = 0) (N : ℕ)
    (gs : List (ℕ × Poly K)) (hK : ∀ kg ∈ gs, N ≤ kg.1 ∨ toMv kg.2 = 0) (hG : ∀ kg ∈ gs, ∀ v ∈ kg.2, 3 ≤ v.1.deg) (H0 : Poly K) :
    Cong N (toMv (iterSeries tiny N gs H0)) (MvPolynomial.aeval (compMap tiny N gs) (toMv H0)) := by
  induction gs using List.reverseRecOn with
  | nil => rw [iterSeries_nil, compMap_nil, MvPolynomial.aeval_X_left_apply]; exact Cong.refl N _
  | append_singleton gs kg ih =>
    have ih' := ih (fun kg' h => hK kg' (by simp [h])) (fun kg' h => hG kg' (by simp [h]))
    have hg := hG kg (by simp)
    have h1 := step_is_composition htiny N kg.1 kg.2 (iterSeries tiny N gs H0) hg (hK kg (by simp))
    have h2 := Cong.aeval (coordMap_ord htiny N kg.1 kg.2 hg) ih'
    rw [MvPolynomial.comp_aeval_apply] at h2
    rw [iterSeries_snoc]
    have e : (fun i => MvPolynomial.aeval (coordMap tiny N kg.1 kg.2) (compMap tiny N gs i)) = compMap tiny N (gs ++ [kg]) := by
      funext i; rw [compMap_snoc]
    rw [e] at h2
    exact h1.trans h2

/-- **iterated_lie_series_is_composition**: every generator applied with at least `N` brackets -/
theorem iterated_lie_series_is_composition {tiny : K → Bool} (htiny : ∀ c, tiny c = true → c = 0) (N : ℕ)
    (gs : List (ℕ × Poly K)) (hK : ∀ kg ∈ gs, N ≤ kg.1) (hG : ∀ kg ∈ gs, ∀ v ∈ kg.2, 3 ≤ v.1.deg) (H0 : Poly K) :
    Cong N (toMv (iterSeries tiny N gs H0)) (MvPolynomial.aeval (compMap tiny N gs) (toMv H0)) :=
  iterated_lie_series_is_composition_gen htiny N gs (fun kg h => Or.inl (hK kg h)) hG H0

/-- coefficient form -/
theorem iterated_lie_series_is_composition_coeff {tiny : K → Bool} (htiny : ∀ c, tiny c = true → c = 0) (N : ℕ)
    (gs : List (ℕ × Poly K)) (hK : ∀ kg ∈ gs, N ≤ kg.1) (hG : ∀ kg ∈ gs, ∀ v ∈ kg.2, 3 ≤ v.1.deg) (H0 : Poly K)
    (m : Mono) (hm : m.deg ≤ N) :
    coeff (iterSeries tiny N gs H0) m =
      MvPolynomial.coeff m.toFinsupp (MvPolynomial.aeval (compMap tiny N gs) (toMv H0)) := by
  rw [← coeff_toMv]
  exact (iterated_lie_series_is_composition htiny N gs hK hG H0).coeff_eq _ (by rw [toFinsupp_degree]; exact hm)

/-! ### the coordinate side: `_lie_expansion` builds the SAME composed map -/

/-- the loop on a list of coordinate polynomials (`_lie_expansion`: `coords := coords.map (lieSeries g)` for each generator in turn) -/
def iterCoords (tiny : K → Bool) (N : ℕ) (gs : List (ℕ × Poly K)) (cs : List (Poly K)) : List (Poly K) :=
  gs.foldl (fun cs kg => cs.map (lieSeries tiny N kg.1 kg.2)) cs

/-- the list loop acts on every entry separately -/
theorem iterCoords_eq_map (tiny : K → Bool) (N : ℕ) : ∀ (gs : List (ℕ × Poly K)) (cs : List (Poly K)),
    iterCoords tiny N gs cs = cs.map (iterSeries tiny N gs)
  | [], cs => by
    show cs = cs.map (fun H0 => H0)
    simp
  | kg :: gs, cs => by
    show iterCoords tiny N gs (cs.map (lieSeries tiny N kg.1 kg.2)) = _
    rw [iterCoords_eq_map tiny N gs, List.map_map]
    rfl

/-- **the coordinates built by the same loop are the composed map**: starting from `x_i`, applying the generators in list order gives
`Ψ_gs i` modulo degree `> N` — the very map `Ψ_gs` with `H_s ≡ H_0 ∘ Ψ_gs` (`iterated_lie_series_is_composition`). -/
theorem iterated_coords_cong {tiny : K → Bool} (htiny : ∀ c, tiny c = true → c = 0) (N : ℕ)
    (gs : List (ℕ × Poly K)) (hK : ∀ kg ∈ gs, N ≤ kg.1 ∨ toMv kg.2 = 0) (hG : ∀ kg ∈ gs, ∀ v ∈ kg.2, 3 ≤ v.1.deg) (i : Fin 6) :
    Cong N (toMv (iterSeries tiny N gs (coordPoly i))) (compMap tiny N gs i) := by
  have := iterated_lie_series_is_composition_gen htiny N gs hK hG (coordPoly i)
  rwa [toMv_coordPoly, MvPolynomial.aeval_X] at this

/-- the identity coordinates of the model are the six coordinate polynomials -/
theorem idCoords_eq : (idCoords : List (Poly K)) = [coordPoly 0, coordPoly 1, coordPoly 2, coordPoly 3, coordPoly 4, coordPoly 5] := rfl

/-- the generators `_lie_expansion` applies, in the order it applies them, with the bracket counts of `_apply_coord_transform`:
forward `n = 3, …, N`, inverse `n = N, …, 3`; `G_n = sign · block n Gtot`, skipped when the block is empty -/
def expansionGens (N : ℕ) (Gtot : Poly K) (inverse : Bool) (sign : K) : List (ℕ × Poly K) :=
  (if inverse then (List.range' 3 (N - 2)).reverse else List.range' 3 (N - 2)).filterMap fun n =>
    if (normalize (block n Gtot)).isEmpty then none
    else some (Kcoord N (totalDeg (scale sign (normalize (block n Gtot)))), scale sign (normalize (block n Gtot)))

theorem lieExpansion_fold (tiny : K → Bool) (N : ℕ) (Gtot : Poly K) (sign : K) : ∀ (order : List ℕ) (cs : List (Poly K)),
    order.foldl (fun coords n =>
        if (normalize (block n Gtot)).isEmpty then coords
        else coords.map (applyCoord tiny N (scale sign (normalize (block n Gtot))))) cs =
      iterCoords tiny N (order.filterMap fun n =>
        if (normalize (block n Gtot)).isEmpty then none
        else some (Kcoord N (totalDeg (scale sign (normalize (block n Gtot)))), scale sign (normalize (block n Gtot)))) cs
  | [], cs => rfl
  | n :: order, cs => by
    rw [List.foldl_cons, List.filterMap_cons]
    by_cases h : (normalize (block n Gtot)).isEmpty = true
    · simp only [h, if_true]
      exact lieExpansion_fold tiny N Gtot sign order cs
    · simp only [h, Bool.false_eq_true, if_false]
      exact lieExpansion_fold tiny N Gtot sign order _

/-- **`_lie_expansion` (unrestricted) is the coordinate loop over `expansionGens`** — an identity of term lists -/
theorem lieExpansion_eq_iterCoords (tiny : K → Bool) (N : ℕ) (Gtot : Poly K) (inverse : Bool) (sign : K) :
    lieExpansion tiny N Gtot inverse sign false = iterCoords tiny N (expansionGens N Gtot inverse sign) idCoords := by
  unfold lieExpansion expansionGens
  simp only [Bool.false_eq_true, if_false]
  exact lieExpansion_fold tiny N Gtot sign _ _

theorem le_foldl_max (l : Poly K) : ∀ acc : ℕ, acc ≤ l.foldl (fun d t => max d t.1.deg) acc ∧
    ∀ t ∈ l, t.1.deg ≤ l.foldl (fun d t => max d t.1.deg) acc := by
  induction l with
  | nil => intro acc; exact ⟨le_refl _, fun t ht => by simp at ht⟩
  | cons a l ih =>
    intro acc
    rw [List.foldl_cons]
    obtain ⟨h1, h2⟩ := ih (max acc a.1.deg)
    refine ⟨le_trans (Nat.le_max_left _ _) h1, fun t ht => ?_⟩
    rcases List.mem_cons.mp ht with rfl | h
    · exact le_trans (Nat.le_max_right _ _) h1
    · exact h2 t h

/-- every generator of the expansion is `sign · block n Gtot` for a degree `3 ≤ n ≤ N`, with the bracket count of the code -/
theorem expansionGens_spec {N : ℕ} {Gtot : Poly K} {inverse : Bool} {sign : K} {kg : ℕ × Poly K}
    (h : kg ∈ expansionGens N Gtot inverse sign) :
    ∃ n, 3 ≤ n ∧ n ≤ N ∧ kg = (Kcoord N (totalDeg (scale sign (normalize (block n Gtot)))), scale sign (normalize (block n Gtot))) := by
  unfold expansionGens at h
  obtain ⟨n, hn, hf⟩ := List.mem_filterMap.mp h
  have hr : n ∈ List.range' 3 (N - 2) := by
    cases inverse
    · simpa using hn
    · simpa using hn
  have hr' := List.mem_range'_1.mp hr
  refine ⟨n, hr'.1, by omega, ?_⟩
  by_cases he : (normalize (block n Gtot)).isEmpty = true
  · rw [if_pos he] at hf; exact absurd hf (by simp)
  · rw [if_neg he] at hf; exact (Option.some.inj hf).symm

theorem scale_block_deg {n : ℕ} {Gtot : Poly K} {sign : K} {v : Mono × K} (hv : v ∈ scale sign (normalize (block n Gtot))) :
    v.1.deg = n := by
  obtain ⟨u, hu, e⟩ := mem_scale hv
  obtain ⟨w, hw, e2⟩ := mem_normalize hu
  simp only [block, List.mem_filter, decide_eq_true_eq] at hw
  rw [← e, ← e2]; exact hw.2

theorem expansionGens_deg {N : ℕ} {Gtot : Poly K} {inverse : Bool} {sign : K} :
    ∀ kg ∈ expansionGens N Gtot inverse sign, ∀ v ∈ kg.2, 3 ≤ v.1.deg := by
  intro kg h v hv
  obtain ⟨n, h3, _, rfl⟩ := expansionGens_spec h
  rw [scale_block_deg hv]; exact h3

/-- the bracket count of `_apply_coord_transform` is `≥ N` unless the scaled block denotes zero (then the count is irrelevant) -/
theorem Kcoord_ok (N : ℕ) {n : ℕ} (h3 : 3 ≤ n) (Gtot : Poly K) (sign : K) :
    N ≤ Kcoord N (totalDeg (scale sign (normalize (block n Gtot)))) ∨ toMv (scale sign (normalize (block n Gtot))) = 0 := by
  by_cases he : (normalize (scale sign (normalize (block n Gtot)))).isEmpty = true
  · right
    have : toMv (scale sign (normalize (block n Gtot))) = toMv ([] : Poly K) :=
      toMv_ext fun m => by rw [coeff_of_normalize_isEmpty he m]; rfl
    rw [this, toMv_nil]
  · left
    obtain ⟨t, ht⟩ : ∃ t, t ∈ normalize (scale sign (normalize (block n Gtot))) := by
      cases hl : normalize (scale sign (normalize (block n Gtot))) with
      | nil => rw [hl] at he; exact absurd rfl he
      | cons t r => exact ⟨t, List.mem_cons_self⟩
    obtain ⟨u, hu, e⟩ := mem_normalize ht
    have hd : t.1.deg = n := by rw [← e]; exact scale_block_deg hu
    have hge : 3 ≤ totalDeg (scale sign (normalize (block n Gtot))) := by
      unfold totalDeg
      have := (le_foldl_max (normalize (scale sign (normalize (block n Gtot)))) 0).2 t ht
      omega
    unfold Kcoord
    rw [if_pos (by omega)]
    exact Nat.le_max_left _ _

theorem expansionGens_K {N : ℕ} {Gtot : Poly K} {inverse : Bool} {sign : K} :
    ∀ kg ∈ expansionGens N Gtot inverse sign, N ≤ kg.1 ∨ toMv kg.2 = 0 := by
  intro kg h
  obtain ⟨n, h3, _, rfl⟩ := expansionGens_spec h
  exact Kcoord_ok N h3 Gtot sign

/-- **lie_expansion_is_composed_map**: the `i`-th polynomial returned by `_lie_expansion` (unrestricted) is, modulo degree `> N`, the
composed coordinate map `Ψ` of its generator list `expansionGens` — no hypothesis beyond exact cleaning. -/
theorem lieExpansion_cong {tiny : K → Bool} (htiny : ∀ c, tiny c = true → c = 0) (N : ℕ) (Gtot : Poly K) (inverse : Bool) (sign : K)
    (i : Fin 6) :
    ∃ p, (lieExpansion tiny N Gtot inverse sign false)[i.val]? = some p ∧
      Cong N (toMv p) (compMap tiny N (expansionGens N Gtot inverse sign) i) := by
  refine ⟨iterSeries tiny N (expansionGens N Gtot inverse sign) (coordPoly i), ?_,
    iterated_coords_cong htiny N _ expansionGens_K expansionGens_deg i⟩
  rw [lieExpansion_eq_iterCoords, iterCoords_eq_map, idCoords_eq]
  fin_cases i <;> rfl

/-! ### the loop of `_lie_transform` is such an iteration -/

/-- the generator computed by pass `n` on the state `s` (`none`: the pass leaves the state unchanged) -/
def stepGen (c : Cfg K) (s : LState K) (n : ℕ) : Option (Poly K) :=
  if (normalize (block n s.trans)).isEmpty then none
  else if (select c.sel (normalize (block n s.trans))).isEmpty then none
  else some (clean c.tiny (solve c.small c.e1 c.e2 c.e3 (select c.sel (normalize (block n s.trans)))))

/-- … as a generator list (empty or one entry, with the bracket count of `_apply_poly_transform`) -/
def stepGens (c : Cfg K) (s : LState K) (n : ℕ) : List (ℕ × Poly K) :=
  match stepGen c s n with
  | none => []
  | some g => [(Kpoly c.N n, g)]

/-- the generators of the passes `n = 3, …, 2 + cnt`, in loop order -/
def loopGens (c : Cfg K) (s : LState K) : ℕ → List (ℕ × Poly K)
  | 0 => []
  | cnt + 1 => loopGens c s cnt ++ stepGens c (lieLoop c s cnt) (3 + cnt)

theorem lieStep_trans_G (c : Cfg K) (s : LState K) (n : ℕ) :
    (lieStep c s n).trans = iterSeries c.tiny c.N (stepGens c s n) s.trans ∧
    (lieStep c s n).G = s.G ++ ((stepGens c s n).map Prod.snd).flatten := by
  by_cases h1 : (normalize (block n s.trans)).isEmpty = true
  · have e : lieStep c s n = s := by simp only [lieStep, h1, ↓reduceIte]
    have e2 : stepGens c s n = [] := by simp only [stepGens, stepGen, h1, ↓reduceIte]
    rw [e, e2]; simp
  by_cases h2 : (select c.sel (normalize (block n s.trans))).isEmpty = true
  · have e : lieStep c s n = s := by simp only [lieStep, h1, h2, ↓reduceIte, Bool.false_eq_true]
    have e2 : stepGens c s n = [] := by simp only [stepGens, stepGen, h1, h2, ↓reduceIte, Bool.false_eq_true]
    rw [e, e2]; simp
  · have e2 : stepGens c s n = [(Kpoly c.N n,
        clean c.tiny (solve c.small c.e1 c.e2 c.e3 (select c.sel (normalize (block n s.trans)))))] := by
      simp only [stepGens, stepGen, h1, h2, ↓reduceIte, Bool.false_eq_true]
    rw [e2]
    constructor
    · simp only [lieStep, h1, h2, ↓reduceIte, Bool.false_eq_true]; rfl
    · simp only [lieStep, h1, h2, ↓reduceIte, Bool.false_eq_true]; simp

/-- **the loop of `_lie_transform` is the iterated Lie series of its generators**, and the accumulated generator `G` is their
concatenation — identities of term lists -/
theorem lieLoop_trans_G (c : Cfg K) (s : LState K) : ∀ cnt : ℕ,
    (lieLoop c s cnt).trans = iterSeries c.tiny c.N (loopGens c s cnt) s.trans ∧
    (lieLoop c s cnt).G = s.G ++ ((loopGens c s cnt).map Prod.snd).flatten
  | 0 => by simp [lieLoop, loopGens]
  | cnt + 1 => by
    obtain ⟨h1, h2⟩ := lieLoop_trans_G c s cnt
    obtain ⟨h3, h4⟩ := lieStep_trans_G c (lieLoop c s cnt) (3 + cnt)
    rw [lieLoop_succ]
    constructor
    · rw [h3, h1]; show _ = iterSeries c.tiny c.N (loopGens c s cnt ++ _) s.trans; rw [iterSeries_append]
    · rw [h4, h2]; show _ = s.G ++ ((loopGens c s cnt ++ _).map Prod.snd).flatten
      rw [List.map_append, List.flatten_append, List.append_assoc]

theorem stepGens_spec {c : Cfg K} {s : LState K} {n : ℕ} {kg : ℕ × Poly K} (h : kg ∈ stepGens c s n) :
    kg.1 = Kpoly c.N n ∧ ∀ v ∈ kg.2, v.1.deg = n := by
  unfold stepGens at h
  cases hg : stepGen c s n with
  | none => rw [hg] at h; simp at h
  | some g =>
    rw [hg] at h
    simp only [List.mem_singleton] at h
    subst h
    refine ⟨rfl, ?_⟩
    unfold stepGen at hg
    by_cases h1 : (normalize (block n s.trans)).isEmpty = true
    · rw [if_pos h1] at hg; exact absurd hg (by simp)
    rw [if_neg h1] at hg
    by_cases h2 : (select c.sel (normalize (block n s.trans))).isEmpty = true
    · rw [if_pos h2] at hg; exact absurd hg (by simp)
    rw [if_neg h2] at hg
    rw [← Option.some.inj hg]
    exact gen_homogeneous

/-- every generator of the loop is homogeneous of its pass degree `n`, `3 ≤ n ≤ 2 + cnt`, applied with `Kpoly N n` brackets -/
theorem loopGens_spec {c : Cfg K} {s : LState K} : ∀ {cnt : ℕ} {kg : ℕ × Poly K}, kg ∈ loopGens c s cnt →
    ∃ n, 3 ≤ n ∧ n < 3 + cnt ∧ kg.1 = Kpoly c.N n ∧ ∀ v ∈ kg.2, v.1.deg = n
  | 0, kg, h => by simp [loopGens] at h
  | cnt + 1, kg, h => by
    rw [loopGens, List.mem_append] at h
    rcases h with h | h
    · obtain ⟨n, h3, hlt, hk, hd⟩ := loopGens_spec h
      exact ⟨n, h3, by omega, hk, hd⟩
    · obtain ⟨hk, hd⟩ := stepGens_spec h
      exact ⟨3 + cnt, by omega, by omega, hk, hd⟩

theorem Kpoly_ge {N n : ℕ} (hn : 3 ≤ n) : N ≤ Kpoly N n := by
  unfold Kpoly
  rw [if_pos (by omega)]
  exact Nat.le_max_left _ _

/-- **lieLoop_is_composition**: after any number of passes of the loop of `_lie_transform` (any start state, any configuration with
exact cleaning), the current Hamiltonian agrees modulo degree `> N` with the START Hamiltonian composed with the composed coordinate map
of the generators produced so far. -/
theorem lieLoop_is_composition (c : Cfg K) (htiny : ∀ x, c.tiny x = true → x = 0) (s : LState K) (cnt : ℕ) :
    Cong c.N (toMv (lieLoop c s cnt).trans)
      (MvPolynomial.aeval (compMap c.tiny c.N (loopGens c s cnt)) (toMv s.trans)) := by
  rw [(lieLoop_trans_G c s cnt).1]
  refine iterated_lie_series_is_composition htiny c.N _ (fun kg h => ?_) (fun kg h v hv => ?_) s.trans
  · obtain ⟨n, h3, _, hk, _⟩ := loopGens_spec h
    rw [hk]; exact Kpoly_ge h3
  · obtain ⟨n, h3, _, _, hd⟩ := loopGens_spec h
    rw [hd v hv]; exact h3

/-! ### the expansion of the accumulated generator is the composed map of the loop

`_lie_transform` returns the concatenation `G` of its homogeneous generators; `_lie_expansion` recovers `G_n = block n G`.  Both composed
maps are compared with a canonical one that only depends on the polynomials denoted by the generators of the degrees `n` in the order
list (`psiFn`: `lieSum N (Gf n) x_j` in place of the model's series). -/

/-- canonical composed map of a degree-indexed family of generators, applied in the order of the list -/
noncomputable def psiFn (N : ℕ) (Gf : ℕ → MvPolynomial (Fin 6) K) (order : List ℕ) : Fin 6 → MvPolynomial (Fin 6) K :=
  order.foldl (fun Ψ n => fun i => MvPolynomial.aeval (fun j => lieSum N (Gf n) (X j)) (Ψ i)) X

theorem psiFn_nil (N : ℕ) (Gf : ℕ → MvPolynomial (Fin 6) K) : psiFn N Gf [] = X := rfl

theorem psiFn_snoc (N : ℕ) (Gf : ℕ → MvPolynomial (Fin 6) K) (order : List ℕ) (n : ℕ) (i : Fin 6) :
    psiFn N Gf (order ++ [n]) i = MvPolynomial.aeval (fun j => lieSum N (Gf n) (X j)) (psiFn N Gf order i) := by
  simp [psiFn, List.foldl_append]

theorem psiFn_snoc_zero (N : ℕ) {Gf : ℕ → MvPolynomial (Fin 6) K} (order : List ℕ) {n : ℕ} (h : Gf n = 0) :
    psiFn N Gf (order ++ [n]) = psiFn N Gf order := by
  funext i
  rw [psiFn_snoc, h]
  simp only [lieSum_zero_gen]
  exact MvPolynomial.aeval_X_left_apply _

theorem psiFn_congr (N : ℕ) {Gf Gf' : ℕ → MvPolynomial (Fin 6) K} (order : List ℕ) (h : ∀ n ∈ order, Gf n = Gf' n) :
    psiFn N Gf order = psiFn N Gf' order := by
  induction order using List.reverseRecOn with
  | nil => rw [psiFn_nil, psiFn_nil]
  | append_singleton order n ih =>
    have h1 := h n (by simp)
    have h2 := ih fun k hk => h k (by simp [hk])
    funext i
    rw [psiFn_snoc, psiFn_snoc, h1, h2]

/-- brackets beyond the `N`-th do not matter modulo degree `> N` -/
theorem lieSum_cong_trunc {N Kc : ℕ} (hK : N ≤ Kc) {G : MvPolynomial (Fin 6) K} (hG : Ord 3 G) (f : MvPolynomial (Fin 6) K) :
    Cong N (lieSum Kc G f) (lieSum N G f) := by
  obtain ⟨d, rfl⟩ := Nat.exists_eq_add_of_le hK
  clear hK
  induction d with
  | zero => exact Cong.refl N _
  | succ d ih =>
    have e : lieSum (N + (d + 1)) G f = lieSum (N + d) G f + term G f (N + (d + 1)) := by
      show (∑ n ∈ range ((N + d + 1) + 1), _) = _
      rw [Finset.sum_range_succ]; rfl
    have ht : Cong N (term G f (N + (d + 1))) 0 := by
      unfold Cong
      rw [sub_zero]
      exact (term_ord hG _).mono (by omega)
    have := ih.add ht
    rwa [← e, add_zero] at this

/-- the coordinate map of the model is the canonical one modulo degree `> N` -/
theorem coordMap_cong_lieSum {tiny : K → Bool} (htiny : ∀ c, tiny c = true → c = 0) (N Kc : ℕ) (g : Poly K)
    (hG : ∀ v ∈ g, 3 ≤ v.1.deg) (hK : N ≤ Kc ∨ toMv g = 0) (j : Fin 6) :
    Cong N (coordMap tiny N Kc g j) (lieSum N (toMv g) (X j)) := by
  have h : Cong N (coordMap tiny N Kc g j) (lieSum Kc (toMv g) (toMv (coordPoly j))) :=
    toMv_lieSeries_cong htiny N Kc g (coordPoly j) hG
  rw [toMv_coordPoly] at h
  rcases hK with hK | h0
  · exact h.trans (lieSum_cong_trunc hK (ord_toMv 3 g hG) _)
  · rw [h0, lieSum_zero_gen] at h
    rw [h0, lieSum_zero_gen]; exact h

theorem snoc_cong {tiny : K → Bool} (htiny : ∀ c, tiny c = true → c = 0) (N Kc : ℕ) (g : Poly K)
    (hG : ∀ v ∈ g, 3 ≤ v.1.deg) (hK : N ≤ Kc ∨ toMv g = 0) {Ψ Ψ' : Fin 6 → MvPolynomial (Fin 6) K}
    (h : ∀ i, Cong N (Ψ i) (Ψ' i)) (i : Fin 6) :
    Cong N (MvPolynomial.aeval (coordMap tiny N Kc g) (Ψ i))
      (MvPolynomial.aeval (fun j => lieSum N (toMv g) (X j)) (Ψ' i)) :=
  (Cong.aeval (coordMap_ord htiny N Kc g hG) (h i)).trans (aeval_cong (coordMap_cong_lieSum htiny N Kc g hG hK) (Ψ' i))

/-- the polynomial denoted by the generator of pass `n` of the loop started at `s` (`0` when the pass is skipped) -/
noncomputable def loopGenFn (c : Cfg K) (s : LState K) (n : ℕ) : MvPolynomial (Fin 6) K :=
  match stepGen c (lieLoop c s (n - 3)) n with
  | none => 0
  | some g => toMv g

theorem loopGens_cong (c : Cfg K) (htiny : ∀ x, c.tiny x = true → x = 0) (s : LState K) : ∀ (cnt : ℕ) (i : Fin 6),
    Cong c.N (compMap c.tiny c.N (loopGens c s cnt) i) (psiFn c.N (loopGenFn c s) (List.range' 3 cnt) i)
  | 0, i => Cong.refl _ _
  | cnt + 1, i => by
    have ih := loopGens_cong c htiny s cnt
    rw [List.range'_1_concat]
    show Cong _ (compMap _ _ (loopGens c s cnt ++ stepGens c (lieLoop c s cnt) (3 + cnt)) i) _
    have hsub : 3 + cnt - 3 = cnt := by omega
    cases hg : stepGen c (lieLoop c s cnt) (3 + cnt) with
    | none =>
      have e1 : stepGens c (lieLoop c s cnt) (3 + cnt) = [] := by simp only [stepGens, hg]
      have e2 : loopGenFn c s (3 + cnt) = 0 := by simp only [loopGenFn, hsub, hg]
      rw [e1, List.append_nil, psiFn_snoc_zero _ _ e2]; exact ih i
    | some g =>
      have e1 : stepGens c (lieLoop c s cnt) (3 + cnt) = [(Kpoly c.N (3 + cnt), g)] := by simp only [stepGens, hg]
      have e2 : loopGenFn c s (3 + cnt) = toMv g := by simp only [loopGenFn, hsub, hg]
      have hd := (stepGens_spec (c := c) (s := lieLoop c s cnt) (n := 3 + cnt) (kg := (Kpoly c.N (3 + cnt), g))
        (by rw [e1]; exact List.mem_singleton.mpr rfl)).2
      rw [e1, compMap_snoc, psiFn_snoc, e2]
      exact snoc_cong htiny c.N _ g (fun v hv => by rw [hd v hv]; omega) (Or.inl (Kpoly_ge (by omega))) ih i

/-- the polynomial denoted by the generator `_lie_expansion` uses for degree `n` -/
noncomputable def expGenFn (Gtot : Poly K) (sign : K) (n : ℕ) : MvPolynomial (Fin 6) K :=
  toMv (scale sign (normalize (block n Gtot)))

theorem expansion_fold_cong {tiny : K → Bool} (htiny : ∀ c, tiny c = true → c = 0) (N : ℕ) (Gtot : Poly K) (sign : K)
    (order : List ℕ) (h3 : ∀ n ∈ order, 3 ≤ n) (i : Fin 6) :
    Cong N (compMap tiny N (order.filterMap fun n =>
        if (normalize (block n Gtot)).isEmpty then none
        else some (Kcoord N (totalDeg (scale sign (normalize (block n Gtot)))), scale sign (normalize (block n Gtot)))) i)
      (psiFn N (expGenFn Gtot sign) order i) := by
  induction order using List.reverseRecOn generalizing i with
  | nil => exact Cong.refl _ _
  | append_singleton order n ih =>
    have ih' := ih (fun k hk => h3 k (by simp [hk]))
    rw [List.filterMap_append]
    by_cases he : (normalize (block n Gtot)).isEmpty = true
    · have e2 : expGenFn Gtot sign n = 0 := by
        unfold expGenFn
        rw [List.isEmpty_iff.mp he]; rfl
      rw [psiFn_snoc_zero _ _ e2]
      simp only [List.filterMap_cons, he, if_true, List.filterMap_nil, List.append_nil]
      exact ih' i
    · simp only [List.filterMap_cons, he, Bool.false_eq_true, if_false, List.filterMap_nil]
      rw [compMap_snoc, psiFn_snoc]
      exact snoc_cong htiny N _ _ (fun v hv => by rw [scale_block_deg hv]; exact h3 n (by simp))
        (Kcoord_ok N (h3 n (by simp)) Gtot sign) ih' i

/-- **the composed map of `_lie_expansion` is the canonical one**, forward or inverse order, any sign -/
theorem expansionGens_cong {tiny : K → Bool} (htiny : ∀ c, tiny c = true → c = 0) (N : ℕ) (Gtot : Poly K) (inverse : Bool) (sign : K)
    (i : Fin 6) :
    Cong N (compMap tiny N (expansionGens N Gtot inverse sign) i)
      (psiFn N (expGenFn Gtot sign) (if inverse then (List.range' 3 (N - 2)).reverse else List.range' 3 (N - 2)) i) := by
  unfold expansionGens
  refine expansion_fold_cong htiny N Gtot sign _ (fun n hn => ?_) i
  have hr : n ∈ List.range' 3 (N - 2) := by
    cases inverse
    · simpa using hn
    · simpa using hn
  exact (List.mem_range'_1.mp hr).1

/-- the `i`-th polynomial of the unrestricted expansion, as a function of `i` -/
theorem lieExpansion_getD (tiny : K → Bool) (N : ℕ) (Gtot : Poly K) (inverse : Bool) (sign : K) (i : Fin 6) :
    (lieExpansion tiny N Gtot inverse sign false).getD i.val [] =
      iterSeries tiny N (expansionGens N Gtot inverse sign) (coordPoly i) := by
  rw [lieExpansion_eq_iterCoords, iterCoords_eq_map, idCoords_eq]
  fin_cases i <;> rfl

/-- **which map `_lie_expansion` represents**: with `Φ_n j = exp(ad_{sign · block n Gtot}) x_j` (`lieSum N`), the `i`-th returned polynomial is,
modulo degree `> N`, `psiFn … order i` where `psiFn (order ++ [n]) i = aeval Φ_n (psiFn order i)`; as point maps
`Ψ_[n1,…,nk] = Φ_{n1} ∘ Φ_{n2} ∘ … ∘ Φ_{nk}` (the FIRST generator applied is the OUTERMOST map).  Forward (`order = 3,…,N`): `Φ_3 ∘ … ∘ Φ_N`,
the map with `H_new = H_old ∘ Φ_3 ∘ … ∘ Φ_N`; inverse (`order = N,…,3`) with `sign = -1`: `Φ_N⁻ ∘ … ∘ Φ_3⁻`, `Φ_n⁻ = exp(ad_{-G_n})`. -/
theorem lieExpansion_is_psiFn {tiny : K → Bool} (htiny : ∀ c, tiny c = true → c = 0) (N : ℕ) (Gtot : Poly K) (inverse : Bool)
    (sign : K) (i : Fin 6) :
    Cong N (toMv ((lieExpansion tiny N Gtot inverse sign false).getD i.val []))
      (psiFn N (expGenFn Gtot sign) (if inverse then (List.range' 3 (N - 2)).reverse else List.range' 3 (N - 2)) i) := by
  rw [lieExpansion_getD]
  exact (iterated_coords_cong htiny N _ expansionGens_K expansionGens_deg i).trans (expansionGens_cong htiny N Gtot inverse sign i)

theorem toMv_block_append (n : ℕ) (A B : Poly K) : toMv (block n (A ++ B)) = toMv (block n A) + toMv (block n B) := by
  unfold block
  rw [List.filter_append, toMv_append]

theorem toMv_block_homog {g : Poly K} {d : ℕ} (hd : ∀ v ∈ g, v.1.deg = d) (n : ℕ) :
    toMv (block n g) = if n = d then toMv g else 0 := by
  by_cases h : n = d
  · rw [if_pos h]
    have : block n g = g := by
      unfold block
      exact List.filter_eq_self.mpr fun v hv => by simp [hd v hv, h]
    rw [this]
  · rw [if_neg h]
    have : block n g = [] := by
      unfold block
      exact List.filter_eq_nil_iff.mpr fun v hv => by simp [hd v hv, Ne.symm h]
    rw [this, toMv_nil]

theorem toMv_block_stepGens (c : Cfg K) (s : LState K) (d n : ℕ) :
    toMv (block n ((stepGens c s d).map Prod.snd).flatten) =
      if n = d then (match stepGen c s d with | none => 0 | some g => toMv g) else 0 := by
  cases hg : stepGen c s d with
  | none =>
    have e1 : stepGens c s d = [] := by simp only [stepGens, hg]
    rw [e1]
    simp [block]
  | some g =>
    have e1 : stepGens c s d = [(Kpoly c.N d, g)] := by simp only [stepGens, hg]
    have hd := (stepGens_spec (c := c) (s := s) (n := d) (kg := (Kpoly c.N d, g)) (by rw [e1]; exact List.mem_singleton.mpr rfl)).2
    rw [e1]
    simp only [List.map_cons, List.map_nil, List.flatten_cons, List.flatten_nil, List.append_nil]
    exact toMv_block_homog hd n

/-- the block of degree `n` of the accumulated generator is the generator of pass `n` -/
theorem toMv_block_loopG (c : Cfg K) (s : LState K) : ∀ (cnt n : ℕ),
    toMv (block n (lieLoop c s cnt).G) = toMv (block n s.G) + if 3 ≤ n ∧ n < 3 + cnt then loopGenFn c s n else 0
  | 0, n => by
    have : ¬ (3 ≤ n ∧ n < 3 + 0) := by omega
    rw [if_neg this, add_zero]; rfl
  | cnt + 1, n => by
    rw [lieLoop_succ, (lieStep_trans_G c (lieLoop c s cnt) (3 + cnt)).2, toMv_block_append, toMv_block_loopG c s cnt n,
      toMv_block_stepGens, add_assoc]
    congr 1
    by_cases h : n = 3 + cnt
    · subst h
      have h1 : ¬ (3 ≤ 3 + cnt ∧ 3 + cnt < 3 + cnt) := by omega
      have h2 : 3 ≤ 3 + cnt ∧ 3 + cnt < 3 + (cnt + 1) := by omega
      have hsub : 3 + cnt - 3 = cnt := by omega
      rw [if_neg h1, if_pos h2, if_pos rfl, zero_add]
      simp only [loopGenFn, hsub]
    · rw [if_neg h, add_zero]
      by_cases h1 : 3 ≤ n ∧ n < 3 + cnt
      · rw [if_pos h1, if_pos (by omega)]
      · rw [if_neg h1, if_neg (by omega)]

/-- the generator `_lie_expansion` (sign `+1`) reads off the cleaned accumulated `G` of the loop is the generator of that pass -/
theorem expGenFn_loop (c : Cfg K) (htiny : ∀ x, c.tiny x = true → x = 0) (H : Poly K) (cnt n : ℕ) (h3 : 3 ≤ n) (hn : n < 3 + cnt) :
    expGenFn (clean c.tiny (lieLoop c ⟨H, [], []⟩ cnt).G) 1 n = loopGenFn c ⟨H, [], []⟩ n := by
  have e1 : expGenFn (clean c.tiny (lieLoop c ⟨H, [], []⟩ cnt).G) 1 n = toMv (block n (lieLoop c ⟨H, [], []⟩ cnt).G) := by
    unfold expGenFn
    rw [toMv_scale, map_one, one_mul]
    refine toMv_ext fun m => ?_
    rw [coeff_normalize, coeff_block, coeff_block, coeff_clean htiny]
  rw [e1, toMv_block_loopG, if_pos ⟨h3, hn⟩]
  show toMv (block n []) + _ = _
  simp [block]

/-- **normal_form_maps_agree**: the composed coordinate map of the generators the loop of `_lie_transform` applied to the Hamiltonian
and the composed coordinate map `_lie_expansion` (forward order, sign `+1`) rebuilds from the returned `poly_G_total` agree modulo degree
`> N`. -/
theorem normal_form_maps_agree (c : Cfg K) (htiny : ∀ x, c.tiny x = true → x = 0) (H : Poly K) (i : Fin 6) :
    Cong c.N (compMap c.tiny c.N (expansionGens c.N (lieTransform c H).G false 1) i)
      (compMap c.tiny c.N (loopGens c ⟨H, [], []⟩ (c.N - 2)) i) := by
  have h1 := expansionGens_cong htiny c.N (lieTransform c H).G false 1 i
  simp only [Bool.false_eq_true, if_false] at h1
  have h2 := loopGens_cong c htiny ⟨H, [], []⟩ (c.N - 2) i
  have e : psiFn c.N (expGenFn (lieTransform c H).G 1) (List.range' 3 (c.N - 2)) =
      psiFn c.N (loopGenFn c ⟨H, [], []⟩) (List.range' 3 (c.N - 2)) := by
    refine psiFn_congr _ _ fun n hn => ?_
    have hr := List.mem_range'_1.mp hn
    exact expGenFn_loop c htiny H (c.N - 2) n hr.1 hr.2
  rw [e] at h1
  exact h1.trans h2.symm

/-- **lieTransform_is_composition_with_expansion** — the property sentence on the model of the whole normal-form computation: the
Hamiltonian returned by `_lie_transform` agrees, modulo degree `> N`, with the INPUT Hamiltonian composed with the six coordinate
polynomials `_lie_expansion` (forward, sign `+1`, unrestricted) computes from the returned generator `poly_G_total`. -/
theorem lieTransform_is_composition_with_expansion (c : Cfg K) (htiny : ∀ x, c.tiny x = true → x = 0) (H : Poly K) :
    Cong c.N (toMv (lieTransform c H).trans)
      (MvPolynomial.aeval (fun i : Fin 6 => toMv ((lieExpansion c.tiny c.N (lieTransform c H).G false 1 false).getD i.val []))
        (toMv H)) := by
  have h1 : Cong c.N (toMv (lieTransform c H).trans)
      (MvPolynomial.aeval (compMap c.tiny c.N (loopGens c ⟨H, [], []⟩ (c.N - 2))) (toMv H)) :=
    lieLoop_is_composition c htiny ⟨H, [], []⟩ (c.N - 2)
  refine h1.trans (aeval_cong (fun i => ?_) _)
  rw [lieExpansion_getD]
  exact ((iterated_coords_cong htiny c.N _ expansionGens_K expansionGens_deg i).trans
    (normal_form_maps_agree c htiny H i)).symm

end HitenModel.LieSeries
