/-
  Core/Legendre.lean — exact model of the Legendre-type recurrence used by `_build_T_polynomials`
  (`T_0 = 1, T_1 = x, T_n = (2n−1)/n · x · T_{n−1} − (n−1)/n · ρ² · T_{n−2}`), as polynomials in `x` and `s = ρ² = x²+y²+z²`
  (the recurrence never leaves ℚ[x, s]).  Import-free, evaluated by `decide +kernel`.
-/
namespace HitenModel.Legendre

/-- sparse polynomial in (x, s): list of (power of x, power of s, coefficient); duplicates allowed -/
abbrev P2 := List (Nat × Nat × Rat)

def weight (t : Nat × Nat × Rat) : Nat := t.1 + 2 * t.2.1

def coeff (p : P2) (i j : Nat) : Rat :=
  p.foldl (fun acc t => if t.1 = i ∧ t.2.1 = j then acc + t.2.2 else acc) 0

/-- collect like terms over all exponents of weight ≤ N (keeps the lists short) -/
def normalize (N : Nat) (p : P2) : P2 :=
  (List.range (N + 1)).flatMap fun i =>
    ((List.range (N / 2 + 1)).filter fun j => i + 2 * j ≤ N).filterMap fun j =>
      let c := coeff p i j
      if c = 0 then none else some (i, j, c)

def scale (c : Rat) (p : P2) : P2 := p.map fun t => (t.1, t.2.1, c * t.2.2)
def mulTrunc (N : Nat) (p q : P2) : P2 :=
  normalize N (p.flatMap fun a => q.filterMap fun b =>
    if weight a + weight b ≤ N then some (a.1 + b.1, a.2.1 + b.2.1, a.2.2 * b.2.2) else none)
def add (p q : P2) : P2 := p ++ q

def X : P2 := [(1, 0, 1)]
def S : P2 := [(0, 1, 1)]

/-- `[T_n, T_{n-1}, …, T_0]` for the exact recurrence, truncated at weight N (each T_n is homogeneous of weight n) -/
def Ts (N : Nat) : Nat → List P2
  | 0 => [[(0, 0, 1)]]
  | 1 => [X, [(0, 0, 1)]]
  | n + 2 =>
    match Ts N (n + 1) with
    | t1 :: t0 :: rest =>
        let k : Rat := ((n + 2 : Nat) : Rat)
        let a : Rat := (2 * k - 1) / k
        let b : Rat := (k - 1) / k
        normalize N (add (scale a (mulTrunc N X t1)) (scale (-b) (mulTrunc N S t0))) :: t1 :: t0 :: rest
    | l => l

def sumTs (N : Nat) : P2 := normalize N ((Ts N N).flatMap id)

/-- `1 − 2x + s`  (= |r − e₁|² for r = (x,y,z)) -/
def Q : P2 := [(0, 0, 1), (1, 0, -2), (0, 1, 1)]

/-- the generating identity up to weight N: `(Σ_{n≤N} T_n)² · (1 − 2x + ρ²) ≡ 1` -/
def generatingIdentity (N : Nat) : Bool :=
  let g := sumTs N
  let lhs := mulTrunc N (mulTrunc N g g) Q
  (List.range (N + 1)).all fun i => (List.range (N / 2 + 1)).all fun j =>
    if i + 2 * j ≤ N then decide (coeff lhs i j = if i = 0 ∧ j = 0 then 1 else 0) else true

/-- every T_n is homogeneous of weight n -/
def homogeneous (N : Nat) : Bool :=
  (List.zip (List.range (N + 1)).reverse (Ts N N)).all fun (n, t) => t.all fun m => weight m == n

end HitenModel.Legendre
