/-
  Lemmas/Trees.lean — the enumeration `treesOfOrder` is complete: every plane rooted tree with n nodes is
  listed, so `orderConditions A B p k = true` really is *every* rooted-tree order condition up to order p.
-/
import HitenModel.Core.Dy

namespace HitenModel
open PTree

theorem mem_forests (fuel : Nat) : ∀ f : List PTree, orderL f ≤ fuel → f ∈ forests fuel (orderL f) := by
  induction fuel with
  | zero =>
    intro f hf
    cases f with
    | nil => simp [orderL, forests]
    | cons t r =>
      cases t with
      | node cs => simp only [orderL, order] at hf; omega
  | succ fuel ih =>
    intro f hf
    cases f with
    | nil => simp [orderL, forests]
    | cons t r =>
      cases t with
      | node cs =>
        have hn : orderL (node cs :: r) = (orderL cs + orderL r) + 1 := by
          simp only [orderL, order]; omega
        rw [hn]
        simp only [orderL, order] at hf
        simp only [forests, List.mem_flatMap, List.mem_range, List.mem_map]
        refine ⟨orderL cs, by omega, node cs, ⟨cs, ih cs (by omega), rfl⟩, r, ?_, rfl⟩
        have : orderL cs + orderL r - orderL cs = orderL r := by omega
        rw [this]
        exact ih r (by omega)

/-- every plane rooted tree appears in the enumeration of its own order -/
theorem treesOfOrder_complete (t : PTree) : t ∈ treesOfOrder t.order := by
  cases t with
  | node cs =>
    have h : (node cs).order = orderL cs + 1 := by simp only [order]; omega
    rw [h]
    simp only [treesOfOrder, List.mem_map]
    exact ⟨cs, mem_forests _ cs (by omega), rfl⟩

theorem order_pos (t : PTree) : 1 ≤ t.order := by
  cases t with
  | node cs => simp only [order]; omega

/-- the Boolean check decided by the kernel means: for *every* rooted tree of order ≤ p the order condition
`|γ(t)·Φ(t) − 1| ≤ 2^(-k)` holds in exact arithmetic for the given tableau -/
theorem orderConditions_spec {A : List (List Dy)} {B : List Dy} {p k : Nat}
    (h : orderConditions A B p k = true) (t : PTree) (ht : t.order ≤ p) :
    (weight A B t).closeToInv t.gamma k = true := by
  simp only [orderConditions, List.all_eq_true, List.mem_range] at h
  have h1 := order_pos t
  have := h (t.order - 1) (by omega) t
  rw [show t.order - 1 + 1 = t.order by omega] at this
  exact this (treesOfOrder_complete t)

/-- same for the dense-output (continuous) conditions -/
theorem denseConditions_spec {A P : List (List Dy)} {ncols q k : Nat}
    (h : denseConditions A P ncols q k = true) (t : PTree) (ht : t.order ≤ q) (c : Nat) (hc : c < ncols) :
    (if c + 1 = t.order then (weight A (column P c) t).closeToInv t.gamma k
     else (weight A (column P c) t).small k) = true := by
  simp only [denseConditions, List.all_eq_true, List.mem_range] at h
  have h1 := order_pos t
  have := h (t.order - 1) (by omega) t
  rw [show t.order - 1 + 1 = t.order by omega] at this
  exact this (treesOfOrder_complete t) c hc

end HitenModel
