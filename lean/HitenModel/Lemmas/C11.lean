/-
  Lemmas/C11.lean — helper lemmas for property C11 (event detection): sign abstraction of the predicates,
  one bisection step preserves the bracket invariant, list lemmas for the scan.
-/
import HitenModel.Core.C11
import Mathlib.Algebra.Order.Field.Basic
import Mathlib.Algebra.Order.Ring.Abs
import Mathlib.Tactic.Linarith
import Mathlib.Tactic.Ring
import Mathlib.Tactic.FieldSimp
import Mathlib.Tactic.Positivity

namespace HitenModel.C11

section Signs
variable {α : Type} [Field α] [LinearOrder α] [IsStrictOrderedRing α]

/-- sign class of a number, as the integer −1, 0, 1 -/
def sgn (x : α) : Int := if x < 0 then -1 else if 0 < x then 1 else 0

theorem sgn_cases (x : α) :
    (x < 0 ∧ ¬ 0 < x ∧ x ≠ 0 ∧ sgn x = -1) ∨ (x = 0 ∧ sgn x = 0) ∨ (0 < x ∧ ¬ x < 0 ∧ x ≠ 0 ∧ sgn x = 1) := by
  rcases lt_trichotomy x 0 with h | h | h
  · exact Or.inl ⟨h, not_lt.mpr h.le, h.ne, by simp [sgn, h]⟩
  · exact Or.inr (Or.inl ⟨h, by simp [sgn, h]⟩)
  · exact Or.inr (Or.inr ⟨h, not_lt.mpr h.le, h.ne', by simp [sgn, h, not_lt.mpr h.le]⟩)

@[simp] theorem sgn_zero : sgn (0 : α) = 0 := by simp [sgn]

theorem sgn_mem (x : α) : sgn x = -1 ∨ sgn x = 0 ∨ sgn x = 1 := by
  rcases sgn_cases x with h | h | h
  · exact Or.inl h.2.2.2
  · exact Or.inr (Or.inl h.2)
  · exact Or.inr (Or.inr h.2.2.2)

theorem intSign_cases (d : Int) :
    (d < 0 ∧ d ≠ 0 ∧ ¬ 0 < d ∧ Int.sign d = -1) ∨ (d = 0 ∧ Int.sign d = 0) ∨ (0 < d ∧ d ≠ 0 ∧ Int.sign d = 1) := by
  rcases lt_trichotomy d 0 with h | h | h
  · exact Or.inl ⟨h, h.ne, by omega, Int.sign_eq_neg_one_of_neg h⟩
  · exact Or.inr (Or.inl ⟨h, by simp [h]⟩)
  · exact Or.inr (Or.inr ⟨h, h.ne', Int.sign_eq_one_of_pos h⟩)

/-- `_event_crossed` depends on its arguments only through their signs -/
theorem eventCrossed_sgn (gp gn : α) (dir : Int) :
    eventCrossed gp gn dir = eventCrossed (sgn gp) (sgn gn) (Int.sign dir) := by
  rcases sgn_cases gp with ⟨a1, a2, a3, a4⟩ | ⟨rfl, a4⟩ | ⟨a1, a2, a3, a4⟩ <;>
  rcases sgn_cases gn with ⟨b1, b2, b3, b4⟩ | ⟨rfl, b4⟩ | ⟨b1, b2, b3, b4⟩ <;>
  rcases intSign_cases dir with ⟨d1, d2, d3, d4⟩ | ⟨rfl, d4⟩ | ⟨d1, d2, d4⟩ <;>
  simp [eventCrossed, *]

/-- `_crossed_direction` depends on its arguments only through their signs -/
theorem crossedDirection_sgn (gl gm : α) (dir : Int) :
    crossedDirection gl gm dir = crossedDirection (sgn gl) (sgn gm) (Int.sign dir) := by
  rcases sgn_cases gl with ⟨a1, a2, a3, a4⟩ | ⟨rfl, a4⟩ | ⟨a1, a2, a3, a4⟩ <;>
  rcases sgn_cases gm with ⟨b1, b2, b3, b4⟩ | ⟨rfl, b4⟩ | ⟨b1, b2, b3, b4⟩ <;>
  rcases intSign_cases dir with ⟨d1, d2, d3, d4⟩ | ⟨rfl, d4⟩ | ⟨d1, d2, d4⟩ <;>
  simp [crossedDirection, *]

/-- meaning of `_event_crossed` -/
theorem eventCrossed_iff (gp gn : α) (dir : Int) :
    eventCrossed gp gn dir = true ↔
      gn = 0 ∨ (0 ≤ dir ∧ gp < 0 ∧ 0 < gn) ∨ (dir ≤ 0 ∧ 0 < gp ∧ gn < 0) := by
  rcases sgn_cases gp with ⟨a1, a2, a3, a4⟩ | ⟨rfl, a4⟩ | ⟨a1, a2, a3, a4⟩ <;>
  rcases sgn_cases gn with ⟨b1, b2, b3, b4⟩ | ⟨rfl, b4⟩ | ⟨b1, b2, b3, b4⟩ <;>
  rcases intSign_cases dir with ⟨d1, d2, d3, d4⟩ | ⟨rfl, d4⟩ | ⟨d1, d2, d4⟩ <;>
  simp [eventCrossed, *] <;> omega

/-- meaning of `_crossed_direction` -/
theorem crossedDirection_iff (gl gm : α) (dir : Int) :
    crossedDirection gl gm dir = true ↔ (0 ≤ dir ∧ gl < 0 ∧ 0 < gm) ∨ (dir ≤ 0 ∧ 0 < gl ∧ gm < 0) := by
  rcases sgn_cases gl with ⟨a1, a2, a3, a4⟩ | ⟨rfl, a4⟩ | ⟨a1, a2, a3, a4⟩ <;>
  rcases sgn_cases gm with ⟨b1, b2, b3, b4⟩ | ⟨rfl, b4⟩ | ⟨b1, b2, b3, b4⟩ <;>
  rcases intSign_cases dir with ⟨d1, d2, d3, d4⟩ | ⟨rfl, d4⟩ | ⟨d1, d2, d4⟩ <;>
  simp [crossedDirection, *] <;> omega

/-- the step "no admissible change on the left half ⇒ there is one on the right half" of the bisection -/
theorem crossedDirection_shift {gl gm gb : α} {dir : Int}
    (h1 : crossedDirection gl gb dir = true) (h2 : crossedDirection gl gm dir = false) (h3 : gm ≠ 0) :
    crossedDirection gm gb dir = true := by
  have h2' : ¬ crossedDirection gl gm dir = true := by simp [h2]
  rw [crossedDirection_iff] at h1 h2' ⊢
  rcases lt_or_gt_of_ne h3 with hm | hm
  · rcases h1 with ⟨d, a, b⟩ | ⟨d, a, b⟩
    · exact Or.inl ⟨d, hm, b⟩
    · exact absurd (Or.inr ⟨d, a, hm⟩) h2'
  · rcases h1 with ⟨d, a, b⟩ | ⟨d, a, b⟩
    · exact absurd (Or.inl ⟨d, a, hm⟩) h2'
    · exact Or.inr ⟨d, hm, b⟩

theorem absv_eq_abs (x : α) : absv x = |x| := by
  unfold absv
  split
  · rename_i h; rw [abs_of_neg h]
  · rename_i h; rw [abs_of_nonneg (not_lt.mp h)]

theorem half_eq : (half : α) = 1 / 2 := by
  unfold half; norm_num

theorem bracketConverged_iff (a b h xtol : α) : bracketConverged a b h xtol = true ↔ (b - a) * |h| ≤ xtol := by
  simp [bracketConverged, absv_eq_abs]

end Signs

/-! ## the bisection loop -/
section Refine
variable {α : Type} [Field α] [LinearOrder α] [IsStrictOrderedRing α] {σ : Type}
variable (P : α → σ) (g : α → σ → α) (t0 h : α) (dir : Int) (xtol gtol : α)

/-- the event function along the dense-output curve of the step, in normalised step time θ ∈ [0,1] -/
def G (θ : α) : α := g (t0 + θ * h) (P θ)

/-- the bracket keeps a sign change consistent with the requested direction, or its right end is an exact zero -/
def SignOK (gl gb : α) : Prop := crossedDirection gl gb dir = true ∨ gb = 0

/-- invariant of the bisection: after `k` halvings the bracket `[a,b] ⊆ [0,1]` has width `2^-k`, the carried value
`gl` is the event value at `a` (initially the value `gl0` at the step start) and the sign condition holds -/
structure BracketInv (gl0 : α) (k : Nat) (a b gl : α) : Prop where
  a_nonneg : 0 ≤ a
  b_le_one : b ≤ 1
  width : b - a = (1 / 2) ^ k
  left : gl = G P g t0 h a ∨ (a = 0 ∧ gl = gl0)
  sign : SignOK dir gl (G P g t0 h b)

/-- number of halvings that produced the final bracket of a result -/
def Refined.depth (r : Refined α σ) : Nat := if r.exit = .gtol then r.iters - 1 else r.iters

/-- what the loop guarantees when started with `n` iterations left on the bracket `[a,b]` after `k` halvings -/
structure RefineSpec (gl0 : α) (k n : Nat) (a b : α) (r : Refined α σ) : Prop where
  on_curve : r.y = P r.x
  time : r.t = t0 + r.x * h
  inv : BracketInv P g t0 h dir gl0 r.depth r.a r.b r.gl
  nested : a ≤ r.a ∧ r.b ≤ b
  iters_ge : k ≤ r.iters
  iters_le : r.iters ≤ k + n
  exit_gtol : r.exit = .gtol → |G P g t0 h r.x| ≤ gtol ∧ r.x = (r.a + r.b) / 2 ∧ k + 1 ≤ r.iters
  exit_xtol : r.exit = .xtol → (r.b - r.a) * |h| ≤ xtol ∧ r.x = r.b ∧ k + 1 ≤ r.iters
  exit_max : r.exit = .maxIter → r.x = r.b ∧ r.iters = k + n ∧
    ((0 < n ∨ ¬ (b - a) * |h| ≤ xtol) → ¬ (r.b - r.a) * |h| ≤ xtol)

theorem BracketInv.lt {gl0 : α} {k : Nat} {a b gl : α} (inv : BracketInv P g t0 h dir gl0 k a b gl) : a < b := by
  have : (0 : α) < (1 / 2) ^ k := by positivity
  have := inv.width
  linarith

/-- one bisection step preserves the invariant -/
theorem bracket_step (hg : 0 ≤ gtol) {gl0 : α} {k : Nat} {a b gl : α}
    (inv : BracketInv P g t0 h dir gl0 k a b gl)
    (hnot : ¬ |G P g t0 h (half * (a + b))| ≤ gtol) :
    BracketInv P g t0 h dir gl0 (k + 1)
      (bisectionUpdate a b gl (half * (a + b)) (G P g t0 h (half * (a + b)))
        (crossedDirection gl (G P g t0 h (half * (a + b))) dir)).1
      (bisectionUpdate a b gl (half * (a + b)) (G P g t0 h (half * (a + b)))
        (crossedDirection gl (G P g t0 h (half * (a + b))) dir)).2.1
      (bisectionUpdate a b gl (half * (a + b)) (G P g t0 h (half * (a + b)))
        (crossedDirection gl (G P g t0 h (half * (a + b))) dir)).2.2 ∧
    a ≤ (bisectionUpdate a b gl (half * (a + b)) (G P g t0 h (half * (a + b)))
        (crossedDirection gl (G P g t0 h (half * (a + b))) dir)).1 ∧
    (bisectionUpdate a b gl (half * (a + b)) (G P g t0 h (half * (a + b)))
        (crossedDirection gl (G P g t0 h (half * (a + b))) dir)).2.1 ≤ b := by
  have hlt := inv.lt
  have hw := inv.width
  have ha := inv.a_nonneg
  have hb := inv.b_le_one
  have hmid : (half : α) * (a + b) = (a + b) / 2 := by rw [half_eq]; ring
  have hpow : ((1 : α) / 2) ^ (k + 1) = (1 / 2) ^ k / 2 := by rw [pow_succ]; ring
  have hgm : G P g t0 h (half * (a + b)) ≠ 0 := by
    intro h0
    apply hnot
    rw [h0, abs_zero]
    exact hg
  cases hc : crossedDirection gl (G P g t0 h (half * (a + b))) dir
  · -- not crossed: keep the right half
    simp only [bisectionUpdate, Bool.false_eq_true, if_false]
    refine ⟨⟨?_, hb, ?_, Or.inl rfl, ?_⟩, ?_, le_refl b⟩
    · rw [hmid]; linarith
    · rw [hmid, hpow, ← hw]; ring
    · rcases inv.sign with hs | hs
      · exact Or.inl (crossedDirection_shift hs hc hgm)
      · exact Or.inr hs
    · rw [hmid]; linarith
  · -- crossed: keep the left half
    simp only [bisectionUpdate, if_true]
    refine ⟨⟨ha, ?_, ?_, inv.left, Or.inl hc⟩, le_refl a, ?_⟩
    · rw [hmid]; linarith
    · rw [hmid, hpow, ← hw]; ring
    · rw [hmid]; linarith

/-- one unfolding of the loop, written with `G`, `|·|` and the bracket test spelled out -/
theorem refineLoop_succ (n k : Nat) (a b gl : α) :
    refineLoop P g t0 h dir xtol gtol (n + 1) k a b gl =
      if |G P g t0 h (half * (a + b))| ≤ gtol then
        ⟨half * (a + b), t0 + half * (a + b) * h, P (half * (a + b)), .gtol, k + 1, a, b, gl⟩
      else
        if ((bisectionUpdate a b gl (half * (a + b)) (G P g t0 h (half * (a + b)))
              (crossedDirection gl (G P g t0 h (half * (a + b))) dir)).2.1 -
            (bisectionUpdate a b gl (half * (a + b)) (G P g t0 h (half * (a + b)))
              (crossedDirection gl (G P g t0 h (half * (a + b))) dir)).1) * |h| ≤ xtol then
          ⟨(bisectionUpdate a b gl (half * (a + b)) (G P g t0 h (half * (a + b)))
              (crossedDirection gl (G P g t0 h (half * (a + b))) dir)).2.1,
           t0 + (bisectionUpdate a b gl (half * (a + b)) (G P g t0 h (half * (a + b)))
              (crossedDirection gl (G P g t0 h (half * (a + b))) dir)).2.1 * h,
           P (bisectionUpdate a b gl (half * (a + b)) (G P g t0 h (half * (a + b)))
              (crossedDirection gl (G P g t0 h (half * (a + b))) dir)).2.1, .xtol, k + 1,
           (bisectionUpdate a b gl (half * (a + b)) (G P g t0 h (half * (a + b)))
              (crossedDirection gl (G P g t0 h (half * (a + b))) dir)).1,
           (bisectionUpdate a b gl (half * (a + b)) (G P g t0 h (half * (a + b)))
              (crossedDirection gl (G P g t0 h (half * (a + b))) dir)).2.1,
           (bisectionUpdate a b gl (half * (a + b)) (G P g t0 h (half * (a + b)))
              (crossedDirection gl (G P g t0 h (half * (a + b))) dir)).2.2⟩
        else
          refineLoop P g t0 h dir xtol gtol n (k + 1)
            (bisectionUpdate a b gl (half * (a + b)) (G P g t0 h (half * (a + b)))
              (crossedDirection gl (G P g t0 h (half * (a + b))) dir)).1
            (bisectionUpdate a b gl (half * (a + b)) (G P g t0 h (half * (a + b)))
              (crossedDirection gl (G P g t0 h (half * (a + b))) dir)).2.1
            (bisectionUpdate a b gl (half * (a + b)) (G P g t0 h (half * (a + b)))
              (crossedDirection gl (G P g t0 h (half * (a + b))) dir)).2.2 := by
  rw [refineLoop]
  simp only [G, absv_eq_abs, bracketConverged, decide_eq_true_eq]
  split_ifs with h1 h2
  · exact (if_pos h1).symm
  · exact ((if_neg h1).trans (if_pos h2)).symm
  · exact ((if_neg h1).trans (if_neg h2)).symm

/-- the specification of the bisection loop, for every number of remaining iterations -/
theorem refineLoop_spec (hg : 0 ≤ gtol) (gl0 : α) :
    ∀ (n k : Nat) (a b gl : α), BracketInv P g t0 h dir gl0 k a b gl →
      RefineSpec P g t0 h dir xtol gtol gl0 k n a b (refineLoop P g t0 h dir xtol gtol n k a b gl) := by
  intro n
  induction n with
  | zero =>
    intro k a b gl inv
    simp only [refineLoop]
    exact ⟨rfl, rfl, (by simpa [Refined.depth] using inv), ⟨le_refl a, le_refl b⟩, le_refl k, (by simp),
      (by intro h'; cases h'), (by intro h'; cases h'),
      fun _ => ⟨rfl, rfl, fun hh => hh.elim (fun h0 => absurd h0 (lt_irrefl 0)) id⟩⟩
  | succ n ih =>
    intro k a b gl inv
    rw [refineLoop_succ]
    by_cases hgt : |G P g t0 h (half * (a + b))| ≤ gtol
    · rw [if_pos hgt]
      refine ⟨rfl, rfl, (by simpa [Refined.depth] using inv), ⟨le_refl a, le_refl b⟩, (by simp), (by simp), ?_,
        (by intro h'; cases h'), (by intro h'; cases h')⟩
      intro _
      refine ⟨hgt, ?_, le_refl _⟩
      show half * (a + b) = (a + b) / 2
      rw [half_eq]; ring
    · rw [if_neg hgt]
      obtain ⟨inv', hna, hnb⟩ := bracket_step P g t0 h dir gtol hg inv hgt
      by_cases hcv : ((bisectionUpdate a b gl (half * (a + b)) (G P g t0 h (half * (a + b)))
              (crossedDirection gl (G P g t0 h (half * (a + b))) dir)).2.1 -
            (bisectionUpdate a b gl (half * (a + b)) (G P g t0 h (half * (a + b)))
              (crossedDirection gl (G P g t0 h (half * (a + b))) dir)).1) * |h| ≤ xtol
      · rw [if_pos hcv]
        refine ⟨rfl, rfl, (by simpa [Refined.depth] using inv'), ⟨hna, hnb⟩, (by simp), (by simp),
          (by intro h'; cases h'), ?_, (by intro h'; cases h')⟩
        intro _
        exact ⟨hcv, rfl, le_refl _⟩
      · rw [if_neg hcv]
        have s := ih (k + 1) _ _ _ inv'
        refine ⟨s.on_curve, s.time, s.inv, ⟨le_trans hna s.nested.1, le_trans s.nested.2 hnb⟩,
          (by have := s.iters_ge; omega), (by have := s.iters_le; omega), ?_, ?_, ?_⟩
        · intro he
          obtain ⟨e1, e2, e3⟩ := s.exit_gtol he
          exact ⟨e1, e2, by omega⟩
        · intro he
          obtain ⟨e1, e2, e3⟩ := s.exit_xtol he
          exact ⟨e1, e2, by omega⟩
        · intro he
          obtain ⟨e1, e2, e3⟩ := s.exit_max he
          exact ⟨e1, by omega, fun _ => e3 (Or.inr hcv)⟩

end Refine

/-! ## the scan -/
section Scan
set_option linter.unusedSectionVars false
variable {α : Type} [Field α] [LinearOrder α] [IsStrictOrderedRing α] {σ : Type}
variable (g : α → σ → α) (dir : Int) (xtol gtol : α)

/-- event value at the end of a step -/
def gEnd (s : Step α σ) : α := g (s.t0 + s.h) s.y1

/-- no step of the list has an admissible crossing; `gprev` is the event value before the first step and every
later step is compared with the end value of its predecessor -/
def NoCross : α → List (Step α σ) → Prop
  | _, [] => True
  | gprev, s :: l => eventCrossed gprev (gEnd g s) dir = false ∧ NoCross (gEnd g s) l

/-- event value after the last step of the list -/
def lastG : α → List (Step α σ) → α
  | gprev, [] => gprev
  | _, s :: l => lastG (gEnd g s) l

/-- time and state after the last step of the list -/
def lastTY : α × σ → List (Step α σ) → α × σ
  | p, [] => p
  | _, s :: l => lastTY (s.t0 + s.h, s.y1) l

theorem scan_hit_of_prefix :
    ∀ (pre : List (Step α σ)) (i : Nat) (gprev tl : α) (yl : σ) (s : Step α σ) (post : List (Step α σ)),
      NoCross g dir gprev pre → eventCrossed (lastG g gprev pre) (gEnd g s) dir = true →
      scan g dir xtol gtol i (pre ++ s :: post) gprev tl yl =
        .hit (i + pre.length) (refine s.P g s.t0 s.h s.y0 dir xtol gtol) s.y1 := by
  intro pre
  induction pre with
  | nil =>
    intro i gprev tl yl s post _ hc
    simp only [List.nil_append, scan, List.length_nil, Nat.add_zero]
    simp only [lastG, gEnd] at hc
    rw [if_pos hc]
  | cons p pre ih =>
    intro i gprev tl yl s post hn hc
    obtain ⟨h1, h2⟩ := hn
    simp only [List.cons_append, scan, List.length_cons]
    simp only [gEnd] at h1
    rw [if_neg (by simp [h1])]
    have e := ih (i + 1) (gEnd g p) (p.t0 + p.h) p.y1 s post h2 hc
    simp only [gEnd] at e ⊢
    rw [e]
    congr 1
    omega

theorem scan_noHit_of :
    ∀ (steps : List (Step α σ)) (i : Nat) (gprev tl : α) (yl : σ), NoCross g dir gprev steps →
      scan g dir xtol gtol i steps gprev tl yl = .noHit (lastTY (tl, yl) steps).1 (lastTY (tl, yl) steps).2 := by
  intro steps
  induction steps with
  | nil => intro i gprev tl yl _; simp [scan, lastTY]
  | cons p l ih =>
    intro i gprev tl yl hn
    obtain ⟨h1, h2⟩ := hn
    simp only [scan, lastTY]
    simp only [gEnd] at h1
    rw [if_neg (by simp [h1])]
    exact ih _ _ _ _ h2

/-- every step list either has a first step with an admissible crossing or none at all -/
theorem scan_cases :
    ∀ (steps : List (Step α σ)) (gprev : α),
      (∃ pre s post, steps = pre ++ s :: post ∧ NoCross g dir gprev pre ∧
        eventCrossed (lastG g gprev pre) (gEnd g s) dir = true) ∨ NoCross g dir gprev steps := by
  intro steps
  induction steps with
  | nil => intro gprev; exact Or.inr trivial
  | cons p l ih =>
    intro gprev
    cases hc : eventCrossed gprev (gEnd g p) dir
    · rcases ih (gEnd g p) with ⟨pre, s, post, e, hn, hx⟩ | hn
      · exact Or.inl ⟨p :: pre, s, post, by rw [e]; rfl, ⟨hc, hn⟩, hx⟩
      · exact Or.inr ⟨hc, hn⟩
    · exact Or.inl ⟨[], p, l, rfl, trivial, hc⟩

/-- the adaptive loop is the scan over its accepted steps (unless the fuel ran out) -/
theorem adaptiveLoop_eq_scan (oracle : Nat → α → α → σ → Attempt α σ) (tmax maxS minS : α) :
    ∀ (fuel k i : Nat) (t : α) (y : σ) (h gprev : α),
      adaptiveLoop oracle g dir xtol gtol tmax maxS minS fuel k i t y h gprev = .outOfFuel ∨
      adaptiveLoop oracle g dir xtol gtol tmax maxS minS fuel k i t y h gprev =
        scan g dir xtol gtol i (acceptedSteps oracle tmax maxS minS fuel k t y h) gprev t y := by
  intro fuel
  induction fuel with
  | zero =>
    intro k i t y h gprev
    simp only [adaptiveLoop, acceptedSteps, scan]
    by_cases ht : t - tmax < 0
    · left; rw [if_pos ht]
    · right; rw [if_neg ht]
  | succ fuel ih =>
    intro k i t y h gprev
    simp only [adaptiveLoop, acceptedSteps]
    by_cases ht : t - tmax < 0
    · simp only [if_pos ht]
      cases hacc : (oracle k t (adjustStep t (clampStep h maxS minS) tmax) y).accept
      · simp only [Bool.false_eq_true, if_false]
        exact ih _ _ _ _ _ _
      · simp only [if_true, scan]
        cases hc : eventCrossed gprev
            (g (t + adjustStep t (clampStep h maxS minS) tmax)
              (oracle k t (adjustStep t (clampStep h maxS minS) tmax) y).ynew) dir
        · simp only [Bool.false_eq_true, if_false]
          exact ih _ _ _ _ _ _
        · simp only [if_true]
          right; trivial
    · simp only [if_neg ht, scan]
      right; trivial

end Scan

/-! ## reading the generated tables -/
/-- lookup in a generated sign table `(sign a, sign b, sign direction, result)` -/
def tabLookup (tab : List (Int × Int × Int × Bool)) (a b d : Int) : Option Bool :=
  (tab.find? fun e => e.1 == a && e.2.1 == b && e.2.2.1 == d).map (·.2.2.2)

/-- the inputs of `_bisection_update` by position: 0 a, 1 b, 2 g_left, 3 mid, 4 g_mid -/
def sel5 {α : Type} (a b gl mid gm : α) : Nat → α
  | 0 => a | 1 => b | 2 => gl | 3 => mid | _ => gm

end HitenModel.C11
