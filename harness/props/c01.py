"""C01 — equations of motion, Jacobian, variational system and energy integral are mutually consistent.

T-trace of the current kernels -> Gen/C01.lean; theorems in Props/C01.lean; translation validation of the
traces against the compiled public objects; numerical failing-input search (finite differences, Lie derivative,
energy drift along propagations)."""
from __future__ import annotations

import math
import types

import numpy as np

import lean_emit as E
import tracer as T

NAMES = ["x", "y", "z", "vx", "vy", "vz"]


def _sym_state(vals):
    return T.symarray([T.Sym.var(n, v) for n, v in zip(NAMES, vals)])


def trace_all(vals, muv):
    """Trace every C01 kernel at shadow point (vals, muv). Returns dict of Sym outputs."""
    from hiten.algorithms.common import energy as en
    from hiten.algorithms.dynamics import rtbp
    T.reset()
    out = {}
    st = _sym_state(vals)
    mu = T.Sym.var("mu", muv)
    tt = T.Sym.var("t", 0.0)
    # vector field through the class closure (checks the mu wiring of _build_rhs_impl)
    o = object.__new__(rtbp._RTBPRHS)
    o._mu_val = mu
    out["accel"] = list(T.retarget(o._build_rhs_impl())(tt, st))
    out["accel_kernel"] = list(T.retarget(rtbp._crtbp_accel)(st, mu))
    o = object.__new__(rtbp._JacobianRHS)
    o._mu_val = mu
    J = T.retarget(o._build_rhs_impl())(tt, st)
    out["jac"] = [T.Sym.lift(J[i, j]) for i in range(6) for j in range(6)]
    out["energy"] = T.retarget(en.crtbp_energy)(st, mu)
    kin = T.retarget(en.kinetic_energy)(st)
    memo = {}
    extra = {}
    ueff = T.retarget(en.effective_potential, extra, memo)(st, mu)
    out["energyKP"] = kin + ueff
    # inner _jacobi of _max_rel_energy_error: run the outer function on a one-row symbolic trajectory and
    # capture C0 (= _jacobi(states[0]) with the function's own mu1/mu2 wiring) at the abs() call
    rec = {}

    def _abs(v):
        rec.setdefault("C0", v)
        return abs(v)

    outer2 = T.retarget(en._max_rel_energy_error, {"abs": _abs})
    traj = np.empty((1, 6), dtype=object)
    traj[0, :] = st
    outer2(traj, mu)
    out["jacobiInner"] = rec["C0"]
    # energy -> jacobi map
    ev = T.Sym.var("E", 0.3)
    out["energyToJacobi"] = T.retarget(en.energy_to_jacobi)(ev)
    out["_mu"] = mu
    out["_state"] = st
    return out


def trace_vareq(pvals, muv):
    from hiten.algorithms.dynamics import rtbp
    P = T.symarray([T.Sym.var("p%d" % i, v) for i, v in enumerate(pvals)])
    mu = T.Sym.var("mu", muv)
    o = object.__new__(rtbp._VarEqRHS)
    o._mu_val = mu
    V = T.retarget(o._build_rhs_impl())(T.Sym.var("t", 0.0), P)
    return [T.Sym.lift(v) for v in V]


def gen(ctx):
    vals = [0.82, 0.05, 0.1, 0.02, 0.15, 0.07]
    muv = 0.0121505856
    tr = trace_all(vals, muv)
    varidx = {n: i for i, n in enumerate(NAMES)}
    varidx["mu"] = 6
    varidx["E"] = 0
    roots = tr["accel"] + tr["jac"] + [tr["energy"], tr["energyKP"], tr["jacobiInner"]]
    named, defs = T.canonical_sqrt_names(roots, "sq")
    txt = E.header("C01", note="traced from rtbp._RTBPRHS/_JacobianRHS/_VarEqRHS closures, energy.py")
    txt += "open RE\n"
    for name, rep in defs:
        txt += E.re_def(name, rep, varidx, None)
    txt += "def sqrtArgs : List RE := [%s]\n" % ", ".join(n for n, _ in defs)
    txt += E.re_fun("accel", tr["accel"], varidx, named)
    txt += E.re_fun("accelKernel", tr["accel_kernel"], varidx, named)
    txt += E.re_fun("jac", tr["jac"], varidx, named)
    txt += E.re_def("energy", tr["energy"], varidx, named)
    txt += E.re_def("energyKP", tr["energyKP"], varidx, named)
    txt += E.re_def("jacobiInner", tr["jacobiInner"], varidx, named)
    txt += E.re_def("energyToJacobi", tr["energyToJacobi"], varidx, named)
    # variational system: p0..p41 -> 0..41, mu -> 42
    pvals = [0.1 * math.sin(i + 1.0) + (1.0 if i % 7 == 0 and i < 36 else 0.0) for i in range(36)] + vals
    V = trace_vareq(pvals, muv)
    vidx = {"p%d" % i: i for i in range(42)}
    vidx["mu"] = 42
    vnamed, vdefs = T.canonical_sqrt_names(V, "vq")
    for name, rep in vdefs:
        txt += E.re_def(name, rep, vidx, None)
    txt += "def vSqrtArgs : List RE := [%s]\n" % ", ".join(n for n, _ in vdefs)
    txt += E.re_fun("vareq", V, vidx, vnamed)
    txt += E.footer("C01")
    ctx.write_gen("HitenModel.Gen.C01", txt)
    ctx.extra["sqrt_args"] = {"main": len(defs), "vareq": len(vdefs)}
    ctx.extra["path_conditions_main"] = [(op, T.show(a, 80), T.show(b, 80), o) for op, a, b, o in T.CTX.path][:10]
    return tr, V


def run(ctx):
    g = ctx.guard("regenerate", gen, ctx)
    ok = ctx.lean_build(["HitenModel.Props.C01"])
    if ok:
        ctx.lean_audit(["HitenModel.Props.C01"], ["HitenModel.Props.C01", "HitenModel.Gen.C01", "HitenModel.Lemmas.REReal", "HitenModel.Core.RE"])
        if ctx.thorough():
            ctx.leanchecker(["HitenModel.Props.C01"])
    if g is not None:
        ctx.guard("validate_traces", validate_traces, ctx, g[0], g[1])
    numerics(ctx)
    ctx.rule = ("random (mu log-uniform in [1e-9,0.5], 6-D states in a box around the primaries excluding balls of radius 0.02, "
                "planar and spatial); a case is non-trivial when z!=0 or vz!=0 or it is a propagation; distinct by rounded input")


# ---------------------------------------------------------------------------

def rand_mu(rng):
    return 10 ** rng.uniform(-9, math.log10(0.5))


def rand_state(rng, mu, planar=False):
    while True:
        s = [rng.uniform(-1.6, 1.6), rng.uniform(-1.2, 1.2), 0.0 if planar else rng.uniform(-0.8, 0.8),
             rng.uniform(-1, 1), rng.uniform(-1, 1), 0.0 if planar else rng.uniform(-1, 1)]
        r1 = math.sqrt((s[0] + mu) ** 2 + s[1] ** 2 + s[2] ** 2)
        r2 = math.sqrt((s[0] - 1 + mu) ** 2 + s[1] ** 2 + s[2] ** 2)
        if r1 > 0.05 and r2 > 0.02:
            return s


def validate_traces(ctx, tr, V):
    """Translation validation: the traced DAGs evaluated in floats must agree with the compiled public objects."""
    from hiten.algorithms.common import energy as en
    from hiten.algorithms.dynamics import rtbp
    from hiten.system.base import System
    from hiten.system.body import Body
    n = 3000 if ctx.thorough() else 120
    worst = 0.0
    for k in range(n):
        mu = rand_mu(ctx.rng) if k % 3 else [0.0121505856, 3.0034e-6, 0.5][k % 9 // 3]
        s = rand_state(ctx.rng, mu, planar=(k % 5 == 0))
        env = dict(zip(NAMES, s))
        env["mu"] = mu
        cache = {}
        a_m = [T.evalf(e, env, cache) for e in tr["accel"]]
        a_c = rtbp.rtbp_dynsys(mu).rhs(0.0, np.array(s)) if k % 10 == 0 else rtbp._crtbp_accel(np.array(s), mu)
        j_m = np.array([T.evalf(e, env, cache) for e in tr["jac"]]).reshape(6, 6)
        j_c = rtbp.jacobian_dynsys(mu).rhs(0.0, np.array(s)) if k % 10 == 0 else rtbp._jacobian_crtbp(s[0], s[1], s[2], mu)
        e_m = T.evalf(tr["energy"], env, cache)
        e_c = en.crtbp_energy(np.array(s), mu)
        ekp_m = T.evalf(tr["energyKP"], env, cache)
        ekp_c = en.kinetic_energy(s) + en.effective_potential(s, mu)
        pv = [ctx.rng.uniform(-1, 1) for _ in range(36)] + s
        venv = {"p%d" % i: v for i, v in enumerate(pv)}
        venv["mu"] = mu
        vc = {}
        v_m = [T.evalf(e, venv, vc) for e in V]
        v_c = rtbp.variational_dynsys(mu).rhs(0.0, np.array(pv)) if k % 10 == 0 else rtbp._var_equations(0.0, np.array(pv), mu)
        for nm, m, c in (("accel", a_m, a_c), ("jac", j_m, j_c), ("energy", e_m, e_c), ("energyKP", ekp_m, ekp_c),
                         ("vareq", v_m, v_c)):
            m = np.asarray(m, dtype=float)
            c = np.asarray(c, dtype=float)
            err = float(np.max(np.abs(m - c) / (1.0 + np.abs(c))))
            worst = max(worst, err)
            ctx.traces_validated += 1
            if not err <= 1e-10:
                ctx.broken.append(("trace-validation:" + nm, "trace and compiled function differ by %g at mu=%r state=%r" % (err, mu, s)))
                ctx.obligations["trace-validation:" + nm] = False
                return
    # public objects: System.dynsys etc., LibrationPoint energy, use the same kernels
    try:
        from hiten import System as PublicSystem
        sysm = PublicSystem.from_bodies("earth", "moon")
        mu = sysm.mu
        s = rand_state(ctx.rng, mu)
        env = dict(zip(NAMES, s))
        env["mu"] = mu
        a_m = np.array([T.evalf(e, env) for e in tr["accel"]])
        a_c = np.asarray(sysm.dynsys.rhs(0.0, np.array(s)))
        j_c = np.asarray(sysm.jacobian_dynsys.rhs(0.0, np.array(s)))
        j_m = np.array([T.evalf(e, env) for e in tr["jac"]]).reshape(6, 6)
        pv = [ctx.rng.uniform(-1, 1) for _ in range(36)] + s
        venv = {"p%d" % i: v for i, v in enumerate(pv)}
        venv["mu"] = mu
        v_c = np.asarray(sysm.var_dynsys.rhs(0.0, np.array(pv)))
        v_m = np.array([T.evalf(e, venv) for e in V])
        for nm, m, c in (("System.dynsys", a_m, a_c), ("System.jacobian_dynsys", j_m, j_c), ("System.var_dynsys", v_m, v_c)):
            err = float(np.max(np.abs(m - c) / (1.0 + np.abs(c))))
            worst = max(worst, err)
            ctx.traces_validated += 1
            if not err <= 1e-10:
                ctx.broken.append(("trace-validation:" + nm, "public object differs from traced kernel by %g at state=%r" % (err, s)))
                ctx.obligations["trace-validation:" + nm] = False
        # libration point / orbit energy & jacobi go through crtbp_energy + energy_to_jacobi
        L1 = sysm.get_libration_point(1)
        pos = np.asarray(L1.position, dtype=float)
        st6 = np.concatenate([pos, np.zeros(3)])
        env = dict(zip(NAMES, st6))
        env["mu"] = mu
        e_m = T.evalf(tr["energy"], env)
        j_m = T.evalf(tr["energyToJacobi"], {"E": e_m})
        for nm, m, c in (("LibrationPoint.energy", e_m, L1.energy), ("LibrationPoint.jacobi", j_m, L1.jacobi)):
            err = abs(m - c) / (1 + abs(c))
            ctx.traces_validated += 1
            if not err <= 1e-10:
                ctx.broken.append(("trace-validation:" + nm, "public value %r differs from traced formula %r" % (c, m)))
                ctx.obligations["trace-validation:" + nm] = False
        # a periodic-orbit object (uncorrected analytic seed is enough): energy / jacobi of its initial state
        orb = L1.create_orbit("halo", amplitude_z=0.2, zenith="southern")
        st6 = np.asarray(orb.initial_state, dtype=float)
        env = dict(zip(NAMES, st6))
        env["mu"] = mu
        e_m = T.evalf(tr["energy"], env)
        j_m = T.evalf(tr["energyToJacobi"], {"E": e_m})
        for nm, m, c in (("PeriodicOrbit.energy", e_m, orb.energy), ("PeriodicOrbit.jacobi", j_m, orb.jacobi)):
            err = abs(m - c) / (1 + abs(c))
            ctx.traces_validated += 1
            if not err <= 1e-10:
                ctx.broken.append(("trace-validation:" + nm, "public value %r differs from traced formula %r" % (c, m)))
                ctx.obligations["trace-validation:" + nm] = False
                ctx.violation("reported-energy:" + nm, "%s = %r is not the first integral proved for the traced formulas (%r) at the orbit's initial state" % (nm, c, m),
                              {"initial_state": st6.tolist(), "mu": mu, "reported": float(c), "traced_formula": float(m)})
        # System.propagate: the public propagation entry point conserves the reported energy
        try:
            sol = sysm.propagate(st6, tf=1.0, steps=200)
            states = np.asarray(getattr(sol, "states", sol[1] if isinstance(sol, tuple) else sol), dtype=float)
            Es = np.array([en.crtbp_energy(y, mu) for y in states[::20]])
            drift = float(np.abs(Es - Es[0]).max())
            ctx.traces_validated += 1
            if not drift <= 1e-6:
                ctx.violation("energy-drift:System.propagate", "energy drifts by %g along System.propagate" % drift,
                              {"mu": mu, "state0": st6.tolist(), "tf": 1.0, "drift": drift})
        except TypeError as ex:
            ctx.notes.append("System.propagate signature differs: %r" % (ex,))
    except Exception as ex:  # public API shape differs: report as broken correspondence, not as a pass
        ctx.broken.append(("trace-validation:public-objects", repr(ex)))
        ctx.obligations["trace-validation:public-objects"] = False
    ctx.obligations.setdefault("trace-validation", True)
    ctx.extra["trace_validation_worst_rel_err"] = worst


def numerics(ctx):
    """Failing-input search on the real code (also run when all proofs hold, as supporting evidence)."""
    from hiten.algorithms.common import energy as en
    from hiten.algorithms.dynamics import rtbp
    n = 4000 if ctx.thorough() else 150
    for k in range(n):
        mu = rand_mu(ctx.rng)
        planar = (k % 4 == 0)
        s = np.array(rand_state(ctx.rng, mu, planar))
        key = ("pt", round(mu, 12), tuple(np.round(s, 6)))
        ctx.case(key, nontrivial=not planar, kind="planar" if planar else "spatial",
                 sample={"mu": mu, "state": list(s)} if k < 3 else None)
        f = lambda y: rtbp._crtbp_accel(y, mu)
        # Richardson central differences
        J = rtbp.jacobian_dynsys(mu).rhs(0.0, s) if k % 7 == 0 else rtbp._jacobian_crtbp(s[0], s[1], s[2], mu)
        Jfd = np.zeros((6, 6))
        h = 1e-4
        for j in range(6):
            e = np.zeros(6)
            e[j] = 1
            d1 = (f(s + h * e) - f(s - h * e)) / (2 * h)
            d2 = (f(s + 2 * h * e) - f(s - 2 * h * e)) / (4 * h)
            Jfd[:, j] = (4 * d1 - d2) / 3
        scale = 1.0 + np.abs(J).max()
        err = np.abs(J - Jfd).max() / scale
        if not err <= 1e-6:
            i, j = np.unravel_index(np.argmax(np.abs(J - Jfd)), (6, 6))
            ctx.violation("jacobian-mismatch", "Jacobian entry (%d,%d) differs from the derivative of the vector field" % (i, j),
                          {"mu": mu, "state": list(s), "entry": [int(i), int(j)], "jacobian": float(J[i, j]),
                           "finite_difference": float(Jfd[i, j])})
            break
        # variational system = (F Phi, f)
        Phi = np.array([ctx.rng.uniform(-1, 1) for _ in range(36)])
        v = rtbp._var_equations(0.0, np.concatenate([Phi, s]), mu)
        exp = np.concatenate([(Jfd @ Phi.reshape(6, 6)).ravel(), f(s)])
        errv = np.abs(v - exp).max() / (1 + np.abs(exp).max())
        if not errv <= 1e-6:
            idx = int(np.argmax(np.abs(v - exp)))
            ctx.violation("vareq-mismatch", "variational rhs component %d is not (Df*Phi, f)" % idx,
                          {"mu": mu, "state": list(s), "Phi": list(Phi), "component": idx, "got": float(v[idx]), "expected": float(exp[idx])})
            break
        # Lie derivative of energy / jacobi along the field, by central differences along f
        fs = f(s)
        for nm, Efun in (("crtbp_energy", lambda y: en.crtbp_energy(y, mu)),
                         ("kinetic+effective_potential", lambda y: en.kinetic_energy(y) + en.effective_potential(y, mu)),
                         ("jacobi", lambda y: en.energy_to_jacobi(en.crtbp_energy(y, mu)))):
            hh = 1e-5
            d = (Efun(s + hh * fs) - Efun(s - hh * fs)) / (2 * hh)
            sc = 1 + np.abs(fs).max() ** 2
            if not abs(d) / sc <= 1e-6:
                ctx.violation("energy-not-conserved:" + nm, "d/dt %s along the vector field = %g (should be 0)" % (nm, d),
                              {"mu": mu, "state": list(s), "dE_dt": float(d), "function": nm})
                return
        # the second jacobi formula agrees with the reported one up to the constant mu(1-mu)
        two = np.vstack([s, s + 1e-3 * fs])
        rel = en._max_rel_energy_error(two, mu)
        C0 = -2 * en.crtbp_energy(s, mu) - mu * (1 - mu)
        C1 = -2 * en.crtbp_energy(two[1], mu) - mu * (1 - mu)
        expect = abs(C1 - C0) / abs(C0) if abs(C0) > 1e-14 else abs(C1 - C0)
        if not abs(rel - expect) <= 1e-9 * (1 + expect) + 1e-12:
            ctx.violation("two-jacobi-formulas", "_max_rel_energy_error uses a Jacobi formula inconsistent with crtbp_energy",
                          {"mu": mu, "states": two.tolist(), "rel_err_reported": float(rel), "expected": float(expect)})
            return
    propagate_drift(ctx)


def propagate_drift(ctx):
    """Energy drift along real propagations (every method), reported relative to tolerance; spatial states.
    Two different mass parameters are propagated one after the other through systems with the same (default) name:
    the mu baked into each compiled rhs closure must be the one of the system that is propagated."""
    from hiten.algorithms.common import energy as en
    from hiten.algorithms.dynamics.base import _propagate_dynsys
    from hiten.algorithms.dynamics import rtbp
    cases = [("adaptive", 8), ("adaptive", 5), ("fixed", 8), ("fixed", 6), ("fixed", 4)]
    if not ctx.thorough():
        cases = [("adaptive", 8), ("fixed", 8), ("fixed", 4)]
    worst = {}
    for mi, mu in enumerate((0.0121505856, 0.3)):
        # spatial states well away from both primaries for the respective mass parameter
        s0 = np.array([0.82, 0.05, 0.1, 0.02, 0.15, 0.07]) if mi == 0 else np.array([-0.6, 0.45, 0.1, 0.05, -0.2, 0.07])
        sysm = rtbp.rtbp_dynsys(mu)
        varm = rtbp.variational_dynsys(mu)
        for meth, order in (cases if mi == 0 else cases[:1]):
            for fwd in (1, -1):
                sol = _propagate_dynsys(sysm, s0, 0.0, 1.0, forward=fwd, steps=2001, method=meth, order=order)
                Es = np.array([en.crtbp_energy(y, mu) for y in sol.states[::50]])
                drift = float(np.abs(Es - Es[0]).max())
                worst["mu%d:%s%d%+d" % (mi, meth, order, fwd)] = drift
                ctx.case(("prop", mi, meth, order, fwd), kind="propagate")
                # scale-aware: |E|~1.5; all these methods at these steps are accurate to <=1e-7; a non-integral drifts by >=1e-3
                if not drift <= 1e-6:
                    ctx.violation("energy-drift:%s%d" % (meth, order), "energy drifts by %g along %s order %d propagation (forward=%d, mu=%g)" % (drift, meth, order, fwd, mu),
                                  {"mu": mu, "state0": list(s0), "tf": 1.0, "method": meth, "order": order, "forward": fwd, "drift": drift,
                                   "note": "systems are propagated in the order mu=0.0121505856, mu=0.3 within one process"})
                    return
        # the state part of the variational system follows the same trajectory and conserves the same integral
        PHI0 = np.concatenate([np.eye(6).ravel(), s0])
        solv = _propagate_dynsys(varm, PHI0, 0.0, 1.0, forward=1, steps=401, method="adaptive", order=8)
        xs = solv.states[:, 36:42]
        Es = np.array([en.crtbp_energy(y, mu) for y in xs[::20]])
        drift = float(np.abs(Es - Es[0]).max())
        ctx.case(("prop-var", mi), kind="propagate")
        if not drift <= 1e-6:
            ctx.violation("energy-drift:variational", "energy drifts by %g along the state part of the variational system (mu=%g)" % (drift, mu),
                          {"mu": mu, "state0": list(s0), "tf": 1.0, "drift": drift})
            return
    ctx.extra["energy_drift"] = worst
