/-
  Drivers/C20.lean — line protocol for the C20 correspondence (see harness/props/c20.py).
    H <keep> <val>                     -> canonical form of `mkHashable keep val`
    EQ <keep> <val> | <val>            -> "<keys equal 0/1> <sameKind 0/1>"
    K <service> <site> <val>*          -> does the key match the regenerated shape of that call site? 0/1/?
                                          (site `*`: of some site of the service — keys built by setters for `reset`)
    O <9 cfg bits> <M> <seed> <x> <T|-> ; op ; op …   -> "<outputs of the code model> | <outputs of the fresh twin>", each `<out>@<state>,<period>` (public state after the op)
    C <hamDeg 0/1/2> <bit> <bit> <seed> <d> ; op ; …    -> same for the centre manifold
    S <bit> <bit> <seed> <cfg> <opts> ; op ; …          -> same for the `compute_stability(options)` cache
  values:  n | i<nat> | s<text> | t<k> v1 … vk | l<k> v1 … vk | d<k> k1 v1 … kk vk
-/
import HitenModel.Core.C20
import HitenModel.Gen.C20
open HitenModel.C20

partial def parseVal : List String → Option (PyVal × List String)
  | [] => none
  | tok :: rest =>
    let hd := (tok.take 1).toString
    let tl := (tok.drop 1).toString
    if tok == "n" then some (.atom .none, rest)
    else if hd == "i" then tl.toNat?.map fun n => (.atom (.num n), rest)
    else if hd == "s" then some (.atom (.str tl), rest)
    else if hd == "t" || hd == "l" then
      match tl.toNat? with
      | none => none
      | some k =>
        let rec go (k : Nat) (toks : List String) : Option (PyList × List String) :=
          match k with
          | 0 => some (.nil, toks)
          | k + 1 =>
            match parseVal toks with
            | none => none
            | some (v, toks') =>
              match go k toks' with
              | none => none
              | some (vs, toks'') => some (.cons v vs, toks'')
        (go k rest).map fun (vs, r) => ((if hd == "t" then PyVal.tup vs else PyVal.lst vs), r)
    else if hd == "d" then
      match tl.toNat? with
      | none => none
      | some k =>
        let rec goD (k : Nat) (toks : List String) : Option (PyDict × List String) :=
          match k with
          | 0 => some (.nil, toks)
          | k + 1 =>
            match parseVal toks with
            | none => none
            | some (kk, toks1) =>
              match parseVal toks1 with
              | none => none
              | some (vv, toks2) =>
                match goD k toks2 with
                | none => none
                | some (r, toks3) => some (.cons kk vv r, toks3)
        (goD k rest).map fun (kvs, r) => (PyVal.dict kvs, r)
    else none

partial def parseVals (toks : List String) : Option (List PyVal) :=
  match toks with
  | [] => some []
  | _ => match parseVal toks with
         | none => none
         | some (v, r) => (parseVals r).map (v :: ·)

mutual
partial def showVal : PyVal → String
  | .atom .none => "n"
  | .atom (.num n) => s!"i{n}"
  | .atom (.str s) => s!"s{s}"
  | .tup xs => let l := showList xs; s!"t{l.length}" ++ String.join (l.map (" " ++ ·))
  | .lst xs => let l := showList xs; s!"l{l.length}" ++ String.join (l.map (" " ++ ·))
  | .dict kvs => let l := showDict kvs; s!"d{l.length / 2}" ++ String.join (l.map (" " ++ ·))
partial def showList : PyList → List String
  | .nil => []
  | .cons x xs => showVal x :: showList xs
partial def showDict : PyDict → List String
  | .nil => []
  | .cons k v r => showVal k :: showVal v :: showDict r
end

def showOut : Out → String
  | .unit => "u"
  | .tok t => s!"t{t}"
  | .pair a b => s!"p{a},{b}"
  | .opt none => "o-"
  | .opt (some v) => s!"o{v}"
  | .err c => s!"e{c}"

/-- the hash family shared with the Python stubs -/
def mix (M seed tag : Nat) (args : List Nat) : Nat :=
  let rec go (as : List Nat) (p acc : Nat) : Nat :=
    match as with
    | [] => acc
    | a :: r => go r (p * 31 % 1000003) ((acc + (a + 1) * p) % 1000003)
  (go args 31 (tag * 7919 + seed)) % M

def mkOracle (M seed : Nat) : Oracle where
  prop x T s m r := mix 1000003 seed 1 [x, T, s, m, r]
  mono x T := mix 1000003 seed 2 [x, T]
  stab x T := mix 1000003 seed 3 [x, T]
  energy x := mix 1000003 seed 4 [x]
  corr x c o := (mix M seed 5 [x, c, o], mix M seed 6 [x, c, o])
  man x T c := mix 1000003 seed 7 [x, T, c]

def mkCOracle (seed : Nat) : COracle where
  pipe n := mix 1000003 seed 11 [n]
  ham p f := mix 1000003 seed 12 [p, f]
  hsys p := mix 1000003 seed 13 [p]
  map n e := mix 1000003 seed 14 [n, e]

def showOpt : Option Nat → String
  | none => "-"
  | some n => toString n

/-- outputs augmented with the public state after the operation: `<out>@<state>,<period>` -/
def runO' (cfg : Cfg) (O : Oracle) : OState → List OOp → List String
  | _, [] => []
  | s, op :: ops =>
    let r := stepO cfg O s op
    (showOut r.2 ++ "@" ++ toString r.1.x ++ "," ++ showOpt r.1.T) :: runO' cfg O r.1 ops

def runL' (O : Oracle) : OLog → List OOp → List String
  | _, [] => []
  | l, op :: ops =>
    let r := stepL O l op
    (showOut r.2 ++ "@" ++ toString r.1.x ++ "," ++ showOpt r.1.T) :: runL' O r.1 ops

def runC' (cfg : CCfg) (O : COracle) : CState → List COp → List String
  | _, [] => []
  | s, op :: ops =>
    let r := stepC cfg O s op
    (showOut r.2 ++ "@" ++ toString r.1.d) :: runC' cfg O r.1 ops

def runCL' (cfg : CCfg) (O : COracle) : Nat → List COp → List String
  | _, [] => []
  | d, op :: ops =>
    let r := stepCL cfg O d op
    (showOut r.2 ++ "@" ++ toString r.1) :: runCL' cfg O r.1 ops

def optNat (s : String) : Option (Option Nat) := if s == "-" then some none else s.toNat?.map some

def parseOOp (toks : List String) : Option OOp :=
  match toks with
  | ["SP", t] => (optNat t).map .setPeriod
  | ["SPB"] => some .setPeriodBad
  | ["SC", c] => c.toNat?.map .setCorrCfg
  | ["CO", o] => o.toNat?.map .correct
  | ["PR", s, m, r] => do some (.propagate (← s.toNat?) (← m.toNat?) (← r.toNat?))
  | ["TR"] => some .trajectory
  | ["MO"] => some .monodromy
  | ["CS"] => some .computeStability
  | ["EV"] => some .eigenvalues
  | ["EN"] => some .energy
  | ["GP"] => some .getPeriod
  | ["GS"] => some .getState
  | ["MC", c] => c.toNat?.map .manCompute
  | ["MR"] => some .manResult
  | ["SL"] => some .saveLoad
  | _ => none

def parseCOp (toks : List String) : Option COp :=
  match toks with
  | ["SD", n] => n.toNat?.map .setDegree
  | ["SDB"] => some .setDegreeBad
  | ["GD"] => some .getDegree
  | ["HA", n] => n.toNat?.map .hamiltonian
  | ["CP", f] => f.toNat?.map .compute
  | ["HS"] => some .hamsys
  | ["MP", e] => e.toNat?.map .map
  | ["SL"] => some .saveLoad
  | _ => none

def parseSOp (toks : List String) : Option SOp :=
  match toks with
  | ["ST", o] => o.toNat?.map .stab
  | ["EG"] => some .eig
  | ["SO", o] => o.toNat?.map .setOpts
  | ["SG", c] => c.toNat?.map .setCfg
  | _ => none

def words (s : String) : List String := (s.splitOn " ").filter (· ≠ "")

def bit (s : String) : Bool := s == "1"

def handle (line : String) : String :=
  match words line with
  | "H" :: keep :: rest =>
    match parseVal rest with
    | some (v, []) => showVal (mkHashable (bit keep) v)
    | _ => "?parse"
  | "EQ" :: keep :: rest =>
    let i := rest.idxOf "|"
    match parseVal (rest.take i), parseVal (rest.drop (i + 1)) with
    | some (v, []), some (w, []) =>
      let e := PyVal.beq (mkHashable (bit keep) v) (mkHashable (bit keep) w)
      s!"{if e then 1 else 0} {if sameKind v w then 1 else 0}"
    | _, _ => "?parse"
  | "K" :: svc :: site :: rest =>
    match parseVals rest with
    | none => "?parse"
    | some key =>
      match HitenModel.Gen.C20.services.find? (·.1 == svc) with
      | none => "?service"
      | some (_, sites) =>
        if site == "*" then (if sites.any (fun p => matchesKey p.2 key) then "1" else "0")
        else match sites.find? (·.1 == site) with
        | none => "?site"
        | some (_, pat) => if matchesKey pat key then "1" else "0"
  | "O" :: b1 :: b2 :: b3 :: b4 :: b5 :: b6 :: b7 :: b8 :: b9 :: m :: seed :: x :: t :: rest =>
    match m.toNat?, seed.toNat?, x.toNat?, optNat t with
    | some M, some sd, some x, some T =>
      let cfg : Cfg := ⟨bit b1, bit b2, bit b3, bit b4, bit b5, bit b6, bit b7, bit b8, bit b9⟩
      let opsS := (String.intercalate " " rest).splitOn ";" |>.map words |>.filter (· ≠ [])
      match opsS.mapM parseOOp with
      | none => "?op"
      | some ops =>
        let O := mkOracle M sd
        let a := runO' cfg O (freshO x T) ops
        let b := runL' O (freshL x T) ops
        String.intercalate " " a ++ " | " ++ String.intercalate " " b
    | _, _, _, _ => "?args"
  | "C" :: hd :: b :: b2 :: seed :: d :: rest =>
    match hd.toNat?, seed.toNat?, d.toNat? with
    | some h, some sd, some d =>
      let cfg : CCfg := ⟨match h with | 0 => .never | 1 => .onMiss | _ => .always, bit b, bit b2⟩
      let opsS := (String.intercalate " " rest).splitOn ";" |>.map words |>.filter (· ≠ [])
      match opsS.mapM parseCOp with
      | none => "?op"
      | some ops =>
        let O := mkCOracle sd
        let a := runC' cfg O (freshC d) ops
        let b := runCL' cfg O d ops
        String.intercalate " " a ++ " | " ++ String.intercalate " " b
    | _, _, _ => "?args"
  | "S" :: a :: b :: seed :: c :: o :: rest =>
    match seed.toNat?, c.toNat?, o.toNat? with
    | some sd, some c, some o =>
      let opsS := (String.intercalate " " rest).splitOn ";" |>.map words |>.filter (· ≠ [])
      match opsS.mapM parseSOp with
      | none => "?op"
      | some ops =>
        let R := fun (c o : Nat) => mix 1000003 sd 21 [c, o]
        let x := runS ⟨bit a, bit b⟩ R (freshS c o) ops
        let y := runSL R (c, o) ops
        String.intercalate " " (x.map showOut) ++ " | " ++ String.intercalate " " (y.map showOut)
    | _, _, _ => "?args"
  | [] => ""
  | _ => "?cmd"

partial def loop (h : IO.FS.Stream) (out : IO.FS.Stream) : IO Unit := do
  let line ← h.getLine
  if line.isEmpty then return ()
  let l := (line.trimAsciiEnd).toString
  out.putStrLn (handle l)
  loop h out

def main : IO Unit := do
  let stdin ← IO.getStdin
  let stdout ← IO.getStdout
  loop stdin stdout
