/-
  Lemmas/REReal.lean — real semantics of `RE` and soundness of the symbolic derivative.
-/
import HitenModel.Core.RE
import Mathlib.Analysis.SpecialFunctions.Sqrt
import Mathlib.Analysis.Calculus.Deriv.Pow
import Mathlib.Analysis.Calculus.Deriv.Inv
import Mathlib.Analysis.Calculus.Deriv.Add
import Mathlib.Analysis.Calculus.Deriv.Mul
import Mathlib.Analysis.SpecialFunctions.Pow.Real
import Mathlib.Analysis.Calculus.MeanValue

namespace HitenModel
namespace RE

noncomputable def eval (ρ : Nat → ℝ) : RE → ℝ
  | var i => ρ i
  | const n d => (n : ℝ) / (d : ℝ)
  | add a b => eval ρ a + eval ρ b
  | sub a b => eval ρ a - eval ρ b
  | mul a b => eval ρ a * eval ρ b
  | div a b => eval ρ a / eval ρ b
  | neg a => - eval ρ a
  | pow a n => eval ρ a ^ n
  | sqrt a => Real.sqrt (eval ρ a)

/-- well-definedness at `ρ`: denominators non-zero, sqrt arguments positive -/
def WD (ρ : Nat → ℝ) : RE → Prop
  | var _ => True
  | const _ _ => True
  | add a b => WD ρ a ∧ WD ρ b
  | sub a b => WD ρ a ∧ WD ρ b
  | mul a b => WD ρ a ∧ WD ρ b
  | div a b => WD ρ a ∧ WD ρ b ∧ eval ρ b ≠ 0
  | neg a => WD ρ a
  | pow a _ => WD ρ a
  | sqrt a => WD ρ a ∧ 0 < eval ρ a

theorem D_sound (i : Nat) (ρ : Nat → ℝ) (e : RE) (h : WD ρ e) :
    HasDerivAt (fun t => eval (Function.update ρ i t) e) (eval ρ (D i e)) (ρ i) := by
  induction e with
  | var j =>
    by_cases hij : i = j
    · subst hij; simp only [eval, D, Function.update_self, if_true]
      simpa using hasDerivAt_id' (ρ i)
    · have : ∀ t, Function.update ρ i t j = ρ j := fun t => by
        simp [Function.update, Ne.symm hij]
      simp only [eval, D, hij, if_false, this]
      simpa using hasDerivAt_const (ρ i) (ρ j)
  | const n d => simp only [eval, D]; simpa using hasDerivAt_const (ρ i) ((n:ℝ)/(d:ℝ))
  | add a b iha ihb => simp only [eval, D]; exact (HasDerivAt.add (iha h.1) (ihb h.2) :)
  | sub a b iha ihb => simp only [eval, D]; exact (HasDerivAt.sub (iha h.1) (ihb h.2) :)
  | mul a b iha ihb =>
    simp only [eval, D]
    have := HasDerivAt.fun_mul (iha h.1) (ihb h.2)
    simpa [Function.update_eq_self] using this
  | div a b iha ihb =>
    simp only [eval, D]
    have hb : eval (Function.update ρ i (ρ i)) b ≠ 0 := by simpa using h.2.2
    have := HasDerivAt.fun_div (iha h.1) (ihb h.2.1) hb
    simpa [Function.update_eq_self] using this
  | neg a iha => simp only [eval, D]; exact (HasDerivAt.neg (iha h) :)
  | pow a n iha =>
    simp only [eval, D]
    have := HasDerivAt.fun_pow (iha h) n
    simpa [Function.update_eq_self] using this
  | sqrt a iha =>
    simp only [eval, D]
    have ha : eval (Function.update ρ i (ρ i)) a ≠ 0 := by simpa using h.2.ne'
    have := HasDerivAt.sqrt (iha h.1) ha
    simpa [Function.update_eq_self] using this


/-- directional derivative of `e` at `ρ` in direction `v` (total derivative along a curve) -/
noncomputable def DT (ρ v : Nat → ℝ) : RE → ℝ
  | var j => v j
  | const _ _ => 0
  | add a b => DT ρ v a + DT ρ v b
  | sub a b => DT ρ v a - DT ρ v b
  | mul a b => DT ρ v a * eval ρ b + eval ρ a * DT ρ v b
  | div a b => (DT ρ v a * eval ρ b - eval ρ a * DT ρ v b) / (eval ρ b) ^ 2
  | neg a => - DT ρ v a
  | pow a n => (n : ℝ) * eval ρ a ^ (n - 1) * DT ρ v a
  | sqrt a => DT ρ v a / (2 * Real.sqrt (eval ρ a))

/-- chain rule along a differentiable curve `γ` in the space of variable assignments -/
theorem DT_sound (γ : ℝ → Nat → ℝ) (v : Nat → ℝ) (t : ℝ)
    (hγ : ∀ j, HasDerivAt (fun s => γ s j) (v j) t) (e : RE) (h : WD (γ t) e) :
    HasDerivAt (fun s => eval (γ s) e) (DT (γ t) v e) t := by
  induction e with
  | var j => simpa only [eval, DT] using hγ j
  | const n d => simp only [eval, DT]; exact hasDerivAt_const t _
  | add a b iha ihb => simp only [eval, DT]; exact (HasDerivAt.add (iha h.1) (ihb h.2) :)
  | sub a b iha ihb => simp only [eval, DT]; exact (HasDerivAt.sub (iha h.1) (ihb h.2) :)
  | mul a b iha ihb => simp only [eval, DT]; exact (HasDerivAt.fun_mul (iha h.1) (ihb h.2) :)
  | div a b iha ihb => simp only [eval, DT]; exact (HasDerivAt.fun_div (iha h.1) (ihb h.2.1) h.2.2 :)
  | neg a iha => simp only [eval, DT]; exact (HasDerivAt.neg (iha h) :)
  | pow a n iha => simp only [eval, DT]; exact (HasDerivAt.fun_pow (iha h) n :)
  | sqrt a iha => simp only [eval, DT]; exact (HasDerivAt.sqrt (iha h.1) h.2.ne' :)

/-- a quantity whose directional derivative along the velocity of a curve vanishes identically is constant
along the curve (first-integral lemma used by the energy theorems) -/
theorem const_along_curve (γ : ℝ → Nat → ℝ) (v : ℝ → Nat → ℝ) (e : RE)
    (hγ : ∀ t j, HasDerivAt (fun s => γ s j) (v t j) t) (hWD : ∀ t, WD (γ t) e)
    (h0 : ∀ t, DT (γ t) (v t) e = 0) (a b : ℝ) : eval (γ a) e = eval (γ b) e := by
  have hd : ∀ t, HasDerivAt (fun s => eval (γ s) e) 0 t := fun t => by
    have := DT_sound γ (v t) t (hγ t) e (hWD t)
    rwa [h0 t] at this
  exact is_const_of_deriv_eq_zero (fun t => (hd t).differentiableAt) (fun t => (hd t).deriv) a b

/-- Python's `s ** 1.5` etc. are traced as `(sqrt s)^3`; this is `Real.rpow` on the admissible domain. -/
theorem rpow_three_halves {s : ℝ} (hs : 0 < s) : s ^ ((3:ℝ)/2) = (Real.sqrt s) ^ 3 := by
  rw [Real.sqrt_eq_rpow, ← Real.rpow_natCast, ← Real.rpow_mul hs.le]; norm_num

theorem rpow_five_halves {s : ℝ} (hs : 0 < s) : s ^ ((5:ℝ)/2) = (Real.sqrt s) ^ 5 := by
  rw [Real.sqrt_eq_rpow, ← Real.rpow_natCast, ← Real.rpow_mul hs.le]; norm_num

end RE
end HitenModel
